(* Extraction of the executable model and of the decidable specifications.
   Only ExtrOcamlBasic: bool, option, unit, list, prod, sumbool, sumor map to OCaml's own types
   and andb/orb are inlined; Z, positive, N, nat stay the extracted inductive types. *)
Require Import ExtrOcamlBasic.
Require Import RQ.Base RQ.F32 RQ.Rect RQ.Pixel RQ.Surface RQ.Raster RQ.PathF RQ.PathOps RQ.Contains RQ.PixelFormat RQ.Shader RQ.Target RQ.PathShape.
Extraction Language OCaml.
Separate Extraction
  Base.wrap32 Base.wrapu32 Base.zrange
  F32.of_bits F32.to_bits F32.fadd F32.fsub F32.fmul F32.fdiv F32.fsqrt F32.to_i32 F32.to_u32 F32.to_u8 F32.of_int
  F32.flt F32.fle F32.feq F32.fhalf F32.f255 F32.unit_to_u8 F32.unit_to_u32
  Pixel.blend Pixel.all_modes Pixel.lerp Pixel.over Pixel.over_in Pixel.over_in_in Pixel.alpha_mul Pixel.muldiv255
  Pixel.premultiply Pixel.blend_mask_px Pixel.blend_mask_clip_px Pixel.premul
  Surface.surface_op Surface.surface_spec_ok
  Raster.rast_idle Shader.new_linear_gradient Shader.new_radial_gradient Shader.new_two_circle_radial_gradient Shader.new_sweep_gradient
  PathOps.contains_point_flat PathOps.flatten PathOps.dash_path PathOps.stroke_to_path PathOps.builder_rect PathOps.path_transform PathOps.curve_starts
  Contains.contains_Z Contains.contains_spec
  PathShape.b_run PathShape.b_new
  PixelFormat.to_u32 PixelFormat.from_unpremultiplied_argb PixelFormat.byte_view PixelFormat.set_byte PixelFormat.from_vec PixelFormat.png_bytes PixelFormat.word_bytes
  Target.dt_new Target.step_op Target.clip_bounds Target.top_clip_mask Target.probe_region Target.step_forced Target.dest_of.
