(* Base: result monad, i32 helpers, list/buffer helpers used by every model file.
   Model definitions only use Z, list, option, bool; proofs about them are kept
   in the same file only when they are interface lemmas needed everywhere. *)
From Coq Require Export ZArith List Bool Lia.
From Coq Require Import ZifyBool.
Export ListNotations.
Open Scope Z_scope.

(* ---------- outcomes ---------- *)
Inductive err := OutOfBounds | Overflow | DivZero | DebugAssert | Unwrap | OutOfFuel | AllocSize | Unsupported | PixelOverflow.
Inductive result (A : Type) := Ok (a : A) | Err (e : err).
Arguments Ok {A} a.
Arguments Err {A} e.

Definition bind {A B} (r : result A) (f : A -> result B) : result B :=
  match r with Ok a => f a | Err e => Err e end.
Notation "'do' x <- r ; k" := (bind r (fun x => k)) (at level 200, x pattern, r at level 100, k at level 200).

Definition is_ok {A} (r : result A) : bool := match r with Ok _ => true | Err _ => false end.

(* ---------- machine integers ---------- *)
Definition i32_min : Z := -2147483648.
Definition i32_max : Z := 2147483647.
Definition in_i32 (v : Z) : bool := (i32_min <=? v) && (v <=? i32_max).
(* a checked i32 operation: Err Overflow where a debug build panics *)
Definition chk32 (v : Z) : result Z := if in_i32 v then Ok v else Err Overflow.
(* i32::saturating_add and friends: the exact result clamped to the i32 range *)
Definition sat32 (v : Z) : Z := Z.max i32_min (Z.min i32_max v).
(* two's complement wrap to i32 / u32 / u8 (Rust "as" casts and wrapping arithmetic) *)
Definition wrapu32 (v : Z) : Z := Z.land v 4294967295.
Definition wrap32 (v : Z) : Z := let u := wrapu32 v in if u <? 2147483648 then u else u - 4294967296.
Definition wrapu8 (v : Z) : Z := Z.land v 255.
Definition wrapu16 (v : Z) : Z := Z.land v 65535.

(* ---------- ranges ---------- *)
Fixpoint zrange_from (lo : Z) (n : nat) : list Z :=
  match n with O => [] | S k => lo :: zrange_from (lo + 1) k end.
(* lo, lo+1, ..., hi-1 (empty when hi <= lo) *)
Definition zrange (lo hi : Z) : list Z := zrange_from lo (Z.to_nat (hi - lo)).

(* ---------- flat buffers ---------- *)
Definition zlen {A} (l : list A) : Z := Z.of_nat (length l).

(* &buf[a..b] : panics when a > b or b > len (negative values become huge usize) *)
Definition slice {A} (l : list A) (a b : Z) : result (list A) :=
  if (0 <=? a) && (a <=? b) && (b <=? zlen l)
  then Ok (firstn (Z.to_nat (b - a)) (skipn (Z.to_nat a) l))
  else Err OutOfBounds.

(* &buf[a..] *)
Definition slice_from {A} (l : list A) (a : Z) : result (list A) :=
  if (0 <=? a) && (a <=? zlen l) then Ok (skipn (Z.to_nat a) l) else Err OutOfBounds.

(* write `new` over buf[a .. a + len new) ; caller guarantees the range is inside *)
Definition splice {A} (l : list A) (a : Z) (new : list A) : list A :=
  firstn (Z.to_nat a) l ++ new ++ skipn (Z.to_nat a + length new) l.

Definition get {A} (l : list A) (i : Z) : result A :=
  if i <? 0 then Err OutOfBounds else
  match nth_error l (Z.to_nat i) with Some v => Ok v | None => Err OutOfBounds end.

Definition set {A} (l : list A) (i : Z) (v : A) : result (list A) :=
  if (0 <=? i) && (i <? zlen l) then Ok (splice l i [v]) else Err OutOfBounds.

(* read with a default, Z index (used by specifications) *)
Definition zn (l : list Z) (i : Z) : Z := nth (Z.to_nat i) l 0.

Fixpoint map2 {A B C} (f : A -> B -> C) (l1 : list A) (l2 : list B) : list C :=
  match l1, l2 with a :: t1, b :: t2 => f a b :: map2 f t1 t2 | _, _ => [] end.

(* zip with a function that may fail (first failure wins, left to right) *)
Fixpoint map2r {A B C} (f : A -> B -> result C) (l1 : list A) (l2 : list B) : result (list C) :=
  match l1, l2 with
  | a :: t1, b :: t2 => do c <- f a b; do t <- map2r f t1 t2; Ok (c :: t)
  | _, _ => Ok []
  end.

(* ---------- lemmas ---------- *)
Lemma map2r_total {A B C} (f : A -> B -> result C) (f' : A -> B -> C) l1 l2 :
  (forall a b, f a b = Ok (f' a b)) -> map2r f l1 l2 = Ok (map2 f' l1 l2).
Proof.
  intros H. revert l2; induction l1 as [|a t IH]; intros [|b t2]; cbn; try reflexivity.
  rewrite H. cbn. rewrite IH. reflexivity.
Qed.

Lemma zrange_from_length lo n : length (zrange_from lo n) = n.
Proof. revert lo; induction n as [|k IH]; intros lo; cbn; [reflexivity|]. now rewrite IH. Qed.

Lemma zrange_from_In lo n y : In y (zrange_from lo n) <-> lo <= y < lo + Z.of_nat n.
Proof.
  revert lo; induction n as [|k IH]; intros lo; cbn [zrange_from In].
  - lia.
  - rewrite IH. lia.
Qed.

Lemma zrange_In lo hi y : In y (zrange lo hi) <-> lo <= y < hi.
Proof. unfold zrange. rewrite zrange_from_In. lia. Qed.

Lemma zrange_from_NoDup lo n : NoDup (zrange_from lo n).
Proof.
  revert lo; induction n as [|k IH]; intros lo; cbn; constructor.
  - rewrite zrange_from_In. lia.
  - apply IH.
Qed.

Lemma zlen_nonneg {A} (l : list A) : 0 <= zlen l.
Proof. unfold zlen; lia. Qed.

Lemma map2_length {A B C} (f : A -> B -> C) l1 l2 : length (map2 f l1 l2) = Nat.min (length l1) (length l2).
Proof. revert l2; induction l1 as [|a t IH]; intros [|b t2]; cbn; try reflexivity. now rewrite IH. Qed.

Lemma nth_map2 {A B C} (f : A -> B -> C) l1 l2 i da db dc :
  (i < length l1)%nat -> (i < length l2)%nat ->
  nth i (map2 f l1 l2) dc = f (nth i l1 da) (nth i l2 db).
Proof.
  revert l2 i; induction l1 as [|a t IH]; intros [|b t2] [|i] H1 H2; cbn in *; try lia; try reflexivity.
  apply IH; lia.
Qed.

Lemma nth_skipn' {A} (l : list A) n i d : nth i (skipn n l) d = nth (n + i) l d.
Proof.
  revert l; induction n as [|k IH]; intros l; cbn [skipn plus]; [reflexivity|].
  destruct l as [|x t]; [destruct i; reflexivity|]. cbn [nth]. apply IH.
Qed.

Lemma nth_firstn' {A} (l : list A) n i d : (i < n)%nat -> nth i (firstn n l) d = nth i l d.
Proof.
  revert l i; induction n as [|k IH]; intros l i Hi; [lia|].
  destruct l as [|x t]; [reflexivity|]. destruct i as [|i]; cbn; [reflexivity|]. apply IH; lia.
Qed.

Lemma splice_length {A} (l : list A) a new :
  0 <= a -> (Z.to_nat a + length new <= length l)%nat -> length (splice l a new) = length l.
Proof.
  intros Ha Hl. unfold splice. rewrite !app_length, firstn_length, skipn_length. lia.
Qed.

Lemma nth_splice {A} (l : list A) a new i d :
  0 <= a -> (Z.to_nat a + length new <= length l)%nat ->
  nth i (splice l a new) d =
    if (Nat.leb (Z.to_nat a) i && Nat.ltb i (Z.to_nat a + length new))%bool
    then nth (i - Z.to_nat a) new d else nth i l d.
Proof.
  intros Ha Hl. unfold splice.
  destruct (Nat.leb_spec (Z.to_nat a) i) as [Hge|Hlt]; cbn [andb].
  - rewrite app_nth2 by (rewrite firstn_length; lia).
    rewrite firstn_length, Nat.min_l by lia.
    destruct (Nat.ltb_spec i (Z.to_nat a + length new)) as [Hin|Hout].
    + rewrite app_nth1 by lia. reflexivity.
    + rewrite app_nth2 by lia. rewrite nth_skipn'. f_equal. lia.
  - rewrite app_nth1 by (rewrite firstn_length; lia). apply nth_firstn'; lia.
Qed.

Lemma slice_ok {A} (l : list A) a b r : slice l a b = Ok r ->
  0 <= a <= b /\ b <= zlen l /\ length r = Z.to_nat (b - a) /\
  forall i d, (i < Z.to_nat (b - a))%nat -> nth i r d = nth (Z.to_nat a + i) l d.
Proof.
  unfold slice. destruct ((0 <=? a) && (a <=? b) && (b <=? zlen l)) eqn:E; [|discriminate].
  intros H; inversion H; subst r; clear H. unfold zlen in *.
  repeat split; try lia.
  - rewrite firstn_length, skipn_length. lia.
  - intros i d Hi. rewrite nth_firstn' by lia. apply nth_skipn'.
Qed.

Lemma slice_in_range {A} (l : list A) a b : 0 <= a <= b -> b <= zlen l -> exists r, slice l a b = Ok r.
Proof.
  intros H1 H2. unfold slice.
  destruct ((0 <=? a) && (a <=? b) && (b <=? zlen l)) eqn:E; [eexists; reflexivity|lia].
Qed.
