(* C05: the clip stack summarises what was pushed: the top entry's rectangle is the intersection of the
   surface with every rectangle pushed and not yet popped, its mask the muldiv255-fold of the coverage
   masks of every path pushed and not yet popped; pop restores the previous entry exactly. *)
Require Import RQ.Base RQ.F32 RQ.Rect RQ.Pixel RQ.Raster RQ.PathF RQ.Shader RQ.Surface RQ.Target RQ.TargetProofs RQ.OpsProofs.
From Coq Require Import ZifyBool.

(* what was pushed (newest first): a rectangle, or a path given by its own antialiased coverage mask *)
Inductive creq := CRect (r : rect) | CPath (m : list Z).

Definition combine_masks (n : nat) (m prev : list Z) : list Z :=
  map2 (fun a b => wrapu8 (muldiv255 a b)) (firstn n m) (firstn n prev) ++ skipn n m.

Fixpoint rect_of (surf : rect) (g : list creq) : rect :=
  match g with
  | [] => surf
  | CRect r :: t => r_inter (rect_of surf t) r
  | CPath _ :: t => rect_of surf t
  end.
Fixpoint mask_of (n : nat) (g : list creq) : option (list Z) :=
  match g with
  | [] => None
  | CRect _ :: t => mask_of n t
  | CPath m :: t => Some (match mask_of n t with None => m | Some prev => combine_masks n m prev end)
  end.
Fixpoint clips_for (surf : rect) (n : nat) (g : list creq) : list clip :=
  match g with
  | [] => []
  | q :: t => mk_clip (rect_of surf (q :: t)) (mask_of n (q :: t)) :: clips_for surf n t
  end.

Definition clip_inv (st : dt) (g : list creq) : Prop :=
  d_clips st = clips_for (surface_rect st) (Z.to_nat (d_w st * d_h st)) g.

Lemma clip_inv_top st g : clip_inv st g ->
  clip_bounds st = rect_of (surface_rect st) g /\ top_clip_mask st = mask_of (Z.to_nat (d_w st * d_h st)) g.
Proof.
  unfold clip_inv, clip_bounds, top_clip_mask. intros ->. destruct g as [|q t]; cbn; split; reflexivity.
Qed.

(* push_clip_rect *)
Theorem push_clip_rect_inv st g r : clip_inv st g -> clip_inv (push_clip_rect st r) (CRect r :: g).
Proof.
  intros H. destruct (clip_inv_top _ _ H) as [Hb Hm]. unfold clip_inv in *.
  change (surface_rect (push_clip_rect st r)) with (surface_rect st).
  change (d_w (push_clip_rect st r)) with (d_w st). change (d_h (push_clip_rect st r)) with (d_h st).
  cbn [clips_for rect_of mask_of]. rewrite <- H, <- Hb, <- Hm.
  unfold push_clip_rect, clip_bounds, top_clip_mask. cbn [d_clips with_clips].
  destruct (d_clips st) as [|c ct]; reflexivity.
Qed.

(* pop_clip *)
Theorem pop_clip_inv st g : clip_inv st g -> clip_inv (pop_clip st) (tl g).
Proof.
  unfold clip_inv. intros H.
  change (d_clips (pop_clip st)) with (tl (d_clips st)).
  change (surface_rect (pop_clip st)) with (surface_rect st).
  change (d_w (pop_clip st)) with (d_w st). change (d_h (pop_clip st)) with (d_h st).
  rewrite H. destruct g; reflexivity.
Qed.
Theorem pop_restores_rect st r : d_clips (pop_clip (push_clip_rect st r)) = d_clips st.
Proof. reflexivity. Qed.

(* push_clip: the new entry keeps the bounds and multiplies the path's coverage into the mask *)
Theorem push_clip_inv st g p st' : clip_inv st g -> push_clip st p = Ok st' ->
  exists m, clip_inv st' (CPath m :: g) /\ d_clips (pop_clip st') = d_clips st /\
            d_w st' = d_w st /\ d_h st' = d_h st /\ d_buf st' = d_buf st /\ d_layers st' = d_layers st /\ d_ctm st' = d_ctm st.
Proof.
  intros H. destruct (clip_inv_top _ _ H) as [Hb Hm]. unfold push_clip.
  destruct (rasterize _ _ _ _) as [[rz' m]|e]; [|discriminate]. cbn [bind]. intros E. inversion E; subst st'; clear E.
  exists (m_buf m). repeat split.
  unfold clip_inv in *.
  match goal with |- d_clips ?s = _ => change (surface_rect s) with (surface_rect st); change (d_w s) with (d_w st); change (d_h s) with (d_h st) end.
  cbn [clips_for rect_of mask_of]. rewrite <- H, <- Hb, <- Hm.
  cbn [reset_raster with_cur with_clips d_clips clip_bounds top_clip_mask].
  unfold clip_bounds, top_clip_mask. cbn [d_clips with_cur].
  destruct (d_clips st) as [|c ct]; [reflexivity|]. destruct (c_mask c); reflexivity.
Qed.

(* the rectangle is the intersection, whatever the order *)
Theorem rect_of_in surf g X Y :
  r_in (rect_of surf g) X Y = true <-> r_in surf X Y = true /\ forall r, In (CRect r) g -> r_in r X Y = true.
Proof.
  induction g as [|q t IH]; cbn [rect_of].
  - split; [intros H; split; [exact H|intros r []]|intros [H _]; exact H].
  - destruct q as [r|m].
    + assert (Hi : r_in (r_inter (rect_of surf t) r) X Y = true <-> r_in (rect_of surf t) X Y = true /\ r_in r X Y = true).
      { unfold r_in, r_inter. cbn [x0 y0 x1 y1]. lia. }
      rewrite Hi, IH. split.
      * intros [[Hs Ht] Hr]. split; [exact Hs|]. intros r' [E|Hin]; [inversion E; subst; exact Hr|apply Ht; exact Hin].
      * intros [Hs Hall]. split; [split; [exact Hs|intros r' Hin; apply Hall; right; exact Hin]|apply Hall; left; reflexivity].
    + rewrite IH. split; intros [Hs Hall]; (split; [exact Hs|]); intros r' Hin.
      * destruct Hin as [E|Hin]; [discriminate|apply Hall; exact Hin].
      * apply Hall. right. exact Hin.
Qed.
(* disjoint rectangles simply clip everything *)
Corollary empty_intersection_clips_all surf g r1 r2 X Y :
  In (CRect r1) g -> In (CRect r2) g -> r_in r1 X Y = false \/ r_in r2 X Y = false -> r_in (rect_of surf g) X Y = false.
Proof.
  intros H1 H2 Hd. destruct (r_in (rect_of surf g) X Y) eqn:E; [|reflexivity].
  apply rect_of_in in E. destruct E as [_ Hall]. rewrite (Hall _ H1), (Hall _ H2) in Hd. destruct Hd; discriminate.
Qed.

(* the mask: zero wherever any pushed path has zero coverage *)
Lemma zn_combine n m prev i : 0 <= i < Z.of_nat n -> (n <= length m)%nat -> (n <= length prev)%nat ->
  zn (combine_masks n m prev) i = wrapu8 (muldiv255 (zn m i) (zn prev i)).
Proof.
  intros Hi Hm Hp. unfold combine_masks, zn.
  rewrite app_nth1 by (rewrite map2_length, !firstn_length; lia).
  rewrite (nth_map2 _ _ _ _ 0 0 0) by (rewrite firstn_length; lia).
  rewrite !nth_firstn' by lia. reflexivity.
Qed.
Lemma combine_length n m prev : (n <= length m)%nat -> (n <= length prev)%nat -> length (combine_masks n m prev) = length m.
Proof.
  intros Hm Hp. unfold combine_masks. rewrite app_length, map2_length, !firstn_length, skipn_length. lia.
Qed.

Definition masks_long (n : nat) (g : list creq) : Prop := forall m, In (CPath m) g -> (n <= length m)%nat.

Lemma mask_of_length n g mk : masks_long n g -> mask_of n g = Some mk -> (n <= length mk)%nat.
Proof.
  revert mk; induction g as [|q t IH]; intros mk Hl H; [discriminate|].
  destruct q as [r|m]; cbn [mask_of] in H.
  - apply IH; [intros m' Hin; apply Hl; right; exact Hin|exact H].
  - inversion H; subst mk; clear H.
    assert (Hm : (n <= length m)%nat) by (apply Hl; left; reflexivity).
    destruct (mask_of n t) as [prev|] eqn:Ep; [|exact Hm].
    rewrite combine_length; [exact Hm|exact Hm|]. apply IH; [intros m' Hin; apply Hl; right; exact Hin|reflexivity].
Qed.

Theorem mask_of_zero n g mk m i : masks_long n g -> mask_of n g = Some mk -> In (CPath m) g -> 0 <= i < Z.of_nat n ->
  zn m i = 0 -> zn mk i = 0.
Proof.
  revert mk; induction g as [|q t IH]; intros mk Hl H Hin Hi Hz; [destruct Hin|].
  assert (Hlt : masks_long n t) by (intros m' Hin'; apply Hl; right; exact Hin').
  destruct q as [r|m0]; cbn [mask_of] in H.
  - destruct Hin as [E|Hin]; [discriminate|]. eapply IH; eassumption.
  - inversion H; subst mk; clear H.
    assert (Hm0 : (n <= length m0)%nat) by (apply Hl; left; reflexivity).
    destruct (mask_of n t) as [prev|] eqn:Ep.
    + rewrite zn_combine; [|exact Hi|exact Hm0|eapply mask_of_length; eassumption].
      destruct Hin as [E|Hin].
      * inversion E; subst m0. rewrite Hz, muldiv255_0_l. reflexivity.
      * rewrite (IH prev Hlt eq_refl Hin Hi Hz), muldiv255_0_r. reflexivity.
    + destruct Hin as [E|Hin]; [inversion E; subst; exact Hz|].
      (* no mask below means no path below *)
      exfalso. clear - Ep Hin. induction t as [|q t IH]; [destruct Hin|].
      destruct q; cbn [mask_of] in Ep; [destruct Hin as [E|Hin]; [discriminate|auto]|discriminate].
Qed.

(* a rectangle pushed on top of paths keeps their mask; a path pushed on top of rectangles keeps their intersection *)
Theorem mask_survives_rect n g r : mask_of n (CRect r :: g) = mask_of n g.
Proof. reflexivity. Qed.
Theorem rect_survives_path surf g m : rect_of surf (CPath m :: g) = rect_of surf g.
Proof. reflexivity. Qed.

(* ---- over whole call sequences ---- *)
Lemma clip_inv_transport st st' g : clip_inv st g -> d_clips st' = d_clips st -> d_w st' = d_w st -> d_h st' = d_h st -> clip_inv st' g.
Proof. unfold clip_inv, surface_rect. intros H A B C. rewrite A, B, C. exact H. Qed.

Lemma same_frame_clip st st' g : clip_inv st g -> same_frame st st' -> clip_inv st' g.
Proof. intros H (A & B & C & _). eapply clip_inv_transport; eassumption. Qed.

Definition ghost_after (o : op) (g g' : list creq) : Prop :=
  match o with
  | OpPushClipRect r => g' = CRect r :: g
  | OpPushClip _ => exists m, g' = CPath m :: g
  | OpPopClip => g' = tl g
  | _ => g' = g
  end.

Theorem clip_inv_step st o st' g : d_probe st = 0 -> clip_inv st g -> step_op st o = Ok st' ->
  exists g', ghost_after o g g' /\ clip_inv st' g'.
Proof.
  intros Hp H E.
  destruct (drawing_op o) eqn:Hd.
  - exists g. split; [destruct o; try discriminate; reflexivity|].
    eapply same_frame_clip; [exact H|]. apply effect_same_frame; [exact Hp|]. eapply drawing_op_effect; eassumption.
  - destruct o; try discriminate; cbn [step_op] in E.
    + inversion E; subst. exists g. split; [reflexivity|]. eapply clip_inv_transport; [exact H|reflexivity..].
    + inversion E; subst. eexists. split; [reflexivity|]. apply push_clip_rect_inv; exact H.
    + destruct (push_clip_inv _ _ _ _ H E) as (m & Hi & _). exists (CPath m :: g). split; [exists m; reflexivity|exact Hi].
    + inversion E; subst. eexists. split; [reflexivity|]. apply pop_clip_inv; exact H.
    + inversion E; subst. exists g. split; [reflexivity|]. eapply clip_inv_transport; [exact H|reflexivity..].
    + (* pop_layer *)
      exists g. split; [reflexivity|].
      destruct (pop_layer_is_one_composite _ _ E) as (l & rest & st2 & Hl & Hc & ->).
      destruct (composite_is_set_dest (with_ctm (with_layers st rest) xf_identity) _ _ _ _ _ _ _ Hp Hc) as (d & -> & _).
      destruct (set_dest_other (with_ctm (with_layers st rest) xf_identity) d) as (A1 & A2 & A3 & _).
      eapply clip_inv_transport; [exact H|..]; cbn [with_ctm d_clips d_w d_h]; [rewrite A3|rewrite A1|rewrite A2]; reflexivity.
    + (* fill of the pre-transformed path *)
      exists g. split; [reflexivity|].
      destruct (fill _ _ _ _) as [stF|] eqn:Ef; [|discriminate]. cbn [bind] in E. inversion E; subst.
      apply fill_effect in Ef. apply effect_under_ctm in Ef.
      eapply same_frame_clip; [exact H|]. apply effect_same_frame; [exact Hp|exact Ef].
    + destruct (surface_op _ _ _ _ _ _ _ _ _ _) as [b|]; [|discriminate]. cbn [bind] in E. inversion E; subst.
      exists g. split; [reflexivity|]. eapply clip_inv_transport; [exact H|reflexivity..].
Qed.

(* d_probe is never changed by an op *)
Lemma step_probe st o st' : d_probe st = 0 -> step_op st o = Ok st' -> d_probe st' = 0.
Proof.
  intros Hp E. destruct (drawing_op o) eqn:Hd.
  - pose proof (effect_same_frame _ _ Hp (drawing_op_effect _ _ _ Hd E)) as (_ & _ & _ & _ & P & _). congruence.
  - destruct o; try discriminate; cbn [step_op] in E; try (inversion E; subst; exact Hp).
    + unfold push_clip in E. destruct (rasterize _ _ _ _) as [[? ?]|]; [|discriminate]. inversion E; subst. exact Hp.
    + destruct (pop_layer_is_one_composite _ _ E) as (l & rest & st2 & Hl & Hc & ->).
      destruct (composite_is_set_dest (with_ctm (with_layers st rest) xf_identity) _ _ _ _ _ _ _ Hp Hc) as (d & -> & _).
      destruct (set_dest_other (with_ctm (with_layers st rest) xf_identity) d) as (_ & _ & _ & _ & _ & A6 & _).
      cbn [with_ctm d_probe]. rewrite A6. exact Hp.
    + destruct (fill _ _ _ _) as [stF|] eqn:Ef; [|discriminate]. cbn [bind] in E. inversion E; subst.
      apply fill_effect in Ef. apply effect_under_ctm in Ef.
      pose proof (effect_same_frame _ _ Hp Ef) as (_ & _ & _ & _ & P & _). congruence.
    + destruct (surface_op _ _ _ _ _ _ _ _ _ _) as [b|]; [|discriminate]. cbn [bind] in E. inversion E; subst. exact Hp.
Qed.

Fixpoint run_ops (st : dt) (ops : list op) : result dt :=
  match ops with [] => Ok st | o :: t => do st' <- step_op st o; run_ops st' t end.

(* C05: after ANY sequence of calls (clip pushes and pops interleaved with transforms, layers and every drawing
   call) starting from a fresh target, the clip stack is the summary of what is pushed and not yet popped *)
Theorem clip_stack_is_summary ops : forall st g st', d_probe st = 0 -> clip_inv st g -> run_ops st ops = Ok st' ->
  exists g', clip_inv st' g'.
Proof.
  induction ops as [|o t IH]; intros st g st' Hp H E; cbn [run_ops] in E.
  - inversion E; subst. exists g; exact H.
  - destruct (step_op st o) as [s1|] eqn:E1; [|discriminate]. cbn [bind] in E.
    destruct (clip_inv_step _ _ _ _ Hp H E1) as (g1 & _ & H1).
    eapply IH; [eapply step_probe; eassumption|exact H1|exact E].
Qed.
Lemma clip_inv_fresh w h buf : clip_inv (dt_new w h buf) [].
Proof. reflexivity. Qed.
