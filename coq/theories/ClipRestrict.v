(* ClipRestrict: a rectangular clip restricts the drawing and changes nothing else (C05, last clause:
   "for rectangular clips the result inside the clip equals the unclipped drawing exactly").

   st  : a state whose top clip entry carries no path mask (top_clip_mask st = None; this is the case when every
         entry of the clip stack is a rectangle entry, all_rect_clips)
   st0 : the same state with an empty clip stack (unclip st = with_clips st [])

     1. composite_rect_clip      one composite, any layers / transform / mask / mode
     2. fill_rect_clip, mask_op_rect_clip, fill_rect_rect_clip, clear_rect_clip, rect_clip_restricts (op level)
     3. rect_clip_restricts_total (both calls return, under dt_wf / raster_ok / op_in_range / op_no_wrap / separable) *)
Require Import RQ.Base RQ.F32 RQ.Rect RQ.Pixel RQ.PixelProofs RQ.Raster RQ.RasterProofs RQ.RasterIdle RQ.RasterTotal RQ.PathF RQ.PathOps
               RQ.Shader RQ.Surface RQ.Target RQ.SurfaceProofs RQ.TargetProofs RQ.PixelCorollaries RQ.OpsProofs RQ.ClipProofs
               RQ.PremulDraw RQ.FillProofs RQ.TotalProofs RQ.IdleProofs RQ.RasterGlue.
From Coq Require Import ZArith List Lia Bool ZifyBool.
Import ListNotations.
Open Scope Z_scope.
Ltac Zify.zify_post_hook ::= Z.to_euclidean_division_equations.

(* ===== 0. vocabulary ===== *)
Definition unclip (st : dt) : dt := with_clips st [].
Definition all_rect_clips (st : dt) : Prop := Forall (fun c => c_mask c = None) (d_clips st).

Lemma all_rect_clips_top st : all_rect_clips st -> top_clip_mask st = None.
Proof.
  unfold all_rect_clips, top_clip_mask. destruct (d_clips st) as [|c t]; [reflexivity|].
  intros H. inversion H; assumption.
Qed.
(* push_clip_rect on a stack of rectangle entries gives a stack of rectangle entries *)
Lemma push_clip_rect_all_rect st r : all_rect_clips st -> all_rect_clips (push_clip_rect st r).
Proof.
  unfold all_rect_clips, push_clip_rect. cbn [with_clips d_clips]. intros H.
  constructor; [|exact H]. destruct (d_clips st) as [|c t]; cbn [c_mask]; [reflexivity|]. inversion H; assumption.
Qed.
Lemma dt_new_all_rect w h buf : all_rect_clips (dt_new w h buf).
Proof. constructor. Qed.

(* the pixel statement, on the current destination (the surface, or the innermost layer), for a pixel (X,Y) of the
   destination that lies on the surface:
   inside the clip bounds the clipped result s1 has the pixel of the unclipped result s0, outside it keeps st's *)
Definition restricts (st s1 s0 : dt) : Prop :=
  let db := snd (dest_of st) in let dest := fst (dest_of st) in
  snd (dest_of s1) = db /\ snd (dest_of s0) = db /\
  zlen (fst (dest_of s1)) = zlen dest /\ zlen (fst (dest_of s0)) = zlen dest /\
  forall X Y, x0 db <= X < x1 db -> 0 <= didx db X Y < zlen dest -> r_in (surface_rect st) X Y = true ->
    zn (fst (dest_of s1)) (didx db X Y) =
      if r_in (clip_bounds st) X Y then zn (fst (dest_of s0)) (didx db X Y) else zn dest (didx db X Y).

Lemma r_in_inter a b X Y : r_in (r_inter a b) X Y = r_in a X Y && r_in b X Y.
Proof. unfold r_in, r_inter. cbn [x0 y0 x1 y1]. lia. Qed.
Lemma r_empty_not_in r X Y : r_empty r = true -> r_in r X Y = false.
Proof. unfold r_empty, r_in. lia. Qed.

(* ===== 1. one composite ===== *)
(* composite_spec in one shape for all cases (singular transform / empty rectangle / rows drawn) *)
Lemma composite_px st src mask mr rect0 blend alpha st' :
  d_probe st = 0 -> composite st src mask mr rect0 blend alpha = Ok st' ->
  let dest := fst (dest_of st) in let db := snd (dest_of st) in
  snd (dest_of st') = db /\ zlen (fst (dest_of st')) = zlen dest /\
  match xf_inverse (d_ctm st) with
  | None => fst (dest_of st') = dest
  | Some ti =>
      let r := r_inter (r_inter (r_inter rect0 (clip_bounds st)) db) mr in
      let k := choose_blitter (has_mask mask) (top_clip_mask st) blend in
      let sh := choose_shader ti src alpha in
      forall X Y, x0 db <= X < x1 db -> 0 <= didx db X Y < zlen dest ->
        if r_in r X Y
        then blit_px k (shade sh X Y) (zn dest (didx db X Y)) (mask_at mask mr X Y) (clip_byte k (d_w st) X Y)
             = Ok (zn (fst (dest_of st')) (didx db X Y))
        else zn (fst (dest_of st')) (didx db X Y) = zn dest (didx db X Y)
  end.
Proof.
  intros Hp H. pose proof (composite_spec _ _ _ _ _ _ _ _ Hp H) as S. cbv zeta.
  destruct (xf_inverse (d_ctm st)) as [ti|]; [|subst st'; repeat split; reflexivity].
  cbv zeta in S.
  destruct (r_empty (r_inter (r_inter (r_inter rect0 (clip_bounds st)) (snd (dest_of st))) mr)) eqn:Ee.
  - subst st'. split; [reflexivity|]. split; [reflexivity|]. intros X Y _ _. rewrite (r_empty_not_in _ X Y Ee). reflexivity.
  - destruct S as (dest' & -> & L & P).
    destruct (set_dest_other st dest') as (_ & _ & _ & _ & _ & _ & _ & _ & _ & A10 & A11).
    rewrite A10, A11. split; [reflexivity|]. split; [exact L|]. exact P.
Qed.

Lemma unclip_facts st :
  dest_of (unclip st) = dest_of st /\ d_ctm (unclip st) = d_ctm st /\ d_probe (unclip st) = d_probe st /\
  d_w (unclip st) = d_w st /\ d_h (unclip st) = d_h st /\
  top_clip_mask (unclip st) = None /\ clip_bounds (unclip st) = surface_rect st /\ surface_rect (unclip st) = surface_rect st.
Proof. repeat split. Qed.

(* ITEM 1.  Any layers, any transform, any mask, any blend mode. *)
Theorem composite_rect_clip_dest st src mask mr rect0 blend alpha s1 s0 :
  d_probe st = 0 -> top_clip_mask st = None ->
  composite st src mask mr rect0 blend alpha = Ok s1 ->
  composite (unclip st) src mask mr rect0 blend alpha = Ok s0 ->
  restricts st s1 s0.
Proof.
  intros Hp Ht H1 H0.
  pose proof (composite_px _ _ _ _ _ _ _ _ Hp H1) as P1.
  pose proof (composite_px (unclip st) _ _ _ _ _ _ _ Hp H0) as P0.
  cbv zeta in P1, P0.
  destruct (unclip_facts st) as (U1 & U2 & _ & U4 & _ & U6 & U7 & _).
  rewrite U1, U2, U4, U6, U7 in P0. rewrite Ht in P1.
  destruct P1 as (D1 & L1 & P1). destruct P0 as (D0 & L0 & P0).
  unfold restricts. cbv zeta.
  split; [exact D1|]. split; [exact D0|]. split; [exact L1|]. split; [exact L0|].
  intros X Y HX Hi Hs.
  destruct (xf_inverse (d_ctm st)) as [ti|].
  - specialize (P1 X Y HX Hi). specialize (P0 X Y HX Hi).
    rewrite !r_in_inter in P1, P0. rewrite Hs in P0.
    destruct (r_in (clip_bounds st) X Y).
    + rewrite !andb_true_r in P1, P0.
      destruct (r_in rect0 X Y && r_in (snd (dest_of st)) X Y && r_in mr X Y); congruence.
    + rewrite andb_false_r in P1. cbn [andb] in P1. exact P1.
  - rewrite P1, P0. destruct (r_in (clip_bounds st) X Y); reflexivity.
Qed.

(* surface coordinates when no layer is open *)
Definition restricts_surface (st s1 s0 : dt) : Prop :=
  forall X Y, 0 <= X < d_w st -> 0 <= Y < d_h st ->
    zn (d_buf s1) (Y * d_w st + X) =
      if r_in (clip_bounds st) X Y then zn (d_buf s0) (Y * d_w st + X) else zn (d_buf st) (Y * d_w st + X).

Lemma zn_beyond l i : zlen l <= i -> zn l i = 0.
Proof. intros H. unfold zn, zlen in *. apply nth_overflow. lia. Qed.

Lemma restricts_to_surface st s1 s0 :
  d_layers st = [] -> d_layers s1 = [] -> d_layers s0 = [] -> restricts st s1 s0 -> restricts_surface st s1 s0.
Proof.
  intros E E1 E0 (D1 & D0 & L1 & L0 & P). unfold dest_of in *. rewrite E in *. rewrite E1 in *. rewrite E0 in *.
  cbn [fst snd] in *. intros X Y HX HY.
  assert (Hd : didx (surface_rect st) X Y = Y * d_w st + X).
  { unfold didx, surface_rect, r_w. cbn [x0 y0 x1 y1]. lia. }
  assert (Hnn : 0 <= Y * d_w st + X) by nia.
  destruct (Z_lt_le_dec (Y * d_w st + X) (zlen (d_buf st))) as [Hlt|Hge].
  - specialize (P X Y). rewrite Hd in P. apply P.
    + unfold surface_rect. cbn [x0 x1]. lia.
    + lia.
    + unfold r_in, surface_rect. cbn [x0 y0 x1 y1]. lia.
  - rewrite !zn_beyond by lia. destruct (r_in _ _ _); reflexivity.
Qed.

Lemma composite_layers_nil st src mask mr rect0 blend alpha st' :
  d_probe st = 0 -> composite st src mask mr rect0 blend alpha = Ok st' -> d_layers st = [] -> d_layers st' = [].
Proof.
  intros Hp H E. destruct (composite_is_set_dest _ _ _ _ _ _ _ _ Hp H) as (d & -> & _).
  destruct (set_dest_other st d) as (_ & _ & _ & _ & _ & _ & _ & _ & A9 & _). exact (A9 E).
Qed.

(* ITEM 1 as asked: no open layer, surface coordinates Y*w+X *)
Theorem composite_rect_clip st src mask mr rect0 blend alpha s1 s0 :
  d_probe st = 0 -> d_layers st = [] -> top_clip_mask st = None ->
  composite (unclip st) src mask mr rect0 blend alpha = Ok s0 ->
  composite st src mask mr rect0 blend alpha = Ok s1 ->
  forall X Y, 0 <= X < d_w st -> 0 <= Y < d_h st ->
    (r_in (clip_bounds st) X Y = true -> zn (d_buf s1) (Y * d_w st + X) = zn (d_buf s0) (Y * d_w st + X)) /\
    (r_in (clip_bounds st) X Y = false -> zn (d_buf s1) (Y * d_w st + X) = zn (d_buf st) (Y * d_w st + X)).
Proof.
  intros Hp El Ht H0 H1 X Y HX HY.
  pose proof (composite_rect_clip_dest _ _ _ _ _ _ _ _ _ Hp Ht H1 H0) as R.
  apply restricts_to_surface in R; [|exact El|eapply composite_layers_nil; eassumption|
    apply (composite_layers_nil (unclip st) _ _ _ _ _ _ _ Hp H0); exact El].
  specialize (R X Y HX HY). split; intros Hc; rewrite Hc in R; exact R.
Qed.
Print Assumptions composite_rect_clip_dest.
Print Assumptions composite_rect_clip.

(* ===== 2. the drawing calls ===== *)
Lemma restricts_transport st st' s1 s1' s0 s0' :
  dest_of st' = dest_of st -> surface_rect st' = surface_rect st -> clip_bounds st' = clip_bounds st ->
  dest_of s1' = dest_of s1 -> dest_of s0' = dest_of s0 -> restricts st s1 s0 -> restricts st' s1' s0'.
Proof. unfold restricts. intros -> -> -> -> ->. exact (fun H => H). Qed.

Lemma restricts_nothing st s1 s0 : dest_of s1 = dest_of st -> dest_of s0 = dest_of st -> restricts st s1 s0.
Proof.
  unfold restricts. intros -> ->. cbv zeta. repeat split. intros X Y _ _ _. destruct (r_in _ _ _); reflexivity.
Qed.

(* fill (and stroke, which is fill of the stroked path): the rasteriser run does not look at the clip stack *)
Theorem fill_clip_restricts st p src o s1 s0 :
  d_probe st = 0 -> top_clip_mask st = None ->
  fill st p src o = Ok s1 -> fill (unclip st) p src o = Ok s0 -> restricts st s1 s0.
Proof.
  intros Hp Ht H1 H0. unfold fill in H1, H0.
  change (apply_path (d_h (unclip st)) (d_ctm (unclip st)) (d_cur (unclip st)) p)
    with (apply_path (d_h st) (d_ctm st) (d_cur st) p) in H0.
  set (c := apply_path (d_h st) (d_ctm st) (d_cur st) p) in *.
  set (b := get_bounds (rz c)) in *.
  destruct ((0 <? r_w b) && (0 <? r_h b)).
  - destruct (rasterize (if o_aa o then blit_super else blit_mask) (p_winding p) (rz c) (maskbuf_new (x0 b) (y0 b) (r_w b) (r_h b)))
      as [[rz' m]|e]; [|discriminate]. cbn [bind] in H1, H0.
    set (st1 := with_cur (with_cur st c) (mk_cursor (cur c) (first c) rz')) in *.
    change (with_cur (with_cur (unclip st) c) (mk_cursor (cur c) (first c) rz')) with (unclip st1) in H0.
    destruct (composite st1 src (Some (m_buf m)) b b (o_blend o) (o_alpha o)) as [a1|] eqn:E1; [|discriminate].
    destruct (composite (unclip st1) src (Some (m_buf m)) b b (o_blend o) (o_alpha o)) as [a0|] eqn:E0; [|discriminate].
    cbn [bind] in H1, H0. injection H1 as <-. injection H0 as <-.
    apply (restricts_transport st1 st a1 (reset_raster a1) a0 (reset_raster a0)); try reflexivity.
    exact (composite_rect_clip_dest st1 _ _ _ _ _ _ _ _ Hp Ht E1 E0).
  - cbn [bind] in H1, H0. injection H1 as <-. injection H0 as <-. apply restricts_nothing; reflexivity.
Qed.

Theorem mask_op_clip_restricts st src x y mw mh data s1 s0 :
  d_probe st = 0 -> top_clip_mask st = None ->
  mask_op st src x y mw mh data = Ok s1 -> mask_op (unclip st) src x y mw mh data = Ok s0 -> restricts st s1 s0.
Proof. intros Hp Ht H1 H0. unfold mask_op in *. cbv zeta in *. exact (composite_rect_clip_dest st _ _ _ _ _ _ _ _ Hp Ht H1 H0). Qed.
Print Assumptions fill_clip_restricts.

(* with an empty clip stack there is nothing to compare: st0 is st *)
Lemma unclip_id st : d_clips st = [] -> unclip st = st.
Proof. destruct st as [w h b c l t cu p]. cbn. intros ->. reflexivity. Qed.

Lemma restricts_same st s : d_clips st = [] -> same_frame st s -> restricts st s s.
Proof.
  intros Ec (_ & _ & _ & _ & _ & _ & _ & _ & S9 & S10). unfold restricts. cbv zeta.
  repeat (split; [assumption|]). intros X Y _ _ Hs.
  unfold clip_bounds. rewrite Ec, Hs. reflexivity.
Qed.

Lemma restricts_no_clips st o s1 s0 : d_probe st = 0 -> d_clips st = [] -> drawing_op o = true ->
  step_op st o = Ok s1 -> step_op (unclip st) o = Ok s0 -> restricts st s1 s0.
Proof.
  intros Hp Ec Hd H1 H0. rewrite (unclip_id st Ec) in H0. rewrite H1 in H0. injection H0 as <-.
  apply restricts_same; [exact Ec|]. apply effect_same_frame; [exact Hp|]. eapply drawing_op_effect; eassumption.
Qed.

Lemma dest_of_eq a b : d_layers a = [] -> d_layers b = [] -> d_w a = d_w b -> d_h a = d_h b -> d_buf a = d_buf b ->
  dest_of a = dest_of b.
Proof. unfold dest_of, surface_rect. intros -> -> -> -> ->. reflexivity. Qed.

(* fill_rect.  The clipped call always takes the general route (the fast route needs an empty clip stack).
   (a) the unclipped call takes the general route too (transform not the identity, or not an integer rectangle) *)
Lemma fast_route_unclip st x y w h : fast_route (unclip st) x y w h = false -> fast_route st x y w h = false.
Proof.
  unfold fast_route. cbn [unclip with_clips d_ctm d_clips]. rewrite andb_true_r. intros ->. reflexivity.
Qed.

Theorem fill_rect_clip_restricts_general st x y w h src o s1 s0 :
  d_probe st = 0 -> top_clip_mask st = None -> fast_route (unclip st) x y w h = false ->
  fill_rect st x y w h src o = Ok s1 -> fill_rect (unclip st) x y w h src o = Ok s0 -> restricts st s1 s0.
Proof.
  intros Hp Ht Hf H1 H0. rewrite fill_rect_unfold in H1, H0.
  rewrite Hf in H0. rewrite (fast_route_unclip _ _ _ _ _ Hf) in H1.
  exact (fill_clip_restricts st _ _ _ _ _ Hp Ht H1 H0).
Qed.

(* (b) the unclipped call takes the integer fast route: the hypotheses of FillProofs.fill_rect_routes_agree_integer, and
   the general route on the unclipped state returns (given, or because the blend mode is separable) *)
Definition rect_small (x y w h : f32) : Prop :=
  let ix := to_i32 x in let iy := to_i32 y in let iw := to_i32 w in let ih := to_i32 h in
  0 < iw /\ 0 < ih /\ Z.abs ix < 4194304 /\ Z.abs iy < 4194304 /\ Z.abs iw < 4194304 /\ Z.abs ih < 4194304 /\
  Z.abs (ix + iw) < 4194304 /\ Z.abs (iy + ih) < 4194304.
Definition fast_hyps (st : dt) (x y w h : f32) (src : source) (o : draw_options) : Prop :=
  d_layers st = [] /\ zlen (d_buf st) = d_w st * d_h st /\ Forall px_ok (d_buf st) /\ source_ok src /\
  d_ctm st = xf_identity /\ 0 <= d_w st /\ 0 < d_h st /\ rz (d_cur st) = rast_new (d_w st) (d_h st) /\
  rect_small x y w h /\
  (In (o_blend o) separable_modes \/ exists sG, fill (unclip st) (rect_path x y w h) src o = Ok sG).

Lemma same_frame_surface st st' : same_frame st st' -> d_layers st = [] ->
  d_layers st' = [] /\ d_w st' = d_w st /\ d_h st' = d_h st.
Proof. intros (S1 & S2 & _ & _ & _ & _ & _ & S8 & _) E. repeat split; auto. Qed.

Theorem fill_rect_clip_restricts_fast st x y w h src o s1 s0 :
  d_probe st = 0 -> top_clip_mask st = None -> d_clips st <> [] -> fast_hyps st x y w h src o ->
  fill_rect st x y w h src o = Ok s1 -> fill_rect (unclip st) x y w h src o = Ok s0 -> restricts st s1 s0.
Proof.
  intros Hp Ht Hc (El & Lb & Hb & Hs & Hctm & HW & HH & Hidle & Hsz & Hret) H1 H0.
  unfold rect_small in Hsz. cbv zeta in Hsz. destruct Hsz as (Z1 & Z2 & Z3 & Z4 & Z5 & Z6 & Z7 & Z8).
  assert (Hplain : plain_dt (unclip st)) by (unfold plain_dt; cbn [unclip with_clips d_probe d_layers d_clips d_buf d_w d_h]; auto).
  assert (HG : exists sG, fill (unclip st) (rect_path x y w h) src o = Ok sG).
  { destruct Hret as [Hm|HG]; [|exact HG].
    destruct (fill_rect_routes_total (unclip st) x y w h src o Hplain Hb Hs Hm Hctm HW HH Hidle Z1 Z2 Z3 Z4 Z5 Z6 Z7 Z8)
      as (sF & sG & _ & EG & _). exists sG. exact EG. }
  destruct HG as [sG HG].
  pose proof (fill_rect_routes_agree_integer (unclip st) x y w h src o s0 sG Hplain Hb Hs Hctm HW HH Hidle
                Z1 Z2 Z3 Z4 Z5 Z6 Z7 Z8 H0 HG) as Hbuf.
  (* the clipped call is the general route *)
  assert (H1' : fill st (rect_path x y w h) src o = Ok s1).
  { rewrite fill_rect_unfold in H1. unfold fast_route in H1. destruct (d_clips st); [congruence|].
    rewrite andb_false_r in H1. exact H1. }
  pose proof (fill_clip_restricts st _ _ _ _ _ Hp Ht H1' HG) as R.
  assert (F0 : same_frame (unclip st) s0) by (apply effect_same_frame; [exact Hp|]; eapply fill_rect_effect; exact H0).
  assert (FG : same_frame (unclip st) sG) by (apply effect_same_frame; [exact Hp|]; eapply fill_effect; exact HG).
  destruct (same_frame_surface _ _ F0 El) as (A1 & A2 & A3). destruct (same_frame_surface _ _ FG El) as (B1 & B2 & B3).
  apply (restricts_transport st st s1 s1 sG s0); try reflexivity; [|exact R].
  apply dest_of_eq; congruence.
Qed.

Definition fill_rect_side (st : dt) (x y w h : f32) (src : source) (o : draw_options) : Prop :=
  d_clips st <> [] -> fast_route (unclip st) x y w h = true -> fast_hyps st x y w h src o.

Theorem fill_rect_clip_restricts st x y w h src o s1 s0 :
  d_probe st = 0 -> top_clip_mask st = None -> fill_rect_side st x y w h src o ->
  fill_rect st x y w h src o = Ok s1 -> fill_rect (unclip st) x y w h src o = Ok s0 -> restricts st s1 s0.
Proof.
  intros Hp Ht Hside H1 H0.
  destruct (fast_route (unclip st) x y w h) eqn:Ef; [|eapply fill_rect_clip_restricts_general; eassumption].
  destruct (d_clips st) as [|c t] eqn:Ec.
  - apply (restricts_no_clips st (OpFillRect x y w h src o)); try assumption; reflexivity.
  - eapply fill_rect_clip_restricts_fast; try eassumption; [rewrite Ec; discriminate|].
    apply Hside; [rewrite Ec; discriminate|exact Ef].
Qed.
Print Assumptions fill_rect_clip_restricts.

(* clear.  Unclipped: every pixel of the destination becomes c.  Clipped: the fill of the full-surface rectangle with
   Src at alpha 1 under the identity.  Inside the clip both give exactly c. *)
From Flocq Require Import Core IEEE754.BinarySingleNaN IEEE754.Binary IEEE754.Bits.
Import Flocq.IEEE754.Binary.
From Coq Require Import Reals.
Open Scope Z_scope.

Lemma feq_refl_fint x a : fint x a -> feq x x = true.
Proof.
  intros [Fx Vx]. unfold feq, fcmp, b32_compare. rewrite (Bcompare_correct 24 128 x x Fx Fx).
  rewrite Rcompare_Eq; reflexivity.
Qed.

Lemma clear_rect_aligned W H : 0 < W < 4194304 -> 0 < H < 4194304 ->
  rect_aligned xf_identity f0 f0 (of_int W) (of_int H) 0 0 W H.
Proof.
  intros HW HH.
  assert (SW : small W) by (unfold small; lia). assert (SH : small H) by (unfold small; lia).
  assert (T0 : to_i32 f0 = 0) by (apply to_i32_fint; [exact f0_fint|unfold i32_min, i32_max; lia]).
  assert (TW : to_i32 (of_int W) = W) by (apply to_i32_fint; [exact (of_int_fint W SW)|unfold i32_min, i32_max; lia]).
  assert (TH : to_i32 (of_int H) = H) by (apply to_i32_fint; [exact (of_int_fint H SH)|unfold i32_min, i32_max; lia]).
  pose proof (rect_aligned_integer f0 f0 (of_int W) (of_int H)) as A. cbv zeta in A.
  rewrite T0, TW, TH in A. rewrite !Z.add_0_l in A.
  apply A; try lia.
  - unfold f0. exact (feq_refl_fint _ _ f0_fint).
  - unfold f0. exact (feq_refl_fint _ _ f0_fint).
  - exact (feq_refl_fint _ _ (of_int_fint W SW)).
  - exact (feq_refl_fint _ _ (of_int_fint H SH)).
Qed.

Lemma clear_clipped st c : d_clips st <> [] ->
  clear st c = do st' <- fill (with_ctm st xf_identity) (clear_path st) (Solid c) (mk_opts Src f1 true); Ok (with_ctm st' (d_ctm st)).
Proof. unfold clear, clear_path. destruct (d_clips st); [congruence|reflexivity]. Qed.
Lemma clear_unclipped st c : d_clips st = [] -> d_layers st = [] -> d_probe st = 0 ->
  clear st c = Ok (with_buf st (map (fun _ : Z => c) (d_buf st))).
Proof. unfold clear, dest_of, set_dest. intros -> -> ->. reflexivity. Qed.

Lemma zn_map_const (c : Z) (l : list Z) i : 0 <= i < zlen l -> zn (map (fun _ : Z => c) l) i = c.
Proof.
  intros Hi. unfold zn, zlen in *. rewrite (nth_indep _ 0 c) by (rewrite map_length; lia).
  exact (map_nth (fun _ : Z => c) l 0 (Z.to_nat i)).
Qed.

Definition clear_hyps (st : dt) (c : Z) : Prop :=
  d_layers st = [] /\ zlen (d_buf st) = d_w st * d_h st /\ Forall px_ok (d_buf st) /\ px_ok c /\
  0 < d_w st < 4194304 /\ 0 < d_h st < 4194304 /\ rz (d_cur st) = rast_new (d_w st) (d_h st).

Theorem clear_clip_restricts_clipped st c s1 s0 :
  d_probe st = 0 -> top_clip_mask st = None -> d_clips st <> [] -> clear_hyps st c ->
  clear st c = Ok s1 -> clear (unclip st) c = Ok s0 -> restricts st s1 s0.
Proof.
  intros Hp Ht Hc (El & Lb & Hb & Hcol & HW & HH & Hidle) H1 H0.
  set (stI := with_ctm st xf_identity).
  set (O := mk_opts Src f1 true).
  assert (Hplain : plain_dt (unclip stI)).
  { unfold plain_dt. cbn [unclip stI with_clips with_ctm d_probe d_layers d_clips d_buf d_w d_h]. auto. }
  assert (Hsep : In (o_blend O) separable_modes) by (cbn [o_blend O]; unfold separable_modes; cbn [In]; tauto).
  destruct (fill_polygon_total (unclip stI) (clear_path st) (Solid c) O Hplain Hb Hcol Hsep (proj1 HH) Hidle
              (rect_path_polygon _ _ _ _)) as [sG HG].
  destruct xf_inverse_identity as [ti Hti].
  destruct (fill_rect_general_route (unclip stI) f0 f0 (of_int (d_w st)) (of_int (d_h st)) (Solid c) O 0 0 (d_w st) (d_h st)
              ti sG Hplain Hti ltac:(cbn [unclip stI with_clips with_ctm d_w]; lia) (proj1 HH) Hidle
              (clear_rect_aligned _ _ HW HH) (proj1 HW) (proj1 HH) HG) as (LG & PG).
  cbv zeta in PG.
  change (d_w (unclip stI)) with (d_w st) in PG. change (d_h (unclip stI)) with (d_h st) in PG.
  change (d_buf (unclip stI)) with (d_buf st) in PG, LG. change (surface_rect (unclip stI)) with (surface_rect st) in PG.
  (* the clipped call *)
  rewrite (clear_clipped st c Hc) in H1. fold stI O in H1.
  destruct (fill stI (clear_path st) (Solid c) O) as [s1'|] eqn:E1; [|discriminate].
  cbn [bind] in H1. injection H1 as <-.
  pose proof (fill_clip_restricts stI _ _ _ s1' sG Hp Ht E1 HG) as R.
  apply (restricts_transport stI st s1' (with_ctm s1' (d_ctm st)) sG sG) in R; try reflexivity.
  (* the unclipped call *)
  rewrite (clear_unclipped (unclip st) c eq_refl El Hp) in H0. injection H0 as <-.
  assert (FG : same_frame (unclip stI) sG) by (apply effect_same_frame; [exact Hp|]; eapply fill_effect; exact HG).
  destruct (same_frame_surface _ _ FG El) as (B1 & B2 & B3).
  assert (EdG : fst (dest_of sG) = d_buf sG) by (unfold dest_of; rewrite B1; reflexivity).
  assert (Ed : dest_of st = (d_buf st, surface_rect st)) by (unfold dest_of; rewrite El; reflexivity).
  assert (Ed0 : dest_of (with_buf (unclip st) (map (fun _ : Z => c) (d_buf st))) = (map (fun _ : Z => c) (d_buf st), surface_rect st)).
  { unfold dest_of. cbn [with_buf unclip with_clips d_layers d_buf]. rewrite El. reflexivity. }
  unfold restricts in *. cbv zeta in *. rewrite Ed in *. rewrite Ed0. rewrite EdG in R. cbn [fst snd] in *.
  destruct R as (D1 & DG & L1 & LG' & PR).
  split; [exact D1|]. split; [reflexivity|]. split; [exact L1|]. split; [unfold zlen; now rewrite map_length|].
  intros X Y HX Hi Hs. rewrite (PR X Y HX Hi Hs).
  destruct (r_in (clip_bounds st) X Y); [|reflexivity].
  assert (HXY : 0 <= X < d_w st /\ 0 <= Y < d_h st) by (unfold r_in, surface_rect in Hs; cbn [x0 y0 x1 y1] in Hs; lia).
  assert (Hd : didx (surface_rect st) X Y = Y * d_w st + X).
  { unfold didx, surface_rect, r_w. cbn [x0 y0 x1 y1]. lia. }
  rewrite Hd in *. rewrite zn_map_const by exact Hi.
  specialize (PG X Y (proj1 HXY) (proj2 HXY)).
  replace (r_in (r_inter (mkrect 0 0 (d_w st) (d_h st)) (surface_rect st)) X Y) with true in PG
    by (symmetry; rewrite r_in_inter; unfold r_in, surface_rect; cbn [x0 y0 x1 y1]; lia).
  rewrite solid_shader_alpha_one in PG. cbn [shade] in PG.
  rewrite (alpha_mul_256_id c (proj1 Hcol)) in PG. cbn [o_blend O] in PG.
  rewrite src_replaces in PG; [congruence|exact (proj1 Hcol)|].
  exact (proj1 (zn_ok _ _ Hb)).
Qed.

Definition clear_side (st : dt) (c : Z) : Prop := d_clips st <> [] -> clear_hyps st c.

Theorem clear_clip_restricts st c s1 s0 :
  d_probe st = 0 -> top_clip_mask st = None -> clear_side st c ->
  clear st c = Ok s1 -> clear (unclip st) c = Ok s0 -> restricts st s1 s0.
Proof.
  intros Hp Ht Hside H1 H0. destruct (d_clips st) as [|cl ct] eqn:Ec.
  - apply (restricts_no_clips st (OpClear c)); try assumption; reflexivity.
  - eapply clear_clip_restricts_clipped; try eassumption; [rewrite Ec; discriminate|].
    apply Hside. rewrite Ec. discriminate.
Qed.
Print Assumptions clear_clip_restricts.

(* ===== 2b. operation level ===== *)
(* the side conditions: none for fill / stroke / mask (and the test-only OpFillPre); for fill_rect and draw_image* only
   when the unclipped call takes the integer fast route while the clipped one cannot; for clear only when clipped *)
Definition op_clip_side (st : dt) (o : op) : Prop :=
  match o with
  | OpFill _ _ _ | OpStroke _ _ _ | OpMask _ _ _ _ _ _ | OpFillPre _ _ _ => True
  | OpFillRect x y w h s d => fill_rect_side st x y w h s d
  | OpDrawImageAt x y im d =>
      fill_rect_side st x y (of_int (i_w im)) (of_int (i_h im)) (image_src (of_int (i_w im)) (of_int (i_h im)) x y im) d
  | OpDrawImageSize w h x y im d => fill_rect_side st x y w h (image_src w h x y im) d
  | OpClear c => clear_side st c
  | _ => False
  end.

(* ITEM 2.  Covered: OpFill, OpStroke, OpMask, OpFillRect, OpClear, OpDrawImageAt, OpDrawImageSize (and OpFillPre). *)
Theorem rect_clip_restricts st o s1 s0 :
  d_probe st = 0 -> top_clip_mask st = None -> op_clip_side st o ->
  step_op st o = Ok s1 -> step_op (unclip st) o = Ok s0 -> restricts st s1 s0.
Proof.
  intros Hp Ht Hside H1 H0. destruct o; cbn [op_clip_side] in Hside; try contradiction; cbn [step_op] in H1, H0.
  - exact (fill_clip_restricts st _ _ _ _ _ Hp Ht H1 H0).
  - exact (fill_clip_restricts st _ _ _ _ _ Hp Ht H1 H0).
  - exact (fill_rect_clip_restricts st _ _ _ _ _ _ _ _ Hp Ht Hside H1 H0).
  - exact (clear_clip_restricts st _ _ _ Hp Ht Hside H1 H0).
  - exact (mask_op_clip_restricts st _ _ _ _ _ _ _ _ Hp Ht H1 H0).
  - unfold draw_image_at, draw_image_with_size_at in H1, H0.
    exact (fill_rect_clip_restricts st _ _ _ _ _ _ _ _ Hp Ht Hside H1 H0).
  - unfold draw_image_with_size_at in H1, H0.
    exact (fill_rect_clip_restricts st _ _ _ _ _ _ _ _ Hp Ht Hside H1 H0).
  - change (d_ctm (unclip st)) with (d_ctm st) in H0.
    change (with_ctm (unclip st) xf_identity) with (unclip (with_ctm st xf_identity)) in H0.
    destruct (fill (with_ctm st xf_identity) _ _ _) as [a1|] eqn:E1; [|discriminate].
    destruct (fill (unclip (with_ctm st xf_identity)) _ _ _) as [a0|] eqn:E0; [|discriminate].
    cbn [bind] in H1, H0. injection H1 as <-. injection H0 as <-.
    apply (restricts_transport (with_ctm st xf_identity) st a1 (with_ctm a1 (d_ctm st)) a0 (with_ctm a0 (d_ctm st))); try reflexivity.
    exact (fill_clip_restricts (with_ctm st xf_identity) _ _ _ _ _ Hp Ht E1 E0).
Qed.
Print Assumptions rect_clip_restricts.

(* the statement in surface coordinates, for the seven drawing calls of DrawTarget, no layer open:
   inside the clip bounds the clipped call leaves the pixel of the unclipped call, outside it st's own pixel *)
Theorem rect_clip_restricts_surface st o s1 s0 :
  d_probe st = 0 -> d_layers st = [] -> top_clip_mask st = None -> drawing_op o = true -> op_clip_side st o ->
  step_op st o = Ok s1 -> step_op (unclip st) o = Ok s0 ->
  forall X Y, 0 <= X < d_w st -> 0 <= Y < d_h st ->
    (r_in (clip_bounds st) X Y = true -> zn (d_buf s1) (Y * d_w st + X) = zn (d_buf s0) (Y * d_w st + X)) /\
    (r_in (clip_bounds st) X Y = false -> zn (d_buf s1) (Y * d_w st + X) = zn (d_buf st) (Y * d_w st + X)).
Proof.
  intros Hp El Ht Hd Hside H1 H0 X Y HX HY.
  pose proof (rect_clip_restricts st o s1 s0 Hp Ht Hside H1 H0) as R.
  assert (F1 : same_frame st s1) by (apply effect_same_frame; [exact Hp|]; eapply drawing_op_effect; eassumption).
  assert (F0 : same_frame (unclip st) s0) by (apply effect_same_frame; [exact Hp|]; eapply drawing_op_effect; eassumption).
  destruct (same_frame_surface _ _ F1 El) as (A1 & _). destruct (same_frame_surface _ _ F0 El) as (B1 & _).
  apply restricts_to_surface in R; try assumption.
  specialize (R X Y HX HY). split; intros Hc; rewrite Hc in R; exact R.
Qed.
Print Assumptions rect_clip_restricts_surface.

(* ===== 3. totality variant: both calls return ===== *)
Lemma dt_wf_unclip st : dt_wf st -> dt_wf (unclip st).
Proof.
  intros (W1 & W2 & W3 & W4 & W5 & W6 & (P1 & P2 & P3 & P4)).
  unfold dt_wf, all_premul. cbn [unclip with_clips d_w d_h d_buf d_layers d_clips d_probe].
  repeat (split; [assumption|]). split; [constructor|]. repeat (split; [assumption|]). constructor.
Qed.
Lemma raster_ok_unclip st : raster_ok st -> raster_ok (unclip st).
Proof. intros R. now apply (raster_ok_same st). Qed.

(* what is left of the side conditions once the state is well formed, the rasteriser idle and the operation inside
   its preconditions: geometry only *)
Definition fast_geom (st : dt) (x y w h : f32) : Prop :=
  d_clips st <> [] -> fast_route (unclip st) x y w h = true ->
  d_layers st = [] /\ d_ctm st = xf_identity /\ 0 < d_h st /\ rect_small x y w h.
Definition op_clip_geom (st : dt) (o : op) : Prop :=
  match o with
  | OpFillRect x y w h _ _ | OpDrawImageSize w h x y _ _ => fast_geom st x y w h
  | OpDrawImageAt x y im _ => fast_geom st x y (of_int (i_w im)) (of_int (i_h im))
  | OpClear _ => d_clips st <> [] -> d_layers st = [] /\ 0 < d_w st < 4194304 /\ 0 < d_h st < 4194304
  | _ => True
  end.

Lemma fast_geom_side st x y w h src o : dt_wf st -> raster_ok st -> source_ok src -> In (o_blend o) separable_modes ->
  fast_geom st x y w h -> fill_rect_side st x y w h src o.
Proof.
  intros W R Hs Hm G Hc Hf. destruct (G Hc Hf) as (El & Hctm & HH & Hsz).
  pose proof (raster_ok_new st R) as Hidle.
  destruct W as (W1 & W2 & W3 & W4 & W5 & W6 & (P1 & P2 & P3 & P4)).
  unfold fast_hyps. repeat (split; [first [assumption|lia]|]). left. exact Hm.
Qed.

Lemma op_clip_geom_side st o : dt_wf st -> raster_ok st -> drawing_op o = true -> op_in_range st o -> op_separable st o ->
  op_clip_geom st o -> op_clip_side st o.
Proof.
  intros W R Hd Hr Hs G. destruct o; try discriminate; cbn [op_clip_side op_clip_geom op_in_range] in *; try exact I;
    unfold op_separable in Hs; cbn [op_mode] in Hs.
  - apply fast_geom_side; assumption.
  - intros Hc. destruct (G Hc) as (El & HW & HH). pose proof (raster_ok_new st R) as Hidle.
    destruct W as (W1 & W2 & W3 & W4 & W5 & W6 & (P1 & P2 & P3 & P4)).
    unfold clear_hyps. repeat (split; [first [assumption|lia]|]). exact Hidle.
  - apply fast_geom_side; assumption.
  - apply fast_geom_side; assumption.
Qed.

(* ITEM 3 *)
Theorem rect_clip_restricts_total st o :
  dt_wf st -> raster_ok st -> top_clip_mask st = None -> drawing_op o = true ->
  op_in_range st o -> op_no_wrap st o -> op_separable st o -> op_clip_geom st o ->
  exists s1 s0, step_op st o = Ok s1 /\ step_op (unclip st) o = Ok s0 /\ dt_wf s1 /\ dt_wf s0 /\ restricts st s1 s0.
Proof.
  intros W R Ht Hd Hr Hn Hs G.
  destruct (step_op_total_separable st o W R Hr Hn Hs) as (s1 & E1 & W1 & _).
  assert (Hr0 : op_in_range (unclip st) o) by (destruct o; try discriminate; exact Hr).
  assert (Hn0 : op_no_wrap (unclip st) o) by (destruct o; try discriminate; exact Hn).
  assert (Hs0 : op_separable (unclip st) o) by (destruct o; try discriminate; exact Hs).
  destruct (step_op_total_separable (unclip st) o (dt_wf_unclip st W) (raster_ok_unclip st R) Hr0 Hn0 Hs0) as (s0 & E0 & W0 & _).
  exists s1, s0. repeat (split; [assumption|]).
  assert (Hp : d_probe st = 0) by (destruct W as (_ & _ & _ & _ & _ & _ & (P1 & _)); exact P1).
  exact (rect_clip_restricts st o s1 s0 Hp Ht (op_clip_geom_side st o W R Hd Hr Hs G) E1 E0).
Qed.
Print Assumptions rect_clip_restricts_total.

(* ===== non-vacuity ===== *)
(* a 6x5 surface of a translucent colour, clip rectangle [2,5)x[0,3), fill_rect (1,2)+(3,2) with a translucent solid
   source through Multiply: the unclipped call takes the integer fast route, the clipped one rasterises the rectangle.
   Pixel (2,2) is inside both: equal and changed; pixel (1,2) is inside the rectangle but outside the clip: kept by the
   clipped call, changed by the unclipped one. *)
Definition ex_st : dt := push_clip_rect (dt_new 6 5 (repeat 2151686160 30)) (mkrect 2 0 5 3).
Definition ex_op : op := OpFillRect (of_int 1) (of_int 2) (of_int 3) (of_int 2) (Solid 2155905152) (mk_opts Multiply f1 true).

Example rect_clip_example :
  match step_op ex_st ex_op, step_op (unclip ex_st) ex_op with
  | Ok a, Ok b => zn (d_buf a) 14 = 3229638736 /\ zn (d_buf b) 14 = 3229638736 /\
                  zn (d_buf a) 13 = 2151686160 /\ zn (d_buf b) 13 = 3229638736 /\
                  fast_route (unclip ex_st) (of_int 1) (of_int 2) (of_int 3) (of_int 2) = true /\
                  fast_route ex_st (of_int 1) (of_int 2) (of_int 3) (of_int 2) = false
  | _, _ => False
  end.
Proof. vm_compute. repeat split; reflexivity. Qed.

(* the hypotheses of the total form hold for it *)
Example rect_clip_example_hyps :
  dt_wf ex_st /\ raster_ok ex_st /\ top_clip_mask ex_st = None /\ drawing_op ex_op = true /\
  op_in_range ex_st ex_op /\ op_no_wrap ex_st ex_op /\ op_separable ex_st ex_op /\ op_clip_geom ex_st ex_op.
Proof.
  assert (Hpx : px_ok 2151686160) by (split; [unfold wf_px; lia|vm_compute; reflexivity]).
  split.
  { apply push_clip_rect_wf. apply dt_new_wf; try (unfold i32_max; lia); [reflexivity|].
    apply Forall_forall. intros v Hv. apply repeat_spec in Hv. subst v. exact Hpx. }
  split.
  { apply (raster_ok_same (dt_new 6 5 (repeat 2151686160 30))); try reflexivity. apply dt_new_raster_ok. lia. }
  split; [reflexivity|]. split; [reflexivity|].
  split; [split; [unfold wf_px; lia|vm_compute; reflexivity]|].
  split; [exact I|].
  split; [unfold op_separable; cbn [op_mode ex_op o_blend]; unfold separable_modes; cbn [In]; tauto|].
  cbn [op_clip_geom ex_op]. intros _ _. split; [reflexivity|]. split; [reflexivity|]. split; [cbn; lia|].
  vm_compute. repeat split; reflexivity.
Qed.

(* clear under the same clip: opaque red inside the clip bounds (pixel (2,2)), the old pixel outside (pixel (1,2));
   the unclipped clear writes red everywhere *)
Example rect_clip_clear_example :
  match step_op ex_st (OpClear 4294901760), step_op (unclip ex_st) (OpClear 4294901760) with
  | Ok a, Ok b => zn (d_buf a) 14 = 4294901760 /\ zn (d_buf b) 14 = 4294901760 /\
                  zn (d_buf a) 13 = 2151686160 /\ zn (d_buf b) 13 = 4294901760
  | _, _ => False
  end.
Proof. vm_compute. repeat split; reflexivity. Qed.
Example rect_clip_clear_example_hyps : clear_side ex_st 4294901760.
Proof.
  intros _.
  assert (Hpx : px_ok 2151686160) by (split; [unfold wf_px; lia|vm_compute; reflexivity]).
  unfold clear_hyps. split; [reflexivity|]. split; [reflexivity|].
  split; [apply Forall_forall; intros v Hv; apply (repeat_spec 30 2151686160) in Hv; subst v; exact Hpx|].
  split; [split; [unfold wf_px; lia|vm_compute; reflexivity]|].
  split; [cbn; lia|]. split; [cbn; lia|]. reflexivity.
Qed.
