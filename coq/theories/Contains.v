(* C17: Path::contains_point on exact (integer) coordinates, its declarative meaning, and the
   proof that the two agree for every flat path.  The executable f32 model is
   PathOps.contains_point_flat; on coordinates where the f32 cross product is exact (quarter grid
   within +-2^10) both are compared with the crate by the correspondence check. *)
Require Import RQ.Base RQ.Raster.
From Coq Require Import ZifyBool.

Definition zpt : Type := Z * Z.
Inductive zop := ZMove (p : zpt) | ZLine (p : zpt) | ZClose.
Definition edge : Type := zpt * zpt.

Definition cross (e : edge) (x y : Z) : Z :=
  let '((x1, y1), (x2, y2)) := e in (x2 - x1) * (y - y1) - (y2 - y1) * (x - x1).
Definition in_bbox (e : edge) (x y : Z) : bool :=
  let '((x1, y1), (x2, y2)) := e in
  (Z.min x1 x2 <=? x) && (x <=? Z.max x1 x2) && (Z.min y1 y2 <=? y) && (y <=? Z.max y1 y2).

(* ---- the code: WindState ---- *)
Record zws := mk_zws { z_first : option zpt; z_cur : option zpt; z_count : Z; z_on : bool }.
Definition z_add_edge (x y : Z) (w : zws) (e : edge) : zws :=
  let '((x1, y1), (x2, y2)) := e in
  let c := cross e x y in
  if c =? 0 then (if in_bbox e x y then mk_zws (z_first w) (z_cur w) (z_count w) true else w)
  else if (y1 <=? y) && (y <? y2) then (if c <? 0 then mk_zws (z_first w) (z_cur w) (z_count w - 1) (z_on w) else w)
  else if (y2 <=? y) && (y <? y1) then (if 0 <? c then mk_zws (z_first w) (z_cur w) (z_count w + 1) (z_on w) else w)
  else w.
Definition z_close (x y : Z) (w : zws) : zws :=
  let w := match z_first w, z_cur w with Some f, Some c => z_add_edge x y w (c, f) | _, _ => w end in
  mk_zws (z_first w) (z_first w) (z_count w) (z_on w).
Definition z_op (x y : Z) (w : zws) (o : zop) : zws :=
  match o with
  | ZMove p => let w := z_close x y w in mk_zws (Some p) (Some p) (z_count w) (z_on w)
  | ZLine p => match z_cur w with
               | Some c => let w := z_add_edge x y w (c, p) in mk_zws (z_first w) (Some p) (z_count w) (z_on w)
               | None => mk_zws (Some p) (Some p) (z_count w) (z_on w)
               end
  | ZClose => z_close x y w
  end.
Definition contains_Z (rule : winding_rule) (ops : list zop) (x y : Z) : bool :=
  let w := z_close x y (fold_left (z_op x y) ops (mk_zws None None 0 false)) in
  inside rule (z_count w) || z_on w.

(* ---- the meaning ---- *)
(* the edges of the implicitly closed path, as filling sees them (draw_target.rs: move_to / line_to / close) *)
Fixpoint path_edges (ops : list zop) (first cur : option zpt) : list edge :=
  let closing := match first, cur with Some f, Some c => [(c, f)] | _, _ => [] end in
  match ops with
  | [] => closing
  | ZMove p :: t => closing ++ path_edges t (Some p) (Some p)
  | ZLine p :: t => match cur with
                    | Some c => (c, p) :: path_edges t first (Some p)
                    | None => path_edges t (Some p) (Some p)
                    end
  | ZClose :: t => closing ++ path_edges t first first
  end.
(* the point lies on the closed segment e *)
Definition on_segment (e : edge) (x y : Z) : bool := (cross e x y =? 0) && in_bbox e x y.
(* signed crossing of the horizontal ray from (x,y) towards -infinity with e, half-open in y
   (an edge owns its upper end point), counted only when the crossing is strictly left of the point:
   for y1 <= y < y2 the crossing abscissa x1 + (x2-x1)(y-y1)/(y2-y1) is < x  iff  cross < 0 *)
Definition crossing (e : edge) (x y : Z) : Z :=
  let '((x1, y1), (x2, y2)) := e in
  let c := cross e x y in
  if (y1 <=? y) && (y <? y2) && (c <? 0) then -1
  else if (y2 <=? y) && (y <? y1) && (0 <? c) then 1 else 0.
Definition winding_number (es : list edge) (x y : Z) : Z := fold_right (fun e acc => crossing e x y + acc) 0 es.
Definition on_path (es : list edge) (x y : Z) : bool := existsb (fun e => on_segment e x y) es.
Definition contains_spec (rule : winding_rule) (ops : list zop) (x y : Z) : bool :=
  let es := path_edges ops None None in
  inside rule (winding_number es x y) || on_path es x y.

(* ---- agreement ---- *)
(* the same case analysis with the cross product and the box test abstracted *)
Lemma add_edge_cases (c : Z) (bb : bool) (y y1 y2 : Z) (w : zws) :
  let r := if c =? 0 then (if bb then mk_zws (z_first w) (z_cur w) (z_count w) true else w)
           else if (y1 <=? y) && (y <? y2) then (if c <? 0 then mk_zws (z_first w) (z_cur w) (z_count w - 1) (z_on w) else w)
           else if (y2 <=? y) && (y <? y1) then (if 0 <? c then mk_zws (z_first w) (z_cur w) (z_count w + 1) (z_on w) else w)
           else w in
  z_count r = z_count w + (if (y1 <=? y) && (y <? y2) && (c <? 0) then -1
                           else if (y2 <=? y) && (y <? y1) && (0 <? c) then 1 else 0) /\
  z_on r = (z_on w || ((c =? 0) && bb)) /\ z_first r = z_first w /\ z_cur r = z_cur w.
Proof.
  cbv zeta.
  destruct (c =? 0) eqn:Ec; destruct bb;
  destruct ((y1 <=? y) && (y <? y2)) eqn:E1; destruct ((y2 <=? y) && (y <? y1)) eqn:E3;
  destruct (c <? 0) eqn:E2; destruct (0 <? c) eqn:E4;
  cbn [andb orb z_count z_on z_first z_cur]; try lia;
  (repeat split; try lia; try reflexivity; destruct (z_on w); reflexivity).
Qed.

Lemma z_add_edge_spec x y w e :
  z_count (z_add_edge x y w e) = z_count w + crossing e x y /\
  z_on (z_add_edge x y w e) = (z_on w || on_segment e x y) /\
  z_first (z_add_edge x y w e) = z_first w /\ z_cur (z_add_edge x y w e) = z_cur w.
Proof.
  destruct e as [[x1 y1] [x2 y2]].
  exact (add_edge_cases (cross (x1, y1, (x2, y2)) x y) (in_bbox (x1, y1, (x2, y2)) x y) y y1 y2 w).
Qed.

Lemma wn_app es1 es2 x y : winding_number (es1 ++ es2) x y = winding_number es1 x y + winding_number es2 x y.
Proof. unfold winding_number. induction es1 as [|e t IH]; cbn [app fold_right]; [lia|]. rewrite IH. lia. Qed.
Lemma on_path_app es1 es2 x y : on_path (es1 ++ es2) x y = on_path es1 x y || on_path es2 x y.
Proof. unfold on_path. apply existsb_app. Qed.

(* the state after the ops, then closed, accounts for exactly the edges of the implicitly closed path *)
Lemma fold_spec x y ops : forall w,
  let w' := z_close x y (fold_left (z_op x y) ops w) in
  z_count w' = z_count w + winding_number (path_edges ops (z_first w) (z_cur w)) x y /\
  z_on w' = (z_on w || on_path (path_edges ops (z_first w) (z_cur w)) x y).
Proof.
  induction ops as [|o t IH]; intros w.
  - cbn [fold_left path_edges]. unfold z_close.
    destruct (z_first w) as [f|], (z_cur w) as [c|]; cbn [z_count z_on winding_number fold_right on_path existsb];
      try (split; [lia|now rewrite orb_false_r]).
    destruct (z_add_edge_spec x y w (c, f)) as (H1 & H2 & _ & _). rewrite H1, H2. split; [lia|].
    now rewrite orb_false_r.
  - cbn [fold_left]. destruct o as [p|p|].
    + (* MoveTo *)
      specialize (IH (z_op x y w (ZMove p))). cbv zeta in IH. destruct IH as [IHc IHo].
      cbv zeta. rewrite IHc, IHo. cbn [path_edges]. rewrite wn_app, on_path_app.
      unfold z_op, z_close.
      destruct (z_first w) as [f|] eqn:Ef, (z_cur w) as [c|] eqn:Ec; cbn [z_count z_on z_first z_cur];
        try (rewrite ?Ef, ?Ec; cbn [winding_number fold_right on_path existsb orb]; split; [unfold winding_number; lia|now rewrite ?orb_false_r]).
      destruct (z_add_edge_spec x y w (c, f)) as (H1 & H2 & _ & _). rewrite H1, H2.
      cbn [winding_number fold_right on_path existsb]. split; [lia|].
      rewrite orb_false_r. now rewrite orb_assoc.
    + (* LineTo *)
      specialize (IH (z_op x y w (ZLine p))). cbv zeta in IH. destruct IH as [IHc IHo].
      cbv zeta. rewrite IHc, IHo. cbn [path_edges]. unfold z_op.
      destruct (z_cur w) as [c|] eqn:Ec; cbn [z_count z_on z_first z_cur].
      * destruct (z_add_edge_spec x y w (c, p)) as (H1 & H2 & H3 & _). rewrite H1, H2, H3.
        cbn [winding_number fold_right on_path existsb]. split; [unfold winding_number; lia|].
        now rewrite orb_assoc.
      * split; reflexivity.
    + (* Close *)
      specialize (IH (z_op x y w ZClose)). cbv zeta in IH. destruct IH as [IHc IHo].
      cbv zeta. rewrite IHc, IHo. cbn [path_edges]. rewrite wn_app, on_path_app.
      unfold z_op, z_close.
      destruct (z_first w) as [f|] eqn:Ef, (z_cur w) as [c|] eqn:Ec; cbn [z_count z_on z_first z_cur];
        try (rewrite ?Ef, ?Ec; cbn [winding_number fold_right on_path existsb orb]; split; [unfold winding_number; lia|now rewrite ?orb_false_r]).
      destruct (z_add_edge_spec x y w (c, f)) as (H1 & H2 & H3 & _). rewrite H1, H2, H3, Ef.
      cbn [winding_number fold_right on_path existsb]. split; [unfold winding_number; lia|].
      rewrite orb_false_r. now rewrite orb_assoc.
Qed.

Theorem contains_Z_correct rule ops x y : contains_Z rule ops x y = contains_spec rule ops x y.
Proof.
  unfold contains_Z, contains_spec.
  pose proof (fold_spec x y ops (mk_zws None None 0 false)) as H. cbv zeta in H.
  destruct H as [Hc Ho]. cbn [z_count z_on z_first z_cur] in *. rewrite Hc, Ho. cbn [orb]. reflexivity.
Qed.

(* the side test is the comparison of the exact crossing abscissa with x:
   for a downward edge (y1 < y2) and y1 <= y < y2,
   cross < 0  <->  x1 + (x2-x1)(y-y1)/(y2-y1) < x   (stated without division) *)
Lemma crossing_left_of_point x1 y1 x2 y2 x y : y1 <= y < y2 ->
  (cross ((x1, y1), (x2, y2)) x y < 0 <-> (x2 - x1) * (y - y1) < (x - x1) * (y2 - y1)).
Proof. intros H. unfold cross. lia. Qed.
Lemma crossing_left_of_point_up x1 y1 x2 y2 x y : y2 <= y < y1 ->
  (0 < cross ((x1, y1), (x2, y2)) x y <-> (x2 - x1) * (y1 - y) < (x - x1) * (y1 - y2)).
Proof. intros H. unfold cross. lia. Qed.

(* a vertex shared by two consecutive monotone edges is crossed exactly once, a local extremum
   zero or two times: the half-open rule in one statement *)
Lemma vertex_counted_once xa ya xb yb xc yc x :
  ya < yb < yc -> xb < x ->
  crossing ((xa, ya), (xb, yb)) x yb + crossing ((xb, yb), (xc, yc)) x yb = -1.
Proof. intros H Hx. unfold crossing, cross. destruct H. 
  replace ((ya <=? yb) && (yb <? yb)) with false by lia. cbn [andb].
  replace ((yb <=? yb) && (yb <? ya)) with false by lia. cbn [andb].
  replace ((yb <=? yb) && (yb <? yc)) with true by lia. cbn [andb].
  replace ((xc - xb) * (yb - yb) - (yc - yb) * (x - xb) <? 0) with true by nia. lia.
Qed.

(* the unrepaired crossing logic (kept for the refutation witness): triangle (0,0) (-1,-1) (-1,1), point (5,0) *)
Definition legacy_add_edge (x y : Z) (cnt : Z) (on : bool) (e : edge) : Z * bool :=
  let '((x1, y1), (x2, y2)) := e in
  let dir := if y1 <? y2 then -1 else 1 in
  if (x <? x1) && (x <? x2) then (cnt, on) else
  if (y <? y1) && (y <? y2) then (cnt, on) else
  if (y1 <? y) && (y2 <? y) then (cnt, on) else
  if (x1 <? x) && (x2 <? x) && (y <? y1) && (y2 <? y) then (cnt + 1, on) else
  if (x1 <? x) && (x2 <? x) && (y <? y2) && (y1 <? y) then (cnt - 1, on) else
  let c := cross e x y in
  if c =? 0 then (cnt, true)
  else if ((0 <? c) && (0 <? dir)) || ((c <? 0) && (dir <? 0)) then (cnt + dir, on) else (cnt, on).
Lemma contains_legacy_refuted :
  let es := [((0, 0), (-1, -1)); ((-1, -1), (-1, 1)); ((-1, 1), (0, 0))] in
  let '(cnt, on) := fold_left (fun s e => legacy_add_edge 5 0 (fst s) (snd s) e) es (0, false) in
  (negb (cnt =? 0) || on) = true /\ contains_spec NonZero [ZMove (0, 0); ZLine (-1, -1); ZLine (-1, 1); ZClose] 5 0 = false.
Proof. vm_compute. split; reflexivity. Qed.
