(* C17, the bridge: on the quarter-pixel grid within +-256 px every binary32 operation of
   PathOps.contains_point_flat is exact, so the f32 hit test IS the integer hit test Contains.contains_Z
   (and hence the declarative winding-number / on-segment statement Contains.contains_spec). *)
From Coq Require Import ZArith Reals Lra Lia List.
From Flocq Require Import Core IEEE754.BinarySingleNaN IEEE754.Binary IEEE754.Bits.
Import Flocq.IEEE754.Binary.
Require Import RQ.Base RQ.F32 RQ.Raster RQ.PathF RQ.PathOps RQ.Contains RQ.GridProofs.
Import ListNotations.
Open Scope Z_scope.

(* ===== 1. floats that are exactly k * 2^e ===== *)

(* x is a finite float whose value is k * 2^e *)
Definition frep (x : f32) (k e : Z) : Prop :=
  is_finite 24 128 x = true /\ B2R 24 128 x = F2R (Float radix2 k e).

Lemma F2R_quarter n : F2R (Float radix2 n (-2)) = (IZR n / 4)%R.
Proof. unfold F2R. cbn [Fnum Fexp bpow]. change (IZR (Z.pow_pos radix2 2)) with 4%R. field. Qed.

Lemma fquarter_frep x n : fquarter x n <-> frep x n (-2).
Proof. unfold fquarter, frep. rewrite F2R_quarter. tauto. Qed.

(* a multiple k * 2^e of 2^e with |k| <= 2^24, e >= -149, is a binary32 number *)
Lemma small_format k e : Z.abs k <= 2 ^ 24 -> -149 <= e ->
  generic_format radix2 (SpecFloat.fexp 24 128) (F2R (Float radix2 k e)).
Proof.
  intros Hk He. change (SpecFloat.fexp 24 128) with (FLT_exp (-149) 24). apply generic_format_FLT.
  destruct (Z_lt_le_dec (Z.abs k) (2 ^ 24)) as [L|G].
  - apply (FLT_spec radix2 (-149) 24 _ (Float radix2 k e)); [reflexivity|exact L|exact He].
  - change (2 ^ 24) with 16777216 in *.
    assert (K : k = 16777216 \/ k = -16777216) by lia.
    destruct K as [-> | ->].
    + apply (FLT_spec radix2 (-149) 24 _ (Float radix2 8388608 (e + 1))); [|cbn; lia|cbn [Fexp]; lia].
      unfold F2R. cbn [Fnum Fexp]. rewrite bpow_plus. change (bpow radix2 1) with 2%R. ring.
    + apply (FLT_spec radix2 (-149) 24 _ (Float radix2 (-8388608) (e + 1))); [|cbn; lia|cbn [Fexp]; lia].
      unfold F2R. cbn [Fnum Fexp]. rewrite bpow_plus. change (bpow radix2 1) with 2%R. ring.
Qed.

Lemma p24_26 : 2 ^ 24 <= 2 ^ 26.  Proof. intro H. discriminate H. Qed.

Lemma small_lt_emax k e : Z.abs k <= 2 ^ 26 -> e <= 0 ->
  (Rabs (F2R (Float radix2 k e)) < bpow radix2 128)%R.
Proof.
  intros Hk He. apply F2R_lt_bpow. cbn [Fnum Fexp].
  apply Z.le_lt_trans with (1 := Hk). change (radix2 : Z) with 2.
  apply Z.lt_le_trans with (2 ^ 128); [reflexivity|]. apply Z.pow_le_mono_r; lia.
Qed.

Lemma frep_sub a b ka kb e : frep a ka e -> frep b kb e -> Z.abs (ka - kb) <= 2 ^ 24 -> -149 <= e <= 0 ->
  frep (fsub a b) (ka - kb) e.
Proof.
  intros [Fa Va] [Fb Vb] Hk He.
  pose proof (Bminus_correct 24 128 eq_refl eq_refl binop_nan_pl32 mode_NE a b Fa Fb) as H.
  assert (E : (B2R 24 128 a - B2R 24 128 b)%R = F2R (Float radix2 (ka - kb) e)).
  { rewrite Va, Vb. unfold F2R. cbn [Fnum Fexp]. rewrite minus_IZR. ring. }
  rewrite E in H.
  rewrite (round_generic radix2 _ (round_mode mode_NE) _ (small_format _ _ Hk (proj1 He))) in H.
  rewrite (Rlt_bool_true _ _ (small_lt_emax _ _ (Z.le_trans _ _ _ Hk p24_26) (proj2 He))) in H.
  destruct H as (H1 & H2 & _). split; [exact H2|exact H1].
Qed.

Lemma frep_mul a b ka kb ea eb : frep a ka ea -> frep b kb eb -> Z.abs (ka * kb) <= 2 ^ 24 ->
  -149 <= ea + eb <= 0 -> frep (fmul a b) (ka * kb) (ea + eb).
Proof.
  intros [Fa Va] [Fb Vb] Hk He.
  pose proof (Bmult_correct 24 128 eq_refl eq_refl binop_nan_pl32 mode_NE a b) as H.
  assert (E : (B2R 24 128 a * B2R 24 128 b)%R = F2R (Float radix2 (ka * kb) (ea + eb))).
  { rewrite Va, Vb. unfold F2R. cbn [Fnum Fexp]. rewrite mult_IZR, bpow_plus. ring. }
  rewrite E in H.
  rewrite (round_generic radix2 _ (round_mode mode_NE) _ (small_format _ _ Hk (proj1 He))) in H.
  rewrite (Rlt_bool_true _ _ (small_lt_emax _ _ (Z.le_trans _ _ _ Hk p24_26) (proj2 He))) in H.
  destruct H as (H1 & H2 & _). rewrite Fa, Fb in H2. split; [exact H2|exact H1].
Qed.

Lemma f0_zero : f0 = B754_zero 24 128 false.
Proof. vm_compute. reflexivity. Qed.

Lemma frep_f0 e : frep f0 0 e.
Proof. rewrite f0_zero. split; [reflexivity|]. rewrite F2R_0. reflexivity. Qed.

Lemma fcmp_rep a b ka kb e : frep a ka e -> frep b kb e -> fcmp a b = Some (ka ?= kb).
Proof.
  intros [Fa Va] [Fb Vb]. unfold fcmp, b32_compare.
  rewrite (Bcompare_correct 24 128 a b Fa Fb), Va, Vb, Rcompare_F2R. reflexivity.
Qed.

Lemma feq_rep a b ka kb e : frep a ka e -> frep b kb e -> feq a b = (ka =? kb).
Proof. intros Ha Hb. unfold feq. rewrite (fcmp_rep _ _ _ _ _ Ha Hb), Z.eqb_compare. destruct (ka ?= kb); reflexivity. Qed.
Lemma flt_rep a b ka kb e : frep a ka e -> frep b kb e -> flt a b = (ka <? kb).
Proof. intros Ha Hb. unfold flt, Z.ltb. rewrite (fcmp_rep _ _ _ _ _ Ha Hb). destruct (ka ?= kb); reflexivity. Qed.
Lemma fle_rep a b ka kb e : frep a ka e -> frep b kb e -> fle a b = (ka <=? kb).
Proof. intros Ha Hb. unfold fle, Z.leb. rewrite (fcmp_rep _ _ _ _ _ Ha Hb). destruct (ka ?= kb); reflexivity. Qed.
Lemma fgt_rep a b ka kb e : frep a ka e -> frep b kb e -> fgt a b = (kb <? ka).
Proof.
  intros Ha Hb. unfold fgt, Z.ltb. rewrite (fcmp_rep _ _ _ _ _ Ha Hb), (Z.compare_antisym ka kb).
  destruct (ka ?= kb); reflexivity.
Qed.
Lemma fge_rep a b ka kb e : frep a ka e -> frep b kb e -> fge a b = (kb <=? ka).
Proof.
  intros Ha Hb. unfold fge, Z.leb. rewrite (fcmp_rep _ _ _ _ _ Ha Hb), (Z.compare_antisym ka kb).
  destruct (ka ?= kb); reflexivity.
Qed.

Lemma finite_not_nan (x : f32) : is_finite 24 128 x = true -> fis_nan x = false.
Proof. destruct x; try discriminate; reflexivity. Qed.

Lemma fmin_rep a b ka kb e : frep a ka e -> frep b kb e -> frep (fmin a b) (Z.min ka kb) e.
Proof.
  intros Ha Hb. unfold fmin. rewrite (finite_not_nan a (proj1 Ha)), (finite_not_nan b (proj1 Hb)).
  rewrite (flt_rep _ _ _ _ _ Hb Ha). destruct (Z.ltb_spec kb ka).
  - rewrite Z.min_r by lia. exact Hb.
  - rewrite Z.min_l by lia. exact Ha.
Qed.
Lemma fmax_rep a b ka kb e : frep a ka e -> frep b kb e -> frep (fmax a b) (Z.max ka kb) e.
Proof.
  intros Ha Hb. unfold fmax. rewrite (finite_not_nan a (proj1 Ha)), (finite_not_nan b (proj1 Hb)).
  rewrite (flt_rep _ _ _ _ _ Ha Hb). destruct (Z.ltb_spec ka kb).
  - rewrite Z.max_r by lia. exact Hb.
  - rewrite Z.max_l by lia. exact Ha.
Qed.

(* the quarter-grid instances *)
Lemma fquarter_sub a b na nb : fquarter a na -> fquarter b nb -> Z.abs na <= 8388608 -> Z.abs nb <= 8388608 ->
  fquarter (fsub a b) (na - nb).
Proof.
  rewrite !fquarter_frep. intros Ha Hb Ba Bb. apply frep_sub; [exact Ha|exact Hb| |lia].
  change (2 ^ 24) with 16777216. lia.
Qed.

(* a float of every quarter-grid value: the grid is inhabited *)
Definition of_quarter (n : Z) : f32 := binary_normalize 24 128 prec32 emax32 mode_NE n (-2) false.
Lemma of_quarter_fquarter n : Z.abs n <= 2 ^ 24 -> fquarter (of_quarter n) n.
Proof.
  intros Hn. rewrite fquarter_frep. unfold of_quarter.
  pose proof (binary_normalize_correct 24 128 prec32 emax32 mode_NE n (-2) false) as H.
  assert (E1 : -149 <= -2) by lia. assert (E2 : -2 <= 0) by lia.
  rewrite (round_generic radix2 _ (round_mode mode_NE) _ (small_format n (-2) Hn E1)) in H.
  rewrite (Rlt_bool_true _ _ (small_lt_emax n (-2) (Z.le_trans _ _ _ Hn p24_26) E2)) in H.
  destruct H as (H1 & H2 & _). split; [exact H2|exact H1].
Qed.

(* ===== 2. floats whose sign is the sign of an integer ===== *)

Definition fsgn (c : f32) (k : Z) : Prop :=
  is_finite 24 128 c = true /\ Rcompare (B2R 24 128 c) 0 = (k ?= 0).

Lemma frep_fsgn c k e : frep c k e -> fsgn c k.
Proof.
  intros [F V]. split; [exact F|]. rewrite V, <- (F2R_0 radix2 e). apply Rcompare_F2R.
Qed.

(* the difference of two exact values may round, but never across zero: multiples of 2^e are binary32 numbers *)
Lemma fsub_sign a b ka kb e : frep a ka e -> frep b kb e -> Z.abs ka <= 2 ^ 24 -> Z.abs kb <= 2 ^ 24 ->
  -149 <= e <= 0 -> fsgn (fsub a b) (ka - kb).
Proof.
  intros [Fa Va] [Fb Vb] Ba Bb He.
  pose proof (Bminus_correct 24 128 eq_refl eq_refl binop_nan_pl32 mode_NE a b Fa Fb) as H.
  assert (E : (B2R 24 128 a - B2R 24 128 b)%R = F2R (Float radix2 (ka - kb) e)).
  { rewrite Va, Vb. unfold F2R. cbn [Fnum Fexp]. rewrite minus_IZR. ring. }
  rewrite E in H.
  pose proof (fexp_correct 24 128 prec32) as VE.
  pose proof (valid_rnd_round_mode mode_NE) as VR.
  change (2 ^ 24) with 16777216 in *.
  assert (Hov : (Rabs (round radix2 (SpecFloat.fexp 24 128) (round_mode mode_NE) (F2R (Float radix2 (ka - kb) e)))
                 < bpow radix2 128)%R).
  { apply Rle_lt_trans with (bpow radix2 26); [|apply bpow_lt; lia].
    apply abs_round_le_generic; [exact VE|exact VR| |].
    - apply generic_format_bpow. unfold SpecFloat.fexp, SpecFloat.emin. lia.
    - apply Rlt_le. apply Rlt_le_trans with (bpow radix2 (e + 26)); [|apply bpow_le; lia].
      apply F2R_lt_bpow. cbn [Fnum Fexp]. replace (e + 26 - e) with 26 by lia.
      change (radix2 ^ 26) with 67108864. lia. }
  rewrite (Rlt_bool_true _ _ Hov) in H.
  destruct H as (H1 & H2 & _). split; [exact H2|].
  change (fsub a b) with (Bminus 24 128 eq_refl eq_refl binop_nan_pl32 mode_NE a b). rewrite H1.
  destruct (Z.compare_spec (ka - kb) 0) as [Z0|Zn|Zp].
  - rewrite Z0, F2R_0, round_0 by exact VR. apply Rcompare_Eq. reflexivity.
  - apply Rcompare_Lt. apply Rle_lt_trans with (F2R (Float radix2 (-1) e)).
    + apply round_le_generic; [exact VE|exact VR| |].
      * apply small_format; [cbn; lia|lia].
      * apply F2R_le. lia.
    + apply F2R_lt_0. cbn [Fnum]. lia.
  - apply Rcompare_Gt. apply Rlt_le_trans with (F2R (Float radix2 1 e)).
    + apply F2R_gt_0. cbn [Fnum]. lia.
    + apply round_ge_generic; [exact VE|exact VR| |].
      * apply small_format; [cbn; lia|lia].
      * apply F2R_le. lia.
Qed.

Lemma fcmp_sgn c k : fsgn c k -> fcmp c f0 = Some (k ?= 0).
Proof.
  intros [F S]. unfold fcmp, b32_compare. rewrite f0_zero.
  rewrite (Bcompare_correct 24 128 c (B754_zero 24 128 false) F eq_refl). cbn [B2R]. rewrite S. reflexivity.
Qed.
Lemma feq_sgn c k : fsgn c k -> feq c f0 = (k =? 0).
Proof. intros H. unfold feq. rewrite (fcmp_sgn _ _ H), Z.eqb_compare. destruct (k ?= 0); reflexivity. Qed.
Lemma flt_sgn c k : fsgn c k -> flt c f0 = (k <? 0).
Proof. intros H. unfold flt, Z.ltb. rewrite (fcmp_sgn _ _ H). destruct (k ?= 0); reflexivity. Qed.
Lemma fgt_sgn c k : fsgn c k -> fgt c f0 = (0 <? k).
Proof.
  intros H. unfold fgt, Z.ltb. rewrite (fcmp_sgn _ _ H), (Z.compare_antisym k 0). destruct (k ?= 0); reflexivity.
Qed.

(* ===== 3. the cross product ===== *)

Lemma prod_bound B a b : 0 <= B -> Z.abs a <= B -> Z.abs b <= B -> Z.abs (a * b) <= B * B.
Proof. intros HB Ha Hb. rewrite Z.abs_mul. apply Z.mul_le_mono_nonneg; lia. Qed.

(* within +-1024 quarters (256 px) the f32 cross product is exact: it is cross / 16 *)
Lemma cross_exact x y x1 y1 x2 y2 nx ny a1 b1 a2 b2 :
  frep x nx (-2) -> frep y ny (-2) -> frep x1 a1 (-2) -> frep y1 b1 (-2) -> frep x2 a2 (-2) -> frep y2 b2 (-2) ->
  Z.abs nx <= 1024 -> Z.abs ny <= 1024 -> Z.abs a1 <= 1024 -> Z.abs b1 <= 1024 ->
  Z.abs a2 <= 1024 -> Z.abs b2 <= 1024 ->
  frep (fsub (fmul (fsub x2 x1) (fsub y y1)) (fmul (fsub y2 y1) (fsub x x1)))
       (cross ((a1, b1), (a2, b2)) nx ny) (-4).
Proof.
  intros Hx Hy Hx1 Hy1 Hx2 Hy2 Bx By B1 B2 B3 B4.
  assert (Dx : frep (fsub x2 x1) (a2 - a1) (-2)) by (apply frep_sub; [assumption|assumption|change (2 ^ 24) with 16777216; lia|lia]).
  assert (Dy : frep (fsub y2 y1) (b2 - b1) (-2)) by (apply frep_sub; [assumption|assumption|change (2 ^ 24) with 16777216; lia|lia]).
  assert (Ey : frep (fsub y y1) (ny - b1) (-2)) by (apply frep_sub; [assumption|assumption|change (2 ^ 24) with 16777216; lia|lia]).
  assert (Ex : frep (fsub x x1) (nx - a1) (-2)) by (apply frep_sub; [assumption|assumption|change (2 ^ 24) with 16777216; lia|lia]).
  assert (P1 : Z.abs ((a2 - a1) * (ny - b1)) <= 2048 * 2048) by (apply prod_bound; lia).
  assert (P2 : Z.abs ((b2 - b1) * (nx - a1)) <= 2048 * 2048) by (apply prod_bound; lia).
  assert (M1 : frep (fmul (fsub x2 x1) (fsub y y1)) ((a2 - a1) * (ny - b1)) (-4)).
  { change (-4) with (-2 + -2). apply frep_mul; [exact Dx|exact Ey|change (2 ^ 24) with 16777216; lia|lia]. }
  assert (M2 : frep (fmul (fsub y2 y1) (fsub x x1)) ((b2 - b1) * (nx - a1)) (-4)).
  { change (-4) with (-2 + -2). apply frep_mul; [exact Dy|exact Ex|change (2 ^ 24) with 16777216; lia|lia]. }
  unfold cross. apply frep_sub; [exact M1|exact M2|change (2 ^ 24) with 16777216; lia|lia].
Qed.

Definition gbound : Z := 2048.

(* within +-2048 quarters (512 px) the two products are still exact (at most 2^24 sixteenths), so the f32 cross
   product, possibly rounded, has the sign of the integer cross product *)
Lemma cross_sign x y x1 y1 x2 y2 nx ny a1 b1 a2 b2 :
  frep x nx (-2) -> frep y ny (-2) -> frep x1 a1 (-2) -> frep y1 b1 (-2) -> frep x2 a2 (-2) -> frep y2 b2 (-2) ->
  Z.abs nx <= gbound -> Z.abs ny <= gbound -> Z.abs a1 <= gbound -> Z.abs b1 <= gbound ->
  Z.abs a2 <= gbound -> Z.abs b2 <= gbound ->
  fsgn (fsub (fmul (fsub x2 x1) (fsub y y1)) (fmul (fsub y2 y1) (fsub x x1)))
       ((a2 - a1) * (ny - b1) - (b2 - b1) * (nx - a1)).
Proof.
  unfold gbound. intros Hx Hy Hx1 Hy1 Hx2 Hy2 Bx By B1 B2 B3 B4.
  assert (Dx : frep (fsub x2 x1) (a2 - a1) (-2)) by (apply frep_sub; [assumption|assumption|change (2 ^ 24) with 16777216; lia|lia]).
  assert (Dy : frep (fsub y2 y1) (b2 - b1) (-2)) by (apply frep_sub; [assumption|assumption|change (2 ^ 24) with 16777216; lia|lia]).
  assert (Ey : frep (fsub y y1) (ny - b1) (-2)) by (apply frep_sub; [assumption|assumption|change (2 ^ 24) with 16777216; lia|lia]).
  assert (Ex : frep (fsub x x1) (nx - a1) (-2)) by (apply frep_sub; [assumption|assumption|change (2 ^ 24) with 16777216; lia|lia]).
  assert (P1 : Z.abs ((a2 - a1) * (ny - b1)) <= 4096 * 4096) by (apply prod_bound; lia).
  assert (P2 : Z.abs ((b2 - b1) * (nx - a1)) <= 4096 * 4096) by (apply prod_bound; lia).
  assert (M1 : frep (fmul (fsub x2 x1) (fsub y y1)) ((a2 - a1) * (ny - b1)) (-4)).
  { change (-4) with (-2 + -2). apply frep_mul; [exact Dx|exact Ey|exact P1|lia]. }
  assert (M2 : frep (fmul (fsub y2 y1) (fsub x x1)) ((b2 - b1) * (nx - a1)) (-4)).
  { change (-4) with (-2 + -2). apply frep_mul; [exact Dy|exact Ex|exact P2|lia]. }
  apply (fsub_sign _ _ _ _ (-4) M1 M2 P1 P2). lia.
Qed.

(* ===== 4. the simulation ===== *)

(* a float point on the quarter grid within the bound B, and its integer pair *)
Definition qpt (B : Z) (p : pt) (z : zpt) : Prop :=
  fquarter (px p) (fst z) /\ fquarter (py p) (snd z) /\ Z.abs (fst z) <= B /\ Z.abs (snd z) <= B.

Inductive qopt (B : Z) : option pt -> option zpt -> Prop :=
  | qopt_none : qopt B None None
  | qopt_some p z : qpt B p z -> qopt B (Some p) (Some z).

Definition ws_rel (B : Z) (w : windstate) (zw : zws) : Prop :=
  qopt B (ws_first w) (z_first zw) /\ qopt B (ws_cur w) (z_cur zw) /\ ws_count w = z_count zw /\ ws_on w = z_on zw.

Inductive grid_op (B : Z) : pathop -> zop -> Prop :=
  | grid_move p z : qpt B p z -> grid_op B (MoveTo p) (ZMove z)
  | grid_line p z : qpt B p z -> grid_op B (LineTo p) (ZLine z)
  | grid_close : grid_op B Close ZClose.

(* ops has only MoveTo / LineTo / Close, zops has the same shape, and every point of ops is, coordinate by
   coordinate, the quarter of the corresponding integer of zops, all integers within +-B *)
Definition grid_ops_within (B : Z) (ops : list pathop) (zops : list zop) : Prop := Forall2 (grid_op B) ops zops.
(* the bound of the statement: +-1024 quarters = +-256 px *)
Definition grid_ops : list pathop -> list zop -> Prop := grid_ops_within 1024.

Lemma qpt_mono B B' p z : B <= B' -> qpt B p z -> qpt B' p z.
Proof. intros L (H1 & H2 & H3 & H4). split; [exact H1|split; [exact H2|split; lia]]. Qed.
Lemma grid_ops_mono B B' ops zops : B <= B' -> grid_ops_within B ops zops -> grid_ops_within B' ops zops.
Proof.
  intros L H. induction H as [|o zo ops zops G GS IH]; constructor; [|exact IH].
  destruct G; constructor; eapply qpt_mono; eassumption.
Qed.

Section Sim.
  Variables (x y : f32) (nx ny : Z).
  Hypothesis Hx : fquarter x nx.
  Hypothesis Hy : fquarter y ny.
  Hypothesis Bx : Z.abs nx <= gbound.
  Hypothesis By : Z.abs ny <= gbound.
  Notation rel := (ws_rel gbound).
  Notation qp := (qpt gbound).

  Lemma ws_add_edge_sim w zw p1 p2 z1 z2 : rel w zw -> qp p1 z1 -> qp p2 z2 ->
    rel (ws_add_edge x y w p1 p2) (z_add_edge nx ny zw (z1, z2)).
  Proof.
    intros (Rf & Rc & Rn & Ro) (X1 & Y1 & B1 & B2) (X2 & Y2 & B3 & B4).
    destruct z1 as [a1 b1], z2 as [a2 b2]. cbn [fst snd] in *.
    pose proof Hx as Hx'. pose proof Hy as Hy'.
    rewrite fquarter_frep in Hx', Hy', X1, Y1, X2, Y2.
    pose proof (cross_sign x y _ _ _ _ nx ny a1 b1 a2 b2 Hx' Hy' X1 Y1 X2 Y2 Bx By B1 B2 B3 B4) as C.
    unfold ws_add_edge, z_add_edge, in_bbox, cross in *. cbv beta iota zeta.
    set (c := (a2 - a1) * (ny - b1) - (b2 - b1) * (nx - a1)) in *.
    rewrite (feq_sgn _ _ C), (flt_sgn _ _ C), (fgt_sgn _ _ C).
    rewrite (fge_rep _ _ _ _ _ Hx' (fmin_rep _ _ _ _ _ X1 X2)).
    rewrite (fle_rep _ _ _ _ _ Hx' (fmax_rep _ _ _ _ _ X1 X2)).
    rewrite (fge_rep _ _ _ _ _ Hy' (fmin_rep _ _ _ _ _ Y1 Y2)).
    rewrite (fle_rep _ _ _ _ _ Hy' (fmax_rep _ _ _ _ _ Y1 Y2)).
    rewrite (fle_rep _ _ _ _ _ Y1 Hy'), (flt_rep _ _ _ _ _ Hy' Y2).
    rewrite (fle_rep _ _ _ _ _ Y2 Hy'), (flt_rep _ _ _ _ _ Hy' Y1).
    destruct (c =? 0).
    - destruct ((Z.min a1 a2 <=? nx) && (nx <=? Z.max a1 a2) && (Z.min b1 b2 <=? ny) && (ny <=? Z.max b1 b2))%bool.
      + repeat split; cbn [ws_first ws_cur ws_count ws_on z_first z_cur z_count z_on]; assumption.
      + repeat split; assumption.
    - destruct ((b1 <=? ny) && (ny <? b2))%bool.
      + destruct (c <? 0).
        * repeat split; cbn [ws_first ws_cur ws_count ws_on z_first z_cur z_count z_on]; try assumption. now rewrite Rn.
        * repeat split; assumption.
      + destruct ((b2 <=? ny) && (ny <? b1))%bool.
        * destruct (0 <? c).
          -- repeat split; cbn [ws_first ws_cur ws_count ws_on z_first z_cur z_count z_on]; try assumption. now rewrite Rn.
          -- repeat split; assumption.
        * repeat split; assumption.
  Qed.

  Lemma ws_close_sim w zw : rel w zw -> rel (ws_close x y w) (z_close nx ny zw).
  Proof.
    intros R. unfold ws_close, z_close.
    assert (R' : rel (match ws_first w, ws_cur w with Some f, Some c => ws_add_edge x y w c f | _, _ => w end)
                     (match z_first zw, z_cur zw with Some f, Some c => z_add_edge nx ny zw (c, f) | _, _ => zw end)).
    { destruct R as (Rf & Rc & Rn & Ro).
      destruct w as [wf wc wn wo], zw as [zf zc zn zo]. cbn [ws_first ws_cur ws_count ws_on z_first z_cur z_count z_on] in *.
      inversion Rf as [|f zf' Qf]; subst; inversion Rc as [|c zc' Qc]; subst;
        try (repeat split; assumption).
      apply ws_add_edge_sim; [repeat split; assumption|exact Qc|exact Qf]. }
    destruct R' as (Rf & Rc & Rn & Ro).
    repeat split; cbn [ws_first ws_cur ws_count ws_on z_first z_cur z_count z_on]; assumption.
  Qed.

  Lemma ws_op_sim w zw o zo : rel w zw -> grid_op gbound o zo ->
    exists w', ws_op x y w o = Ok w' /\ rel w' (z_op nx ny zw zo).
  Proof.
    intros R G. destruct G as [p z Q|p z Q|].
    - eexists. split; [reflexivity|]. cbn [z_op]. destruct (ws_close_sim w zw R) as (Rf & Rc & Rn & Ro).
      repeat split; cbn [ws_first ws_cur ws_count ws_on z_first z_cur z_count z_on];
        try assumption; constructor; exact Q.
    - cbn [ws_op z_op]. pose proof R as (Rf & Rc & Rn & Ro).
      destruct w as [wf wc wn wo], zw as [zf zc zn zo]. cbn [ws_first ws_cur ws_count ws_on z_first z_cur z_count z_on] in *.
      inversion Rc as [|c zc' Qc]; subst.
      + eexists. split; [reflexivity|].
        repeat split; cbn [ws_first ws_cur ws_count ws_on z_first z_cur z_count z_on];
          try assumption; constructor; exact Q.
      + eexists. split; [reflexivity|].
        destruct (ws_add_edge_sim _ _ c p zc' z R Qc Q) as (Rf' & Rc' & Rn' & Ro').
        repeat split; cbn [ws_first ws_cur ws_count ws_on z_first z_cur z_count z_on];
          try assumption; constructor; exact Q.
    - eexists. split; [reflexivity|]. cbn [z_op]. apply ws_close_sim. exact R.
  Qed.

  Lemma ws_run_sim ops zops : grid_ops_within gbound ops zops -> forall w zw, rel w zw ->
    exists w', ws_run x y w ops = Ok w' /\ rel w' (fold_left (z_op nx ny) zops zw).
  Proof.
    induction 1 as [|o zo ops zops G GS IH]; intros w zw R.
    - exists w. split; [reflexivity|exact R].
    - destruct (ws_op_sim w zw o zo R G) as (w1 & E1 & R1).
      destruct (IH w1 _ R1) as (w2 & E2 & R2).
      exists w2. split; [|exact R2]. cbn [ws_run fold_left]. rewrite E1. cbn [bind]. exact E2.
  Qed.
End Sim.

(* ===== 5. the theorems ===== *)

(* the general form: coordinates within +-2048 quarters (+-512 px) *)
Theorem contains_point_flat_on_grid_2048 :
  forall (rule : winding_rule) (ops : list pathop) (zops : list zop) (x y : f32) (nx ny : Z),
    grid_ops_within 2048 ops zops ->
    fquarter x nx -> fquarter y ny -> Z.abs nx <= 2048 -> Z.abs ny <= 2048 ->
    contains_point_flat (mk_path ops rule) x y = Ok (contains_Z rule zops nx ny).
Proof.
  intros rule ops zops x y nx ny G Hx Hy Bx By.
  unfold contains_point_flat, contains_Z. cbn [p_ops p_winding].
  assert (R0 : ws_rel gbound (mk_ws None None 0 false) (mk_zws None None 0 false)) by (repeat split; constructor).
  destruct (ws_run_sim x y nx ny Hx Hy Bx By ops zops G _ _ R0) as (w & E & R).
  rewrite E. cbn [bind].
  destruct (ws_close_sim x y nx ny Hx Hy Bx By _ _ R) as (_ & _ & Rn & Ro).
  rewrite Rn, Ro. reflexivity.
Qed.
Print Assumptions contains_point_flat_on_grid_2048.

(* the statement of C17: +-1024 quarters (+-256 px), where in addition every f32 operation is exact (cross_exact) *)
Theorem contains_point_flat_on_grid :
  forall (rule : winding_rule) (ops : list pathop) (zops : list zop) (x y : f32) (nx ny : Z),
    grid_ops ops zops ->
    fquarter x nx -> fquarter y ny -> Z.abs nx <= 1024 -> Z.abs ny <= 1024 ->
    contains_point_flat (mk_path ops rule) x y = Ok (contains_Z rule zops nx ny).
Proof.
  intros rule ops zops x y nx ny G Hx Hy Bx By.
  apply contains_point_flat_on_grid_2048; try assumption; try lia.
  apply (grid_ops_mono 1024 2048); [lia|exact G].
Qed.
Print Assumptions contains_point_flat_on_grid.

(* the f32 procedure decides the declarative statement: winding number of the implicitly closed path under the
   rule, or the point lies on an edge *)
Corollary contains_point_flat_spec_on_grid :
  forall (rule : winding_rule) (ops : list pathop) (zops : list zop) (x y : f32) (nx ny : Z),
    grid_ops ops zops ->
    fquarter x nx -> fquarter y ny -> Z.abs nx <= 1024 -> Z.abs ny <= 1024 ->
    contains_point_flat (mk_path ops rule) x y = Ok (contains_spec rule zops nx ny).
Proof.
  intros. rewrite <- contains_Z_correct. apply contains_point_flat_on_grid; assumption.
Qed.
Print Assumptions contains_point_flat_spec_on_grid.

Corollary contains_point_flat_spec_on_grid_2048 :
  forall (rule : winding_rule) (ops : list pathop) (zops : list zop) (x y : f32) (nx ny : Z),
    grid_ops_within 2048 ops zops ->
    fquarter x nx -> fquarter y ny -> Z.abs nx <= 2048 -> Z.abs ny <= 2048 ->
    contains_point_flat (mk_path ops rule) x y = Ok (contains_spec rule zops nx ny).
Proof.
  intros. rewrite <- contains_Z_correct. apply contains_point_flat_on_grid_2048; assumption.
Qed.
Print Assumptions contains_point_flat_spec_on_grid_2048.

(* ===== 6. the bound is sharp: at +-4096 quarters the products round and the hit test is wrong =====
   segment (-1024, -1024) -> (1023.75, 1024) px and the point (1023.5, 1023.75) px: the integer cross product is 1
   (the point is off the segment, outside), the f32 products 8191*8191/16 and 8192*8190/16 round to the same
   float, the f32 cross product is 0 and the f32 procedure answers "on the outline". *)
Definition sharp_ops : list pathop := [MoveTo (of_quarter (-4096), of_quarter (-4096)); LineTo (of_quarter 4095, of_quarter 4096)].
Definition sharp_zops : list zop := [ZMove (-4096, -4096); ZLine (4095, 4096)].
Lemma bound_4096_fails :
  grid_ops_within 4096 sharp_ops sharp_zops /\
  fquarter (of_quarter 4094) 4094 /\ fquarter (of_quarter 4095) 4095 /\
  contains_point_flat (mk_path sharp_ops NonZero) (of_quarter 4094) (of_quarter 4095) = Ok true /\
  contains_Z NonZero sharp_zops 4094 4095 = false.
Proof.
  assert (Q : forall n, Z.abs n <= 4096 -> fquarter (of_quarter n) n).
  { intros n Hn. apply of_quarter_fquarter. change (2 ^ 24) with 16777216. lia. }
  split; [|split; [apply Q; lia|split; [apply Q; lia|split; vm_compute; reflexivity]]].
  repeat constructor; cbn [px py fst snd]; try (apply Q; lia); lia.
Qed.

(* ===== 7. the hypotheses are inhabited: every integer path within the bound has its float path ===== *)
Definition zop_within (B : Z) (o : zop) : Prop :=
  match o with
  | ZMove p | ZLine p => Z.abs (fst p) <= B /\ Z.abs (snd p) <= B
  | ZClose => True
  end.
Definition op_of_zop (o : zop) : pathop :=
  match o with
  | ZMove p => MoveTo (of_quarter (fst p), of_quarter (snd p))
  | ZLine p => LineTo (of_quarter (fst p), of_quarter (snd p))
  | ZClose => Close
  end.

Lemma grid_ops_of_zops B zops : B <= 2 ^ 24 -> Forall (zop_within B) zops ->
  grid_ops_within B (map op_of_zop zops) zops.
Proof.
  intros HB H. induction H as [|o t Ho Ht IH]; cbn [map]; constructor; [|exact IH].
  destruct o as [p|p|]; cbn [zop_within op_of_zop] in *; constructor;
    (destruct Ho as [H1 H2]; split; [|split; [|split; assumption]]; cbn [px py fst snd];
     apply of_quarter_fquarter; lia).
Qed.

Corollary contains_point_flat_of_quarter :
  forall (rule : winding_rule) (zops : list zop) (nx ny : Z),
    Forall (zop_within 2048) zops -> Z.abs nx <= 2048 -> Z.abs ny <= 2048 ->
    contains_point_flat (mk_path (map op_of_zop zops) rule) (of_quarter nx) (of_quarter ny)
    = Ok (contains_spec rule zops nx ny).
Proof.
  intros rule zops nx ny H Bx By.
  assert (L : 2048 <= 2 ^ 24) by (intro E; discriminate E).
  apply contains_point_flat_spec_on_grid_2048; try assumption.
  - apply grid_ops_of_zops; assumption.
  - apply of_quarter_fquarter; lia.
  - apply of_quarter_fquarter; lia.
Qed.
Print Assumptions contains_point_flat_of_quarter.
