(* CurveMetric: how far the polyline that the rasteriser scans is from the exact quadratic curve (metric core of C08).

   Units.  dot2 = quarter pixel (the integer coordinates add_edge receives), dot16 = 2^-14 dot2 = 2^-16 pixel
   (the unit of the forward-difference vertices fd_point and of e_fullx).  One pixel = 65536 units.

   Everything is stated on integers, denominator-free.  With n = 2^s segments, a sub-division n' of one segment and
   N = n * n', the exact curve value at parameter t = (k n' + j) / N is   bez_num p1 c p2 N (k n' + j) / N^2   (dot2).

   Part 1  chord_curve_mid, chord_curve_gap, chord_curve_gap_bound, chord_curve_gap_sign, chord_curve_gap_skip
           (exact identities for the quadratic)
   Part 2  shift_is_enough (+ diff_to_shift_spec, cheap_distance_ge_max, cheap_distance_ge_euclid, shift_not_clamped,
           shift_gap_units, shift_is_enough_euclid)
   Part 3  polyline_close_to_curve (+ polyline_close_to_curve_1d, _unclamped, _in_range, skip_chord_close_to_curve_1d)
   Part 4  the crossing the rasteriser uses on a sample row: cseg (invariant), curve_crossing_on_chord,
           curve_crossing_error_partial, first_segment_counterexample, skipped_vertices_example. *)
From Coq Require Import ZArith List Lia ZifyBool Bool.
Require Import RQ.Base RQ.Rect RQ.Raster RQ.RasterProofs RQ.RasterIdle RQ.RasterTotal.
Ltac Zify.zify_post_hook ::= Z.to_euclidean_division_equations.
Open Scope Z_scope.

(* ===================================================================================================== *)
(* Part 1: chord versus curve, exact                                                                      *)
(* ===================================================================================================== *)

(* the second difference of the control values: B(t) = p1 + 2 (c - p1) t + (p1 - 2c + p2) t^2 *)
Definition bez_dev (p1 c p2 : Z) : Z := p1 - 2 * c + p2.

(* MIDPOINT.  B((2k+1)/(2n)) - (B(k/n) + B((k+1)/n)) / 2 = - (p1 - 2c + p2) / (4 n^2), multiplied by 4 n^2. *)
Theorem chord_curve_mid p1 c p2 n k :
  bez_num p1 c p2 (2 * n) (2 * k + 1) - 2 * (bez_num p1 c p2 n k + bez_num p1 c p2 n (k + 1)) = - bez_dev p1 c p2.
Proof. unfold bez_num, bez_dev. ring. Qed.

(* GENERAL.  Segment k of n, split in n' parts, point j of them: t = (k n' + j) / (n n').
   chord(t) - B(t) = (p1 - 2c + p2) * j (n' - j) / (n n')^2, multiplied by (n n')^2:
   the chord value is ((n' - j) B(k/n) + j B((k+1)/n)) / n'. *)
Theorem chord_curve_gap p1 c p2 n n' k j :
  n' * ((n' - j) * bez_num p1 c p2 n k + j * bez_num p1 c p2 n (k + 1)) - bez_num p1 c p2 (n * n') (k * n' + j)
  = bez_dev p1 c p2 * (j * (n' - j)).
Proof. unfold bez_num, bez_dev. ring. Qed.

Lemma four_j_le n' j : 4 * (j * (n' - j)) <= n' * n'.
Proof. assert (0 <= (n' - 2 * j) * (n' - 2 * j)) by apply Z.square_nonneg. lia. Qed.

(* |chord(t) - B(t)| <= |p1 - 2c + p2| / (4 n^2), multiplied by 4 (n n')^2 *)
Theorem chord_curve_gap_bound p1 c p2 n n' k j : 0 <= j <= n' ->
  4 * Z.abs (n' * ((n' - j) * bez_num p1 c p2 n k + j * bez_num p1 c p2 n (k + 1)) - bez_num p1 c p2 (n * n') (k * n' + j))
  <= Z.abs (bez_dev p1 c p2) * (n' * n').
Proof.
  intros Hj. rewrite chord_curve_gap. rewrite Z.abs_mul.
  assert (H0 : 0 <= j * (n' - j)) by (apply Z.mul_nonneg_nonneg; lia).
  rewrite (Z.abs_eq (j * (n' - j))) by exact H0.
  pose proof (four_j_le n' j) as H4. pose proof (Z.abs_nonneg (bez_dev p1 c p2)) as Ha.
  replace (4 * (Z.abs (bez_dev p1 c p2) * (j * (n' - j)))) with (Z.abs (bez_dev p1 c p2) * (4 * (j * (n' - j)))) by ring.
  apply Z.mul_le_mono_nonneg_l; assumption.
Qed.

(* the gap has the sign of the second difference: a convex coordinate (dev >= 0) has its chord above the curve *)
Lemma chord_curve_gap_sign p1 c p2 n n' k j : 0 <= j <= n' ->
  (0 <= bez_dev p1 c p2 ->
     0 <= n' * ((n' - j) * bez_num p1 c p2 n k + j * bez_num p1 c p2 n (k + 1)) - bez_num p1 c p2 (n * n') (k * n' + j)) /\
  (bez_dev p1 c p2 <= 0 ->
     n' * ((n' - j) * bez_num p1 c p2 n k + j * bez_num p1 c p2 n (k + 1)) - bez_num p1 c p2 (n * n') (k * n' + j) <= 0).
Proof.
  intros Hj. rewrite chord_curve_gap.
  assert (H0 : 0 <= j * (n' - j)) by (apply Z.mul_nonneg_nonneg; lia).
  split; intros H; [apply Z.mul_nonneg_nonneg|apply Z.mul_nonpos_nonneg]; assumption.
Qed.

Print Assumptions chord_curve_mid.
Print Assumptions chord_curve_gap.
Print Assumptions chord_curve_gap_bound.

(* ===================================================================================================== *)
(* Part 2: the subdivision count is enough                                                                *)
(* ===================================================================================================== *)

Lemma cheap_distance_ge_max dx dy : Z.max (Z.abs dx) (Z.abs dy) <= cheap_distance dx dy.
Proof.
  unfold cheap_distance. rewrite !Z.shiftr_div_pow2 by lia. change (2 ^ 1) with 2.
  destruct (Z.abs dy <? Z.abs dx) eqn:E; lia.
Qed.

Lemma cheap_distance_le dx dy : 2 * cheap_distance dx dy <= 3 * Z.max (Z.abs dx) (Z.abs dy).
Proof.
  unfold cheap_distance. rewrite !Z.shiftr_div_pow2 by lia. change (2 ^ 1) with 2.
  destruct (Z.abs dy <? Z.abs dx) eqn:E; lia.
Qed.

(* cheap_distance is also an upper bound of the Euclidean length (up to the floor of the halving) *)
Lemma cheap_distance_ge_euclid dx dy : dx * dx + dy * dy <= (cheap_distance dx dy + 1) * (cheap_distance dx dy + 1).
Proof.
  assert (G : forall a b, 0 <= b <= a -> a * a + b * b <= (a + b / 2 + 1) * (a + b / 2 + 1)).
  { intros a b H. assert (Hb : b <= 2 * (b / 2) + 1) by lia. set (h := b / 2) in *.
    assert (H1 : b * b <= (2 * h + 1) * (2 * h + 1)) by (apply Z.mul_le_mono_nonneg; lia).
    assert (H2 : h * (2 * h + 1) <= h * (a + 1)) by (apply Z.mul_le_mono_nonneg_l; lia).
    assert (H3 : 0 <= h * h) by apply Z.square_nonneg.
    nia. }
  unfold cheap_distance. rewrite !Z.shiftr_div_pow2 by lia. change (2 ^ 1) with 2.
  replace (dx * dx) with (Z.abs dx * Z.abs dx) by (destruct (Z.abs_spec dx) as [[_ ->]|[_ ->]]; ring).
  replace (dy * dy) with (Z.abs dy * Z.abs dy) by (destruct (Z.abs_spec dy) as [[_ ->]|[_ ->]]; ring).
  pose proof (Z.abs_nonneg dx). pose proof (Z.abs_nonneg dy).
  destruct (Z.abs dy <? Z.abs dx) eqn:E.
  - apply G. lia.
  - rewrite Z.add_comm. apply G. lia.
Qed.

(* WHAT THE CODE GIVES.  dist = (cheap_distance + 16) >> 5 and s0 = (32 - leading_zeros(dist)) >> 1 is the FLOOR of half
   the bit length of dist, so   dist + 1 <= 2 * 4^s0   and (when s0 > 0)   4^s0 <= 2 * dist.
   (Not 4^s0 >= dist + 1: dist = 4 .. 7 give s0 = 1, dist = 16 .. 31 give s0 = 2.) *)
Lemma diff_to_shift_spec dx dy :
  let dist := Z.shiftr (cheap_distance dx dy + 16) 5 in
  let s0 := diff_to_shift dx dy in
  0 <= s0 /\ dist + 1 <= 2 * (2 ^ s0 * 2 ^ s0) /\ (0 < s0 -> 2 ^ s0 * 2 ^ s0 <= 2 * dist).
Proof.
  cbv zeta. unfold diff_to_shift, leading_zeros32.
  set (dist := Z.shiftr (cheap_distance dx dy + 16) 5).
  rewrite (Z.shiftr_div_pow2 _ 1) by lia. change (2 ^ 1) with 2.
  assert (Hd0 : 0 <= dist).
  { subst dist. apply Z.shiftr_nonneg. pose proof (cheap_distance_ge_max dx dy). lia. }
  destruct (dist <=? 0) eqn:E.
  - assert (dist = 0) by lia. replace ((32 - 32) / 2) with 0 by reflexivity. change (2 ^ 0) with 1. lia.
  - assert (Hpos : 0 < dist) by lia.
    pose proof (Z.log2_spec dist Hpos) as [L1 L2]. pose proof (Z.log2_nonneg dist) as L0.
    set (l := Z.log2 dist) in *.
    replace (32 - (32 - l - 1)) with (l + 1) by ring.
    set (s := (l + 1) / 2).
    assert (Hs : 0 <= s /\ 2 * s <= l + 1 <= 2 * s + 1) by (subst s; lia).
    assert (Hsq : 2 ^ s * 2 ^ s = 2 ^ (2 * s)) by (rewrite <- Z.pow_add_r by lia; f_equal; lia).
    rewrite Hsq. split; [lia|].
    rewrite Z.pow_succ_r in L2 by lia.
    split.
    + assert (H : 2 ^ (l + 1) <= 2 ^ (2 * s + 1)) by (apply Z.pow_le_mono_r; lia).
      rewrite (Z.pow_add_r 2 l 1) in H by lia.
      rewrite (Z.pow_add_r 2 (2 * s) 1) in H by lia. change (2 ^ 1) with 2 in H. lia.
    + intros _. assert (H : 2 ^ (2 * s) <= 2 ^ (l + 1)) by (apply Z.pow_le_mono_r; lia).
      rewrite (Z.pow_add_r 2 l 1) in H by lia. change (2 ^ 1) with 2 in H. lia.
Qed.

(* the per-coordinate size of the deviation vector of the curve, in dot2 *)
Definition curve_dev (x1 y1 x2 y2 cx cy : Z) : Z := Z.max (Z.abs (bez_dev x1 cx x2)) (Z.abs (bez_dev y1 cy y2)).

Lemma curve_dev_cheap x1 y1 x2 y2 cx cy :
  16 * curve_dev x1 y1 x2 y2 cx cy <= cheap_distance ((cx * 2 - x1 - x2) * 16) ((cy * 2 - y1 - y2) * 16).
Proof.
  pose proof (cheap_distance_ge_max ((cx * 2 - x1 - x2) * 16) ((cy * 2 - y1 - y2) * 16)) as H.
  unfold curve_dev, bez_dev. lia.
Qed.

(* THE SUBDIVISION COUNT IS ENOUGH.  s = curve_shift, n = 2^s segments, D = max(|2cx-x1-x2|, |2cy-y1-y2|) in dot2.
   Either  D + 2 <= 4 n^2  (so the chord/curve gap D / (4 n^2) is < 1 dot2 = a quarter pixel, per coordinate),
   or the clamp at 6 was hit: s = 6, the gap is D / 16384 dot2 (= D units of 2^-16 pixel), and D >= 10922 dot2. *)
Theorem shift_is_enough x1 y1 x2 y2 cx cy :
  let s := curve_shift x1 y1 x2 y2 cx cy in
  let n := 2 ^ s in
  let D := curve_dev x1 y1 x2 y2 cx cy in
  D + 2 <= 4 * (n * n) \/ (s = 6 /\ 10922 <= D).
Proof.
  cbv zeta. unfold curve_shift.
  pose proof (curve_dev_cheap x1 y1 x2 y2 cx cy) as Hc.
  pose proof (cheap_distance_le ((cx * 2 - x1 - x2) * 16) ((cy * 2 - y1 - y2) * 16)) as Hu.
  assert (HD : Z.max (Z.abs ((cx * 2 - x1 - x2) * 16)) (Z.abs ((cy * 2 - y1 - y2) * 16)) = 16 * curve_dev x1 y1 x2 y2 cx cy)
    by (unfold curve_dev, bez_dev; lia).
  rewrite HD in Hu. clear HD.
  pose proof (diff_to_shift_spec ((cx * 2 - x1 - x2) * 16) ((cy * 2 - y1 - y2) * 16)) as Hs. cbv zeta in Hs.
  set (cd := cheap_distance ((cx * 2 - x1 - x2) * 16) ((cy * 2 - y1 - y2) * 16)) in *.
  set (s0 := diff_to_shift ((cx * 2 - x1 - x2) * 16) ((cy * 2 - y1 - y2) * 16)) in *.
  set (D := curve_dev x1 y1 x2 y2 cx cy) in *.
  rewrite Z.shiftr_div_pow2 in Hs by lia. change (2 ^ 5) with 32 in Hs.
  destruct Hs as (S0 & S1 & S2).
  destruct (s0 =? 0) eqn:E0.
  - left. assert (s0 = 0) by lia. rewrite H in S1. change (2 ^ 0) with 1 in S1. change (2 ^ 1) with 2. lia.
  - destruct (6 <? s0) eqn:E6.
    + right. split; [reflexivity|].
      assert (H7 : 2 ^ 7 <= 2 ^ s0) by (apply Z.pow_le_mono_r; lia). change (2 ^ 7) with 128 in H7.
      assert (128 * 128 <= 2 ^ s0 * 2 ^ s0) by (apply Z.mul_le_mono_nonneg; lia).
      specialize (S2 ltac:(lia)). lia.
    + left. lia.
Qed.

(* no clamp for moderately sized curves (deviation below 10922 dot2 = 2730 pixels) *)
Corollary shift_not_clamped x1 y1 x2 y2 cx cy :
  let n := 2 ^ curve_shift x1 y1 x2 y2 cx cy in
  curve_dev x1 y1 x2 y2 cx cy <= 10921 -> curve_dev x1 y1 x2 y2 cx cy + 2 <= 4 * (n * n).
Proof. cbv zeta. intros H. destruct (shift_is_enough x1 y1 x2 y2 cx cy) as [G|[_ G]]; [exact G|lia]. Qed.

(* one inequality for both cases: the gap 2^14 D / (4 n^2), in units of 2^-16 pixel, is at most max(16384, D) *)
Corollary shift_gap_units x1 y1 x2 y2 cx cy :
  let n := 2 ^ curve_shift x1 y1 x2 y2 cx cy in
  let D := curve_dev x1 y1 x2 y2 cx cy in
  16384 * D <= 4 * (n * n) * Z.max 16384 D.
Proof.
  cbv zeta. pose proof (curve_shift_range x1 y1 x2 y2 cx cy) as Hr.
  destruct (shift_is_enough x1 y1 x2 y2 cx cy) as [G|[G1 G2]].
  - set (n := 2 ^ curve_shift x1 y1 x2 y2 cx cy) in *. set (D := curve_dev x1 y1 x2 y2 cx cy) in *.
    assert (0 <= n * n) by apply Z.square_nonneg.
    assert (4 * (n * n) * 16384 <= 4 * (n * n) * Z.max 16384 D) by (apply Z.mul_le_mono_nonneg_l; lia). lia.
  - rewrite G1. change (2 ^ 6) with 64. lia.
Qed.

(* Euclidean form of the same count: |(devx, devy)|^2 < (4 n^2)^2 when the clamp is not hit *)
Theorem shift_is_enough_euclid x1 y1 x2 y2 cx cy :
  let s := curve_shift x1 y1 x2 y2 cx cy in
  let n := 2 ^ s in
  let ax := bez_dev x1 cx x2 in let ay := bez_dev y1 cy y2 in
  ax * ax + ay * ay < (4 * (n * n)) * (4 * (n * n)) \/ s = 6.
Proof.
  cbv zeta. unfold curve_shift.
  pose proof (cheap_distance_ge_euclid ((cx * 2 - x1 - x2) * 16) ((cy * 2 - y1 - y2) * 16)) as He.
  pose proof (cheap_distance_ge_max ((cx * 2 - x1 - x2) * 16) ((cy * 2 - y1 - y2) * 16)) as Hm.
  pose proof (diff_to_shift_spec ((cx * 2 - x1 - x2) * 16) ((cy * 2 - y1 - y2) * 16)) as Hs. cbv zeta in Hs.
  set (cd := cheap_distance ((cx * 2 - x1 - x2) * 16) ((cy * 2 - y1 - y2) * 16)) in *.
  set (s0 := diff_to_shift ((cx * 2 - x1 - x2) * 16) ((cy * 2 - y1 - y2) * 16)) in *.
  rewrite Z.shiftr_div_pow2 in Hs by lia. change (2 ^ 5) with 32 in Hs.
  destruct Hs as (S0 & S1 & S2).
  assert (Hcd : 0 <= cd) by lia.
  replace ((cx * 2 - x1 - x2) * 16 * ((cx * 2 - x1 - x2) * 16) + (cy * 2 - y1 - y2) * 16 * ((cy * 2 - y1 - y2) * 16))
    with (256 * (bez_dev x1 cx x2 * bez_dev x1 cx x2 + bez_dev y1 cy y2 * bez_dev y1 cy y2)) in He by (unfold bez_dev; ring).
  set (Q := bez_dev x1 cx x2 * bez_dev x1 cx x2 + bez_dev y1 cy y2 * bez_dev y1 cy y2) in *.
  assert (G : forall m, 0 < m -> cd + 17 <= 64 * m -> Q < 4 * m * (4 * m)).
  { intros m Hm0 Hle.
    assert (H1 : (cd + 1) * (cd + 1) <= (64 * m - 16) * (64 * m - 16)) by (apply Z.mul_le_mono_nonneg; lia).
    replace ((64 * m - 16) * (64 * m - 16)) with (256 * (4 * m * (4 * m)) - 2048 * m + 256) in H1 by ring. lia. }
  destruct (s0 =? 0) eqn:E0.
  - left. assert (s0 = 0) by lia. rewrite H in S1. change (2 ^ 0) with 1 in S1. change (2 ^ 1) with 2.
    apply (G (2 * 2)); lia.
  - destruct (6 <? s0) eqn:E6; [right; reflexivity|left].
    assert (0 < 2 ^ s0) by (apply Z.pow_pos_nonneg; lia).
    apply G; [apply Z.mul_pos_pos; lia|lia].
Qed.

Print Assumptions shift_is_enough.
Print Assumptions shift_is_enough_euclid.

(* ===================================================================================================== *)
(* Part 3: polyline versus curve                                                                          *)
(* ===================================================================================================== *)

(* vertex k (0 <= k <= 2^s) of the polyline the rasteriser walks: the forward-difference points, except that the last
   one is replaced by the exact end point (set_next_to_end).  Unit: 2^-16 pixel. *)
Definition poly_vertex (p1 p2 c s k : Z) : Z :=
  if k =? 2 ^ s then p2 * 16384 else fd_point p1 p2 c s (Z.to_nat k).

(* vertex k is never above the exact curve point and at most 2k+1 units below it *)
Lemma poly_vertex_error p1 p2 c s k : 1 <= s -> 0 <= k <= 2 ^ s ->
  let n := 2 ^ s in
  0 <= 16384 * bez_num p1 c p2 n k - n * n * poly_vertex p1 p2 c s k <= n * n * (2 * k + 1).
Proof.
  intros Hs Hk n. assert (Hn : 0 < n) by (apply Z.pow_pos_nonneg; lia).
  assert (Hnn : 0 < n * n) by (apply Z.mul_pos_pos; lia).
  unfold poly_vertex. fold n. destruct (k =? n) eqn:E.
  - assert (k = n) by lia. subst k. unfold bez_num.
    replace (16384 * ((n - n) * (n - n) * p1 + 2 * n * (n - n) * c + n * n * p2) - n * n * (p2 * 16384)) with 0 by ring.
    split; [lia|]. apply Z.mul_nonneg_nonneg; lia.
  - pose proof (curve_point_error p1 p2 c s (Z.to_nat k) Hs) as H. cbv zeta in H. fold n in H.
    rewrite Z2Nat.id in H by lia.
    assert (n * k * (k + 1) <= n * n * (k + 1)).
    { replace (n * k * (k + 1)) with (k * (n * (k + 1))) by ring. replace (n * n * (k + 1)) with (n * (n * (k + 1))) by ring.
      apply Z.mul_le_mono_nonneg_r; [apply Z.mul_nonneg_nonneg; lia|lia]. }
    lia.
Qed.

(* n' times the point of segment k of the polyline at fraction j / n' *)
Definition poly_num (p1 p2 c s k n' j : Z) : Z :=
  (n' - j) * poly_vertex p1 p2 c s k + j * poly_vertex p1 p2 c s (k + 1).

(* ONE COORDINATE.  G is any bound (in units of 2^-16 pixel) of the chord/curve gap 2^14 |dev| / (4 n^2).
   For t = (k n' + j) / N, N = n n':   - G <= 2^14 B(t) - polyline(t) <= G + 2 n + 1,   multiplied by N^2. *)
Theorem polyline_close_to_curve_1d p1 p2 c s k n' j G : 1 <= s -> 0 <= k < 2 ^ s -> 0 < n' -> 0 <= j <= n' ->
  let n := 2 ^ s in let N := n * n' in
  16384 * Z.abs (bez_dev p1 c p2) <= 4 * (n * n) * G ->
  - (N * N * G) <= 16384 * bez_num p1 c p2 N (k * n' + j) - n * n * n' * poly_num p1 p2 c s k n' j
               <= N * N * (G + 2 * n + 1).
Proof.
  intros Hs Hk Hn' Hj n N HG.
  assert (Hn : 0 < n) by (apply Z.pow_pos_nonneg; lia).
  pose proof (poly_vertex_error p1 p2 c s k Hs ltac:(lia)) as E0. cbv zeta in E0. fold n in E0.
  pose proof (poly_vertex_error p1 p2 c s (k + 1) Hs ltac:(lia)) as E1. cbv zeta in E1. fold n in E1.
  pose proof (chord_curve_gap p1 c p2 n n' k j) as Hgap.
  pose proof (chord_curve_gap_bound p1 c p2 n n' k j Hj) as Hgb. rewrite Hgap in Hgb.
  unfold poly_num. fold N in Hgap.
  set (V0 := poly_vertex p1 p2 c s k) in *. set (V1 := poly_vertex p1 p2 c s (k + 1)) in *.
  set (B0 := bez_num p1 c p2 n k) in *. set (B1 := bez_num p1 c p2 n (k + 1)) in *.
  set (BN := bez_num p1 c p2 N (k * n' + j)) in *.
  set (a := bez_dev p1 c p2) in *. set (g := a * (j * (n' - j))) in *.
  set (e0 := 16384 * B0 - n * n * V0) in *. set (e1 := 16384 * B1 - n * n * V1) in *.
  (* the decomposition *)
  assert (Hdec : 16384 * BN - n * n * n' * ((n' - j) * V0 + j * V1) = n' * ((n' - j) * e0 + j * e1) - 16384 * g).
  { subst e0 e1. replace (16384 * g) with (16384 * (n' * ((n' - j) * B0 + j * B1) - BN)) by (rewrite Hgap; reflexivity). ring. }
  rewrite Hdec.
  (* the vertex part *)
  assert (HW : 0 <= (n' - j) * e0 + j * e1 <= n' * (n * n * (2 * n + 1))).
  { assert (T0 : 0 <= (n' - j) * e0) by (apply Z.mul_nonneg_nonneg; lia).
    assert (T1 : 0 <= j * e1) by (apply Z.mul_nonneg_nonneg; lia).
    assert (Hnn : 0 <= n * n) by apply Z.square_nonneg.
    assert (M0 : n * n * (2 * k + 1) <= n * n * (2 * n + 1)) by (apply Z.mul_le_mono_nonneg_l; lia).
    assert (M1 : n * n * (2 * (k + 1) + 1) <= n * n * (2 * n + 1)) by (apply Z.mul_le_mono_nonneg_l; lia).
    set (M := n * n * (2 * n + 1)) in *.
    assert (U0 : (n' - j) * e0 <= (n' - j) * M) by (apply Z.mul_le_mono_nonneg_l; lia).
    assert (U1 : j * e1 <= j * M) by (apply Z.mul_le_mono_nonneg_l; lia).
    replace (n' * M) with ((n' - j) * M + j * M) by ring. lia. }
  set (W := (n' - j) * e0 + j * e1) in *.
  assert (HW1 : 0 <= n' * W) by (apply Z.mul_nonneg_nonneg; lia).
  assert (HW2 : n' * W <= n' * (n' * (n * n * (2 * n + 1)))) by (apply Z.mul_le_mono_nonneg_l; lia).
  replace (n' * (n' * (n * n * (2 * n + 1)))) with (N * N * (2 * n + 1)) in HW2 by (subst N; ring).
  (* the gap part *)
  assert (Hg : 4 * (16384 * Z.abs g) <= 4 * (N * N * G)).
  { assert (0 <= n' * n') by apply Z.square_nonneg.
    assert (H1 : 16384 * (4 * Z.abs g) <= 16384 * (Z.abs a * (n' * n'))) by (apply Z.mul_le_mono_nonneg_l; lia).
    assert (H2 : 16384 * Z.abs a * (n' * n') <= 4 * (n * n) * G * (n' * n')) by (apply Z.mul_le_mono_nonneg_r; lia).
    replace (4 * (N * N * G)) with (4 * (n * n) * G * (n' * n')) by (subst N; ring). lia. }
  replace (N * N * (G + 2 * n + 1)) with (N * N * G + N * N * (2 * n + 1)) by ring.
  lia.
Qed.

(* THE CURVE EDGE OF add_edge, both coordinates.  s = curve_shift ..., n = 2^s <= 64, D = curve_dev ... (dot2).
   For every segment k < n and every fraction j / n' of it, with N = n n' and t = (k n' + j) / N, the polyline point
   (linear interpolation of the vertices, x and y separately) satisfies, in units of 2^-16 pixel and per coordinate,
        - G <= 2^14 B(t) - polyline(t) <= G + 129        with  G = max(16384, D),
   multiplied by N^2. *)
Theorem polyline_close_to_curve x1 y1 x2 y2 cx cy k n' j :
  let s := curve_shift x1 y1 x2 y2 cx cy in
  let n := 2 ^ s in let N := n * n' in
  let G := Z.max 16384 (curve_dev x1 y1 x2 y2 cx cy) in
  0 <= k < n -> 0 < n' -> 0 <= j <= n' ->
  (- (N * N * G) <= 16384 * bez_num x1 cx x2 N (k * n' + j) - n * n * n' * poly_num x1 x2 cx s k n' j <= N * N * (G + 129)) /\
  (- (N * N * G) <= 16384 * bez_num y1 cy y2 N (k * n' + j) - n * n * n' * poly_num y1 y2 cy s k n' j <= N * N * (G + 129)).
Proof.
  intros s n N G Hk Hn' Hj.
  pose proof (curve_shift_range x1 y1 x2 y2 cx cy) as Hs. fold s in Hs.
  pose proof (shift_gap_units x1 y1 x2 y2 cx cy) as Hg. cbv zeta in Hg. fold s n G in Hg.
  assert (H64 : n <= 64) by (subst n; change 64 with (2 ^ 6); apply Z.pow_le_mono_r; lia).
  assert (HNN : 0 <= N * N) by apply Z.square_nonneg.
  assert (Hm : N * N * (G + 2 * n + 1) <= N * N * (G + 129)) by (apply Z.mul_le_mono_nonneg_l; lia).
  assert (Hx : 16384 * Z.abs (bez_dev x1 cx x2) <= 4 * (n * n) * G) by (unfold curve_dev in Hg; lia).
  assert (Hy : 16384 * Z.abs (bez_dev y1 cy y2) <= 4 * (n * n) * G) by (unfold curve_dev in Hg; lia).
  pose proof (polyline_close_to_curve_1d x1 x2 cx s k n' j G ltac:(lia) Hk Hn' Hj Hx) as Px.
  pose proof (polyline_close_to_curve_1d y1 y2 cy s k n' j G ltac:(lia) Hk Hn' Hj Hy) as Py.
  cbv zeta in Px, Py. fold n N in Px, Py. split; lia.
Qed.

(* deviation below 10922 dot2 (no clamp): E = 16384 + 129 = 16513 units = 0.252 pixel *)
Corollary polyline_close_to_curve_unclamped x1 y1 x2 y2 cx cy k n' j :
  let s := curve_shift x1 y1 x2 y2 cx cy in
  let n := 2 ^ s in let N := n * n' in
  curve_dev x1 y1 x2 y2 cx cy <= 10921 ->
  0 <= k < n -> 0 < n' -> 0 <= j <= n' ->
  (- (N * N * 16384) <= 16384 * bez_num x1 cx x2 N (k * n' + j) - n * n * n' * poly_num x1 x2 cx s k n' j <= N * N * 16513) /\
  (- (N * N * 16384) <= 16384 * bez_num y1 cy y2 N (k * n' + j) - n * n * n' * poly_num y1 y2 cy s k n' j <= N * N * 16513).
Proof.
  intros s n N HD Hk Hn' Hj.
  pose proof (polyline_close_to_curve x1 y1 x2 y2 cx cy k n' j) as H. cbv zeta in H. fold s n N in H.
  replace (Z.max 16384 (curve_dev x1 y1 x2 y2 cx cy)) with 16384 in H by lia.
  apply H; assumption.
Qed.

(* |coordinates| <= 16000 dot2 (4000 pixels): D <= 64000, E = 64129 units < 1 pixel = 65536 units *)
Corollary polyline_close_to_curve_in_range x1 y1 x2 y2 cx cy k n' j :
  let s := curve_shift x1 y1 x2 y2 cx cy in
  let n := 2 ^ s in let N := n * n' in
  Z.abs x1 <= 16000 -> Z.abs x2 <= 16000 -> Z.abs cx <= 16000 ->
  Z.abs y1 <= 16000 -> Z.abs y2 <= 16000 -> Z.abs cy <= 16000 ->
  0 <= k < n -> 0 < n' -> 0 <= j <= n' ->
  (- (N * N * 64000) <= 16384 * bez_num x1 cx x2 N (k * n' + j) - n * n * n' * poly_num x1 x2 cx s k n' j <= N * N * 64129) /\
  (- (N * N * 64000) <= 16384 * bez_num y1 cy y2 N (k * n' + j) - n * n * n' * poly_num y1 y2 cy s k n' j <= N * N * 64129).
Proof.
  intros s n N A1 A2 A3 A4 A5 A6 Hk Hn' Hj.
  pose proof (polyline_close_to_curve x1 y1 x2 y2 cx cy k n' j) as H. cbv zeta in H. fold s n N in H.
  specialize (H Hk Hn' Hj).
  assert (HD : Z.max 16384 (curve_dev x1 y1 x2 y2 cx cy) <= 64000) by (unfold curve_dev, bez_dev; lia).
  set (G := Z.max 16384 (curve_dev x1 y1 x2 y2 cx cy)) in *.
  assert (HNN : 0 <= N * N) by apply Z.square_nonneg.
  assert (N * N * G <= N * N * 64000) by (apply Z.mul_le_mono_nonneg_l; lia).
  assert (N * N * (G + 129) <= N * N * 64129) by (apply Z.mul_le_mono_nonneg_l; lia).
  lia.
Qed.

Print Assumptions polyline_close_to_curve.
Print Assumptions polyline_close_to_curve_unclamped.
Print Assumptions polyline_close_to_curve_in_range.

(* ===================================================================================================== *)
(* Part 1': the chord between two vertices that are m segments apart (the rasteriser may skip vertices)    *)
(* ===================================================================================================== *)
Theorem chord_curve_gap_skip p1 c p2 n n' k m j :
  n' * ((n' - j) * bez_num p1 c p2 n k + j * bez_num p1 c p2 n (k + m)) - bez_num p1 c p2 (n * n') (k * n' + j * m)
  = bez_dev p1 c p2 * (m * m) * (j * (n' - j)).
Proof. unfold bez_num, bez_dev. ring. Qed.

(* ONE COORDINATE, chord from vertex k to vertex k + m (m >= 1) of the polyline, fraction j / n' of it, i.e. the curve
   parameter t = (k n' + j m) / N:    - m^2 G <= 2^14 B(t) - chord(t) <= m^2 G + 2 n + 1,   multiplied by N^2. *)
Theorem skip_chord_close_to_curve_1d p1 p2 c s k m n' j G : 1 <= s -> 0 <= k -> 1 <= m -> k + m <= 2 ^ s ->
  0 < n' -> 0 <= j <= n' ->
  let n := 2 ^ s in let N := n * n' in
  16384 * Z.abs (bez_dev p1 c p2) <= 4 * (n * n) * G ->
  - (N * N * (m * m * G)) <= 16384 * bez_num p1 c p2 N (k * n' + j * m)
                              - n * n * n' * ((n' - j) * poly_vertex p1 p2 c s k + j * poly_vertex p1 p2 c s (k + m))
                          <= N * N * (m * m * G + 2 * n + 1).
Proof.
  intros Hs Hk Hm Hkm Hn' Hj n N HG.
  assert (Hn : 0 < n) by (apply Z.pow_pos_nonneg; lia).
  pose proof (poly_vertex_error p1 p2 c s k Hs ltac:(lia)) as E0. cbv zeta in E0. fold n in E0.
  pose proof (poly_vertex_error p1 p2 c s (k + m) Hs ltac:(lia)) as E1. cbv zeta in E1. fold n in E1.
  pose proof (chord_curve_gap_skip p1 c p2 n n' k m j) as Hgap. fold N in Hgap.
  set (V0 := poly_vertex p1 p2 c s k) in *. set (V1 := poly_vertex p1 p2 c s (k + m)) in *.
  set (B0 := bez_num p1 c p2 n k) in *. set (B1 := bez_num p1 c p2 n (k + m)) in *.
  set (BN := bez_num p1 c p2 N (k * n' + j * m)) in *.
  set (a := bez_dev p1 c p2) in *. set (g := a * (m * m) * (j * (n' - j))) in *.
  set (e0 := 16384 * B0 - n * n * V0) in *. set (e1 := 16384 * B1 - n * n * V1) in *.
  assert (Hdec : 16384 * BN - n * n * n' * ((n' - j) * V0 + j * V1) = n' * ((n' - j) * e0 + j * e1) - 16384 * g).
  { subst e0 e1. replace (16384 * g) with (16384 * (n' * ((n' - j) * B0 + j * B1) - BN)) by (rewrite Hgap; reflexivity). ring. }
  rewrite Hdec.
  assert (HW : 0 <= (n' - j) * e0 + j * e1 <= n' * (n * n * (2 * n + 1))).
  { assert (T0 : 0 <= (n' - j) * e0) by (apply Z.mul_nonneg_nonneg; lia).
    assert (T1 : 0 <= j * e1) by (apply Z.mul_nonneg_nonneg; lia).
    assert (Hnn : 0 <= n * n) by apply Z.square_nonneg.
    assert (M0 : n * n * (2 * k + 1) <= n * n * (2 * n + 1)) by (apply Z.mul_le_mono_nonneg_l; lia).
    assert (M1 : n * n * (2 * (k + m) + 1) <= n * n * (2 * n + 1)) by (apply Z.mul_le_mono_nonneg_l; lia).
    set (M := n * n * (2 * n + 1)) in *.
    assert (U0 : (n' - j) * e0 <= (n' - j) * M) by (apply Z.mul_le_mono_nonneg_l; lia).
    assert (U1 : j * e1 <= j * M) by (apply Z.mul_le_mono_nonneg_l; lia).
    replace (n' * M) with ((n' - j) * M + j * M) by ring. lia. }
  set (W := (n' - j) * e0 + j * e1) in *.
  assert (HW1 : 0 <= n' * W) by (apply Z.mul_nonneg_nonneg; lia).
  assert (HW2 : n' * W <= n' * (n' * (n * n * (2 * n + 1)))) by (apply Z.mul_le_mono_nonneg_l; lia).
  replace (n' * (n' * (n * n * (2 * n + 1)))) with (N * N * (2 * n + 1)) in HW2 by (subst N; ring).
  assert (Hg : 4 * (16384 * Z.abs g) <= 4 * (N * N * (m * m * G))).
  { assert (Hmm : 0 <= m * m) by apply Z.square_nonneg.
    assert (Hjj : 0 <= j * (n' - j)) by (apply Z.mul_nonneg_nonneg; lia).
    pose proof (four_j_le n' j) as H4.
    assert (Habs : Z.abs g = Z.abs a * (m * m) * (j * (n' - j))).
    { subst g. rewrite (Z.abs_mul (a * (m * m))), (Z.abs_mul a). rewrite (Z.abs_eq (m * m)) by lia. rewrite (Z.abs_eq (j * (n' - j))) by lia. reflexivity. }
    rewrite Habs.
    assert (H0 : 0 <= 16384 * Z.abs a * (m * m)) by (apply Z.mul_nonneg_nonneg; lia).
    assert (H1 : 16384 * Z.abs a * (m * m) * (4 * (j * (n' - j))) <= 16384 * Z.abs a * (m * m) * (n' * n'))
      by (apply Z.mul_le_mono_nonneg_l; lia).
    assert (H2 : 16384 * Z.abs a * (m * m * (n' * n')) <= 4 * (n * n) * G * (m * m * (n' * n'))).
    { apply Z.mul_le_mono_nonneg_r; [|lia]. apply Z.mul_nonneg_nonneg; [lia|apply Z.square_nonneg]. }
    replace (4 * (N * N * (m * m * G))) with (4 * (n * n) * G * (m * m * (n' * n'))) by (subst N; ring).
    replace (4 * (16384 * (Z.abs a * (m * m) * (j * (n' - j))))) with (16384 * Z.abs a * (m * m) * (4 * (j * (n' - j)))) by ring.
    replace (16384 * Z.abs a * (m * m) * (n' * n')) with (16384 * Z.abs a * (m * m * (n' * n'))) in H1 by ring.
    lia. }
  replace (N * N * (m * m * G + 2 * n + 1)) with (N * N * (m * m * G) + N * N * (2 * n + 1)) by ring.
  lia.
Qed.
Print Assumptions skip_chord_close_to_curve_1d.

(* ===================================================================================================== *)
(* Part 4: the crossing the rasteriser uses on a sample row                                               *)
(* ===================================================================================================== *)

Lemma fd_sum_add a : forall b d dd s,
  fd_sum (a + b) d dd s = fd_sum a d dd s + fd_sum b (d + Z.of_nat a * dd) dd s.
Proof.
  intros b d dd s. induction b as [|b IH].
  - rewrite Nat.add_0_r. cbn [fd_sum]. lia.
  - rewrite Nat.add_succ_r. cbn [fd_sum]. rewrite IH.
    replace (d + Z.of_nat a * dd + Z.of_nat b * dd) with (d + Z.of_nat (a + b) * dd) by lia. lia.
Qed.

(* curve_advance: the number of forward-difference steps, and why each skipped vertex was skipped *)
Lemma curve_advance_iter_skip fuel : forall cury e, 0 <= e_count e ->
  exists j, Z.of_nat j <= e_count e /\ curve_advance fuel cury e = Nat.iter j curve_next e /\
    forall i, (i < j)%nat -> dot16_to_dot2 (e_nexty (Nat.iter i curve_next e)) <= cury.
Proof.
  induction fuel as [|k IH]; intros cury e Hc; cbn [curve_advance].
  - exists 0%nat. split; [lia|]. split; [reflexivity|]. intros i Hi. lia.
  - destruct ((0 <? e_count e) && (dot16_to_dot2 (e_nexty e) <=? cury)) eqn:E.
    + destruct (IH cury (curve_next e)) as (j & J2 & J3 & J4); [cbn [curve_next e_count]; lia|].
      exists (S j). cbn [curve_next e_count] in J2. split; [lia|]. split; [rewrite J3; symmetry; apply iter_succ_r'|].
      intros i Hi. destruct i as [|i].
      * change (Nat.iter 0 curve_next e) with e. lia.
      * rewrite iter_succ_r'. apply J4. lia.
    + exists 0%nat. split; [lia|]. split; [reflexivity|]. intros i Hi. lia.
Qed.

Lemma poly_vertex_lt p1 p2 c s k : k <> 2 ^ s -> poly_vertex p1 p2 c s k = fd_point p1 p2 c s (Z.to_nat k).
Proof. intros H. unfold poly_vertex. destruct (k =? 2 ^ s) eqn:E; [lia|reflexivity]. Qed.
Lemma poly_vertex_end p1 p2 c s : poly_vertex p1 p2 c s (2 ^ s) = p2 * 16384.
Proof. unfold poly_vertex. rewrite Z.eqb_refl. reflexivity. Qed.

(* ---- the arithmetic of one crossing ---- *)
(* later segments: f = (slope * r) >> 14 with slope = ((dx << 16) / D) / 4 (both toward zero) is the chord's x at r units
   below its upper end, up to r / 2^14 + 1 units (r / 2^14 = sample rows since the segment was entered) *)
Lemma cross_later_error dxs D r slope f : 0 < D -> 0 <= r ->
  slope = Z.quot (Z.quot (dxs * 65536) D) 4 -> f = Z.shiftr (slope * r) 14 ->
  16384 * Z.abs (f * D - dxs * r) <= D * (r + 16384).
Proof.
  intros HD Hr Hs Hf.
  rewrite Z.quot_quot in Hs by lia.
  destruct (quot_bounds (dxs * 65536) (D * 4) ltac:(lia)) as (Q & _ & _). rewrite <- Hs in Q.
  set (u := slope * D - 16384 * dxs).
  assert (Hu : - D < u < D) by (subst u; lia).
  assert (Hrho : 16384 * f <= slope * r < 16384 * f + 16384).
  { subst f. rewrite Z.shiftr_div_pow2 by lia. change (2 ^ 14) with 16384.
    pose proof (Z.mul_div_le (slope * r) 16384 ltac:(lia)). pose proof (Z.mul_succ_div_gt (slope * r) 16384 ltac:(lia)). lia. }
  set (rho := slope * r - 16384 * f).
  assert (Hid : 16384 * (f * D - dxs * r) = r * u - D * rho) by (subst u rho; ring).
  assert (U1 : r * u <= r * D) by (apply Z.mul_le_mono_nonneg_l; lia).
  assert (U2 : r * (- D) <= r * u) by (apply Z.mul_le_mono_nonneg_l; lia).
  assert (R1 : 0 <= D * rho) by (apply Z.mul_nonneg_nonneg; subst rho; lia).
  assert (R2 : D * rho <= D * 16384) by (apply Z.mul_le_mono_nonneg_l; subst rho; lia).
  replace (16384 * Z.abs (f * D - dxs * r)) with (Z.abs (16384 * (f * D - dxs * r))) by (rewrite Z.abs_mul; reflexivity).
  rewrite Hid. lia.
Qed.

(* first segment: m rows of slope = dx / den (toward zero) is the chord's x at the fraction m / den, up to m units *)
Lemma cross_first_error dxs den m slope : 0 < den -> 0 <= m -> slope = Z.quot dxs den ->
  Z.abs (m * slope * den - m * dxs) <= m * (den - 1).
Proof.
  intros Hd Hm Hs. destruct (quot_bounds dxs den Hd) as (Q & _ & _). rewrite <- Hs in Q.
  replace (m * slope * den - m * dxs) with (m * (slope * den - dxs)) by ring.
  rewrite Z.abs_mul. rewrite (Z.abs_eq m) by lia. apply Z.mul_le_mono_nonneg_l; lia.
Qed.

Section Crossing.
  Variables x1 y1 x2 y2 cx cy : Z.
  Local Notation s := (curve_shift x1 y1 x2 y2 cx cy).
  Local Notation n := (2 ^ curve_shift x1 y1 x2 y2 cx cy).
  Local Notation VX := (poly_vertex x1 x2 cx (curve_shift x1 y1 x2 y2 cx cy)).
  Local Notation VY := (poly_vertex y1 y2 cy (curve_shift x1 y1 x2 y2 cx cy)).

  (* the forward-difference state of an edge whose current segment ends at vertex k (vx, vy: its next point) *)
  Definition vstate (vx vy : Z) (e : aedge) (k : Z) : Prop :=
    1 <= k <= n /\ e_count e = n - k /\ e_shift e = s /\ e_x2 e = x2 /\ e_y2 e = y2 /\
    e_nextx e = vx /\ e_nexty e = vy /\
    e_dx e = fd_d0 x1 x2 cx s + k * fd_dd x1 x2 cx s /\ e_ddx e = fd_dd x1 x2 cx s /\
    e_dy e = fd_d0 y1 y2 cy s + k * fd_dd y1 y2 cy s /\ e_ddy e = fd_dd y1 y2 cy s.
  (* before / after set_next_to_end *)
  Definition raw (e : aedge) (k : Z) : Prop :=
    vstate (fd_point x1 x2 cx s (Z.to_nat k)) (fd_point y1 y2 cy s (Z.to_nat k)) e k.
  Definition fin (e : aedge) (k : Z) : Prop := vstate (VX k) (VY k) e k.

  Lemma vstate_ext vx vy e e' k :
    e_count e' = e_count e -> e_shift e' = e_shift e -> e_x2 e' = e_x2 e -> e_y2 e' = e_y2 e ->
    e_nextx e' = e_nextx e -> e_nexty e' = e_nexty e -> e_dx e' = e_dx e -> e_ddx e' = e_ddx e ->
    e_dy e' = e_dy e -> e_ddy e' = e_ddy e -> vstate vx vy e k -> vstate vx vy e' k.
  Proof.
    intros A1 A2 A3 A4 A5 A6 A7 A8 A9 A10 H. unfold vstate in *.
    rewrite A1, A2, A3, A4, A5, A6, A7, A8, A9, A10. exact H.
  Qed.

  Lemma fin_raw e k : fin e k -> k < n -> raw e k.
  Proof. intros H Hk. unfold fin, raw in *. rewrite !poly_vertex_lt in H by lia. exact H. Qed.

  Lemma raw_end e k : raw e k -> fin (set_next_to_end e) k.
  Proof.
    intros (K & C & S & X2 & Y2 & NX & NY & D1 & D2 & D3 & D4). unfold set_next_to_end.
    destruct (e_count e =? 0) eqn:E.
    - assert (k = n) by lia. subst k. unfold fin, vstate. rewrite !poly_vertex_end.
      cbn [e_count e_shift e_x2 e_y2 e_nextx e_nexty e_dx e_ddx e_dy e_ddy]. unfold dot2_to_dot16.
      repeat split; try assumption; try lia; congruence.
    - unfold fin. rewrite !poly_vertex_lt by lia. repeat split; try assumption; lia.
  Qed.

  Lemma fin_end e k : fin e k -> fin (set_next_to_end e) k.
  Proof.
    intros H. destruct (Z.eq_dec k n) as [->|Hk].
    - destruct H as (K & C & S & X2 & Y2 & NX & NY & D1 & D2 & D3 & D4). unfold set_next_to_end.
      replace (e_count e =? 0) with true by lia. unfold fin, vstate. rewrite !poly_vertex_end.
      cbn [e_count e_shift e_x2 e_y2 e_nextx e_nexty e_dx e_ddx e_dy e_ddy]. unfold dot2_to_dot16.
      repeat split; try assumption; try lia; congruence.
    - apply raw_end. apply fin_raw; [exact H|]. destruct H as (K & _). lia.
  Qed.

  Lemma raw_iter e k j : raw e k -> Z.of_nat j <= e_count e -> raw (Nat.iter j curve_next e) (k + Z.of_nat j).
  Proof.
    intros (K & C & S & X2 & Y2 & NX & NY & D1 & D2 & D3 & D4) Hj.
    pose proof (iter_curve_next j e) as H. cbv zeta in H.
    destruct H as (I1 & I2 & I3 & I4 & I5 & I6 & I7 & I8 & I9 & I10 & _).
    assert (Hnat : Z.to_nat (k + Z.of_nat j) = (Z.to_nat k + j)%nat) by lia.
    unfold raw, vstate. rewrite Hnat. unfold fd_point. rewrite !fd_sum_add. rewrite Z2Nat.id by lia.
    rewrite I1, I2, I3, I4, I5, I6, I7, I8, I9, I10. rewrite NX, NY, D1, D2, D3, D4, S, C. unfold fd_point.
    repeat split; try assumption; try lia.
  Qed.

  (* looking for the next segment keeps the state on a vertex; the vertices passed over end in a row <= cury *)
  Lemma fin_advance fuel cury e k : fin e k ->
    exists k2, k <= k2 /\ fin (set_next_to_end (curve_advance fuel cury e)) k2 /\
      forall i, k <= i < k2 -> dot16_to_dot2 (VY i) <= cury.
  Proof.
    intros H. assert (Hc : 0 <= e_count e) by (destruct H as (K & C & _); lia).
    destruct (curve_advance_iter_skip fuel cury e Hc) as (j & J1 & J2 & J3). rewrite J2.
    destruct j as [|j].
    - exists k. split; [lia|]. split; [apply fin_end; exact H|]. intros i Hi. lia.
    - assert (Hk : k < n) by (destruct H as (K & C & _); lia).
      pose proof (fin_raw e k H Hk) as R.
      assert (C : e_count e = n - k) by (destruct H as (_ & C & _); exact C).
      exists (k + Z.of_nat (S j)). split; [lia|]. split; [apply raw_end; apply raw_iter; assumption|].
      intros i Hi. specialize (J3 (Z.to_nat (i - k)) ltac:(lia)).
      pose proof (raw_iter e k (Z.to_nat (i - k)) R ltac:(lia)) as Ri.
      destruct Ri as (_ & _ & _ & _ & _ & _ & NY & _). rewrite NY in J3.
      rewrite poly_vertex_lt by lia. replace (k + Z.of_nat (Z.to_nat (i - k))) with i in J3 by lia. exact J3.
  Qed.

  (* THE CROSSING INVARIANT on sample row y (sample line Y = y * 2^14):
     the current segment ends at vertex k' of the polyline, and
     - FIRST segment (set up by add_edge): it starts at (x1, y1); the crossing is x1 + (y - y1) * slope with
       slope = (next_x - x1) / den toward zero, den = floor(next_y) - y1 = the number of whole sample rows of the
       segment (NOT its exact height): the crossing is the chord's point at the FRACTION (y - y1) / den of the chord;
     - LATER segment: it starts at vertex k < k' (old_x, old_y) and the crossing is
       old_x + (slope * (Y - old_y)) >> 14 with slope = (((next_x - old_x) << 16) / (next_y - old_y)) / 4 toward zero:
       the chord's point ON the sample line;
     the vertices strictly between the two ends of the chord (skipped by curve_advance) lie in the sample row in which
     the chord starts. *)
  Definition cseg (e : aedge) (y : Z) : Prop :=
    exists k', fin e k' /\
      ((y1 < dot16_to_dot2 (e_nexty e) /\
        e_slope e = Z.quot (e_nextx e - x1 * 16384) (dot16_to_dot2 (e_nexty e) - y1) /\
        e_fullx e = x1 * 16384 + (y - y1) * e_slope e /\
        forall i, 1 <= i < k' -> dot16_to_dot2 (VY i) <= y1)
       \/
       (exists k, 1 <= k < k' /\ e_oldx e = VX k /\ e_oldy e = VY k /\
          e_oldy e < e_nexty e /\ e_oldy e < y * 16384 /\
          e_slope e = Z.quot (Z.quot ((e_nextx e - e_oldx e) * 65536) (e_nexty e - e_oldy e)) 4 /\
          e_fullx e = e_oldx e + Z.shiftr (e_slope e * (y * 16384 - e_oldy e)) 14 /\
          forall i, k <= i < k' -> dot16_to_dot2 (VY i) <= dot16_to_dot2 (e_oldy e))).

  Lemma raw_edge0 w : raw (curve_edge0 x1 y1 x2 y2 cx cy w) 1.
  Proof.
    pose proof (curve_points_closed_form x1 y1 x2 y2 cx cy w 0) as H. cbv zeta in H.
    change (Nat.iter 0 curve_next (curve_edge0 x1 y1 x2 y2 cx cy w)) with (curve_edge0 x1 y1 x2 y2 cx cy w) in H.
    destruct H as (H1 & H2 & H3 & H4 & H5 & H6 & H7 & H8 & H9 & H10).
    pose proof (curve_shift_range x1 y1 x2 y2 cx cy) as Hs.
    assert (2 <= n).
    { change 2 with (2 ^ 1). apply Z.pow_le_mono_r; lia. }
    unfold raw, vstate. change (Z.to_nat 1) with 1%nat. change (Z.of_nat 1) with 1 in *. change (Z.of_nat 0) with 0 in *.
    repeat split; try assumption; try lia.
  Qed.

  Lemma cseg_init w : y1 < y2 -> cseg (curve_edge_init x1 y1 x2 y2 cx cy w) y1.
  Proof.
    intros Hy.
    pose proof (curve_edge0_count x1 y1 x2 y2 cx cy w) as Hc0.
    destruct (curve_setup_den y1 y2 (curve_edge0 x1 y1 x2 y2 cx cy w) Hy eq_refl Hc0) as [Hden Hc2].
    pose proof (raw_edge0 w) as R0.
    assert (F0 : fin (set_next_to_end (curve_edge0 x1 y1 x2 y2 cx cy w)) 1) by (apply raw_end; exact R0).
    (* curve_edge0 is raw at 1; go through fin of a copy to use fin_advance *)
    assert (Hadv : exists k2, 1 <= k2 /\ fin (set_next_to_end (curve_advance 64 y1 (curve_edge0 x1 y1 x2 y2 cx cy w))) k2 /\
                     forall i, 1 <= i < k2 -> dot16_to_dot2 (VY i) <= y1).
    { destruct (Z.eq_dec 1 n) as [E1|N1].
      - pose proof (curve_shift_range x1 y1 x2 y2 cx cy) as Hs.
        assert (2 <= n) by (change 2 with (2 ^ 1); apply Z.pow_le_mono_r; lia). lia.
      - apply fin_advance. unfold fin. rewrite !poly_vertex_lt by lia. exact R0. }
    destruct Hadv as (k2 & K1 & F2 & Sk).
    unfold curve_edge_init in *. cbv zeta in *.
    set (e2 := set_next_to_end (curve_advance 64 y1 (curve_edge0 x1 y1 x2 y2 cx cy w))) in *.
    set (den := dot16_to_dot2 (e_nexty e2 - dot2_to_dot16 y1)) in *.
    assert (Hrem : dot16_to_dot2 (e_nexty e2) - y1 = den).
    { subst den. unfold dot2_to_dot16. rewrite !RasterIdle.shiftr14. lia. }
    exists k2. split.
    - destruct F2 as (K & C & S & X2 & Y2 & NX & NY & D1 & D2 & D3 & D4).
      unfold fin, vstate. cbn [e_count e_shift e_x2 e_y2 e_nextx e_nexty e_dx e_ddx e_dy e_ddy].
      repeat split; try assumption; try lia.
    - left. cbn [e_nexty e_nextx e_slope e_fullx]. unfold dot2_to_dot16. rewrite Hrem.
      split; [lia|]. split; [reflexivity|]. split; [lia|exact Sk].
  Qed.

  Lemma cseg_step lo hi e y : y1 <= y -> cpos lo hi e y -> cseg e y -> y + 1 < e_y2 e -> no_wrap_at e y ->
    cseg (step e y) (y + 1).
  Proof.
    intros Hy1 (Hg & Hs & Hf & Hend & Hy & _) (k' & Hfin & Hcase) Hy2 Hnw.
    destruct Hg as [He Hc].
    destruct (Z_lt_le_dec y (dot16_to_dot2 (e_nexty e))) as [Hplain|Hswitch].
    - (* no segment change: one more slope_x *)
      rewrite step_noswitch by (right; exact Hplain).
      exists k'. split; [apply (vstate_ext _ _ e); try reflexivity; exact Hfin|].
      cbn [with_fullx e_nexty e_nextx e_fullx e_slope e_oldx e_oldy].
      destruct Hcase as [(F3 & F2 & F1 & F4)|(k & K & OX & OY & O1 & O2 & SL & FX & Sk)].
      + left. split; [exact F3|]. split; [exact F2|]. split; [rewrite F1; ring|exact F4].
      + right. exists k. split; [exact K|]. split; [exact OX|]. split; [exact OY|]. split; [exact O1|].
        split; [lia|]. split; [exact SL|]. split; [|exact Sk].
        rewrite FX. rewrite !Z.shiftr_div_pow2 by lia. change (2 ^ 14) with 16384.
        replace (e_slope e * ((y + 1) * 16384 - e_oldy e)) with (e_slope e * (y * 16384 - e_oldy e) + e_slope e * 16384) by ring.
        rewrite Z.div_add by lia. ring.
    - (* a new segment *)
      clear Hcase.
      pose proof (seg_switch_props lo hi e y Hc Hf) as P. cbv zeta in P.
      destruct P as (P1 & P2 & P3 & P4 & P5 & P6 & P7 & P8 & P9 & P10 & P11 & P12).
      assert (Hfl : y + 1 <= dot16_to_dot2 (e_nexty (seg_switch e y))).
      { destruct P12 as [Z0|Hgt]; [|lia]. rewrite (P11 Z0). rewrite RasterIdle.shiftr14. lia. }
      assert (Hfe : dot16_to_dot2 (e_nexty e) = y) by lia.
      assert (HD : 0 < e_nexty (seg_switch e y) - e_nexty e).
      { rewrite RasterIdle.shiftr14 in Hfl, Hfe. lia. }
      specialize (Hnw Hs Hswitch Hy2).
      pose proof (step_switch_eq e y Hs Hswitch) as Heq. cbv zeta in Heq.
      rewrite P4, P3 in Heq. specialize (Heq Hy2 ltac:(lia)). rewrite Hnw in Heq.
      (* the vertex reached *)
      set (e0 := mk_aedge (e_x2 e) (e_y2 e) (e_slope e) (e_nextx e) (e_nextx e) (e_nexty e) (e_dx e) (e_ddx e) (e_dy e) (e_ddy e)
                          (e_nextx e) (e_nexty e) (e_shift e) (e_count e) (e_wind e) (e_err e)).
      assert (Hfin0 : fin e0 k') by (apply (vstate_ext _ _ e); try reflexivity; exact Hfin).
      destruct (fin_advance 64 y e0 k' Hfin0) as (k2 & K2 & F2 & Sk2).
      change (set_next_to_end (curve_advance 64 y e0)) with (seg_switch e y) in F2.
      assert (Hq : switch_quot e y = Z.quot ((e_nextx (seg_switch e y) - e_oldx (seg_switch e y)) * 65536)
                                            (e_nexty (seg_switch e y) - e_oldy (seg_switch e y))) by reflexivity.
      set (e2 := seg_switch e y) in *.
      assert (NYe : e_nexty e = VY k') by (destruct Hfin as (_ & _ & _ & _ & _ & _ & NY & _); exact NY).
      assert (NXe : e_nextx e = VX k') by (destruct Hfin as (_ & _ & _ & _ & _ & NX & _); exact NX).
      assert (NY2 : e_nexty e2 = VY k2) by (destruct F2 as (_ & _ & _ & _ & _ & _ & NY & _); exact NY).
      assert (Hlt : k' < k2).
      { destruct (Z.eq_dec k' k2) as [E|E]; [|lia]. rewrite <- E in NY2. lia. }
      rewrite Heq. clear Heq.
      exists k2. split.
      + apply (vstate_ext _ _ e2); try reflexivity; [cbn [e_y2]; congruence|]. exact F2.
      + right. exists k'. cbn [e_nexty e_nextx e_slope e_fullx e_oldx e_oldy].
        split; [destruct Hfin as (K' & _); lia|]. split; [congruence|]. split; [congruence|].
        split; [lia|]. split; [rewrite RasterIdle.shiftr14 in Hfe; lia|].
        split; [rewrite Hq, P3; reflexivity|]. split; [unfold dot2_to_dot16; congruence|].
        intros i Hi. rewrite Hfe. apply Sk2. exact Hi.
  Qed.

  Lemma cseg_steps w : y1 < y2 -> curve_no_slope_wrap x1 y1 x2 y2 cx cy w ->
    forall k, y1 + Z.of_nat k < y2 -> cseg (steps k (curve_edge_init x1 y1 x2 y2 cx cy w) y1) (y1 + Z.of_nat k).
  Proof.
    intros Hy Hnw. induction k as [|k IH]; intros Hk.
    - cbn [steps]. replace (y1 + Z.of_nat 0) with y1 by lia. apply cseg_init. exact Hy.
    - rewrite steps_succ_r. replace (y1 + Z.of_nat (S k)) with (y1 + Z.of_nat k + 1) by lia.
      specialize (IH ltac:(lia)).
      pose proof (cpos_steps x1 y1 x2 y2 cx cy w Hy Hnw k ltac:(lia)) as Hc. cbv zeta in Hc.
      assert (Hy2 : e_y2 (steps k (curve_edge_init x1 y1 x2 y2 cx cy w) y1) = y2).
      { destruct (curve_edge_init_props x1 y1 x2 y2 cx cy w Hy) as [Hg Hy2].
        destruct (steps_good k _ y1 Hg) as [_ E]. congruence. }
      eapply cseg_step; [lia|exact Hc|exact IH|rewrite Hy2; lia|apply Hnw; lia].
  Qed.

  (* THE CROSSING ON EVERY SCANNED ROW.  For the entry that add_edge files for the curve (slope divisions fitting i32),
     on each sample row y of [max y1 0, y2) the edge as it is scanned satisfies the crossing invariant, and the
     sample line lies inside the current segment's row range (y <= floor(next_y)). *)
  Theorem curve_crossing_on_chord w : y1 < y2 -> curve_no_slope_wrap x1 y1 x2 y2 cx cy w ->
    forall y, Z.max y1 0 <= y < y2 ->
      let e := edge_at_gen y (curve_entry x1 y1 x2 y2 cx cy w) in
      cseg e y /\ y <= dot16_to_dot2 (e_nexty e).
  Proof.
    intros Hy Hnw y Hyy. cbv zeta. rewrite curve_entry_steps. unfold edge_at_gen. cbn [fst snd].
    assert (Heq : steps (Z.to_nat (y - Z.max y1 0)) (steps (Z.to_nat (Z.max y1 0 - y1)) (curve_edge_init x1 y1 x2 y2 cx cy w) y1) (Z.max y1 0)
                  = steps (Z.to_nat (Z.max y1 0 - y1) + Z.to_nat (y - Z.max y1 0)) (curve_edge_init x1 y1 x2 y2 cx cy w) y1).
    { rewrite steps_add. f_equal. lia. }
    rewrite Heq. clear Heq.
    set (k := (Z.to_nat (Z.max y1 0 - y1) + Z.to_nat (y - Z.max y1 0))%nat).
    assert (Hk : y1 + Z.of_nat k = y) by lia.
    pose proof (cseg_steps w Hy Hnw k ltac:(lia)) as H1. rewrite Hk in H1.
    pose proof (cpos_steps x1 y1 x2 y2 cx cy w Hy Hnw k ltac:(lia)) as Hc. cbv zeta in Hc. rewrite Hk in Hc.
    split; [exact H1|]. destruct Hc as (_ & _ & _ & _ & Hrow & _). exact Hrow.
  Qed.

  (* ... and the distance of that crossing from the chord it follows, in units of 2^-16 pixel.
     LATER segment, chord from (ox, oy) = vertex k to (nx, ny) = vertex k', D = ny - oy > 0, r = Y - oy with 0 < r <= D:
        | fullx - (ox + (nx - ox) r / D) | <= r / 2^14 + 1   (sample rows since the segment was entered, plus one).
     FIRST segment, chord from (x1, y1) 2^14 to vertex k', den = floor(ny / 2^14) - y1 >= 1, m = y - y1, 0 <= m <= den:
        | fullx - (x1 2^14 + (nx - x1 2^14) m / den) | <= m (den - 1) / den < m,
     i.e. the crossing is the chord's point at the fraction m / den; that point's y is y1 2^14 + m (ny - y1 2^14) / den,
     which lies at or below the sample line Y = (y1 + m) 2^14 by less than 2^14 m / den <= one sample row
     (den 2^14 <= ny - y1 2^14 < (den + 1) 2^14).  It is NOT the chord's x on the sample line: see
     first_segment_counterexample.  (Hence _partial: the statement asked for, "crossing = polyline x on that row up to
     the number of rows", holds for later segments with respect to the chord vertex k -> vertex k', and fails for the
     first segment.) *)
  Theorem curve_crossing_error_partial w : y1 < y2 -> curve_no_slope_wrap x1 y1 x2 y2 cx cy w ->
    forall y, Z.max y1 0 <= y < y2 ->
      let e := edge_at_gen y (curve_entry x1 y1 x2 y2 cx cy w) in
      exists k', 1 <= k' <= n /\ e_nextx e = VX k' /\ e_nexty e = VY k' /\
      ((let den := dot16_to_dot2 (e_nexty e) - y1 in let m := y - y1 in
        1 <= den /\ 0 <= m <= den /\ den * 16384 <= e_nexty e - y1 * 16384 < (den + 1) * 16384 /\
        Z.abs ((e_fullx e - x1 * 16384) * den - m * (e_nextx e - x1 * 16384)) <= m * (den - 1) /\
        forall i, 1 <= i < k' -> dot16_to_dot2 (VY i) <= y1)
       \/
       (exists k, 1 <= k < k' /\ e_oldx e = VX k /\ e_oldy e = VY k /\
          let D := e_nexty e - e_oldy e in let r := y * 16384 - e_oldy e in
          0 < r <= D /\
          16384 * Z.abs ((e_fullx e - e_oldx e) * D - (e_nextx e - e_oldx e) * r) <= D * (r + 16384) /\
          forall i, k <= i < k' -> dot16_to_dot2 (VY i) <= dot16_to_dot2 (e_oldy e))).
  Proof.
    intros Hy Hnw y Hyy. pose proof (curve_crossing_on_chord w Hy Hnw y Hyy) as H. cbv zeta in *.
    set (e := edge_at_gen y (curve_entry x1 y1 x2 y2 cx cy w)) in *.
    destruct H as [(k' & Hfin & Hcase) Hrow].
    exists k'. destruct Hfin as (K & _ & _ & _ & _ & NX & NY & _).
    split; [exact K|]. split; [exact NX|]. split; [exact NY|].
    destruct Hcase as [(F3 & F2 & F1 & F4)|(k & Kk & OX & OY & O1 & O2 & SL & FX & Sk)].
    - left. split; [lia|]. split; [lia|]. split; [rewrite RasterIdle.shiftr14; lia|]. split; [|exact F4].
      pose proof (cross_first_error (e_nextx e - x1 * 16384) (dot16_to_dot2 (e_nexty e) - y1) (y - y1) (e_slope e)
                    ltac:(lia) ltac:(lia) F2) as E.
      replace (e_fullx e - x1 * 16384) with ((y - y1) * e_slope e) by lia. exact E.
    - right. exists k. split; [exact Kk|]. split; [exact OX|]. split; [exact OY|].
      split; [rewrite RasterIdle.shiftr14 in Hrow; lia|]. split; [|exact Sk].
      apply (cross_later_error _ _ _ (e_slope e)); [lia|lia|exact SL|lia].
  Qed.
End Crossing.

Print Assumptions curve_crossing_on_chord.
Print Assumptions curve_crossing_error_partial.

(* COUNTEREXAMPLE to "the crossing is the chord's x on the sample line, up to the number of rows" for the FIRST segment.
   Curve (0,0) - control (400,0) - (400,400) dot2, 16 segments.  The first chord goes from (0, 0) to
   (793600, 25600) units: 1.5625 sample rows high, den = 1, slope = 793600 units per row.  On sample row 1
   (Y = 16384) the rasteriser's crossing is 793600 (the end of the chord) while the chord is at
   793600 * 16384 / 25600 = 507904 on that line: 285696 units = 4.36 pixels apart (the exact curve is at 639.0e3). *)
Example first_segment_counterexample :
  let e := edge_at_gen 1 (curve_entry 0 0 400 400 400 0 1) in
  curve_shift 0 0 400 400 400 0 = 4 /\ e_count e = 15 /\ e_oldx e = 0 /\ e_oldy e = 0 /\
  e_nextx e = 793600 /\ e_nexty e = 25600 /\ e_slope e = 793600 /\ e_fullx e = 793600 /\
  793600 * 16384 / 25600 = 507904 /\
  curve_no_wrap_check 0 0 400 400 400 0 1 = true.
Proof. vm_compute. repeat split; reflexivity. Qed.

(* EXAMPLE of skipped vertices.  Curve (0,0) - control (2000,4) - (0,8) dot2: 32 segments over 8 sample rows.  Every chord
   the rasteriser follows spans 4 segments of the polyline (vertex 0 -> 4 -> 8 -> ...): the edge scanned on row 2 goes
   from vertex 4 to vertex 8. *)
Example skipped_vertices_example :
  let p := curve_entry 0 0 0 8 2000 4 1 in
  curve_shift 0 0 0 8 2000 4 = 5 /\ e_count (edge_at_gen 1 p) = 28 /\ e_count (edge_at_gen 2 p) = 24 /\
  e_oldx (edge_at_gen 2 p) = poly_vertex 0 0 2000 5 4 /\ e_oldy (edge_at_gen 2 p) = poly_vertex 0 8 4 5 4 /\
  e_nextx (edge_at_gen 2 p) = poly_vertex 0 0 2000 5 8 /\ e_nexty (edge_at_gen 2 p) = poly_vertex 0 8 4 5 8 /\
  curve_no_wrap_check 0 0 0 8 2000 4 1 = true.
Proof. vm_compute. repeat split; reflexivity. Qed.
