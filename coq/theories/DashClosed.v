(* C09, closed subpaths: the integer dasher on  MoveTo p0, LineTo pts.., Close  compared with the same dasher on the
   open polyline  MoveTo p0, LineTo pts.., LineTo p0  (which DashSpec.v describes): the piece that reaches the end is
   joined to the buffered piece at the start. *)
From Coq Require Import ZArith List Lia Bool ZifyBool.
Require Import RQ.Base RQ.Contains RQ.DashZ RQ.DashPos RQ.DashSpec.
Import ListNotations.
Open Scope Z_scope.

Lemma zpieces_rev_lines l : forall i0 out,
  zpieces_rev (map ZLine l ++ ZMove i0 :: out) = (l ++ [i0]) :: zpieces_rev out.
Proof. induction l as [|x l IH]; intros i0 out; cbn [map app zpieces_rev]; [reflexivity|]. rewrite IH. reflexivity. Qed.
Lemma zpieces_rev_lines_onto l : forall out pc ps, zpieces_rev out = pc :: ps ->
  zpieces_rev (map ZLine l ++ out) = (l ++ pc) :: ps.
Proof. induction l as [|x l IH]; intros out pc ps E; cbn [map app zpieces_rev]; [exact E|]. rewrite (IH out pc ps E). reflexivity. Qed.
Lemma zpieces_rev_flush init out :
  zpieces_rev (zflush init out) = match init with [] => zpieces_rev out | _ => rev init :: zpieces_rev out end.
Proof. destruct init as [|i0 it]; cbn [zflush]; [reflexivity|]. rewrite <- map_rev, zpieces_rev_lines. reflexivity. Qed.
Lemma zpieces_rev_has_move p l : In (ZMove p) l -> zpieces_rev l <> [].
Proof.
  induction l as [|o l IH]; [intros []|]. intros [->|H]; cbn [zpieces_rev]; [discriminate|].
  destruct o; [discriminate| |apply IH, H]. specialize (IH H). destruct (zpieces_rev l); [congruence|discriminate].
Qed.

(* what zpieces computes: an op list made of groups  MoveTo p, LineTo q1, .., LineTo qn  has these groups as pieces *)
Lemma zpieces_group a p l : zpieces (a ++ ZMove p :: map ZLine l) = zpieces a ++ [p :: l].
Proof.
  unfold zpieces. rewrite rev_app_distr. cbn [rev]. rewrite <- app_assoc. cbn [app].
  rewrite <- (map_rev ZLine), zpieces_rev_lines. cbn [map rev]. rewrite rev_app_distr, rev_involutive. reflexivity.
Qed.
Lemma zpieces_nil : zpieces [] = [].
Proof. reflexivity. Qed.

(* pieces of a concatenation whose second part begins with a MoveTo *)
Lemma zpieces_rev_app_move x : forall p y, zpieces_rev (x ++ ZMove p :: y) = zpieces_rev (x ++ [ZMove p]) ++ zpieces_rev y.
Proof.
  induction x as [|o x IH]; intros p y; [reflexivity|]. destruct o as [q|q|]; cbn [app zpieces_rev].
  - rewrite IH. reflexivity.
  - rewrite IH. pose proof (zpieces_rev_has_move p (x ++ [ZMove p])) as NE.
    destruct (zpieces_rev (x ++ [ZMove p])) as [|pc ps]; [exfalso; apply NE; [apply in_or_app; right; left|]; reflexivity|].
    reflexivity.
  - apply IH.
Qed.
Lemma zpieces_app_move a p b : zpieces (a ++ ZMove p :: b) = zpieces a ++ zpieces (ZMove p :: b).
Proof.
  unfold zpieces. rewrite rev_app_distr. cbn [rev]. rewrite <- app_assoc. cbn [app].
  rewrite zpieces_rev_app_move, map_app, rev_app_distr. reflexivity.
Qed.

Section Closed.
  Variable zarr : list Z.
  Variable initial : zds.
  Variable p0 : zpt.

  (* facts about the buffers that hold along  MoveTo p0, LineTo .. *)
  Definition Qc (c : zchop) : Prop :=
    In (ZMove p0) (zc_out c) /\
    ((zc_init c = [] /\ (zc_first c = true -> zs_on (zc_st c) = true -> zc_start c = p0)) \/ exists rest, zc_init c = p0 :: rest) /\
    (zs_on (zc_st c) = true -> zc_first c = true -> zc_fdash c = true /\ zc_out c = [ZMove p0]) /\
    (zs_on (zc_st c) = true -> zc_first c = false -> zc_fdash c = false).
  Definition Qa (a : zacc) : Prop :=
    za_startp a = Some p0 /\ (exists cur, za_cur a = Some cur) /\
    In (ZMove p0) (za_out a) /\
    ((za_init a = [] /\ (za_first a = true -> zs_on (za_st a) = true -> za_cur a = Some p0)) \/ exists rest, za_init a = p0 :: rest) /\
    (zs_on (za_st a) = true -> za_first a = true -> za_fdash a = true /\ za_out a = [ZMove p0]) /\
    (zs_on (za_st a) = true -> za_first a = false -> za_fdash a = false).

  Lemma Qc_next dir c : Qc c -> Qc (zchop_next zarr dir c).
  Proof.
    intros (Q1 & Q2 & Q3 & Q4). unfold Qc, zchop_next. cbn [zc_out zc_init zc_first zc_st zc_start zc_fdash zs_on].
    destruct (zs_on (zc_st c)) eqn:On; cbn [negb andb].
    - split; [destruct (zc_first c); [exact Q1|right; exact Q1]|].
      split; [|split; discriminate].
      destruct (zc_first c) eqn:Fi; [|destruct Q2 as [[Q2 _]|Q2]; [left; split; [exact Q2|discriminate]|right; exact Q2]].
      right. destruct Q2 as [[Q2 Q2']|[rest Q2]].
      + rewrite Q2, (Q2' eq_refl eq_refl). eexists. reflexivity.
      + rewrite Q2. eexists. reflexivity.
    - split; [right; exact Q1|]. split; [|split; [discriminate|reflexivity]].
      destruct Q2 as [[Q2 _]|Q2]; [left; split; [exact Q2|discriminate]|right; exact Q2].
  Qed.
  Lemma Qc_loop dir n : forall c, Qc c -> Qc (zchop_loop zarr n dir c).
  Proof.
    induction n as [|n IH]; intros c Q; cbn [zchop_loop]; [exact Q|].
    destruct (zs_rem (zc_st c) <? zc_len c); [apply IH, Qc_next, Q|exact Q].
  Qed.

  Lemma Qa_line a p : Qa a -> Qa (zdash_op zarr initial a (ZLine p)).
  Proof.
    intros (A1 & [cur A2] & A3 & A4 & A5 & A6). cbn [zdash_op]. rewrite A2.
    set (c := zchop_all zarr p cur a).
    assert (Q : Qc c).
    { apply Qc_loop. unfold Qc. cbn [zc_out zc_init zc_first zc_st zc_start zc_fdash].
      split; [exact A3|]. split; [|split; assumption].
      destruct A4 as [[A4 A4']|A4]; [left; split; [exact A4|]|right; exact A4].
      intros F O. specialize (A4' F O). congruence. }
    destruct Q as (Q1 & Q2 & Q3 & Q4). unfold Qa. cbn [za_startp za_cur za_out za_init za_first za_st za_fdash zs_on].
    split; [exact A1|]. split; [eexists; reflexivity|].
    destruct (zs_on (zc_st c)) eqn:On; cbn [andb].
    - split; [destruct (zc_first c); [exact Q1|right; exact Q1]|]. split; [|split].
      + destruct (zc_first c) eqn:Fi; [|destruct Q2 as [[Q2 _]|Q2]; [left; split; [exact Q2|discriminate]|right; exact Q2]].
        right. destruct Q2 as [[Q2 Q2']|[rest Q2]].
        * rewrite Q2, (Q2' eq_refl eq_refl). eexists. reflexivity.
        * rewrite Q2. eexists. reflexivity.
      + intros _ Fi. rewrite Fi. apply Q3; [reflexivity|exact Fi].
      + intros _ Fi. apply Q4; [reflexivity|exact Fi].
    - split; [right; exact Q1|]. split; [|split; discriminate].
      destruct Q2 as [[Q2 _]|Q2]; [left; split; [exact Q2|discriminate]|right; exact Q2].
  Qed.
  Lemma Qa_lines pts : forall a, Qa a -> Qa (fold_left (zdash_op zarr initial) (map ZLine pts) a).
  Proof. induction pts as [|p t IH]; intros a Q; cbn [map fold_left]; [exact Q|]. apply IH, Qa_line, Q. Qed.
  Lemma Qa_start : Qa (zdash_op zarr initial (zfresh initial) (ZMove p0)).
  Proof.
    unfold Qa. cbn [zdash_op zfresh za_startp za_cur za_out za_init za_first za_st za_fdash zflush].
    split; [reflexivity|]. split; [eexists; reflexivity|]. split; [left; reflexivity|].
    split; [left; split; reflexivity|]. split; [intros; split; reflexivity|discriminate].
  Qed.

  Lemma za_cur_lines pts : forall q a, za_cur a = Some q ->
    za_cur (fold_left (zdash_op zarr initial) (map ZLine pts) a) = Some (last pts q).
  Proof.
    induction pts as [|p t IH]; intros q a H; cbn [map fold_left]; [exact H|].
    rewrite last_cons_def. apply IH. cbn [zdash_op]. rewrite H. reflexivity.
  Qed.

  Lemma zpieces_unrev (l : list zop) : zpieces (rev l) = rev (map (@rev zpt) (zpieces_rev l)).
  Proof. unfold zpieces. rewrite rev_involutive. reflexivity. Qed.

  (* the last op: Close against LineTo p0 *)
  Lemma close_vs_line a cur : Qa a -> za_cur a = Some cur ->
    let ac := zdash_op zarr initial a ZClose in
    let ao := zdash_op zarr initial a (ZLine p0) in
    let zc := rev (zflush (za_init ac) (za_out ac)) in
    let zo := rev (zflush (za_init ao) (za_out ao)) in
    znorm (zpieces zc) = znorm (zpieces zo) \/
    (exists xs pa pb, zpieces zo = xs ++ [pa ++ [p0]; p0 :: pb] /\ zpieces zc = xs ++ [pa ++ p0 :: pb]) \/
    (exists buf, zc = ZMove p0 :: map ZLine buf ++ [ZClose] /\ zpieces zo = [[p0]; buf ++ [cur; p0]]).
  Proof.
    intros (A1 & _ & A3 & A4 & A5 & A6) Ec. cbv zeta. cbn [zdash_op]. rewrite Ec, A1.
    set (c := zchop_all zarr p0 cur a) in *.
    assert (Q : Qc c).
    { apply Qc_loop. unfold Qc. cbn [zc_out zc_init zc_first zc_st zc_start zc_fdash].
      split; [exact A3|]. split; [|split; assumption].
      destruct A4 as [[A4 A4']|A4]; [left; split; [exact A4|]|right; exact A4].
      intros F O. specialize (A4' F O). congruence. }
    destruct Q as (Q1 & Q2 & Q3 & Q4).
    cbn [za_init za_out zflush].
    pose proof (zpieces_rev_has_move p0 _ Q1) as NE.
    destruct (zs_on (zc_st c)) eqn:On; cbn [andb].
    - destruct (zc_first c) eqn:Fi.
      + (* never left the first dash *)
        destruct (Q3 eq_refl eq_refl) as [Fd Eo]. right; right. exists (zc_init c). rewrite Fd, Eo. split.
        * cbn [rev]. rewrite rev_app_distr, rev_involutive. reflexivity.
        * rewrite zpieces_unrev, zpieces_rev_flush.
          destruct (zc_init c ++ [zc_start c; p0]) as [|i0 it] eqn:Ei; [destruct (zc_init c); discriminate|].
          rewrite <- Ei. cbn [zpieces_rev map rev app]. rewrite rev_involutive.
          (* the loop did not run: its start is still cur *)
          assert (Es : zc_start c = cur).
          { assert (H : forall n c0, zc_first (zchop_loop zarr n (zdir (zsub p0 cur)) c0) = true ->
                                     zchop_loop zarr n (zdir (zsub p0 cur)) c0 = c0).
            { clear. induction n as [|n IH]; intros c0 H; cbn [zchop_loop] in *; [reflexivity|].
              destruct (zs_rem (zc_st c0) <? zc_len c0); [|reflexivity]. exfalso.
              assert (K : forall n c1, zc_first c1 = false -> zc_first (zchop_loop zarr n (zdir (zsub p0 cur)) c1) = false).
              { clear. induction n as [|n IH]; intros c1 H; cbn [zchop_loop]; [exact H|].
                destruct (zs_rem (zc_st c1) <? zc_len c1); [apply IH; reflexivity|exact H]. }
              rewrite K in H; [discriminate|reflexivity]. }
            unfold c, zchop_all in Fi |- *. rewrite (H _ _ Fi). reflexivity. }
          rewrite Es. reflexivity.
      + (* a gap was seen *)
        specialize (Q4 eq_refl eq_refl). rewrite Q4.
        destruct (zpieces_rev (zc_out c)) as [|pc ps] eqn:Ep; [congruence|].
        destruct Q2 as [[Ei _]|[rest Ei]]; rewrite Ei.
        * left. cbn [zflush]. reflexivity.
        * right; left. exists (rev (map (@rev zpt) ps)), (rev pc), rest. rewrite !zpieces_unrev. split.
          -- rewrite zpieces_rev_flush. cbn [zpieces_rev]. rewrite Ep.
             cbn [map]. rewrite rev_involutive. cbn [rev]. rewrite <- !app_assoc. reflexivity.
          -- rewrite <- (map_rev ZLine). rewrite (zpieces_rev_lines_onto _ _ pc ps Ep). cbn [map].
             rewrite (rev_app_distr (rev (p0 :: rest)) pc), rev_involutive. reflexivity.
    - (* ends in a gap *)
      left. rewrite !zpieces_unrev, !zpieces_rev_flush. cbn [zpieces_rev].
      assert (J : znorm [rev [p0]] = []) by reflexivity.
      destruct (zc_init c) as [|i0 it]; cbn [map]; set (X := map (@rev zpt) (zpieces_rev (zc_out c))).
      + change (rev (rev [p0] :: X)) with (rev X ++ [rev [p0]]). rewrite znorm_app, J, app_nil_r. reflexivity.
      + set (R := rev (rev (i0 :: it))).
        change (rev (R :: X)) with (rev X ++ [R]).
        change (rev (R :: rev [p0] :: X)) with ((rev X ++ [rev [p0]]) ++ [R]).
        rewrite !znorm_app, J, app_nil_r. reflexivity.
  Qed.

  (* THE CLOSED SUBPATH AND ITS OPEN COUNTERPART.  zc: the dashes of  M p0, L pts.., Close;  zo: the dashes of
     M p0, L pts.., L p0.  Either
     (a) they have the same pieces up to a piece without extent (the subpath ends in a gap, or in a dash while
         nothing was buffered at its start), or
     (b) the subpath ends in a dash and its first dash was buffered: zo ends with the piece reaching the end,
         .. p0, followed by the buffered first piece p0 .. ; in zc these two are one piece .. p0 .. (joined), or
     (c) the subpath never left the dash it started in: zc is the complete outline M p0, L (buffer), Close. *)
  Theorem zdashed_closed_vs_open pts :
    let zc := zdashed zarr initial (ZMove p0 :: map ZLine pts ++ [ZClose]) in
    let zo := zdashed zarr initial (ZMove p0 :: map ZLine (pts ++ [p0])) in
    znorm (zpieces zc) = znorm (zpieces zo) \/
    (exists xs pa pb, zpieces zo = xs ++ [pa ++ [p0]; p0 :: pb] /\ zpieces zc = xs ++ [pa ++ p0 :: pb]) \/
    (exists buf, zc = ZMove p0 :: map ZLine buf ++ [ZClose] /\ zpieces zo = [[p0]; buf ++ [last pts p0; p0]]).
  Proof.
    cbv zeta. unfold zdashed, zdash_ops. cbn [fold_left]. rewrite map_app, !fold_left_app. cbn [map fold_left].
    set (a := fold_left (zdash_op zarr initial) (map ZLine pts) (zdash_op zarr initial (zfresh initial) (ZMove p0))).
    assert (Q : Qa a) by (apply Qa_lines, Qa_start).
    assert (Ec : za_cur a = Some (last pts p0)) by (apply za_cur_lines; reflexivity).
    exact (close_vs_line a (last pts p0) Q Ec).
  Qed.
End Closed.
Print Assumptions zdashed_closed_vs_open.
