(* C09, closed subpaths: WHICH of the three outcomes of DashExact.dash_closed_subpath_exact happens is decided by the
   pattern.  For  MoveTo p0, LineTo pts.., Close  on the integer axis-aligned sub-domain D of DashExact.v, with L the
   length of the closed polyline (closing segment included) and o = offset mod period:
   (c) the subpath starts inside a dash (DashExact.starts_in_dash: on just after position 0, and on just before it
       unless the pattern itself begins there) and the pattern is on over all of [0, L) (whole_on): the output is
       literally the complete closed outline  MoveTo p0, LineTo (both ends of every segment of p0, pts..), Close
       (= DashShape.closed_on_result); a dash ending exactly at L still counts; a dash BEGINNING exactly at the start
       of the subpath (o <> 0) does not: nothing is buffered then and the outline comes out open, without Close;
   (b) it starts inside a dash, is not on everywhere, and is on just before L (pattern_on o (L-1)): the piece reaching
       the end and the piece starting at the beginning are ONE piece (last ++ tail of first), emitted last;
   (a) otherwise the pieces are those of the open polyline  MoveTo p0, LineTo pts.., LineTo p0  (DashExact's
       dash_open_polyline_spec), the first one last when the subpath starts inside a dash.
   closed_pieces_spec is this case distinction, from pattern_on / pieces_spec / the vertex list only.
   Main theorems: zclosed_core, zdash_closed_spec (integer dasher; closed under the global context),
   dash_closed_subpath_spec (PathOps.dash_path), closed_whole_on_gives_closed_outline, closed_outline_iff_whole_on,
   closed_end_piece_joined_to_start_piece, closed_otherwise_pieces_of_open_polyline; examples at the end. *)
From Coq Require Import ZArith List Lia Bool.
Require Import RQ.Base RQ.F32 RQ.Raster RQ.PathF RQ.PathOps RQ.DashShape RQ.Contains RQ.DashZ RQ.DashPos RQ.DashSpec RQ.DashClosed RQ.DashExact.
Import ListNotations.
Open Scope Z_scope.

(* ================================================================================================================== *)
(* 0. lists of points with consecutive repetitions merged                                                             *)
Lemma zdedup_head y t : exists d, zdedup (y :: t) = y :: d.
Proof.
  revert y. induction t as [|z t IH]; intros y; [exists []; reflexivity|].
  cbn [zdedup]. destruct (IH z) as [d E]. cbn [zdedup] in E. rewrite E.
  destruct (zpt_eqb_spec y z) as [->|]; eexists; reflexivity.
Qed.
Lemma zdedup_cons x t : zdedup (x :: t) = match zdedup t with [] => [x] | y :: d => if zpt_eqb x y then y :: d else x :: y :: d end.
Proof. reflexivity. Qed.
Lemma zdedup_nil_inv l : zdedup l = [] -> l = [].
Proof. destruct l as [|x t]; [reflexivity|]. destruct (zdedup_head x t) as [d E]. rewrite E. discriminate. Qed.

(* a repeated point inside a list does not count *)
Lemma zdedup_dup l x r : zdedup (l ++ x :: x :: r) = zdedup (l ++ x :: r).
Proof.
  induction l as [|a l IH]; cbn [app].
  - rewrite (zdedup_cons x (x :: r)). destruct (zdedup_head x r) as [d E]. rewrite E.
    destruct (zpt_eqb_spec x x); [reflexivity|congruence].
  - rewrite !(zdedup_cons a), IH. reflexivity.
Qed.
(* joining  A ++ [p]  and  p :: B  at p *)
Lemma zdedup_join A p B : zdedup (A ++ p :: B) = zdedup (A ++ [p]) ++ tl (zdedup (p :: B)).
Proof.
  destruct (zdedup_head p B) as [d E]. rewrite E. cbn [tl].
  induction A as [|a A IH]; cbn [app].
  - rewrite E. reflexivity.
  - rewrite (zdedup_cons a (A ++ p :: B)), (zdedup_cons a (A ++ [p])), IH.
    destruct (zdedup (A ++ [p])) as [|y e] eqn:Ea; [apply zdedup_nil_inv in Ea; destruct A; discriminate|].
    cbn [app]. destruct (zpt_eqb a y); reflexivity.
Qed.

Lemma znorm_single X : znorm [X] = if (2 <=? length (zdedup X))%nat then [zdedup X] else [].
Proof. reflexivity. Qed.
Lemma znorm_single_cong X Y : zdedup X = zdedup Y -> znorm [X] = znorm [Y].
Proof. intros H. rewrite !znorm_single, H. reflexivity. Qed.

Lemma rot1_inv {A} (l y : list A) f : rot1 l = y ++ [f] -> l = f :: y.
Proof.
  destruct l as [|x t]; cbn [rot1]; intros H; [destruct y; discriminate|].
  apply app_inj_tail in H. destruct H as [-> ->]. reflexivity.
Qed.

(* a polyline of length 0 is a single point *)
Lemma plen0_const pts : forall p0, plen p0 pts = 0 -> zdedup (p0 :: pts) = [p0].
Proof.
  induction pts as [|p t IH]; intros p0 H; [reflexivity|]. cbn [plen] in H.
  pose proof (seglen_nonneg p0 p). pose proof (plen_nonneg p t).
  assert (E : p = p0) by (apply seglen_0; lia). subst p.
  rewrite (zdedup_cons p0 (p0 :: t)), (IH p0) by lia. destruct (zpt_eqb_spec p0 p0); [reflexivity|congruence].
Qed.

(* both ends of every segment of the polyline cur -> pts: what the model buffers during the first dash
   (the integer counterpart of DashShape.seg_pairs) *)
Fixpoint zseg_pairs (cur : zpt) (pts : list zpt) : list zpt :=
  match pts with [] => [] | p :: t => cur :: p :: zseg_pairs p t end.
Lemma zseg_pairs_app done : forall cur p, zseg_pairs cur (done ++ [p]) = zseg_pairs cur done ++ [last done cur; p].
Proof.
  induction done as [|d t IH]; intros cur p; [reflexivity|]. cbn [app zseg_pairs]. rewrite IH, last_cons_def. reflexivity.
Qed.
Lemma zdedup_seg_pairs pts : forall cur, zdedup (cur :: zseg_pairs cur pts) = zdedup (cur :: pts).
Proof.
  induction pts as [|p t IH]; intros cur; [reflexivity|]. cbn [zseg_pairs].
  pose proof (zdedup_dup [] cur (p :: zseg_pairs p t)) as H. cbn [app] in H. rewrite H.
  rewrite (zdedup_cons cur (p :: zseg_pairs p t)), (zdedup_cons cur (p :: t)), IH. reflexivity.
Qed.
Lemma ept_seg_pairs pts : forall cur, map ept (zseg_pairs cur pts) = seg_pairs (ept cur) (map ept pts).
Proof. induction pts as [|p t IH]; intros cur; [reflexivity|]. cbn [zseg_pairs seg_pairs map]. rewrite IH. reflexivity. Qed.

(* ================================================================================================================== *)
(* 1. the last op of the closed subpath against LineTo p0, with the conditions kept                                    *)
Section ZClose.
  Variable zarr : list Z.
  Variable initial : zds.
  Variable p0 : zpt.

  Lemma zloop_first_false dir n : forall c, zc_first c = false -> zc_first (zchop_loop zarr n dir c) = false.
  Proof.
    induction n as [|n IH]; intros c H; cbn [zchop_loop]; [exact H|].
    destruct (zs_rem (zc_st c) <? zc_len c); [apply IH; reflexivity|exact H].
  Qed.
  (* as long as `first` holds the loop has not run *)
  Lemma zloop_first_id dir n c : zc_first (zchop_loop zarr n dir c) = true -> zchop_loop zarr n dir c = c.
  Proof.
    destruct n as [|n]; cbn [zchop_loop]; [reflexivity|].
    destruct (zs_rem (zc_st c) <? zc_len c); [|reflexivity].
    intros H. rewrite zloop_first_false in H; [discriminate|reflexivity].
  Qed.

  (* the reversed output of the closed subpath, from the state before its Close *)
  Definition closed_rout (a : zacc) : list zop :=
    let ac := zdash_op zarr initial a ZClose in zflush (za_init ac) (za_out ac).

  Lemma close_cases a cur : Qa p0 a -> za_cur a = Some cur ->
    let ao := zdash_op zarr initial a (ZLine p0) in
    let rc := closed_rout a in
    (zs_on (za_st ao) = true /\ za_first ao = true /\ zs_on (za_st a) = true /\ za_first a = true /\
       rc = ZClose :: rev (map ZLine (za_init a)) ++ [ZMove p0]) \/
    (zs_on (za_st ao) = true /\ za_first ao = false /\
       exists out', za_out ao = ZLine p0 :: out' /\ In (ZMove p0) out' /\
                    rc = match za_init ao with [] => za_out ao | _ => rev (map ZLine (za_init ao)) ++ out' end) \/
    (zs_on (za_st ao) = false /\ exists out', za_out ao = ZMove p0 :: out' /\ rc = zflush (za_init ao) out').
  Proof.
    intros (A1 & _ & A3 & A4 & A5 & A6) Ec. cbv zeta. unfold closed_rout. cbn [zdash_op]. rewrite Ec, A1.
    set (c := zchop_all zarr p0 cur a) in *.
    assert (Q : Qc p0 c).
    { apply Qc_loop. unfold Qc. cbn [zc_out zc_init zc_first zc_st zc_start zc_fdash].
      split; [exact A3|]. split; [|split; assumption].
      destruct A4 as [[A4 A4']|A4]; [left; split; [exact A4|]|right; exact A4].
      intros F O. specialize (A4' F O). congruence. }
    destruct Q as (Q1 & Q2 & Q3 & Q4).
    cbn [za_init za_out za_st za_first zs_on zflush].
    destruct (zs_on (zc_st c)) eqn:On; cbn [andb].
    - destruct (zc_first c) eqn:Fi.
      + left. destruct (Q3 eq_refl eq_refl) as [Fd Eo]. rewrite Fd, Eo.
        assert (Ecc : c = mk_zchop (zlen1 (zsub p0 cur)) cur (za_st a) (za_first a) (za_fdash a) (za_init a) (za_out a)).
        { unfold c, zchop_all in Fi |- *. apply zloop_first_id. exact Fi. }
        rewrite Ecc in On, Fi |- *. cbn [zc_st zc_first zc_init] in *.
        repeat split; try assumption; reflexivity.
      + right; left. specialize (Q4 eq_refl eq_refl). rewrite Q4.
        split; [reflexivity|]. split; [reflexivity|]. exists (zc_out c). split; [reflexivity|]. split; [exact Q1|].
        destruct (zc_init c); reflexivity.
    - right; right. split; [reflexivity|]. exists (zc_out c). split; reflexivity.
  Qed.

  (* while the subpath stays inside its first dash, the buffer holds both ends of every segment passed *)
  Definition SJ (done : list zpt) (a : zacc) : Prop :=
    za_cur a = Some (last done p0) /\
    (za_first a = true -> zs_on (za_st a) = true -> za_init a = zseg_pairs p0 done).

  Lemma SJ_line done a p : SJ done a -> SJ (done ++ [p]) (zdash_op zarr initial a (ZLine p)).
  Proof.
    intros [Ec J]. unfold SJ. cbn [zdash_op]. rewrite Ec. set (cur := last done p0) in *.
    cbn [za_cur za_first za_st za_init zs_on]. split; [rewrite last_last; reflexivity|].
    set (c := zchop_all zarr p cur a). intros Fi On.
    assert (Ecc : c = mk_zchop (zlen1 (zsub p cur)) cur (za_st a) (za_first a) (za_fdash a) (za_init a) (za_out a)).
    { unfold c, zchop_all in Fi |- *. apply zloop_first_id. exact Fi. }
    rewrite On, Fi. cbn [andb]. rewrite Ecc in On, Fi |- *. cbn [zc_st zc_first zc_init zc_start] in *.
    rewrite (J Fi On), zseg_pairs_app. reflexivity.
  Qed.
  Lemma SJ_lines pts : forall done a, SJ done a -> SJ (done ++ pts) (fold_left (zdash_op zarr initial) (map ZLine pts) a).
  Proof.
    induction pts as [|p t IH]; intros done a J; cbn [map fold_left]; [rewrite app_nil_r; exact J|].
    replace (done ++ p :: t) with ((done ++ [p]) ++ t) by (rewrite <- app_assoc; reflexivity).
    apply IH, SJ_line, J.
  Qed.
  Lemma SJ_start : SJ [] (zdash_op zarr initial (zfresh initial) (ZMove p0)).
  Proof. split; [reflexivity|]. intros _ _. reflexivity. Qed.
End ZClose.

(* ================================================================================================================== *)
(* 2. a cut never falls on the end of a segment: once the first dash is left, the current entry began strictly before  *)
(*    the current vertex                                                                                               *)
Section Strict.
  Variable zarr : list Z.
  Hypothesis Hpos1 : forall i, 1 <= zarr_at zarr i.
  Variables (o idx0 : Z).
  Hypothesis Hidx0 : 0 <= idx0.
  Hypothesis Ho : zb zarr idx0 <= o <= zb zarr (idx0 + 1).

  Definition STa (a : pacc) : Prop := pa_first a = false -> zb zarr (zs_idx (pa_st a)) - o < pa_pos a.
  Definition STc (c : pchop) : Prop := pc_first c = false -> zb zarr (zs_idx (pc_st c)) - o < pc_start c + pc_len c.

  Lemma ploop_ST vs n : forall c, INVc zarr o idx0 vs c -> STc c -> STc (ploop zarr n c).
  Proof.
    induction n as [|n IH]; intros c I S; cbn [ploop]; [exact S|].
    destruct (Z.ltb_spec (zs_rem (pc_st c)) (pc_len c)) as [G|G]; [|exact S].
    apply IH.
    - apply (INV_cut zarr Hpos1 o idx0 Hidx0 Ho) in I. exact I.
    - destruct I as ((_ & S2 & _ & _) & _). intros _. unfold pchop_next. cbn [pc_st pc_start pc_len zs_idx]. lia.
  Qed.

  Lemma pseg_ST vs a len : INVa zarr o idx0 vs a -> STa a -> 0 <= len -> STa (pseg zarr a len).
  Proof.
    intros I S Hl. unfold STa, pseg.
    set (c0 := mk_pchop len (pa_pos a) (pa_st a) (pa_first a) (pa_init a) (pa_out a)).
    assert (Hr : 0 <= zs_rem (pa_st a)).
    { destruct I as ((_ & S2 & _ & S4) & _). lia. }
    assert (S0 : STc c0).
    { unfold STc, c0. cbn [pc_first pc_st pc_start pc_len]. intros F. specialize (S F). lia. }
    pose proof (ploop_ST vs (zchop_fuel len) c0 I S0) as SL.
    destruct (ploop_sum zarr Hpos1 (zchop_fuel len) c0 Hl Hr) as [E1 _]. cbn [c0 pc_start pc_len] in E1. fold c0 in E1.
    cbn [pa_first pa_st pa_pos zs_idx]. intros F. specialize (SL F). lia.
  Qed.

  Lemma fold_ST lens : forall vs a, INVa zarr o idx0 vs a -> STa a -> Forall (fun l => 0 <= l) lens ->
    STa (fold_left (pseg zarr) lens a).
  Proof.
    induction lens as [|l lens IH]; intros vs a I S Hl; cbn [fold_left]; [exact S|].
    inversion Hl; subst.
    apply (IH (vs ++ [pa_pos a + l])); [apply (pseg_INV zarr Hpos1 o idx0 Hidx0 Ho); assumption|apply (pseg_ST vs); assumption|assumption].
  Qed.

  Lemma pdash_ST lens : Forall (fun l => 0 <= l) lens -> STa (pdash_acc zarr (initial0 zarr o idx0) lens).
  Proof.
    intros Hl. apply (fold_ST lens []); [apply INV_initial; assumption| |exact Hl].
    unfold STa, pfresh. cbn [pa_first]. discriminate.
  Qed.
End Strict.

(* ================================================================================================================== *)
(* 3. the pieces of the closed subpath                                                                                *)
(* the piece reaching the end (the last one) continued by the piece at the start (the first one) *)
Definition join_ends (ps : list (list zpt)) : list (list zpt) :=
  match ps with [] => [] | f :: t => removelast t ++ [last t [] ++ tl f] end.

Lemma seglens_nonneg pts : forall p0, Forall (fun l => 0 <= l) (seglens p0 pts).
Proof. induction pts as [|p t IH]; intros p0; cbn [seglens]; constructor; [apply seglen_nonneg|apply IH]. Qed.

Lemma zpieces_closed_outline p l : zpieces (ZMove p :: map ZLine l ++ [ZClose]) = [p :: l].
Proof.
  unfold zpieces. cbn [rev]. rewrite rev_app_distr. cbn [rev app zpieces_rev].
  rewrite <- (map_rev ZLine), zpieces_rev_lines. cbn [zpieces_rev map rev app]. rewrite rev_app_distr, rev_involutive. reflexivity.
Qed.
Lemma no_close_image (P : Z -> zpt) l : ~ In ZClose (map (pmapop P) l).
Proof. intros H. apply in_map_iff in H. destruct H as [[t|t] [E _]]; discriminate. Qed.
Lemma no_close_lines l : ~ In ZClose (map ZLine l).
Proof. intros H. apply in_map_iff in H. destruct H as [t [E _]]; discriminate. Qed.
Lemma no_close_flush init out : ~ In ZClose out -> ~ In ZClose (zflush init out).
Proof.
  intros H. destruct init as [|i0 it]; cbn [zflush]; [exact H|]. intros K. apply in_app_or in K.
  destruct K as [K|[K|K]]; [|discriminate|exact (H K)]. apply in_rev in K. exact (no_close_lines _ K).
Qed.
Lemma map_rev_map {A B} (f : A -> B) (r : list (list A)) : map (@rev B) (map (map f) r) = map (map f) (map (@rev A) r).
Proof. rewrite !map_map. apply map_ext. intros pc. rewrite map_rev. reflexivity. Qed.

Section Core.
  Variable zarr : list Z.
  Hypothesis Hpos1 : forall i, 1 <= zarr_at zarr i.
  Variables (o idx0 : Z).
  Hypothesis Hidx0 : 0 <= idx0.
  Hypothesis Ho : zb zarr idx0 <= o <= zb zarr (idx0 + 1).

  (* the open polyline, integer form (as in DashExact.dash_open_polyline_pieces_offset_explicit) *)
  Lemma zopen_pieces p0 pts : poly_axis p0 pts ->
    znorm (zpieces (zdashed zarr (initial0 zarr o idx0) (ZMove p0 :: map ZLine pts))) =
    if Z.even idx0 && (0 <? Z.min (plen p0 pts) (zb zarr (idx0 + 1) - o)) then rot1 (pieces_spec zarr o p0 pts)
    else pieces_spec zarr o p0 pts.
  Proof.
    intros Ha.
    rewrite (zdashed_image zarr Hpos1 (initial0 zarr o idx0) p0 pts); [|unfold initial0; cbn [zs_rem]; lia|exact Ha].
    rewrite zpieces_image, (pdash_point_pieces zarr Hpos1 o idx0 Hidx0 Ho p0 pts Ha).
    unfold pieces_spec, on_pieces.
    destruct (Z.even idx0 && (0 <? Z.min (plen p0 pts) (zb zarr (idx0 + 1) - o))); rewrite ?rot1_map; reflexivity.
  Qed.

  Variables (p0 : zpt) (pts : list zpt).
  Hypothesis Hax : poly_axis p0 (pts ++ [p0]).

  (* one piece: the points of a position-level piece, merged *)
  Lemma piece_image pc a b :
    popen (cum 0 (seglens p0 (pts ++ [p0]))) pc a b -> 0 <= a -> b <= plen p0 (pts ++ [p0]) ->
    if a <? b
    then zdedup (map (point_at p0 (pts ++ [p0])) (rev pc)) =
           map (point_at p0 (pts ++ [p0])) (dedup (ppiece (cum 0 (seglens p0 (pts ++ [p0]))) a b)) /\
         (2 <= length (zdedup (map (point_at p0 (pts ++ [p0])) (rev pc))))%nat
    else (length (zdedup (map (point_at p0 (pts ++ [p0])) (rev pc))) <= 1)%nat.
  Proof.
    set (full := pts ++ [p0]). set (vs := cum 0 (seglens p0 full)). set (Pf := point_at p0 full). set (L := plen p0 full).
    intros P Ha Hb.
    assert (M : matches vs [pc] ((if a <? b then [(a, b)] else []) ++ [])) by (apply popen_piece_or_junk; [exact P|constructor]).
    rewrite app_nil_r in M.
    assert (HP : forall x y, 0 <= x < y -> y <= L -> (forall v, In v vs -> ~ (x < v < y)) -> Pf x <> Pf y).
    { intros x y Hxy Hy Hv. apply point_at_consec; assumption. }
    assert (HB : forall a' b', In (a', b') (if a <? b then [(a, b)] else []) -> 0 <= a' /\ b' <= L).
    { intros a' b'. destruct (a <? b); [|intros []]. intros [E|[]]. inversion E; subst. lia. }
    pose proof (matches_znorm vs Pf L _ _ M HP HB) as E1.
    rewrite (matches_normZ vs _ _ (proj1 (cum_ascf (seglens p0 full) 0 (seglens_nonneg full p0))) M) in E1.
    cbn [map rev app] in E1. rewrite znorm_single in E1.
    destruct (a <? b); cbn [map rev app fst snd] in E1.
    - destruct (Nat.leb_spec 2 (length (zdedup (map Pf (rev pc))))) as [G|G]; [|discriminate].
      split; [congruence|exact G].
    - destruct (Nat.leb_spec 2 (length (zdedup (map Pf (rev pc))))) as [G|G]; [discriminate|]. apply Nat.lt_succ_r. exact G.
  Qed.

  (* THE CLOSED SUBPATH, conditions in terms of the entry idx0 the subpath starts in *)
  Theorem zclosed_core :
    znorm (zpieces (zdashed zarr (initial0 zarr o idx0) (ZMove p0 :: map ZLine pts ++ [ZClose]))) =
      (if Z.even idx0 && (0 <? zb zarr (idx0 + 1) - o)
       then if o + plen p0 (pts ++ [p0]) <=? zb zarr (idx0 + 1) then znorm [p0 :: pts]
            else if pattern_on zarr o (plen p0 (pts ++ [p0]) - 1) then join_ends (pieces_spec zarr o p0 (pts ++ [p0]))
                 else rot1 (pieces_spec zarr o p0 (pts ++ [p0]))
       else pieces_spec zarr o p0 (pts ++ [p0])) /\
    (if Z.even idx0 && (o + plen p0 (pts ++ [p0]) <=? zb zarr (idx0 + 1))
     then zdashed zarr (initial0 zarr o idx0) (ZMove p0 :: map ZLine pts ++ [ZClose]) =
            ZMove p0 :: map ZLine (zseg_pairs p0 pts) ++ [ZClose]
     else ~ In ZClose (zdashed zarr (initial0 zarr o idx0) (ZMove p0 :: map ZLine pts ++ [ZClose]))) /\
    (Z.even idx0 = true -> 0 < zb zarr (idx0 + 1) - o -> zb zarr (idx0 + 1) < o + plen p0 (pts ++ [p0]) ->
     pattern_on zarr o (plen p0 (pts ++ [p0]) - 1) = true ->
     exists b mid a, on_intervals zarr o (plen p0 (pts ++ [p0])) = (0, b) :: mid ++ [(a, plen p0 (pts ++ [p0]))]).
  Proof.
    set (full := pts ++ [p0]) in *. set (ini := initial0 zarr o idx0). set (lens := seglens p0 full).
    set (vs := cum 0 lens). set (Pf := point_at p0 full). set (L := plen p0 full).
    set (a1 := zdash_op zarr ini (zfresh ini) (ZMove p0)).
    set (a := fold_left (zdash_op zarr ini) (map ZLine pts) a1).
    set (ao := zdash_op zarr ini a (ZLine p0)).
    set (pa := pdash_acc zarr ini lens).
    assert (Ezc : zdashed zarr ini (ZMove p0 :: map ZLine pts ++ [ZClose]) = rev (closed_rout zarr ini a)).
    { unfold zdashed, zdash_ops. cbn [fold_left]. rewrite fold_left_app. reflexivity. }
    assert (Eao : ao = fold_left (zdash_op zarr ini) (map ZLine full) a1).
    { unfold ao, a, full. rewrite map_app, fold_left_app. reflexivity. }
    assert (Ezo : zdashed zarr ini (ZMove p0 :: map ZLine full) = rev (zflush (za_init ao) (za_out ao))).
    { rewrite Eao. reflexivity. }
    assert (Qa_a : Qa p0 a) by (apply Qa_lines, Qa_start).
    assert (Qa_o : Qa p0 ao) by (apply Qa_line, Qa_a).
    assert (Ecur : za_cur a = Some (last pts p0)) by (apply za_cur_lines; reflexivity).
    assert (SJa : SJ p0 pts a) by (apply (SJ_lines zarr ini p0 pts [] a1), SJ_start).
    assert (Hl : Forall (fun l => 0 <= l) lens) by apply seglens_nonneg.
    assert (Hr0 : 0 <= zs_rem ini) by (unfold ini, initial0; cbn [zs_rem]; lia).
    assert (R : Ra Pf ao pa).
    { rewrite Eao. unfold pa, pdash_acc, lens.
      apply (fold_image zarr Hpos1 Pf ini p0 full eq_refl full [] a1 (pfresh ini) eq_refl); try reflexivity; try assumption.
      unfold Ra, pfresh, a1. cbn [zdash_op zfresh zflush za_first za_init za_st za_out pa_first pa_init pa_st pa_out map pmapop].
      repeat split. unfold Pf. rewrite point_at_0. reflexivity. }
    pose proof (pdash_INV zarr Hpos1 o idx0 Hidx0 Ho lens Hl) as I. fold vs ini pa in I.
    pose proof (pdash_ST zarr Hpos1 o idx0 Hidx0 Ho lens Hl) as ST. fold ini pa in ST.
    assert (EL : pa_pos pa = L).
    { unfold pa, pdash_acc. rewrite pa_pos_fold. cbn [pfresh pa_pos]. unfold lens. rewrite (last_cum_plen full p0 0). reflexivity. }
    pose proof (zopen_pieces p0 full Hax) as Eopen. fold ini L in Eopen. rewrite Ezo in Eopen.
    pose proof (final_ivs_on_intervals zarr Hpos1 o idx0 Hidx0 Ho vs pa I) as Hfin. rewrite EL in Hfin.
    assert (HP : forall x y, 0 <= x < y -> y <= L -> (forall v, In v vs -> ~ (x < v < y)) -> Pf x <> Pf y).
    { intros x y Hxy Hy Hv. apply point_at_consec; assumption. }
    assert (Avs : ascf vs) by (apply cum_ascf, Hl).
    assert (L0 : 0 <= L) by apply plen_nonneg.
    assert (Eps : pieces_spec zarr o p0 full =
                  map (map Pf) (map (fun iv => dedup (ppiece vs (fst iv) (snd iv))) (on_intervals zarr o L))) by reflexivity.
    unfold STa in ST. rewrite EL in ST.
    destruct I as ((S1 & S2 & S3 & S4) & (V1 & V2 & V3) & F & N). rewrite EL in *.
    set (idx := zs_idx (pa_st pa)) in *.
    destruct R as (R1 & R2 & R3 & R4).
    assert (NCo : ~ In ZClose (za_out ao)) by (rewrite R4; apply no_close_image).
    pose proof (zb_step zarr Hpos1 idx0 Hidx0) as St0.
    rewrite Ezc.
    pose proof (close_cases zarr ini p0 a (last pts p0) Qa_a Ecur) as C. cbv zeta in C. fold ao in C.
    destruct C as [(On & Fi & Ona & Fia & Erc)|[(On & Fi & out' & Eout & Hin & Erc)|(On & out' & Eout & Erc)]].
    - (* (c): the subpath never left the dash it started in *)
      rewrite R3 in On. rewrite R1 in Fi. destruct (F Fi) as (F1 & _). fold idx in F1.
      assert (E0 : Z.even idx0 = true) by (rewrite <- F1, <- S1; exact On).
      rewrite F1 in S4.
      assert (Ez : rev (closed_rout zarr ini a) = ZMove p0 :: map ZLine (za_init a) ++ [ZClose]).
      { rewrite Erc. cbn [rev]. rewrite rev_app_distr, rev_involutive. reflexivity. }
      rewrite Ez, zpieces_closed_outline, E0. cbn [andb].
      destruct SJa as [_ SJa]. specialize (SJa Fia Ona). rewrite SJa.
      split; [|split].
      + destruct (Z.ltb_spec 0 (zb zarr (idx0 + 1) - o)) as [Lt|Ge].
        * destruct (Z.leb_spec (o + L) (zb zarr (idx0 + 1))); [|lia]. apply znorm_single_cong, zdedup_seg_pairs.
        * rewrite Eps, on_intervals_L0 by (assumption || lia). cbn [map].
          rewrite znorm_single, zdedup_seg_pairs.
          assert (E1 : plen p0 pts = 0).
          { pose proof (plen_nonneg p0 pts). pose proof (plen_nonneg (last pts p0) [p0]).
            unfold L, full in *. rewrite plen_app in *. lia. }
          rewrite (plen0_const pts p0 E1). reflexivity.
      + destruct (Z.leb_spec (o + L) (zb zarr (idx0 + 1))); [|lia]. reflexivity.
      + intros _ _ H _. lia.
    - (* the subpath ends inside a later dash *)
      rewrite R3 in On. rewrite R1 in Fi. destruct (N Fi) as (N1 & N2 & N3 & N4). fold idx in N1, N4. specialize (ST Fi).
      assert (Ev : Z.even idx = true) by (rewrite <- S1; exact On). rewrite Ev in N4.
      pose proof (zb_mono zarr Hpos1 (idx0 + 1) idx ltac:(lia)) as Mo.
      assert (Eon : pattern_on zarr o (L - 1) = true).
      { unfold pattern_on. rewrite (idx_at_unique zarr Hpos1 (o + (L - 1)) idx) by lia. exact Ev. }
      assert (Ele : (o + L <=? zb zarr (idx0 + 1)) = false) by (apply Z.leb_gt; lia).
      rewrite Ele, Eon, andb_false_r.
      destruct (za_init ao) as [|i0 rest] eqn:Ei.
      + (* nothing was buffered: the output is that of the open polyline *)
        assert (E0 : Z.even idx0 = false).
        { destruct (Z.even idx0) eqn:E0; [|reflexivity]. exfalso. specialize (N2 eq_refl).
          symmetry in R2. apply map_eq_nil in R2. rewrite R2 in N2. exact (popen_nonempty _ _ _ N2). }
        rewrite E0 in *. cbn [andb] in *. rewrite Erc. cbn [zflush] in Eopen. split; [exact Eopen|split].
        * intros K. apply in_rev in K. exact (NCo K).
        * intros H. discriminate H.
      + (* the piece reaching the end is continued by the buffered first dash *)
        assert (E0 : Z.even idx0 = true).
        { destruct (Z.even idx0) eqn:E0; [reflexivity|]. exfalso. rewrite (N3 eq_refl) in R2. discriminate R2. }
        specialize (N2 E0). clear N3. rewrite E0 in *. cbn [andb] in *.
        destruct N4 as (pc & restp & Epp & Ppc & Mrest).
        assert (Ei0 : i0 = p0).
        { destruct Qa_o as (_ & _ & _ & [[A4 _]|[r A4]] & _); rewrite Ei in A4; [discriminate|]. inversion A4; reflexivity. }
        subst i0.
        destruct (zpieces_rev out') as [|pcz' restz'] eqn:Ep'; [exfalso; exact (zpieces_rev_has_move p0 out' Hin Ep')|].
        assert (Eim : map Pf pc = p0 :: pcz' /\ map (map Pf) restp = restz').
        { pose proof (zpieces_rev_image Pf (pa_out pa)) as Him. rewrite <- R4, Eout, Epp in Him.
          cbn [zpieces_rev map] in Him. rewrite Ep' in Him. inversion Him. split; reflexivity. }
        destruct Eim as [Epc Erest].
        (* the pieces of the closed output *)
        assert (Ezp : zpieces (rev (closed_rout zarr ini a)) = rev (map (@rev zpt) restz') ++ [rev pcz' ++ p0 :: rest]).
        { rewrite Erc, zpieces_unrev, <- (map_rev ZLine), (zpieces_rev_lines_onto _ _ pcz' restz' Ep').
          set (X := rev (p0 :: rest) ++ pcz').
          change (rev (map (@rev zpt) (X :: restz'))) with (rev (map (@rev zpt) restz') ++ [rev X]).
          unfold X. rewrite rev_app_distr, rev_involutive. reflexivity. }
        (* the intervals *)
        unfold final_ivs in Hfin. rewrite Fi, E0, Ev in Hfin. cbn [andb] in Hfin.
        destruct (Z.ltb_spec (zb zarr idx - o) L) as [_|]; [|lia].
        assert (Hin_done : forall x, In x (ivs_done zarr o idx0 idx) -> In x (on_intervals zarr o L)).
        { intros x Hx. destruct (0 <? Z.min L (zb zarr (idx0 + 1) - o)).
          - apply (proj1 (rot1_In _ x)). rewrite <- Hfin. apply (proj1 (in_rev _ x)).
            apply in_or_app. right. apply in_or_app. right. exact Hx.
          - rewrite <- Hfin. apply (proj1 (in_rev _ x)). apply in_or_app. right. apply in_or_app. right. exact Hx. }
        assert (Emid : znorm (rev (map (@rev zpt) restz')) =
                       map (map Pf) (map (fun iv => dedup (ppiece vs (fst iv) (snd iv))) (rev (ivs_done zarr o idx0 idx)))).
        { rewrite <- Erest, map_rev_map, <- map_rev.
          rewrite (matches_znorm vs Pf L restp _ Mrest HP).
          - rewrite (matches_normZ vs restp _ Avs Mrest). reflexivity.
          - intros a' b' Hx. apply Hin_done, on_intervals_bounds in Hx. lia. }
        assert (EZ : zdedup (rev pcz' ++ [p0]) = map Pf (dedup (ppiece vs (zb zarr idx - o) L)) /\
                     (2 <= length (zdedup (rev pcz' ++ [p0])))%nat).
        { assert (Ha0 : 0 <= zb zarr idx - o) by lia.
          pose proof (piece_image pc (zb zarr idx - o) L Ppc Ha0 (Z.le_refl _)) as H.
          fold full vs Pf L in H. destruct (Z.ltb_spec (zb zarr idx - o) L); [|lia].
          rewrite map_rev, Epc in H. exact H. }
        destruct EZ as [EZ EZ2].
        rewrite Ezp, znorm_app, Emid, znorm_single, zdedup_join.
        assert (Elen : (2 <=? length (zdedup (rev pcz' ++ [p0]) ++ tl (zdedup (p0 :: rest))))%nat = true).
        { apply Nat.leb_le. rewrite app_length. lia. }
        rewrite Elen, EZ.
        assert (EF : p0 :: rest = map Pf (rev (rev (pa_init pa)))) by (rewrite rev_involutive; exact R2).
        assert (Hb0 : zb zarr (idx0 + 1) - o <= L) by lia.
        pose proof (piece_image (rev (pa_init pa)) 0 (zb zarr (idx0 + 1) - o) N2 (Z.le_refl _) Hb0) as HF.
        fold full vs Pf L in HF. rewrite <- EF in HF.
        assert (NCc : ~ In ZClose (rev (closed_rout zarr ini a))).
        { intros K. rewrite Erc in K. apply in_rev in K. apply in_app_or in K. destruct K as [K|K].
          - apply in_rev in K. exact (no_close_lines _ K).
          - apply NCo. rewrite Eout. right. exact K. }
        destruct (Z.ltb_spec 0 (zb zarr (idx0 + 1) - o)) as [Lt|Ge].
        * destruct HF as [HF _]. rewrite HF.
             replace (Z.min L (zb zarr (idx0 + 1) - o)) with (zb zarr (idx0 + 1) - o) in Hfin by lia.
             destruct (Z.ltb_spec 0 (zb zarr (idx0 + 1) - o)) as [_|]; [|lia].
             cbn [app rev] in Hfin. rewrite <- app_assoc in Hfin. cbn [app] in Hfin.
             assert (Eiv : on_intervals zarr o L = (0, zb zarr (idx0 + 1) - o) :: rev (ivs_done zarr o idx0 idx) ++ [(zb zarr idx - o, L)]).
             { apply rot1_inv. rewrite <- Hfin, <- app_assoc. reflexivity. }
             split; [|split; [exact NCc|intros _ _ _ _; eexists; eexists; eexists; exact Eiv]].
             rewrite Eps, Eiv. cbn [map fst snd]. rewrite !map_app. cbn [map fst snd].
             unfold join_ends. rewrite removelast_last, last_last. reflexivity.
        * destruct (zdedup_head p0 rest) as [d Ed]. rewrite Ed in HF |- *. cbn [length] in HF.
             assert (d = []) by (destruct d; [reflexivity|cbn [length] in HF; lia]). subst d. cbn [tl]. rewrite app_nil_r.
             replace (Z.min L (zb zarr (idx0 + 1) - o)) with (zb zarr (idx0 + 1) - o) in Hfin by lia.
             destruct (Z.ltb_spec 0 (zb zarr (idx0 + 1) - o)) as [|_]; [lia|].
             cbn [app rev] in Hfin. split; [|split; [exact NCc|intros _ H; lia]].
             rewrite Eps, <- Hfin, !map_app. reflexivity.
    - (* the subpath ends in a gap *)
      rewrite R3 in On. assert (Ev : Z.even idx = false) by (rewrite <- S1; exact On).
      assert (Enorm : znorm (zpieces (rev (closed_rout zarr ini a))) = znorm (zpieces (rev (zflush (za_init ao) (za_out ao))))).
      { rewrite Erc, Eout, !zpieces_unrev, !zpieces_rev_flush. cbn [zpieces_rev].
        assert (J : znorm [rev [p0]] = []) by reflexivity.
        destruct (za_init ao) as [|i0 it]; cbn [map]; set (X := map (@rev zpt) (zpieces_rev out')).
        + change (rev (rev [p0] :: X)) with (rev X ++ [rev [p0]]). rewrite znorm_app, J, app_nil_r. reflexivity.
        + set (Rr := rev (rev (i0 :: it))).
          change (rev (Rr :: X)) with (rev X ++ [Rr]).
          change (rev (Rr :: rev [p0] :: X)) with ((rev X ++ [rev [p0]]) ++ [Rr]).
          rewrite !znorm_app, J, app_nil_r. reflexivity. }
      assert (NC : ~ In ZClose (rev (closed_rout zarr ini a))).
      { intros K. apply in_rev in K. rewrite Erc in K. revert K. apply no_close_flush. intros K. apply NCo. rewrite Eout. right. exact K. }
      rewrite Enorm, Eopen.
      destruct (Z.even idx0) eqn:E0; cbn [andb]; [|split; [reflexivity|split; [exact NC|intros H; discriminate H]]].
      assert (Fi : pa_first pa = false).
      { destruct (pa_first pa) eqn:Fi; [|reflexivity]. destruct (F eq_refl) as (F1 & _). fold idx in F1. congruence. }
      destruct (N Fi) as (N1 & _). fold idx in N1. specialize (ST Fi).
      pose proof (zb_mono zarr Hpos1 (idx0 + 1) idx ltac:(lia)) as Mo.
      assert (Ele : (o + L <=? zb zarr (idx0 + 1)) = false) by (apply Z.leb_gt; lia).
      assert (Eoff : pattern_on zarr o (L - 1) = false).
      { unfold pattern_on. rewrite (idx_at_unique zarr Hpos1 (o + (L - 1)) idx) by lia. exact Ev. }
      rewrite Ele, Eoff. split; [|split; [exact NC|intros _ _ _ H; discriminate H]].
      destruct (Z.ltb_spec 0 (zb zarr (idx0 + 1) - o)), (Z.ltb_spec 0 (Z.min L (zb zarr (idx0 + 1) - o))); try reflexivity; lia.
  Qed.
End Core.
Print Assumptions zclosed_core.

(* ================================================================================================================== *)
(* 4. THE DECLARATIVE DESCRIPTION                                                                                     *)
(* the pattern (shifted by o) is on over every unit interval of [0, L] *)
Definition whole_on (zarr : list Z) (o L : Z) : bool :=
  forallb (pattern_on zarr o) (map Z.of_nat (seq 0 (Z.to_nat L))).
Lemma whole_on_spec zarr o L : whole_on zarr o L = true <-> (forall t, 0 <= t < L -> pattern_on zarr o t = true).
Proof.
  unfold whole_on. rewrite forallb_forall. split.
  - intros H t Ht. apply H. apply in_map_iff. exists (Z.to_nat t). split; [lia|]. apply in_seq. lia.
  - intros H t Ht. apply in_map_iff in Ht. destruct Ht as [k [<- Hk]]. apply in_seq in Hk. apply H. lia.
Qed.

(* case (c): the subpath starts inside a dash and the whole closed polyline lies in it *)
Definition closed_whole (zarr : list Z) (o : Z) (p0 : zpt) (pts : list zpt) : bool :=
  starts_in_dash zarr o && whole_on zarr o (plen p0 (pts ++ [p0])).

(* the pieces of the closed subpath  MoveTo p0, LineTo pts.., Close,  from the pattern and the vertex list only:
   ps = the pieces of the 'on' intervals of the closed polyline p0, pts.., p0 (DashSpec.pieces_spec);
   - the subpath does not start inside a dash: ps;
   - it does, and the pattern is on everywhere: the outline p0, pts.. (emitted closed);
   - it does, the pattern is not on everywhere but is on just before the end: ps without its first and last piece,
     followed by  last piece ++ first piece without its first point  (both meet at p0);
   - it does, and the end lies in a gap: ps with the first piece last. *)
Definition closed_pieces_spec (zarr : list Z) (o : Z) (p0 : zpt) (pts : list zpt) : list (list zpt) :=
  let L := plen p0 (pts ++ [p0]) in
  let ps := pieces_spec zarr o p0 (pts ++ [p0]) in
  if starts_in_dash zarr o then
    if whole_on zarr o L then znorm [p0 :: pts]
    else if pattern_on zarr o (L - 1) then join_ends ps
    else rot1 ps
  else ps.

Section Decl.
  Variable zarr : list Z.
  Hypothesis Hne : zarr <> [].
  Hypothesis Hpos : Forall (fun a => 1 <= a) zarr.

  Lemma ztotal_pos_z : 1 <= ztotal zarr.
  Proof.
    pose proof (zsum_le_total zarr Hpos). destruct zarr as [|a t]; [congruence|].
    pose proof (fold_add_In (a :: t) Hpos 0 a (Z.le_refl 0) (or_introl eq_refl)).
    inversion Hpos; subst. lia.
  Qed.

  (* the state the offset loop leaves (DashExact.zdash_initial_spec without the bound on the period) *)
  Lemma zdash_initial_spec_z off :
    let o := off mod ztotal zarr in
    exists idx0, 0 <= idx0 /\ zb zarr idx0 <= o <= zb zarr (idx0 + 1) /\ (idx0 = 0 \/ zb zarr idx0 < o) /\
                 zdash_initial zarr off = initial0 zarr o idx0.
  Proof.
    intros o. pose proof ztotal_pos_z as TP. pose proof (zarr_at_pos zarr Hne Hpos) as Hpos1.
    assert (Bo : 0 <= o < ztotal zarr) by (apply Z.mod_pos_bound; lia).
    unfold zdash_initial. fold o. set (s0 := (o, mk_zds true (zarr_at zarr 0) 0)).
    destruct (zoffset_loop_run zarr Hne Hpos (Z.to_nat o) s0) as [_ R2]; [cbn; apply Hpos1|cbn [s0 fst]; lia|].
    set (Inv := fun s : Z * zds => exists idx, 0 <= idx /\ snd s = mk_zds (Z.even idx) (zarr_at zarr idx) idx /\
                                               fst s = o - zb zarr idx /\ 0 <= fst s /\ (idx = 0 \/ 0 < fst s)).
    assert (I : Inv (zoffset_loop zarr (Z.to_nat o) s0)).
    { apply (zoffset_loop_inv zarr Inv).
      - intros [o1 st1] (idx & I1 & I2 & I3 & I4 & I5) G. cbn [fst snd] in *. subst st1. cbn [zs_rem] in G.
        exists (idx + 1). unfold zoffset_next. cbn [fst snd zs_on zs_rem zs_idx]. rewrite (zb_succ zarr idx I1).
        split; [lia|]. split; [rewrite even_succ_negb; reflexivity|]. lia.
      - exists 0. cbn [s0 fst snd]. rewrite zb_0. split; [lia|]. split; [reflexivity|lia]. }
    destruct (zoffset_loop zarr (Z.to_nat o) s0) as [o' st]. destruct I as (idx & I1 & I2 & I3 & I4 & I5).
    cbn [fst snd] in *. subst st. cbn [zs_rem zs_on zs_idx] in *. exists idx.
    rewrite (zb_succ zarr idx I1). split; [exact I1|]. split; [lia|]. split; [lia|]. unfold initial0. rewrite (zb_succ zarr idx I1).
    f_equal. lia.
  Qed.

  Let Hpos1 := zarr_at_pos zarr Hne Hpos.

  (* the subpath starts inside a dash: the entry it starts in is a dash and has not ended *)
  Lemma start_cond o idx0 : 0 <= idx0 -> zb zarr idx0 <= o <= zb zarr (idx0 + 1) -> (idx0 = 0 \/ zb zarr idx0 < o) ->
    Z.even idx0 && (0 <? zb zarr (idx0 + 1) - o) = starts_in_dash zarr o.
  Proof.
    intros I0 Ho Hs. unfold starts_in_dash, pattern_on. rewrite Z.add_0_r.
    pose proof (zb_step zarr Hpos1 idx0 I0) as S0.
    destruct (Z.ltb_spec 0 (zb zarr (idx0 + 1) - o)) as [Lt|Ge].
    - rewrite andb_true_r. rewrite (idx_at_unique zarr Hpos1 o idx0 I0) by lia.
      destruct (Z.even idx0) eqn:Ev; [|reflexivity]. cbn [andb].
      destruct Hs as [->|Hs].
      + rewrite zb_0 in *. destruct (Z.eqb_spec o 0) as [|NE]; [reflexivity|]. cbn [orb].
        rewrite (idx_at_unique zarr Hpos1 (o + -1) 0); [reflexivity|lia|rewrite zb_0; lia].
      + rewrite (idx_at_unique zarr Hpos1 (o + -1) idx0 I0) by lia. rewrite Ev, orb_true_r. reflexivity.
    - rewrite andb_false_r. assert (Eo : o = zb zarr (idx0 + 1)) by lia.
      pose proof (zb_step zarr Hpos1 (idx0 + 1) ltac:(lia)) as S1.
      rewrite (idx_at_unique zarr Hpos1 o (idx0 + 1)) by lia. rewrite even_succ_negb.
      destruct (Z.even idx0) eqn:Ev; [reflexivity|]. cbn [negb andb].
      pose proof (zb_nonneg zarr Hpos1 idx0).
      destruct (Z.eqb_spec o 0) as [|NE]; [lia|]. cbn [orb].
      rewrite (idx_at_unique zarr Hpos1 (o + -1) idx0 I0) by lia. rewrite Ev. reflexivity.
  Qed.

  (* inside the dash it starts in, the subpath is on everywhere iff it ends before that dash does *)
  Lemma whole_cond o idx0 L : 0 <= idx0 -> zb zarr idx0 <= o -> Z.even idx0 = true -> 0 < zb zarr (idx0 + 1) - o ->
    (o + L <=? zb zarr (idx0 + 1)) = whole_on zarr o L.
  Proof.
    intros I0 Ho Ev Lt. destruct (Z.leb_spec (o + L) (zb zarr (idx0 + 1))) as [Le|Gt]; symmetry.
    - apply whole_on_spec. intros t Ht. unfold pattern_on. rewrite (idx_at_unique zarr Hpos1 (o + t) idx0) by lia. exact Ev.
    - apply not_true_is_false. intros W. rewrite whole_on_spec in W.
      specialize (W (zb zarr (idx0 + 1) - o) ltac:(lia)). unfold pattern_on in W.
      pose proof (zb_step zarr Hpos1 (idx0 + 1) ltac:(lia)) as S1.
      rewrite (idx_at_unique zarr Hpos1 _ (idx0 + 1)) in W by lia. rewrite even_succ_negb, Ev in W. discriminate W.
  Qed.

  (* THE INTEGER DASHER ON A CLOSED SUBPATH (no floating point: closed under the global context) *)
  Theorem zdash_closed_spec p0 pts off :
    poly_axis p0 (pts ++ [p0]) ->
    let o := off mod ztotal zarr in
    let zc := zdash_path zarr (ZMove p0 :: map ZLine pts ++ [ZClose]) off in
    znorm (zpieces zc) = closed_pieces_spec zarr o p0 pts /\
    (closed_whole zarr o p0 pts = true -> zc = ZMove p0 :: map ZLine (zseg_pairs p0 pts) ++ [ZClose]) /\
    (closed_whole zarr o p0 pts = false -> 0 < plen p0 (pts ++ [p0]) -> ~ In ZClose zc) /\
    (starts_in_dash zarr o = true -> whole_on zarr o (plen p0 (pts ++ [p0])) = false ->
     pattern_on zarr o (plen p0 (pts ++ [p0]) - 1) = true ->
     exists b mid a, on_intervals zarr o (plen p0 (pts ++ [p0])) = (0, b) :: mid ++ [(a, plen p0 (pts ++ [p0]))]).
  Proof.
    intros Hax o zc. unfold zc, zdash_path.
    destruct (zdash_initial_spec_z off) as (idx0 & I0 & Ho & Hs & Ei). fold o in Ho, Hs, Ei. rewrite Ei.
    destruct (zclosed_core zarr Hpos1 o idx0 I0 Ho p0 pts Hax) as (C1 & C2 & C3).
    pose proof (start_cond o idx0 I0 Ho Hs) as Es.
    set (L := plen p0 (pts ++ [p0])) in *.
    unfold closed_pieces_spec, closed_whole. fold L. rewrite <- Es.
    destruct (Z.even idx0) eqn:Ev; cbn [andb] in *.
    - destruct (Z.ltb_spec 0 (zb zarr (idx0 + 1) - o)) as [Lt|Ge].
      + rewrite <- (whole_cond o idx0 L I0 (proj1 Ho) Ev Lt).
        split; [exact C1|]. destruct (Z.leb_spec (o + L) (zb zarr (idx0 + 1))) as [Le|Gt].
        * split; [intros _; exact C2|]. split; [discriminate|]. discriminate.
        * split; [discriminate|]. split; [intros _ _; exact C2|]. intros _ _ Hon. apply C3; [reflexivity|exact Lt|exact Gt|exact Hon].
      + split; [exact C1|]. split; [discriminate|]. split; [|discriminate].
        intros _ HL. destruct (Z.leb_spec (o + L) (zb zarr (idx0 + 1))); [lia|exact C2].
    - split; [exact C1|]. split; [discriminate|]. split; [intros _ _; exact C2|discriminate].
  Qed.
End Decl.
Print Assumptions zdash_closed_spec.

(* ================================================================================================================== *)
(* 5. THE BINARY32 MODEL (PathOps.dash_path) ON A CLOSED SUBPATH                                                      *)
Lemma dedup_last l x : exists e, dedup (l ++ [x]) = e ++ [x].
Proof.
  induction l as [|y t IH]; [exists []; reflexivity|]. cbn [app dedup]. destruct IH as [e E]. rewrite E.
  destruct (e ++ [x]) as [|z d] eqn:Ee; [destruct e; discriminate|].
  destruct (y =? z); [exists e; symmetry; exact Ee|]. exists (y :: e). cbn [app]. rewrite Ee. reflexivity.
Qed.
Lemma point_at_total done cur : point_at cur done (plen cur done) = last done cur.
Proof.
  pose proof (point_at_app done cur [] (plen cur done) (Z.le_refl _)) as H. rewrite app_nil_r in H. exact H.
Qed.
Lemma in_close_eop zc : In Close (map eop zc) -> In ZClose zc.
Proof. intros H. apply in_map_iff in H. destruct H as [[p|p|] [E H]]; [discriminate|discriminate|exact H]. Qed.

Section ClosedF32.
  Variable zarr : list Z.
  Hypothesis Hne : zarr <> [].
  Hypothesis Hpos : Forall (fun a => 1 <= a) zarr.
  Hypothesis Htot : ztotal zarr <= i24.

  (* MAIN THEOREM.  On the sub-domain D of DashExact.v (integer vertices within +-2048, every segment - the closing one
     included - horizontal, vertical or null, integer pattern with period <= 2^24, integer offset), dash_path on the
     closed subpath  MoveTo p0, LineTo pts.., Close  succeeds with the embedding of an integer op list zc whose pieces,
     once repeated points are merged and pieces without extent dropped, are closed_pieces_spec; and zc is the closed
     outline  MoveTo p0, LineTo buf.., Close  (buf = the vertices pts up to repetitions) exactly in case (c):
     the subpath starts inside a dash and the pattern is on over the whole length. *)
  Theorem dash_closed_subpath_spec p0 pts w off :
    Z.abs off <= i24 -> off mod ztotal zarr <= 131071 ->
    pt_ok p0 -> Forall pt_ok pts -> poly_axis p0 (pts ++ [p0]) ->
    let o := off mod ztotal zarr in
    exists zc,
      dash_path (map of_int zarr) (mk_path (MoveTo (ept p0) :: map LineTo (map ept pts) ++ [Close]) w) (of_int off) =
        Ok (mk_path (map eop zc) NonZero) /\
      znorm (zpieces zc) = closed_pieces_spec zarr o p0 pts /\
      (closed_whole zarr o p0 pts = true -> zc = ZMove p0 :: map ZLine (zseg_pairs p0 pts) ++ [ZClose]) /\
      (closed_whole zarr o p0 pts = false -> 0 < plen p0 (pts ++ [p0]) -> ~ In ZClose zc).
  Proof.
    intros Hoff Hf H0 Hp Ha o.
    exists (zdash_path zarr (ZMove p0 :: map ZLine pts ++ [ZClose]) off).
    destruct (zdash_closed_spec zarr Hne Hpos p0 pts off Ha) as (C1 & C2 & C3 & _).
    split; [|split; [exact C1|split; [exact C2|exact C3]]].
    rewrite <- (dash_path_int zarr Hne Hpos Htot _ w off Hoff Hf (zops_ok_closed p0 pts H0 Hp Ha)).
    cbn [map eop]. rewrite map_app, !map_map. reflexivity.
  Qed.

  (* C09, "a pattern that is 'on' over the whole subpath giving the complete closed outline" *)
  Corollary closed_whole_on_gives_closed_outline p0 pts w off :
    Z.abs off <= i24 -> off mod ztotal zarr <= 131071 ->
    pt_ok p0 -> Forall pt_ok pts -> poly_axis p0 (pts ++ [p0]) ->
    let o := off mod ztotal zarr in
    starts_in_dash zarr o = true ->
    (forall t, 0 <= t < plen p0 (pts ++ [p0]) -> pattern_on zarr o t = true) ->
    dash_path (map of_int zarr) (mk_path (MoveTo (ept p0) :: map LineTo (map ept pts) ++ [Close]) w) (of_int off) =
      Ok (mk_path (closed_on_result (ept p0) (map ept pts)) NonZero).
  Proof.
    intros Hoff Hf H0 Hp Ha o Hs Hw.
    destruct (dash_closed_subpath_spec p0 pts w off Hoff Hf H0 Hp Ha) as (zc & E1 & _ & E3 & _). fold o in E3.
    rewrite E1, E3.
    - unfold closed_on_result. cbn [map eop]. rewrite map_app, map_eop_ZLine, ept_seg_pairs. reflexivity.
    - unfold closed_whole. rewrite Hs. cbn [andb]. apply whole_on_spec. exact Hw.
  Qed.

  (* ... and only then (when the closed polyline has positive length) *)
  Corollary closed_outline_iff_whole_on p0 pts w off out :
    Z.abs off <= i24 -> off mod ztotal zarr <= 131071 ->
    pt_ok p0 -> Forall pt_ok pts -> poly_axis p0 (pts ++ [p0]) -> 0 < plen p0 (pts ++ [p0]) ->
    let o := off mod ztotal zarr in
    dash_path (map of_int zarr) (mk_path (MoveTo (ept p0) :: map LineTo (map ept pts) ++ [Close]) w) (of_int off) = Ok out ->
    (In Close (p_ops out) <->
     starts_in_dash zarr o = true /\ forall t, 0 <= t < plen p0 (pts ++ [p0]) -> pattern_on zarr o t = true).
  Proof.
    intros Hoff Hf H0 Hp Ha HL o Eout.
    destruct (dash_closed_subpath_spec p0 pts w off Hoff Hf H0 Hp Ha) as (zc & E1 & _ & E3 & E4). fold o in E3, E4.
    rewrite E1 in Eout. inversion Eout; subst out. cbn [p_ops]. unfold closed_whole in E3, E4.
    split.
    - intros K. apply in_close_eop in K.
      destruct (starts_in_dash zarr o && whole_on zarr o (plen p0 (pts ++ [p0]))) eqn:Ew.
      + apply andb_true_iff in Ew. destruct Ew as [Es Ew]. split; [exact Es|]. apply whole_on_spec. exact Ew.
      + exfalso. exact (E4 eq_refl HL K).
    - intros [Hs Hw]. assert (Ez := E3). rewrite Hs in Ez. cbn [andb] in Ez.
      specialize (Ez (proj2 (whole_on_spec _ _ _) Hw)).
      rewrite Ez. cbn [map]. right. rewrite map_app. apply in_or_app. right. left. reflexivity.
  Qed.

  (* C09, "on a closed subpath a piece reaching the end is joined to a piece starting at the beginning": when the
     subpath starts inside a dash, the pattern is not on everywhere, and it is on just before the end, the declared
     pieces of the closed polyline p0, pts.., p0 begin with a piece  p0 :: s  (starting at the beginning) and end with a
     piece  e ++ [p0]  (reaching the end); the model emits the pieces in between unchanged, followed by the ONE piece
     e ++ p0 :: s. *)
  Corollary closed_end_piece_joined_to_start_piece p0 pts w off :
    Z.abs off <= i24 -> off mod ztotal zarr <= 131071 ->
    pt_ok p0 -> Forall pt_ok pts -> poly_axis p0 (pts ++ [p0]) ->
    let o := off mod ztotal zarr in
    let L := plen p0 (pts ++ [p0]) in
    starts_in_dash zarr o = true ->
    (exists t, 0 <= t < L /\ pattern_on zarr o t = false) ->
    pattern_on zarr o (L - 1) = true ->
    exists zc s mid e,
      dash_path (map of_int zarr) (mk_path (MoveTo (ept p0) :: map LineTo (map ept pts) ++ [Close]) w) (of_int off) =
        Ok (mk_path (map eop zc) NonZero) /\
      pieces_spec zarr o p0 (pts ++ [p0]) = (p0 :: s) :: mid ++ [e ++ [p0]] /\
      znorm (zpieces zc) = mid ++ [e ++ p0 :: s].
  Proof.
    intros Hoff Hf H0 Hp Ha o L Hs (t & Ht & Hoff_t) Hon.
    assert (Ew : whole_on zarr o L = false).
    { apply not_true_is_false. intros W. rewrite whole_on_spec in W. rewrite (W t Ht) in Hoff_t. discriminate. }
    destruct (dash_closed_subpath_spec p0 pts w off Hoff Hf H0 Hp Ha) as (zc & E1 & E2 & _). fold o in E2.
    destruct (zdash_closed_spec zarr Hne Hpos p0 pts off Ha) as (_ & _ & _ & C4). fold o L in C4.
    destruct (C4 Hs Ew Hon) as (b & midI & a & Eiv).
    unfold closed_pieces_spec in E2. fold L in E2. rewrite Hs, Ew, Hon in E2.
    set (vs := cum 0 (seglens p0 (pts ++ [p0]))). set (Pf := point_at p0 (pts ++ [p0])).
    assert (Eps : pieces_spec zarr o p0 (pts ++ [p0]) =
                  map (map Pf) (map (fun iv => dedup (ppiece vs (fst iv) (snd iv))) (on_intervals zarr o L))) by reflexivity.
    rewrite Eiv in Eps. cbn [map fst snd] in Eps. rewrite !map_app in Eps. cbn [map fst snd] in Eps.
    destruct (dedup_head 0 (filter (fun x => (0 <? x) && (x <? b)) vs ++ [b])) as [s' Es'].
    change (dedup (ppiece vs 0 b)) with (dedup (0 :: filter (fun x => (0 <? x) && (x <? b)) vs ++ [b])) in Eps.
    rewrite Es' in Eps.
    destruct (dedup_last (a :: filter (fun x => (a <? x) && (x <? L)) vs) L) as [e' Ee'].
    change (dedup (ppiece vs a L)) with (dedup ((a :: filter (fun x => (a <? x) && (x <? L)) vs) ++ [L])) in Eps.
    rewrite Ee' in Eps. cbn [map] in Eps. rewrite map_app in Eps. cbn [map] in Eps.
    assert (EP0 : Pf 0 = p0) by apply point_at_0.
    assert (EPL : Pf L = p0) by (unfold Pf, L; rewrite point_at_total; apply last_last).
    rewrite EP0, EPL in Eps.
    exists zc, (map Pf s'), (map (map Pf) (map (fun iv => dedup (ppiece vs (fst iv) (snd iv))) midI)), (map Pf e').
    split; [exact E1|]. split; [exact Eps|].
    rewrite E2, Eps. unfold join_ends. rewrite removelast_last, last_last. cbn [tl]. rewrite <- app_assoc. reflexivity.
  Qed.

  (* otherwise - the subpath does not start inside a dash, or its end lies in a gap - the pieces are those of the open
     polyline  MoveTo p0, LineTo pts.., LineTo p0  (DashExact.dash_open_polyline_spec), nothing is joined *)
  Corollary closed_otherwise_pieces_of_open_polyline p0 pts w off :
    Z.abs off <= i24 -> off mod ztotal zarr <= 131071 ->
    pt_ok p0 -> Forall pt_ok pts -> poly_axis p0 (pts ++ [p0]) ->
    let o := off mod ztotal zarr in
    let L := plen p0 (pts ++ [p0]) in
    starts_in_dash zarr o = false \/ (whole_on zarr o L = false /\ pattern_on zarr o (L - 1) = false) ->
    exists zc,
      dash_path (map of_int zarr) (mk_path (MoveTo (ept p0) :: map LineTo (map ept pts) ++ [Close]) w) (of_int off) =
        Ok (mk_path (map eop zc) NonZero) /\
      znorm (zpieces zc) = if starts_in_dash zarr o then rot1 (pieces_spec zarr o p0 (pts ++ [p0]))
                           else pieces_spec zarr o p0 (pts ++ [p0]).
  Proof.
    intros Hoff Hf H0 Hp Ha o L Hc.
    destruct (dash_closed_subpath_spec p0 pts w off Hoff Hf H0 Hp Ha) as (zc & E1 & E2 & _). fold o in E2.
    exists zc. split; [exact E1|]. rewrite E2. unfold closed_pieces_spec. fold L.
    destruct Hc as [Hs|[Hw Hoffe]]; [rewrite Hs; reflexivity|]. rewrite Hw, Hoffe. reflexivity.
  Qed.
End ClosedF32.
Print Assumptions dash_closed_subpath_spec.
Print Assumptions closed_otherwise_pieces_of_open_polyline.
Print Assumptions closed_whole_on_gives_closed_outline.
Print Assumptions closed_outline_iff_whole_on.
Print Assumptions closed_end_piece_joined_to_start_piece.

(* ================================================================================================================== *)
(* 6. EXAMPLES (vm_compute): the 10 x 10 square (0,0) (10,0) (10,10) (0,10) closed with Close, L = 40                 *)
Module DashClosedExamples.
  Import DashExactExamples.
  Definition sq3 : list zpt := [(10, 0); (10, 10); (0, 10)].
  Definition zclosed (zarr : list Z) (off : Z) : list zop := zdash_path zarr (ZMove (0, 0) :: map ZLine sq3 ++ [ZClose]) off.
  Definition fclosed : path := mk_path (MoveTo (ept (0, 0)) :: map LineTo (map ept sq3) ++ [Close]) NonZero.
  (* (starts inside a dash, on everywhere, on just before L) *)
  Definition conds (zarr : list Z) (o : Z) : bool * bool * bool :=
    (starts_in_dash zarr o, whole_on zarr o (plen (0, 0) (sq3 ++ [(0, 0)])), pattern_on zarr o (plen (0, 0) (sq3 ++ [(0, 0)]) - 1)).

  Lemma sq_axis : poly_axis (0, 0) (sq3 ++ [(0, 0)]).
  Proof. cbn. unfold axis. cbn. tauto. Qed.

  (* [1000]: one dash covers the square - case (c), the closed outline *)
  Example sq_1000 :
    conds [1000] 0 = (true, true, true) /\
    zclosed [1000] 0 = [ZMove (0, 0); ZLine (0, 0); ZLine (10, 0); ZLine (10, 0); ZLine (10, 10); ZLine (10, 10); ZLine (0, 10); ZClose] /\
    closed_pieces_spec [1000] 0 (0, 0) sq3 = [[(0, 0); (10, 0); (10, 10); (0, 10)]].
  Proof. vm_compute. auto. Qed.
  Example sq_1000_theorem :
    dash_path (map of_int [1000]) fclosed f0 =
    Ok (mk_path (map eop [ZMove (0, 0); ZLine (0, 0); ZLine (10, 0); ZLine (10, 0); ZLine (10, 10); ZLine (10, 10);
                          ZLine (0, 10); ZClose]) NonZero).
  Proof.
    destruct (hyps_ok [1000] (0, 0) sq3 eq_refl) as (H1 & H2 & H3 & H4 & H5).
    assert (W : forall t, 0 <= t < plen (0, 0) (sq3 ++ [(0, 0)]) -> pattern_on [1000] (0 mod ztotal [1000]) t = true).
    { apply whole_on_spec. vm_compute. reflexivity. }
    exact (closed_whole_on_gives_closed_outline [1000] H1 H2 H3 (0, 0) sq3 NonZero 0 ltac:(unfold i24; lia)
             ltac:(vm_compute; intros H; discriminate H) H4 H5 sq_axis eq_refl W).
  Qed.
  (* [40; 5]: the dash ends exactly at L - still case (c) *)
  Example sq_40_5 :
    conds [40; 5] 0 = (true, true, true) /\
    zclosed [40; 5] 0 = [ZMove (0, 0); ZLine (0, 0); ZLine (10, 0); ZLine (10, 0); ZLine (10, 10); ZLine (10, 10); ZLine (0, 10); ZClose].
  Proof. vm_compute. auto. Qed.
  (* [5; 5; 100; 5] offset 10: on everywhere, but the dash BEGINS exactly at the start of the subpath: nothing is
     buffered, the outline is emitted open (MoveTo .. LineTo p0, no Close) - not case (c) *)
  Example sq_dash_begins_at_start :
    conds [5; 5; 100; 5] 10 = (false, true, true) /\
    zclosed [5; 5; 100; 5] 10 = [ZMove (0, 0); ZMove (0, 0); ZLine (10, 0); ZLine (10, 10); ZLine (0, 10); ZLine (0, 0)] /\
    closed_pieces_spec [5; 5; 100; 5] 10 (0, 0) sq3 = [[(0, 0); (10, 0); (10, 10); (0, 10); (0, 0)]].
  Proof. vm_compute. auto. Qed.

  (* [7; 4]: on [0,7] [11,18] [22,29] [33,40] - the last dash ends exactly at L: case (b), the piece (0,7)-(0,0) reaching
     the end and the piece (0,0)-(7,0) at the start are one piece *)
  Example sq_7_4 :
    conds [7; 4] 0 = (true, false, true) /\
    pieces_spec [7; 4] 0 (0, 0) (sq3 ++ [(0, 0)]) = [[(0, 0); (7, 0)]; [(10, 1); (10, 8)]; [(8, 10); (1, 10)]; [(0, 7); (0, 0)]] /\
    closed_pieces_spec [7; 4] 0 (0, 0) sq3 = [[(10, 1); (10, 8)]; [(8, 10); (1, 10)]; [(0, 7); (0, 0); (7, 0)]] /\
    znorm (zpieces (zclosed [7; 4] 0)) = closed_pieces_spec [7; 4] 0 (0, 0) sq3.
  Proof. vm_compute. auto. Qed.
  Example sq_7_4_theorem : exists zc,
    dash_path (map of_int [7; 4]) fclosed f0 = Ok (mk_path (map eop zc) NonZero) /\
    znorm (zpieces zc) = [[(10, 1); (10, 8)]; [(8, 10); (1, 10)]; [(0, 7); (0, 0); (7, 0)]] /\ ~ In ZClose zc.
  Proof.
    destruct (hyps_ok [7; 4] (0, 0) sq3 eq_refl) as (H1 & H2 & H3 & H4 & H5).
    destruct (dash_closed_subpath_spec [7; 4] H1 H2 H3 (0, 0) sq3 NonZero 0 ltac:(unfold i24; lia)
                ltac:(vm_compute; intros H; discriminate H) H4 H5 sq_axis) as (zc & E1 & E2 & _ & E4).
    exists zc. split; [exact E1|]. split; [rewrite E2; vm_compute; reflexivity|].
    apply E4; [vm_compute; reflexivity|vm_compute; reflexivity].
  Qed.
  (* [7; 3] offset 0: on [0,7] [10,17] [20,27] [30,37], the end lies in the gap [37,40]: case (a), the pieces of the open
     polyline, the one the subpath starts in last *)
  Example sq_7_3 :
    conds [7; 3] 0 = (true, false, false) /\
    closed_pieces_spec [7; 3] 0 (0, 0) sq3 = [[(10, 0); (10, 7)]; [(10, 10); (3, 10)]; [(0, 10); (0, 3)]; [(0, 0); (7, 0)]] /\
    znorm (zpieces (zclosed [7; 3] 0)) = closed_pieces_spec [7; 3] 0 (0, 0) sq3.
  Proof. vm_compute. auto. Qed.
  (* [7; 3] offset 5: on [0,2] [5,12] [15,22] [25,32] [35,40]: case (b), the piece across the start (0,5)-(0,0)-(2,0) *)
  Example sq_7_3_offset5 :
    conds [7; 3] 5 = (true, false, true) /\
    closed_pieces_spec [7; 3] 5 (0, 0) sq3 =
      [[(5, 0); (10, 0); (10, 2)]; [(10, 5); (10, 10); (8, 10)]; [(5, 10); (0, 10); (0, 8)]; [(0, 5); (0, 0); (2, 0)]] /\
    znorm (zpieces (zclosed [7; 3] 5)) = closed_pieces_spec [7; 3] 5 (0, 0) sq3.
  Proof. vm_compute. auto. Qed.
  Example sq_7_3_offset5_theorem : exists zc s mid e,
    dash_path (map of_int [7; 3]) fclosed (of_int 5) = Ok (mk_path (map eop zc) NonZero) /\
    pieces_spec [7; 3] 5 (0, 0) (sq3 ++ [(0, 0)]) = ((0, 0) :: s) :: mid ++ [e ++ [(0, 0)]] /\
    znorm (zpieces zc) = mid ++ [e ++ (0, 0) :: s].
  Proof.
    destruct (hyps_ok [7; 3] (0, 0) sq3 eq_refl) as (H1 & H2 & H3 & H4 & H5).
    apply (closed_end_piece_joined_to_start_piece [7; 3] H1 H2 H3 (0, 0) sq3 NonZero 5 ltac:(unfold i24; lia)
             ltac:(vm_compute; intros H; discriminate H) H4 H5 sq_axis).
    - vm_compute. reflexivity.
    - exists 2. split; [vm_compute; split; [intros H; discriminate H|reflexivity]|vm_compute; reflexivity].
    - vm_compute. reflexivity.
  Qed.
  (* [5; 5] offset 0: on [0,5] [10,15] [20,25] [30,35]; the GAP ends exactly at L: case (a) with rotation *)
  Example sq_5_5 :
    conds [5; 5] 0 = (true, false, false) /\
    closed_pieces_spec [5; 5] 0 (0, 0) sq3 = [[(10, 0); (10, 5)]; [(10, 10); (5, 10)]; [(0, 10); (0, 5)]; [(0, 0); (5, 0)]] /\
    znorm (zpieces (zclosed [5; 5] 0)) = closed_pieces_spec [5; 5] 0 (0, 0) sq3.
  Proof. vm_compute. auto. Qed.
  (* [5; 5] offset 5: a dash ENDS exactly at the start of the subpath and another ends exactly at L: the subpath does not
     start inside a dash, nothing is joined - case (a) without rotation *)
  Example sq_5_5_offset5 :
    conds [5; 5] 5 = (false, false, true) /\
    closed_pieces_spec [5; 5] 5 (0, 0) sq3 = [[(5, 0); (10, 0)]; [(10, 5); (10, 10)]; [(5, 10); (0, 10)]; [(0, 5); (0, 0)]] /\
    znorm (zpieces (zclosed [5; 5] 5)) = closed_pieces_spec [5; 5] 5 (0, 0) sq3.
  Proof. vm_compute. auto. Qed.
  (* [3; 2] offset 4: the subpath starts in a gap - case (a) without rotation; offset 1: case (b) *)
  Example sq_3_2_offset4 :
    conds [3; 2] 4 = (false, false, false) /\
    closed_pieces_spec [3; 2] 4 (0, 0) sq3 =
      [[(1, 0); (4, 0)]; [(6, 0); (9, 0)]; [(10, 1); (10, 4)]; [(10, 6); (10, 9)]; [(9, 10); (6, 10)]; [(4, 10); (1, 10)];
       [(0, 9); (0, 6)]; [(0, 4); (0, 1)]] /\
    znorm (zpieces (zclosed [3; 2] 4)) = closed_pieces_spec [3; 2] 4 (0, 0) sq3.
  Proof. vm_compute. auto. Qed.
  Example sq_3_2_offset1 :
    conds [3; 2] 1 = (true, false, true) /\
    closed_pieces_spec [3; 2] 1 (0, 0) sq3 =
      [[(4, 0); (7, 0)]; [(9, 0); (10, 0); (10, 2)]; [(10, 4); (10, 7)]; [(10, 9); (10, 10); (8, 10)]; [(6, 10); (3, 10)];
       [(1, 10); (0, 10); (0, 8)]; [(0, 6); (0, 3)]; [(0, 1); (0, 0); (2, 0)]] /\
    znorm (zpieces (zclosed [3; 2] 1)) = closed_pieces_spec [3; 2] 1 (0, 0) sq3.
  Proof. vm_compute. auto. Qed.
End DashClosedExamples.
