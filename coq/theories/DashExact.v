(* C09 on the integer axis-aligned sub-domain D: every binary32 operation of PathOps.dash_path is exact there, so the
   model is (the embedding of) an integer dasher, and the integer dasher paints exactly the 'on' intervals of the
   pattern along arc length.
   D: vertices with integer coordinates within +-2048; every segment (closing segments included) horizontal, vertical
   or of length 0; dash array of integers >= 1 whose period (the sum, twice for an odd array) is at most 2^24; integer
   offset within +-2^24 with (offset mod period) <= 131071 (the fuel of the offset loop).
   Files: DashZ.v (the integer transcription zdash_path of dash_path), DashPos.v (along one polyline the integer dasher
   is the image, under the arc-length parametrisation point_at, of a dasher pdash on arc-length positions), DashSpec.v
   (pdash against the declarative description: pattern_on, on_intervals, ppiece), DashClosed.v (Close against
   LineTo start), this file (binary32 exactness, the simulation, the theorems about PathOps.dash_path).
   Main theorems here: dash_path_int (model = integer dasher on every well-formed integer path), dash_segment_exact,
   dash_open_polyline_spec (and _exact / _pieces variants), dash_closed_subpath_exact. *)
From Coq Require Import ZArith Reals Lra Lia List Bool.
From Flocq Require Import Core IEEE754.BinarySingleNaN IEEE754.Binary IEEE754.Bits.
Import Flocq.IEEE754.Binary.
Require Import RQ.Base RQ.F32 RQ.Raster RQ.PathF RQ.PathOps RQ.DashProofs RQ.DashShape RQ.GridProofs RQ.ContainsF32.
Import ListNotations.
Open Scope Z_scope.

(* ================================================================================================================== *)
(* 1. binary32 values that are integers                                                                               *)

(* x is a finite float whose value is the integer n *)
Definition fint (x : f32) (n : Z) : Prop := is_finite 24 128 x = true /\ B2R 24 128 x = IZR n.

Lemma F2R_int n : F2R (Float radix2 n 0) = IZR n.
Proof. unfold F2R. cbn [Fnum Fexp bpow]. ring. Qed.

Lemma fint_frep x n : fint x n <-> frep x n 0.
Proof. unfold fint, frep. rewrite F2R_int. tauto. Qed.

Lemma fint_fquarter x n : fint x n <-> fquarter x (4 * n).
Proof.
  unfold fint, fquarter. rewrite mult_IZR.
  split; intros [F V]; (split; [exact F|]); [rewrite V; field|rewrite V; field].
Qed.

Definition i24 : Z := 16777216.
Lemma i24_pow : i24 = 2 ^ 24. Proof. reflexivity. Qed.

(* the sign bit of a finite float with a nonzero integer value *)
Lemma fint_sign x n : fint x n -> n <> 0 -> Bsign 24 128 x = (n <? 0).
Proof.
  intros [F V] Hn. destruct x as [s|s|s pl e|s m e Hb]; try discriminate.
  - cbn [B2R] in V. apply eq_IZR in V. congruence.
  - cbn [B2R Bsign] in *. destruct s; cbn [cond_Zopp] in V.
    + assert (H : (IZR n < 0)%R) by (rewrite <- V; apply F2R_lt_0; cbn [Fnum]; lia).
      apply lt_IZR in H. symmetry. apply Z.ltb_lt. exact H.
    + assert (H : (0 < IZR n)%R) by (rewrite <- V; apply F2R_gt_0; cbn [Fnum]; lia).
      apply lt_IZR in H. symmetry. apply Z.ltb_ge. lia.
Qed.

Lemma of_int_correct n : Z.abs n <= i24 -> fint (of_int n) n /\ Bsign 24 128 (of_int n) = (n <? 0).
Proof.
  intros Hn. unfold of_int.
  pose proof (binary_normalize_correct 24 128 prec32 emax32 mode_NE n 0 false) as H.
  assert (E1 : -149 <= 0) by lia. assert (E2 : 0 <= 0) by lia.
  rewrite (round_generic radix2 _ (round_mode mode_NE) _ (small_format n 0 Hn E1)) in H.
  rewrite (Rlt_bool_true _ _ (small_lt_emax n 0 (Z.le_trans _ _ _ Hn p24_26) E2)) in H.
  destruct H as (H1 & H2 & H3). rewrite F2R_int in H1, H3. split; [split; assumption|].
  rewrite H3. destruct (Z.compare_spec n 0) as [E|L|G].
  - subst n. rewrite Rcompare_Eq by reflexivity. reflexivity.
  - rewrite Rcompare_Lt by (apply IZR_lt; exact L). symmetry. apply Z.ltb_lt. exact L.
  - rewrite Rcompare_Gt by (apply IZR_lt; exact G). symmetry. apply Z.ltb_ge. lia.
Qed.

Lemma of_int_fint n : Z.abs n <= i24 -> fint (of_int n) n.
Proof. intros H. apply of_int_correct, H. Qed.

(* a float with integer value n and the sign bit of n is of_int n: floats are canonical *)
Lemma fint_canon x n : Z.abs n <= i24 -> fint x n -> Bsign 24 128 x = (n <? 0) -> x = of_int n.
Proof.
  intros Hn [F V] S. destruct (of_int_correct n Hn) as [[F' V'] S'].
  apply B2R_Bsign_inj; [assumption|assumption|congruence|congruence].
Qed.
Lemma fint_canon_nz x n : Z.abs n <= i24 -> fint x n -> n <> 0 -> x = of_int n.
Proof. intros Hn H Hz. apply fint_canon; [assumption|assumption|]. apply fint_sign; assumption. Qed.

Lemma Rcompare_IZR0 n : Rcompare (IZR n) 0 = (n ?= 0).
Proof. apply (Rcompare_IZR n 0). Qed.

(* sum: canonical + any float with an integer value *)
Lemma fadd_int_val a y n : Z.abs a <= i24 -> Z.abs (a + n) <= i24 -> fint y n ->
  fadd (of_int a) y = of_int (a + n).
Proof.
  intros Ha Hs Hy. destruct (of_int_correct a Ha) as [[Fa Va] Sa]. pose proof Hy as [Fy Vy].
  pose proof (Bplus_correct 24 128 eq_refl eq_refl binop_nan_pl32 mode_NE (of_int a) y Fa Fy) as H.
  assert (E : (B2R 24 128 (of_int a) + B2R 24 128 y)%R = F2R (Float radix2 (a + n) 0)).
  { rewrite Va, Vy, F2R_int, plus_IZR. reflexivity. }
  rewrite E in H. assert (E1 : -149 <= 0) by lia. assert (E2 : 0 <= 0) by lia.
  rewrite (round_generic radix2 _ (round_mode mode_NE) _ (small_format _ 0 Hs E1)) in H.
  rewrite (Rlt_bool_true _ _ (small_lt_emax _ 0 (Z.le_trans _ _ _ Hs p24_26) E2)) in H.
  destruct H as (H1 & H2 & H3). rewrite F2R_int in H1, H3.
  apply fint_canon; [exact Hs|split; assumption|].
  unfold fadd, b32_plus. cbv zeta. rewrite H3, Rcompare_IZR0.
  destruct (Z.compare_spec (a + n) 0) as [E0|L|G].
  - rewrite Sa. replace (a + n <? 0) with false by (symmetry; apply Z.ltb_ge; lia).
    destruct (Z.eq_dec n 0) as [Z0|NZ].
    + replace (a <? 0) with false by (symmetry; apply Z.ltb_ge; lia). reflexivity.
    + rewrite (fint_sign y n Hy NZ). destruct (Z.ltb_spec a 0), (Z.ltb_spec n 0); try reflexivity; lia.
  - symmetry. apply Z.ltb_lt. exact L.
  - symmetry. apply Z.ltb_ge. lia.
Qed.

Lemma fadd_int a b : Z.abs a <= i24 -> Z.abs b <= i24 -> Z.abs (a + b) <= i24 ->
  fadd (of_int a) (of_int b) = of_int (a + b).
Proof. intros Ha Hb Hs. apply fadd_int_val; [assumption|assumption|apply of_int_fint; assumption]. Qed.

Lemma fsub_int a b : Z.abs a <= i24 -> Z.abs b <= i24 -> Z.abs (a - b) <= i24 ->
  fsub (of_int a) (of_int b) = of_int (a - b).
Proof.
  intros Ha Hb Hs. destruct (of_int_correct a Ha) as [[Fa Va] Sa]. destruct (of_int_correct b Hb) as [[Fb Vb] Sb].
  pose proof (Bminus_correct 24 128 eq_refl eq_refl binop_nan_pl32 mode_NE (of_int a) (of_int b) Fa Fb) as H.
  assert (E : (B2R 24 128 (of_int a) - B2R 24 128 (of_int b))%R = F2R (Float radix2 (a - b) 0)).
  { rewrite Va, Vb, F2R_int, minus_IZR. reflexivity. }
  rewrite E in H. assert (E1 : -149 <= 0) by lia. assert (E2 : 0 <= 0) by lia.
  rewrite (round_generic radix2 _ (round_mode mode_NE) _ (small_format _ 0 Hs E1)) in H.
  rewrite (Rlt_bool_true _ _ (small_lt_emax _ 0 (Z.le_trans _ _ _ Hs p24_26) E2)) in H.
  destruct H as (H1 & H2 & H3). rewrite F2R_int in H1, H3.
  apply fint_canon; [exact Hs|split; assumption|].
  unfold fsub, b32_minus. cbv zeta. rewrite H3, Rcompare_IZR0.
  destruct (Z.compare_spec (a - b) 0) as [E0|L|G].
  - rewrite Sa, Sb. replace (a - b <? 0) with false by (symmetry; apply Z.ltb_ge; lia).
    destruct (Z.ltb_spec a 0), (Z.ltb_spec b 0); try reflexivity; lia.
  - symmetry. apply Z.ltb_lt. exact L.
  - symmetry. apply Z.ltb_ge. lia.
Qed.

(* product: value *)
Lemma fmul_int_val x y a b : fint x a -> fint y b -> Z.abs (a * b) <= i24 -> fint (fmul x y) (a * b).
Proof.
  intros Hx Hy Hp. apply fint_frep. change 0 with (0 + 0). apply frep_mul; [apply fint_frep, Hx|apply fint_frep, Hy|exact Hp|lia].
Qed.
(* product: canonical when no negative zero can arise *)
Lemma fmul_int a b : Z.abs a <= i24 -> Z.abs b <= i24 -> Z.abs (a * b) <= i24 ->
  (a * b <> 0 \/ (0 <= a /\ 0 <= b)) -> fmul (of_int a) (of_int b) = of_int (a * b).
Proof.
  intros Ha Hb Hp Hs. destruct (of_int_correct a Ha) as [Ia Sa]. destruct (of_int_correct b Hb) as [Ib Sb].
  pose proof (fmul_int_val _ _ _ _ Ia Ib Hp) as Hm.
  destruct (Z.eq_dec (a * b) 0) as [Z0|NZ]; [|apply fint_canon_nz; assumption].
  apply fint_canon; [assumption|assumption|].
  pose proof (Bmult_correct 24 128 eq_refl eq_refl binop_nan_pl32 mode_NE (of_int a) (of_int b)) as H.
  destruct Ia as [Fa Va], Ib as [Fb Vb].
  assert (E : (B2R 24 128 (of_int a) * B2R 24 128 (of_int b))%R = F2R (Float radix2 (a * b) 0)).
  { rewrite Va, Vb, F2R_int, mult_IZR. reflexivity. }
  rewrite E in H. assert (E1 : -149 <= 0) by lia. assert (E2 : 0 <= 0) by lia.
  rewrite (round_generic radix2 _ (round_mode mode_NE) _ (small_format _ 0 Hp E1)) in H.
  rewrite (Rlt_bool_true _ _ (small_lt_emax _ 0 (Z.le_trans _ _ _ Hp p24_26) E2)) in H.
  destruct H as (_ & H2 & H3).
  unfold fmul, b32_mult. cbv zeta. rewrite H3.
  - rewrite Sa, Sb, Z0. destruct Hs as [Hs|[Hs1 Hs2]]; [congruence|].
    destruct (Z.ltb_spec a 0), (Z.ltb_spec b 0); try reflexivity; lia.
  - destruct (Bmult _ _ _ _ _ _ _ _); try reflexivity. rewrite Fa, Fb in H2. discriminate.
Qed.

(* exact quotient by a positive integer *)
Lemma fdiv_int a b q : Z.abs a <= i24 -> Z.abs b <= i24 -> Z.abs q <= i24 -> 0 < b -> a = q * b ->
  fdiv (of_int a) (of_int b) = of_int q.
Proof.
  intros Ha Hb Hq Hpos Eq. destruct (of_int_correct a Ha) as [[Fa Va] Sa]. destruct (of_int_correct b Hb) as [[Fb Vb] Sb].
  assert (NZ : B2R 24 128 (of_int b) <> 0%R) by (rewrite Vb; apply not_0_IZR; lia).
  pose proof (Bdiv_correct 24 128 eq_refl eq_refl binop_nan_pl32 mode_NE (of_int a) (of_int b) NZ) as H.
  assert (E : (B2R 24 128 (of_int a) / B2R 24 128 (of_int b))%R = F2R (Float radix2 q 0)).
  { rewrite Va, Vb, F2R_int, Eq, mult_IZR. field. apply not_0_IZR; lia. }
  rewrite E in H. assert (E1 : -149 <= 0) by lia. assert (E2 : 0 <= 0) by lia.
  rewrite (round_generic radix2 _ (round_mode mode_NE) _ (small_format _ 0 Hq E1)) in H.
  rewrite (Rlt_bool_true _ _ (small_lt_emax _ 0 (Z.le_trans _ _ _ Hq p24_26) E2)) in H.
  destruct H as (H1 & H2 & H3). rewrite F2R_int in H1. rewrite Fa in H2.
  apply fint_canon; [exact Hq|split; assumption|].
  unfold fdiv, b32_div. cbv zeta. rewrite H3.
  - rewrite Sa, Sb. replace (b <? 0) with false by (symmetry; apply Z.ltb_ge; lia). rewrite xorb_false_r.
    destruct (Z.ltb_spec a 0), (Z.ltb_spec q 0); try reflexivity; nia.
  - destruct (Bdiv _ _ _ _ _ _ _ _); try reflexivity; discriminate.
Qed.

(* square root of a perfect square *)
Lemma fsqrt_int d : 0 <= d -> d * d <= i24 -> fsqrt (of_int (d * d)) = of_int d.
Proof.
  intros Hd Hs. assert (Hd' : Z.abs d <= i24) by (unfold i24 in *; nia).
  assert (Hs' : Z.abs (d * d) <= i24) by lia.
  destruct (of_int_correct (d * d) Hs') as [[Fa Va] Sa].
  pose proof (Bsqrt_correct 24 128 eq_refl eq_refl unop_nan_pl32 mode_NE (of_int (d * d))) as H.
  assert (E : sqrt (B2R 24 128 (of_int (d * d))) = F2R (Float radix2 d 0)).
  { rewrite Va, F2R_int, mult_IZR. apply sqrt_square. apply IZR_le. exact Hd. }
  rewrite E in H. assert (E1 : -149 <= 0) by lia.
  rewrite (round_generic radix2 _ (round_mode mode_NE) _ (small_format _ 0 Hd' E1)) in H.
  destruct H as (H1 & H2 & H3). rewrite F2R_int in H1.
  assert (F : is_finite 24 128 (fsqrt (of_int (d * d))) = true).
  { unfold fsqrt, b32_sqrt. cbv zeta. rewrite H2. destruct (of_int (d * d)) as [s|s|s pl e|s m e Hb]; try discriminate; [reflexivity|].
    cbn [Bsign] in Sa. rewrite Sa. replace (d * d <? 0) with false by (symmetry; apply Z.ltb_ge; nia). reflexivity. }
  apply fint_canon; [exact Hd'|split; assumption|].
  unfold fsqrt, b32_sqrt in *. cbv zeta in *. rewrite H3.
  - rewrite Sa. replace (d * d <? 0) with false by (symmetry; apply Z.ltb_ge; nia). symmetry. apply Z.ltb_ge. lia.
  - destruct (Bsqrt _ _ _ _ _ _ _); try reflexivity; discriminate.
Qed.

(* comparison *)
Lemma fgt_int a b : Z.abs a <= i24 -> Z.abs b <= i24 -> fgt (of_int a) (of_int b) = (b <? a).
Proof. intros Ha Hb. apply (fgt_rep _ _ _ _ 0); apply fint_frep, of_int_fint; assumption. Qed.
Lemma flt_int a b : Z.abs a <= i24 -> Z.abs b <= i24 -> flt (of_int a) (of_int b) = (a <? b).
Proof. intros Ha Hb. apply (flt_rep _ _ _ _ 0); apply fint_frep, of_int_fint; assumption. Qed.
Lemma feq_int a b : Z.abs a <= i24 -> Z.abs b <= i24 -> feq (of_int a) (of_int b) = (a =? b).
Proof. intros Ha Hb. apply (feq_rep _ _ _ _ 0); apply fint_frep, of_int_fint; assumption. Qed.

(* ================================================================================================================== *)
(* 2. the embedding of the integer dasher (DashZ.v) into the binary32 model                                           *)
Require Import RQ.Contains RQ.DashZ.

Definition ept (p : zpt) : pt := (of_int (fst p), of_int (snd p)).
Definition eop (o : zop) : pathop := match o with ZMove p => MoveTo (ept p) | ZLine p => LineTo (ept p) | ZClose => Close end.
Definition est (s : zds) : dstate := mk_ds (zs_on s) (of_int (zs_rem s)) (zs_idx s).
Definition ech (c : zchop) : chop :=
  mk_chop (of_int (zc_len c)) (ept (zc_start c)) (est (zc_st c)) (zc_first c) (zc_fdash c)
          (map ept (zc_init c)) (map eop (zc_out c)).
Definition eacc (a : zacc) : dash_acc :=
  mk_da (option_map ept (za_cur a)) (option_map ept (za_startp a)) (za_first a) (za_fdash a)
        (map ept (za_init a)) (est (za_st a)) (map eop (za_out a)).

(* coordinates within +-2048: differences within +-4096, their squares at most 2^24 *)
Definition cbound : Z := 2048.
Definition pt_ok (p : zpt) : Prop := Z.abs (fst p) <= cbound /\ Z.abs (snd p) <= cbound.
Definition opt_ok (o : option zpt) : Prop := match o with Some p => pt_ok p | None => True end.
(* the four unit directions *)
Definition udir (d : zpt) : Prop := d = (1, 0) \/ d = (-1, 0) \/ d = (0, 1) \/ d = (0, -1).

Lemma iter_pow2_run {St} (f : St -> option St) d : forall s, iter_pow2 d f s = run (2 ^ d) f s.
Proof.
  induction d as [|d IH]; intros s.
  - cbn [iter_pow2 Nat.pow run]. destruct (f s); reflexivity.
  - cbn [iter_pow2]. replace (2 ^ S d)%nat with (2 ^ d + 2 ^ d)%nat by (cbn [Nat.pow]; lia).
    rewrite run_add, IH. destruct (run (2 ^ d) f s) as [s1 b]. destruct b; [reflexivity|apply IH].
Qed.

(* ---- the per-segment quantities ---- *)
Lemma psub_ept p c : pt_ok p -> pt_ok c -> psub (ept p) (ept c) = ept (zsub p c).
Proof.
  intros [P1 P2] [C1 C2]. unfold psub, ept, zsub, px, py, cbound, i24 in *. cbn [fst snd].
  rewrite !fsub_int; unfold i24; try lia. reflexivity.
Qed.

Lemma vlength_ept v : axis v -> Z.abs (fst v) <= 4096 -> Z.abs (snd v) <= 4096 -> vlength (ept v) = of_int (zlen1 v).
Proof.
  intros A B1 B2. destruct v as [a b]. unfold axis, vlength, ept, zlen1, px, py in *. cbn [fst snd] in *.
  assert (S1 : Z.abs a * Z.abs a <= i24) by (unfold i24; nia).
  assert (S2 : Z.abs b * Z.abs b <= i24) by (unfold i24; nia).
  assert (Q1 : a * a = Z.abs a * Z.abs a) by nia. assert (Q2 : b * b = Z.abs b * Z.abs b) by nia.
  rewrite (fmul_int a a), (fmul_int b b); unfold i24 in *; try nia.
  rewrite fadd_int; unfold i24; try nia.
  destruct A as [-> | ->].
  - replace (0 * 0 + b * b) with (Z.abs b * Z.abs b) by nia. replace (Z.abs 0 + Z.abs b) with (Z.abs b) by lia.
    apply fsqrt_int; [lia|exact S2].
  - replace (a * a + 0 * 0) with (Z.abs a * Z.abs a) by nia. replace (Z.abs a + Z.abs 0) with (Z.abs a) by lia.
    apply fsqrt_int; [lia|exact S1].
Qed.

Lemma vnormalize_ept v : axis v -> Z.abs (fst v) <= 4096 -> Z.abs (snd v) <= 4096 -> 0 < zlen1 v ->
  vnormalize (ept v) = ept (zdir v).
Proof.
  intros A B1 B2 L. unfold vnormalize. rewrite (vlength_ept v A B1 B2).
  destruct v as [a b]. unfold axis, vdiv, ept, zlen1, zdir, px, py in *. cbn [fst snd] in *.
  rewrite (fdiv_int a _ (Z.sgn a)), (fdiv_int b _ (Z.sgn b)); unfold i24; try lia; try reflexivity.
Qed.

Lemma zdir_udir v : axis v -> 0 < zlen1 v -> udir (zdir v).
Proof.
  destruct v as [a b]. unfold axis, zlen1, zdir, udir. cbn [fst snd]. intros [-> | ->] L; cbn [Z.sgn Z.abs] in *.
  - destruct (Z.sgn_spec b) as [[? ->]|[[? ->]|[? ->]]]; auto; lia.
  - destruct (Z.sgn_spec a) as [[? ->]|[[? ->]|[? ->]]]; auto; lia.
Qed.
Lemma zdir_target c p : axis (zsub p c) -> zadd c (zscale (zdir (zsub p c)) (zlen1 (zsub p c))) = p.
Proof.
  destruct c as [cx cy], p as [x y]. unfold axis, zsub, zadd, zscale, zdir, zlen1. cbn [fst snd]. intros A.
  f_equal; destruct A as [A|A]; rewrite ?A; cbn [Z.abs Z.sgn]; lia.
Qed.

(* a cut point: start + direction * remaining length, all exact *)
Lemma fadd_mul_int x k r : Z.abs k <= 1 -> Z.abs x <= cbound -> Z.abs (x + k * r) <= cbound -> 0 <= r <= i24 ->
  fadd (of_int x) (fmul (of_int k) (of_int r)) = of_int (x + k * r).
Proof.
  unfold cbound, i24. intros Hk Hx Hs Hr. apply fadd_int_val; unfold i24; [lia|lia|].
  apply fmul_int_val; [apply of_int_fint; unfold i24; lia|apply of_int_fint; unfold i24; lia|unfold i24; nia].
Qed.

Lemma cut_point_ept s d r : udir d -> pt_ok s -> pt_ok (zadd s (zscale d r)) -> 0 <= r <= i24 ->
  padd (ept s) (vscale (ept d) (of_int r)) = ept (zadd s (zscale d r)).
Proof.
  intros U [S1 S2] [T1 T2] R. destruct s as [x y], d as [dx dy]. unfold padd, vscale, ept, zadd, zscale, px, py in *.
  cbn [fst snd] in *.
  assert (K : Z.abs dx <= 1 /\ Z.abs dy <= 1).
  { destruct U as [U|[U|[U|U]]]; inversion U; lia. }
  rewrite !fadd_mul_int; try assumption; try tauto.
Qed.

(* ---- dash_op from the result of its loop (any binary32 input) ---- *)
Lemma dash_op_line_of_loop arr initial a cur p c :
  da_cur a = Some cur ->
  iter_pow2 17 (chop_step arr (vnormalize (psub p cur)))
    (mk_chop (vlength (psub p cur)) cur (da_st a) (da_first a) (da_fdash a) (da_init a) (da_out a)) = (c, true) ->
  dash_op arr initial a (LineTo p) =
  Ok (mk_da (Some p) (da_startp a) (ch_first c)
            (if ds_on (ch_st c) then ch_fdash c else false)
            (if ds_on (ch_st c) && ch_first c then ch_init c ++ [ch_start c; p] else ch_init c)
            (mk_ds (ds_on (ch_st c)) (fsub (ds_rem (ch_st c)) (ch_len c)) (ds_idx (ch_st c)))
            (if ds_on (ch_st c) then (if ch_first c then ch_out c else LineTo p :: ch_out c) else MoveTo p :: ch_out c)).
Proof.
  intros Hc E. cbn [dash_op]. rewrite Hc, E. cbn [negb].
  destruct (ds_on (ch_st c)); [destruct (ch_first c)|]; reflexivity.
Qed.

Lemma dash_op_close_of_loop arr initial a cur sp c :
  da_cur a = Some cur -> da_startp a = Some sp ->
  iter_pow2 17 (chop_step arr (vnormalize (psub sp cur)))
    (mk_chop (vlength (psub sp cur)) cur (da_st a) (da_first a) (da_fdash a) (da_init a) (da_out a)) = (c, true) ->
  dash_op arr initial a Close =
  Ok (mk_da (Some sp) (Some sp) true true [] initial
            (if ds_on (ch_st c) then
               if ch_fdash c then Close :: rev (map LineTo (ch_init c)) ++ ch_out c
               else match ch_init c with
                    | [] => LineTo sp :: ch_out c
                    | _ => rev (map LineTo (ch_init c)) ++ ch_out c
                    end
             else flush_initial (ch_init c) (ch_out c))).
Proof. intros Hc Hs E. cbn [dash_op]. rewrite Hc, Hs, E. cbn [negb]. reflexivity. Qed.

Lemma map_eop_ZLine l : map eop (map ZLine l) = map LineTo (map ept l).
Proof. rewrite !map_map. reflexivity. Qed.
Lemma flush_ept init out : flush_initial (map ept init) (map eop out) = map eop (zflush init out).
Proof.
  destruct init as [|p0 rest]; cbn [map flush_initial zflush]; [reflexivity|].
  rewrite map_app, map_rev, map_eop_ZLine. reflexivity.
Qed.

Section Sim.
  Variable zarr : list Z.
  Hypothesis Hne : zarr <> [].
  Hypothesis Hent : Forall (fun a => 1 <= a <= i24) zarr.
  Let arr := map of_int zarr.

  Lemma Hpos : Forall (fun a => 1 <= a) zarr.
  Proof. eapply Forall_impl; [|exact Hent]. cbv beta. intros; lia. Qed.

  Lemma zarr_at_bound i : 1 <= zarr_at zarr i <= i24.
  Proof. pose proof (zarr_at_In zarr Hne Hpos i) as H. rewrite Forall_forall in Hent. apply Hent. exact H. Qed.

  Lemma arr_at_ept i : arr_at arr i = of_int (zarr_at zarr i).
  Proof. unfold arr_at, zarr_at, arr, zlen. rewrite map_length. change f0 with (of_int 0). apply map_nth. Qed.

  Definition chop_ok (dir target : zpt) (c : zchop) : Prop :=
    udir dir /\ pt_ok (zc_start c) /\ pt_ok target /\ 0 <= zc_len c /\
    zadd (zc_start c) (zscale dir (zc_len c)) = target /\ 0 <= zs_rem (zc_st c) <= i24.

  Lemma chop_ok_len dir target c : chop_ok dir target c -> zc_len c <= 4096.
  Proof.
    intros (U & [S1 S2] & [T1 T2] & L & E & _). destruct (zc_start c) as [x y]. subst target.
    unfold zadd, zscale, cbound in *. cbn [fst snd] in *.
    destruct U as [-> |[-> |[-> | ->]]]; cbn [fst snd] in *; lia.
  Qed.

  Lemma chop_ok_next dir target c : chop_ok dir target c -> zs_rem (zc_st c) < zc_len c ->
    chop_ok dir target (zchop_next zarr dir c) /\ pt_ok (zadd (zc_start c) (zscale dir (zs_rem (zc_st c)))).
  Proof.
    intros (U & [S1 S2] & [T1 T2] & L & E & R) G. unfold chop_ok, zchop_next, pt_ok. cbn [zc_start zc_len zc_st zs_rem].
    pose proof (zarr_at_bound (zs_idx (zc_st c) + 1)) as B.
    destruct (zc_start c) as [x y]. subst target. unfold zadd, zscale, cbound in *. cbn [fst snd] in *.
    destruct U as [-> |[-> |[-> | ->]]]; cbn [fst snd] in *;
      (repeat split; try lia; [unfold udir; tauto|f_equal; lia]).
  Qed.

  Lemma chop_step_ech dir target c : chop_ok dir target c ->
    chop_step arr (ept dir) (ech c) = option_map ech (zchop_step zarr dir c).
  Proof.
    intros K. pose proof (chop_ok_len _ _ _ K) as LB. pose proof K as (U & S & T & L & E & R).
    rewrite chop_step_next. unfold zchop_step. cbn [ech ch_len ch_st est ds_rem].
    rewrite fgt_int by (unfold i24 in *; lia).
    destruct (Z.ltb_spec (zs_rem (zc_st c)) (zc_len c)) as [G|G]; [|reflexivity]. cbn [option_map]. f_equal.
    destruct (chop_ok_next _ _ _ K G) as [_ Q].
    unfold chop_next, zchop_next, ech.
    cbn [ch_len ch_start ch_st ch_first ch_fdash ch_init ch_out est ds_on ds_rem ds_idx zc_len zc_start zc_st zc_first zc_fdash zc_init zc_out zs_on zs_rem zs_idx].
    rewrite (cut_point_ept _ _ _ U S Q R), fsub_int, arr_at_ept by (unfold i24 in *; lia).
    destruct (zs_on (zc_st c)); [destruct (zc_first c)|]; cbn [andb map]; rewrite ?map_app; reflexivity.
  Qed.

  Lemma pow17 n : (n <= 4200)%nat -> (n <= 2 ^ 17)%nat.
  Proof. intros H. apply Nat.le_trans with (1 := H). apply Nat.leb_le. vm_compute. reflexivity. Qed.

  (* the loop of one segment *)
  Lemma chop_loop_ech dir target c : chop_ok dir target c ->
    iter_pow2 17 (chop_step arr (ept dir)) (ech c) = (ech (zchop_loop zarr (zchop_fuel (zc_len c)) dir c), true).
  Proof.
    intros K. pose proof (chop_ok_len _ _ _ K) as LB. pose proof K as (U & S & T & L & E & R).
    rewrite iter_pow2_run.
    rewrite (run_sim ech _ (zchop_step zarr dir) (chop_ok dir target)); [| |
      |exact K].
    - destruct (zchop_loop_run zarr Hne Hpos dir (zchop_fuel (zc_len c)) c) as [H1 _]; [lia| |].
      + unfold zchop_measure, zchop_fuel. destruct (zs_rem (zc_st c) =? 0); lia.
      + rewrite (run_done_mono _ _ (2 ^ 17)%nat _ _ H1); [reflexivity|].
        apply pow17. unfold zchop_fuel. lia.
    - intros t Kt. apply (chop_step_ech dir target t Kt).
    - intros t t' Kt. unfold zchop_step. destruct (Z.ltb_spec (zs_rem (zc_st t)) (zc_len t)) as [G|G]; [|discriminate].
      intros H; inversion H; subst t'. apply chop_ok_next; assumption.
  Qed.

  (* the state after the loop: the guard is false, the invariant holds *)
  Lemma chop_loop_final dir target c : chop_ok dir target c ->
    let c' := zchop_loop zarr (zchop_fuel (zc_len c)) dir c in
    chop_ok dir target c' /\ zc_len c' <= zs_rem (zc_st c').
  Proof.
    intros K c'. pose proof K as (U & S & T & L & E & R). split.
    - apply (zchop_loop_inv zarr dir (chop_ok dir target)); [|exact K].
      intros t Kt G. apply chop_ok_next; assumption.
    - destruct (zchop_loop_run zarr Hne Hpos dir (zchop_fuel (zc_len c)) c) as [_ H2]; [lia| |].
      + unfold zchop_measure, zchop_fuel. destruct (zs_rem (zc_st c) =? 0); lia.
      + fold c' in H2. lia.
  Qed.

  Definition st_ok (s : zds) : Prop := 0 <= zs_rem s <= i24.
  Definition acc_ok (a : zacc) : Prop := opt_ok (za_cur a) /\ opt_ok (za_startp a) /\ st_ok (za_st a).
  Definition op_ok (a : zacc) (o : zop) : Prop :=
    match o with
    | ZMove p => pt_ok p
    | ZLine p => pt_ok p /\ match za_cur a with Some c => axis (zsub p c) | None => True end
    | ZClose => match za_cur a, za_startp a with Some c, Some s => axis (zsub s c) | _, _ => True end
    end.

  (* the segment cur -> target: the model's loop is the integer loop *)
  Lemma segment_loop a cur target : st_ok (za_st a) -> pt_ok cur -> pt_ok target -> axis (zsub target cur) ->
    let c := zchop_all zarr target cur a in
    iter_pow2 17 (chop_step arr (vnormalize (psub (ept target) (ept cur))))
      (mk_chop (vlength (psub (ept target) (ept cur))) (ept cur) (est (za_st a)) (za_first a) (za_fdash a)
               (map ept (za_init a)) (map eop (za_out a))) = (ech c, true)
    /\ 0 <= zc_len c <= zs_rem (zc_st c) /\ zs_rem (zc_st c) <= i24.
  Proof.
    intros R C T A c. rewrite (psub_ept _ _ T C).
    set (v := zsub target cur) in *.
    assert (B : Z.abs (fst v) <= 4096 /\ Z.abs (snd v) <= 4096).
    { destruct T as [T1 T2], C as [C1 C2]. unfold v, zsub, cbound in *. cbn [fst snd]. lia. }
    destruct B as [B1 B2]. rewrite (vlength_ept v A B1 B2).
    set (c0 := mk_zchop (zlen1 v) cur (za_st a) (za_first a) (za_fdash a) (za_init a) (za_out a)).
    change (mk_chop (of_int (zlen1 v)) (ept cur) (est (za_st a)) (za_first a) (za_fdash a) (map ept (za_init a)) (map eop (za_out a)))
      with (ech c0).
    assert (L0 : 0 <= zlen1 v) by (unfold zlen1; lia).
    destruct (Z.eq_dec (zlen1 v) 0) as [Z0|NZ].
    - assert (Ec : c = c0).
      { unfold c, zchop_all. fold v. fold c0. unfold zchop_fuel. cbn [zchop_loop]. cbn [c0 zc_len zc_st].
        unfold st_ok in R. destruct (Z.ltb_spec (zs_rem (za_st a)) (zlen1 v)); [lia|reflexivity]. }
      rewrite Ec. split.
      + apply chop_loop_none. cbn [ech c0 ch_len ch_st est ds_rem zc_len zc_st]. unfold st_ok in R.
        rewrite fgt_int by (unfold i24 in *; lia). apply Z.ltb_ge. lia.
      + cbn [c0 zc_len zc_st]. unfold st_ok in R. lia.
    - assert (LP : 0 < zlen1 v) by lia. rewrite (vnormalize_ept v A B1 B2 LP).
      assert (K : chop_ok (zdir v) target c0).
      { split; [apply zdir_udir; assumption|]. cbn [c0 zc_start zc_len zc_st].
        split; [exact C|]. split; [exact T|]. split; [exact L0|]. split; [apply zdir_target; exact A|exact R]. }
      split.
      + apply (chop_loop_ech _ _ _ K).
      + destruct (chop_loop_final _ _ _ K) as [(_ & _ & _ & L & _ & R') G]. fold v in c. fold c0 in c.
        change (zchop_loop zarr (zchop_fuel (zc_len c0)) (zdir v) c0) with c in *. lia.
  Qed.

  Lemma dash_op_sim initial a o : st_ok initial -> acc_ok a -> op_ok a o ->
    dash_op arr (est initial) (eacc a) (eop o) = Ok (eacc (zdash_op zarr initial a o)) /\
    acc_ok (zdash_op zarr initial a o).
  Proof.
    intros Hi (Hc & Hs & Hr) Ho. destruct o as [p|p|]; cbn [eop op_ok] in *.
    - split.
      + cbn [dash_op zdash_op eacc da_init da_out za_cur za_startp za_first za_fdash za_init za_st za_out option_map map].
        rewrite flush_ept. reflexivity.
      + cbn [zdash_op]. repeat split; cbn [za_cur za_startp za_st opt_ok]; try apply Ho; apply Hi.
    - destruct Ho as [Hp Ha]. destruct (za_cur a) as [cur|] eqn:Ec.
      + cbn [opt_ok] in Hc. destruct (segment_loop a cur p Hr Hc Hp Ha) as (E & L & R'). cbv zeta in *.
        rewrite (dash_op_line_of_loop arr (est initial) (eacc a) (ept cur) (ept p) _ (f_equal (option_map ept) Ec) E).
        cbn [zdash_op]. rewrite Ec. set (c := zchop_all zarr p cur a) in *.
        split.
        * unfold eacc. cbn [za_cur za_startp za_first za_fdash za_init za_st za_out option_map].
          cbn [ech ch_len ch_start ch_st ch_first ch_fdash ch_init ch_out est ds_on ds_rem ds_idx da_startp zs_on zs_rem zs_idx].
          rewrite fsub_int by (unfold i24 in *; lia).
          destruct (zs_on (zc_st c)); [destruct (zc_first c)|]; cbn [andb map]; rewrite ?map_app; reflexivity.
        * repeat split; cbn [za_cur za_startp za_st opt_ok zs_rem]; try apply Hp; try apply Hs; lia.
      + split; [cbn [dash_op zdash_op eacc da_cur za_cur option_map]; rewrite Ec; reflexivity|].
        cbn [zdash_op]. rewrite Ec. repeat split; cbn [za_cur za_startp za_st opt_ok]; try apply Hp; try apply Hs; apply Hr.
    - destruct (za_cur a) as [cur|] eqn:Ec; [destruct (za_startp a) as [sp|] eqn:Es|].
      + cbn [opt_ok] in Hc, Hs. destruct (segment_loop a cur sp Hr Hc Hs Ho) as (E & L & R'). cbv zeta in *.
        rewrite (dash_op_close_of_loop arr (est initial) (eacc a) (ept cur) (ept sp) _
                   (f_equal (option_map ept) Ec) (f_equal (option_map ept) Es) E).
        cbn [zdash_op]. rewrite Ec, Es. set (c := zchop_all zarr sp cur a) in *.
        split.
        * unfold eacc. cbn [za_cur za_startp za_first za_fdash za_init za_st za_out option_map map].
          cbn [ech ch_len ch_start ch_st ch_first ch_fdash ch_init ch_out est ds_on ds_rem ds_idx].
          f_equal. f_equal.
          destruct (zs_on (zc_st c)); [destruct (zc_fdash c)|].
          -- cbn [map]. rewrite map_app, map_rev, map_eop_ZLine. reflexivity.
          -- destruct (zc_init c) as [|i0 it]; [reflexivity|]. rewrite map_app, map_rev, map_eop_ZLine. reflexivity.
          -- apply flush_ept.
        * repeat split; cbn [za_cur za_startp za_st opt_ok]; try apply Hs; apply Hi.
      + split; [cbn [dash_op zdash_op eacc da_cur da_startp za_cur za_startp option_map]; rewrite Ec, Es; reflexivity|].
        cbn [zdash_op]. rewrite Ec, Es. repeat split; cbn [za_cur za_startp za_st opt_ok]; auto; apply Hr.
      + split; [cbn [dash_op zdash_op eacc da_cur za_cur option_map]; rewrite Ec; reflexivity|].
        cbn [zdash_op]. rewrite Ec. repeat split; cbn [za_cur za_startp za_st opt_ok]; auto; apply Hr.
  Qed.

  (* well-formed integer paths: every point within the bound, every segment (closing segments included) axis-aligned *)
  Fixpoint zops_ok (cur startp : option zpt) (ops : list zop) : Prop :=
    match ops with
    | [] => True
    | ZMove p :: t => pt_ok p /\ zops_ok (Some p) (Some p) t
    | ZLine p :: t => pt_ok p /\ match cur with Some c => axis (zsub p c) | None => True end /\ zops_ok (Some p) startp t
    | ZClose :: t =>
        match cur, startp with
        | Some c, Some s => axis (zsub s c) /\ zops_ok (Some s) (Some s) t
        | _, _ => zops_ok None startp t
        end
    end.

  Lemma dash_ops_sim initial ops : st_ok initial -> forall a, acc_ok a -> zops_ok (za_cur a) (za_startp a) ops ->
    dash_ops arr (est initial) (eacc a) (map eop ops) = Ok (eacc (zdash_ops zarr initial a ops)).
  Proof.
    intros Hi. induction ops as [|o t IH]; intros a Ha Hw; [reflexivity|].
    assert (Ho : op_ok a o /\ zops_ok (za_cur (zdash_op zarr initial a o)) (za_startp (zdash_op zarr initial a o)) t).
    { destruct o as [p|p|]; cbn [zops_ok op_ok zdash_op] in *.
      - destruct Hw; split; assumption.
      - destruct Hw as (H1 & H2 & H3). split; [split; assumption|]. destruct (za_cur a); exact H3.
      - destruct (za_cur a) as [c|]; [destruct (za_startp a) as [s|]|]; cbn [za_cur za_startp]; tauto. }
    destruct Ho as [Ho Hw']. destruct (dash_op_sim initial a o Hi Ha Ho) as [E Ha'].
    cbn [map dash_ops]. rewrite E. cbn [bind]. unfold zdash_ops. cbn [fold_left]. apply IH; assumption.
  Qed.

  Lemma dashed_sim initial ops : st_ok initial -> zops_ok None None ops ->
    dashed arr (est initial) (map eop ops) = Ok (map eop (zdashed zarr initial ops)).
  Proof.
    intros Hi Hw. unfold dashed, zdashed.
    change (mk_da None None true true [] (est initial) []) with (eacc (zfresh initial)).
    rewrite dash_ops_sim; [|exact Hi| |exact Hw].
    - cbn [bind]. cbn [eacc da_init da_out]. rewrite flush_ept, map_rev. reflexivity.
    - repeat split; cbn; try exact I; apply Hi.
  Qed.
End Sim.

(* ---- the prologue of dash_path: total and initial state ---- *)
Lemma fold_add_mono l : Forall (fun a => 1 <= a) l -> forall acc, acc <= fold_left Z.add l acc.
Proof.
  induction 1 as [|a l Ha _ IH]; intros acc; cbn [fold_left]; [lia|]. specialize (IH (acc + a)). lia.
Qed.
Lemma fold_add_In l : Forall (fun a => 1 <= a) l -> forall acc a, 0 <= acc -> In a l -> a <= fold_left Z.add l acc.
Proof.
  induction 1 as [|b l Hb Hl IH]; intros acc a Hacc [].
  - subst b. cbn [fold_left]. pose proof (fold_add_mono l Hl (acc + a)). lia.
  - cbn [fold_left]. apply IH; [lia|assumption].
Qed.
Lemma fold_fadd_int l : Forall (fun a => 1 <= a) l -> forall acc, 0 <= acc -> fold_left Z.add l acc <= i24 ->
  fold_left fadd (map of_int l) (of_int acc) = of_int (fold_left Z.add l acc).
Proof.
  induction 1 as [|a l Ha Hl IH]; intros acc Hacc Hs; cbn [map fold_left] in *; [reflexivity|].
  pose proof (fold_add_mono l Hl (acc + a)).
  rewrite fadd_int by lia. apply IH; [lia|assumption].
Qed.

Section Prologue.
  Variable zarr : list Z.
  Hypothesis Hne : zarr <> [].
  Hypothesis Hpos : Forall (fun a => 1 <= a) zarr.
  Hypothesis Htot : ztotal zarr <= i24.
  Let arr := map of_int zarr.

  Lemma zsum_le_total : fold_left Z.add zarr 0 <= ztotal zarr.
  Proof. unfold ztotal. pose proof (fold_add_mono zarr Hpos 0). destruct (Z.odd (zlen zarr)); lia. Qed.
  Lemma ztotal_pos : 1 <= ztotal zarr.
  Proof.
    pose proof zsum_le_total. destruct zarr as [|a t]; [congruence|].
    pose proof (fold_add_In (a :: t) Hpos 0 a (Z.le_refl 0) (or_introl eq_refl)).
    inversion Hpos; subst. lia.
  Qed.
  Lemma Hent_of_total : Forall (fun a => 1 <= a <= i24) zarr.
  Proof.
    apply Forall_forall. intros a Ha. split; [exact (proj1 (Forall_forall _ _) Hpos a Ha)|].
    pose proof (fold_add_In zarr Hpos 0 a (Z.le_refl 0) Ha). pose proof zsum_le_total. lia.
  Qed.

  Lemma dash_total_ept : dash_total arr = of_int (ztotal zarr).
  Proof.
    unfold dash_total, ztotal, arr. pose proof zsum_le_total as H. pose proof (fold_add_mono zarr Hpos 0) as H0.
    change f0 with (of_int 0). rewrite fold_fadd_int; [|assumption|lia|lia].
    unfold zlen. rewrite map_length. fold (zlen zarr). unfold ztotal in *. destruct (Z.odd (zlen zarr)); [|reflexivity].
    apply fmul_int; unfold i24 in *; lia.
  Qed.
  Lemma dash_total_gt : fgt (dash_total arr) f0 = true.
  Proof.
    rewrite dash_total_ept. change f0 with (of_int 0). pose proof ztotal_pos. rewrite fgt_int by (unfold i24 in *; lia).
    apply Z.ltb_lt. lia.
  Qed.

  Lemma finf : fdiv f1 f0 = B754_infinity 24 128 false.
  Proof. vm_compute. reflexivity. Qed.
  Lemma not_inf x : is_finite 24 128 x = true -> feq (fabs x) (fdiv f1 f0) = false.
  Proof. rewrite finf. destruct x as [s|s|s pl e|s m e Hb]; try discriminate; reflexivity. Qed.

  (* offset 0 *)
  Lemma dash_initial_ept0 : dash_initial arr f0 = Some (est (zdash_initial zarr 0)).
  Proof.
    assert (T : exists s m e Hb, dash_total arr = B754_finite 24 128 s m e Hb).
    { rewrite dash_total_ept. pose proof ztotal_pos as P. destruct (of_int_correct (ztotal zarr)) as [[F V] _]; [lia|].
      destruct (of_int (ztotal zarr)) as [s|s|s pl e|s m e Hb]; try discriminate; [|eauto].
      cbn [B2R] in V. apply eq_IZR in V. lia. }
    destruct T as (s & m & e & Hb & T).
    assert (O : dash_offset0 arr f0 = f0).
    { unfold dash_offset0. rewrite T. cbv zeta. change (frem f0 (B754_finite 24 128 s m e Hb)) with f0.
      change (flt f0 f0) with false. cbv iota. rewrite not_inf by reflexivity. reflexivity. }
    pose proof (zarr_at_bound zarr Hne Hent_of_total 0) as B.
    unfold dash_initial. rewrite O. rewrite iter_pow2_none.
    - cbn [negb ds_on ds_rem ds_idx]. unfold zdash_initial. rewrite Z.mod_0_l by (pose proof ztotal_pos; lia).
      cbn [Z.to_nat zoffset_loop zs_on zs_rem zs_idx]. unfold est. cbn [zs_on zs_rem zs_idx]. f_equal. f_equal.
      fold arr. rewrite (arr_at_ept zarr). change f0 with (of_int 0). apply fsub_int; unfold i24 in *; lia.
    - unfold offset_step. cbn [ds_rem]. fold arr. rewrite (arr_at_ept zarr). change f0 with (of_int 0).
      rewrite fgt_int by (unfold i24 in *; lia). destruct (Z.ltb_spec (zarr_at zarr 0) 0); [lia|reflexivity].
  Qed.

  Theorem dash_path_int0 ops w : zops_ok None None ops ->
    dash_path arr (mk_path (map eop ops) w) f0 = Ok (mk_path (map eop (zdash_path zarr ops 0)) NonZero).
  Proof.
    intros Hw. rewrite dash_path_unfold, dash_total_gt, dash_initial_ept0. cbn [negb p_ops].
    unfold arr. rewrite (dashed_sim zarr Hne Hent_of_total); [reflexivity| |exact Hw].
    pose proof (zarr_at_bound zarr Hne Hent_of_total 0) as B.
    unfold st_ok, zdash_initial. rewrite Z.mod_0_l by (pose proof ztotal_pos; lia).
    cbn [Z.to_nat zoffset_loop zs_on zs_rem zs_idx]. lia.
  Qed.
End Prologue.
Print Assumptions dash_path_int0.

(* ---- any integer offset: frem and the offset loop are exact ---- *)
Lemma fint_repr x n : fint x n -> n <> 0 ->
  exists m e Hb, x = B754_finite 24 128 (n <? 0) m e Hb /\ F2R (Float radix2 (Zpos m) e) = IZR (Z.abs n).
Proof.
  intros H Hn. pose proof (fint_sign x n H Hn) as S. destruct H as [F V].
  destruct x as [s|s|s pl e|s m e Hb]; try discriminate.
  - cbn [B2R] in V. apply eq_IZR in V. congruence.
  - cbn [Bsign] in S. subst s. exists m, e, Hb. split; [reflexivity|].
    cbn [B2R] in V. rewrite F2R_cond_Zopp in V. destruct (Z.ltb_spec n 0) as [L|G]; cbn [cond_Ropp] in V.
    + rewrite Z.abs_neq by lia. rewrite opp_IZR, <- V. ring.
    + rewrite Z.abs_eq by lia. exact V.
Qed.

Lemma frem_int a T : Z.abs a <= i24 -> 1 <= T <= i24 ->
  fint (frem (of_int a) (of_int T)) (Z.rem a T) /\
  (Z.rem a T <> 0 \/ 0 <= a -> frem (of_int a) (of_int T) = of_int (Z.rem a T)).
Proof.
  intros Ha HT.
  destruct (fint_repr (of_int T) T (of_int_fint T ltac:(lia)) ltac:(lia)) as (my & ey & Hby & ET & VT).
  replace (T <? 0) with false in ET by (symmetry; apply Z.ltb_ge; lia). rewrite Z.abs_eq in VT by lia.
  destruct (Z.eq_dec a 0) as [->|Na].
  - rewrite ET. change (of_int 0) with (B754_zero 24 128 false). cbn [frem]. rewrite Z.rem_0_l by lia.
    split; [split; reflexivity|reflexivity].
  - destruct (fint_repr (of_int a) a (of_int_fint a Ha) Na) as (mx & ex & Hbx & EA & VA).
    rewrite EA, ET. cbn [frem]. cbv zeta.
    set (e := Z.min ex ey). set (X := Z.pos mx * 2 ^ (ex - e)). set (Y := Z.pos my * 2 ^ (ey - e)).
    assert (HX : F2R (Float radix2 X e) = IZR (Z.abs a)).
    { rewrite <- VA. unfold X. symmetry. apply (F2R_change_exp radix2 e (Z.pos mx) ex). unfold e. lia. }
    assert (HY : F2R (Float radix2 Y e) = IZR T).
    { rewrite <- VT. unfold Y. symmetry. apply (F2R_change_exp radix2 e (Z.pos my) ey). unfold e. lia. }
    assert (X0 : 0 <= X) by (unfold X; apply Z.mul_nonneg_nonneg; [lia|apply Z.pow_nonneg; lia]).
    assert (Y0 : 0 < Y) by (unfold Y; apply Z.mul_pos_pos; [lia|apply Z.pow_pos_nonneg; unfold e; lia]).
    pose proof (Z.rem_bound_pos X Y X0 Y0) as RB. pose proof (Z.quot_rem' X Y) as QR.
    set (R := Z.rem X Y) in *. set (q := Z.quot X Y) in *. clearbody R q. clearbody X Y. clear EA ET Hbx Hby VA VT.
    (* the value of R * 2^e is an integer r with |a| = T q + r, 0 <= r < T *)
    set (r := Z.abs a - T * q).
    assert (HR : F2R (Float radix2 R e) = IZR r).
    { unfold r. rewrite minus_IZR, mult_IZR, <- HX, <- HY. unfold F2R. cbn [Fnum Fexp].
      replace R with (X - Y * q) by lia. rewrite minus_IZR, mult_IZR. ring. }
    assert (Hr : 0 <= r < T).
    { split.
      - apply le_IZR. rewrite <- HR. apply F2R_ge_0. cbn [Fnum]. lia.
      - apply lt_IZR. rewrite <- HR, <- HY. apply F2R_lt. lia. }
    assert (Er : r = Z.rem (Z.abs a) T) by (apply (Z.rem_unique _ _ q); unfold r; lia).
    assert (Erem : Z.rem a T = if a <? 0 then - r else r).
    { destruct (Z.ltb_spec a 0).
      - replace a with (- Z.abs a) by lia. rewrite Z.rem_opp_l', <- Er. reflexivity.
      - rewrite Er. f_equal. lia. }
    assert (R0 : R = 0 <-> r = 0).
    { split; intros H.
      - apply eq_IZR. rewrite <- HR, H. apply F2R_0.
      - apply (eq_0_F2R radix2 _ e). rewrite HR, H. reflexivity. }
    destruct (Z.eqb_spec R 0) as [RZ|RN].
    + assert (r0 : r = 0) by (apply R0, RZ). rewrite Erem, r0.
      replace (if a <? 0 then - 0 else 0) with 0 by (destruct (a <? 0); reflexivity).
      split.
      * destruct (a <? 0); split; reflexivity.
      * intros [H|H]; [congruence|]. replace (a <? 0) with false by (symmetry; apply Z.ltb_ge; lia). reflexivity.
    + assert (rn : r <> 0) by (intro H; apply RN, R0, H).
      set (v := if a <? 0 then - r else r) in *.
      assert (HV : F2R (Float radix2 (if a <? 0 then - R else R) e) = IZR v).
      { unfold v. destruct (a <? 0); [rewrite F2R_Zopp, HR, opp_IZR; reflexivity|exact HR]. }
      assert (Bv : Z.abs v <= i24) by (unfold v; clear - Hr HT; destruct (a <? 0); lia).
      pose proof (binary_normalize_correct 24 128 prec32 emax32 mode_NE (if a <? 0 then - R else R) e false) as H.
      rewrite HV, <- F2R_int in H. assert (E1 : -149 <= 0) by lia. assert (E2 : 0 <= 0) by lia.
      rewrite (round_generic radix2 _ (round_mode mode_NE) _ (small_format v 0 Bv E1)) in H.
      rewrite (Rlt_bool_true _ _ (small_lt_emax v 0 (Z.le_trans _ _ _ Bv p24_26) E2)) in H.
      destruct H as (H1 & H2 & _). rewrite F2R_int in H1. rewrite Erem.
      assert (FI : fint (binary_normalize 24 128 prec32 emax32 mode_NE (if a <? 0 then - R else R) e false) v) by (split; assumption).
      split; [exact FI|]. intros _. apply fint_canon_nz; [exact Bv|exact FI|]. unfold v. clear - rn. destruct (a <? 0); lia.
Qed.

Lemma fsub_int_val a y n : Z.abs a <= i24 -> Z.abs (a - n) <= i24 -> fint y n -> fsub (of_int a) y = of_int (a - n).
Proof.
  intros Ha Hs Hy. destruct (of_int_correct a Ha) as [[Fa Va] Sa]. pose proof Hy as [Fy Vy].
  pose proof (Bminus_correct 24 128 eq_refl eq_refl binop_nan_pl32 mode_NE (of_int a) y Fa Fy) as H.
  assert (E : (B2R 24 128 (of_int a) - B2R 24 128 y)%R = F2R (Float radix2 (a - n) 0)).
  { rewrite Va, Vy, F2R_int, minus_IZR. reflexivity. }
  rewrite E in H. assert (E1 : -149 <= 0) by lia. assert (E2 : 0 <= 0) by lia.
  rewrite (round_generic radix2 _ (round_mode mode_NE) _ (small_format _ 0 Hs E1)) in H.
  rewrite (Rlt_bool_true _ _ (small_lt_emax _ 0 (Z.le_trans _ _ _ Hs p24_26) E2)) in H.
  destruct H as (H1 & H2 & H3). rewrite F2R_int in H1, H3.
  apply fint_canon; [exact Hs|split; assumption|].
  unfold fsub, b32_minus. cbv zeta. rewrite H3, Rcompare_IZR0.
  destruct (Z.compare_spec (a - n) 0) as [E0|L|G].
  - rewrite Sa. replace (a - n <? 0) with false by (symmetry; apply Z.ltb_ge; lia).
    destruct (Z.eq_dec n 0) as [Z0|NZ].
    + replace (a <? 0) with false by (symmetry; apply Z.ltb_ge; lia). reflexivity.
    + rewrite (fint_sign y n Hy NZ). destruct (Z.ltb_spec a 0), (Z.ltb_spec n 0); try reflexivity; lia.
  - symmetry. apply Z.ltb_lt. exact L.
  - symmetry. apply Z.ltb_ge. lia.
Qed.

Lemma rem_mod_pos a T : 0 < T -> Z.abs (Z.rem a T) < T /\ a mod T = if Z.rem a T <? 0 then Z.rem a T + T else Z.rem a T.
Proof.
  intros HT. pose proof (Z.quot_rem' a T) as Q.
  assert (B : (0 <= a -> 0 <= Z.rem a T < T) /\ (a <= 0 -> - T < Z.rem a T <= 0)).
  { split; intros H; [apply Z.rem_bound_pos; lia|apply Z.rem_bound_pos_neg; lia]. }
  set (r := Z.rem a T) in *. set (q := Z.quot a T) in *. clearbody r q. split; [lia|].
  destruct (Z.ltb_spec r 0).
  - symmetry. apply (Z.mod_unique a T (q - 1)); [lia|]. rewrite Q. ring.
  - symmetry. apply (Z.mod_unique a T q); [lia|exact Q].
Qed.

Lemma le_pow17 n : Z.of_nat n <= 131072 -> (n <= 2 ^ 17)%nat.
Proof. intros H. apply Nat2Z.inj_le. rewrite Nat2Z.inj_pow. change (Z.of_nat 2 ^ Z.of_nat 17) with 131072. exact H. Qed.

Section Offset.
  Variable zarr : list Z.
  Hypothesis Hne : zarr <> [].
  Hypothesis Hpos : Forall (fun a => 1 <= a) zarr.
  Hypothesis Htot : ztotal zarr <= i24.
  Let T := ztotal zarr.

  (* the offset reduced into [0, T): a float with that value; the float of_int of it unless it is zero *)
  Lemma dash_offset0_int off : Z.abs off <= i24 ->
    fint (dash_offset0 (map of_int zarr) (of_int off)) (off mod T) /\
    (off mod T <> 0 -> dash_offset0 (map of_int zarr) (of_int off) = of_int (off mod T)).
  Proof.
    intros Ho. pose proof (ztotal_pos zarr Hne Hpos Htot) as TP. fold T in TP, Htot.
    unfold dash_offset0. rewrite (dash_total_ept zarr Hpos Htot). fold T. cbv zeta.
    destruct (frem_int off T Ho ltac:(lia)) as [FI FC]. set (x := frem (of_int off) (of_int T)) in *.
    set (r := Z.rem off T) in *.
    destruct (rem_mod_pos off T ltac:(lia)) as [Br Er]. fold r in Br, Er.
    assert (Fl : flt x f0 = (r <? 0)).
    { apply (flt_rep _ _ _ _ 0); [apply fint_frep, FI|apply frep_f0]. }
    rewrite Fl. rewrite Er. destruct (Z.ltb_spec r 0) as [L|G].
    - rewrite FC by lia. rewrite fadd_int by (unfold i24 in *; lia).
      rewrite not_inf by (apply of_int_fint; unfold i24 in *; lia).
      split; [apply of_int_fint; unfold i24 in *; lia|reflexivity].
    - rewrite not_inf by apply FI. split; [exact FI|]. intros Hn. apply FC. left. exact Hn.
  Qed.

  Definition eoff (s : Z * zds) : f32 * dstate := (of_int (fst s), est (snd s)).

  Lemma dash_initial_ept off : Z.abs off <= i24 -> off mod T <= 131071 ->
    dash_initial (map of_int zarr) (of_int off) = Some (est (zdash_initial zarr off)).
  Proof.
    intros Ho Hf. pose proof (ztotal_pos zarr Hne Hpos Htot) as TP. fold T in TP, Htot.
    pose proof (Hent_of_total zarr Hpos Htot) as Hent.
    pose proof (zarr_at_bound zarr Hne Hent) as AB.
    destruct (dash_offset0_int off Ho) as [FI FC].
    assert (Bo : 0 <= off mod T < T) by (apply Z.mod_pos_bound; lia).
    unfold dash_initial, zdash_initial. fold T. set (o := off mod T) in *.
    destruct (Z.eq_dec o 0) as [O0|ON].
    - (* the loop does not run *)
      rewrite iter_pow2_none.
      + cbn [negb ds_on ds_rem ds_idx]. rewrite O0. cbn [Z.to_nat zoffset_loop zs_on zs_rem zs_idx].
        unfold est. cbn [zs_on zs_rem zs_idx]. f_equal. f_equal. rewrite (arr_at_ept zarr).
        rewrite O0 in FI. apply fsub_int_val; [specialize (AB 0)|specialize (AB 0)|exact FI]; lia.
      + unfold offset_step. cbn [ds_rem]. rewrite (arr_at_ept zarr).
        rewrite (fgt_rep _ _ o (zarr_at zarr 0) 0); [|apply fint_frep, FI|apply fint_frep, of_int_fint; specialize (AB 0); lia].
        specialize (AB 0). destruct (Z.ltb_spec (zarr_at zarr 0) o); [lia|reflexivity].
    - rewrite (FC ON).
      set (s0 := (o, mk_zds true (zarr_at zarr 0) 0)).
      change (of_int o, mk_ds true (arr_at (map of_int zarr) 0) 0) with (of_int (fst s0), mk_ds true (arr_at (map of_int zarr) 0) 0).
      rewrite (arr_at_ept zarr). change (of_int (fst s0), mk_ds true (of_int (zarr_at zarr 0)) 0) with (eoff s0).
      set (Inv := fun s : Z * zds => 0 <= fst s <= i24 /\ 1 <= zs_rem (snd s) <= i24).
      rewrite iter_pow2_run, (run_sim eoff _ (zoffset_step zarr) Inv).
      + destruct (zoffset_loop_run zarr Hne Hpos (Z.to_nat o) s0) as [R1 R2]; [cbn; apply AB|cbn [s0 fst]; lia|].
        rewrite (run_done_mono _ _ (2 ^ 17)%nat _ _ R1) by (apply le_pow17; lia).
        cbn [negb]. fold s0.
        assert (I : Inv (zoffset_loop zarr (Z.to_nat o) s0)).
        { apply (zoffset_loop_inv zarr Inv); [|split; cbn [s0 fst snd zs_rem]; [lia|apply AB]].
          intros [o1 st1] [I1 I2] G. cbn [fst snd] in *. unfold zoffset_next, Inv. cbn [fst snd zs_rem].
          split; [lia|apply AB]. }
        destruct (zoffset_loop zarr (Z.to_nat o) s0) as [o' st] eqn:E. destruct I as [I1 I2]. cbn [fst snd] in *.
        unfold eoff, est. cbn [fst snd ds_on ds_rem ds_idx zs_on zs_rem zs_idx]. f_equal. f_equal.
        apply fsub_int; lia.
      + intros [o1 st1] [I1 I2]. cbn [fst snd] in *. unfold offset_step, zoffset_step, eoff. cbn [fst snd est ds_rem ds_on ds_idx].
        rewrite fgt_int by lia. destruct (Z.ltb_spec (zs_rem st1) o1) as [G|G]; [|reflexivity].
        cbn [option_map]. unfold zoffset_next, eoff, est. cbn [fst snd zs_on zs_rem zs_idx]. fold (map of_int zarr).
        rewrite fsub_int by lia. rewrite (arr_at_ept zarr). reflexivity.
      + intros [o1 st1] s' [I1 I2]. cbn [fst snd] in *. unfold zoffset_step. cbn [fst snd].
        destruct (Z.ltb_spec (zs_rem st1) o1) as [G|G]; [|discriminate]. intros H; inversion H; subst s'.
        unfold zoffset_next, Inv. cbn [fst snd zs_rem]. split; [lia|apply AB].
      + unfold Inv, s0. cbn [fst snd zs_rem]. split; [lia|apply AB].
  Qed.

  Lemma zdash_initial_ok off : st_ok (zdash_initial zarr off).
  Proof.
    pose proof (ztotal_pos zarr Hne Hpos Htot) as TP. fold T in TP, Htot.
    pose proof (Hent_of_total zarr Hpos Htot) as Hent. pose proof (zarr_at_bound zarr Hne Hent) as AB.
    assert (Bo : 0 <= off mod T < T) by (apply Z.mod_pos_bound; lia).
    unfold zdash_initial, st_ok. fold T. set (o := off mod T) in *. set (s0 := (o, mk_zds true (zarr_at zarr 0) 0)).
    destruct (zoffset_loop_run zarr Hne Hpos (Z.to_nat o) s0) as [_ R2]; [cbn; apply AB|cbn [s0 fst]; lia|].
    set (Inv := fun s : Z * zds => 0 <= fst s /\ 1 <= zs_rem (snd s) <= i24).
    assert (I : Inv (zoffset_loop zarr (Z.to_nat o) s0)).
    { apply (zoffset_loop_inv zarr Inv); [|split; cbn [s0 fst snd zs_rem]; [lia|apply AB]].
      intros [o1 st1] [I1 I2] G. cbn [fst snd] in *. unfold zoffset_next, Inv. cbn [fst snd zs_rem].
      split; [lia|apply AB]. }
    destruct (zoffset_loop zarr (Z.to_nat o) s0) as [o' st]. destruct I as [I1 I2]. cbn [fst snd zs_rem] in *. lia.
  Qed.

  (* the model on any well-formed integer path, any integer offset *)
  Theorem dash_path_int ops w off : Z.abs off <= i24 -> off mod T <= 131071 -> zops_ok None None ops ->
    dash_path (map of_int zarr) (mk_path (map eop ops) w) (of_int off) = Ok (mk_path (map eop (zdash_path zarr ops off)) NonZero).
  Proof.
    intros Ho Hf Hw. rewrite dash_path_unfold.  rewrite (dash_total_gt zarr Hne Hpos Htot).
    rewrite (dash_initial_ept off Ho Hf). cbn [negb p_ops].
    rewrite (dashed_sim zarr Hne (Hent_of_total zarr Hpos Htot)); [reflexivity|apply zdash_initial_ok|exact Hw].
  Qed.
End Offset.
Print Assumptions dash_path_int.

(* ================================================================================================================== *)
(* 3. THE OPEN POLYLINE                                                                                               *)
Require Import RQ.DashPos RQ.DashSpec.

(* the pieces of a float op list: every MoveTo starts one, every LineTo continues the current one *)
Fixpoint fpieces_rev (rout : list pathop) : list (list pt) :=
  match rout with
  | [] => []
  | MoveTo p :: r => [p] :: fpieces_rev r
  | LineTo p :: r => match fpieces_rev r with [] => [[p]] | pc :: ps => (p :: pc) :: ps end
  | _ :: r => fpieces_rev r
  end.
Definition fpieces (ops : list pathop) : list (list pt) := rev (map (@rev pt) (fpieces_rev (rev ops))).

Lemma fpieces_rev_eop l : fpieces_rev (map eop l) = map (map ept) (zpieces_rev l).
Proof.
  induction l as [|o l IH]; [reflexivity|]. destruct o as [p|p|]; cbn [map eop fpieces_rev zpieces_rev]; rewrite IH.
  - reflexivity.
  - destruct (zpieces_rev l); reflexivity.
  - reflexivity.
Qed.
Lemma fpieces_eop l : fpieces (map eop l) = map (map ept) (zpieces l).
Proof.
  unfold fpieces, zpieces. rewrite <- (map_rev eop l), fpieces_rev_eop.
  rewrite (map_rev (map ept)), !map_map. f_equal. apply map_ext. intros pc. rewrite map_rev. reflexivity.
Qed.

Lemma zops_ok_polyline p0 pts : pt_ok p0 -> Forall pt_ok pts -> poly_axis p0 pts ->
  zops_ok None None (ZMove p0 :: map ZLine pts).
Proof.
  intros H0 Hp Ha. cbn [zops_ok]. split; [exact H0|]. generalize (Some p0) at 2. revert p0 H0 Ha.
  induction Hp as [|p t Hp Ht IH]; intros p0 H0 Ha sp; cbn [map zops_ok]; [exact I|].
  destruct Ha as [A1 A2]. split; [exact Hp|]. split; [exact A1|]. apply IH; assumption.
Qed.

Section OpenPolyline.
  Variable zarr : list Z.
  Hypothesis Hne : zarr <> [].
  Hypothesis Hpos : Forall (fun a => 1 <= a) zarr.
  Hypothesis Htot : ztotal zarr <= i24.

  Lemma zdash_initial_0 : zdash_initial zarr 0 = initial0 zarr 0 0.
  Proof.
    unfold zdash_initial, initial0. rewrite Z.mod_0_l by (pose proof (ztotal_pos zarr Hne Hpos); lia).
    cbn [Z.to_nat zoffset_loop zs_on zs_rem zs_idx].
    rewrite (zb_succ zarr 0 (Z.le_refl 0)), zb_0. reflexivity.
  Qed.

  (* MAIN THEOREM (offset 0).  For an integer pattern (entries >= 1, period at most 2^24) and an open axis-aligned
     polyline with integer vertices within +-2048, dash_path succeeds, and its output - split into pieces at the
     MoveTos - consists of the points at arc-length positions RP, where RP, once repeated positions are merged and
     pieces without extent dropped, is the list of the pieces [a; vertices strictly between; b] of the 'on' intervals
     [a, b] of the pattern within [0, length], the first one (which the dasher buffers) last. *)
  Theorem dash_open_polyline_exact p0 pts w :
    pt_ok p0 -> Forall pt_ok pts -> poly_axis p0 pts ->
    exists out RP,
      dash_path (map of_int zarr) (mk_path (MoveTo (ept p0) :: map LineTo (map ept pts)) w) f0 = Ok (mk_path out NonZero) /\
      fpieces out = map (map (fun s => ept (point_at p0 pts s))) RP /\
      normZ RP = rot1 (on_pieces zarr 0 p0 pts).
  Proof.
    intros H0 Hp Ha.
    pose proof (zarr_at_pos zarr Hne Hpos) as Hpos1.
    exists (map eop (zdash_path zarr (ZMove p0 :: map ZLine pts) 0)), (ppieces (pdash zarr (initial0 zarr 0 0) (seglens p0 pts))).
    split; [|split].
    - rewrite <- (dash_path_int0 zarr Hne Hpos Htot _ w (zops_ok_polyline p0 pts H0 Hp Ha)).
      cbn [map eop]. rewrite !map_map. reflexivity.
    - unfold zdash_path. rewrite zdash_initial_0.
      rewrite (zdashed_image zarr Hpos1 (initial0 zarr 0 0) p0 pts); [|unfold initial0; cbn [zs_rem]; pose proof (zb_nonneg zarr Hpos1 (0 + 1)); lia|exact Ha].
      rewrite fpieces_eop, zpieces_image, map_map. apply map_ext. intros pc. rewrite map_map. reflexivity.
    - assert (Ho : zb zarr 0 <= 0 <= zb zarr (0 + 1)).
      { rewrite zb_0. pose proof (zb_nonneg zarr Hpos1 (0 + 1)). lia. }
      assert (Hl : Forall (fun l => 0 <= l) (seglens p0 pts)).
      { clear. revert p0. induction pts as [|p t IH]; intros p0; cbn [seglens]; constructor; [apply seglen_nonneg|apply IH]. }
      rewrite (pdash_pieces zarr Hpos1 0 0 (Z.le_refl 0) Ho (seglens p0 pts) Hl).
      rewrite (last_cum_plen pts p0 0), Z.add_0_l. unfold on_pieces. rewrite rot1_map.
      destruct (Z.even 0 && (0 <? Z.min (plen p0 pts) (zb zarr (0 + 1) - 0))) eqn:E; [reflexivity|].
      cbn [Z.even andb] in E. pose proof (zb_step zarr Hpos1 0 (Z.le_refl 0)) as S1. rewrite zb_0 in S1.
      rewrite on_intervals_L0 by (assumption || lia). reflexivity.
  Qed.

  (* the state the offset loop leaves: the pattern position o = off mod T lies in entry idx0 *)
  Lemma zdash_initial_spec off :
    let o := off mod ztotal zarr in
    exists idx0, 0 <= idx0 /\ zb zarr idx0 <= o <= zb zarr (idx0 + 1) /\ (idx0 = 0 \/ zb zarr idx0 < o) /\
                 zdash_initial zarr off = initial0 zarr o idx0.
  Proof.
    intros o. pose proof (ztotal_pos zarr Hne Hpos Htot) as TP. pose proof (zarr_at_pos zarr Hne Hpos) as Hpos1.
    assert (Bo : 0 <= o < ztotal zarr) by (apply Z.mod_pos_bound; lia).
    unfold zdash_initial. fold o. set (s0 := (o, mk_zds true (zarr_at zarr 0) 0)).
    destruct (zoffset_loop_run zarr Hne Hpos (Z.to_nat o) s0) as [_ R2]; [cbn; apply Hpos1|cbn [s0 fst]; lia|].
    set (Inv := fun s : Z * zds => exists idx, 0 <= idx /\ snd s = mk_zds (Z.even idx) (zarr_at zarr idx) idx /\
                                               fst s = o - zb zarr idx /\ 0 <= fst s /\ (idx = 0 \/ 0 < fst s)).
    assert (I : Inv (zoffset_loop zarr (Z.to_nat o) s0)).
    { apply (zoffset_loop_inv zarr Inv).
      - intros [o1 st1] (idx & I1 & I2 & I3 & I4 & I5) G. cbn [fst snd] in *. subst st1. cbn [zs_rem] in G.
        exists (idx + 1). unfold zoffset_next. cbn [fst snd zs_on zs_rem zs_idx]. rewrite (zb_succ zarr idx I1).
        split; [lia|]. split; [rewrite even_succ_negb; reflexivity|]. lia.
      - exists 0. cbn [s0 fst snd]. rewrite zb_0. split; [lia|]. split; [reflexivity|lia]. }
    destruct (zoffset_loop zarr (Z.to_nat o) s0) as [o' st]. destruct I as (idx & I1 & I2 & I3 & I4 & I5).
    cbn [fst snd] in *. subst st. cbn [zs_rem zs_on zs_idx] in *. exists idx.
    rewrite (zb_succ zarr idx I1). split; [exact I1|]. split; [lia|]. split; [lia|]. unfold initial0. rewrite (zb_succ zarr idx I1).
    f_equal. lia.
  Qed.

  (* position 0 of the subpath lies inside a dash: the unit interval after it is on, and so is the one before it
     unless the pattern begins there *)
  Definition starts_in_dash (o : Z) : bool := pattern_on zarr o 0 && ((o =? 0) || pattern_on zarr o (-1)).

  Lemma starts_in_dash_initial off :
    let o := off mod ztotal zarr in
    let st := zdash_initial zarr off in
    zs_on st && (0 <? zs_rem st) = starts_in_dash o.
  Proof.
    intros o st. pose proof (zarr_at_pos zarr Hne Hpos) as Hpos1.
    destruct (zdash_initial_spec off) as (idx0 & I0 & Ho & Hs & Ei). fold o in Ho, Hs, Ei. fold st in Ei.
    rewrite Ei. unfold initial0, starts_in_dash, pattern_on. cbn [zs_on zs_rem]. rewrite Z.add_0_r.
    pose proof (zb_step zarr Hpos1 idx0 I0) as S0.
    destruct (Z.ltb_spec 0 (zb zarr (idx0 + 1) - o)) as [Lt|Ge].
    - rewrite andb_true_r. rewrite (idx_at_unique zarr Hpos1 o idx0 I0) by lia.
      destruct (Z.even idx0) eqn:Ev; [|reflexivity]. cbn [andb].
      destruct Hs as [->|Hs].
      + rewrite zb_0 in *. destruct (Z.eqb_spec o 0) as [|NE]; [reflexivity|]. cbn [orb].
        rewrite (idx_at_unique zarr Hpos1 (o + -1) 0); [reflexivity|lia|rewrite zb_0; lia].
      + rewrite (idx_at_unique zarr Hpos1 (o + -1) idx0 I0) by lia. rewrite Ev, orb_true_r. reflexivity.
    - rewrite andb_false_r. assert (Eo : o = zb zarr (idx0 + 1)) by lia.
      pose proof (zb_step zarr Hpos1 (idx0 + 1) ltac:(lia)) as S1.
      rewrite (idx_at_unique zarr Hpos1 o (idx0 + 1)) by lia. rewrite even_succ_negb.
      destruct (Z.even idx0) eqn:Ev; [reflexivity|]. cbn [negb andb].
      pose proof (zb_nonneg zarr Hpos1 idx0).
      destruct (Z.eqb_spec o 0) as [|NE]; [lia|]. cbn [orb].
      rewrite (idx_at_unique zarr Hpos1 (o + -1) idx0 I0) by lia. rewrite Ev. reflexivity.
  Qed.

  (* MAIN THEOREM (any integer offset).  The pattern is shifted by o = off mod T, T the period (the sum of the array,
     twice for an odd array).  The dash the subpath starts in - if it starts inside one - comes last. *)
  Theorem dash_open_polyline_exact_offset p0 pts w off :
    Z.abs off <= i24 -> off mod ztotal zarr <= 131071 ->
    pt_ok p0 -> Forall pt_ok pts -> poly_axis p0 pts ->
    let o := off mod ztotal zarr in
    let st := zdash_initial zarr off in
    exists out RP,
      dash_path (map of_int zarr) (mk_path (MoveTo (ept p0) :: map LineTo (map ept pts)) w) (of_int off) = Ok (mk_path out NonZero) /\
      fpieces out = map (map (fun s => ept (point_at p0 pts s))) RP /\
      normZ RP = if zs_on st && (0 <? Z.min (plen p0 pts) (zs_rem st)) then rot1 (on_pieces zarr o p0 pts)
                 else on_pieces zarr o p0 pts.
  Proof.
    intros Hoff Hf H0 Hp Ha o st.
    pose proof (zarr_at_pos zarr Hne Hpos) as Hpos1.
    destruct (zdash_initial_spec off) as (idx0 & I0 & Ho & _ & Ei). fold o in Ho, Ei. fold st in Ei.
    exists (map eop (zdash_path zarr (ZMove p0 :: map ZLine pts) off)), (ppieces (pdash zarr (initial0 zarr o idx0) (seglens p0 pts))).
    split; [|split].
    - rewrite <- (dash_path_int zarr Hne Hpos Htot _ w off Hoff Hf (zops_ok_polyline p0 pts H0 Hp Ha)).
      cbn [map eop]. rewrite !map_map. reflexivity.
    - unfold zdash_path. fold st. rewrite Ei.
      rewrite (zdashed_image zarr Hpos1 (initial0 zarr o idx0) p0 pts); [|unfold initial0; cbn [zs_rem]; lia|exact Ha].
      rewrite fpieces_eop, zpieces_image, map_map. apply map_ext. intros pc. rewrite map_map. reflexivity.
    - assert (Hl : Forall (fun l => 0 <= l) (seglens p0 pts)).
      { clear. revert p0. induction pts as [|p t IH]; intros p0; cbn [seglens]; constructor; [apply seglen_nonneg|apply IH]. }
      rewrite (pdash_pieces zarr Hpos1 o idx0 I0 Ho (seglens p0 pts) Hl).
      rewrite (last_cum_plen pts p0 0), Z.add_0_l. unfold on_pieces. rewrite rot1_map.
      rewrite Ei. unfold initial0. cbn [zs_on zs_rem].
      destruct (Z.even idx0 && (0 <? Z.min (plen p0 pts) (zb zarr (idx0 + 1) - o))); reflexivity.
  Qed.

  (* THE SAME WITH POINTS: the output is the embedding of an integer op list whose pieces, once repeated points are
     merged and pieces without extent dropped, are exactly the declared pieces (pieces_spec: for each 'on' interval
     [a, b] of the shifted pattern within [0, length], the point at arc length a, the vertices strictly between, the
     point at arc length b), the dash the subpath starts in last. *)
  Lemma dash_open_polyline_pieces_offset_explicit p0 pts w off :
    Z.abs off <= i24 -> off mod ztotal zarr <= 131071 ->
    pt_ok p0 -> Forall pt_ok pts -> poly_axis p0 pts ->
    let o := off mod ztotal zarr in
    let st := zdash_initial zarr off in
    let zout := zdash_path zarr (ZMove p0 :: map ZLine pts) off in
      dash_path (map of_int zarr) (mk_path (MoveTo (ept p0) :: map LineTo (map ept pts)) w) (of_int off) =
        Ok (mk_path (map eop zout) NonZero) /\
      znorm (zpieces zout) = if zs_on st && (0 <? Z.min (plen p0 pts) (zs_rem st)) then rot1 (pieces_spec zarr o p0 pts)
                             else pieces_spec zarr o p0 pts.
  Proof.
    intros Hoff Hf H0 Hp Ha o st zout. unfold zout.
    pose proof (zarr_at_pos zarr Hne Hpos) as Hpos1.
    destruct (zdash_initial_spec off) as (idx0 & I0 & Ho & _ & Ei). fold o in Ho, Ei. fold st in Ei.
    split.
    - rewrite <- (dash_path_int zarr Hne Hpos Htot _ w off Hoff Hf (zops_ok_polyline p0 pts H0 Hp Ha)).
      cbn [map eop]. rewrite !map_map. reflexivity.
    - unfold zdash_path. fold st. rewrite Ei.
      rewrite (zdashed_image zarr Hpos1 (initial0 zarr o idx0) p0 pts); [|unfold initial0; cbn [zs_rem]; lia|exact Ha].
      rewrite zpieces_image, (pdash_point_pieces zarr Hpos1 o idx0 I0 Ho p0 pts Ha).
      unfold pieces_spec, on_pieces. unfold initial0. cbn [zs_on zs_rem].
      destruct (Z.even idx0 && (0 <? Z.min (plen p0 pts) (zb zarr (idx0 + 1) - o))); rewrite ?rot1_map; reflexivity.
  Qed.

  Theorem dash_open_polyline_pieces_offset p0 pts w off :
    Z.abs off <= i24 -> off mod ztotal zarr <= 131071 ->
    pt_ok p0 -> Forall pt_ok pts -> poly_axis p0 pts ->
    let o := off mod ztotal zarr in
    let st := zdash_initial zarr off in
    exists zout,
      dash_path (map of_int zarr) (mk_path (MoveTo (ept p0) :: map LineTo (map ept pts)) w) (of_int off) =
        Ok (mk_path (map eop zout) NonZero) /\
      znorm (zpieces zout) = if zs_on st && (0 <? Z.min (plen p0 pts) (zs_rem st)) then rot1 (pieces_spec zarr o p0 pts)
                             else pieces_spec zarr o p0 pts.
  Proof.
    intros Hoff Hf H0 Hp Ha o st. exists (zdash_path zarr (ZMove p0 :: map ZLine pts) off).
    exact (dash_open_polyline_pieces_offset_explicit p0 pts w off Hoff Hf H0 Hp Ha).
  Qed.

  (* THE STATEMENT OF C09 ON THE SUB-DOMAIN, in declarative terms only: pattern_on (the cyclically repeated array as a
     function of position), its maximal runs on_intervals (on_intervals_sound / _complete / _sorted), the points of the
     polyline at given arc lengths (point_at) and its vertices. *)
  Lemma rot_cond_decl {A} off L (ps : list A) : (L <= 0 -> ps = []) ->
    let o := off mod ztotal zarr in
    let st := zdash_initial zarr off in
    (if zs_on st && (0 <? Z.min L (zs_rem st)) then rot1 ps else ps) = (if starts_in_dash o then rot1 ps else ps).
  Proof.
    intros HL o st. pose proof (starts_in_dash_initial off) as Es. cbv zeta in Es. fold o st in Es. rewrite <- Es.
    destruct (Z.ltb_spec 0 L) as [Lp|Lz].
    - replace (0 <? Z.min L (zs_rem st)) with (0 <? zs_rem st); [reflexivity|].
      destruct (Z.ltb_spec 0 (zs_rem st)), (Z.ltb_spec 0 (Z.min L (zs_rem st))); try reflexivity; lia.
    - rewrite (HL Lz). destruct (zs_on st && (0 <? Z.min L (zs_rem st))), (zs_on st && (0 <? zs_rem st)); reflexivity.
  Qed.
  Lemma pieces_spec_L0 o p0 pts : plen p0 pts <= 0 -> pieces_spec zarr o p0 pts = [].
  Proof.
    intros H. unfold pieces_spec, on_pieces. rewrite on_intervals_L0; [reflexivity|apply (zarr_at_pos zarr Hne Hpos)|exact H].
  Qed.

  Theorem dash_open_polyline_spec p0 pts w off :
    Z.abs off <= i24 -> off mod ztotal zarr <= 131071 ->
    pt_ok p0 -> Forall pt_ok pts -> poly_axis p0 pts ->
    let o := off mod ztotal zarr in
    exists zout,
      dash_path (map of_int zarr) (mk_path (MoveTo (ept p0) :: map LineTo (map ept pts)) w) (of_int off) =
        Ok (mk_path (map eop zout) NonZero) /\
      znorm (zpieces zout) = if starts_in_dash o then rot1 (pieces_spec zarr o p0 pts) else pieces_spec zarr o p0 pts.
  Proof.
    intros Hoff Hf H0 Hp Ha o.
    destruct (dash_open_polyline_pieces_offset p0 pts w off Hoff Hf H0 Hp Ha) as (zout & E1 & E2). fold o in E2.
    exists zout. split; [exact E1|]. rewrite E2. apply rot_cond_decl, pieces_spec_L0.
  Qed.

  Corollary dash_open_polyline_pieces p0 pts w :
    pt_ok p0 -> Forall pt_ok pts -> poly_axis p0 pts ->
    exists zout,
      dash_path (map of_int zarr) (mk_path (MoveTo (ept p0) :: map LineTo (map ept pts)) w) f0 =
        Ok (mk_path (map eop zout) NonZero) /\
      znorm (zpieces zout) = rot1 (pieces_spec zarr 0 p0 pts).
  Proof.
    intros H0 Hp Ha. pose proof (ztotal_pos zarr Hne Hpos Htot) as TP.
    pose proof (zarr_at_pos zarr Hne Hpos) as Hpos1.
    destruct (dash_open_polyline_pieces_offset p0 pts w 0) as (zout & E1 & E2); try assumption.
    - unfold i24. lia.
    - rewrite Z.mod_0_l by lia. lia.
    - exists zout. split; [exact E1|]. rewrite E2. rewrite Z.mod_0_l by lia.
      destruct (zs_on (zdash_initial zarr 0) && (0 <? Z.min (plen p0 pts) (zs_rem (zdash_initial zarr 0)))) eqn:E; [reflexivity|].
      rewrite zdash_initial_0 in E. unfold initial0 in E. cbn [zs_on zs_rem Z.even andb] in E.
      pose proof (zb_step zarr Hpos1 0 (Z.le_refl 0)) as S1. rewrite zb_0 in S1.
      unfold pieces_spec, on_pieces. rewrite on_intervals_L0 by (assumption || lia). reflexivity.
  Qed.

  (* ONE SEGMENT (after the first dash of the subpath).  The segment cur -> p, of length len, starts at pattern
     position u inside entry idx.  The model cuts it exactly at the k boundaries zb (idx+1) < ... < zb (idx+k) of the
     pattern that lie before u + len (a boundary at u + len itself is left to the next segment), emitting there MoveTo
     when a dash begins (even entry) and LineTo when one ends, at the exact integer points cur + dir * (zb j - u); then
     LineTo p or MoveTo p; and it leaves the state of pattern position u + len inside entry idx + k. *)
  Theorem dash_segment_exact (initial : zds) (a : zacc) cur p idx u :
    st_ok initial -> za_cur a = Some cur -> pt_ok cur -> opt_ok (za_startp a) -> pt_ok p -> axis (zsub p cur) ->
    za_first a = false -> 0 <= idx -> zb zarr idx <= u <= zb zarr (idx + 1) ->
    za_st a = mk_zds (Z.even idx) (zb zarr (idx + 1) - u) idx ->
    let len := seglen cur p in
    exists k a',
      dash_op (map of_int zarr) (est initial) (eacc a) (LineTo (ept p)) = Ok a' /\
      da_cur a' = Some (ept p) /\ da_first a' = false /\ da_init a' = map ept (za_init a) /\
      da_st a' = est (mk_zds (Z.even (idx + Z.of_nat k)) (zb zarr (idx + Z.of_nat k + 1) - (u + len)) (idx + Z.of_nat k)) /\
      da_out a' = map eop ((if Z.even (idx + Z.of_nat k) then ZLine p else ZMove p)
                           :: rev (cut_ops zarr cur p u (idx + 1) k) ++ za_out a) /\
      (k = O \/ zb zarr (idx + Z.of_nat k) < u + len) /\ u + len <= zb zarr (idx + Z.of_nat k + 1).
  Proof.
    intros Hi Hc Hpc Hsp Hp Hax Hf Hidx Hu Hst len.
    pose proof (zarr_at_pos zarr Hne Hpos) as Hpos1.
    pose proof (Hent_of_total zarr Hpos Htot) as Hent. pose proof (zarr_at_bound zarr Hne Hent idx) as AB.
    pose proof (zb_succ zarr idx Hidx) as Sb.
    assert (Hok : acc_ok a).
    { split; [rewrite Hc; exact Hpc|]. split; [exact Hsp|]. unfold st_ok. rewrite Hst. cbn [zs_rem]. lia. }
    assert (Hop : op_ok a (ZLine p)) by (cbn [op_ok]; rewrite Hc; split; assumption).
    destruct (dash_op_sim zarr Hne Hent initial a (ZLine p) Hi Hok Hop) as [E _].
    cbn [eop] in E. cbn [zdash_op] in E. rewrite Hc in E.
    set (c0 := mk_zchop (zlen1 (zsub p cur)) cur (za_st a) (za_first a) (za_fdash a) (za_init a) (za_out a)).
    destruct (zchop_loop_cuts zarr Hpos1 cur p u len (zchop_fuel (zlen1 (zsub p cur))) c0 idx u Hidx Hf Hst)
      as (k & K1 & K2 & K3 & K4 & K5 & K6 & K7); cbn [c0 zc_start zc_len zc_st]; try lia.
    - rewrite Z.sub_diag, move_0. reflexivity.
    - unfold len, seglen. lia.
    - unfold zlen1. lia.
    - unfold zchop_fuel. pose proof (seglen_nonneg cur p). unfold seglen in *. destruct (zs_rem (za_st a) =? 0); lia.
    - cbv zeta in *. unfold zchop_all in E. fold c0 in E.
      set (c := zchop_loop zarr (zchop_fuel (zlen1 (zsub p cur))) (zdir (zsub p cur)) c0) in *.
      eexists k, _. split; [exact E|]. rewrite K1, K5, K6, K7. cbn [eacc da_cur da_first da_init da_st da_out za_cur za_first za_init za_st za_out zs_on zs_rem zs_idx option_map c0 zc_init zc_out].
      rewrite andb_false_r. split; [reflexivity|]. split; [reflexivity|]. split; [reflexivity|]. split; [f_equal; f_equal; lia|].
      split; [destruct (Z.even (idx + Z.of_nat k)); reflexivity|]. split; assumption.
  Qed.
End OpenPolyline.
Print Assumptions dash_open_polyline_exact.
Print Assumptions dash_segment_exact.
Print Assumptions dash_open_polyline_exact_offset.
Print Assumptions dash_open_polyline_pieces_offset.
Print Assumptions dash_open_polyline_pieces.
Print Assumptions dash_open_polyline_spec.

(* ================================================================================================================== *)
(* 3b. THE CLOSED SUBPATH                                                                                             *)
Require Import RQ.DashClosed.

Lemma zops_ok_closed p0 pts : pt_ok p0 -> Forall pt_ok pts -> poly_axis p0 (pts ++ [p0]) ->
  zops_ok None None (ZMove p0 :: map ZLine pts ++ [ZClose]).
Proof.
  intros H0 Hp Ha. cbn [zops_ok]. split; [exact H0|].
  assert (G : forall cur, poly_axis cur (pts ++ [p0]) -> zops_ok (Some cur) (Some p0) (map ZLine pts ++ [ZClose])).
  { clear Ha. induction Hp as [|p t Hp Ht IH]; intros cur Ha; cbn [map app zops_ok].
    - cbn [app poly_axis] in Ha. split; [apply Ha|exact I].
    - change ((p :: t) ++ [p0]) with (p :: (t ++ [p0])) in Ha. destruct Ha as [A1 A2].
      split; [exact Hp|]. split; [exact A1|]. apply IH, A2. }
  apply G, Ha.
Qed.

Section ClosedSubpath.
  Variable zarr : list Z.
  Hypothesis Hne : zarr <> [].
  Hypothesis Hpos : Forall (fun a => 1 <= a) zarr.
  Hypothesis Htot : ztotal zarr <= i24.

  (* CLOSED SUBPATH.  M p0, L pts.., Close  is dashed like the open polyline  M p0, L pts.., L p0  (whose pieces
     dash_open_polyline_pieces_offset gives), except that
     (b) when the subpath ends inside a dash and began inside a (buffered) dash, the piece reaching the end and the
         piece at the start, which the open polyline emits as two pieces  .. p0  and  p0 .. , are emitted as one, and
     (c) when the whole subpath, closing segment included, lies inside the dash it starts in, the outline is emitted
         closed: M p0, L .., Close. *)
  Theorem dash_closed_subpath_exact p0 pts w off :
    Z.abs off <= i24 -> off mod ztotal zarr <= 131071 ->
    pt_ok p0 -> Forall pt_ok pts -> poly_axis p0 (pts ++ [p0]) ->
    let o := off mod ztotal zarr in
    exists zc zo,
      dash_path (map of_int zarr) (mk_path (MoveTo (ept p0) :: map LineTo (map ept pts) ++ [Close]) w) (of_int off) =
        Ok (mk_path (map eop zc) NonZero) /\
      dash_path (map of_int zarr) (mk_path (MoveTo (ept p0) :: map LineTo (map ept (pts ++ [p0]))) w) (of_int off) =
        Ok (mk_path (map eop zo) NonZero) /\
      znorm (zpieces zo) = (if starts_in_dash zarr o then rot1 (pieces_spec zarr o p0 (pts ++ [p0]))
                            else pieces_spec zarr o p0 (pts ++ [p0])) /\
      (znorm (zpieces zc) = znorm (zpieces zo) \/
       (exists xs pa pb, zpieces zo = xs ++ [pa ++ [p0]; p0 :: pb] /\ zpieces zc = xs ++ [pa ++ p0 :: pb]) \/
       (exists buf, zc = ZMove p0 :: map ZLine buf ++ [ZClose] /\ zpieces zo = [[p0]; buf ++ [last pts p0; p0]])).
  Proof.
    intros Hoff Hf H0 Hp Ha o.
    assert (Hp' : Forall pt_ok (pts ++ [p0])) by (apply Forall_app; split; [exact Hp|constructor; [exact H0|constructor]]).
    destruct (dash_open_polyline_pieces_offset_explicit zarr Hne Hpos Htot p0 (pts ++ [p0]) w off Hoff Hf H0 Hp' Ha) as (E1 & E2).
    exists (zdash_path zarr (ZMove p0 :: map ZLine pts ++ [ZClose]) off), (zdash_path zarr (ZMove p0 :: map ZLine (pts ++ [p0])) off).
    split; [|split; [exact E1|split]].
    - rewrite <- (dash_path_int zarr Hne Hpos Htot _ w off Hoff Hf (zops_ok_closed p0 pts H0 Hp Ha)).
      cbn [map eop]. rewrite map_app, !map_map. reflexivity.
    - rewrite E2. apply (rot_cond_decl zarr Hne Hpos Htot), (pieces_spec_L0 zarr Hne Hpos).
    - unfold zdash_path. apply zdashed_closed_vs_open.
  Qed.
End ClosedSubpath.
Print Assumptions dash_closed_subpath_exact.

(* ================================================================================================================== *)
(* 3c. SEVERAL SUBPATHS: the pattern restarts at every MoveTo                                                         *)
Section Subpaths.
  Variable zarr : list Z.
  Hypothesis Hne : zarr <> [].
  Hypothesis Hpos : Forall (fun a => 1 <= a) zarr.
  Hypothesis Htot : ztotal zarr <= i24.

  Definition sub_fops (s : zpt * list zpt) : list pathop := MoveTo (ept (fst s)) :: map LineTo (map ept (snd s)).
  Definition sub_ok (s : zpt * list zpt) : Prop := pt_ok (fst s) /\ Forall pt_ok (snd s) /\ poly_axis (fst s) (snd s).

  (* a path made of open polylines: the pieces are those of each polyline on its own (arc length and pattern restart at
     every MoveTo), one polyline after the other *)
  Theorem dash_open_polylines_spec (subs : list (zpt * list zpt)) w off :
    Z.abs off <= i24 -> off mod ztotal zarr <= 131071 -> Forall sub_ok subs ->
    let o := off mod ztotal zarr in
    exists zout,
      dash_path (map of_int zarr) (mk_path (concat (map sub_fops subs)) w) (of_int off) = Ok (mk_path (map eop zout) NonZero) /\
      znorm (zpieces zout) =
      concat (map (fun s => if starts_in_dash zarr o then rot1 (pieces_spec zarr o (fst s) (snd s))
                            else pieces_spec zarr o (fst s) (snd s)) subs).
  Proof.
    intros Hoff Hf Hs o. induction Hs as [|s rest Hs1 Hs IH].
    - exists []. split; [|reflexivity]. cbn [map concat].
      exact (dash_path_int zarr Hne Hpos Htot [] w off Hoff Hf I).
    - destruct IH as (z2 & E2 & N2). destruct Hs1 as (S1 & S2 & S3).
      destruct (dash_open_polyline_spec zarr Hne Hpos Htot (fst s) (snd s) w off Hoff Hf S1 S2 S3) as (z1 & E1 & N1).
      fold o in N1. fold (sub_fops s) in E1.
      destruct rest as [|s2 rest].
      + exists z1. cbn [map concat]. rewrite !app_nil_r. split; [exact E1|exact N1].
      + exists (z1 ++ z2). split.
        * cbn [map concat]. cbn [map concat] in E2. unfold sub_fops at 2. unfold sub_fops at 1 in E2.
          rewrite <- app_comm_cons. rewrite <- app_comm_cons in E2.
          rewrite (dash_path_concat _ (sub_fops s) _ _ w w w). rewrite E1. cbn [bind].
          rewrite E2. cbn [bind p_ops]. rewrite map_app. reflexivity.
        * (* z2 begins with a MoveTo: it is the output of a path that begins with one *)
          assert (Hz2 : exists p b, z2 = ZMove p :: b).
          { cbn [map concat] in E2. unfold sub_fops at 1 in E2. rewrite <- app_comm_cons in E2. rewrite dash_path_unfold in E2.
            rewrite (dash_total_gt zarr Hne Hpos Htot) in E2. cbn [negb] in E2.
            destruct (dash_initial (map of_int zarr) (of_int off)) as [ini|]; [|discriminate].
            cbn [p_ops] in E2. unfold dashed in E2.
            change (MoveTo (ept (fst s2)) :: map LineTo (map ept (snd s2)) ++ concat (map sub_fops rest))
              with ([MoveTo (ept (fst s2))] ++ (map LineTo (map ept (snd s2)) ++ concat (map sub_fops rest))) in E2.
            rewrite dash_ops_app in E2. cbn [dash_ops dash_op bind da_init da_out flush_initial] in E2.
            set (a0 := mk_da (Some (ept (fst s2))) (Some (ept (fst s2))) true true [] ini [MoveTo (ept (fst s2))]) in E2.
            destruct (dash_ops (map of_int zarr) ini a0 _) as [a1|e] eqn:Ea; cbn [bind] in E2; [|discriminate].
            destruct (dash_ops_out _ _ _ _ _ Ea) as (nw & En & _). cbn [a0 da_out] in En.
            inversion E2 as [E3]. rewrite flush_initial_split, En in E3.
            rewrite !rev_app_distr in E3. cbn [rev app] in E3.
            destruct z2 as [|[q|q|] b]; cbn [map eop] in E3; try discriminate. eauto. }
          destruct Hz2 as (q & b & ->). rewrite zpieces_app_move, znorm_app, N1, N2. reflexivity.
  Qed.
End Subpaths.
Print Assumptions dash_open_polylines_spec.

(* ================================================================================================================== *)
(* 4. NON-VACUITY                                                                                                     *)
Module DashExactExamples.
  Import DashShape.Examples.
  Definition Lsh : list zpt := [(10, 0); (10, 7)].
  Definition zpath (p0 : zpt) (pts : list zpt) : path := mk_path (MoveTo (ept p0) :: map LineTo (map ept pts)) NonZero.

  Lemma hyps_ok zarr p0 pts :
    (match zarr with [] => false | _ => true end) && forallb (fun a => 1 <=? a) zarr && (ztotal zarr <=? i24) &&
    forallb (fun p => (Z.abs (fst p) <=? cbound) && (Z.abs (snd p) <=? cbound)) (p0 :: pts) = true ->
    zarr <> [] /\ Forall (fun a => 1 <= a) zarr /\ ztotal zarr <= i24 /\ pt_ok p0 /\ Forall pt_ok pts.
  Proof.
    intros H. apply andb_true_iff in H. destruct H as [H H4]. apply andb_true_iff in H. destruct H as [H H3].
    apply andb_true_iff in H. destruct H as [H1 H2].
    split; [destruct zarr; [discriminate|congruence]|]. split.
    { apply Forall_forall. intros a Ha. rewrite forallb_forall in H2. specialize (H2 a Ha). lia. }
    split; [lia|].
    assert (F : Forall pt_ok (p0 :: pts)).
    { apply Forall_forall. intros p Hp. rewrite forallb_forall in H4. specialize (H4 p Hp). unfold pt_ok. lia. }
    inversion F; subst. split; assumption.
  Qed.

  (* (0,0) - (10,0) - (10,7), pattern [3; 2]: on [0,3] [5,8] [10,13] [15,17] *)
  Example L32_model :
    shown (dash_path (map of_int [3; 2]) (zpath (0, 0) Lsh) f0) =
    map show (map eop [ZMove (0, 0); ZMove (5, 0); ZLine (8, 0); ZMove (10, 0); ZMove (10, 0); ZLine (10, 3);
                       ZMove (10, 5); ZLine (10, 7); ZMove (0, 0); ZLine (3, 0)]).
  Proof. vm_compute. reflexivity. Qed.
  Example L32_intervals : on_intervals [3; 2] 0 17 = [(0, 3); (5, 8); (10, 13); (15, 17)].
  Proof. vm_compute. reflexivity. Qed.
  Example L32_spec :
    pieces_spec [3; 2] 0 (0, 0) Lsh = [[(0, 0); (3, 0)]; [(5, 0); (8, 0)]; [(10, 0); (10, 3)]; [(10, 5); (10, 7)]].
  Proof. vm_compute. reflexivity. Qed.
  (* the theorem, instantiated *)
  Example L32_theorem : exists zout,
    dash_path (map of_int [3; 2]) (zpath (0, 0) Lsh) f0 = Ok (mk_path (map eop zout) NonZero) /\
    znorm (zpieces zout) = [[(5, 0); (8, 0)]; [(10, 0); (10, 3)]; [(10, 5); (10, 7)]; [(0, 0); (3, 0)]].
  Proof.
    destruct (hyps_ok [3; 2] (0, 0) Lsh eq_refl) as (H1 & H2 & H3 & H4 & H5).
    destruct (dash_open_polyline_pieces [3; 2] H1 H2 H3 (0, 0) Lsh NonZero H4 H5) as (zout & E1 & E2).
    { cbn. unfold axis. cbn. auto. }
    exists zout. split; [exact E1|]. rewrite E2. vm_compute. reflexivity.
  Qed.

  (* the same polyline, pattern [4] (odd length: on 4, off 4): on [0,4] [8,12] [16,17]; the middle piece goes round
     the corner *)
  Example L4_model :
    shown (dash_path (map of_int [4]) (zpath (0, 0) Lsh) f0) =
    map show (map eop [ZMove (0, 0); ZMove (8, 0); ZLine (10, 0); ZLine (10, 2); ZMove (10, 6); ZLine (10, 7);
                       ZMove (0, 0); ZLine (4, 0)]).
  Proof. vm_compute. reflexivity. Qed.
  Example L4_spec :
    pieces_spec [4] 0 (0, 0) Lsh = [[(0, 0); (4, 0)]; [(8, 0); (10, 0); (10, 2)]; [(10, 6); (10, 7)]].
  Proof. vm_compute. reflexivity. Qed.
  Example L4_theorem : exists zout,
    dash_path (map of_int [4]) (zpath (0, 0) Lsh) f0 = Ok (mk_path (map eop zout) NonZero) /\
    znorm (zpieces zout) = [[(8, 0); (10, 0); (10, 2)]; [(10, 6); (10, 7)]; [(0, 0); (4, 0)]].
  Proof.
    destruct (hyps_ok [4] (0, 0) Lsh eq_refl) as (H1 & H2 & H3 & H4 & H5).
    destruct (dash_open_polyline_pieces [4] H1 H2 H3 (0, 0) Lsh NonZero H4 H5) as (zout & E1 & E2).
    { cbn. unfold axis. cbn. auto. }
    exists zout. split; [exact E1|]. rewrite E2. vm_compute. reflexivity.
  Qed.

  (* offsets: 4 (the subpath starts in a gap: nothing is buffered, no rotation) and -1 (= 4 modulo 5) *)
  Example L32_offset4_spec :
    pieces_spec [3; 2] 4 (0, 0) Lsh = [[(1, 0); (4, 0)]; [(6, 0); (9, 0)]; [(10, 1); (10, 4)]; [(10, 6); (10, 7)]].
  Proof. vm_compute. reflexivity. Qed.
  Example L32_offset_theorem : exists zout,
    dash_path (map of_int [3; 2]) (zpath (0, 0) Lsh) (of_int (-1)) = Ok (mk_path (map eop zout) NonZero) /\
    znorm (zpieces zout) = [[(1, 0); (4, 0)]; [(6, 0); (9, 0)]; [(10, 1); (10, 4)]; [(10, 6); (10, 7)]].
  Proof.
    destruct (hyps_ok [3; 2] (0, 0) Lsh eq_refl) as (H1 & H2 & H3 & H4 & H5).
    destruct (dash_open_polyline_pieces_offset [3; 2] H1 H2 H3 (0, 0) Lsh NonZero (-1) ltac:(unfold i24; lia)
                ltac:(vm_compute; intros H; discriminate H) H4 H5 ltac:(cbn; unfold axis; cbn; auto)) as (zout & E1 & E2).
    exists zout. split; [exact E1|]. rewrite E2. vm_compute. reflexivity.
  Qed.
  (* offset 1: the subpath starts inside a dash (2 of its 3 units remain): that dash comes last *)
  Example L32_offset1_theorem : exists zout,
    dash_path (map of_int [3; 2]) (zpath (0, 0) Lsh) (of_int 1) = Ok (mk_path (map eop zout) NonZero) /\
    znorm (zpieces zout) = [[(4, 0); (7, 0)]; [(9, 0); (10, 0); (10, 2)]; [(10, 4); (10, 7)]; [(0, 0); (2, 0)]].
  Proof.
    destruct (hyps_ok [3; 2] (0, 0) Lsh eq_refl) as (H1 & H2 & H3 & H4 & H5).
    destruct (dash_open_polyline_pieces_offset [3; 2] H1 H2 H3 (0, 0) Lsh NonZero 1 ltac:(unfold i24; lia)
                ltac:(vm_compute; intros H; discriminate H) H4 H5 ltac:(cbn; unfold axis; cbn; auto)) as (zout & E1 & E2).
    exists zout. split; [exact E1|]. rewrite E2. vm_compute. reflexivity.
  Qed.

  (* a 10 x 10 square traversed as an open polyline back to its start, pattern [7; 4] *)
  Definition sq : list zpt := [(10, 0); (10, 10); (0, 10); (0, 0)].
  Example square_spec :
    pieces_spec [7; 4] 0 (0, 0) sq =
    [[(0, 0); (7, 0)]; [(10, 1); (10, 8)]; [(8, 10); (1, 10)]; [(0, 7); (0, 0)]].
  Proof. vm_compute. reflexivity. Qed.
  Example square_theorem : exists zout,
    dash_path (map of_int [7; 4]) (zpath (0, 0) sq) f0 = Ok (mk_path (map eop zout) NonZero) /\
    znorm (zpieces zout) = [[(10, 1); (10, 8)]; [(8, 10); (1, 10)]; [(0, 7); (0, 0)]; [(0, 0); (7, 0)]].
  Proof.
    destruct (hyps_ok [7; 4] (0, 0) sq eq_refl) as (H1 & H2 & H3 & H4 & H5).
    destruct (dash_open_polyline_pieces [7; 4] H1 H2 H3 (0, 0) sq NonZero H4 H5) as (zout & E1 & E2).
    { cbn. unfold axis. cbn. tauto. }
    exists zout. split; [exact E1|]. rewrite E2. vm_compute. reflexivity.
  Qed.
  (* the same square closed with Close (computed): the piece reaching the end is joined to the piece at the start,
     ... M (0,7), L (0,0), L (7,0) *)
  Example square_closed_model :
    shown (dash_path (map of_int [7; 4])
             (mk_path (MoveTo (ept (0, 0)) :: map LineTo (map ept [(10, 0); (10, 10); (0, 10)]) ++ [Close]) NonZero) f0) =
    map show (map eop [ZMove (0, 0); ZMove (10, 0); ZMove (10, 1); ZLine (10, 8); ZMove (10, 10); ZMove (8, 10);
                       ZLine (1, 10); ZMove (0, 10); ZMove (0, 7); ZLine (0, 0); ZLine (7, 0)]).
  Proof. vm_compute. reflexivity. Qed.

  (* the integer outputs: open version ends with the pieces (0,7)-(0,0) and (0,0)-(7,0); closed version joins them *)
  Example square_closed_pieces :
    zpieces (zdash_path [7; 4] (ZMove (0, 0) :: map ZLine sq) 0) =
      [[(0, 0)]; [(10, 0)]; [(10, 1); (10, 8)]; [(10, 10)]; [(8, 10); (1, 10)]; [(0, 10)]; [(0, 7); (0, 0)]; [(0, 0); (7, 0)]] /\
    zpieces (zdash_path [7; 4] (ZMove (0, 0) :: map ZLine [(10, 0); (10, 10); (0, 10)] ++ [ZClose]) 0) =
      [[(0, 0)]; [(10, 0)]; [(10, 1); (10, 8)]; [(10, 10)]; [(8, 10); (1, 10)]; [(0, 10)]; [(0, 7); (0, 0); (7, 0)]].
  Proof. split; vm_compute; reflexivity. Qed.
  (* a square inside the first dash: the closed outline *)
  Example square_whole_closed :
    zdash_path [100] (ZMove (0, 0) :: map ZLine [(10, 0); (10, 10); (0, 10)] ++ [ZClose]) 0 =
    [ZMove (0, 0); ZLine (0, 0); ZLine (10, 0); ZLine (10, 0); ZLine (10, 10); ZLine (10, 10); ZLine (0, 10); ZClose].
  Proof. vm_compute. reflexivity. Qed.

  (* two subpaths: the pattern (and the arc length) restarts at the second MoveTo *)
  Example two_subpaths_theorem : exists zout,
    dash_path (map of_int [3; 2]) (mk_path (concat (map sub_fops [((0, 0), [(10, 0)]); ((0, 5), [(0, 12)])])) NonZero) f0 =
      Ok (mk_path (map eop zout) NonZero) /\
    znorm (zpieces zout) = [[(5, 0); (8, 0)]; [(0, 0); (3, 0)]; [(0, 10); (0, 12)]; [(0, 5); (0, 8)]].
  Proof.
    destruct (hyps_ok [3; 2] (0, 0) [(10, 0); (0, 5); (0, 12)] eq_refl) as (H1 & H2 & H3 & H4 & H5).
    destruct (dash_open_polylines_spec [3; 2] H1 H2 H3 [((0, 0), [(10, 0)]); ((0, 5), [(0, 12)])] NonZero 0
                ltac:(unfold i24; lia) ltac:(vm_compute; intros H; discriminate H)) as (zout & E1 & E2).
    { constructor; [|constructor; [|constructor]];
        (split; [unfold pt_ok, cbound; cbn; lia|]; split; [constructor; [unfold pt_ok, cbound; cbn; lia|constructor]|];
         cbn; unfold axis; cbn; auto). }
    exists zout. split; [exact E1|]. rewrite E2. vm_compute. reflexivity.
  Qed.

  (* one segment: (0,0) -> (10,0) from the state 'entry 1 (a gap), 1 unit left' of pattern [3; 2], i.e. pattern
     position 4: boundaries 5, 8, 10 are before 4 + 10, so three cuts, at 1, 4, 6 *)
  Example segment_cuts : cut_ops [3; 2] (0, 0) (10, 0) 4 2 3 = [ZMove (1, 0); ZLine (4, 0); ZMove (6, 0)].
  Proof. vm_compute. reflexivity. Qed.
End DashExactExamples.
