(* C09: the integer dasher along one open polyline only depends on the segment lengths: its output is the image, under
   the arc-length parametrisation of the polyline, of the output of a dasher working on arc-length positions. *)
From Coq Require Import ZArith List Lia Bool ZifyBool.
Require Import RQ.Base RQ.Contains RQ.DashZ.
Import ListNotations.
Open Scope Z_scope.

(* ---- arc length on an integer axis-aligned polyline cur -> pts ---- *)
Definition seglen (a b : zpt) : Z := zlen1 (zsub b a).
Fixpoint plen (cur : zpt) (pts : list zpt) : Z :=
  match pts with [] => 0 | p :: t => seglen cur p + plen p t end.
Fixpoint seglens (cur : zpt) (pts : list zpt) : list Z :=
  match pts with [] => [] | p :: t => seglen cur p :: seglens p t end.
(* the point at distance s from cur towards p *)
Definition move (cur p : zpt) (s : Z) : zpt := zadd cur (zscale (zdir (zsub p cur)) s).
(* the point at arc length s (the end point beyond the total length) *)
Fixpoint point_at (cur : zpt) (pts : list zpt) (s : Z) : zpt :=
  match pts with
  | [] => cur
  | p :: t => if s <? seglen cur p then move cur p s else point_at p t (s - seglen cur p)
  end.
Fixpoint poly_axis (cur : zpt) (pts : list zpt) : Prop :=
  match pts with [] => True | p :: t => axis (zsub p cur) /\ poly_axis p t end.

Lemma seglen_nonneg a b : 0 <= seglen a b.
Proof. unfold seglen, zlen1. lia. Qed.
Lemma plen_nonneg cur pts : 0 <= plen cur pts.
Proof. revert cur. induction pts as [|p t IH]; intros cur; cbn [plen]; [lia|]. pose proof (seglen_nonneg cur p). specialize (IH p). lia. Qed.
Lemma seglen_0 a b : seglen a b = 0 -> b = a.
Proof. destruct a, b. unfold seglen, zlen1, zsub. cbn [fst snd]. intros H. f_equal; lia. Qed.
Lemma move_0 cur p : move cur p 0 = cur.
Proof. destruct cur. unfold move, zadd, zscale. cbn [fst snd]. f_equal; lia. Qed.
Lemma move_len cur p : axis (zsub p cur) -> move cur p (seglen cur p) = p.
Proof.
  destruct cur as [cx cy], p as [x y]. unfold move, seglen, axis, zsub, zadd, zscale, zdir, zlen1. cbn [fst snd]. intros A.
  f_equal; destruct A as [A|A]; rewrite ?A; cbn [Z.abs Z.sgn]; lia.
Qed.
Lemma move_add cur p a b : zadd (move cur p a) (zscale (zdir (zsub p cur)) b) = move cur p (a + b).
Proof. unfold move, zadd, zscale. cbn [fst snd]. f_equal; ring. Qed.

Lemma point_at_0 pts : forall cur, point_at cur pts 0 = cur.
Proof.
  induction pts as [|p t IH]; intros cur; cbn [point_at]; [reflexivity|].
  pose proof (seglen_nonneg cur p). destruct (Z.ltb_spec 0 (seglen cur p)); [apply move_0|].
  assert (E : seglen cur p = 0) by lia. rewrite E, Z.sub_0_r, IH. apply seglen_0. exact E.
Qed.
Lemma last_cons_def {A} (d : A) t cur : last (d :: t) cur = last t d.
Proof.
  revert d cur. induction t as [|x t IH]; intros d cur; [reflexivity|].
  change (last (d :: x :: t) cur) with (last (x :: t) cur). rewrite !IH. reflexivity.
Qed.
Lemma plen_app done : forall cur rest, plen cur (done ++ rest) = plen cur done + plen (last done cur) rest.
Proof.
  induction done as [|d t IH]; intros cur rest; [cbn; lia|].
  change ((d :: t) ++ rest) with (d :: (t ++ rest)). cbn [plen]. rewrite IH, last_cons_def. lia.
Qed.
(* beyond the part `done`, the parametrisation is that of the rest *)
Lemma point_at_app done : forall cur rest s, plen cur done <= s ->
  point_at cur (done ++ rest) s = point_at (last done cur) rest (s - plen cur done).
Proof.
  induction done as [|d t IH]; intros cur rest s H.
  - cbn [plen app last]. f_equal. lia.
  - change ((d :: t) ++ rest) with (d :: (t ++ rest)). cbn [plen] in *. cbn [point_at].
    pose proof (plen_nonneg d t). destruct (Z.ltb_spec s (seglen cur d)); [lia|].
    rewrite IH by lia. rewrite last_cons_def. f_equal. lia.
Qed.
(* on the segment that follows `done` *)
Lemma point_at_segment done cur p rest s : axis (zsub p (last done cur)) ->
  plen cur done <= s <= plen cur done + seglen (last done cur) p ->
  point_at cur (done ++ p :: rest) s = move (last done cur) p (s - plen cur done).
Proof.
  intros A H. rewrite point_at_app by lia. cbn [point_at].
  destruct (Z.ltb_spec (s - plen cur done) (seglen (last done cur) p)); [reflexivity|].
  replace (s - plen cur done - seglen (last done cur) p) with 0 by lia. rewrite point_at_0.
  replace (s - plen cur done) with (seglen (last done cur) p) by lia. symmetry. apply move_len, A.
Qed.

(* ---- the dasher on positions ---- *)
Inductive pop := PMove (t : Z) | PLine (t : Z).
Record pchop := mk_pchop { pc_len : Z; pc_start : Z; pc_st : zds; pc_first : bool; pc_init : list Z; pc_out : list pop }.
Record pacc := mk_pacc { pa_pos : Z; pa_first : bool; pa_init : list Z; pa_st : zds; pa_out : list pop }.
Definition pflush (init : list Z) (out : list pop) : list pop :=
  match init with
  | [] => out
  | p0 :: rest => rev (map PLine rest) ++ PMove p0 :: out
  end.
Definition pmapop (P : Z -> zpt) (o : pop) : zop := match o with PMove t => ZMove (P t) | PLine t => ZLine (P t) end.

Section PDash.
  Variable zarr : list Z.
  Definition pchop_next (c : pchop) : pchop :=
    let st := pc_st c in
    let seg := pc_start c + zs_rem st in
    let idx := zs_idx st + 1 in
    mk_pchop (pc_len c - zs_rem st) seg (mk_zds (negb (zs_on st)) (zarr_at zarr idx) idx) false
             (if zs_on st && pc_first c then pc_init c ++ [pc_start c; seg] else pc_init c)
             (if zs_on st then (if pc_first c then pc_out c else PLine seg :: pc_out c) else PMove seg :: pc_out c).
  Fixpoint ploop (n : nat) (c : pchop) : pchop :=
    match n with
    | O => c
    | S n' => if zs_rem (pc_st c) <? pc_len c then ploop n' (pchop_next c) else c
    end.
  (* one segment of length len *)
  Definition pseg (a : pacc) (len : Z) : pacc :=
    let c := ploop (zchop_fuel len) (mk_pchop len (pa_pos a) (pa_st a) (pa_first a) (pa_init a) (pa_out a)) in
    let st := pc_st c in
    let p := pa_pos a + len in
    mk_pacc p (pc_first c)
            (if zs_on st && pc_first c then pc_init c ++ [pc_start c; p] else pc_init c)
            (mk_zds (zs_on st) (zs_rem st - pc_len c) (zs_idx st))
            (if zs_on st then (if pc_first c then pc_out c else PLine p :: pc_out c) else PMove p :: pc_out c).
  Definition pfresh (initial : zds) : pacc := mk_pacc 0 true [] initial [PMove 0].
  Definition pdash_acc (initial : zds) (lens : list Z) : pacc := fold_left pseg lens (pfresh initial).
  Definition pdash (initial : zds) (lens : list Z) : list pop :=
    let a := pdash_acc initial lens in rev (pflush (pa_init a) (pa_out a)).

  (* ---- zdash along p0 -> pts is the image of pdash ---- *)
  Section Image.
    Variable Pf : Z -> zpt.
    Definition Rc (zc : zchop) (c : pchop) : Prop :=
      zc_len zc = pc_len c /\ zc_start zc = Pf (pc_start c) /\ zc_st zc = pc_st c /\ zc_first zc = pc_first c /\
      zc_init zc = map Pf (pc_init c) /\ zc_out zc = map (pmapop Pf) (pc_out c).
    Definition Ra (za : zacc) (a : pacc) : Prop :=
      za_first za = pa_first a /\ za_init za = map Pf (pa_init a) /\ za_st za = pa_st a /\
      za_out za = map (pmapop Pf) (pa_out a).

    Lemma loop_image cur p s e : (forall t, s <= t <= e -> Pf t = move cur p (t - s)) ->
      forall n zc c, Rc zc c -> s <= pc_start c -> pc_start c + pc_len c = e -> 0 <= zs_rem (pc_st c) ->
      (forall i, 0 <= zarr_at zarr i) ->
      Rc (zchop_loop zarr n (zdir (zsub p cur)) zc) (ploop n c).
    Proof.
      intros HP. induction n as [|n IH]; intros zc c R Hs He Hr Ha; cbn [zchop_loop ploop]; [exact R|].
      pose proof R as (R1 & R2 & R3 & R4 & R5 & R6). rewrite R1, R3.
      destruct (Z.ltb_spec (zs_rem (pc_st c)) (pc_len c)) as [G|G]; [|exact R].
      apply IH; unfold pchop_next; cbn [pc_start pc_len pc_st zs_rem]; try lia; [|apply Ha|apply Ha].
      assert (Eseg : zadd (zc_start zc) (zscale (zdir (zsub p cur)) (zs_rem (pc_st c))) = Pf (pc_start c + zs_rem (pc_st c))).
      { rewrite R2, !HP by lia. rewrite move_add. f_equal. lia. }
      unfold Rc, zchop_next, pchop_next. rewrite R1, R3, R4, R5, R6, Eseg.
      cbn [zc_len zc_start zc_st zc_first zc_init zc_out pc_len pc_start pc_st pc_first pc_init pc_out].
      repeat split.
      - destruct (zs_on (pc_st c)); [destruct (pc_first c)|]; cbn [andb]; rewrite ?map_app; cbn [map]; rewrite <- ?R2; reflexivity.
      - destruct (zs_on (pc_st c)); [destruct (pc_first c)|]; reflexivity.
    Qed.
  End Image.

  Hypothesis Hpos1 : forall i, 1 <= zarr_at zarr i.
  Lemma Hnn : forall i, 0 <= zarr_at zarr i.
  Proof. intros i. pose proof (Hpos1 i). lia. Qed.

  (* after enough rounds the loop condition is false *)
  Lemma ploop_final n : forall c, 0 <= zs_rem (pc_st c) ->
    pc_len c + (if zs_rem (pc_st c) =? 0 then 1 else 0) <= Z.of_nat n ->
    pc_len (ploop n c) <= zs_rem (pc_st (ploop n c)) /\ 0 <= zs_rem (pc_st (ploop n c)).
  Proof.
    induction n as [|n IH]; intros c H0 Hm; cbn [ploop].
    - destruct (zs_rem (pc_st c) =? 0) eqn:E; lia.
    - destruct (Z.ltb_spec (zs_rem (pc_st c)) (pc_len c)) as [G|G]; [|lia].
      pose proof (Hpos1 (zs_idx (pc_st c) + 1)).
      apply IH; unfold pchop_next; cbn [pc_st pc_len zs_rem]; [lia|].
      destruct (zarr_at zarr (zs_idx (pc_st c) + 1) =? 0) eqn:E1; [lia|].
      destruct (zs_rem (pc_st c) =? 0) eqn:E2; lia.
  Qed.

  Lemma fold_image (Pf : Z -> zpt) initial p0 full : Pf = point_at p0 full ->
    forall rest done za a, full = done ++ rest -> Ra Pf za a -> pa_pos a = plen p0 done -> za_cur za = Some (last done p0) ->
    0 <= zs_rem (pa_st a) -> poly_axis (last done p0) rest ->
    Ra Pf (fold_left (zdash_op zarr initial) (map ZLine rest) za) (fold_left pseg (seglens (last done p0) rest) a).
  Proof.
    intros EP. induction rest as [|p rest IH]; intros done za a Ef R Hp Hc Hr Hax; cbn [map fold_left seglens]; [exact R|].
    destruct Hax as [Ax Hax]. set (cur := last done p0) in *.
    assert (Ef' : full = (done ++ [p]) ++ rest) by (rewrite <- app_assoc; exact Ef).
    assert (El : last (done ++ [p]) p0 = p) by apply last_last.
    assert (HP : forall t, plen p0 done <= t <= plen p0 done + seglen cur p -> Pf t = move cur p (t - plen p0 done)).
    { intros t Ht. rewrite EP, Ef. apply point_at_segment; assumption. }
    pose proof R as (R1 & R2 & R3 & R4).
    pose proof (seglen_nonneg cur p) as Ln.
    (* the loop *)
    set (zc0 := mk_zchop (seglen cur p) cur (za_st za) (za_first za) (za_fdash za) (za_init za) (za_out za)).
    set (c0 := mk_pchop (seglen cur p) (pa_pos a) (pa_st a) (pa_first a) (pa_init a) (pa_out a)).
    assert (R0 : Rc Pf zc0 c0).
    { unfold Rc, zc0, c0. cbn [zc_len zc_start zc_st zc_first zc_init zc_out pc_len pc_start pc_st pc_first pc_init pc_out].
      repeat split; try assumption. rewrite Hp, HP by lia. rewrite Z.sub_diag. symmetry. apply move_0. }
    pose proof (loop_image Pf cur p (plen p0 done) (plen p0 done + seglen cur p) HP (zchop_fuel (seglen cur p)) zc0 c0 R0) as RL.
    cbn [c0 pc_start pc_len pc_st] in RL. specialize (RL ltac:(lia) ltac:(lia) Hr Hnn).
    fold c0 in RL.
    (* the bounds of the loop's result: needed for the end point only through Pf *)
    specialize (IH (done ++ [p])). rewrite El in IH.
    apply IH; try assumption.
    - (* Ra after the segment *)
      cbn [zdash_op]. rewrite Hc. unfold zchop_all. fold cur. change (zlen1 (zsub p cur)) with (seglen cur p). fold zc0.
      unfold pseg. fold c0. destruct RL as (L1 & L2 & L3 & L4 & L5 & L6).
      set (zc := zchop_loop zarr (zchop_fuel (seglen cur p)) (zdir (zsub p cur)) zc0) in *.
      set (c := ploop (zchop_fuel (seglen cur p)) c0) in *.
      assert (Ep : p = Pf (pa_pos a + seglen cur p)).
      { rewrite Hp, HP by lia. replace (plen p0 done + seglen cur p - plen p0 done) with (seglen cur p) by lia.
        symmetry. apply move_len, Ax. }
      unfold Ra. cbn [za_first za_init za_st za_out pa_first pa_init pa_st pa_out]. rewrite L1, L3, L4, L5, L6, L2.
      repeat split.
      + destruct (zs_on (pc_st c)); [destruct (pc_first c)|]; cbn [andb]; rewrite ?map_app; cbn [map]; rewrite <- ?Ep; reflexivity.
      + destruct (zs_on (pc_st c)); [destruct (pc_first c)|]; cbn [map pmapop]; rewrite <- ?Ep; reflexivity.
    - unfold pseg. cbn [pa_pos]. rewrite plen_app. cbn [plen]. fold cur. lia.
    - cbn [zdash_op]. rewrite Hc. cbn [za_cur]. reflexivity.
    - (* remaining length stays non-negative *)
      unfold pseg. fold c0. cbn [pa_st zs_rem].
      destruct (ploop_final (zchop_fuel (seglen cur p)) c0) as [F1 F2]; cbn [c0 pc_st pc_len]; [exact Hr| |lia].
      unfold zchop_fuel. destruct (zs_rem (pa_st a) =? 0); lia.
  Qed.

  Lemma zflush_image (Pf : Z -> zpt) i o : zflush (map Pf i) (map (pmapop Pf) o) = map (pmapop Pf) (pflush i o).
  Proof.
    destruct i as [|i0 it]; cbn [map zflush pflush]; [reflexivity|].
    rewrite map_app, map_rev, !map_map. reflexivity.
  Qed.

  (* the dashes of the open polyline p0 -> pts are the images of the dashes of its arc-length interval *)
  Theorem zdashed_image initial p0 pts : 0 <= zs_rem initial -> poly_axis p0 pts ->
    zdashed zarr initial (ZMove p0 :: map ZLine pts) =
    map (pmapop (point_at p0 pts)) (pdash initial (seglens p0 pts)).
  Proof.
    intros Hr Hax. unfold zdashed, zdash_ops, pdash, pdash_acc. cbn [fold_left zdash_op zfresh za_init za_out zflush].
    set (Pf := point_at p0 pts).
    pose proof (fold_image Pf initial p0 pts eq_refl pts [] (mk_zda (Some p0) (Some p0) true true [] initial [ZMove p0])
                  (pfresh initial) eq_refl) as H.
    cbn [last plen] in H.
    destruct H as (H1 & H2 & H3 & H4); try assumption; try reflexivity.
    - unfold Ra, pfresh. cbn [za_first za_init za_st za_out pa_first pa_init pa_st pa_out map pmapop].
      repeat split. unfold Pf. rewrite point_at_0. reflexivity.
    - rewrite H2, H4, zflush_image, map_rev. reflexivity.
  Qed.
End PDash.
Print Assumptions zdashed_image.
