(* dash_path restarts at every subpath: the dashes of a path are the dashes of its subpaths one after the other (C09). *)
Require Import RQ.Base RQ.F32 RQ.Raster RQ.PathF RQ.PathOps.

Lemma iter_pow2_sim {S : Type} (g : S -> S) (f : S -> option S) :
  (forall s, f (g s) = option_map g (f s)) ->
  forall d s, iter_pow2 d f (g s) = let '(s', b) := iter_pow2 d f s in (g s', b).
Proof.
  intros H. induction d as [|k IH]; intros s; cbn [iter_pow2].
  - rewrite H. destruct (f s); reflexivity.
  - rewrite IH. destruct (iter_pow2 k f s) as [s1 b]. destruct b; [reflexivity|]. rewrite IH. reflexivity.
Qed.

Section Dash.
  Variable arr : list f32.

  (* the same state with more output underneath: dash_path only ever adds to the front of its (reversed) output *)
  Definition ch_ext (base : list pathop) (c : chop) : chop :=
    mk_chop (ch_len c) (ch_start c) (ch_st c) (ch_first c) (ch_fdash c) (ch_init c) (ch_out c ++ base).
  Definition da_ext (base : list pathop) (a : dash_acc) : dash_acc :=
    mk_da (da_cur a) (da_startp a) (da_first a) (da_fdash a) (da_init a) (da_st a) (da_out a ++ base).

  Lemma chop_step_ext lv base c : chop_step arr lv (ch_ext base c) = option_map (ch_ext base) (chop_step arr lv c).
  Proof.
    unfold chop_step, ch_ext. cbn [ch_len ch_start ch_st ch_first ch_fdash ch_init ch_out].
    destruct (fgt (ch_len c) (ds_rem (ch_st c))); [|reflexivity].
    destruct (ds_on (ch_st c)); [destruct (ch_first c)|]; reflexivity.
  Qed.

  Lemma flush_initial_ext init out base : flush_initial init (out ++ base) = flush_initial init out ++ base.
  Proof. destruct init as [|p0 rest]; cbn [flush_initial]; [reflexivity|]. rewrite <- app_assoc. reflexivity. Qed.

  Lemma dash_op_ext initial base a o :
    dash_op arr initial (da_ext base a) o =
    match dash_op arr initial a o with Ok a' => Ok (da_ext base a') | Err e => Err e end.
  Proof.
    destruct o as [p|p|c p|c1 c2 p q|]; cbn [dash_op da_ext da_cur da_startp da_first da_fdash da_init da_st da_out].
    - rewrite flush_initial_ext. reflexivity.
    - destruct (da_cur a) as [cur|]; [|reflexivity].
      change (mk_chop (vlength (psub p cur)) cur (da_st a) (da_first a) (da_fdash a) (da_init a) (da_out a ++ base))
        with (ch_ext base (mk_chop (vlength (psub p cur)) cur (da_st a) (da_first a) (da_fdash a) (da_init a) (da_out a))).
      rewrite (iter_pow2_sim (ch_ext base) _ (chop_step_ext _ base)).
      destruct (iter_pow2 17 _ _) as [c done]. destruct done; cbn [negb]; [|reflexivity].
      unfold ch_ext. cbn [ch_len ch_start ch_st ch_first ch_fdash ch_init ch_out].
      destruct (ds_on (ch_st c)); [destruct (ch_first c)|]; reflexivity.
    - reflexivity.
    - reflexivity.
    - destruct (da_cur a) as [cur|]; [|reflexivity]. destruct (da_startp a) as [sp|]; [|reflexivity].
      change (mk_chop (vlength (psub sp cur)) cur (da_st a) (da_first a) (da_fdash a) (da_init a) (da_out a ++ base))
        with (ch_ext base (mk_chop (vlength (psub sp cur)) cur (da_st a) (da_first a) (da_fdash a) (da_init a) (da_out a))).
      rewrite (iter_pow2_sim (ch_ext base) _ (chop_step_ext _ base)).
      destruct (iter_pow2 17 _ _) as [c done]. destruct done; cbn [negb]; [|reflexivity].
      cbv beta iota. unfold ch_ext, da_ext. cbn [ch_len ch_start ch_st ch_first ch_fdash ch_init ch_out
                                                  da_cur da_startp da_first da_fdash da_init da_st da_out].
      f_equal. f_equal.
      destruct (ds_on (ch_st c)).
      + destruct (ch_fdash c).
        * rewrite <- ?app_comm_cons, <- ?app_assoc. reflexivity.
        * destruct (ch_init c) as [|i0 it]; rewrite <- ?app_comm_cons, <- ?app_assoc; reflexivity.
      + apply flush_initial_ext.
  Qed.

  Lemma dash_ops_ext initial base ops : forall a,
    dash_ops arr initial (da_ext base a) ops =
    match dash_ops arr initial a ops with Ok a' => Ok (da_ext base a') | Err e => Err e end.
  Proof.
    induction ops as [|o t IH]; intros a; cbn [dash_ops]; [reflexivity|].
    rewrite dash_op_ext. destruct (dash_op arr initial a o) as [a'|e]; cbn [bind]; [apply IH|reflexivity].
  Qed.

  Lemma dash_ops_app initial ops1 ops2 : forall a,
    dash_ops arr initial a (ops1 ++ ops2) = do a1 <- dash_ops arr initial a ops1; dash_ops arr initial a1 ops2.
  Proof.
    induction ops1 as [|o t IH]; intros a; cbn [app dash_ops bind]; [reflexivity|].
    destruct (dash_op arr initial a o) as [a'|e]; cbn [bind]; [apply IH|reflexivity].
  Qed.

  (* the dashed output (in order) of a run of operations from the fresh accumulator *)
  Definition dashed (initial : dstate) (ops : list pathop) : result (list pathop) :=
    do a <- dash_ops arr initial (mk_da None None true true [] initial []) ops;
    Ok (rev (flush_initial (da_init a) (da_out a))).

  (* RESTART AT EVERY SUBPATH.  Whatever came before a MoveTo - any number of subpaths, closed or left open, in any dash
     state - the dashes emitted from that MoveTo on are exactly the dashes of the rest of the path taken on its own, and
     they come after exactly the dashes of what came before taken on its own. *)
  Theorem dashed_concat initial ops1 p ops2 :
    dashed initial (ops1 ++ MoveTo p :: ops2) =
    do r1 <- dashed initial ops1; do r2 <- dashed initial (MoveTo p :: ops2); Ok (r1 ++ r2).
  Proof.
    unfold dashed. rewrite dash_ops_app.
    destruct (dash_ops arr initial (mk_da None None true true [] initial []) ops1) as [a1|e]; cbn [bind]; [|reflexivity].
    cbn [dash_ops dash_op da_init da_out flush_initial bind].
    set (B := flush_initial (da_init a1) (da_out a1)).
    change (mk_da (Some p) (Some p) true true [] initial (MoveTo p :: B))
      with (da_ext B (mk_da (Some p) (Some p) true true [] initial [MoveTo p])).
    rewrite dash_ops_ext.
    destruct (dash_ops arr initial (mk_da (Some p) (Some p) true true [] initial [MoveTo p]) ops2) as [a2|e]; cbn [bind]; [|reflexivity].
    cbn [da_ext da_init da_out]. rewrite flush_initial_ext, rev_app_distr. reflexivity.
  Qed.
End Dash.

(* the same for dash_path itself: the offset bookkeeping does not look at the path *)
Theorem dash_path_concat arr ops1 p ops2 w w1 w2 off :
  dash_path arr (mk_path (ops1 ++ MoveTo p :: ops2) w) off =
  do r1 <- dash_path arr (mk_path ops1 w1) off;
  do r2 <- dash_path arr (mk_path (MoveTo p :: ops2) w2) off;
  Ok (mk_path (p_ops r1 ++ p_ops r2) NonZero).
Proof.
  unfold dash_path. cbn [p_ops].
  destruct (negb (fgt _ f0)); [reflexivity|].
  destruct (iter_pow2 17 (offset_step arr) _) as [[off' st] done].
  destruct (negb done); [reflexivity|].
  set (initial := mk_ds (ds_on st) (fsub (ds_rem st) off') (ds_idx st)).
  pose proof (dashed_concat arr initial ops1 p ops2) as H. unfold dashed in H.
  destruct (dash_ops arr initial _ (ops1 ++ MoveTo p :: ops2)) as [a|e]; cbn [bind] in *.
  - destruct (dash_ops arr initial _ ops1) as [a1|e1]; cbn [bind] in *; [|discriminate].
    destruct (dash_ops arr initial _ (MoveTo p :: ops2)) as [a2|e2]; cbn [bind] in *; [|discriminate].
    cbn [p_ops]. inversion H as [H1]. rewrite H1. reflexivity.
  - destruct (dash_ops arr initial _ ops1) as [a1|e1]; cbn [bind] in *; [|congruence].
    destruct (dash_ops arr initial _ (MoveTo p :: ops2)) as [a2|e2]; cbn [bind] in *; [discriminate|congruence].
Qed.
Print Assumptions dash_path_concat.
