(* Structural theorems about the dasher (C09): what dash_path emits, from the model's own quantities.
   No real-number reasoning: everything is about the shape of the output. *)
From Coq Require Import ZArith List Lia Bool.
Require Import RQ.Base RQ.F32 RQ.Raster RQ.PathF RQ.PathOps RQ.DashProofs.
Import ListNotations.

(* ------------------------------------------------------------------------------------------------------------------ *)
(* the bounded loops: iter_pow2 runs the loop body some number of times; when it reports `done` the condition is false  *)
Inductive steps {S : Type} (f : S -> option S) : S -> S -> Prop :=
| steps_refl s : steps f s s
| steps_cons s s1 s2 : f s = Some s1 -> steps f s1 s2 -> steps f s s2.

Lemma steps_trans {S} (f : S -> option S) a b c : steps f a b -> steps f b c -> steps f a c.
Proof. induction 1; intros; [assumption|]. econstructor; eauto. Qed.

Lemma iter_pow2_steps {S} (f : S -> option S) d : forall s,
  steps f s (fst (iter_pow2 d f s)) /\ (snd (iter_pow2 d f s) = true -> f (fst (iter_pow2 d f s)) = None).
Proof.
  induction d as [|k IH]; intros s; cbn [iter_pow2].
  - destruct (f s) as [s'|] eqn:E; cbn [fst snd].
    + split; [econstructor; [eassumption|constructor]|discriminate].
    + split; [constructor|intros _; assumption].
  - destruct (IH s) as [H1 H2]. destruct (iter_pow2 k f s) as [s1 b] eqn:E1. cbn [fst snd] in *.
    destruct b; cbn [fst snd]; [split; auto|].
    destruct (IH s1) as [H3 H4]. split; [eapply steps_trans; eassumption|assumption].
Qed.

Lemma iter_pow2_none {S} (f : S -> option S) d s : f s = None -> iter_pow2 d f s = (s, true).
Proof. intros H. induction d as [|k IH]; cbn [iter_pow2]; [rewrite H|rewrite IH]; reflexivity. Qed.

Lemma steps_inv {S} (f : S -> option S) (P : S -> Prop) :
  (forall s s', f s = Some s' -> P s -> P s') -> forall s s', steps f s s' -> P s -> P s'.
Proof. intros H s s' St. induction St; eauto. Qed.

(* ------------------------------------------------------------------------------------------------------------------ *)
(* dash_path = (total check) ; (initial state from the offset) ; (dashed ops)                                          *)
Definition dash_total (arr : list f32) : f32 :=
  let total := fold_left fadd arr f0 in if Z.odd (zlen arr) then fmul total (of_int 2) else total.

Definition dash_offset0 (arr : list f32) (dash_offset : f32) : f32 :=
  let total := dash_total arr in
  let off := frem dash_offset total in
  let off := if flt off f0 then fadd off total else off in
  if feq (fabs off) (fdiv f1 f0) then f0 else off.

(* the state every subpath starts in; None = the offset loop ran out of fuel *)
Definition dash_initial (arr : list f32) (dash_offset : f32) : option dstate :=
  let '((off, st), done) := iter_pow2 17 (offset_step arr) (dash_offset0 arr dash_offset, mk_ds true (arr_at arr 0) 0) in
  if negb done then None else Some (mk_ds (ds_on st) (fsub (ds_rem st) off) (ds_idx st)).

Lemma dash_path_unfold arr p off :
  dash_path arr p off =
  if negb (fgt (dash_total arr) f0) then Ok (mk_path [] NonZero) else
  match dash_initial arr off with
  | None => Err OutOfFuel
  | Some initial => do ops <- dashed arr initial (p_ops p); Ok (mk_path ops NonZero)
  end.
Proof.
  unfold dash_path, dash_initial, dash_offset0, dash_total, dashed.
  destruct (negb (fgt _ f0)); [reflexivity|].
  destruct (iter_pow2 17 (offset_step arr) _) as [[off' st] done].
  destruct (negb done); [reflexivity|].
  destruct (dash_ops arr _ _ (p_ops p)); reflexivity.
Qed.

(* ------------------------------------------------------------------------------------------------------------------ *)
(* 1. PARITY: the dash is on exactly at even indices                                                                  *)
Definition parity (st : dstate) : Prop := ds_on st = Z.even (ds_idx st) /\ 0 <= ds_idx st.

Lemma parity_next on r r' idx : parity (mk_ds on r idx) -> parity (mk_ds (negb on) r' (idx + 1)).
Proof.
  unfold parity; cbn [ds_on ds_idx]. intros [H1 H2]. split; [|lia].
  rewrite H1. replace (idx + 1) with (Z.succ idx) by lia. rewrite Z.even_succ, <- Z.negb_even. reflexivity.
Qed.

Section Shape.
  Variable arr : list f32.

  Lemma offset_step_parity s s' : offset_step arr s = Some s' -> parity (snd s) -> parity (snd s').
  Proof.
    destruct s as [off st]. unfold offset_step. destruct (fgt off (ds_rem st)); [|discriminate].
    intros H; inversion H; subst s'; clear H. cbn [snd]. destruct st as [on r idx]. cbn [ds_on ds_rem ds_idx].
    apply parity_next.
  Qed.

  Lemma chop_step_state lv c c' : chop_step arr lv c = Some c' ->
    fgt (ch_len c) (ds_rem (ch_st c)) = true /\
    ch_st c' = mk_ds (negb (ds_on (ch_st c))) (arr_at arr (ds_idx (ch_st c) + 1)) (ds_idx (ch_st c) + 1) /\
    ch_len c' = fsub (ch_len c) (ds_rem (ch_st c)) /\
    ch_start c' = padd (ch_start c) (vscale lv (ds_rem (ch_st c))) /\
    ch_first c' = false.
  Proof.
    unfold chop_step. destruct (fgt (ch_len c) (ds_rem (ch_st c))); [|discriminate].
    destruct (ds_on (ch_st c)); [destruct (ch_first c)|];
      (intros H; inversion H; subst c'; clear H; cbn [ch_st ch_len ch_start ch_first]; auto).
  Qed.

  Lemma chop_step_parity lv c c' : chop_step arr lv c = Some c' -> parity (ch_st c) -> parity (ch_st c').
  Proof.
    intros H. apply chop_step_state in H. destruct H as (_ & H & _). rewrite H.
    destruct (ch_st c) as [on r idx]; cbn [ds_on ds_rem ds_idx]; apply parity_next.
  Qed.

  Lemma dash_initial_parity off initial : dash_initial arr off = Some initial -> parity initial.
  Proof.
    unfold dash_initial.
    pose proof (iter_pow2_steps (offset_step arr) 17 (dash_offset0 arr off, mk_ds true (arr_at arr 0) 0)) as [St _].
    destruct (iter_pow2 17 _ _) as [[o st] done]. cbn [fst] in St.
    destruct (negb done); [discriminate|]. intros H; inversion H; subst initial; clear H.
    assert (P : parity st).
    { apply (steps_inv _ (fun s => parity (snd s)) (offset_step_parity) _ _ St). cbn [snd]. split; cbn; [reflexivity|lia]. }
    destruct P as [P1 P2]. split; cbn [ds_on ds_idx]; assumption.
  Qed.

  (* the state the chop loop leaves, and the state dash_op stores afterwards *)
  Lemma chop_loop_parity lv c0 c b : iter_pow2 17 (chop_step arr lv) c0 = (c, b) -> parity (ch_st c0) -> parity (ch_st c).
  Proof.
    intros E P. pose proof (iter_pow2_steps (chop_step arr lv) 17 c0) as [St _]. rewrite E in St. cbn [fst] in St.
    exact (steps_inv _ (fun c => parity (ch_st c)) (chop_step_parity lv) _ _ St P).
  Qed.

  Lemma dash_op_parity initial a o a' :
    parity initial -> parity (da_st a) -> dash_op arr initial a o = Ok a' -> parity (da_st a').
  Proof.
    intros Pi Pa. destruct o as [p|p|c p|c1 c2 p q|]; cbn [dash_op].
    - intros H; inversion H; subst a'; assumption.
    - destruct (da_cur a) as [cur|]; [|intros H; inversion H; subst a'; assumption].
      destruct (iter_pow2 17 _ _) as [c done] eqn:E. apply chop_loop_parity in E; [|assumption].
      destruct (negb done); [discriminate|]. destruct E as [E1 E2].
      assert (P : parity (mk_ds (ds_on (ch_st c)) (fsub (ds_rem (ch_st c)) (ch_len c)) (ds_idx (ch_st c)))) by (split; assumption).
      destruct (ds_on (ch_st c)); [destruct (ch_first c)|]; (intros H; inversion H; subst a'; cbn [da_st]; exact P).
    - discriminate.
    - discriminate.
    - destruct (da_cur a) as [cur|]; [|intros H; inversion H; subst a'; assumption].
      destruct (da_startp a) as [sp|]; [|intros H; inversion H; subst a'; assumption].
      destruct (iter_pow2 17 _ _) as [c done] eqn:E. destruct (negb done); [discriminate|].
      intros H; inversion H; subst a'; assumption.
  Qed.

  Lemma dash_ops_parity initial ops : forall a a',
    parity initial -> parity (da_st a) -> dash_ops arr initial a ops = Ok a' -> parity (da_st a').
  Proof.
    induction ops as [|o t IH]; intros a a' Pi Pa; cbn [dash_ops].
    - intros H; inversion H; subst a'; assumption.
    - destruct (dash_op arr initial a o) as [a1|e] eqn:E; cbn [bind]; [|discriminate].
      intros H. apply (IH a1 a' Pi); [|assumption]. exact (dash_op_parity initial a o a1 Pi Pa E).
  Qed.

  (* the states dash_path goes through, for a given (array, offset): the running state of the offset loop; the initial
     state it leaves (the one every subpath starts in); the state after any prefix of
     the path; the running state inside a chop loop started from a reachable state (any direction, length, buffers) *)
  Inductive dash_reachable (off : f32) : dstate -> Prop :=
  | dr_offset o st : steps (offset_step arr) (dash_offset0 arr off, mk_ds true (arr_at arr 0) 0) (o, st) ->
      dash_reachable off st
  | dr_initial initial : dash_initial arr off = Some initial -> dash_reachable off initial
  | dr_ops initial ops a : dash_initial arr off = Some initial ->
      dash_ops arr initial (mk_da None None true true [] initial []) ops = Ok a -> dash_reachable off (da_st a)
  | dr_chop st lv c0 c : dash_reachable off st -> ch_st c0 = st -> steps (chop_step arr lv) c0 c ->
      dash_reachable off (ch_st c).

  Theorem dash_state_parity off st : dash_reachable off st -> ds_on st = Z.even (ds_idx st) /\ 0 <= ds_idx st.
  Proof.
    induction 1 as [o st St|initial Hi|initial ops a Hi Ho|st lv c0 c _ IH E St].
    - apply (steps_inv _ (fun s => parity (snd s)) (offset_step_parity) _ _ St). cbn [snd]. split; cbn; [reflexivity|lia].
    - exact (dash_initial_parity _ _ Hi).
    - apply dash_initial_parity in Hi. exact (dash_ops_parity initial ops (mk_da None None true true [] initial []) _ Hi Hi Ho).
    - subst st. exact (steps_inv _ (fun c => parity (ch_st c)) (chop_step_parity lv) _ _ St IH).
  Qed.
End Shape.
Print Assumptions dash_state_parity.

(* ------------------------------------------------------------------------------------------------------------------ *)
(* 2/3/6. A SUBPATH INSIDE ONE DASH (or one gap): the pattern never switches                                          *)

(* the loop condition `len > remaining` is false at every segment of the polyline cur -> pts, the remaining length being
   decreased by each segment's length with the model's own f32 operations *)
Fixpoint never_chops (r : f32) (cur : pt) (pts : list pt) : bool :=
  match pts with
  | [] => true
  | p :: t => let len := vlength (psub p cur) in negb (fgt len r) && never_chops (fsub r len) p t
  end.
Fixpoint rem_after (r : f32) (cur : pt) (pts : list pt) : f32 :=
  match pts with [] => r | p :: t => rem_after (fsub r (vlength (psub p cur))) p t end.
(* what is buffered for the first dash: both ends of every segment *)
Fixpoint seg_pairs (cur : pt) (pts : list pt) : list pt :=
  match pts with [] => [] | p :: t => cur :: p :: seg_pairs p t end.

Lemma last_cons_default {A} (p : A) t cur : last (p :: t) cur = last t p.
Proof.
  revert p cur. induction t as [|x t IH]; intros p cur; [reflexivity|].
  change (last (p :: x :: t) cur) with (last (x :: t) cur). rewrite !IH. reflexivity.
Qed.

Lemma never_chops_app r cur pts q :
  never_chops r cur (pts ++ [q]) =
  never_chops r cur pts && negb (fgt (vlength (psub q (last pts cur))) (rem_after r cur pts)).
Proof.
  revert r cur. induction pts as [|p t IH]; intros r cur.
  - cbn [app never_chops rem_after last]. rewrite andb_true_r. reflexivity.
  - change ((p :: t) ++ [q]) with (p :: (t ++ [q])). cbn [never_chops rem_after]. rewrite IH, andb_assoc.
    rewrite last_cons_default. reflexivity.
Qed.

(* l' is l with some elements repeated in place *)
Inductive stutter {A : Type} : list A -> list A -> Prop :=
| stutter_nil : stutter [] []
| stutter_cons x l l' : stutter l l' -> stutter (x :: l) (x :: l')
| stutter_dup x l l' : stutter (x :: l) l' -> stutter (x :: l) (x :: l').

Lemma stutter_seg_pairs cur pts : stutter (cur :: pts) (cur :: seg_pairs cur pts).
Proof.
  revert cur. induction pts as [|p t IH]; intros cur; cbn [seg_pairs].
  - repeat constructor.
  - apply stutter_dup, stutter_cons, IH.
Qed.

(* the vertices of a flat path, in order *)
Definition op_points (ops : list pathop) : list pt :=
  flat_map (fun o => match o with MoveTo p | LineTo p => [p] | _ => [] end) ops.
Lemma op_points_map_LineTo l : op_points (map LineTo l) = l.
Proof. induction l as [|x t IH]; [reflexivity|]. cbn [map]. unfold op_points in *. cbn [flat_map app]. rewrite IH. reflexivity. Qed.
Lemma op_points_map_MoveTo l : op_points (map MoveTo l) = l.
Proof. induction l as [|x t IH]; [reflexivity|]. cbn [map]. unfold op_points in *. cbn [flat_map app]. rewrite IH. reflexivity. Qed.
Lemma op_points_app a b : op_points (a ++ b) = op_points a ++ op_points b.
Proof. unfold op_points. apply flat_map_app. Qed.

Section Whole.
  Variable arr : list f32.
  Variable initial : dstate.

  (* the chop loop does nothing when the segment fits in what remains of the current dash *)
  Lemma chop_loop_none lv c : fgt (ch_len c) (ds_rem (ch_st c)) = false -> iter_pow2 17 (chop_step arr lv) c = (c, true).
  Proof. intros H. apply iter_pow2_none. unfold chop_step. rewrite H. reflexivity. Qed.

  (* one LineTo that fits *)
  Lemma dash_op_line_fits a cur p :
    da_cur a = Some cur -> fgt (vlength (psub p cur)) (ds_rem (da_st a)) = false ->
    dash_op arr initial a (LineTo p) =
    Ok (mk_da (Some p) (da_startp a) (da_first a)
              (if ds_on (da_st a) then da_fdash a else false)
              (if ds_on (da_st a) && da_first a then da_init a ++ [cur; p] else da_init a)
              (mk_ds (ds_on (da_st a)) (fsub (ds_rem (da_st a)) (vlength (psub p cur))) (ds_idx (da_st a)))
              (if ds_on (da_st a) then (if da_first a then da_out a else LineTo p :: da_out a) else MoveTo p :: da_out a)).
  Proof.
    intros Hc Hf. cbn [dash_op]. rewrite Hc. rewrite chop_loop_none by (cbn [ch_len ch_st]; exact Hf).
    cbn [negb ch_st ch_first ch_fdash ch_init ch_out ch_start ch_len].
    destruct (ds_on (da_st a)); [destruct (da_first a)|]; reflexivity.
  Qed.

  (* a run of LineTos inside the first dash: everything is buffered *)
  Lemma dash_lines_on_first pts : forall a cur,
    da_cur a = Some cur -> ds_on (da_st a) = true -> da_first a = true ->
    never_chops (ds_rem (da_st a)) cur pts = true ->
    dash_ops arr initial a (map LineTo pts) =
    Ok (mk_da (Some (last pts cur)) (da_startp a) true (da_fdash a) (da_init a ++ seg_pairs cur pts)
              (mk_ds true (rem_after (ds_rem (da_st a)) cur pts) (ds_idx (da_st a))) (da_out a)).
  Proof.
    induction pts as [|p t IH]; intros a cur Hc Hon Hfi Hn.
    - cbn [map dash_ops last seg_pairs rem_after]. rewrite app_nil_r. destruct a as [c s f fd i [on r idx] o].
      cbn [da_cur da_startp da_first da_fdash da_init da_st da_out ds_on ds_rem ds_idx] in *. subst. reflexivity.
    - cbn [never_chops] in Hn. apply andb_true_iff in Hn. destruct Hn as [Hf Hn]. apply negb_true_iff in Hf.
      cbn [map dash_ops]. rewrite (dash_op_line_fits a cur p Hc Hf). cbn [bind]. rewrite Hon, Hfi. cbn [andb].
      rewrite IH with (cur := p); cbn [da_cur da_startp da_first da_fdash da_init da_st da_out ds_on ds_rem ds_idx];
        try reflexivity; [|assumption].
      cbn [seg_pairs rem_after]. rewrite <- app_assoc. cbn [app].
      rewrite last_cons_default. reflexivity.
  Qed.

  (* a run of LineTos inside a dash that is not the first of its subpath: plain LineTos *)
  Lemma dash_lines_on_later pts : forall a cur,
    da_cur a = Some cur -> ds_on (da_st a) = true -> da_first a = false ->
    never_chops (ds_rem (da_st a)) cur pts = true ->
    dash_ops arr initial a (map LineTo pts) =
    Ok (mk_da (Some (last pts cur)) (da_startp a) false (da_fdash a) (da_init a)
              (mk_ds true (rem_after (ds_rem (da_st a)) cur pts) (ds_idx (da_st a))) (rev (map LineTo pts) ++ da_out a)).
  Proof.
    induction pts as [|p t IH]; intros a cur Hc Hon Hfi Hn.
    - cbn [map dash_ops last rev rem_after app]. destruct a as [c s f fd i [on r idx] o].
      cbn [da_cur da_startp da_first da_fdash da_init da_st da_out ds_on ds_rem ds_idx] in *. subst. reflexivity.
    - cbn [never_chops] in Hn. apply andb_true_iff in Hn. destruct Hn as [Hf Hn]. apply negb_true_iff in Hf.
      cbn [map dash_ops]. rewrite (dash_op_line_fits a cur p Hc Hf). cbn [bind]. rewrite Hon, Hfi. cbn [andb].
      rewrite IH with (cur := p); cbn [da_cur da_startp da_first da_fdash da_init da_st da_out ds_on ds_rem ds_idx];
        try reflexivity; [|assumption].
      cbn [rem_after rev]. rewrite <- app_assoc. cbn [app].
      rewrite last_cons_default. reflexivity.
  Qed.

  (* a run of LineTos inside a gap: the pen is moved along, nothing is drawn *)
  Lemma dash_lines_off pts : forall a cur,
    da_cur a = Some cur -> ds_on (da_st a) = false ->
    never_chops (ds_rem (da_st a)) cur pts = true ->
    dash_ops arr initial a (map LineTo pts) =
    Ok (mk_da (Some (last pts cur)) (da_startp a) (da_first a) (match pts with [] => da_fdash a | _ => false end) (da_init a)
              (mk_ds false (rem_after (ds_rem (da_st a)) cur pts) (ds_idx (da_st a))) (rev (map MoveTo pts) ++ da_out a)).
  Proof.
    induction pts as [|p t IH]; intros a cur Hc Hon Hn.
    - cbn [map dash_ops last rev rem_after app]. destruct a as [c s f fd i [on r idx] o].
      cbn [da_cur da_startp da_first da_fdash da_init da_st da_out ds_on ds_rem ds_idx] in *. subst. reflexivity.
    - cbn [never_chops] in Hn. apply andb_true_iff in Hn. destruct Hn as [Hf Hn]. apply negb_true_iff in Hf.
      cbn [map dash_ops]. rewrite (dash_op_line_fits a cur p Hc Hf). cbn [bind]. rewrite Hon. cbn [andb].
      rewrite IH with (cur := p); cbn [da_cur da_startp da_first da_fdash da_init da_st da_out ds_on ds_rem ds_idx];
        try reflexivity; [|assumption].
      cbn [rem_after rev]. rewrite <- app_assoc. cbn [app].
      rewrite last_cons_default. destruct t; reflexivity.
  Qed.

  (* a Close whose closing segment fits *)
  Lemma dash_op_close_fits a cur sp :
    da_cur a = Some cur -> da_startp a = Some sp -> fgt (vlength (psub sp cur)) (ds_rem (da_st a)) = false ->
    dash_op arr initial a Close =
    Ok (mk_da (Some sp) (Some sp) true true [] initial
              (if ds_on (da_st a) then
                 if da_fdash a then Close :: rev (map LineTo (da_init a)) ++ da_out a
                 else match da_init a with [] => LineTo sp :: da_out a | _ => rev (map LineTo (da_init a)) ++ da_out a end
               else flush_initial (da_init a) (da_out a))).
  Proof.
    intros Hc Hs Hf. cbn [dash_op]. rewrite Hc, Hs. rewrite chop_loop_none by (cbn [ch_len ch_st]; exact Hf).
    cbn [negb ch_st ch_first ch_fdash ch_init ch_out ch_start ch_len]. reflexivity.
  Qed.

  (* ---- the results ---- *)
  (* open, on: the subpath itself; the model's convention repeats the MoveTo and every interior vertex *)
  Definition open_on_result (p0 : pt) (pts : list pt) : list pathop :=
    MoveTo p0 :: match pts with [] => [] | p1 :: t => MoveTo p0 :: LineTo p1 :: map LineTo (seg_pairs p1 t) end.
  (* closed, on: the complete closed outline *)
  Definition closed_on_result (p0 : pt) (pts : list pt) : list pathop :=
    MoveTo p0 :: map LineTo (seg_pairs p0 pts) ++ [Close].

  Lemma open_on_result_points p0 pts : op_points (open_on_result p0 pts) = p0 :: seg_pairs p0 pts.
  Proof.
    destruct pts as [|p1 t]; [reflexivity|]. unfold open_on_result.
    change (op_points (MoveTo p0 :: MoveTo p0 :: LineTo p1 :: map LineTo (seg_pairs p1 t)))
      with (p0 :: p0 :: p1 :: op_points (map LineTo (seg_pairs p1 t))).
    rewrite op_points_map_LineTo. reflexivity.
  Qed.
  Lemma closed_on_result_points p0 pts : op_points (closed_on_result p0 pts) = p0 :: seg_pairs p0 pts.
  Proof.
    unfold closed_on_result. change (op_points (MoveTo p0 :: ?l)) with (p0 :: op_points l).
    change (op_points (MoveTo p0 :: map LineTo (seg_pairs p0 pts) ++ [Close]))
      with (p0 :: op_points (map LineTo (seg_pairs p0 pts) ++ [Close])).
    rewrite op_points_app, op_points_map_LineTo. cbn. rewrite app_nil_r. reflexivity.
  Qed.

  Lemma dashed_open_on p0 pts :
    ds_on initial = true -> never_chops (ds_rem initial) p0 pts = true ->
    dashed arr initial (MoveTo p0 :: map LineTo pts) = Ok (open_on_result p0 pts).
  Proof.
    intros Hon Hn. unfold dashed. cbn [dash_ops dash_op bind da_init da_out flush_initial].
    rewrite dash_lines_on_first with (cur := p0); cbn [da_cur da_startp da_first da_fdash da_init da_st da_out]; auto.
    cbn [bind da_init da_out app]. unfold open_on_result.
    destruct pts as [|p1 t]; [reflexivity|]. cbn [seg_pairs flush_initial].
    rewrite rev_app_distr, rev_involutive. reflexivity.
  Qed.

  Lemma dashed_closed_on p0 pts :
    ds_on initial = true -> never_chops (ds_rem initial) p0 (pts ++ [p0]) = true ->
    dashed arr initial (MoveTo p0 :: map LineTo pts ++ [Close]) = Ok (closed_on_result p0 pts).
  Proof.
    intros Hon Hn. rewrite never_chops_app in Hn. apply andb_true_iff in Hn. destruct Hn as [Hn Hf].
    apply negb_true_iff in Hf.
    unfold dashed. cbn [dash_ops dash_op bind da_init da_out flush_initial]. rewrite dash_ops_app.
    rewrite dash_lines_on_first with (cur := p0); cbn [da_cur da_startp da_first da_fdash da_init da_st da_out]; auto.
    cbn [bind dash_ops app].
    rewrite dash_op_close_fits with (cur := last pts p0) (sp := p0);
      cbn [da_cur da_startp da_first da_fdash da_init da_st da_out ds_on ds_rem]; auto.
    cbn [bind da_init da_out flush_initial]. unfold closed_on_result.
    cbn [rev]. rewrite rev_app_distr, rev_involutive. reflexivity.
  Qed.

  (* off: only pen moves, open or closed *)
  Lemma dashed_open_off p0 pts :
    ds_on initial = false -> never_chops (ds_rem initial) p0 pts = true ->
    dashed arr initial (MoveTo p0 :: map LineTo pts) = Ok (MoveTo p0 :: map MoveTo pts).
  Proof.
    intros Hon Hn. unfold dashed. cbn [dash_ops dash_op bind da_init da_out flush_initial].
    rewrite dash_lines_off with (cur := p0); cbn [da_cur da_startp da_first da_fdash da_init da_st da_out]; auto.
    cbn [bind da_init da_out flush_initial]. rewrite rev_app_distr, rev_involutive. reflexivity.
  Qed.

  Lemma dashed_closed_off p0 pts :
    ds_on initial = false -> never_chops (ds_rem initial) p0 (pts ++ [p0]) = true ->
    dashed arr initial (MoveTo p0 :: map LineTo pts ++ [Close]) = Ok (MoveTo p0 :: map MoveTo pts).
  Proof.
    intros Hon Hn. rewrite never_chops_app in Hn. apply andb_true_iff in Hn. destruct Hn as [Hn Hf].
    apply negb_true_iff in Hf.
    unfold dashed. cbn [dash_ops dash_op bind da_init da_out flush_initial]. rewrite dash_ops_app.
    rewrite dash_lines_off with (cur := p0); cbn [da_cur da_startp da_first da_fdash da_init da_st da_out]; auto.
    cbn [bind dash_ops].
    rewrite dash_op_close_fits with (cur := last pts p0) (sp := p0);
      cbn [da_cur da_startp da_first da_fdash da_init da_st da_out ds_on ds_rem]; auto.
    cbn [bind da_init da_out flush_initial]. rewrite rev_app_distr, rev_involutive. reflexivity.
  Qed.
End Whole.

(* ---- the same for dash_path ---- *)
Lemma dash_path_of_dashed arr off initial ops w r :
  fgt (dash_total arr) f0 = true -> dash_initial arr off = Some initial ->
  dashed arr initial ops = Ok r -> dash_path arr (mk_path ops w) off = Ok (mk_path r NonZero).
Proof. intros Ht Hi Hd. rewrite dash_path_unfold, Ht, Hi. cbn [negb p_ops]. rewrite Hd. reflexivity. Qed.

(* 2. OPEN SUBPATH INSIDE THE FIRST DASH: dash_path returns that subpath; its first dash is buffered and emitted at the
   end as both ends of every segment, after the MoveTo that opened the subpath - so the MoveTo and the interior vertices
   come twice:  M p0, M p0, L p1, L p1, L p2, ... , L p(n-1), L pn.  The vertices are those of the subpath, in order. *)
Theorem dash_whole_subpath_on_open arr off initial p0 pts w :
  fgt (dash_total arr) f0 = true -> dash_initial arr off = Some initial ->
  ds_on initial = true -> never_chops (ds_rem initial) p0 pts = true ->
  dash_path arr (mk_path (MoveTo p0 :: map LineTo pts) w) off = Ok (mk_path (open_on_result p0 pts) NonZero)
  /\ stutter (p0 :: pts) (op_points (open_on_result p0 pts)).
Proof.
  intros Ht Hi Hon Hn. split.
  - apply (dash_path_of_dashed arr off initial); auto. apply dashed_open_on; assumption.
  - rewrite open_on_result_points. apply stutter_seg_pairs.
Qed.
Print Assumptions dash_whole_subpath_on_open.

(* 3. CLOSED SUBPATH INSIDE THE FIRST DASH (the closing segment included): the complete closed outline
   M p0, L p0, L p1, L p1, L p2, ... , L pn, Close. *)
Theorem dash_whole_subpath_on_closed arr off initial p0 pts w :
  fgt (dash_total arr) f0 = true -> dash_initial arr off = Some initial ->
  ds_on initial = true -> never_chops (ds_rem initial) p0 (pts ++ [p0]) = true ->
  dash_path arr (mk_path (MoveTo p0 :: map LineTo pts ++ [Close]) w) off = Ok (mk_path (closed_on_result p0 pts) NonZero)
  /\ stutter (p0 :: pts) (op_points (closed_on_result p0 pts))
  /\ last (closed_on_result p0 pts) (MoveTo p0) = Close.
Proof.
  intros Ht Hi Hon Hn. split; [|split].
  - apply (dash_path_of_dashed arr off initial); auto. apply dashed_closed_on; assumption.
  - rewrite closed_on_result_points. apply stutter_seg_pairs.
  - unfold closed_on_result. rewrite last_cons_default. apply last_last.
Qed.
Print Assumptions dash_whole_subpath_on_closed.

(* 6. SUBPATH INSIDE A GAP: no LineTo at all, only pen moves (open or closed alike) *)
Theorem dash_whole_subpath_off arr off initial p0 pts w (closed : bool) :
  fgt (dash_total arr) f0 = true -> dash_initial arr off = Some initial ->
  ds_on initial = false ->
  never_chops (ds_rem initial) p0 (if closed then pts ++ [p0] else pts) = true ->
  dash_path arr (mk_path (MoveTo p0 :: map LineTo pts ++ (if closed then [Close] else [])) w) off =
    Ok (mk_path (MoveTo p0 :: map MoveTo pts) NonZero)
  /\ forall q, ~ In (LineTo q) (MoveTo p0 :: map MoveTo pts).
Proof.
  intros Ht Hi Hon Hn. split.
  - apply (dash_path_of_dashed arr off initial); auto. destruct closed.
    + apply dashed_closed_off; assumption.
    + rewrite app_nil_r. apply dashed_open_off; assumption.
  - intros q [H|H]; [discriminate|]. apply in_map_iff in H. destruct H as (x & H & _). discriminate.
Qed.
Print Assumptions dash_whole_subpath_off.

(* in context: what a path dashes to is what its parts before a MoveTo, and from that MoveTo on, dash to; so the three
   theorems above describe the contribution of such a subpath wherever it stands in a path *)
Theorem dash_subpath_in_context arr off ops1 p0 sub q ops2 w :
  dash_path arr (mk_path (ops1 ++ (MoveTo p0 :: sub) ++ MoveTo q :: ops2) w) off =
  do r1 <- dash_path arr (mk_path ops1 w) off;
  do r <- dash_path arr (mk_path (MoveTo p0 :: sub) w) off;
  do r2 <- dash_path arr (mk_path (MoveTo q :: ops2) w) off;
  Ok (mk_path (p_ops r1 ++ p_ops r ++ p_ops r2) NonZero).
Proof.
  change ((MoveTo p0 :: sub) ++ MoveTo q :: ops2) with (MoveTo p0 :: (sub ++ MoveTo q :: ops2)).
  rewrite (dash_path_concat arr ops1 p0 (sub ++ MoveTo q :: ops2) w w w off).
  destruct (dash_path arr (mk_path ops1 w) off) as [r1|e]; cbn [bind]; [|reflexivity].
  change (MoveTo p0 :: sub ++ MoveTo q :: ops2) with ((MoveTo p0 :: sub) ++ MoveTo q :: ops2).
  rewrite (dash_path_concat arr (MoveTo p0 :: sub) q ops2 w w w off).
  destruct (dash_path arr (mk_path (MoveTo p0 :: sub) w) off) as [r|e]; cbn [bind]; [|reflexivity].
  destruct (dash_path arr (mk_path (MoveTo q :: ops2) w) off) as [r2|e]; cbn [bind]; reflexivity.
Qed.
Print Assumptions dash_subpath_in_context.

(* ------------------------------------------------------------------------------------------------------------------ *)
(* 5. THE CHOP LOOP: where the cut points are and what is emitted at them                                              *)
Section Chop.
  Variable arr : list f32.
  Variable lv : pt.     (* the direction the model computed for the segment: vnormalize (target - start) *)

  (* the loop body without its guard *)
  Definition chop_next (c : chop) : chop :=
    let st := ch_st c in
    let seg := padd (ch_start c) (vscale lv (ds_rem st)) in
    let idx := ds_idx st + 1 in
    mk_chop (fsub (ch_len c) (ds_rem st)) seg (mk_ds (negb (ds_on st)) (arr_at arr idx) idx) false
            (if ds_on st then ch_fdash c else false)
            (if ds_on st && ch_first c then ch_init c ++ [ch_start c; seg] else ch_init c)
            (if ds_on st then (if ch_first c then ch_out c else LineTo seg :: ch_out c) else MoveTo seg :: ch_out c).

  Lemma chop_step_next c : chop_step arr lv c = if fgt (ch_len c) (ds_rem (ch_st c)) then Some (chop_next c) else None.
  Proof.
    unfold chop_step, chop_next. destruct (fgt (ch_len c) (ds_rem (ch_st c))); [|reflexivity].
    destruct (ds_on (ch_st c)); [destruct (ch_first c)|]; reflexivity.
  Qed.

  Fixpoint chop_run (k : nat) (c : chop) : chop := match k with O => c | S k' => chop_run k' (chop_next c) end.
  (* the guard was true at each of the k rounds *)
  Fixpoint chop_guards (k : nat) (c : chop) : Prop :=
    match k with O => True | S k' => fgt (ch_len c) (ds_rem (ch_st c)) = true /\ chop_guards k' (chop_next c) end.

  Lemma steps_chop_run c0 c : steps (chop_step arr lv) c0 c -> exists k, c = chop_run k c0 /\ chop_guards k c0.
  Proof.
    induction 1 as [s|s s1 s2 H _ [k [IH1 IH2]]].
    - exists O. split; [reflexivity|exact I].
    - rewrite chop_step_next in H. destruct (fgt (ch_len s) (ds_rem (ch_st s))) eqn:G; [|discriminate].
      inversion H; subst s1. exists (S k). cbn [chop_run chop_guards]. auto.
  Qed.

  (* what the dasher does along one segment: k cuts, then the loop condition fails *)
  Lemma chop_loop_run c0 c : iter_pow2 17 (chop_step arr lv) c0 = (c, true) ->
    exists k, c = chop_run k c0 /\ chop_guards k c0 /\ fgt (ch_len c) (ds_rem (ch_st c)) = false.
  Proof.
    intros E. pose proof (iter_pow2_steps (chop_step arr lv) 17 c0) as [St Hd]. rewrite E in St, Hd. cbn [fst snd] in *.
    destruct (steps_chop_run _ _ St) as [k [H1 H2]]. exists k. split; [assumption|]. split; [assumption|].
    specialize (Hd eq_refl). rewrite chop_step_next in Hd. destruct (fgt (ch_len c) (ds_rem (ch_st c))); [discriminate|reflexivity].
  Qed.

  (* the cut points: q(j+1) = q(j) + lv * r(j), r(0) what remained of the current dash, then the next array entries *)
  Fixpoint chop_pts (k : nat) (q : pt) (r : f32) (idx : Z) : list pt :=
    match k with
    | O => []
    | S k' => let q' := padd q (vscale lv r) in q' :: chop_pts k' q' (arr_at arr (idx + 1)) (idx + 1)
    end.
  (* what is emitted at them once the first dash of the subpath is over: a dash ends (LineTo) or begins (MoveTo) *)
  Fixpoint chop_emit (k : nat) (q : pt) (on : bool) (r : f32) (idx : Z) : list pathop :=
    match k with
    | O => []
    | S k' => let q' := padd q (vscale lv r) in
              (if on then LineTo q' else MoveTo q') :: chop_emit k' q' (negb on) (arr_at arr (idx + 1)) (idx + 1)
    end.
  Lemma chop_emit_points k : forall q on r idx, op_points (chop_emit k q on r idx) = chop_pts k q r idx.
  Proof.
    induction k as [|k IH]; intros q on r idx; [reflexivity|]. cbn [chop_emit chop_pts].
    destruct on; unfold op_points in *; cbn [flat_map app]; rewrite IH; reflexivity.
  Qed.
  (* by parity (1), the kind of op at a cut is read off the index: a dash ends where an even index is left *)
  Fixpoint chop_emit_ix (k : nat) (q : pt) (r : f32) (idx : Z) : list pathop :=
    match k with
    | O => []
    | S k' => let q' := padd q (vscale lv r) in
              (if Z.even idx then LineTo q' else MoveTo q') :: chop_emit_ix k' q' (arr_at arr (idx + 1)) (idx + 1)
    end.
  Lemma chop_emit_by_index k : forall q on r idx, on = Z.even idx -> chop_emit k q on r idx = chop_emit_ix k q r idx.
  Proof.
    induction k as [|k IH]; intros q on r idx H; [reflexivity|]. cbn [chop_emit chop_emit_ix]. rewrite <- H. f_equal.
    apply IH. rewrite H. replace (idx + 1) with (Z.succ idx) by lia. rewrite Z.even_succ, <- Z.negb_even. reflexivity.
  Qed.
  (* every cut point is the previous one moved along lv by the remaining length of the running state *)
  Inductive on_ray (start : pt) : pt -> Prop :=
  | on_ray_start : on_ray start start
  | on_ray_step q r : on_ray start q -> on_ray start (padd q (vscale lv r)).
  Lemma chop_pts_on_ray k : forall start q r idx, on_ray start q -> Forall (on_ray start) (chop_pts k q r idx).
  Proof.
    induction k as [|k IH]; intros start q r idx H; cbn [chop_pts]; constructor.
    - constructor; assumption.
    - apply IH. constructor; assumption.
  Qed.

  Lemma chop_run_later k : forall c, ch_first c = false ->
    let st := ch_st c in
    let c' := chop_run k c in
    ch_out c' = rev (chop_emit k (ch_start c) (ds_on st) (ds_rem st) (ds_idx st)) ++ ch_out c /\
    ch_init c' = ch_init c /\ ch_first c' = false /\
    ch_start c' = last (chop_pts k (ch_start c) (ds_rem st) (ds_idx st)) (ch_start c) /\
    ds_on (ch_st c') = xorb (ds_on st) (Nat.odd k) /\ ds_idx (ch_st c') = ds_idx st + Z.of_nat k.
  Proof.
    induction k as [|k IH]; intros c Hf; cbv zeta.
    - cbn [chop_run chop_emit chop_pts rev app last Nat.odd]. rewrite xorb_false_r, Z.add_0_r. repeat split; auto.
    - cbn [chop_run]. destruct (IH (chop_next c) eq_refl) as (H1 & H2 & H3 & H4 & H5 & H6). cbv zeta in *.
      rewrite H1, H2, H3, H4, H5, H6. clear H1 H2 H3 H4 H5 H6.
      unfold chop_next. cbn [ch_out ch_init ch_first ch_start ch_st ds_on ds_rem ds_idx chop_emit chop_pts rev].
      rewrite Hf, andb_false_r, last_cons_default. rewrite <- app_assoc. cbn [app].
      repeat split.
      + destruct (ds_on (ch_st c)); reflexivity.
      + rewrite Nat.odd_succ, <- Nat.negb_odd. destruct (ds_on (ch_st c)), (Nat.odd k); reflexivity.
      + lia.
  Qed.

  (* 5. For the loop started at `start` in state st0 with buffers (first, init, out) and stopped after k rounds:
     the cut points are chop_pts k start (ds_rem st0) (ds_idx st0) - each is the previous one plus lv times the remaining
     length of the running state, so all lie on the ray from `start` along lv - the loop ends standing on the last one,
     and what it emitted is: during the first dash of the subpath, the first cut goes to the buffer as the pair
     [start; q1] and the rest (a gap comes first) to the output; otherwise everything goes to the output, LineTo q when
     a dash ends at q, MoveTo q when one begins there, alternately. *)
  Theorem dash_points_on_segments c0 c :
    steps (chop_step arr lv) c0 c ->
    let st0 := ch_st c0 in
    exists k, chop_guards k c0 /\ c = chop_run k c0 /\
      let pts := chop_pts k (ch_start c0) (ds_rem st0) (ds_idx st0) in
      Forall (on_ray (ch_start c0)) pts /\
      ch_start c = last pts (ch_start c0) /\
      ds_on (ch_st c) = xorb (ds_on st0) (Nat.odd k) /\ ds_idx (ch_st c) = ds_idx st0 + Z.of_nat k /\
      exists newo newi, ch_out c = rev newo ++ ch_out c0 /\ ch_init c = ch_init c0 ++ newi /\
        (if ds_on st0 && ch_first c0 then
           match k with
           | O => newo = [] /\ newi = []
           | S k' => let q1 := padd (ch_start c0) (vscale lv (ds_rem st0)) in
                     newi = [ch_start c0; q1] /\
                     newo = chop_emit k' q1 false (arr_at arr (ds_idx st0 + 1)) (ds_idx st0 + 1)
           end
         else newi = [] /\ newo = chop_emit k (ch_start c0) (ds_on st0) (ds_rem st0) (ds_idx st0)) /\
        incl (op_points newo ++ newi) (ch_start c0 :: pts).
  Proof.
    intros St st0. destruct (steps_chop_run _ _ St) as [k [Hc Hg]]. exists k. split; [assumption|]. split; [assumption|].
    cbv zeta. split; [apply chop_pts_on_ray; constructor|].
    destruct (ds_on st0 && ch_first c0) eqn:Efirst.
    - apply andb_true_iff in Efirst. destruct Efirst as [Eon Ef]. destruct k as [|k'].
      + cbn [chop_run] in Hc. subst c. cbn [chop_pts last Nat.odd]. rewrite xorb_false_r, Z.add_0_r.
        repeat split. exists [], []. cbn [rev app]. rewrite app_nil_r. repeat split. intros x [].
      + cbn [chop_run] in Hc. destruct (chop_run_later k' (chop_next c0) eq_refl) as (H1 & H2 & H3 & H4 & H5 & H6).
        cbv zeta in *. rewrite <- Hc in *. clear Hc.
        unfold chop_next in H1, H2, H4, H5, H6. cbn [ch_out ch_init ch_first ch_start ch_st ds_on ds_rem ds_idx] in *.
        fold st0 in H1, H2, H4, H5, H6. rewrite Eon, Ef in *. cbn [andb negb] in *.
        cbn [chop_pts]. rewrite last_cons_default. split; [assumption|].
        split; [rewrite H5, Nat.odd_succ, <- Nat.negb_odd; destruct (Nat.odd k'); reflexivity|].
        split; [lia|].
        eexists _, _. split; [exact H1|]. split; [exact H2|]. split; [split; reflexivity|].
        rewrite chop_emit_points. intros x Hx. apply in_app_iff in Hx. destruct Hx as [Hx|Hx].
        * right. right. assumption.
        * destruct Hx as [Hx|[Hx|[]]]; subst x; [left|right; left]; reflexivity.
    - (* either first = false already, or the state is off: in both cases the first round behaves as a later one *)
      assert (H : ch_out c = rev (chop_emit k (ch_start c0) (ds_on st0) (ds_rem st0) (ds_idx st0)) ++ ch_out c0 /\
                  ch_init c = ch_init c0 /\
                  ch_start c = last (chop_pts k (ch_start c0) (ds_rem st0) (ds_idx st0)) (ch_start c0) /\
                  ds_on (ch_st c) = xorb (ds_on st0) (Nat.odd k) /\ ds_idx (ch_st c) = ds_idx st0 + Z.of_nat k).
      { destruct (ch_first c0) eqn:Ef.
        - rewrite andb_true_r in Efirst. destruct k as [|k'].
          + cbn [chop_run] in Hc. subst c. cbn [chop_emit chop_pts rev app last Nat.odd]. rewrite xorb_false_r, Z.add_0_r. repeat split; auto.
          + cbn [chop_run] in Hc. destruct (chop_run_later k' (chop_next c0) eq_refl) as (H1 & H2 & H3 & H4 & H5 & H6).
            cbv zeta in *. rewrite <- Hc in *. clear Hc.
            unfold chop_next in H1, H2, H4, H5, H6. cbn [ch_out ch_init ch_first ch_start ch_st ds_on ds_rem ds_idx] in *.
            fold st0 in H1, H2, H4, H5, H6. rewrite Efirst in *. cbn [andb negb] in *.
            cbn [chop_emit chop_pts rev]. rewrite last_cons_default, <- app_assoc. cbn [app].
            cbn [negb]. split; [exact H1|]. split; [exact H2|]. split; [exact H4|]. split; [|lia].
            rewrite H5, Nat.odd_succ, <- Nat.negb_odd. destruct (Nat.odd k'); reflexivity.
        - destruct (chop_run_later k c0 Ef) as (H1 & H2 & H3 & H4 & H5 & H6). cbv zeta in *. rewrite <- Hc in *. repeat split; auto. }
      destruct H as (H1 & H2 & H4 & H5 & H6). split; [assumption|]. split; [assumption|]. split; [assumption|].
      eexists _, []. split; [exact H1|]. rewrite app_nil_r. split; [exact H2|]. split; [split; reflexivity|].
      rewrite chop_emit_points, app_nil_r. intros x Hx. right. assumption.
  Qed.
End Chop.
Print Assumptions dash_points_on_segments.

(* ------------------------------------------------------------------------------------------------------------------ *)
(* 4. WHAT THE OUTPUT IS MADE OF                                                                                       *)
Definition ml (o : pathop) : Prop := match o with MoveTo _ | LineTo _ => True | _ => False end.
Definition mlc (o : pathop) : Prop := match o with MoveTo _ | LineTo _ | Close => True | _ => False end.
Definition is_close (o : pathop) : bool := match o with Close => true | _ => false end.
Definition closes (l : list pathop) : nat := length (filter is_close l).

Lemma ml_mlc o : ml o -> mlc o.
Proof. destruct o; cbn; auto. Qed.
Lemma Forall_ml_mlc l : Forall ml l -> Forall mlc l.
Proof. intros H. eapply Forall_impl; [|exact H]. exact ml_mlc. Qed.
Lemma closes_app a b : closes (a ++ b) = (closes a + closes b)%nat.
Proof. unfold closes. rewrite filter_app, app_length. reflexivity. Qed.
Lemma closes_ml l : Forall ml l -> closes l = O.
Proof. induction 1 as [|o l H _ IH]; [reflexivity|]. unfold closes in *. destruct o; cbn in *; auto; contradiction. Qed.
Lemma closes_rev l : closes (rev l) = closes l.
Proof. induction l as [|o l IH]; [reflexivity|]. cbn [rev]. rewrite closes_app, IH. unfold closes. destruct o; cbn; lia. Qed.
Lemma closes_In l : In Close l -> (0 < closes l)%nat.
Proof.
  induction l as [|o l IH]; [intros []|]. intros [H|H].
  - subst o. unfold closes. cbn. lia.
  - specialize (IH H). unfold closes in *. cbn [filter]. destruct (is_close o); cbn [length]; lia.
Qed.
Lemma Forall_ml_map_LineTo l : Forall ml (map LineTo l).
Proof. induction l; constructor; cbn; auto. Qed.
Lemma Forall_ml_map_MoveTo l : Forall ml (map MoveTo l).
Proof. induction l; constructor; cbn; auto. Qed.

Lemma flush_initial_split init out : flush_initial init out = flush_initial init [] ++ out.
Proof. exact (flush_initial_ext init [] out). Qed.
Lemma flush_initial_ml init : Forall ml (flush_initial init []).
Proof.
  destruct init as [|p0 rest]; cbn [flush_initial]; [constructor|].
  apply Forall_app. split; [apply Forall_rev, Forall_ml_map_LineTo|]. constructor; [exact I|constructor].
Qed.

Section Ops.
  Variable arr : list f32.

  Lemma chop_step_out lv c c' : chop_step arr lv c = Some c' -> exists newo, ch_out c' = newo ++ ch_out c /\ Forall ml newo.
  Proof.
    rewrite chop_step_next. destruct (fgt _ _); [|discriminate]. intros H; inversion H; subst c'; clear H.
    unfold chop_next. cbn [ch_out]. destruct (ds_on (ch_st c)); [destruct (ch_first c)|].
    - exists []. split; [reflexivity|constructor].
    - eexists [_]. split; [reflexivity|]. repeat constructor.
    - eexists [_]. split; [reflexivity|]. repeat constructor.
  Qed.

  Lemma chop_steps_out lv c0 c : steps (chop_step arr lv) c0 c -> exists newo, ch_out c = newo ++ ch_out c0 /\ Forall ml newo.
  Proof.
    induction 1 as [s|s s1 s2 H _ [n2 [E2 F2]]].
    - exists []. split; [reflexivity|constructor].
    - destruct (chop_step_out _ _ _ H) as [n1 [E1 F1]]. exists (n2 ++ n1). rewrite E2, E1, app_assoc.
      split; [reflexivity|]. apply Forall_app; auto.
  Qed.

  (* once the loop has gone round at least once, the subpath is past its first dash; and if no gap has been seen yet
     (fdash), the loop stands in the first gap *)
  Lemma chop_steps_fdash lv c0 c : steps (chop_step arr lv) c0 c ->
    c = c0 \/ (ch_first c = false /\ (ch_fdash c = true -> ds_on (ch_st c) = false)).
  Proof.
    induction 1 as [s|s s1 s2 H _ IH]; [left; reflexivity|]. right.
    destruct IH as [IH|IH]; [|assumption]. subst s2.
    rewrite chop_step_next in H. destruct (fgt _ _); [|discriminate]. inversion H; subst s1; clear H.
    unfold chop_next. cbn [ch_first ch_fdash ch_st ds_on]. split; [reflexivity|].
    destruct (ds_on (ch_st s)); [reflexivity|discriminate].
  Qed.

  Lemma chop_loop_facts lv c0 c : iter_pow2 17 (chop_step arr lv) c0 = (c, true) ->
    fgt (ch_len c) (ds_rem (ch_st c)) = false /\
    (exists newo, ch_out c = newo ++ ch_out c0 /\ Forall ml newo) /\
    (c = c0 \/ (ch_first c = false /\ (ch_fdash c = true -> ds_on (ch_st c) = false))).
  Proof.
    intros E. pose proof (iter_pow2_steps (chop_step arr lv) 17 c0) as [St Hd]. rewrite E in St, Hd. cbn [fst snd] in *.
    split; [|split; [eapply chop_steps_out|eapply chop_steps_fdash]; eassumption].
    specialize (Hd eq_refl). rewrite chop_step_next in Hd. destruct (fgt _ _); [discriminate|reflexivity].
  Qed.

  (* the condition under which Close is emitted: the Close op comes while the subpath is still in its first dash, no gap
     seen since the subpath began, and the closing segment fits in what remains of that dash *)
  Definition closes_whole_on (a : dash_acc) : Prop :=
    da_fdash a = true /\ ds_on (da_st a) = true /\
    exists cur sp, da_cur a = Some cur /\ da_startp a = Some sp /\
                   fgt (vlength (psub sp cur)) (ds_rem (da_st a)) = false.

  Lemma dash_op_out initial a o a' : dash_op arr initial a o = Ok a' ->
    exists new, da_out a' = new ++ da_out a /\
      (Forall ml new \/
       (o = Close /\ closes_whole_on a /\ new = Close :: rev (map LineTo (da_init a)))).
  Proof.
    destruct o as [p|p|c p|c1 c2 p q|]; cbn [dash_op].
    - intros H; inversion H; subst a'; clear H. cbn [da_out]. rewrite flush_initial_split.
      exists (MoveTo p :: flush_initial (da_init a) []). split; [reflexivity|]. left.
      constructor; [exact I|apply flush_initial_ml].
    - destruct (da_cur a) as [cur|]; [|intros H; inversion H; subst a'; exists []; split; [reflexivity|left; constructor]].
      destruct (iter_pow2 17 _ _) as [c done] eqn:E. destruct done; cbn [negb]; [|discriminate].
      apply chop_loop_facts in E. destruct E as (_ & (newo & Eo & Fo) & _). cbn [ch_out] in Eo.
      destruct (ds_on (ch_st c)); [destruct (ch_first c)|]; intros H; inversion H; subst a'; clear H; cbn [da_out]; rewrite Eo.
      + exists newo. split; [reflexivity|left; assumption].
      + exists (LineTo p :: newo). split; [reflexivity|left; constructor; [exact I|assumption]].
      + exists (MoveTo p :: newo). split; [reflexivity|left; constructor; [exact I|assumption]].
    - discriminate.
    - discriminate.
    - destruct (da_cur a) as [cur|] eqn:Ec; [|intros H; inversion H; subst a'; exists []; split; [reflexivity|left; constructor]].
      destruct (da_startp a) as [sp|] eqn:Es; [|intros H; inversion H; subst a'; exists []; split; [reflexivity|left; constructor]].
      destruct (iter_pow2 17 _ _) as [c done] eqn:E. destruct done; cbn [negb]; [|discriminate].
      apply chop_loop_facts in E. destruct E as (Hf & (newo & Eo & Fo) & HK). cbn [ch_out] in Eo.
      intros H; inversion H; subst a'; clear H; cbn [da_out].
      destruct (ds_on (ch_st c)) eqn:Eon; [destruct (ch_fdash c) eqn:Efd|].
      + destruct HK as [HK|[_ HK]]; [|specialize (HK eq_refl); congruence].
        subst c. cbn [ch_fdash ch_st ch_init ch_out ch_len] in *.
        exists (Close :: rev (map LineTo (da_init a))). split; [reflexivity|]. right. split; [reflexivity|].
        split; [|reflexivity]. split; [assumption|]. split; [assumption|]. exists cur, sp. auto.
      + destruct (ch_init c) as [|i0 it]; rewrite Eo.
        * exists (LineTo sp :: newo). split; [reflexivity|left; constructor; [exact I|assumption]].
        * exists (rev (map LineTo (i0 :: it)) ++ newo). rewrite app_assoc. split; [reflexivity|left].
          apply Forall_app. split; [apply Forall_rev, Forall_ml_map_LineTo|assumption].
      + rewrite flush_initial_split, Eo. exists (flush_initial (ch_init c) [] ++ newo). rewrite app_assoc.
        split; [reflexivity|left]. apply Forall_app. split; [apply flush_initial_ml|assumption].
  Qed.

  Lemma dash_ops_out initial ops : forall a a', dash_ops arr initial a ops = Ok a' ->
    exists new, da_out a' = new ++ da_out a /\ Forall mlc new /\ (closes new <= closes ops)%nat.
  Proof.
    induction ops as [|o t IH]; intros a a'; cbn [dash_ops].
    - intros H; inversion H; subst a'. exists []. split; [reflexivity|]. split; [constructor|]. cbn. lia.
    - destruct (dash_op arr initial a o) as [a1|e] eqn:E; cbn [bind]; [|discriminate]. intros H.
      destruct (IH _ _ H) as (n2 & E2 & F2 & C2). destruct (dash_op_out _ _ _ _ E) as (n1 & E1 & D1).
      exists (n2 ++ n1). rewrite E2, E1, app_assoc. split; [reflexivity|]. rewrite closes_app.
      change (o :: t) with ([o] ++ t). rewrite closes_app.
      destruct D1 as [F1|(Eo & _ & En)].
      + split; [apply Forall_app; split; [assumption|apply Forall_ml_mlc; assumption]|]. rewrite (closes_ml _ F1). lia.
      + subst o n1. split.
        * apply Forall_app; split; [assumption|]. constructor; [exact I|].
          apply Forall_ml_mlc, Forall_rev, Forall_ml_map_LineTo.
        * change (Close :: ?l) with ([Close] ++ l). rewrite closes_app, (closes_ml _ (Forall_rev (Forall_ml_map_LineTo _))).
          cbn. lia.
  Qed.

  Lemma dashed_output_ops initial ops r : dashed arr initial ops = Ok r ->
    Forall mlc r /\ (closes r <= closes ops)%nat.
  Proof.
    unfold dashed. destruct (dash_ops arr initial _ ops) as [a|e] eqn:E; cbn [bind]; [|discriminate].
    intros H; inversion H; subst r; clear H. destruct (dash_ops_out _ _ _ _ E) as (new & En & Fn & Cn).
    cbn [da_out] in En. rewrite app_nil_r in En. rewrite flush_initial_split, En. split.
    - apply Forall_rev, Forall_app. split; [apply Forall_ml_mlc, flush_initial_ml|assumption].
    - rewrite closes_rev, closes_app, (closes_ml _ (flush_initial_ml _)). lia.
  Qed.
End Ops.

(* 4a. dash_path emits MoveTo, LineTo and Close only, and no more Closes than the path has (none for open subpaths) *)
Theorem dash_output_ops arr p off r : dash_path arr p off = Ok r ->
  Forall mlc (p_ops r) /\ (closes (p_ops r) <= closes (p_ops p))%nat.
Proof.
  rewrite dash_path_unfold. destruct (negb (fgt (dash_total arr) f0)).
  - intros H; inversion H; subst r. cbn [p_ops]. split; [constructor|]. cbn. lia.
  - destruct (dash_initial arr off) as [initial|]; [|discriminate].
    destruct (dashed arr initial (p_ops p)) as [ops|e] eqn:E; cbn [bind]; [|discriminate].
    intros H; inversion H; subst r. cbn [p_ops]. eapply dashed_output_ops; eassumption.
Qed.
Print Assumptions dash_output_ops.

(* 4b. CLOSE ONLY IN THE SITUATION OF (3) *)
Section CloseOnly.
  Variable arr : list f32.
  Variable initial : dstate.

  Lemma dash_op_line_cur a p a' : dash_op arr initial a (LineTo p) = Ok a' ->
    da_cur a' = Some p /\ da_startp a' = da_startp a.
  Proof.
    cbn [dash_op]. destruct (da_cur a) as [cur|]; [|intros H; inversion H; subst a'; auto].
    destruct (iter_pow2 17 _ _) as [c done]. destruct (negb done); [discriminate|].
    destruct (ds_on (ch_st c)); [destruct (ch_first c)|]; intros H; inversion H; subst a'; auto.
  Qed.

  (* a LineTo after which no gap has been seen yet was inside the first dash, and fitted *)
  Lemma dash_op_line_fdash a cur p a' : dash_op arr initial a (LineTo p) = Ok a' -> da_cur a = Some cur ->
    da_fdash a' = true ->
    da_fdash a = true /\ ds_on (da_st a) = true /\ fgt (vlength (psub p cur)) (ds_rem (da_st a)) = false.
  Proof.
    intros H Hc. cbn [dash_op] in H. rewrite Hc in H.
    destruct (iter_pow2 17 _ _) as [c done] eqn:E. destruct done; cbn [negb] in H; [|discriminate].
    apply chop_loop_facts in E. destruct E as (Hf & _ & HK).
    destruct (ds_on (ch_st c)) eqn:Eon.
    - assert (Hfd : da_fdash a' = ch_fdash c) by (destruct (ch_first c); inversion H; subst a'; reflexivity).
      rewrite Hfd. intros Efd. destruct HK as [HK|[_ HK]]; [|specialize (HK Efd); congruence].
      subst c. cbn [ch_fdash ch_st ch_len] in *. auto.
    - inversion H; subst a'. cbn [da_fdash]. discriminate.
  Qed.

  Lemma dash_lines_fdash pts : forall a cur a',
    dash_ops arr initial a (map LineTo pts) = Ok a' -> da_cur a = Some cur -> da_fdash a' = true ->
    da_fdash a = true /\ (pts = [] \/ ds_on (da_st a) = true) /\
    never_chops (ds_rem (da_st a)) cur pts = true /\
    da_cur a' = Some (last pts cur) /\ da_startp a' = da_startp a /\
    da_st a' = mk_ds (ds_on (da_st a)) (rem_after (ds_rem (da_st a)) cur pts) (ds_idx (da_st a)).
  Proof.
    induction pts as [|p t IH]; intros a cur a' H Hc Hfd.
    - cbn [map dash_ops] in H. inversion H; subst a'. cbn [never_chops last rem_after].
      destruct (da_st a) as [on r idx]; cbn [ds_on ds_rem ds_idx]. repeat split; auto.
    - cbn [map dash_ops] in H. destruct (dash_op arr initial a (LineTo p)) as [a1|e] eqn:E; cbn [bind] in H; [|discriminate].
      destruct (dash_op_line_cur _ _ _ E) as [Hc1 Hs1].
      destruct (IH a1 p a' H Hc1 Hfd) as (F1 & _ & N1 & C1 & S1 & T1).
      destruct (dash_op_line_fdash _ _ _ _ E Hc F1) as (F0 & On0 & Fit).
      rewrite (dash_op_line_fits arr initial a cur p Hc Fit) in E. inversion E; subst a1; clear E.
      cbn [da_st ds_on ds_rem ds_idx da_startp] in *. rewrite On0 in *.
      cbn [never_chops rem_after]. rewrite Fit, N1, last_cons_default. cbn [negb andb].
      repeat split; auto.
  Qed.

  Theorem dashed_close_only_whole_on p0 pts r :
    dashed arr initial (MoveTo p0 :: map LineTo pts ++ [Close]) = Ok r -> In Close r ->
    ds_on initial = true /\ never_chops (ds_rem initial) p0 (pts ++ [p0]) = true /\ r = closed_on_result p0 pts.
  Proof.
    intros H Hin.
    assert (W : ds_on initial = true /\ never_chops (ds_rem initial) p0 (pts ++ [p0]) = true).
    { unfold dashed in H. cbn [dash_ops dash_op bind da_init da_out flush_initial] in H. rewrite dash_ops_app in H.
      destruct (dash_ops arr initial _ (map LineTo pts)) as [a1|e] eqn:E1; cbn [bind] in H; [|discriminate].
      cbn [dash_ops] in H. destruct (dash_op arr initial a1 Close) as [a2|e] eqn:E2; cbn [bind] in H; [|discriminate].
      inversion H; subst r; clear H. apply in_rev in Hin. rewrite flush_initial_split in Hin.
      destruct (dash_ops_out _ _ _ _ _ E1) as (n1 & En1 & _ & Cn1). cbn [da_out] in En1.
      destruct (dash_op_out _ _ _ _ _ E2) as (n2 & En2 & D2).
      rewrite En2, En1 in Hin. apply closes_In in Hin.
      rewrite !closes_app, (closes_ml _ (flush_initial_ml _)) in Hin.
      assert (closes (map LineTo pts) = O) by (apply closes_ml, Forall_ml_map_LineTo).
      change (closes [MoveTo p0]) with O in Hin.
      destruct D2 as [F2|(_ & (Fd & On1 & cur & sp & Hc & Hs & Fit) & _)]; [rewrite (closes_ml _ F2) in Hin; lia|].
      destruct (dash_lines_fdash pts _ p0 a1 E1 eq_refl Fd) as (_ & _ & N & C1 & S1 & T1).
      cbn [da_st da_startp] in *. rewrite T1 in On1, Fit. cbn [ds_on ds_rem] in On1, Fit.
      rewrite C1 in Hc. rewrite S1 in Hs. inversion Hc; inversion Hs; subst cur sp.
      split; [assumption|]. rewrite never_chops_app, N, Fit. reflexivity. }
    destruct W as [W1 W2]. split; [assumption|]. split; [assumption|].
    rewrite (dashed_closed_on arr initial p0 pts W1 W2) in H. inversion H; reflexivity.
  Qed.
End CloseOnly.

(* for dash_path: a closed subpath whose dashes contain a Close is in the situation of (3) - it starts in a dash and that
   dash covers it entirely, closing segment included - and what is emitted for it is then the complete closed outline *)
Theorem dash_close_only_whole_on arr off initial p0 pts w r :
  fgt (dash_total arr) f0 = true -> dash_initial arr off = Some initial ->
  dash_path arr (mk_path (MoveTo p0 :: map LineTo pts ++ [Close]) w) off = Ok r -> In Close (p_ops r) ->
  ds_on initial = true /\ never_chops (ds_rem initial) p0 (pts ++ [p0]) = true /\ p_ops r = closed_on_result p0 pts.
Proof.
  intros Ht Hi. rewrite dash_path_unfold, Ht, Hi. cbn [negb p_ops].
  destruct (dashed arr initial _) as [ops|e] eqn:E; cbn [bind]; [|discriminate].
  intros H; inversion H; subst r; clear H. cbn [p_ops]. apply (dashed_close_only_whole_on arr initial); assumption.
Qed.
Print Assumptions dash_close_only_whole_on.

(* ---- paths made of ordinary subpaths: MoveTo, LineTos, optional Close ---- *)
Record subpath := mk_sub { sp_start : pt; sp_pts : list pt; sp_closed : bool }.
Definition sub_ops (s : subpath) : list pathop :=
  MoveTo (sp_start s) :: map LineTo (sp_pts s) ++ (if sp_closed s then [Close] else []).
(* the subpath, closing segment included, lies inside the dash it starts in *)
Definition whole_on (initial : dstate) (s : subpath) : bool :=
  ds_on initial &&
  never_chops (ds_rem initial) (sp_start s) (if sp_closed s then sp_pts s ++ [sp_start s] else sp_pts s).

Section Subpaths.
  Variable arr : list f32.
  Variable initial : dstate.

  Fixpoint dashed_each (subs : list subpath) : result (list pathop) :=
    match subs with
    | [] => Ok []
    | s :: t => do r1 <- dashed arr initial (sub_ops s); do r2 <- dashed_each t; Ok (r1 ++ r2)
    end.

  Lemma dashed_subpaths subs : dashed arr initial (concat (map sub_ops subs)) = dashed_each subs.
  Proof.
    induction subs as [|s t IH]; [reflexivity|]. cbn [map concat dashed_each]. destruct t as [|s2 t2].
    - cbn [map concat dashed_each]. rewrite app_nil_r. destruct (dashed arr initial (sub_ops s)); cbn [bind]; [|reflexivity].
      rewrite app_nil_r. reflexivity.
    - rewrite <- IH. cbn [map concat]. unfold sub_ops at 2. rewrite <- app_comm_cons. apply dashed_concat.
  Qed.

  (* what one ordinary subpath dashes to has a Close exactly when the subpath is closed and lies inside its first dash;
     then (closed or not) the result is the subpath itself *)
  Theorem dashed_sub_close s r : dashed arr initial (sub_ops s) = Ok r ->
    (In Close r <-> sp_closed s = true /\ whole_on initial s = true) /\
    (whole_on initial s = true ->
     r = if sp_closed s then closed_on_result (sp_start s) (sp_pts s) else open_on_result (sp_start s) (sp_pts s)).
  Proof.
    destruct s as [p0 pts closed]. unfold sub_ops, whole_on. cbn [sp_start sp_pts sp_closed]. intros H.
    destruct closed.
    - split.
      + split.
        * intros Hin. destruct (dashed_close_only_whole_on arr initial p0 pts r H Hin) as (W1 & W2 & _).
          rewrite W1, W2. auto.
        * intros [_ W]. apply andb_true_iff in W. destruct W as [W1 W2].
          rewrite (dashed_closed_on arr initial p0 pts W1 W2) in H. inversion H; subst r.
          unfold closed_on_result. right. apply in_or_app. right. left. reflexivity.
      + intros W. apply andb_true_iff in W. destruct W as [W1 W2].
        rewrite (dashed_closed_on arr initial p0 pts W1 W2) in H. inversion H; reflexivity.
    - rewrite app_nil_r in H. split.
      + split; [|intros [? _]; discriminate]. intros Hin. exfalso.
        destruct (dashed_output_ops arr initial _ r H) as [_ C]. apply closes_In in Hin.
        assert (E : closes (MoveTo p0 :: map LineTo pts) = O).
        { apply closes_ml. constructor; [exact I|apply Forall_ml_map_LineTo]. }
        lia.
      + intros W. apply andb_true_iff in W. destruct W as [W1 W2].
        rewrite (dashed_open_on arr initial p0 pts W1 W2) in H. inversion H; reflexivity.
  Qed.
End Subpaths.

Theorem dash_path_subpaths arr off initial subs w :
  fgt (dash_total arr) f0 = true -> dash_initial arr off = Some initial ->
  dash_path arr (mk_path (concat (map sub_ops subs)) w) off =
  do ops <- dashed_each arr initial subs; Ok (mk_path ops NonZero).
Proof. intros Ht Hi. rewrite dash_path_unfold, Ht, Hi. cbn [negb p_ops]. rewrite dashed_subpaths. reflexivity. Qed.
Print Assumptions dash_path_subpaths.
Print Assumptions dashed_sub_close.

(* ------------------------------------------------------------------------------------------------------------------ *)
(* LineTo and Close in general: k cuts (section 5), then the tail of the segment                                       *)
Section Run.
  Variable arr : list f32.
  Variable initial : dstate.

  Theorem dash_op_line_run a cur p a' :
    da_cur a = Some cur -> dash_op arr initial a (LineTo p) = Ok a' ->
    let lv := vnormalize (psub p cur) in
    let c0 := mk_chop (vlength (psub p cur)) cur (da_st a) (da_first a) (da_fdash a) (da_init a) (da_out a) in
    exists k, let c := chop_run arr lv k c0 in
      chop_guards arr lv k c0 /\ fgt (ch_len c) (ds_rem (ch_st c)) = false /\
      a' = mk_da (Some p) (da_startp a) (ch_first c)
                 (if ds_on (ch_st c) then ch_fdash c else false)
                 (if ds_on (ch_st c) && ch_first c then ch_init c ++ [ch_start c; p] else ch_init c)
                 (mk_ds (ds_on (ch_st c)) (fsub (ds_rem (ch_st c)) (ch_len c)) (ds_idx (ch_st c)))
                 (if ds_on (ch_st c) then (if ch_first c then ch_out c else LineTo p :: ch_out c)
                  else MoveTo p :: ch_out c).
  Proof.
    intros Hc H lv c0. cbn [dash_op] in H. rewrite Hc in H. fold lv c0 in H.
    destruct (iter_pow2 17 (chop_step arr lv) c0) as [c done] eqn:E. destruct done; cbn [negb] in H; [|discriminate].
    destruct (chop_loop_run arr lv c0 c E) as (k & Ek & Hg & Hf). exists k. cbv zeta. rewrite <- Ek.
    split; [assumption|]. split; [assumption|].
    destruct (ds_on (ch_st c)); [destruct (ch_first c)|]; inversion H; reflexivity.
  Qed.

  (* Close: when the closing segment ends in a dash and a gap was seen before, that last dash is continued through the
     buffered first dash of the subpath (LineTos, no MoveTo in between): the two pieces are joined.  When it ends in a
     gap the buffered first dash is emitted on its own.  When no gap was ever seen, the outline is closed. *)
  Theorem dash_op_close_run a cur sp a' :
    da_cur a = Some cur -> da_startp a = Some sp -> dash_op arr initial a Close = Ok a' ->
    let lv := vnormalize (psub sp cur) in
    let c0 := mk_chop (vlength (psub sp cur)) cur (da_st a) (da_first a) (da_fdash a) (da_init a) (da_out a) in
    exists k, let c := chop_run arr lv k c0 in
      chop_guards arr lv k c0 /\ fgt (ch_len c) (ds_rem (ch_st c)) = false /\
      a' = mk_da (Some sp) (Some sp) true true [] initial
                 (if ds_on (ch_st c) then
                    if ch_fdash c then Close :: rev (map LineTo (ch_init c)) ++ ch_out c
                    else match ch_init c with
                         | [] => LineTo sp :: ch_out c
                         | _ => rev (map LineTo (ch_init c)) ++ ch_out c
                         end
                  else flush_initial (ch_init c) (ch_out c)).
  Proof.
    intros Hc Hs H lv c0. cbn [dash_op] in H. rewrite Hc, Hs in H. fold lv c0 in H.
    destruct (iter_pow2 17 (chop_step arr lv) c0) as [c done] eqn:E. destruct done; cbn [negb] in H; [|discriminate].
    destruct (chop_loop_run arr lv c0 c E) as (k & Ek & Hg & Hf). exists k. cbv zeta. rewrite <- Ek.
    split; [assumption|]. split; [assumption|]. inversion H; reflexivity.
  Qed.
End Run.
Print Assumptions dash_op_line_run.
Print Assumptions dash_op_close_run.

(* ------------------------------------------------------------------------------------------------------------------ *)
(* 7. NON-VACUITY                                                                                                      *)
Module Examples.
  Definition P (x y : Z) : pt := (of_int x, of_int y).
  (* an op as (kind, bits of x, bits of y) *)
  Definition show (o : pathop) : Z * Z * Z :=
    match o with
    | MoveTo p => (0, to_bits (px p), to_bits (py p))
    | LineTo p => (1, to_bits (px p), to_bits (py p))
    | Close => (2, 0, 0)
    | _ => (3, 0, 0)
    end.
  Definition shown (r : result path) : list (Z * Z * Z) := match r with Ok p => map show (p_ops p) | Err _ => [(4, 0, 0)] end.
  (* the hypotheses of the whole-subpath theorems, as one boolean *)
  Definition hyp (arr : list f32) (off : f32) (on : bool) (p0 : pt) (pts : list pt) : bool :=
    fgt (dash_total arr) f0 &&
    match dash_initial arr off with
    | Some st => Bool.eqb (ds_on st) on && never_chops (ds_rem st) p0 pts
    | None => false
    end.
  Lemma hyp_elim arr off on p0 pts : hyp arr off on p0 pts = true ->
    fgt (dash_total arr) f0 = true /\
    exists st, dash_initial arr off = Some st /\ ds_on st = on /\ never_chops (ds_rem st) p0 pts = true.
  Proof.
    unfold hyp. intros H. apply andb_true_iff in H. destruct H as [H1 H2]. split; [assumption|].
    destruct (dash_initial arr off) as [st|]; [|discriminate]. apply andb_true_iff in H2. destruct H2 as [H2 H3].
    exists st. split; [reflexivity|]. split; [apply Bool.eqb_prop; assumption|assumption].
  Qed.

  (* a 100 x 100 square, pattern [1000] (odd length: on 1000, off 1000): whole-on, the complete closed outline *)
  Definition square_pts := [P 100 0; P 100 100; P 0 100].
  Definition square := MoveTo (P 0 0) :: map LineTo square_pts ++ [Close].
  Example square_whole_on_hyp : hyp [of_int 1000] f0 true (P 0 0) (square_pts ++ [P 0 0]) = true.
  Proof. vm_compute. reflexivity. Qed.
  Example square_whole_on :
    dash_path [of_int 1000] (mk_path square EvenOdd) f0 = Ok (mk_path (closed_on_result (P 0 0) square_pts) NonZero).
  Proof.
    destruct (hyp_elim _ _ _ _ _ square_whole_on_hyp) as (Ht & st & Hi & Hon & Hn).
    exact (proj1 (dash_whole_subpath_on_closed _ _ st (P 0 0) square_pts EvenOdd Ht Hi Hon Hn)).
  Qed.
  Example square_whole_on_computed :
    shown (dash_path [of_int 1000] (mk_path square EvenOdd) f0) =
    [(0, 0, 0); (1, 0, 0); (1, 1120403456, 0); (1, 1120403456, 0); (1, 1120403456, 1120403456);
     (1, 1120403456, 1120403456); (1, 0, 1120403456); (2, 0, 0)].
  Proof. vm_compute. reflexivity. Qed.

  (* the same square with pattern [30; 10]: chopped; a gap was seen, so no Close *)
  Example square_chopped_no_close :
    existsb (fun t => Z.eqb (fst (fst t)) 2) (shown (dash_path [of_int 30; of_int 10] (mk_path square EvenOdd) f0)) = false
    /\ whole_on (mk_ds true (of_int 30) 0) (mk_sub (P 0 0) square_pts true) = false.
  Proof. split; vm_compute; reflexivity. Qed.

  (* an open two-segment polyline (0,0) -> (3,4) -> (3,10), lengths 5 and 6, pattern [30; 10] offset 5:
     25 remain of the first dash *)
  Definition poly_pts := [P 3 4; P 3 10].
  Example polyline_whole_on_hyp : hyp [of_int 30; of_int 10] (of_int 5) true (P 0 0) poly_pts = true.
  Proof. vm_compute. reflexivity. Qed.
  Example polyline_whole_on :
    dash_path [of_int 30; of_int 10] (mk_path (MoveTo (P 0 0) :: map LineTo poly_pts) NonZero) (of_int 5) =
    Ok (mk_path [MoveTo (P 0 0); MoveTo (P 0 0); LineTo (P 3 4); LineTo (P 3 4); LineTo (P 3 10)] NonZero).
  Proof.
    destruct (hyp_elim _ _ _ _ _ polyline_whole_on_hyp) as (Ht & st & Hi & Hon & Hn).
    exact (proj1 (dash_whole_subpath_on_open _ _ st (P 0 0) poly_pts NonZero Ht Hi Hon Hn)).
  Qed.
  Example polyline_whole_on_computed :
    shown (dash_path [of_int 30; of_int 10] (mk_path (MoveTo (P 0 0) :: map LineTo poly_pts) NonZero) (of_int 5)) =
    [(0, 0, 0); (0, 0, 0); (1, 1077936128, 1082130432); (1, 1077936128, 1082130432); (1, 1077936128, 1092616192)].
  Proof. vm_compute. reflexivity. Qed.

  (* the same pattern at offset 32: the subpath starts 2 into the gap, 8 remain; (0,0) -> (3,4) -> (3,6) stays in it *)
  Definition gap_pts := [P 3 4; P 3 6].
  Example polyline_off_hyp : hyp [of_int 30; of_int 10] (of_int 32) false (P 0 0) gap_pts = true.
  Proof. vm_compute. reflexivity. Qed.
  Example polyline_off :
    dash_path [of_int 30; of_int 10] (mk_path (MoveTo (P 0 0) :: map LineTo gap_pts) NonZero) (of_int 32) =
    Ok (mk_path [MoveTo (P 0 0); MoveTo (P 3 4); MoveTo (P 3 6)] NonZero).
  Proof.
    destruct (hyp_elim _ _ _ _ _ polyline_off_hyp) as (Ht & st & Hi & Hon & Hn).
    pose proof (proj1 (dash_whole_subpath_off _ _ st (P 0 0) gap_pts NonZero false Ht Hi Hon Hn)) as H.
    cbn [app] in H. rewrite app_nil_r in H. exact H.
  Qed.

  (* a segment that is cut: (0,0) -> (100,0), pattern [30; 10] offset 5.  The first dash [0,25] is buffered and comes
     last; in between the output alternates MoveTo (a dash begins) and LineTo (it ends) at the cut points 35, 65, 75 *)
  Example line_cut_computed :
    shown (dash_path [of_int 30; of_int 10] (mk_path [MoveTo (P 0 0); LineTo (P 100 0)] NonZero) (of_int 5)) =
    map show [MoveTo (P 0 0); MoveTo (P 35 0); LineTo (P 65 0); MoveTo (P 75 0); LineTo (P 100 0);
              MoveTo (P 0 0); LineTo (P 25 0)].
  Proof. vm_compute. reflexivity. Qed.
  (* the state after the offset loop for offset 35 = 30 + 5: index 1, off, 5 left (parity: off at an odd index) *)
  Example initial_state_computed :
    match dash_initial [of_int 30; of_int 10] (of_int 35) with
    | Some st => Some (ds_on st, to_bits (ds_rem st), ds_idx st)
    | None => None
    end = Some (false, to_bits (of_int 5), 1).
  Proof. vm_compute. reflexivity. Qed.
End Examples.
