(* C09: what the dasher on positions (DashPos.pdash) emits, in terms of the dash pattern's boundaries. *)
From Coq Require Import ZArith List Lia Bool ZifyBool.
Require Import RQ.Base RQ.Contains RQ.DashZ RQ.DashPos.
Import ListNotations.
Open Scope Z_scope.

(* ---- lists of positions ---- *)
(* non-increasing *)
Fixpoint desc (l : list Z) : Prop :=
  match l with [] => True | x :: t => (forall y, In y t -> y <= x) /\ desc t end.
Definition asc (l : list Z) : Prop := desc (rev l).
(* all entries equal (in particular: at most one entry) *)
Definition degenerate (l : list Z) : Prop := forall x y, In x l -> In y l -> x = y.

Lemma desc_cons x l : desc l -> (forall y, In y l -> y <= x) -> desc (x :: l).
Proof. intros D H. split; assumption. Qed.

(* the pieces of a (reversed) op list: newest piece first, each piece newest position first *)
Fixpoint ppieces_rev (rout : list pop) : list (list Z) :=
  match rout with
  | [] => []
  | PMove t :: r => [t] :: ppieces_rev r
  | PLine t :: r => match ppieces_rev r with [] => [[t]] | pc :: ps => (t :: pc) :: ps end
  end.

Lemma ppieces_rev_lines l : forall i0 out,
  ppieces_rev (map PLine l ++ PMove i0 :: out) = (l ++ [i0]) :: ppieces_rev out.
Proof.
  induction l as [|x l IH]; intros i0 out; cbn [map app ppieces_rev]; [reflexivity|]. rewrite IH. reflexivity.
Qed.
Lemma ppieces_rev_flush init out :
  ppieces_rev (pflush init out) = match init with [] => ppieces_rev out | _ => rev init :: ppieces_rev out end.
Proof.
  destruct init as [|i0 it]; cbn [pflush]; [reflexivity|]. rewrite <- map_rev, ppieces_rev_lines. reflexivity.
Qed.

Section Spec.
  Variable zarr : list Z.
  Hypothesis Hpos1 : forall i, 1 <= zarr_at zarr i.

  (* ---- the boundaries of the cyclically repeated array: entry j covers [zb j, zb (j + 1)] ---- *)
  Fixpoint zbn (j : nat) : Z := match j with O => 0 | S j' => zbn j' + zarr_at zarr (Z.of_nat j') end.
  Definition zb (j : Z) : Z := zbn (Z.to_nat j).
  Lemma zb_0 : zb 0 = 0.
  Proof. reflexivity. Qed.
  Lemma zb_succ j : 0 <= j -> zb (j + 1) = zb j + zarr_at zarr j.
  Proof.
    intros H. unfold zb. rewrite Z2Nat.inj_add by lia. change (Z.to_nat 1) with 1%nat. rewrite Nat.add_1_r. cbn [zbn].
    rewrite Z2Nat.id by exact H. reflexivity.
  Qed.
  Lemma zb_step j : 0 <= j -> zb j + 1 <= zb (j + 1).
  Proof. intros H. rewrite zb_succ by exact H. pose proof (Hpos1 j). lia. Qed.
  Lemma zb_mono_n i k : 0 <= i -> zb i + Z.of_nat k <= zb (i + Z.of_nat k).
  Proof.
    intros Hi. induction k as [|k IH]; [cbn [Z.of_nat]; rewrite !Z.add_0_r; lia|].
    replace (i + Z.of_nat (S k)) with (i + Z.of_nat k + 1) by lia.
    pose proof (zb_step (i + Z.of_nat k)). lia.
  Qed.
  Lemma zb_mono i j : 0 <= i <= j -> zb i + (j - i) <= zb j.
  Proof.
    intros H. pose proof (zb_mono_n i (Z.to_nat (j - i)) (proj1 H)) as M.
    rewrite Z2Nat.id in M by lia. replace (i + (j - i)) with j in M by lia. exact M.
  Qed.
  Lemma zb_nonneg j : 0 <= zb j.
  Proof.
    destruct (Z_lt_le_dec j 0).
    - unfold zb. replace (Z.to_nat j) with O by lia. cbn. lia.
    - pose proof (zb_mono 0 j). rewrite zb_0 in *. lia.
  Qed.
  Lemma zb_lt i j : 0 <= i < j -> zb i < zb j.
  Proof. intros H. pose proof (zb_mono i j). lia. Qed.
  Lemma zb_le_inv i j : 0 <= i -> 0 <= j -> zb i < zb j -> i < j.
  Proof. intros Hi Hj H. destruct (Z_lt_le_dec i j); [assumption|]. pose proof (zb_mono j i). lia. Qed.

  (* ---- pieces and intervals ---- *)
  (* the positions of the piece [a, b] of a polyline with vertex positions vs *)
  Definition pelems (vs : list Z) (a b x : Z) : Prop := x = a \/ x = b \/ (In x vs /\ a <= x <= b).
  (* a (reversed) list of positions that is such a piece: sorted, and these positions exactly, possibly repeated *)
  Definition popen (vs : list Z) (pc : list Z) (a b : Z) : Prop :=
    a <= b /\ desc pc /\ forall x, In x pc <-> pelems vs a b x.

  Inductive matches (vs : list Z) : list (list Z) -> list (Z * Z) -> Prop :=
  | m_nil : matches vs [] []
  | m_junk pc r ivs : degenerate pc -> matches vs r ivs -> matches vs (pc :: r) ivs
  | m_piece pc r a b ivs : a < b -> popen vs pc a b -> matches vs r ivs -> matches vs (pc :: r) ((a, b) :: ivs).

  Lemma degenerate_single t : degenerate [t].
  Proof. intros x y [<-|[]] [<-|[]]. reflexivity. Qed.
  Lemma degenerate_nil : degenerate [].
  Proof. intros x y []. Qed.

  Lemma popen_single vs t : popen vs [t] t t.
  Proof.
    split; [lia|]. split; [split; [intros y []|exact I]|]. intros x. unfold pelems. cbn [In]. split.
    - intros [<-|[]]. left; reflexivity.
    - intros [->|[->|[_ H]]]; left; lia.
  Qed.

  (* one more position at the newer end *)
  Lemma popen_extend vs vs' pc a t t' : popen vs pc a t -> t <= t' -> (t = a \/ In t vs) ->
    (forall x, In x vs -> x <= t) -> (forall x, In x vs -> In x vs') -> (forall x, In x vs' -> In x vs \/ x = t') ->
    popen vs' (t' :: pc) a t'.
  Proof.
    intros (L & D & E) Ht Hin Hb I1 I2. split; [lia|]. split.
    - split; [|exact D]. intros y Hy. apply E in Hy. destruct Hy as [->|[->|[Hy ?]]]; lia.
    - intros x. cbn [In]. rewrite E. unfold pelems. split.
      + intros [<-|[->|[->|[Hx Hr]]]].
        * right; left; reflexivity.
        * left; reflexivity.
        * destruct Hin as [->|Hin]; [left; reflexivity|]. right; right. split; [apply I1, Hin|lia].
        * right; right. split; [apply I1, Hx|lia].
      + intros [->|[->|[Hx Hr]]].
        * right; left; reflexivity.
        * left; reflexivity.
        * destruct (I2 x Hx) as [Hx'| ->]; [|left; reflexivity]. right. right; right. split; [exact Hx'|]. specialize (Hb x Hx'). lia.
  Qed.

  (* a complete piece is not affected by later vertices *)
  Lemma popen_mono vs vs' pc a b : popen vs pc a b -> (forall x, In x vs -> In x vs') ->
    (forall x, In x vs' -> In x vs \/ b <= x) -> popen vs' pc a b.
  Proof.
    intros (L & D & E) I1 I2. split; [exact L|]. split; [exact D|]. intros x. rewrite E. unfold pelems. split.
    - intros [->|[->|[Hx Hr]]]; auto.
    - intros [->|[->|[Hx Hr]]]; auto. destruct (I2 x Hx) as [Hx'|Hx']; [auto|]. right; left. lia.
  Qed.
  Lemma matches_mono vs vs' B r ivs : matches vs r ivs -> (forall x, In x vs -> In x vs') ->
    (forall x, In x vs' -> In x vs \/ B <= x) -> (forall a b, In (a, b) ivs -> b <= B) -> matches vs' r ivs.
  Proof.
    intros M I1 I2. induction M as [|pc r ivs Dg M IH|pc r a b ivs L P M IH]; intros HB.
    - constructor.
    - apply m_junk; [exact Dg|apply IH, HB].
    - apply m_piece; [exact L| |apply IH; intros a' b' H; apply (HB a' b'); right; exact H].
      apply (popen_mono vs); [exact P|exact I1|]. intros x Hx. destruct (I2 x Hx) as [H|H]; [auto|].
      right. specialize (HB a b (or_introl eq_refl)). lia.
  Qed.

  (* ---- the run: pattern position o at the start of the subpath, inside entry idx0 ---- *)
  Variables (o idx0 : Z).
  Hypothesis Hidx0 : 0 <= idx0.
  Hypothesis Ho : zb idx0 <= o <= zb (idx0 + 1).

  (* the complete 'on' entries idx0 < j <= idx0 + k as intervals of arc length, newest first *)
  Fixpoint ivs_upto (k : nat) : list (Z * Z) :=
    match k with
    | O => []
    | S k' => let j := idx0 + 1 + Z.of_nat k' in
              (if Z.even j then [(zb j - o, zb (j + 1) - o)] else []) ++ ivs_upto k'
    end.
  (* ... those before entry idx *)
  Definition ivs_done (idx : Z) : list (Z * Z) := ivs_upto (Z.to_nat (idx - idx0 - 1)).

  Lemma ivs_done_succ idx : idx0 < idx ->
    ivs_done (idx + 1) = (if Z.even idx then [(zb idx - o, zb (idx + 1) - o)] else []) ++ ivs_done idx.
  Proof.
    intros H. unfold ivs_done. replace (idx + 1 - idx0 - 1) with (idx - idx0 - 1 + 1) by lia.
    rewrite Z2Nat.inj_add by lia. change (Z.to_nat 1) with 1%nat. rewrite Nat.add_1_r. cbn [ivs_upto].
    rewrite Z2Nat.id by lia. replace (idx0 + 1 + (idx - idx0 - 1)) with idx by lia. reflexivity.
  Qed.
  Lemma ivs_done_first : ivs_done (idx0 + 1) = [].
  Proof. unfold ivs_done. replace (idx0 + 1 - idx0 - 1) with 0 by lia. reflexivity. Qed.
  Lemma ivs_upto_bound k : forall a b, In (a, b) (ivs_upto k) -> b <= zb (idx0 + 1 + Z.of_nat k) - o.
  Proof.
    induction k as [|k IH]; intros a b; cbn [ivs_upto]; [intros []|]. intros H. apply in_app_or in H.
    replace (idx0 + 1 + Z.of_nat (S k)) with (idx0 + 1 + Z.of_nat k + 1) by lia.
    pose proof (zb_step (idx0 + 1 + Z.of_nat k)).
    destruct H as [H|H].
    - destruct (Z.even (idx0 + 1 + Z.of_nat k)); [|destruct H]. destruct H as [H|[]]. inversion H; subst. lia.
    - specialize (IH a b H). lia.
  Qed.
  Lemma ivs_done_bound idx a b : idx0 < idx -> In (a, b) (ivs_done idx) -> b <= zb idx - o.
  Proof.
    intros H Hin. apply ivs_upto_bound in Hin. rewrite Z2Nat.id in Hin by lia.
    replace (idx0 + 1 + (idx - idx0 - 1)) with idx in Hin by lia. exact Hin.
  Qed.

  Lemma last_0_or_In (vs : list Z) : (vs = [] /\ last vs 0 = 0) \/ In (last vs 0) vs.
  Proof.
    destruct vs as [|v vs]; [left; split; reflexivity|right].
    revert v. induction vs as [|w vs IH]; intros v; [left; reflexivity|].
    change (last (v :: w :: vs) 0) with (last (w :: vs) 0). right. apply IH.
  Qed.

  Lemma even_succ_negb n : Z.even (n + 1) = negb (Z.even n).
  Proof. replace (n + 1) with (Z.succ n) by lia. rewrite Z.even_succ, <- Z.negb_even. reflexivity. Qed.

  (* the state of the dasher at position t of a polyline whose vertices so far are at vs *)
  Definition INV (vs : list Z) (t : Z) (st : zds) (first : bool) (init : list Z) (out : list pop) : Prop :=
    let idx := zs_idx st in
    (zs_on st = Z.even idx /\ zs_rem st = zb (idx + 1) - (o + t) /\ idx0 <= idx /\ zb idx <= o + t <= zb (idx + 1)) /\
    (0 <= t /\ (forall x, In x vs -> 0 <= x <= t) /\ (t = last vs 0 \/ (first = false /\ t = zb idx - o))) /\
    (first = true -> idx = idx0 /\ t = last vs 0 /\
       (Z.even idx0 = true -> out = [PMove 0] /\ ((vs = [] /\ init = []) \/ popen vs (rev init) 0 t)) /\
       (Z.even idx0 = false -> init = [] /\ matches vs (ppieces_rev out) [])) /\
    (first = false -> idx0 < idx /\
       (Z.even idx0 = true -> popen vs (rev init) 0 (zb (idx0 + 1) - o)) /\
       (Z.even idx0 = false -> init = []) /\
       (if Z.even idx
        then exists pc rest, ppieces_rev out = pc :: rest /\ popen vs pc (zb idx - o) t /\ matches vs rest (ivs_done idx)
        else matches vs (ppieces_rev out) (ivs_done idx))).

  (* the buffered first dash grows by the pair [t; t'] *)
  Lemma first_dash_extend vs vs' init t t' : (vs = [] /\ init = []) \/ popen vs (rev init) 0 t ->
    t = last vs 0 -> t <= t' -> (forall x, In x vs -> 0 <= x <= t) ->
    (forall x, In x vs -> In x vs') -> (forall x, In x vs' -> In x vs \/ x = t') ->
    popen vs' (rev (init ++ [t; t'])) 0 t'.
  Proof.
    intros H Et Ht Hb I1 I2. rewrite rev_app_distr. cbn [rev app].
    assert (Hin : t = 0 \/ In t vs).
    { destruct (last_0_or_In vs) as [[_ E]|E]; [left; congruence|right; congruence]. }
    assert (P1 : popen vs (t :: rev init) 0 t).
    { destruct H as [[-> ->]|H].
      - cbn [last] in Et. subst t. apply popen_single.
      - apply (popen_extend vs vs _ 0 t t H); auto; try lia. intros x Hx. apply Hb, Hx. }
    apply (popen_extend vs vs' _ 0 t t' P1); auto. intros x Hx. apply Hb, Hx.
  Qed.

  Lemma INV_cut vs t st first init out : INV vs t st first init out ->
    let t' := t + zs_rem st in
    let idx' := zs_idx st + 1 in
    INV vs t' (mk_zds (negb (zs_on st)) (zarr_at zarr idx') idx') false
        (if zs_on st && first then init ++ [t; t'] else init)
        (if zs_on st then (if first then out else PLine t' :: out) else PMove t' :: out).
  Proof.
    intros ((S1 & S2 & S3 & S4) & (V1 & V2 & V3) & F & N) t' idx'. set (idx := zs_idx st) in *.
    assert (Hidx : 0 <= idx) by lia.
    assert (Et' : t' = zb (idx + 1) - o) by (unfold t'; lia).
    pose proof (zb_step (idx + 1) ltac:(lia)) as St1. pose proof (zb_step idx Hidx) as St0.
    unfold INV. cbn [zs_on zs_rem zs_idx]. fold idx. unfold idx'. fold idx.
    split; [|split; [|split; [discriminate|intros _]]].
    - rewrite S1, even_succ_negb. split; [reflexivity|]. split; [|lia].
      replace (idx + 1 + 1) with ((idx + 1) + 1) by lia. rewrite (zb_succ (idx + 1)) by lia. lia.
    - split; [lia|]. split; [intros x Hx; specialize (V2 x Hx); lia|]. right. split; [reflexivity|lia].
    - split; [lia|]. destruct first.
      + destruct (F eq_refl) as (F1 & F2 & F3 & F4). clear N. rewrite F1 in *. destruct (Z.even idx0) eqn:Ev.
        * rewrite S1. cbn [andb]. destruct (F3 eq_refl) as [F5 F6]. split; [intros _|split; [discriminate|]].
          -- rewrite <- Et'. apply (first_dash_extend vs vs); auto; lia.
          -- rewrite even_succ_negb, Ev. cbn [negb]. rewrite F5, ivs_done_first. cbn [ppieces_rev].
             apply m_junk; [apply degenerate_single|constructor].
        * rewrite S1. cbn [andb]. destruct (F4 eq_refl) as [F5 F6]. split; [discriminate|split; [intros _; exact F5|]].
          rewrite even_succ_negb, Ev. cbn [negb ppieces_rev]. exists [t'], (ppieces_rev out).
          split; [reflexivity|]. split; [rewrite <- Et'; apply popen_single|]. rewrite ivs_done_first. exact F6.
      + destruct (N eq_refl) as (N1 & N2 & N3 & N4). clear F. rewrite andb_false_r.
        split; [exact N2|split; [exact N3|]]. rewrite even_succ_negb, ivs_done_succ by lia. rewrite S1.
        destruct (Z.even idx) eqn:Ev; cbn [negb].
        * destruct N4 as (pc & rest & E1 & E2 & E3). cbn [ppieces_rev]. rewrite E1. cbn [app].
          apply m_piece; [lia| |exact E3]. rewrite <- Et'.
          apply (popen_extend vs vs _ _ t t' E2); auto; try lia.
          -- destruct V3 as [V3|[_ V3]]; [|left; exact V3].
             destruct (last_0_or_In vs) as [[_ E]|E]; [|right; congruence].
             left. pose proof (zb_mono (idx0 + 1) idx ltac:(lia)). lia.
          -- intros x Hx. apply V2, Hx.
        * cbn [ppieces_rev app]. exists [t'], (ppieces_rev out). split; [reflexivity|].
          split; [rewrite <- Et'; apply popen_single|exact N4].
  Qed.

  Lemma INV_end vs t st first init out len : INV vs t st first init out -> 0 <= len <= zs_rem st ->
    let p := t + len in
    INV (vs ++ [p]) p (mk_zds (zs_on st) (zs_rem st - len) (zs_idx st)) first
        (if zs_on st && first then init ++ [t; p] else init)
        (if zs_on st then (if first then out else PLine p :: out) else PMove p :: out).
  Proof.
    intros ((S1 & S2 & S3 & S4) & (V1 & V2 & V3) & F & N) Hl p. set (idx := zs_idx st) in *.
    assert (Hidx : 0 <= idx) by lia.
    assert (I1 : forall x, In x vs -> In x (vs ++ [p])) by (intros x Hx; apply in_or_app; left; exact Hx).
    assert (I2 : forall x, In x (vs ++ [p]) -> In x vs \/ x = p).
    { intros x Hx. apply in_app_or in Hx. destruct Hx as [Hx|[Hx|[]]]; auto. }
    assert (I3 : forall B, B <= p -> forall x, In x (vs ++ [p]) -> In x vs \/ B <= x).
    { intros B HB x Hx. destruct (I2 x Hx) as [H| ->]; auto. }
    unfold INV. cbn [zs_on zs_rem zs_idx]. fold idx.
    split; [|split; [|split]].
    - split; [exact S1|]. unfold p. lia.
    - split; [unfold p; lia|]. split.
      + intros x Hx. destruct (I2 x Hx) as [H| ->]; [specialize (V2 x H)|]; unfold p; lia.
      + left. symmetry. apply last_last.
    - intros Ef. subst first. destruct (F eq_refl) as (F1 & F2 & F3 & F4). clear N.
      split; [exact F1|]. split; [symmetry; apply last_last|]. rewrite S1. fold idx. rewrite F1. split.
      + intros Ev. rewrite Ev. cbn [andb]. destruct (F3 Ev) as [F5 F6]. split; [exact F5|]. right.
        apply (first_dash_extend vs); auto. unfold p; lia.
      + intros Ev. rewrite Ev. cbn [andb]. destruct (F4 Ev) as [F5 F6]. split; [exact F5|]. cbn [ppieces_rev].
        apply m_junk; [apply degenerate_single|]. apply (matches_mono vs _ p); [exact F6|exact I1|apply I3; lia|intros a b []].
    - intros Ef. subst first. destruct (N eq_refl) as (N1 & N2 & N3 & N4). clear F. rewrite andb_false_r.
      pose proof (zb_mono (idx0 + 1) idx ltac:(lia)) as M.
      split; [exact N1|]. split; [|split; [exact N3|]].
      + intros Ev. apply (popen_mono vs); auto. apply I3. unfold p. lia.
      + rewrite S1. fold idx. destruct (Z.even idx) eqn:Ev.
        * destruct N4 as (pc & rest & E1 & E2 & E3). cbn [ppieces_rev]. rewrite E1.
          exists (p :: pc), rest. split; [reflexivity|]. split.
          -- apply (popen_extend vs _ _ _ t p E2); auto; [unfold p; lia| |intros x Hx; apply V2, Hx].
             destruct V3 as [V3|[_ V3]]; [|left; exact V3].
             destruct (last_0_or_In vs) as [[_ E]|E]; [|right; congruence]. left. lia.
          -- apply (matches_mono vs _ (zb idx - o)); [exact E3|exact I1|apply I3; unfold p; lia|].
             intros a b Hin. apply (ivs_done_bound idx a b N1 Hin).
        * cbn [ppieces_rev]. apply m_junk; [apply degenerate_single|].
          apply (matches_mono vs _ (zb idx - o)); [exact N4|exact I1|apply I3; unfold p; lia|].
          intros a b Hin. apply (ivs_done_bound idx a b N1 Hin).
  Qed.

  (* ---- the loop, the segments ---- *)
  Definition INVc (vs : list Z) (c : pchop) : Prop := INV vs (pc_start c) (pc_st c) (pc_first c) (pc_init c) (pc_out c).
  Definition INVa (vs : list Z) (a : pacc) : Prop := INV vs (pa_pos a) (pa_st a) (pa_first a) (pa_init a) (pa_out a).

  Lemma ploop_INV vs n : forall c, INVc vs c -> INVc vs (ploop zarr n c).
  Proof.
    induction n as [|n IH]; intros c H; cbn [ploop]; [exact H|].
    destruct (zs_rem (pc_st c) <? pc_len c); [|exact H]. apply IH. apply INV_cut in H. exact H.
  Qed.
  Lemma ploop_sum n : forall c, 0 <= pc_len c -> 0 <= zs_rem (pc_st c) ->
    pc_start (ploop zarr n c) + pc_len (ploop zarr n c) = pc_start c + pc_len c /\ 0 <= pc_len (ploop zarr n c).
  Proof.
    induction n as [|n IH]; intros c Hl Hr; cbn [ploop]; [lia|].
    destruct (Z.ltb_spec (zs_rem (pc_st c)) (pc_len c)) as [G|G]; [|lia].
    destruct (IH (pchop_next zarr c)) as [E1 E2]; unfold pchop_next in *; cbn [pc_len pc_start pc_st zs_rem] in *; try lia.
    pose proof (Hpos1 (zs_idx (pc_st c) + 1)). lia.
  Qed.

  Lemma pseg_INV vs a len : INVa vs a -> 0 <= len -> INVa (vs ++ [pa_pos a + len]) (pseg zarr a len).
  Proof.
    intros H Hl. unfold INVa, pseg.
    set (c0 := mk_pchop len (pa_pos a) (pa_st a) (pa_first a) (pa_init a) (pa_out a)).
    assert (H0 : INVc vs c0) by exact H.
    assert (Hr : 0 <= zs_rem (pa_st a)).
    { destruct H as ((_ & S2 & _ & S4) & _). lia. }
    pose proof (ploop_INV vs (zchop_fuel len) c0 H0) as HL.
    destruct (ploop_sum (zchop_fuel len) c0 Hl Hr) as [E1 E2].
    destruct (ploop_final zarr Hpos1 (zchop_fuel len) c0 Hr) as [F1 F2].
    { cbn [c0 pc_len pc_st]. unfold zchop_fuel. destruct (zs_rem (pa_st a) =? 0); lia. }
    set (c := ploop zarr (zchop_fuel len) c0) in *. cbn [c0 pc_start pc_len] in E1.
    cbn [pa_pos pa_st pa_first pa_init pa_out]. rewrite <- E1.
    apply (INV_end vs (pc_start c) (pc_st c) (pc_first c) (pc_init c) (pc_out c) (pc_len c) HL). lia.
  Qed.

  (* the vertex positions of a polyline with segment lengths lens, starting at position s *)
  Fixpoint cum (s : Z) (lens : list Z) : list Z := match lens with [] => [] | l :: t => (s + l) :: cum (s + l) t end.

  Lemma fold_INV lens : forall vs a, INVa vs a -> Forall (fun l => 0 <= l) lens ->
    INVa (vs ++ cum (pa_pos a) lens) (fold_left (pseg zarr) lens a).
  Proof.
    induction lens as [|l lens IH]; intros vs a H Hl; cbn [fold_left cum]; [rewrite app_nil_r; exact H|].
    inversion Hl; subst. specialize (IH (vs ++ [pa_pos a + l]) (pseg zarr a l) (pseg_INV vs a l H ltac:(assumption)) ltac:(assumption)).
    rewrite <- app_assoc in IH. exact IH.
  Qed.

  Definition initial0 : zds := mk_zds (Z.even idx0) (zb (idx0 + 1) - o) idx0.

  Lemma INV_initial : INVa [] (pfresh initial0).
  Proof.
    unfold INVa, INV, pfresh, initial0. cbn [pa_pos pa_st pa_first pa_init pa_out zs_on zs_rem zs_idx last].
    split; [|split; [|split]].
    - split; [reflexivity|]. lia.
    - split; [lia|]. split; [intros x []|left; reflexivity].
    - intros _. split; [reflexivity|]. split; [reflexivity|]. split.
      + intros _. split; [reflexivity|left; split; reflexivity].
      + intros _. split; [reflexivity|]. cbn [ppieces_rev]. apply m_junk; [apply degenerate_single|constructor].
    - discriminate.
  Qed.

  Theorem pdash_INV lens : Forall (fun l => 0 <= l) lens -> INVa (cum 0 lens) (pdash_acc zarr initial0 lens).
  Proof. intros H. apply (fold_INV lens [] (pfresh initial0) INV_initial H). Qed.

  (* ---- the end of the subpath ---- *)
  Lemma popen_piece_or_junk vs pc a b r ivs : popen vs pc a b -> matches vs r ivs ->
    matches vs (pc :: r) ((if a <? b then [(a, b)] else []) ++ ivs).
  Proof.
    intros P M. destruct (Z.ltb_spec a b) as [L|G]; cbn [app].
    - apply m_piece; assumption.
    - apply m_junk; [|exact M]. destruct P as (L & _ & E). intros x y Hx Hy. apply E in Hx. apply E in Hy.
      unfold pelems in *. lia.
  Qed.
  Lemma popen_nonempty vs a b : ~ popen vs [] a b.
  Proof. intros (_ & _ & E). apply (proj2 (E a)). left. reflexivity. Qed.

  (* the intervals of the pieces, newest first; the buffered first dash is emitted last *)
  Definition final_ivs (first : bool) (idx L : Z) : list (Z * Z) :=
    (if Z.even idx0 then (if 0 <? Z.min L (zb (idx0 + 1) - o) then [(0, Z.min L (zb (idx0 + 1) - o))] else []) else []) ++
    (if first then []
     else (if Z.even idx then (if zb idx - o <? L then [(zb idx - o, L)] else []) else []) ++ ivs_done idx).

  Lemma INV_final vs a : INVa vs a ->
    matches vs (ppieces_rev (pflush (pa_init a) (pa_out a))) (final_ivs (pa_first a) (zs_idx (pa_st a)) (pa_pos a)).
  Proof.
    intros ((S1 & S2 & S3 & S4) & (V1 & V2 & V3) & F & N). set (idx := zs_idx (pa_st a)) in *. set (L := pa_pos a) in *.
    rewrite ppieces_rev_flush. unfold final_ivs. destruct (pa_first a).
    - destruct (F eq_refl) as (F1 & F2 & F3 & F4). clear N. rewrite F1 in *.
      replace (Z.min L (zb (idx0 + 1) - o)) with L by lia. rewrite app_nil_r.
      destruct (Z.even idx0) eqn:Ev.
      + destruct (F3 eq_refl) as [F5 F6]. rewrite F5. cbn [ppieces_rev].
        assert (J : matches vs [[0]] []) by (apply m_junk; [apply degenerate_single|constructor]).
        destruct F6 as [[Ev0 Ei]|F6].
        * rewrite Ei. subst vs. cbn [last] in F2. rewrite F2. cbn. exact J.
        * destruct (pa_init a) as [|i0 it] eqn:Ei; [exfalso; apply (popen_nonempty vs 0 L); exact F6|].
          rewrite <- (app_nil_r (if 0 <? L then _ else _)). apply popen_piece_or_junk; assumption.
      + destruct (F4 eq_refl) as [F5 F6]. rewrite F5. exact F6.
    - destruct (N eq_refl) as (N1 & N2 & N3 & N4). clear F.
      pose proof (zb_mono (idx0 + 1) idx ltac:(lia)) as M.
      replace (Z.min L (zb (idx0 + 1) - o)) with (zb (idx0 + 1) - o) by lia.
      assert (MO : matches vs (ppieces_rev (pa_out a))
                     ((if Z.even idx then (if zb idx - o <? L then [(zb idx - o, L)] else []) else []) ++ ivs_done idx)).
      { destruct (Z.even idx).
        - destruct N4 as (pc & rest & E1 & E2 & E3). rewrite E1. apply popen_piece_or_junk; assumption.
        - exact N4. }
      destruct (Z.even idx0) eqn:Ev.
      + specialize (N2 eq_refl).
        destruct (pa_init a) as [|i0 it] eqn:Ei; [exfalso; apply (popen_nonempty vs 0 (zb (idx0 + 1) - o)); exact N2|].
        apply popen_piece_or_junk; assumption.
      + rewrite (N3 eq_refl). exact MO.
  Qed.

  (* ---- the declarative list of 'on' intervals of the arc-length range [0, L] ---- *)
  (* entry j of the repeated array covers the pattern positions [zb j, zb (j+1)], i.e. the arc lengths
     [zb j - o, zb (j+1) - o]; it is a dash when j is even *)
  Definition entry_iv (L j : Z) : list (Z * Z) :=
    let a := Z.max 0 (zb j - o) in
    let b := Z.min L (zb (j + 1) - o) in
    if Z.even j && (a <? b) then [(a, b)] else [].
  Fixpoint ivs_from (L j : Z) (k : nat) : list (Z * Z) :=
    match k with O => [] | S k' => entry_iv L j ++ ivs_from L (j + 1) k' end.
  Definition on_intervals (L : Z) : list (Z * Z) := ivs_from L 0 (Z.to_nat (o + L) + 1).

  Lemma ivs_from_app L k1 : forall j k2, ivs_from L j (k1 + k2) = ivs_from L j k1 ++ ivs_from L (j + Z.of_nat k1) k2.
  Proof.
    induction k1 as [|k1 IH]; intros j k2; [cbn [Nat.add ivs_from app Z.of_nat]; rewrite Z.add_0_r; reflexivity|].
    cbn [Nat.add ivs_from]. rewrite IH, <- app_assoc. do 3 f_equal. lia.
  Qed.
  Lemma ivs_from_nil L k : forall j, (forall i, j <= i < j + Z.of_nat k -> entry_iv L i = []) -> ivs_from L j k = [].
  Proof.
    induction k as [|k IH]; intros j H; cbn [ivs_from]; [reflexivity|].
    rewrite (H j) by lia. rewrite IH; [reflexivity|]. intros i Hi. apply H. lia.
  Qed.

  Lemma entry_iv_before L j : 0 <= j < idx0 -> entry_iv L j = [].
  Proof.
    intros H. unfold entry_iv. pose proof (zb_mono (j + 1) idx0 ltac:(lia)).
    destruct (Z.ltb_spec (Z.max 0 (zb j - o)) (Z.min L (zb (j + 1) - o))); [lia|]. rewrite andb_false_r. reflexivity.
  Qed.
  Lemma entry_iv_after L j idx : 0 <= idx < j -> L <= zb (idx + 1) - o -> entry_iv L j = [].
  Proof.
    intros H HL. unfold entry_iv. pose proof (zb_mono (idx + 1) j ltac:(lia)).
    destruct (Z.ltb_spec (Z.max 0 (zb j - o)) (Z.min L (zb (j + 1) - o))); [lia|]. rewrite andb_false_r. reflexivity.
  Qed.
  Lemma entry_iv_inside L j idx : idx0 < j < idx -> zb idx - o <= L ->
    entry_iv L j = if Z.even j then [(zb j - o, zb (j + 1) - o)] else [].
  Proof.
    intros H HL. unfold entry_iv. pose proof (zb_mono (idx0 + 1) j ltac:(lia)). pose proof (zb_mono (j + 1) idx ltac:(lia)).
    pose proof (zb_step j ltac:(lia)).
    replace (Z.max 0 (zb j - o)) with (zb j - o) by lia. replace (Z.min L (zb (j + 1) - o)) with (zb (j + 1) - o) by lia.
    destruct (Z.ltb_spec (zb j - o) (zb (j + 1) - o)); [|lia]. rewrite andb_true_r. reflexivity.
  Qed.

  Lemma rev_ivs_upto L idx k : idx0 + 1 + Z.of_nat k <= idx -> zb idx - o <= L ->
    rev (ivs_upto k) = ivs_from L (idx0 + 1) k.
  Proof.
    intros Hk HL. induction k as [|k IH]; [reflexivity|].
    cbn [ivs_upto]. rewrite rev_app_distr, IH by lia.
    replace (S k) with (k + 1)%nat by lia. rewrite ivs_from_app. cbn [ivs_from]. rewrite app_nil_r. f_equal.
    rewrite (entry_iv_inside L _ idx) by lia. destruct (Z.even (idx0 + 1 + Z.of_nat k)); reflexivity.
  Qed.

  Definition rot1 {A} (l : list A) : list A := match l with [] => [] | x :: t => t ++ [x] end.

  (* the pieces come in the order of the 'on' intervals, except that the dash the subpath starts in comes last *)
  Lemma final_ivs_on_intervals vs a : INVa vs a ->
    rev (final_ivs (pa_first a) (zs_idx (pa_st a)) (pa_pos a)) =
    (if Z.even idx0 && (0 <? Z.min (pa_pos a) (zb (idx0 + 1) - o)) then rot1 (on_intervals (pa_pos a))
     else on_intervals (pa_pos a)).
  Proof.
    intros ((S1 & S2 & S3 & S4) & (V1 & V2 & V3) & F & N). set (idx := zs_idx (pa_st a)) in *. set (L := pa_pos a) in *.
    assert (Hidx : 0 <= idx) by lia.
    pose proof (zb_mono 0 idx ltac:(lia)) as Mi. rewrite zb_0 in Mi.
    (* the entries: none before idx0, none after idx *)
    assert (Eon : on_intervals L = entry_iv L idx0 ++ ivs_from L (idx0 + 1) (Z.to_nat (idx - idx0)) ).
    { unfold on_intervals.
      replace (Z.to_nat (o + L) + 1)%nat with (Z.to_nat idx0 + (1 + (Z.to_nat (idx - idx0) + Z.to_nat (o + L - idx))))%nat by lia.
      rewrite ivs_from_app, (ivs_from_nil L (Z.to_nat idx0) 0).
      2:{ intros i Hi. apply entry_iv_before. lia. }
      cbn [app]. rewrite Z.add_0_l, Z2Nat.id by lia.
      change (1 + ?n)%nat with (S n). cbn [ivs_from]. f_equal.
      rewrite ivs_from_app, (ivs_from_nil L (Z.to_nat (o + L - idx))).
      - apply app_nil_r.
      - intros i Hi. apply (entry_iv_after L i idx); lia. }
    assert (Efirst : entry_iv L idx0 =
                     if Z.even idx0 then (if 0 <? Z.min L (zb (idx0 + 1) - o) then [(0, Z.min L (zb (idx0 + 1) - o))] else []) else []).
    { unfold entry_iv. replace (Z.max 0 (zb idx0 - o)) with 0 by lia. destruct (Z.even idx0); reflexivity. }
    assert (Emid : ivs_from L (idx0 + 1) (Z.to_nat (idx - idx0)) =
                   if pa_first a then []
                   else rev (ivs_done idx) ++ (if Z.even idx then (if zb idx - o <? L then [(zb idx - o, L)] else []) else [])).
    { destruct (pa_first a).
      - destruct (F eq_refl) as (F1 & _). rewrite F1. replace (idx0 - idx0) with 0 by lia. reflexivity.
      - destruct (N eq_refl) as (N1 & _).
        replace (Z.to_nat (idx - idx0)) with (Z.to_nat (idx - idx0 - 1) + 1)%nat by lia.
        rewrite ivs_from_app. unfold ivs_done. rewrite (rev_ivs_upto L idx) by lia. f_equal.
        cbn [ivs_from]. rewrite app_nil_r. rewrite Z2Nat.id by lia. replace (idx0 + 1 + (idx - idx0 - 1)) with idx by lia.
        unfold entry_iv. pose proof (zb_mono (idx0 + 1) idx ltac:(lia)).
        replace (Z.max 0 (zb idx - o)) with (zb idx - o) by lia. replace (Z.min L (zb (idx + 1) - o)) with L by lia.
        destruct (Z.even idx); reflexivity. }
    unfold final_ivs. fold idx L. rewrite rev_app_distr, Eon, Efirst, Emid.
    assert (Erev : rev (if pa_first a then []
                        else (if Z.even idx then if zb idx - o <? L then [(zb idx - o, L)] else [] else []) ++ ivs_done idx) =
                   if pa_first a then []
                   else rev (ivs_done idx) ++ (if Z.even idx then if zb idx - o <? L then [(zb idx - o, L)] else [] else [])).
    { destruct (pa_first a); [reflexivity|]. rewrite rev_app_distr. f_equal.
      destruct (Z.even idx); [destruct (zb idx - o <? L)|]; reflexivity. }
    rewrite Erev. destruct (Z.even idx0); cbn [andb]; [|rewrite app_nil_r; reflexivity].
    destruct (0 <? Z.min L (zb (idx0 + 1) - o)); cbn [rev app rot1]; [reflexivity|apply app_nil_r].
  Qed.
End Spec.

(* ================================================================================================================== *)
(* normal forms: repeated positions removed, pieces without two different positions dropped                           *)
Fixpoint dedup (l : list Z) : list Z :=
  match l with
  | [] => []
  | x :: t => match dedup t with
              | [] => [x]
              | y :: d => if x =? y then y :: d else x :: y :: d
              end
  end.
Definition normZ (ps : list (list Z)) : list (list Z) := filter (fun pc => (2 <=? length pc)%nat) (map dedup ps).

(* non-decreasing / increasing *)
Fixpoint ascf (l : list Z) : Prop := match l with [] => True | x :: t => (forall y, In y t -> x <= y) /\ ascf t end.
Fixpoint sascf (l : list Z) : Prop := match l with [] => True | x :: t => (forall y, In y t -> x < y) /\ sascf t end.

Lemma dedup_In l : forall x, In x (dedup l) <-> In x l.
Proof.
  induction l as [|a t IH]; intros x; cbn [dedup]; [tauto|].
  destruct (dedup t) as [|y d] eqn:E.
  - cbn [In]. rewrite <- IH. cbn [In]. tauto.
  - destruct (Z.eqb_spec a y) as [->|NE].
    + rewrite IH. cbn [In]. split; [tauto|]. intros [<-|H]; [|exact H]. apply IH. left. reflexivity.
    + cbn [In]. rewrite <- IH. cbn [In]. tauto.
Qed.

Lemma dedup_sascf l : ascf l -> sascf (dedup l).
Proof.
  induction l as [|a t IH]; intros H; cbn [dedup]; [exact I|]. destruct H as [H1 H2]. specialize (IH H2).
  destruct (dedup t) as [|y d] eqn:E; [split; [intros ? []|exact I]|].
  destruct (Z.eqb_spec a y) as [->|NE]; [exact IH|].
  split; [|exact IH]. intros z Hz.
  assert (Hy : a <= y) by (apply H1, dedup_In; rewrite E; left; reflexivity).
  destruct Hz as [<-|Hz]; [lia|]. destruct IH as [IH1 _]. specialize (IH1 z Hz). lia.
Qed.

Lemma sascf_ext l : forall l', sascf l -> sascf l' -> (forall x, In x l <-> In x l') -> l = l'.
Proof.
  induction l as [|a t IH]; intros [|a' t'] S S' E.
  - reflexivity.
  - exfalso. apply (proj2 (E a')). left; reflexivity.
  - exfalso. apply (proj1 (E a)). left; reflexivity.
  - destruct S as [S1 S2], S' as [S1' S2'].
    assert (a = a').
    { destruct (proj1 (E a) (or_introl eq_refl)) as [H|H]; [congruence|].
      destruct (proj2 (E a') (or_introl eq_refl)) as [H'|H']; [congruence|].
      specialize (S1 _ H'). specialize (S1' _ H). lia. }
    subst a'. f_equal. apply IH; [assumption|assumption|]. intros x. split; intros Hx.
    + destruct (proj1 (E x) (or_intror Hx)) as [H|H]; [|exact H]. specialize (S1 _ Hx). lia.
    + destruct (proj2 (E x) (or_intror Hx)) as [H|H]; [|exact H]. specialize (S1' _ Hx). lia.
Qed.

(* sorted lists with the same entries have the same normal form *)
Lemma dedup_ext l l' : ascf l -> ascf l' -> (forall x, In x l <-> In x l') -> dedup l = dedup l'.
Proof.
  intros A A' E. apply sascf_ext; [apply dedup_sascf, A|apply dedup_sascf, A'|].
  intros x. rewrite !dedup_In. apply E.
Qed.
Lemma dedup_sascf_id l : sascf l -> dedup l = l.
Proof.
  induction l as [|a t IH]; intros S; cbn [dedup]; [reflexivity|]. destruct S as [S1 S2]. rewrite (IH S2).
  destruct t as [|y d]; [reflexivity|]. specialize (S1 y (or_introl eq_refl)).
  destruct (Z.eqb_spec a y); [lia|reflexivity].
Qed.

Lemma degenerate_dedup l : degenerate l -> (length (dedup l) <= 1)%nat.
Proof.
  induction l as [|a t IH]; intros D; cbn [dedup]; [cbn; lia|].
  assert (Dt : degenerate t) by (intros x y Hx Hy; apply D; right; assumption).
  specialize (IH Dt). destruct (dedup t) as [|y d] eqn:E; [cbn; lia|].
  assert (Hy : In y t) by (apply dedup_In; rewrite E; left; reflexivity).
  assert (a = y) by (apply D; [left; reflexivity|right; exact Hy]). subst y.
  rewrite Z.eqb_refl. exact IH.
Qed.
Lemma two_entries (l : list Z) a b : In a l -> In b l -> a <> b -> (2 <= length l)%nat.
Proof.
  destruct l as [|x [|y t]]; cbn [In length]; [tauto| |lia]. intros [<-|[]] [<-|[]] H. congruence.
Qed.

Lemma ascf_app l x : ascf l -> (forall y, In y l -> y <= x) -> ascf (l ++ [x]).
Proof.
  induction l as [|a t IH]; intros A H; cbn [app ascf]; [split; [intros ? []|exact I]|].
  destruct A as [A1 A2]. split.
  - intros y Hy. apply in_app_or in Hy. destruct Hy as [Hy|[<-|[]]]; [apply A1, Hy|apply H; left; reflexivity].
  - apply IH; [exact A2|]. intros y Hy. apply H. right. exact Hy.
Qed.
Lemma desc_rev_ascf l : desc l -> ascf (rev l).
Proof.
  induction l as [|a t IH]; intros D; cbn [rev]; [exact I|]. destruct D as [D1 D2].
  apply ascf_app; [apply IH, D2|]. intros y Hy. apply D1. apply in_rev. exact Hy.
Qed.
Lemma ascf_filter f l : ascf l -> ascf (filter f l).
Proof.
  induction l as [|a t IH]; intros A; cbn [filter]; [exact I|]. destruct A as [A1 A2].
  destruct (f a); [|apply IH, A2]. split; [|apply IH, A2]. intros y Hy. apply filter_In in Hy. apply A1, Hy.
Qed.

(* the positions of the piece [a, b]: a, the vertex positions strictly between, b *)
Definition ppiece (vs : list Z) (a b : Z) : list Z := a :: filter (fun x => (a <? x) && (x <? b)) vs ++ [b].

Lemma ppiece_ascf vs a b : ascf vs -> a <= b -> ascf (ppiece vs a b).
Proof.
  intros A L. unfold ppiece. split.
  - intros y Hy. apply in_app_or in Hy. destruct Hy as [Hy|[<-|[]]]; [|lia]. apply filter_In in Hy. lia.
  - apply ascf_app; [apply ascf_filter, A|]. intros y Hy. apply filter_In in Hy. lia.
Qed.
Lemma ppiece_In vs a b x : a <= b -> (In x (ppiece vs a b) <-> pelems vs a b x).
Proof.
  intros L. unfold ppiece, pelems. cbn [In]. rewrite in_app_iff, filter_In. cbn [In]. split.
  - intros [H|[[H1 H2]|[H|[]]]]; auto. right; right. split; [exact H1|lia].
  - intros [H|[H|[H1 H2]]]; auto.
    destruct (Z.eq_dec x a) as [->|Na]; [auto|]. destruct (Z.eq_dec x b) as [->|Nb]; [auto|].
    right; left. split; [exact H1|lia].
Qed.

(* the pieces of an op list, in order *)
Definition ppieces (ops : list pop) : list (list Z) := rev (map (@rev Z) (ppieces_rev (rev ops))).

Lemma normZ_app a b : normZ (a ++ b) = normZ a ++ normZ b.
Proof. unfold normZ. rewrite map_app, filter_app. reflexivity. Qed.

Lemma matches_normZ vs r ivs : ascf vs -> matches vs r ivs ->
  normZ (rev (map (@rev Z) r)) = map (fun iv => dedup (ppiece vs (fst iv) (snd iv))) (rev ivs).
Proof.
  intros A M. induction M as [|pc r ivs Dg M IH|pc r a b ivs L P M IH]; [reflexivity| |]; cbn [map rev]; rewrite normZ_app, IH.
  - assert (Dg' : degenerate (rev pc)) by (intros x y Hx Hy; apply Dg; apply in_rev; assumption).
    pose proof (degenerate_dedup _ Dg') as H. unfold normZ. cbn [map filter].
    destruct (Nat.leb_spec 2 (length (dedup (rev pc)))); [lia|]. apply app_nil_r.
  - rewrite map_app. f_equal. cbn [map fst snd]. destruct P as (L' & D & E).
    assert (Ed : dedup (rev pc) = dedup (ppiece vs a b)).
    { apply dedup_ext; [apply desc_rev_ascf, D|apply ppiece_ascf; assumption|].
      intros x. rewrite <- in_rev, E, ppiece_In by exact L'. tauto. }
    unfold normZ. cbn [map filter]. rewrite Ed.
    assert (H2 : (2 <= length (dedup (ppiece vs a b)))%nat).
    { apply (two_entries _ a b); [apply dedup_In; left; reflexivity| |lia].
      apply dedup_In. unfold ppiece. right. apply in_or_app. right. left. reflexivity. }
    destruct (Nat.leb_spec 2 (length (dedup (ppiece vs a b)))); [reflexivity|lia].
Qed.

Lemma cum_ascf lens : forall s, Forall (fun l => 0 <= l) lens -> ascf (cum s lens) /\ forall x, In x (cum s lens) -> s <= x.
Proof.
  induction lens as [|l t IH]; intros s H; cbn [cum]; [split; [exact I|intros x []]|].
  inversion H; subst. destruct (IH (s + l) ltac:(assumption)) as [A B]. split.
  - split; [|exact A]. intros y Hy. apply B in Hy. lia.
  - intros x [<-|Hx]; [lia|]. apply B in Hx. lia.
Qed.
Lemma pa_pos_fold zarr lens : forall a, pa_pos (fold_left (pseg zarr) lens a) = last (cum (pa_pos a) lens) (pa_pos a).
Proof.
  induction lens as [|l t IH]; intros a; cbn [fold_left cum]; [reflexivity|].
  rewrite IH. rewrite last_cons_def. replace (pa_pos (pseg zarr a l)) with (pa_pos a + l) by reflexivity. reflexivity.
Qed.

(* THE POSITION-LEVEL STATEMENT.  A subpath with segment lengths lens starts at pattern position o, inside entry idx0
   of the repeated array (zb idx0 <= o <= zb (idx0+1)).  Its vertices are at the arc lengths vs, its length is L.
   Then the pieces the dasher emits are, up to repeated positions and pieces without extent, exactly the pieces
   [a; vertices strictly between; b] for the 'on' intervals [a, b] of [0, L], in order - except that the dash the
   subpath starts in, which the dasher buffers, comes last. *)
Theorem pdash_pieces zarr (Hpos1 : forall i, 1 <= zarr_at zarr i) o idx0 (Hidx0 : 0 <= idx0)
    (Ho : zb zarr idx0 <= o <= zb zarr (idx0 + 1)) lens :
  Forall (fun l => 0 <= l) lens ->
  let vs := cum 0 lens in
  let L := last vs 0 in
  normZ (ppieces (pdash zarr (initial0 zarr o idx0) lens)) =
  map (fun iv => dedup (ppiece vs (fst iv) (snd iv)))
      (if Z.even idx0 && (0 <? Z.min L (zb zarr (idx0 + 1) - o)) then rot1 (on_intervals zarr o L)
       else on_intervals zarr o L).
Proof.
  intros Hl vs L.
  pose proof (pdash_INV zarr Hpos1 o idx0 Hidx0 Ho lens Hl) as H. fold vs in H.
  set (a := pdash_acc zarr (initial0 zarr o idx0) lens) in *.
  assert (EL : pa_pos a = L).
  { unfold a, pdash_acc. rewrite pa_pos_fold. reflexivity. }
  unfold ppieces, pdash. fold a. rewrite rev_involutive.
  rewrite (matches_normZ vs _ _ (proj1 (cum_ascf lens 0 Hl)) (INV_final zarr Hpos1 o idx0 Hidx0 vs a H)).
  rewrite (final_ivs_on_intervals zarr Hpos1 o idx0 Hidx0 Ho vs a H), EL. reflexivity.
Qed.

(* ---- pieces of an integer op list, and the image of the position-level pieces ---- *)
Fixpoint zpieces_rev (rout : list zop) : list (list zpt) :=
  match rout with
  | [] => []
  | ZMove p :: r => [p] :: zpieces_rev r
  | ZLine p :: r => match zpieces_rev r with [] => [[p]] | pc :: ps => (p :: pc) :: ps end
  | ZClose :: r => zpieces_rev r
  end.
Definition zpieces (ops : list zop) : list (list zpt) := rev (map (@rev zpt) (zpieces_rev (rev ops))).

Lemma zpieces_rev_image (P : Z -> zpt) l : zpieces_rev (map (pmapop P) l) = map (map P) (ppieces_rev l).
Proof.
  induction l as [|o l IH]; [reflexivity|]. destruct o as [t|t]; cbn [map pmapop zpieces_rev ppieces_rev]; rewrite IH.
  - reflexivity.
  - destruct (ppieces_rev l); reflexivity.
Qed.
Lemma zpieces_image (P : Z -> zpt) l : zpieces (map (pmapop P) l) = map (map P) (ppieces l).
Proof.
  unfold zpieces, ppieces. rewrite <- (map_rev (pmapop P) l), zpieces_rev_image.
  rewrite (map_rev (map P)), !map_map. f_equal. apply map_ext. intros pc. rewrite map_rev. reflexivity.
Qed.

Lemma rot1_map {A B} (f : A -> B) l : rot1 (map f l) = map f (rot1 l).
Proof. destruct l as [|x t]; [reflexivity|]. cbn [map rot1]. rewrite map_app. reflexivity. Qed.

Lemma last_cum_plen pts : forall cur s, last (cum s (seglens cur pts)) s = s + plen cur pts.
Proof.
  induction pts as [|p t IH]; intros cur s; cbn [seglens cum plen]; [cbn [last]; lia|].
  rewrite last_cons_def, IH. lia.
Qed.

Lemma on_intervals_L0 zarr (Hpos1 : forall i, 1 <= zarr_at zarr i) o L : L <= 0 -> on_intervals zarr o L = [].
Proof.
  intros H. unfold on_intervals. apply ivs_from_nil. intros i Hi. unfold entry_iv.
  destruct (Z.ltb_spec (Z.max 0 (zb zarr i - o)) (Z.min L (zb zarr (i + 1) - o))); [lia|]. rewrite andb_false_r. reflexivity.
Qed.

(* the declarative description: for each 'on' interval [a, b] of the pattern (shifted by o) within [0, length], in
   order, the arc-length positions a, the vertices strictly between, b ... *)
Definition on_pieces (zarr : list Z) (o : Z) (p0 : zpt) (pts : list zpt) : list (list Z) :=
  let vs := cum 0 (seglens p0 pts) in
  map (fun iv => dedup (ppiece vs (fst iv) (snd iv))) (on_intervals zarr o (plen p0 pts)).
(* ... and the points at these positions *)
Definition pieces_spec (zarr : list Z) (o : Z) (p0 : zpt) (pts : list zpt) : list (list zpt) :=
  map (map (point_at p0 pts)) (on_pieces zarr o p0 pts).

(* ================================================================================================================== *)
(* the same normal form on points                                                                                    *)
Definition zpt_eqb (p q : zpt) : bool := (fst p =? fst q) && (snd p =? snd q).
Lemma zpt_eqb_spec p q : reflect (p = q) (zpt_eqb p q).
Proof.
  destruct p as [a b], q as [c d]. unfold zpt_eqb. cbn [fst snd].
  destruct (Z.eqb_spec a c), (Z.eqb_spec b d); constructor; congruence.
Qed.
Fixpoint zdedup (l : list zpt) : list zpt :=
  match l with
  | [] => []
  | x :: t => match zdedup t with
              | [] => [x]
              | y :: d => if zpt_eqb x y then y :: d else x :: y :: d
              end
  end.
Definition znorm (ps : list (list zpt)) : list (list zpt) := filter (fun pc => (2 <=? length pc)%nat) (map zdedup ps).

Lemma dedup_head y t : exists d, dedup (y :: t) = y :: d.
Proof.
  revert y. induction t as [|z t IH]; intros y; [exists []; reflexivity|].
  cbn [dedup]. destruct (IH z) as [d E]. cbn [dedup] in E. rewrite E.
  destruct (Z.eqb_spec y z) as [->|]; eexists; reflexivity.
Qed.

(* where different consecutive positions give different points, merging repeated points is merging repeated positions *)
Lemma zdedup_map (P : Z -> zpt) l :
  (forall l1 x y l2, l = l1 ++ x :: y :: l2 -> x <> y -> P x <> P y) -> zdedup (map P l) = map P (dedup l).
Proof.
  induction l as [|x t IH]; intros H; [reflexivity|]. cbn [map zdedup dedup].
  rewrite IH by (intros l1 a b l2 E; apply (H (x :: l1) a b l2); rewrite E; reflexivity).
  destruct t as [|y t']; [reflexivity|]. destruct (dedup_head y t') as [d E]. rewrite E. cbn [map].
  destruct (Z.eqb_spec x y) as [->|NE].
  - destruct (zpt_eqb_spec (P y) (P y)); [reflexivity|congruence].
  - specialize (H [] x y t' eq_refl NE). destruct (zpt_eqb_spec (P x) (P y)); [congruence|reflexivity].
Qed.

Lemma ascf_consecutive l : forall l1 x y l2, ascf l -> l = l1 ++ x :: y :: l2 -> forall v, In v l -> v <= x \/ y <= v.
Proof.
  intros l1. revert l. induction l1 as [|a l1 IH]; intros l x y l2 A E v Hv; subst l.
  - destruct A as [A1 [A2 _]]. destruct Hv as [<-|[<-|Hv]]; [lia|lia|]. right. apply A2, Hv.
  - destruct A as [A1 A2]. cbn [app In] in Hv. destruct Hv as [<-|Hv].
    + left. apply A1. apply in_or_app. right. left. reflexivity.
    + apply (IH _ x y l2 A2 eq_refl v Hv).
Qed.

Lemma znorm_app a b : znorm (a ++ b) = znorm a ++ znorm b.
Proof. unfold znorm. rewrite map_app, filter_app. reflexivity. Qed.

Lemma matches_znorm vs (P : Z -> zpt) L r ivs : matches vs r ivs ->
  (forall x y, 0 <= x < y -> y <= L -> (forall v, In v vs -> ~ (x < v < y)) -> P x <> P y) ->
  (forall a b, In (a, b) ivs -> 0 <= a /\ b <= L) ->
  znorm (map (map P) (rev (map (@rev Z) r))) = map (map P) (normZ (rev (map (@rev Z) r))).
Proof.
  intros M HP. induction M as [|pc r ivs Dg M IH|pc r a b ivs Lt Po M IH]; intros HB; [reflexivity| |];
    cbn [map rev]; rewrite map_app, znorm_app, normZ_app, map_app.
  - rewrite IH by exact HB. f_equal. cbn [map]. unfold znorm, normZ. cbn [map filter].
    assert (Dg' : degenerate (rev pc)) by (intros x y Hx Hy; apply Dg; apply in_rev; assumption).
    rewrite zdedup_map.
    + rewrite map_length. destruct (2 <=? length (dedup (rev pc)))%nat; reflexivity.
    + intros l1 x y l2 E NE. exfalso. apply NE. apply Dg'; rewrite E; apply in_or_app; right; [left|right; left]; reflexivity.
  - rewrite IH by (intros a' b' H; apply (HB a' b'); right; exact H). f_equal. cbn [map]. unfold znorm, normZ. cbn [map filter].
    destruct (HB a b (or_introl eq_refl)) as [B1 B2]. destruct Po as (Le & D & E).
    assert (A : ascf (rev pc)) by (apply desc_rev_ascf, D).
    assert (El : forall x, In x (rev pc) -> a <= x <= b).
    { intros x Hx. apply in_rev in Hx. apply E in Hx. unfold pelems in Hx. lia. }
    rewrite zdedup_map.
    + rewrite map_length. destruct (2 <=? length (dedup (rev pc)))%nat; reflexivity.
    + intros l1 x y l2 El12 NE.
      assert (Hx : In x (rev pc)) by (rewrite El12; apply in_or_app; right; left; reflexivity).
      assert (Hy : In y (rev pc)) by (rewrite El12; apply in_or_app; right; right; left; reflexivity).
      assert (Hxy : x <= y).
      { rewrite El12 in A. clear - A. induction l1 as [|c l1 IH]; [destruct A as [A _]; apply A; left; reflexivity|].
        destruct A as [_ A]. apply IH, A. }
      pose proof (El x Hx). pose proof (El y Hy).
      apply HP; [lia|lia|]. intros v Hv Hb.
      assert (Hin : In v (rev pc)).
      { apply (proj1 (in_rev pc v)). apply (proj2 (E v)). right; right. split; [exact Hv|lia]. }
      destruct (ascf_consecutive _ l1 x y l2 A El12 v Hin); lia.
Qed.

(* ---- between two consecutive vertices the parametrisation is injective ---- *)
Lemma move_inj cur p x y : 0 < seglen cur p -> x <> y -> move cur p x <> move cur p y.
Proof.
  destruct cur as [cx cy], p as [px py]. unfold seglen, move, zlen1, zsub, zadd, zscale, zdir. cbn [fst snd].
  intros L NE H. inversion H as [[H1 H2]]. clear H.
  destruct (Z.sgn_spec (px - cx)) as [[S1 E1]|[[S1 E1]|[S1 E1]]]; rewrite E1 in H1;
  destruct (Z.sgn_spec (py - cy)) as [[S2 E2]|[[S2 E2]|[S2 E2]]]; rewrite E2 in H2; lia.
Qed.
Lemma cum_shift lens : forall s, cum s lens = map (Z.add s) (cum 0 lens).
Proof.
  induction lens as [|l t IH]; intros s; cbn [cum map]; [reflexivity|].
  rewrite (IH (s + l)), (IH (0 + l)), map_map. f_equal. apply map_ext. intros a. lia.
Qed.
Lemma point_at_consec pts : forall cur x y, poly_axis cur pts -> 0 <= x < y -> y <= plen cur pts ->
  (forall v, In v (cum 0 (seglens cur pts)) -> ~ (x < v < y)) -> point_at cur pts x <> point_at cur pts y.
Proof.
  induction pts as [|p t IH]; intros cur x y Ax Hxy Hy Hv; cbn [plen] in Hy; [lia|].
  destruct Ax as [A1 A2]. cbn [seglens cum] in Hv. cbn [point_at].
  pose proof (seglen_nonneg cur p) as Ln. set (len := seglen cur p) in *.
  destruct (Z.ltb_spec x len) as [Lx|Gx]; destruct (Z.ltb_spec y len) as [Ly|Gy]; try lia.
  - apply move_inj; [fold len|]; lia.
  - assert (y = len).
    { destruct (Z.eq_dec y len); [assumption|]. exfalso. apply (Hv (0 + len)); [left; reflexivity|lia]. }
    subst y. rewrite Z.sub_diag, point_at_0. rewrite <- (move_len cur p A1) at 2. fold len.
    apply move_inj; [fold len|]; lia.
  - apply IH; [exact A2|lia|lia|]. intros v Hin Hb. apply (Hv (len + v)); [|lia].
    right. rewrite cum_shift. apply in_map_iff. exists v. split; [lia|exact Hin].
Qed.

Lemma entry_iv_bounds zarr o L j a b : In (a, b) (entry_iv zarr o L j) -> 0 <= a /\ a < b /\ b <= L.
Proof.
  unfold entry_iv. destruct (Z.even j); cbn [andb]; [|intros []].
  destruct (Z.ltb_spec (Z.max 0 (zb zarr j - o)) (Z.min L (zb zarr (j + 1) - o))) as [Hlt|Hge]; [|intros []].
  intros [Hin|[]]. inversion Hin; subst. lia.
Qed.
Lemma ivs_from_bounds zarr o L a b k : forall j, In (a, b) (ivs_from zarr o L j k) -> 0 <= a /\ a < b /\ b <= L.
Proof.
  induction k as [|k IH]; intros j; cbn [ivs_from]; [intros []|].
  intros H. apply in_app_or in H. destruct H as [H|H]; [apply (entry_iv_bounds _ _ _ _ _ _ H)|apply (IH _ H)].
Qed.
Lemma on_intervals_bounds zarr o L a b : In (a, b) (on_intervals zarr o L) -> 0 <= a /\ a < b /\ b <= L.
Proof. apply ivs_from_bounds. Qed.
Lemma rot1_In {A} (l : list A) x : In x (rot1 l) <-> In x l.
Proof. destruct l as [|y t]; cbn [rot1]; [tauto|]. rewrite in_app_iff. cbn [In]. tauto. Qed.

(* THE POINT-LEVEL STATEMENT: the pieces of the image of the position dasher's output, with repeated points merged and
   pieces without extent dropped, are the images of the declared pieces *)
Theorem pdash_point_pieces zarr (Hpos1 : forall i, 1 <= zarr_at zarr i) o idx0 (Hidx0 : 0 <= idx0)
    (Ho : zb zarr idx0 <= o <= zb zarr (idx0 + 1)) p0 pts :
  poly_axis p0 pts ->
  let P := point_at p0 pts in
  let vs := cum 0 (seglens p0 pts) in
  let L := plen p0 pts in
  znorm (map (map P) (ppieces (pdash zarr (initial0 zarr o idx0) (seglens p0 pts)))) =
  map (map P) (map (fun iv => dedup (ppiece vs (fst iv) (snd iv)))
      (if Z.even idx0 && (0 <? Z.min L (zb zarr (idx0 + 1) - o)) then rot1 (on_intervals zarr o L)
       else on_intervals zarr o L)).
Proof.
  intros Ax P vs L.
  assert (Hl : Forall (fun l => 0 <= l) (seglens p0 pts)).
  { clear. revert p0. induction pts as [|p t IH]; intros p0; cbn [seglens]; constructor; [apply seglen_nonneg|apply IH]. }
  pose proof (pdash_pieces zarr Hpos1 o idx0 Hidx0 Ho (seglens p0 pts) Hl) as HN. cbv zeta in HN.
  rewrite (last_cum_plen pts p0 0), Z.add_0_l in HN. fold vs L in HN. rewrite <- HN.
  pose proof (pdash_INV zarr Hpos1 o idx0 Hidx0 Ho (seglens p0 pts) Hl) as HI. fold vs in HI.
  set (a := pdash_acc zarr (initial0 zarr o idx0) (seglens p0 pts)) in *.
  assert (EL : pa_pos a = L).
  { unfold a, pdash_acc. rewrite pa_pos_fold. cbn [pfresh pa_pos]. rewrite (last_cum_plen pts p0 0). unfold L. lia. }
  unfold ppieces, pdash. fold a. rewrite rev_involutive.
  apply (matches_znorm vs P L _ _ (INV_final zarr Hpos1 o idx0 Hidx0 vs a HI)).
  - intros x y Hxy Hy Hv. apply point_at_consec; assumption.
  - intros a' b' Hin. apply in_rev in Hin. rewrite (final_ivs_on_intervals zarr Hpos1 o idx0 Hidx0 Ho vs a HI), EL in Hin.
    assert (Hin' : In (a', b') (on_intervals zarr o L)).
    { destruct (Z.even idx0 && (0 <? Z.min L (zb zarr (idx0 + 1) - o))); [apply (proj1 (rot1_In _ _)) in Hin|]; exact Hin. }
    apply on_intervals_bounds in Hin'. lia.
Qed.

(* ================================================================================================================== *)
(* ONE SEGMENT: the cuts are at the pattern's boundaries inside the segment                                           *)
Section Segment.
  Variable zarr : list Z.
  Hypothesis Hpos1 : forall i, 1 <= zarr_at zarr i.
  Variables (cur p : zpt) (u len : Z).   (* the segment cur -> p starts at pattern position u and has length len *)

  (* what is emitted at the boundaries zb j, zb (j+1), ... (k of them): a dash begins where an even entry begins *)
  Fixpoint cut_ops (j : Z) (k : nat) : list zop :=
    match k with
    | O => []
    | S k' => (if Z.even j then ZMove (move cur p (zb zarr j - u)) else ZLine (move cur p (zb zarr j - u)))
              :: cut_ops (j + 1) k'
    end.

  Lemma zchop_loop_cuts n : forall c idx u', 0 <= idx -> zc_first c = false ->
    zc_st c = mk_zds (Z.even idx) (zb zarr (idx + 1) - u') idx -> u' <= zb zarr (idx + 1) ->
    zc_start c = move cur p (u' - u) -> zc_len c = u + len - u' -> 0 <= zc_len c ->
    zc_len c + (if zs_rem (zc_st c) =? 0 then 1 else 0) <= Z.of_nat n ->
    exists k, let c' := zchop_loop zarr n (zdir (zsub p cur)) c in
      zc_st c' = mk_zds (Z.even (idx + Z.of_nat k)) (zb zarr (idx + Z.of_nat k + 1) - (u + len - zc_len c')) (idx + Z.of_nat k) /\
      0 <= zc_len c' /\ u + len <= zb zarr (idx + Z.of_nat k + 1) /\ (k = O \/ zb zarr (idx + Z.of_nat k) < u + len) /\
      zc_first c' = false /\ zc_init c' = zc_init c /\
      zc_out c' = rev (cut_ops (idx + 1) k) ++ zc_out c.
  Proof.
    induction n as [|n IH]; intros c idx u' Hi Hf Hs Hu Hst Hl Hl0 Hm; rewrite Hs in Hm; cbn [zs_rem] in Hm.
    - exists O. cbn [zchop_loop Z.of_nat cut_ops rev app]. rewrite Z.add_0_r, Hs, Hl.
      split; [f_equal; lia|]. split; [lia|]. split; [destruct (zb zarr (idx + 1) - u' =? 0) eqn:E; lia|]. auto.
    - cbn [zchop_loop]. rewrite Hs. cbn [zs_rem]. destruct (Z.ltb_spec (zb zarr (idx + 1) - u') (zc_len c)) as [G|G].
      + pose proof (zb_succ zarr (idx + 1) ltac:(lia)) as Sb. pose proof (Hpos1 (idx + 1)) as Hp.
        destruct (IH (zchop_next zarr (zdir (zsub p cur)) c) (idx + 1) (zb zarr (idx + 1))) as (k & K1 & K2 & K3 & K4 & K5 & K6 & K7);
          unfold zchop_next; rewrite ?Hs; cbn [zc_first zc_st zc_start zc_len zs_on zs_rem zs_idx]; try lia.
        * rewrite even_succ_negb. f_equal. replace (idx + 1 + 1) with ((idx + 1) + 1) by lia. lia.
        * rewrite Hst, move_add. f_equal. lia.
        * destruct (zarr_at zarr (idx + 1) =? 0) eqn:E1; [lia|]. destruct (zb zarr (idx + 1) - u' =? 0) eqn:E2; lia.
        * exists (S k). cbv zeta in *. unfold zchop_next in *. rewrite Hs in *.
          cbn [zc_first zc_st zc_start zc_len zc_init zc_out zs_on zs_rem zs_idx] in *.
          replace (idx + Z.of_nat (S k)) with (idx + 1 + Z.of_nat k) by lia.
          split; [exact K1|]. split; [exact K2|]. split; [exact K3|]. split; [right; destruct K4 as [->|K4]; [cbn [Z.of_nat]; rewrite Z.add_0_r|]; lia|].
          split; [exact K5|]. split; [rewrite K6, Hf, andb_false_r; reflexivity|].
          rewrite K7, Hf. cbn [cut_ops rev]. rewrite <- app_assoc. cbn [app]. f_equal.
          rewrite Hst, move_add. replace (u' - u + (zb zarr (idx + 1) - u')) with (zb zarr (idx + 1) - u) by lia.
          rewrite even_succ_negb. destruct (Z.even idx); reflexivity.
      + exists O. cbn [Z.of_nat cut_ops rev app]. rewrite Z.add_0_r, Hs, Hl.
        split; [f_equal; lia|]. split; [lia|]. split; [lia|]. auto.
  Qed.
End Segment.

(* ================================================================================================================== *)
(* THE PATTERN AS A FUNCTION OF POSITION, and the 'on' intervals as its maximal runs                                  *)
Section Pattern.
  Variable zarr : list Z.
  Hypothesis Hpos1 : forall i, 1 <= zarr_at zarr i.

  (* the entry of the cyclically repeated array that contains the unit interval (u, u+1): walk along the entries *)
  Fixpoint idx_search (fuel : nat) (j u : Z) : Z :=
    match fuel with
    | O => j
    | S f => if u <? zarr_at zarr j then j else idx_search f (j + 1) (u - zarr_at zarr j)
    end.
  Definition idx_at (u : Z) : Z := idx_search (Z.to_nat u) 0 u.
  (* position s of a subpath dashed with pattern offset o (already reduced modulo the period) is inside a dash *)
  Definition pattern_on (o s : Z) : bool := Z.even (idx_at (o + s)).

  Lemma idx_search_spec fuel : forall j u, 0 <= j -> 0 <= u <= Z.of_nat fuel ->
    let i := idx_search fuel j u in j <= i /\ zb zarr i - zb zarr j <= u < zb zarr (i + 1) - zb zarr j.
  Proof.
    induction fuel as [|f IH]; intros j u Hj Hu; cbn [idx_search].
    - pose proof (zb_step zarr Hpos1 j Hj). cbv zeta. lia.
    - destruct (Z.ltb_spec u (zarr_at zarr j)) as [L|G].
      + cbv zeta. rewrite (zb_succ zarr j Hj). lia.
      + pose proof (Hpos1 j). destruct (IH (j + 1) (u - zarr_at zarr j) ltac:(lia) ltac:(lia)) as [I1 I2].
        cbv zeta. rewrite (zb_succ zarr j Hj) in I2. lia.
  Qed.
  Lemma idx_at_spec u : 0 <= u -> 0 <= idx_at u /\ zb zarr (idx_at u) <= u < zb zarr (idx_at u + 1).
  Proof.
    intros H. destruct (idx_search_spec (Z.to_nat u) 0 u ltac:(lia) ltac:(lia)) as [I1 I2]. fold (idx_at u) in I1, I2.
    rewrite zb_0 in I2. lia.
  Qed.
  Lemma idx_at_unique u j : 0 <= j -> zb zarr j <= u < zb zarr (j + 1) -> idx_at u = j.
  Proof.
    intros Hj H. pose proof (zb_nonneg zarr Hpos1 j). destruct (idx_at_spec u ltac:(lia)) as [I0 I].
    destruct (Z.lt_trichotomy (idx_at u) j) as [L|[E|G]]; [|exact E|].
    - pose proof (zb_mono zarr Hpos1 (idx_at u + 1) j ltac:(lia)). lia.
    - pose proof (zb_mono zarr Hpos1 (j + 1) (idx_at u) ltac:(lia)). lia.
  Qed.

  Variable o : Z.
  Hypothesis Ho0 : 0 <= o.

  Lemma in_ivs_from L a b k : forall j, In (a, b) (ivs_from zarr o L j k) ->
    exists i, j <= i < j + Z.of_nat k /\ In (a, b) (entry_iv zarr o L i).
  Proof.
    induction k as [|k IH]; intros j; cbn [ivs_from]; [intros []|]. intros H. apply in_app_or in H. destruct H as [H|H].
    - exists j. split; [lia|exact H].
    - destruct (IH _ H) as (i & Hi & Hin). exists i. split; [lia|exact Hin].
  Qed.
  Lemma ivs_from_in L a b k : forall j i, j <= i < j + Z.of_nat k -> In (a, b) (entry_iv zarr o L i) ->
    In (a, b) (ivs_from zarr o L j k).
  Proof.
    induction k as [|k IH]; intros j i Hi Hin; [lia|]. cbn [ivs_from]. apply in_or_app.
    destruct (Z.eq_dec i j) as [->|NE]; [left; exact Hin|right]. apply (IH (j + 1) i); [lia|exact Hin].
  Qed.

  (* every listed interval is a maximal run of pattern_on within [0, L] ... *)
  Theorem on_intervals_sound L a b : In (a, b) (on_intervals zarr o L) ->
    0 <= a /\ a < b /\ b <= L /\
    (forall t, a <= t < b -> pattern_on o t = true) /\
    (a = 0 \/ pattern_on o (a - 1) = false) /\ (b = L \/ pattern_on o b = false).
  Proof.
    intros H. destruct (on_intervals_bounds _ _ _ _ _ H) as (B1 & B2 & B3).
    apply in_ivs_from in H. destruct H as (j & Hj & H). unfold entry_iv in H.
    destruct (Z.even j) eqn:Ev; cbn [andb] in H; [|destruct H].
    destruct (Z.ltb_spec (Z.max 0 (zb zarr j - o)) (Z.min L (zb zarr (j + 1) - o))) as [Lt|Ge]; [|destruct H].
    destruct H as [H|[]]. injection H as Ea Eb.
    split; [exact B1|]. split; [exact B2|]. split; [exact B3|]. split; [|split].
    - intros t Ht. unfold pattern_on. rewrite (idx_at_unique (o + t) j); [exact Ev|lia|lia].
    - destruct (Z.eq_dec a 0) as [|Na]; [left; assumption|right].
      assert (Ea' : a = zb zarr j - o) by lia.
      assert (Hj1 : 1 <= j).
      { destruct (Z.eq_dec j 0) as [->|]; [rewrite zb_0 in Ea'; lia|lia]. }
      unfold pattern_on. rewrite (idx_at_unique (o + (a - 1)) (j - 1)).
      + replace j with ((j - 1) + 1) in Ev by lia. rewrite even_succ_negb in Ev. destruct (Z.even (j - 1)); [discriminate|reflexivity].
      + lia.
      + replace (j - 1 + 1) with j by lia. pose proof (zb_step zarr Hpos1 (j - 1) ltac:(lia)).
        replace (j - 1 + 1) with j in * by lia. lia.
    - destruct (Z.eq_dec b L) as [|Nb]; [left; assumption|right].
      assert (Eb' : b = zb zarr (j + 1) - o) by lia.
      unfold pattern_on. rewrite (idx_at_unique (o + b) (j + 1)).
      + rewrite even_succ_negb, Ev. reflexivity.
      + lia.
      + pose proof (zb_step zarr Hpos1 (j + 1) ltac:(lia)). lia.
  Qed.

  (* ... and every position of [0, L) where the pattern is on lies in a listed interval *)
  Theorem on_intervals_complete L t : 0 <= t < L -> pattern_on o t = true ->
    exists a b, In (a, b) (on_intervals zarr o L) /\ a <= t < b.
  Proof.
    intros Ht Hon. unfold pattern_on in Hon. destruct (idx_at_spec (o + t) ltac:(lia)) as [I0 I]. set (j := idx_at (o + t)) in *.
    exists (Z.max 0 (zb zarr j - o)), (Z.min L (zb zarr (j + 1) - o)). split; [|lia].
    unfold on_intervals. apply (ivs_from_in L _ _ _ 0 j).
    - pose proof (zb_mono zarr Hpos1 0 j ltac:(lia)). rewrite zb_0 in *. lia.
    - unfold entry_iv. rewrite Hon. cbn [andb].
      destruct (Z.ltb_spec (Z.max 0 (zb zarr j - o)) (Z.min L (zb zarr (j + 1) - o))); [left; reflexivity|lia].
  Qed.

  (* the list is in increasing order, consecutive intervals separated by a gap *)
  Lemma ivs_from_sorted L k : forall j, 0 <= j ->
    forall l1 iv1 iv2 l2, ivs_from zarr o L j k = l1 ++ iv1 :: iv2 :: l2 -> snd iv1 < fst iv2.
  Proof.
    assert (Hlow : forall k j a b, 0 <= j -> In (a, b) (ivs_from zarr o L j k) -> zb zarr j - o <= a).
    { intros k0 j a b Hj Hin. apply in_ivs_from in Hin. destruct Hin as (i & Hi & Hin). unfold entry_iv in Hin.
      destruct (Z.even i && _); [|destruct Hin]. destruct Hin as [Hin|[]]. inversion Hin; subst.
      pose proof (zb_mono zarr Hpos1 j i ltac:(lia)). lia. }
    induction k as [|k IH]; intros j Hj l1 iv1 iv2 l2 E; cbn [ivs_from] in E; [destruct l1; discriminate|].
    unfold entry_iv in E at 1. destruct (Z.even j) eqn:Ev; cbn [andb] in E.
    - destruct (Z.ltb_spec (Z.max 0 (zb zarr j - o)) (Z.min L (zb zarr (j + 1) - o))) as [Lt|Ge]; cbn [app] in E.
      + destruct l1 as [|x l1]; cbn [app] in E.
        * inversion E as [[E1 E2]]. subst iv1. cbn [snd].
          (* iv2 is the first interval of the rest, which starts at entry j + 1, an odd one *)
          destruct k as [|k]; [discriminate|]. cbn [ivs_from] in E2. unfold entry_iv in E2 at 1.
          rewrite even_succ_negb, Ev in E2. cbn [negb andb app] in E2.
          assert (Hin : In iv2 (ivs_from zarr o L (j + 1 + 1) k)) by (rewrite E2; left; reflexivity).
          destruct iv2 as [a2 b2]. apply Hlow in Hin; [|lia]. cbn [fst].
          pose proof (zb_step zarr Hpos1 (j + 1) ltac:(lia)). lia.
        * inversion E as [[E1 E2]]. apply (IH (j + 1) ltac:(lia) l1 iv1 iv2 l2 E2).
      + apply (IH (j + 1) ltac:(lia) l1 iv1 iv2 l2 E).
    - cbn [app] in E. apply (IH (j + 1) ltac:(lia) l1 iv1 iv2 l2 E).
  Qed.
  Theorem on_intervals_sorted L l1 iv1 iv2 l2 : on_intervals zarr o L = l1 ++ iv1 :: iv2 :: l2 -> snd iv1 < fst iv2.
  Proof. apply ivs_from_sorted. lia. Qed.
End Pattern.

(* ---- the period: the sum of the array, twice when its length is odd (DashZ.ztotal) ---- *)
Section Period.
  Variable zarr : list Z.
  Hypothesis Hne : zarr <> [].
  Hypothesis Hpos1 : forall i, 1 <= zarr_at zarr i.

  Fixpoint nsum (k : nat) (f : nat -> Z) : Z := match k with O => 0 | S k' => nsum k' f + f k' end.
  Lemma nsum_shift k f : nsum (S k) f = f O + nsum k (fun i => f (S i)).
  Proof. induction k as [|k IH]; [cbn; lia|]. change (nsum (S (S k)) f) with (nsum (S k) f + f (S k)). rewrite IH. cbn [nsum]. lia. Qed.
  Lemma nsum_ext k f g : (forall i, (i < k)%nat -> f i = g i) -> nsum k f = nsum k g.
  Proof.
    induction k as [|k IH]; intros H; cbn [nsum]; [reflexivity|]. rewrite IH by (intros i Hi; apply H; lia).
    rewrite (H k) by lia. reflexivity.
  Qed.
  Lemma fold_add_nsum (l : list Z) : forall acc, fold_left Z.add l acc = acc + nsum (length l) (fun i => nth i l 0).
  Proof.
    induction l as [|a l IH]; intros acc; cbn [fold_left length]; [cbn; lia|].
    rewrite IH, nsum_shift. cbn [nth]. lia.
  Qed.
  Lemma zbn_nsum k : zbn zarr k = nsum k (fun i => zarr_at zarr (Z.of_nat i)).
  Proof. induction k as [|k IH]; cbn [zbn nsum]; [reflexivity|]. rewrite IH. reflexivity. Qed.

  Let n := zlen zarr.
  Lemma n_pos : 1 <= n.
  Proof. unfold n, zlen. destruct zarr; [congruence|]. cbn [length]. lia. Qed.
  Lemma zb_n : zb zarr n = fold_left Z.add zarr 0.
  Proof.
    unfold zb, n, zlen. rewrite Nat2Z.id, zbn_nsum, fold_add_nsum, Z.add_0_l. apply nsum_ext. intros i Hi.
    unfold zarr_at, zlen. rewrite Z.mod_small by lia. rewrite Nat2Z.id. reflexivity.
  Qed.
  Lemma zarr_at_period j : zarr_at zarr (j + n) = zarr_at zarr j.
  Proof.
    pose proof n_pos. unfold zarr_at. fold n. replace (j + n) with (j + 1 * n) by lia. rewrite Z.mod_add by lia. reflexivity.
  Qed.
  Lemma zb_shift_n j : 0 <= j -> zb zarr (j + n) = zb zarr j + zb zarr n.
  Proof.
    pose proof n_pos. intros Hj. rewrite <- (Z2Nat.id j Hj). generalize (Z.to_nat j). clear j Hj. intros k.
    induction k as [|k IH]; [cbn [Z.of_nat]; rewrite zb_0, !Z.add_0_l; reflexivity|].
    replace (Z.of_nat (S k) + n) with ((Z.of_nat k + n) + 1) by lia.
    rewrite (zb_succ zarr (Z.of_nat k + n)) by lia. rewrite IH, zarr_at_period.
    replace (Z.of_nat (S k)) with (Z.of_nat k + 1) by lia. rewrite (zb_succ zarr (Z.of_nat k)) by lia. lia.
  Qed.

  (* the number of entries in a period: even *)
  Definition period_entries : Z := if Z.odd n then 2 * n else n.
  Lemma period_entries_even : Z.even period_entries = true.
  Proof.
    unfold period_entries. destruct (Z.odd n) eqn:E; [rewrite Z.even_mul; reflexivity|].
    rewrite <- Z.negb_odd, E. reflexivity.
  Qed.
  Lemma zb_period : zb zarr period_entries = ztotal zarr.
  Proof.
    pose proof n_pos. unfold period_entries, ztotal. fold n. destruct (Z.odd n).
    - replace (2 * n) with (n + n) by lia. rewrite zb_shift_n by lia. rewrite zb_n. lia.
    - apply zb_n.
  Qed.
  Lemma zb_shift_period j : 0 <= j -> zb zarr (j + period_entries) = zb zarr j + ztotal zarr.
  Proof.
    pose proof n_pos. intros Hj. rewrite <- zb_period. unfold period_entries. destruct (Z.odd n).
    - replace (j + 2 * n) with ((j + n) + n) by lia. replace (2 * n) with (n + n) by lia.
      rewrite !zb_shift_n by lia. lia.
    - apply zb_shift_n, Hj.
  Qed.

  (* the pattern repeats with period ztotal: shifting by the offset is shifting by the offset modulo the period *)
  Theorem pattern_on_period o s : 0 <= o + s -> pattern_on zarr o (s + ztotal zarr) = pattern_on zarr o s.
  Proof.
    intros H. unfold pattern_on. destruct (idx_at_spec zarr Hpos1 (o + s) H) as [I0 I].
    pose proof n_pos. assert (0 <= period_entries) by (unfold period_entries; destruct (Z.odd n); lia).
    rewrite (idx_at_unique zarr Hpos1 (o + (s + ztotal zarr)) (idx_at zarr (o + s) + period_entries)).
    - rewrite Z.even_add, period_entries_even. destruct (Z.even (idx_at zarr (o + s))); reflexivity.
    - lia.
    - replace (idx_at zarr (o + s) + period_entries + 1) with ((idx_at zarr (o + s) + 1) + period_entries) by lia.
      rewrite !zb_shift_period by lia. lia.
  Qed.
  Corollary pattern_on_mod off s : 0 <= off -> 0 <= s -> pattern_on zarr (off mod ztotal zarr) s = pattern_on zarr off s.
  Proof.
    intros Hoff Hs. pose proof n_pos.
    assert (TP : 0 < ztotal zarr).
    { rewrite <- zb_period. assert (0 < period_entries) by (unfold period_entries; destruct (Z.odd n); lia).
      pose proof (zb_mono zarr Hpos1 0 period_entries ltac:(lia)). rewrite zb_0 in *. lia. }
    rewrite (Z.div_mod off (ztotal zarr)) at 2 by lia.
    assert (Hq : 0 <= off / ztotal zarr) by (apply Z.div_pos; lia).
    pose proof (Z.mod_pos_bound off (ztotal zarr) TP) as Hm.
    set (m := off mod ztotal zarr) in *. set (q := off / ztotal zarr) in *. clearbody m q.
    rewrite <- (Z2Nat.id q Hq). generalize (Z.to_nat q). clear q Hq. intros k.
    induction k as [|k IH]; [f_equal; cbn [Z.of_nat]; lia|].
    rewrite IH. unfold pattern_on at 2.
    replace (ztotal zarr * Z.of_nat (S k) + m + s) with ((ztotal zarr * Z.of_nat k + m) + (s + ztotal zarr)) by lia.
    fold (pattern_on zarr (ztotal zarr * Z.of_nat k + m) (s + ztotal zarr)). symmetry. apply pattern_on_period. nia.
  Qed.
End Period.

(* ---- when no segment has length 0 the declared pieces have no repeated positions: on_pieces needs no merging ---- *)
Lemma cum_sascf lens : forall s, Forall (fun l => 0 < l) lens -> sascf (cum s lens) /\ forall x, In x (cum s lens) -> s < x.
Proof.
  induction lens as [|l t IH]; intros s H; cbn [cum]; [split; [exact I|intros x []]|].
  inversion H; subst. destruct (IH (s + l) ltac:(assumption)) as [A B]. split.
  - split; [|exact A]. intros y Hy. apply B in Hy. lia.
  - intros x [<-|Hx]; [lia|]. apply B in Hx. lia.
Qed.
Lemma sascf_filter f l : sascf l -> sascf (filter f l).
Proof.
  induction l as [|a t IH]; intros A; cbn [filter]; [exact I|]. destruct A as [A1 A2].
  destruct (f a); [|apply IH, A2]. split; [|apply IH, A2]. intros y Hy. apply filter_In in Hy. apply A1, Hy.
Qed.
Lemma sascf_app l x : sascf l -> (forall y, In y l -> y < x) -> sascf (l ++ [x]).
Proof.
  induction l as [|a t IH]; intros A H; cbn [app sascf]; [split; [intros ? []|exact I]|].
  destruct A as [A1 A2]. split.
  - intros y Hy. apply in_app_or in Hy. destruct Hy as [Hy|[<-|[]]]; [apply A1, Hy|apply H; left; reflexivity].
  - apply IH; [exact A2|]. intros y Hy. apply H. right. exact Hy.
Qed.
Lemma ppiece_sascf vs a b : sascf vs -> a < b -> sascf (ppiece vs a b).
Proof.
  intros A L. unfold ppiece. split.
  - intros y Hy. apply in_app_or in Hy. destruct Hy as [Hy|[<-|[]]]; [|lia]. apply filter_In in Hy. lia.
  - apply sascf_app; [apply sascf_filter, A|]. intros y Hy. apply filter_In in Hy. lia.
Qed.
Lemma on_pieces_positive zarr o p0 pts : Forall (fun l => 0 < l) (seglens p0 pts) ->
  on_pieces zarr o p0 pts =
  map (fun iv => ppiece (cum 0 (seglens p0 pts)) (fst iv) (snd iv)) (on_intervals zarr o (plen p0 pts)).
Proof.
  intros H. unfold on_pieces. apply map_ext_in. intros [a b] Hin. cbn [fst snd].
  apply dedup_sascf_id, ppiece_sascf; [apply (cum_sascf _ 0 H)|]. apply on_intervals_bounds in Hin. lia.
Qed.

Print Assumptions pdash_pieces.
Print Assumptions pdash_point_pieces.
Print Assumptions zchop_loop_cuts.
Print Assumptions on_intervals_sound.
Print Assumptions on_intervals_complete.
Print Assumptions on_intervals_sorted.
Print Assumptions pattern_on_mod.
