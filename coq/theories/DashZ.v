(* C09: the dasher on integer points, with integer dash arrays - a transcription of PathOps.dash_path in which
   every binary32 value is replaced by the integer it holds on the sub-domain of DashExact.v (integer axis-aligned
   polylines, integer patterns).  No floating point in this file. *)
From Coq Require Import ZArith List Lia Bool ZifyBool.
Require Import RQ.Base RQ.Contains.
Import ListNotations.
Open Scope Z_scope.

Definition zadd (p v : zpt) : zpt := (fst p + fst v, snd p + snd v).
Definition zsub (a b : zpt) : zpt := (fst a - fst b, snd a - snd b).
Definition zscale (v : zpt) (s : Z) : zpt := (fst v * s, snd v * s).
(* the length of an axis-aligned vector *)
Definition zlen1 (v : zpt) : Z := Z.abs (fst v) + Z.abs (snd v).
(* its unit direction *)
Definition zdir (v : zpt) : zpt := (Z.sgn (fst v), Z.sgn (snd v)).
(* horizontal, vertical, or null *)
Definition axis (v : zpt) : Prop := fst v = 0 \/ snd v = 0.

Record zds := mk_zds { zs_on : bool; zs_rem : Z; zs_idx : Z }.
Record zchop := mk_zchop { zc_len : Z; zc_start : zpt; zc_st : zds; zc_first : bool; zc_fdash : bool;
                           zc_init : list zpt; zc_out : list zop (* reversed *) }.
Record zacc := mk_zda { za_cur : option zpt; za_startp : option zpt; za_first : bool; za_fdash : bool;
                        za_init : list zpt; za_st : zds; za_out : list zop (* reversed *) }.

Definition zflush (init : list zpt) (out : list zop) : list zop :=
  match init with
  | [] => out
  | p0 :: rest => rev (map ZLine rest) ++ ZMove p0 :: out
  end.

Section ZDash.
  Variable zarr : list Z.
  Definition zarr_at (i : Z) : Z := nth (Z.to_nat (i mod zlen zarr)) zarr 0.

  (* one round of the inner loop (the guard is zs_rem < zc_len) *)
  Definition zchop_next (dir : zpt) (c : zchop) : zchop :=
    let st := zc_st c in
    let seg := zadd (zc_start c) (zscale dir (zs_rem st)) in
    let idx := zs_idx st + 1 in
    mk_zchop (zc_len c - zs_rem st) seg (mk_zds (negb (zs_on st)) (zarr_at idx) idx) false
             (if zs_on st then zc_fdash c else false)
             (if zs_on st && zc_first c then zc_init c ++ [zc_start c; seg] else zc_init c)
             (if zs_on st then (if zc_first c then zc_out c else ZLine seg :: zc_out c) else ZMove seg :: zc_out c).
  Definition zchop_step (dir : zpt) (c : zchop) : option zchop :=
    if zs_rem (zc_st c) <? zc_len c then Some (zchop_next dir c) else None.
  Fixpoint zchop_loop (n : nat) (dir : zpt) (c : zchop) : zchop :=
    match n with
    | O => c
    | S n' => if zs_rem (zc_st c) <? zc_len c then zchop_loop n' dir (zchop_next dir c) else c
    end.
  (* enough rounds: every round but possibly the first consumes at least one unit of length *)
  Definition zchop_fuel (len : Z) : nat := S (Z.to_nat len).
  Definition zchop_all (target cur : zpt) (a : zacc) : zchop :=
    let v := zsub target cur in
    zchop_loop (zchop_fuel (zlen1 v)) (zdir v)
               (mk_zchop (zlen1 v) cur (za_st a) (za_first a) (za_fdash a) (za_init a) (za_out a)).

  Definition zdash_op (initial : zds) (a : zacc) (o : zop) : zacc :=
    match o with
    | ZMove p => mk_zda (Some p) (Some p) true true [] initial (ZMove p :: zflush (za_init a) (za_out a))
    | ZLine p =>
        match za_cur a with
        | Some cur =>
            let c := zchop_all p cur a in
            let st := zc_st c in
            mk_zda (Some p) (za_startp a) (zc_first c)
                   (if zs_on st then zc_fdash c else false)
                   (if zs_on st && zc_first c then zc_init c ++ [zc_start c; p] else zc_init c)
                   (mk_zds (zs_on st) (zs_rem st - zc_len c) (zs_idx st))
                   (if zs_on st then (if zc_first c then zc_out c else ZLine p :: zc_out c) else ZMove p :: zc_out c)
        | None => mk_zda (Some p) (za_startp a) (za_first a) (za_fdash a) (za_init a) (za_st a) (za_out a)
        end
    | ZClose =>
        match za_cur a, za_startp a with
        | Some cur, Some sp =>
            let c := zchop_all sp cur a in
            mk_zda (Some sp) (Some sp) true true [] initial
                   (if zs_on (zc_st c) then
                      if zc_fdash c then ZClose :: rev (map ZLine (zc_init c)) ++ zc_out c
                      else match zc_init c with
                           | [] => ZLine sp :: zc_out c
                           | _ => rev (map ZLine (zc_init c)) ++ zc_out c
                           end
                    else zflush (zc_init c) (zc_out c))
        | _, _ => mk_zda None (za_startp a) (za_first a) (za_fdash a) (za_init a) (za_st a) (za_out a)
        end
    end.

  Definition zdash_ops (initial : zds) (a : zacc) (ops : list zop) : zacc := fold_left (zdash_op initial) ops a.
  Definition zfresh (initial : zds) : zacc := mk_zda None None true true [] initial [].
  Definition zdashed (initial : zds) (ops : list zop) : list zop :=
    let a := zdash_ops initial (zfresh initial) ops in rev (zflush (za_init a) (za_out a)).

  (* the pattern's period: the array, twice when its length is odd *)
  Definition ztotal : Z := let t := fold_left Z.add zarr 0 in if Z.odd (zlen zarr) then t * 2 else t.
  (* the offset loop *)
  Definition zoffset_next (s : Z * zds) : Z * zds :=
    let '(off, st) := s in (off - zs_rem st, mk_zds (negb (zs_on st)) (zarr_at (zs_idx st + 1)) (zs_idx st + 1)).
  Definition zoffset_step (s : Z * zds) : option (Z * zds) :=
    if zs_rem (snd s) <? fst s then Some (zoffset_next s) else None.
  Fixpoint zoffset_loop (n : nat) (s : Z * zds) : Z * zds :=
    match n with
    | O => s
    | S n' => if zs_rem (snd s) <? fst s then zoffset_loop n' (zoffset_next s) else s
    end.
  Definition zdash_initial (off : Z) : zds :=
    let o := off mod ztotal in
    let '(o', st) := zoffset_loop (Z.to_nat o) (o, mk_zds true (zarr_at 0) 0) in
    mk_zds (zs_on st) (zs_rem st - o') (zs_idx st).

  Definition zdash_path (ops : list zop) (off : Z) : list zop := zdashed (zdash_initial off) ops.
End ZDash.

(* ================================================================================================================== *)
(* bounded loops: `run n f s` makes at most n rounds and reports whether the loop condition was seen to fail           *)
Fixpoint run {S : Type} (n : nat) (f : S -> option S) (s : S) : S * bool :=
  match n with
  | O => (s, false)
  | S n' => match f s with None => (s, true) | Some s' => run n' f s' end
  end.

Lemma run_add {S} (f : S -> option S) a : forall b s,
  run (a + b) f s = let '(s1, d) := run a f s in if d then (s1, true) else run b f s1.
Proof.
  induction a as [|a IH]; intros b s; cbn [run Nat.add]; [reflexivity|].
  destruct (f s) as [s'|]; [apply IH|reflexivity].
Qed.

Lemma run_done_mono {S} (f : S -> option S) n : forall m s s', run n f s = (s', true) -> (n <= m)%nat -> run m f s = (s', true).
Proof.
  induction n as [|n IH]; intros m s s' H L; cbn [run] in H; [discriminate|].
  destruct m as [|m]; [lia|]. cbn [run]. destruct (f s) as [s1|]; [|assumption]. apply IH; [assumption|lia].
Qed.

Lemma run_sim {S T} (emb : T -> S) (f : S -> option S) (g : T -> option T) (Inv : T -> Prop) :
  (forall t, Inv t -> f (emb t) = option_map emb (g t)) -> (forall t t', Inv t -> g t = Some t' -> Inv t') ->
  forall n t, Inv t -> run n f (emb t) = let '(t', b) := run n g t in (emb t', b).
Proof.
  intros Hc Hi. induction n as [|n IH]; intros t I; cbn [run]; [reflexivity|].
  rewrite (Hc t I). destruct (g t) as [t'|] eqn:E; cbn [option_map]; [|reflexivity].
  apply IH. eapply Hi; eassumption.
Qed.

Section ZLoops.
  Variable zarr : list Z.
  Hypothesis Hne : zarr <> [].
  Hypothesis Hpos : Forall (fun a => 1 <= a) zarr.

  Lemma zarr_at_In i : In (zarr_at zarr i) zarr.
  Proof.
    unfold zarr_at. apply nth_In. unfold zlen. destruct zarr as [|a t]; [congruence|].
    cbn [length]. pose proof (Z.mod_pos_bound i (Z.of_nat (S (length t)))). lia.
  Qed.
  Lemma zarr_at_pos i : 1 <= zarr_at zarr i.
  Proof. pose proof (zarr_at_In i) as H. rewrite Forall_forall in Hpos. apply Hpos. exact H. Qed.

  (* the measure of the chop loop *)
  Definition zchop_measure (c : zchop) : Z := zc_len c + (if zs_rem (zc_st c) =? 0 then 1 else 0).

  Lemma zchop_loop_run dir n : forall c, 0 <= zs_rem (zc_st c) -> zchop_measure c <= Z.of_nat n ->
    run (S n) (zchop_step zarr dir) c = (zchop_loop zarr n dir c, true) /\
    (zs_rem (zc_st (zchop_loop zarr n dir c)) <? zc_len (zchop_loop zarr n dir c)) = false.
  Proof.
    induction n as [|n IH]; intros c Hr Hm; unfold zchop_measure in Hm.
    - cbn [run zchop_loop]. unfold zchop_step. destruct (Z.ltb_spec (zs_rem (zc_st c)) (zc_len c)) as [L|G]; [|auto].
      destruct (Z.eqb_spec (zs_rem (zc_st c)) 0); lia.
    - change (run (S (S n)) (zchop_step zarr dir) c)
        with (match zchop_step zarr dir c with None => (c, true) | Some s' => run (S n) (zchop_step zarr dir) s' end).
      cbn [zchop_loop]. unfold zchop_step.
      destruct (Z.ltb_spec (zs_rem (zc_st c)) (zc_len c)) as [L|G].
      + apply IH; unfold zchop_next, zchop_measure; cbn [zc_st zs_rem zc_len].
        * pose proof (zarr_at_pos (zs_idx (zc_st c) + 1)). lia.
        * pose proof (zarr_at_pos (zs_idx (zc_st c) + 1)).
          destruct (Z.eqb_spec (zarr_at zarr (zs_idx (zc_st c) + 1)) 0); [lia|].
          destruct (Z.eqb_spec (zs_rem (zc_st c)) 0); lia.
      + split; [reflexivity|]. apply Z.ltb_ge. exact G.
  Qed.

  (* an invariant of the loop body is an invariant of the loop *)
  Lemma zchop_loop_inv dir (Inv : zchop -> Prop) :
    (forall c, Inv c -> zs_rem (zc_st c) < zc_len c -> Inv (zchop_next zarr dir c)) ->
    forall n c, Inv c -> Inv (zchop_loop zarr n dir c).
  Proof.
    intros H. induction n as [|n IH]; intros c I; cbn [zchop_loop]; [exact I|].
    destruct (Z.ltb_spec (zs_rem (zc_st c)) (zc_len c)); [|exact I]. apply IH, H; assumption.
  Qed.

  Lemma zoffset_loop_run n : forall s, 1 <= zs_rem (snd s) -> fst s <= Z.of_nat n ->
    run (S n) (zoffset_step zarr) s = (zoffset_loop zarr n s, true) /\
    (zs_rem (snd (zoffset_loop zarr n s)) <? fst (zoffset_loop zarr n s)) = false.
  Proof.
    induction n as [|n IH]; intros s Hr Hm.
    - cbn [run zoffset_loop]. unfold zoffset_step. destruct (Z.ltb_spec (zs_rem (snd s)) (fst s)) as [L|G]; [lia|auto].
    - change (run (S (S n)) (zoffset_step zarr) s)
        with (match zoffset_step zarr s with None => (s, true) | Some s' => run (S n) (zoffset_step zarr) s' end).
      cbn [zoffset_loop]. unfold zoffset_step.
      destruct (Z.ltb_spec (zs_rem (snd s)) (fst s)) as [L|G].
      + destruct s as [off st]. cbn [fst snd] in *. apply IH; unfold zoffset_next; cbn [fst snd zs_rem].
        * apply zarr_at_pos.
        * lia.
      + split; [reflexivity|]. apply Z.ltb_ge. exact G.
  Qed.
  Lemma zoffset_loop_inv (Inv : Z * zds -> Prop) :
    (forall s, Inv s -> zs_rem (snd s) < fst s -> Inv (zoffset_next zarr s)) ->
    forall n s, Inv s -> Inv (zoffset_loop zarr n s).
  Proof.
    intros H. induction n as [|n IH]; intros s I; cbn [zoffset_loop]; [exact I|].
    destruct (Z.ltb_spec (zs_rem (snd s)) (fst s)); [|exact I]. apply IH, H; assumption.
  Qed.
End ZLoops.
