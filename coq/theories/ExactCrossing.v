(* ExactCrossing.v - C01, last gap: the crossings used by the scanline rasteriser model are the EXACT
   crossings of the segments with the sample rows, rounded to the nearest quarter pixel (ties up),
   whenever the exact crossing is not within (y - y1)/16384 quarter pixels of a rounding boundary.
   Integers only.  Depends on Base.v, Rect.v, Raster.v, RasterProofs.v. *)
From Coq Require Import ZArith List Lia ZifyBool Permutation.
Require Import RQ.Base RQ.Rect RQ.Raster RQ.RasterProofs.
Import ListNotations.
Open Scope Z_scope.
Ltac Zify.zify_post_hook ::= Z.to_euclidean_division_equations.

(* ===== Part 1: the exact crossing rounded to the nearest quarter ===== *)

(* Segment (xa,ya)-(xb,yb) in quarter-pixel integers, ya < yb.  The exact crossing with sample row y is the
   rational X = N/d with d = yb - ya, N = xa*d + (y-ya)*(xb-xa); floor(X + 1/2) = (2N + d) / (2d). *)
Definition exact_round (xa ya xb yb y : Z) : Z :=
  (2 * (xa * (yb - ya) + (y - ya) * (xb - xa)) + (yb - ya)) / (2 * (yb - ya)).

(* the fixed-point crossing of the model (lines_live_closed_form) *)
Definition fixed_cross (xa ya xb yb y : Z) : Z :=
  xa * 16384 + (y - ya) * Z.quot ((xb - xa) * 16384) (yb - ya).

(* characterisation of floor(N/d + 1/2) without division *)
Lemma round_half_spec N d m : 0 < d ->
  ((2 * N + d) / (2 * d) = m <-> (2 * m - 1) * d <= 2 * N < (2 * m + 1) * d).
Proof.
  intros Hd. split.
  - intros <-.
    pose proof (Z.div_mod (2 * N + d) (2 * d) ltac:(lia)) as E.
    pose proof (Z.mod_pos_bound (2 * N + d) (2 * d) ltac:(lia)) as B.
    set (m := (2 * N + d) / (2 * d)) in *. set (R := (2 * N + d) mod (2 * d)) in *.
    clearbody m R. lia.
  - intros H. symmetry. apply (Z.div_unique_pos _ _ m (2 * N + d - 2 * d * m)); lia.
Qed.

Lemma exact_round_spec xa ya xb yb y m : ya < yb ->
  (exact_round xa ya xb yb y = m <->
   (2 * m - 1) * (yb - ya) <= 2 * (xa * (yb - ya) + (y - ya) * (xb - xa)) < (2 * m + 1) * (yb - ya)).
Proof. intros H. unfold exact_round. apply round_half_spec. lia. Qed.

(* at the end points the rounded exact crossing is the end point itself *)
Lemma exact_round_start xa ya xb yb : ya < yb -> exact_round xa ya xb yb ya = xa.
Proof. intros H. apply exact_round_spec; [exact H|]. nia. Qed.
Lemma exact_round_end xa ya xb yb : ya < yb -> exact_round xa ya xb yb yb = xb.
Proof. intros H. apply exact_round_spec; [exact H|]. nia. Qed.

(* ===== Part 2: when the fixed-point crossing rounds like the exact one ===== *)

(* abstract form: d > 0, X = N/d, F within k of 16384*X, m any integer such that X is at least k/16384 away from
   the rounding boundaries m - 1/2 (closed side) and m + 1/2 (open side).  Then rnd F = m. *)
Lemma rnd_gap_abstract d N k F m : 0 < d ->
  Z.abs (F * d - 16384 * N) <= k * d ->
  (2 * m - 1) * d * 16384 + 2 * k * d <= 2 * 16384 * N ->
  2 * 16384 * N + 2 * k * d < (2 * m + 1) * d * 16384 ->
  rnd F = m.
Proof.
  intros Hd He Hlo Hhi. rewrite rnd_eq.
  assert (A: (16384 * m) * d <= (F + 8192) * d) by lia.
  assert (B: (F + 8192) * d < (16384 * (m + 1)) * d) by lia.
  apply Z.mul_le_mono_pos_r in A; [|exact Hd].
  apply Z.mul_lt_mono_pos_r in B; [|exact Hd].
  lia.
Qed.

(* the gap hypotheses force m to be the rounded exact crossing (for k >= 0) *)
Lemma gap_abstract_round d N k m : 0 < d -> 0 <= k ->
  (2 * m - 1) * d * 16384 + 2 * k * d <= 2 * 16384 * N ->
  2 * 16384 * N + 2 * k * d < (2 * m + 1) * d * 16384 ->
  (2 * N + d) / (2 * d) = m.
Proof.
  intros Hd Hk Hlo Hhi. apply round_half_spec; [exact Hd|].
  assert (0 <= k * d) by (apply Z.mul_nonneg_nonneg; lia). lia.
Qed.

(* unconditional distance, abstract form: |rnd F - round(X)| <= ceil(k / 16384) *)
Lemma rnd_dist_abstract d N k F : 0 < d -> 0 <= k ->
  Z.abs (F * d - 16384 * N) <= k * d ->
  Z.abs (rnd F - (2 * N + d) / (2 * d)) <= (k + 16383) / 16384.
Proof.
  intros Hd Hk He.
  set (m := (2 * N + d) / (2 * d)).
  assert (Hm: (2 * m - 1) * d <= 2 * N < (2 * m + 1) * d) by (apply round_half_spec; [exact Hd|reflexivity]).
  set (t := (k + 16383) / 16384).
  assert (Ht: k <= 16384 * t /\ 0 <= t) by (subst t; lia).
  clearbody m t. destruct Ht as [Ht Ht0].
  assert (Hkd: k * d <= (16384 * t) * d) by (apply Z.mul_le_mono_nonneg_r; lia).
  rewrite rnd_eq.
  assert (A: (16384 * (m - t)) * d <= (F + 8192) * d) by lia.
  assert (B: (F + 8192) * d < (16384 * (m + t + 1)) * d) by lia.
  apply Z.mul_le_mono_pos_r in A; [|exact Hd].
  apply Z.mul_lt_mono_pos_r in B; [|exact Hd].
  lia.
Qed.

(* ---- the gap hypothesis, cleanest form ----
   With R := (2N + d) mod 2d  (so that X + 1/2 = m + R/(2d), i.e. R/(2d) is the fractional position of the exact
   crossing inside its rounding interval [m - 1/2, m + 1/2)), the crossing is at least k/16384 above the lower
   boundary iff k*d <= 8192*R and more than k/16384 below the upper one iff k*d < 8192*(2d - R). *)
Definition gap_ok (xa ya xb yb y : Z) : Prop :=
  let d := yb - ya in let k := y - ya in
  let R := (2 * (xa * d + k * (xb - xa)) + d) mod (2 * d) in
  k * d <= 8192 * R /\ k * d < 8192 * (2 * d - R).

Definition gap_okb (xa ya xb yb y : Z) : bool :=
  let d := yb - ya in let k := y - ya in
  let R := (2 * (xa * d + k * (xb - xa)) + d) mod (2 * d) in
  (k * d <=? 8192 * R) && (k * d <? 8192 * (2 * d - R)).

Lemma gap_okb_true xa ya xb yb y : gap_okb xa ya xb yb y = true <-> gap_ok xa ya xb yb y.
Proof. unfold gap_okb, gap_ok. cbv zeta. rewrite andb_true_iff, Z.leb_le, Z.ltb_lt. reflexivity. Qed.

(* equivalence with the formulation of the task: m := exact_round,
   (2m - 1)*d*16384 + 2*k*d <= 2*16384*N  and  2*16384*N + 2*k*d < (2m + 1)*d*16384 *)
Lemma gap_ok_iff xa ya xb yb y : ya < yb ->
  let d := yb - ya in let k := y - ya in let N := xa * d + k * (xb - xa) in
  let m := exact_round xa ya xb yb y in
  gap_ok xa ya xb yb y <->
  ((2 * m - 1) * d * 16384 + 2 * k * d <= 2 * 16384 * N /\
   2 * 16384 * N + 2 * k * d < (2 * m + 1) * d * 16384).
Proof.
  intros Hy. cbv zeta. unfold gap_ok, exact_round. cbv zeta.
  set (d := yb - ya). set (k := y - ya). set (N := xa * d + k * (xb - xa)).
  assert (Hd: 0 < d) by (subst d; lia).
  pose proof (Z.div_mod (2 * N + d) (2 * d) ltac:(lia)) as E.
  set (m := (2 * N + d) / (2 * d)) in *. set (R := (2 * N + d) mod (2 * d)) in *.
  set (kd := k * d). replace (2 * k * d) with (2 * kd) by (subst kd; ring).
  clearbody m R kd N. lia.
Qed.

(* any m satisfying the two inequalities is the rounded exact crossing, hence they are equivalent to gap_ok *)
Lemma gap_ok_any_m xa ya xb yb y m : ya < yb -> ya <= y ->
  let d := yb - ya in let k := y - ya in let N := xa * d + k * (xb - xa) in
  (2 * m - 1) * d * 16384 + 2 * k * d <= 2 * 16384 * N ->
  2 * 16384 * N + 2 * k * d < (2 * m + 1) * d * 16384 ->
  exact_round xa ya xb yb y = m /\ gap_ok xa ya xb yb y.
Proof.
  intros Hy Hk. cbv zeta. intros Hlo Hhi.
  assert (Hm: exact_round xa ya xb yb y = m).
  { unfold exact_round. apply (gap_abstract_round _ _ (y - ya)); [lia|lia|exact Hlo|exact Hhi]. }
  split; [exact Hm|]. apply gap_ok_iff; [exact Hy|]. cbv zeta. rewrite Hm. split; assumption.
Qed.

(* sufficient condition: a short stretch of a short segment ((y-ya)*(yb-ya) < 8192, e.g. segments spanning at most
   90 sample rows = 22 pixels) satisfies the gap hypothesis unless the exact crossing is exactly a tie m - 1/2 *)
Lemma gap_ok_small xa ya xb yb y : ya < yb -> ya <= y ->
  (y - ya) * (yb - ya) < 8192 ->
  (2 * (xa * (yb - ya) + (y - ya) * (xb - xa)) + (yb - ya)) mod (2 * (yb - ya)) <> 0 ->
  gap_ok xa ya xb yb y.
Proof.
  intros Hy Hk Hs Hr. unfold gap_ok. cbv zeta.
  pose proof (Z.mod_pos_bound (2 * (xa * (yb - ya) + (y - ya) * (xb - xa)) + (yb - ya)) (2 * (yb - ya)) ltac:(lia)) as B.
  set (R := (2 * (xa * (yb - ya) + (y - ya) * (xb - xa)) + (yb - ya)) mod (2 * (yb - ya))) in *.
  set (kd := (y - ya) * (yb - ya)) in *. clearbody R kd. lia.
Qed.
(* on the first row of a segment (y = ya) the gap hypothesis always holds (the crossing is xa exactly) *)
Lemma gap_ok_start xa ya xb yb : ya < yb -> gap_ok xa ya xb yb ya.
Proof.
  intros Hy. unfold gap_ok. cbv zeta.
  replace (2 * (xa * (yb - ya) + (ya - ya) * (xb - xa)) + (yb - ya)) with ((yb - ya) + xa * (2 * (yb - ya))) by ring.
  rewrite Z.mod_add by lia. rewrite Z.mod_small by lia. lia.
Qed.

(* the error bound of RasterProofs.crossing_error in the shape used here *)
Lemma fixed_cross_error xa ya xb yb y : ya < yb -> ya <= y <= yb ->
  Z.abs (fixed_cross xa ya xb yb y * (yb - ya) - 16384 * (xa * (yb - ya) + (y - ya) * (xb - xa)))
    <= (y - ya) * (yb - ya).
Proof.
  intros Hy Hyy. pose proof (crossing_error xa ya xb yb Hy y Hyy) as H. unfold fixed_cross.
  replace (16384 * (xa * (yb - ya) + (y - ya) * (xb - xa)))
    with (xa * 16384 * (yb - ya) + (y - ya) * (xb - xa) * 16384) by ring.
  exact H.
Qed.

(* ** rnd_is_exact_round ** *)
Theorem rnd_is_exact_round xa ya xb yb y : ya < yb -> ya <= y <= yb ->
  gap_ok xa ya xb yb y ->
  rnd (fixed_cross xa ya xb yb y) = exact_round xa ya xb yb y.
Proof.
  intros Hy Hyy Hg.
  apply (gap_ok_iff xa ya xb yb y Hy) in Hg. cbv zeta in Hg. destruct Hg as [Hlo Hhi].
  apply (rnd_gap_abstract (yb - ya) (xa * (yb - ya) + (y - ya) * (xb - xa)) (y - ya)).
  - lia.
  - apply fixed_cross_error; assumption.
  - exact Hlo.
  - exact Hhi.
Qed.

(* the same with the task's hypotheses spelled out, for an arbitrary F within the crossing error *)
Theorem rnd_is_exact_round_gen xa ya xb yb y F : ya < yb ->
  let d := yb - ya in let k := y - ya in let N := xa * d + k * (xb - xa) in
  let m := exact_round xa ya xb yb y in
  Z.abs (F * d - 16384 * N) <= k * d ->
  (2 * m - 1) * d * 16384 + 2 * k * d <= 2 * 16384 * N ->
  2 * 16384 * N + 2 * k * d < (2 * m + 1) * d * 16384 ->
  rnd F = m.
Proof.
  intros Hy. cbv zeta. intros He Hlo Hhi.
  apply (rnd_gap_abstract (yb - ya) (xa * (yb - ya) + (y - ya) * (xb - xa)) (y - ya)); [lia|assumption..].
Qed.

(* ** rnd_near_exact_round **  The statement "|rnd F - exact_round| <= 1" without any bound on the number of
   stepped rows is FALSE (rnd_near_exact_round_counterexample below): the accumulated error is up to
   (y - ya)/16384 quarter pixels.  General true form: *)
Theorem rnd_near_exact_round_partial xa ya xb yb y : ya < yb -> ya <= y <= yb ->
  Z.abs (rnd (fixed_cross xa ya xb yb y) - exact_round xa ya xb yb y) <= (y - ya + 16383) / 16384 /\
  (rnd (fixed_cross xa ya xb yb y) <> exact_round xa ya xb yb y -> ~ gap_ok xa ya xb yb y).
Proof.
  intros Hy Hyy. split.
  - unfold exact_round.
    apply (rnd_dist_abstract (yb - ya) (xa * (yb - ya) + (y - ya) * (xb - xa)) (y - ya)); [lia|lia|].
    apply fixed_cross_error; assumption.
  - intros Hne Hg. apply Hne. apply rnd_is_exact_round; assumption.
Qed.

(* for segments stepped at most 16384 sample rows (4096 pixels) from their upper end point: at most one quarter
   off, and off only if the exact crossing is within (y-ya)/16384 of a half-quarter boundary, on the side given
   by the sign of the difference *)
Theorem rnd_near_exact_round xa ya xb yb y : ya < yb -> ya <= y <= yb -> y - ya <= 16384 ->
  let d := yb - ya in let k := y - ya in let N := xa * d + k * (xb - xa) in
  let m := exact_round xa ya xb yb y in
  let r := rnd (fixed_cross xa ya xb yb y) in
  Z.abs (r - m) <= 1 /\
  (r <> m -> ~ gap_ok xa ya xb yb y) /\
  (r = m - 1 -> 2 * 16384 * N < (2 * m - 1) * d * 16384 + 2 * k * d) /\
  (r = m + 1 -> (2 * m + 1) * d * 16384 <= 2 * 16384 * N + 2 * k * d).
Proof.
  intros Hy Hyy Hk. cbv zeta.
  destruct (rnd_near_exact_round_partial xa ya xb yb y Hy Hyy) as [H1 H2].
  split; [|split; [exact H2|]].
  { assert ((y - ya + 16383) / 16384 <= 1) by lia. lia. }
  pose proof (fixed_cross_error xa ya xb yb y Hy Hyy) as He.
  pose proof (proj1 (exact_round_spec xa ya xb yb y _ Hy) eq_refl) as Hm.
  set (m := exact_round xa ya xb yb y) in *. set (F := fixed_cross xa ya xb yb y) in *.
  set (d := yb - ya) in *. set (k := y - ya) in *. set (N := xa * d + k * (xb - xa)) in *.
  assert (Hd: 0 < d) by (subst d; lia).
  assert (Hr: (16384 * rnd F) * d <= (F + 8192) * d < (16384 * (rnd F + 1)) * d).
  { rewrite rnd_eq. split; [apply Z.mul_le_mono_nonneg_r|apply Z.mul_lt_mono_pos_r]; lia. }
  clearbody m F N. split; intros Hrm; rewrite Hrm in Hr; lia.
Qed.

(* counterexamples (vm_compute) *)
(* 1. a tie that the fixed-point slope rounds the other way: (0,0)-(1,6), row 3: X = 1/2 -> 1, but F = 3*2730 *)
Example tie_counterexample :
  exact_round 0 0 1 6 3 = 1 /\ rnd (fixed_cross 0 0 1 6 3) = 0 /\ gap_okb 0 0 1 6 3 = false.
Proof. vm_compute. repeat split; reflexivity. Qed.
(* 2. more than 16384 stepped rows: the difference can exceed 1 *)
Example rnd_near_exact_round_counterexample :
  exact_round 0 0 2 32769 32768 = 2 /\ rnd (fixed_cross 0 0 2 32769 32768) = 0.
Proof. vm_compute. split; reflexivity. Qed.

Print Assumptions rnd_is_exact_round.
Print Assumptions rnd_near_exact_round_partial.
Print Assumptions rnd_near_exact_round.

(* ===== Part 3: lifting to the coverage predicate ===== *)

(* a geometric segment: (xa, ya, xb, yb, wind), oriented so that ya < yb *)
Definition geom := (Z * Z * Z * Z * Z)%type.
Definition g_y1 (g : geom) : Z := let '(_, ya, _, _, _) := g in ya.
Definition g_wind (g : geom) : Z := let '(_, _, _, _, w) := g in w.
Definition g_round (y : Z) (g : geom) : Z := let '(xa, ya, xb, yb, _) := g in exact_round xa ya xb yb y.
Definition g_fixed (y : Z) (g : geom) : Z := let '(xa, ya, xb, yb, _) := g in fixed_cross xa ya xb yb y.
(* the segment crosses sample row y (half-open: ya <= y < yb) *)
Definition g_live (y : Z) (g : geom) : bool := let '(_, ya, _, yb, _) := g in (ya <=? y) && (y <? yb).
Definition g_gap (y : Z) (g : geom) : Prop := let '(xa, ya, xb, yb, _) := g in gap_ok xa ya xb yb y.
Definition g_gapb (y : Z) (g : geom) : bool := let '(xa, ya, xb, yb, _) := g in gap_okb xa ya xb yb y.

Lemma g_gapb_true y g : g_gapb y g = true <-> g_gap y g.
Proof. destruct g as [[[[xa ya] xb] yb] w]. apply gap_okb_true. Qed.

(* exact-geometry winding sum and coverage of cell c on sample row y; gs = the segments crossing row y *)
Fixpoint wsum_exact (gs : list geom) (y c : Z) : Z :=
  match gs with
  | [] => 0
  | g :: t => (if g_round y g <=? c then g_wind g else 0) + wsum_exact t y c
  end.
Definition cov_exact (rule : winding_rule) (gs : list geom) (y c : Z) : bool :=
  inside rule (wsum_exact gs y c) && existsb (fun g => c <? g_round y g) gs.

(* the model's edge e is the segment g at row y (what lines_live_closed_form provides) *)
Definition edge_matches (y : Z) (e : aedge) (g : geom) : Prop :=
  g_live y g = true /\ e_wind e = g_wind g /\ e_fullx e = g_fixed y g.

Lemma edge_matches_rnd y e g : edge_matches y e g -> g_gap y g ->
  rnd (e_fullx e) = g_round y g.
Proof.
  destruct g as [[[[xa ya] xb] yb] w]. unfold edge_matches, g_live, g_wind, g_fixed, g_gap, g_round.
  intros (Hl & _ & Hf) Hg. rewrite Hf. apply rnd_is_exact_round; [lia|lia|exact Hg].
Qed.

(* ** cov_is_cov_exact ** (list-relational form) *)
Theorem cov_is_cov_exact rule y l gs c :
  Forall2 (edge_matches y) l gs ->
  (forall g, In g gs -> g_gap y g) ->
  cov rule l c = cov_exact rule gs y c.
Proof.
  intros HF. unfold cov, cov_exact.
  induction HF as [|e g l gs Hm HF IH]; intros Hgap; [reflexivity|].
  assert (Hr: rnd (e_fullx e) = g_round y g) by (apply edge_matches_rnd; [exact Hm|apply Hgap; left; reflexivity]).
  destruct Hm as (_ & Hw & _).
  specialize (IH (fun g' Hg' => Hgap g' (or_intror Hg'))).
  cbn [wsum wsum_exact existsb]. rewrite Hr, Hw.
  assert (E1: wsum l c = wsum_exact gs y c).
  { clear - HF Hgap. induction HF as [|e' g' l' gs' Hm' HF' IH']; [reflexivity|].
    cbn [wsum wsum_exact].
    rewrite (edge_matches_rnd y e' g' Hm' (Hgap g' (or_intror (or_introl eq_refl)))).
    destruct Hm' as (_ & Hw' & _). rewrite Hw'. rewrite IH'; [reflexivity|].
    intros g'' [Hg''|Hg'']; apply Hgap; [left; exact Hg''|right; right; exact Hg'']. }
  assert (E2: existsb (fun e0 => c <? rnd (e_fullx e0)) l = existsb (fun g0 => c <? g_round y g0) gs).
  { clear - HF Hgap. induction HF as [|e' g' l' gs' Hm' HF' IH']; [reflexivity|].
    cbn [existsb].
    rewrite (edge_matches_rnd y e' g' Hm' (Hgap g' (or_intror (or_introl eq_refl)))).
    rewrite IH'; [reflexivity|].
    intros g'' [Hg''|Hg'']; apply Hgap; [left; exact Hg''|right; right; exact Hg'']. }
  rewrite E1, E2. reflexivity.
Qed.

(* cov_exact does not depend on the order of the segments *)
Lemma wsum_exact_perm g1 g2 y c : Permutation g1 g2 -> wsum_exact g1 y c = wsum_exact g2 y c.
Proof. induction 1; cbn [wsum_exact]; lia. Qed.
Lemma cov_exact_perm rule g1 g2 y c : Permutation g1 g2 -> cov_exact rule g1 y c = cov_exact rule g2 y c.
Proof.
  intros H. unfold cov_exact. rewrite (wsum_exact_perm _ _ y c H), (existsb_perm _ _ _ H). reflexivity.
Qed.

(* every live edge list of a rasteriser that only received straight edges matches SOME list of segments
   (direct consequence of lines_live_closed_form; the concrete list is identified below) *)
Lemma lines_live_matches r y0 y : lines_inv r -> 0 <= y ->
  exists gs, Forall2 (edge_matches y) (live y0 (r_starts r) y) gs.
Proof.
  intros Hinv Hy0.
  assert (H: forall l, (forall e, In e l -> In e (live y0 (r_starts r) y)) ->
             exists gs, Forall2 (edge_matches y) l gs).
  { induction l as [|e t IH]; intros Hsub; [exists []; constructor|].
    destruct (IH (fun e' He' => Hsub e' (or_intror He'))) as (gs & Hgs).
    destruct (lines_live_closed_form r y0 y e Hinv (Hsub e (or_introl eq_refl)))
      as (xa & ya & xb & yb & wd & H1 & H2 & H3 & H4).
    exists ((xa, ya, xb, yb, wd) :: gs). constructor; [|exact Hgs].
    unfold edge_matches, g_live, g_wind, g_fixed, fixed_cross. repeat split; [lia|exact H3|exact H4]. }
  apply H. auto.
Qed.

(* ---- the concrete segment list of add_segs ---- *)

(* orientation done by add_edge: swap exchanges the end points and negates the winding *)
Definition seg_geom (g : seg) : geom :=
  if g_swap g then (g_ex g, g_ey g, g_sx g, g_sy g, -1) else (g_sx g, g_sy g, g_ex g, g_ey g, 1).

(* add_edge keeps the segment (pushes an entry on edge_starts) *)
Definition g_kept (h4 : Z) (g : geom) : bool :=
  let '(_, ya, _, yb, _) := g in
  negb ((yb <? 0) || (h4 <=? ya)) && negb (yb <=? ya) && negb (yb <=? Z.max ya 0).
Definition g_entry (g : geom) : Z * aedge :=
  let '(xa, ya, xb, yb, w) := g in (Z.max ya 0, line_at (line_edge xa ya xb yb w) (Z.max ya 0 - ya)).
(* the model's edge for segment g at sample row y *)
Definition g_edge (y : Z) (g : geom) : aedge :=
  let '(xa, ya, xb, yb, w) := g in line_at (line_edge xa ya xb yb w) (y - ya).

Lemma g_edge_matches y g : g_live y g = true -> edge_matches y (g_edge y g) g.
Proof.
  destruct g as [[[[xa ya] xb] yb] w]. intros H. split; [exact H|]. split; reflexivity.
Qed.

Lemma add_seg_starts r g :
  r_h4 (add_seg r g) = r_h4 r /\ r_top (add_seg r g) <= r_top r /\
  r_starts (add_seg r g) =
    (if g_kept (r_h4 r) (seg_geom g) then [g_entry (seg_geom g)] else []) ++ r_starts r /\
  (g_kept (r_h4 r) (seg_geom g) = true -> r_top (add_seg r g) * 4 <= g_y1 (seg_geom g)).
Proof.
  unfold add_seg. rewrite add_edge_line.
  assert (E: (if g_swap g then (g_ex g, g_ey g, g_sx g, g_sy g, -1) else (g_sx g, g_sy g, g_ex g, g_ey g, 1))
             = seg_geom g) by reflexivity.
  rewrite E. clear E.
  destruct (seg_geom g) as [[[[xa ya] xb] yb] wd].
  unfold g_kept, g_entry, g_y1.
  destruct ((yb <? 0) || (r_h4 r <=? ya)) eqn:E1.
  { cbn [negb andb app]. split; [reflexivity|]. split; [lia|]. split; [reflexivity|discriminate]. }
  destruct (yb <=? ya) eqn:E2.
  { cbn [negb andb app]. split; [reflexivity|]. split; [lia|]. split; [reflexivity|discriminate]. }
  cbv zeta. cbn [r_h4 r_top r_starts negb andb]. rewrite dot2_to_int_eq.
  destruct (yb <=? Z.max ya 0) eqn:E3; cbn [negb app].
  - split; [reflexivity|]. split; [lia|]. split; [reflexivity|discriminate].
  - split; [reflexivity|]. split; [lia|]. split; [reflexivity|]. intros _. lia.
Qed.

Lemma add_segs_starts gs : forall r,
  r_h4 (add_segs r gs) = r_h4 r /\ r_top (add_segs r gs) <= r_top r /\
  r_starts (add_segs r gs) =
    rev (map g_entry (filter (g_kept (r_h4 r)) (map seg_geom gs))) ++ r_starts r /\
  (forall g, In g (map seg_geom gs) -> g_kept (r_h4 r) g = true -> r_top (add_segs r gs) * 4 <= g_y1 g).
Proof.
  induction gs as [|g t IH]; intros r.
  - cbn [add_segs fold_left map filter rev app]. split; [reflexivity|]. split; [lia|]. split; [reflexivity|]. intros g [].
  - change (add_segs r (g :: t)) with (add_segs (add_seg r g) t).
    destruct (add_seg_starts r g) as (A1 & A2 & A3 & A4).
    destruct (IH (add_seg r g)) as (B1 & B2 & B3 & B4).
    rewrite A1 in B3, B4.
    split; [congruence|]. split; [lia|]. split.
    + rewrite B3, A3. cbn [map filter].
      destruct (g_kept (r_h4 r) (seg_geom g)); cbn [map rev app]; [|reflexivity].
      rewrite <- app_assoc. reflexivity.
    + intros g' [<-|Hg'] Hk; [specialize (A4 Hk); lia|apply B4; assumption].
Qed.

Lemma filter_rev' {A} (f : A -> bool) l : filter f (rev l) = rev (filter f l).
Proof.
  induction l as [|x t IH]; [reflexivity|]. cbn [rev filter]. rewrite filter_app, IH. cbn [filter].
  destruct (f x); cbn [rev]; [reflexivity|]. rewrite app_nil_r. reflexivity.
Qed.

Lemma live_rev y0 starts y : live y0 (rev starts) y = rev (live y0 starts y).
Proof. unfold live. rewrite filter_rev', map_rev. reflexivity. Qed.

(* the live list of row y, 0 <= y < h4, read off the kept segments: exactly the segments with ya <= y < yb,
   each at its closed-form position *)
Lemma live_entries y0 h4 y G : 0 <= y < h4 ->
  (forall g, In g G -> g_kept h4 g = true -> y0 <= Z.max (g_y1 g) 0) ->
  live y0 (map g_entry (filter (g_kept h4) G)) y = map (g_edge y) (filter (g_live y) G).
Proof.
  intros Hy. induction G as [|g t IH]; intros Htop; [reflexivity|].
  specialize (IH (fun g' Hg' => Htop g' (or_intror Hg'))).
  specialize (Htop g (or_introl eq_refl)).
  cbn [filter]. destruct g as [[[[xa ya] xb] yb] w].
  unfold g_kept, g_y1 in Htop. unfold g_kept at 1. unfold g_live at 1.
  destruct (negb ((yb <? 0) || (h4 <=? ya)) && negb (yb <=? ya) && negb (yb <=? Z.max ya 0)) eqn:Ek.
  - specialize (Htop eq_refl). cbn [map]. unfold live in *. cbn [filter].
    assert (Hp2: e_y2 (snd (g_entry (xa, ya, xb, yb, w))) = yb) by reflexivity.
    assert (Hp3: edge_at y (g_entry (xa, ya, xb, yb, w)) = g_edge y (xa, ya, xb, yb, w)).
    { unfold edge_at, g_entry, g_edge. cbn [fst snd]. rewrite line_at_line_at. f_equal. lia. }
    rewrite Hp2. change (fst (g_entry (xa, ya, xb, yb, w))) with (Z.max ya 0).
    replace ((y0 <=? Z.max ya 0) && (Z.max ya 0 <=? y) && (y <? yb)) with ((ya <=? y) && (y <? yb)) by lia.
    destruct ((ya <=? y) && (y <? yb)) eqn:El; [|exact IH].
    cbn [map]. rewrite IH, Hp3. reflexivity.
  - replace ((ya <=? y) && (y <? yb)) with false by lia. exact IH.
Qed.

Section Exact.
  Variable rule : winding_rule.
  Variables W H : Z.
  Variable gs : list seg.

  Let r := add_segs (rast_new W H) gs.
  Let b := get_bounds r.
  Let mx := x0 b * 4.
  Let my := y0 b * 4.
  Let bw := r_w b.
  Let bh := r_h b.
  Let G := map seg_geom gs.

  (* the model's live edge list on sample row y of the mask is, up to order (it is the reverse), the list of the
     oriented input segments crossing row y, each at its closed-form fixed-point position *)
  Lemma live_is_segments y : my <= y < my + bh * 4 ->
    live my (r_starts r) y = rev (map (g_edge y) (filter (g_live y) G)).
  Proof.
    intros Hy.
    destruct (rasterize_setup W H gs) as (_ & _ & Hh4 & _ & Emy & _ & Ebot).
    fold r in Hh4, Emy, Ebot. fold b in Emy, Ebot. fold my in Emy, Ebot. fold bh in Ebot.
    destruct (add_segs_starts gs (rast_new W H)) as (S1 & S2 & S3 & S4). fold r in S1, S2, S3, S4.
    cbn [rast_new r_h4 r_starts] in S1, S3, S4. rewrite app_nil_r in S3. fold G in S3, S4.
    rewrite S3, live_rev. f_equal.
    apply live_entries.
    - lia.
    - intros g Hg Hk. specialize (S4 g Hg Hk). lia.
  Qed.

  (* ** cov_is_cov_exact for the rasteriser ** *)
  Theorem cov_live_is_cov_exact y c : my <= y < my + bh * 4 ->
    (forall g, In g G -> g_live y g = true -> g_gap y g) ->
    cov rule (live my (r_starts r) y) c = cov_exact rule (filter (g_live y) G) y c.
  Proof.
    intros Hy Hgap. rewrite (live_is_segments y Hy).
    rewrite (cov_perm rule _ _ c (Permutation_sym (Permutation_rev _))).
    apply cov_is_cov_exact.
    - clear Hgap. induction G as [|g t IH]; cbn [filter]; [constructor|].
      destruct (g_live y g) eqn:E; [|exact IH]. cbn [map]. constructor; [|exact IH].
      apply g_edge_matches. exact E.
    - intros g Hg. apply filter_In in Hg. destruct Hg as [Hg Hl]. apply Hgap; assumption.
  Qed.

  (* gap hypothesis for all sample rows of the mask and all segments crossing them *)
  Definition gap_all (Gs : list geom) (ya yb : Z) : Prop :=
    forall y, ya <= y < yb -> forall g, In g Gs -> g_live y g = true -> g_gap y g.

  (* number of covered quarter cells of pixel (q,p) of the mask, exact geometry *)
  Definition Kpix_exact (Gs : list geom) (ox oy q p : Z) : Z :=
    count4 (fun c => cov_exact rule (filter (g_live (oy + 4 * q)) Gs) (oy + 4 * q) (c + ox)) p +
    count4 (fun c => cov_exact rule (filter (g_live (oy + 4 * q + 1)) Gs) (oy + 4 * q + 1) (c + ox)) p +
    count4 (fun c => cov_exact rule (filter (g_live (oy + 4 * q + 2)) Gs) (oy + 4 * q + 2) (c + ox)) p +
    count4 (fun c => cov_exact rule (filter (g_live (oy + 4 * q + 3)) Gs) (oy + 4 * q + 3) (c + ox)) p.

  Lemma count4_ext f g p : (forall c, f c = g c) -> count4 f p = count4 g p.
  Proof. intros E. unfold count4. rewrite !E. reflexivity. Qed.

  Theorem Kpix_is_Kpix_exact q p : 0 <= q < bh ->
    gap_all G my (my + bh * 4) ->
    Kpix rule my (r_starts r) mx my q p = Kpix_exact G mx my q p.
  Proof.
    intros Hq Hgap. unfold Kpix, Kpix_exact.
    assert (E: forall j, 0 <= j < 4 ->
      count4 (fun c => cov rule (live my (r_starts r) (my + 4 * q + j)) (c + mx)) p =
      count4 (fun c => cov_exact rule (filter (g_live (my + 4 * q + j)) G) (my + 4 * q + j) (c + mx)) p).
    { intros j Hj. apply count4_ext. intros c. apply cov_live_is_cov_exact; [lia|apply Hgap; lia]. }
    pose proof (E 0 ltac:(lia)) as E0. replace (my + 4 * q + 0) with (my + 4 * q) in E0 by lia.
    rewrite E0, (E 1), (E 2), (E 3) by lia. reflexivity.
  Qed.

  (* ** C01 with exact geometry **: every byte of the coverage mask is min(255,16K) or 16K-1, K = number of the 16
     quarter cells of the pixel that lie inside the polygon (winding rule) whose edge crossings with each sample
     row are the EXACT crossings rounded to the nearest quarter pixel *)
  Theorem rasterize_lines_coverage_exact :
    0 <= H -> 0 <= bw -> 0 <= bh ->
    gap_all G my (my + bh * 4) ->
    exists r' buf',
      rasterize blit_super rule r (maskbuf_new (x0 b) (y0 b) bw bh) = Ok (r', mk_maskbuf mx my bw buf') /\
      length buf' = Z.to_nat (bw * bh + 1) /\ bytes_ok buf' /\
      forall q p, 0 <= q < bh -> 0 <= p < bw ->
        let K := Kpix_exact G mx my q p in
        0 <= K <= 16 /\
        (zn buf' (q * bw + p) = Z.min 255 (16 * K) \/ zn buf' (q * bw + p) = 16 * K - 1).
  Proof.
    intros HH Hbw Hbh Hgap.
    destruct (rasterize_lines_coverage rule W H gs HH Hbw Hbh) as (r' & buf' & R1 & R2 & R3 & R4).
    exists r', buf'. split; [exact R1|]. split; [exact R2|]. split; [exact R3|].
    intros q p Hq Hp. specialize (R4 q p Hq Hp). cbv zeta in R4 |- *.
    fold r b mx my in R4. rewrite (Kpix_is_Kpix_exact q p Hq Hgap) in R4. exact R4.
  Qed.

  (* the aliased blitter (antialiasing off): a pixel is 255 exactly when the last quarter cell of its first sample
     row is inside the exact polygon with rounded crossings; only the rows my + 4q need the gap hypothesis *)
  Theorem rasterize_lines_coverage_aliased_exact :
    0 <= H -> 0 <= bw -> 0 <= bh ->
    (forall q, 0 <= q < bh -> forall g, In g G -> g_live (my + 4 * q) g = true -> g_gap (my + 4 * q) g) ->
    exists r' buf',
      rasterize blit_mask rule r (maskbuf_new (x0 b) (y0 b) bw bh) = Ok (r', mk_maskbuf mx my bw buf') /\
      length buf' = Z.to_nat (bw * bh + 1) /\
      forall q p, 0 <= q < bh -> 0 <= p < bw ->
        zn buf' (q * bw + p) =
          (if cov_exact rule (filter (g_live (my + 4 * q)) G) (my + 4 * q) (4 * p + 3 + mx) then 255 else 0).
  Proof.
    intros HH Hbw Hbh Hgap.
    destruct (rasterize_lines_coverage_aliased rule W H gs HH Hbw Hbh) as (r' & buf' & R1 & R2 & R4).
    exists r', buf'. split; [exact R1|]. split; [exact R2|].
    intros q p Hq Hp. specialize (R4 q p Hq Hp). fold r b mx my in R4.
    rewrite cov_live_is_cov_exact in R4; [exact R4|lia|apply Hgap; exact Hq].
  Qed.
End Exact.

Print Assumptions cov_is_cov_exact.
Print Assumptions cov_live_is_cov_exact.
Print Assumptions Kpix_is_Kpix_exact.
Print Assumptions rasterize_lines_coverage_exact.
Print Assumptions rasterize_lines_coverage_aliased_exact.

(* ---- a decidable check of gap_all over an explicit row range ---- *)
Definition gap_allb (Gs : list geom) (ya : Z) (n : nat) : bool :=
  forallb (fun i => forallb (fun g => negb (g_live (ya + Z.of_nat i) g) || g_gapb (ya + Z.of_nat i) g) Gs) (seq 0 n).

Lemma gap_allb_sound Gs ya n : gap_allb Gs ya n = true -> gap_all Gs ya (ya + Z.of_nat n).
Proof.
  unfold gap_allb, gap_all. intros Hb y Hy g Hg Hl.
  rewrite forallb_forall in Hb. specialize (Hb (Z.to_nat (y - ya))).
  rewrite in_seq in Hb. specialize (Hb ltac:(lia)).
  rewrite forallb_forall in Hb. specialize (Hb g Hg).
  replace (ya + Z.of_nat (Z.to_nat (y - ya))) with y in Hb by lia.
  rewrite Hl in Hb. cbn [negb orb] in Hb. apply g_gapb_true. exact Hb.
Qed.

(* ===== Part 4: non-vacuity ===== *)

(* the design-phase triangle: the gap hypothesis holds on all 16 sample rows, and K from cov_exact = Kpix *)
Example example_tri_exact :
  let r := add_segs (rast_new 4 4) example_tri in
  let G := map seg_geom example_tri in
  gap_allb G 0 16 = true /\
  map (fun q => map (fun p => Kpix_exact NonZero G 0 0 q p) [0; 1; 2; 3]) [0; 1; 2; 3]
    = [[3; 1; 0; 0]; [9; 16; 14; 3]; [5; 16; 6; 0]; [1; 6; 0; 0]] /\
  map (fun q => map (fun p => Kpix_exact NonZero G 0 0 q p) [0; 1; 2; 3]) [0; 1; 2; 3]
    = map (fun q => map (fun p => Kpix NonZero 0 (r_starts r) 0 0 q p) [0; 1; 2; 3]) [0; 1; 2; 3].
Proof. vm_compute. repeat split; reflexivity. Qed.

(* the exact-geometry theorem instantiated on the triangle: all hypotheses are dischargeable *)
Example example_tri_exact_theorem :
  let G := map seg_geom example_tri in
  exists r' buf',
    rasterize blit_super NonZero (add_segs (rast_new 4 4) example_tri) (maskbuf_new 0 0 4 4)
      = Ok (r', mk_maskbuf 0 0 4 buf') /\
    forall q p, 0 <= q < 4 -> 0 <= p < 4 ->
      let K := Kpix_exact NonZero G 0 0 q p in
      zn buf' (q * 4 + p) = Z.min 255 (16 * K) \/ zn buf' (q * 4 + p) = 16 * K - 1.
Proof.
  cbv zeta.
  assert (Hb: get_bounds (add_segs (rast_new 4 4) example_tri) = mkrect 0 0 4 4) by (vm_compute; reflexivity).
  pose proof (rasterize_lines_coverage_exact NonZero 4 4 example_tri) as T.
  rewrite Hb in T. cbn [x0 y0] in T. change (r_w (mkrect 0 0 4 4)) with 4 in T. change (r_h (mkrect 0 0 4 4)) with 4 in T.
  change (0 * 4) with 0 in T.
  destruct T as (r' & buf' & T1 & _ & _ & T4); [lia|lia|lia| |].
  - change (0 + 4 * 4) with (0 + Z.of_nat 16). apply gap_allb_sound. vm_compute. reflexivity.
  - exists r', buf'. split; [exact T1|]. intros q p Hq Hp. apply (T4 q p Hq Hp).
Qed.

(* a row where the gap hypothesis fails and the model's coverage differs from the exact-geometry one: the single
   segment (0,0)-(1,6) of tie_counterexample on row 3, cell 0, paired with a vertical edge at x = 8 *)
Example gap_needed :
  let G := [(0, 0, 1, 6, 1); (8, 0, 8, 6, -1)] in
  cov NonZero (map (g_edge 3) G) 0 = true /\ cov_exact NonZero G 3 0 = false.
Proof. vm_compute. split; reflexivity. Qed.
