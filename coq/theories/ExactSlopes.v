(* ExactSlopes.v - C01: polygons whose edge slopes are EXACT in 16.16 fixed point get the exact supersampling
   coverage with NO gap hypothesis.

   ExactCrossing.v proves  rnd (fixed_cross ..) = exact_round ..  under gap_ok, which is necessary in general because
   the slope Z.quot ((xb-xa)*16384) (yb-ya) is truncated.  When (yb-ya) divides (xb-xa)*16384 nothing is truncated:
   fixed_cross is 16384 times the exact rational crossing, and both sides are floor(N/d + 1/2).

   The chain of ExactCrossing.v is re-proved once through the generalised per-crossing hypothesis
       crossing_ok y g  :=  rnd (g_fixed y g) = g_round y g
   (the seam: the only use ExactCrossing.v makes of the gap).  Both gap_all and all_exact_slopes imply it, so the
   gap theorems of ExactCrossing.v and the exact-slope theorems below are corollaries of one theorem.
   Integers only.  Depends on Base.v, Rect.v, Raster.v, RasterProofs.v, ExactCrossing.v. *)
From Coq Require Import ZArith List Lia ZifyBool Permutation Bool.
Require Import RQ.Base RQ.Rect RQ.Raster RQ.RasterProofs RQ.ExactCrossing.
Import ListNotations.
Open Scope Z_scope.
Ltac Zify.zify_post_hook ::= Z.to_euclidean_division_equations.

(* ===== Part 1: an exact slope gives the exact crossing ===== *)

(* truncated division is exact when the remainder of the floor division is 0 *)
Lemma quot_exact_mul D d : d <> 0 -> D mod d = 0 -> Z.quot D d * d = D.
Proof.
  intros Hd Hm. apply Z.div_exact in Hm; [|exact Hd].
  set (q := D / d) in *. clearbody q. subst D.
  rewrite (Z.mul_comm d q), Z.quot_mul by exact Hd. reflexivity.
Qed.

(* with an exact slope the fixed-point crossing is 16384 * N / d, exactly; no range restriction on y *)
Lemma fixed_cross_exact xa ya xb yb y : ya < yb ->
  ((xb - xa) * 16384) mod (yb - ya) = 0 ->
  fixed_cross xa ya xb yb y * (yb - ya) = 16384 * (xa * (yb - ya) + (y - ya) * (xb - xa)).
Proof.
  intros Hy Hm. unfold fixed_cross.
  pose proof (quot_exact_mul ((xb - xa) * 16384) (yb - ya) ltac:(lia) Hm) as Hs.
  set (s := Z.quot ((xb - xa) * 16384) (yb - ya)) in *. clearbody s.
  replace ((xa * 16384 + (y - ya) * s) * (yb - ya)) with (xa * 16384 * (yb - ya) + (y - ya) * (s * (yb - ya))) by ring.
  rewrite Hs. ring.
Qed.

(* abstract form: F = 16384 * N / d exactly  ==>  rnd F = floor (N/d + 1/2) *)
Lemma rnd_exact_abstract d N F : 0 < d -> F * d = 16384 * N -> rnd F = (2 * N + d) / (2 * d).
Proof.
  intros Hd HF.
  pose proof (proj1 (round_half_spec N d _ Hd) eq_refl) as Hm.
  set (m := (2 * N + d) / (2 * d)) in *. clearbody m.
  apply (rnd_gap_abstract d N 0 F m Hd); lia.
Qed.

(* every y (also outside [ya, yb]) *)
Theorem rnd_is_exact_round_exact_slope_gen xa ya xb yb y : ya < yb ->
  ((xb - xa) * 16384) mod (yb - ya) = 0 ->
  rnd (fixed_cross xa ya xb yb y) = exact_round xa ya xb yb y.
Proof.
  intros Hy Hm. unfold exact_round. apply rnd_exact_abstract; [lia|].
  apply fixed_cross_exact; assumption.
Qed.

(* ** rnd_is_exact_round_exact_slope ** (the statement of the task) *)
Theorem rnd_is_exact_round_exact_slope xa ya xb yb y : ya < yb -> ya <= y <= yb ->
  ((xb - xa) * 16384) mod (yb - ya) = 0 ->
  rnd (fixed_cross xa ya xb yb y) = exact_round xa ya xb yb y.
Proof. intros Hy _ Hm. apply rnd_is_exact_round_exact_slope_gen; assumption. Qed.

Print Assumptions rnd_is_exact_round_exact_slope.

(* checks of the statement on examples, including negative slopes and ties *)
Example exact_slope_checks :
  (* slope 3/8, the tie X = 2.5 on row 5 (k = 4) rounds UP on both sides *)
  ((3 * 16384) mod 8 = 0 /\ rnd (fixed_cross 1 1 4 9 5) = 3 /\ exact_round 1 1 4 9 5 = 3) /\
  (* slope -3/8: X = 4 - 1.5 = 2.5 rounds up to 3 as well (Z.quot of a negative exact quotient = floor) *)
  ((-3 * 16384) mod 8 = 0 /\ rnd (fixed_cross 4 1 1 9 5) = 3 /\ exact_round 4 1 1 9 5 = 3) /\
  (* -45 degrees, negative coordinates *)
  (rnd (fixed_cross (-5) (-7) (-25) 13 2) = -14 /\ exact_round (-5) (-7) (-25) 13 2 = -14) /\
  (* a vertical edge 20000 sample rows long *)
  (rnd (fixed_cross 7 (-10000) 7 10000 9999) = 7 /\ exact_round 7 (-10000) 7 10000 9999 = 7).
Proof. vm_compute. repeat split; reflexivity. Qed.

(* ===== Part 2: the coverage chain through the generalised hypothesis crossing_ok ===== *)

(* the slope of the oriented segment g is exact in 16.16.  Segments with yb <= ya (horizontal, or given with the wrong
   orientation) are dropped by add_edge and are never live, so they are accepted too: this makes the hypothesis
   weaker, hence the theorems stronger, and lets rectilinear polygons qualify as they are. *)
Definition exact_slope (g : geom) : bool :=
  let '(xa, ya, xb, yb, _) := g in (yb <=? ya) || (((xb - xa) * 16384) mod (yb - ya) =? 0).
Definition all_exact_slopes (G : list geom) : bool := forallb exact_slope G.

Lemma exact_slope_spec xa ya xb yb w : ya < yb ->
  (exact_slope (xa, ya, xb, yb, w) = true <-> ((xb - xa) * 16384) mod (yb - ya) = 0).
Proof.
  intros Hy. unfold exact_slope. rewrite orb_true_iff, Z.leb_le, Z.eqb_eq. split; [intros [H|H]; [lia|exact H]|auto].
Qed.

(* the seam *)
Definition crossing_ok (y : Z) (g : geom) : Prop := rnd (g_fixed y g) = g_round y g.
Definition crossing_okb (y : Z) (g : geom) : bool := rnd (g_fixed y g) =? g_round y g.
Lemma crossing_okb_true y g : crossing_okb y g = true <-> crossing_ok y g.
Proof. unfold crossing_okb, crossing_ok. apply Z.eqb_eq. Qed.

(* crossing_ok on all sample rows [ya, yb) for all segments crossing them *)
Definition crossing_all (Gs : list geom) (ya yb : Z) : Prop :=
  forall y, ya <= y < yb -> forall g, In g Gs -> g_live y g = true -> crossing_ok y g.

(* both sufficient conditions imply the seam *)
Lemma gap_crossing_ok y g : g_live y g = true -> g_gap y g -> crossing_ok y g.
Proof.
  destruct g as [[[[xa ya] xb] yb] w]. unfold g_live, g_gap, crossing_ok, g_fixed, g_round.
  intros Hl Hg. apply rnd_is_exact_round; [lia|lia|exact Hg].
Qed.

Lemma exact_slope_crossing_ok y g : exact_slope g = true -> g_live y g = true -> crossing_ok y g.
Proof.
  destruct g as [[[[xa ya] xb] yb] w]. unfold g_live, crossing_ok, g_fixed, g_round.
  intros He Hl. assert (Hy: ya < yb) by lia.
  apply rnd_is_exact_round_exact_slope_gen; [exact Hy|]. apply (exact_slope_spec xa ya xb yb w Hy). exact He.
Qed.

Lemma gap_all_crossing_all Gs ya yb : gap_all Gs ya yb -> crossing_all Gs ya yb.
Proof. intros Hg y Hy g Hin Hl. apply gap_crossing_ok; [exact Hl|]. apply (Hg y Hy g Hin Hl). Qed.

Lemma all_exact_slopes_In Gs g : all_exact_slopes Gs = true -> In g Gs -> exact_slope g = true.
Proof. unfold all_exact_slopes. rewrite forallb_forall. intros H Hin. apply H. exact Hin. Qed.

Lemma all_exact_slopes_crossing_all Gs ya yb : all_exact_slopes Gs = true -> crossing_all Gs ya yb.
Proof.
  intros He y _ g Hin Hl. apply exact_slope_crossing_ok; [|exact Hl]. apply (all_exact_slopes_In Gs); assumption.
Qed.

(* mixed polygons: every segment has an exact slope, or satisfies the gap hypothesis on the rows it crosses *)
Definition exact_or_gap_all (Gs : list geom) (ya yb : Z) : Prop :=
  forall g, In g Gs -> exact_slope g = true \/ (forall y, ya <= y < yb -> g_live y g = true -> g_gap y g).

Lemma exact_or_gap_all_crossing_all Gs ya yb : exact_or_gap_all Gs ya yb -> crossing_all Gs ya yb.
Proof.
  intros Hm y Hy g Hin Hl. destruct (Hm g Hin) as [He|Hg].
  - apply exact_slope_crossing_ok; assumption.
  - apply gap_crossing_ok; [exact Hl|]. apply Hg; assumption.
Qed.

(* exact_slope does NOT imply gap_ok, so the exact-slope theorems cannot be obtained from the gap theorems of
   ExactCrossing.v: (a) an exact slope can hit a tie exactly (R = 0), where gap_ok fails as soon as y > ya;
   (b) gap_ok bounds the number of stepped rows (a vertical edge fails it after 8192 sample rows). *)
Example exact_slope_not_gap :
  (exact_slope (1, 1, 4, 9, 1) = true /\ g_live 5 (1, 1, 4, 9, 1) = true /\ g_gapb 5 (1, 1, 4, 9, 1) = false /\
   crossing_okb 5 (1, 1, 4, 9, 1) = true) /\
  (exact_slope (7, 0, 7, 10000, 1) = true /\ g_live 9000 (7, 0, 7, 10000, 1) = true /\
   g_gapb 9000 (7, 0, 7, 10000, 1) = false /\ crossing_okb 9000 (7, 0, 7, 10000, 1) = true).
Proof. vm_compute. repeat split; reflexivity. Qed.

Lemma exact_slope_not_gap_prop : exists g y, exact_slope g = true /\ g_live y g = true /\ ~ g_gap y g.
Proof.
  exists (1, 1, 4, 9, 1), 5. split; [reflexivity|]. split; [reflexivity|].
  intros Hg. apply g_gapb_true in Hg. vm_compute in Hg. discriminate.
Qed.

(* ---- the chain ---- *)

Lemma edge_matches_rnd_gen y e g : edge_matches y e g -> crossing_ok y g -> rnd (e_fullx e) = g_round y g.
Proof. intros (_ & _ & Hf) Hc. rewrite Hf. exact Hc. Qed.

Lemma wsum_is_wsum_exact y l gs c :
  Forall2 (edge_matches y) l gs -> (forall g, In g gs -> crossing_ok y g) -> wsum l c = wsum_exact gs y c.
Proof.
  intros HF. induction HF as [|e g l gs Hm HF IH]; intros Hc; [reflexivity|].
  cbn [wsum wsum_exact].
  rewrite (edge_matches_rnd_gen y e g Hm (Hc g (or_introl eq_refl))).
  destruct Hm as (_ & Hw & _). rewrite Hw, IH; [reflexivity|].
  intros g' Hg'. apply Hc. right. exact Hg'.
Qed.

Lemma existsb_is_existsb_exact y l gs c :
  Forall2 (edge_matches y) l gs -> (forall g, In g gs -> crossing_ok y g) ->
  existsb (fun e0 => c <? rnd (e_fullx e0)) l = existsb (fun g0 => c <? g_round y g0) gs.
Proof.
  intros HF. induction HF as [|e g l gs Hm HF IH]; intros Hc; [reflexivity|].
  cbn [existsb].
  rewrite (edge_matches_rnd_gen y e g Hm (Hc g (or_introl eq_refl))), IH; [reflexivity|].
  intros g' Hg'. apply Hc. right. exact Hg'.
Qed.

(* ** cov_is_cov_exact, generalised ** *)
Theorem cov_is_cov_exact_gen rule y l gs c :
  Forall2 (edge_matches y) l gs ->
  (forall g, In g gs -> crossing_ok y g) ->
  cov rule l c = cov_exact rule gs y c.
Proof.
  intros HF Hc. unfold cov, cov_exact.
  rewrite (wsum_is_wsum_exact y l gs c HF Hc), (existsb_is_existsb_exact y l gs c HF Hc). reflexivity.
Qed.

Lemma live_geoms_match y G :
  Forall2 (edge_matches y) (map (g_edge y) (filter (g_live y) G)) (filter (g_live y) G).
Proof.
  induction G as [|g t IH]; cbn [filter]; [constructor|].
  destruct (g_live y g) eqn:E; [|exact IH]. cbn [map]. constructor; [|exact IH].
  apply g_edge_matches. exact E.
Qed.

Section ExactGen.
  Variable rule : winding_rule.
  Variables W H : Z.
  Variable gs : list seg.

  Let r := add_segs (rast_new W H) gs.
  Let b := get_bounds r.
  Let mx := x0 b * 4.
  Let my := y0 b * 4.
  Let bw := r_w b.
  Let bh := r_h b.
  Let G := map seg_geom gs.

  (* ** cov_live_is_cov_exact, generalised ** *)
  Theorem cov_live_is_cov_exact_gen y c : my <= y < my + bh * 4 ->
    (forall g, In g G -> g_live y g = true -> crossing_ok y g) ->
    cov rule (live my (r_starts r) y) c = cov_exact rule (filter (g_live y) G) y c.
  Proof.
    intros Hy Hc. pose proof (live_is_segments W H gs y Hy) as E.
    change (live my (r_starts r) y = rev (map (g_edge y) (filter (g_live y) G))) in E. rewrite E.
    rewrite (cov_perm rule _ _ c (Permutation_sym (Permutation_rev _))).
    apply cov_is_cov_exact_gen; [apply live_geoms_match|].
    intros g Hg. apply filter_In in Hg. destruct Hg as [Hg Hl]. apply Hc; assumption.
  Qed.

  Theorem Kpix_is_Kpix_exact_gen q p : 0 <= q < bh ->
    crossing_all G my (my + bh * 4) ->
    Kpix rule my (r_starts r) mx my q p = Kpix_exact rule G mx my q p.
  Proof.
    intros Hq Hc. unfold Kpix, Kpix_exact.
    assert (E: forall j, 0 <= j < 4 ->
      count4 (fun c => cov rule (live my (r_starts r) (my + 4 * q + j)) (c + mx)) p =
      count4 (fun c => cov_exact rule (filter (g_live (my + 4 * q + j)) G) (my + 4 * q + j) (c + mx)) p).
    { intros j Hj. apply count4_ext. intros c. apply cov_live_is_cov_exact_gen; [lia|apply Hc; lia]. }
    pose proof (E 0 ltac:(lia)) as E0. replace (my + 4 * q + 0) with (my + 4 * q) in E0 by lia.
    rewrite E0, (E 1), (E 2), (E 3) by lia. reflexivity.
  Qed.

  (* ** C01 with exact geometry, generalised hypothesis ** *)
  Theorem rasterize_lines_coverage_crossing_ok :
    0 <= H -> 0 <= bw -> 0 <= bh ->
    crossing_all G my (my + bh * 4) ->
    exists r' buf',
      rasterize blit_super rule r (maskbuf_new (x0 b) (y0 b) bw bh) = Ok (r', mk_maskbuf mx my bw buf') /\
      length buf' = Z.to_nat (bw * bh + 1) /\ bytes_ok buf' /\
      forall q p, 0 <= q < bh -> 0 <= p < bw ->
        let K := Kpix_exact rule G mx my q p in
        0 <= K <= 16 /\
        (zn buf' (q * bw + p) = Z.min 255 (16 * K) \/ zn buf' (q * bw + p) = 16 * K - 1).
  Proof.
    intros HH Hbw Hbh Hc.
    destruct (rasterize_lines_coverage rule W H gs HH Hbw Hbh) as (r' & buf' & R1 & R2 & R3 & R4).
    exists r', buf'. split; [exact R1|]. split; [exact R2|]. split; [exact R3|].
    intros q p Hq Hp. specialize (R4 q p Hq Hp). cbv zeta in R4 |- *.
    fold r b mx my in R4. rewrite (Kpix_is_Kpix_exact_gen q p Hq Hc) in R4. exact R4.
  Qed.

  (* aliased blitter: only the first sample row my + 4q of each pixel row is used *)
  Theorem rasterize_lines_coverage_aliased_crossing_ok :
    0 <= H -> 0 <= bw -> 0 <= bh ->
    (forall q, 0 <= q < bh -> forall g, In g G -> g_live (my + 4 * q) g = true -> crossing_ok (my + 4 * q) g) ->
    exists r' buf',
      rasterize blit_mask rule r (maskbuf_new (x0 b) (y0 b) bw bh) = Ok (r', mk_maskbuf mx my bw buf') /\
      length buf' = Z.to_nat (bw * bh + 1) /\
      forall q p, 0 <= q < bh -> 0 <= p < bw ->
        zn buf' (q * bw + p) =
          (if cov_exact rule (filter (g_live (my + 4 * q)) G) (my + 4 * q) (4 * p + 3 + mx) then 255 else 0).
  Proof.
    intros HH Hbw Hbh Hc.
    destruct (rasterize_lines_coverage_aliased rule W H gs HH Hbw Hbh) as (r' & buf' & R1 & R2 & R4).
    exists r', buf'. split; [exact R1|]. split; [exact R2|].
    intros q p Hq Hp. specialize (R4 q p Hq Hp). fold r b mx my in R4.
    rewrite cov_live_is_cov_exact_gen in R4; [exact R4|lia|apply Hc; exact Hq].
  Qed.

  (* ---- corollary 1: exact slopes, NO gap hypothesis and no bound on the heights of the segments ---- *)

  (* ** rasterize_lines_coverage_exact_slopes ** *)
  Theorem rasterize_lines_coverage_exact_slopes :
    0 <= H -> 0 <= bw -> 0 <= bh ->
    all_exact_slopes G = true ->
    exists r' buf',
      rasterize blit_super rule r (maskbuf_new (x0 b) (y0 b) bw bh) = Ok (r', mk_maskbuf mx my bw buf') /\
      length buf' = Z.to_nat (bw * bh + 1) /\ bytes_ok buf' /\
      forall q p, 0 <= q < bh -> 0 <= p < bw ->
        let K := Kpix_exact rule G mx my q p in
        0 <= K <= 16 /\
        (zn buf' (q * bw + p) = Z.min 255 (16 * K) \/ zn buf' (q * bw + p) = 16 * K - 1).
  Proof.
    intros HH Hbw Hbh He. apply rasterize_lines_coverage_crossing_ok; try assumption.
    apply all_exact_slopes_crossing_all. exact He.
  Qed.

  (* ** rasterize_lines_coverage_aliased_exact_slopes ** *)
  Theorem rasterize_lines_coverage_aliased_exact_slopes :
    0 <= H -> 0 <= bw -> 0 <= bh ->
    all_exact_slopes G = true ->
    exists r' buf',
      rasterize blit_mask rule r (maskbuf_new (x0 b) (y0 b) bw bh) = Ok (r', mk_maskbuf mx my bw buf') /\
      length buf' = Z.to_nat (bw * bh + 1) /\
      forall q p, 0 <= q < bh -> 0 <= p < bw ->
        zn buf' (q * bw + p) =
          (if cov_exact rule (filter (g_live (my + 4 * q)) G) (my + 4 * q) (4 * p + 3 + mx) then 255 else 0).
  Proof.
    intros HH Hbw Hbh He. apply rasterize_lines_coverage_aliased_crossing_ok; try assumption.
    intros q _ g Hin Hl. apply exact_slope_crossing_ok; [|exact Hl]. apply (all_exact_slopes_In G); assumption.
  Qed.

  (* ---- corollary 2: the gap theorems of ExactCrossing.v, re-derived from the same general theorem ---- *)

  Theorem rasterize_lines_coverage_exact_via_crossing_ok :
    0 <= H -> 0 <= bw -> 0 <= bh ->
    gap_all G my (my + bh * 4) ->
    exists r' buf',
      rasterize blit_super rule r (maskbuf_new (x0 b) (y0 b) bw bh) = Ok (r', mk_maskbuf mx my bw buf') /\
      length buf' = Z.to_nat (bw * bh + 1) /\ bytes_ok buf' /\
      forall q p, 0 <= q < bh -> 0 <= p < bw ->
        let K := Kpix_exact rule G mx my q p in
        0 <= K <= 16 /\
        (zn buf' (q * bw + p) = Z.min 255 (16 * K) \/ zn buf' (q * bw + p) = 16 * K - 1).
  Proof.
    intros HH Hbw Hbh Hg. apply rasterize_lines_coverage_crossing_ok; try assumption.
    apply gap_all_crossing_all. exact Hg.
  Qed.

  Theorem rasterize_lines_coverage_aliased_exact_via_crossing_ok :
    0 <= H -> 0 <= bw -> 0 <= bh ->
    (forall q, 0 <= q < bh -> forall g, In g G -> g_live (my + 4 * q) g = true -> g_gap (my + 4 * q) g) ->
    exists r' buf',
      rasterize blit_mask rule r (maskbuf_new (x0 b) (y0 b) bw bh) = Ok (r', mk_maskbuf mx my bw buf') /\
      length buf' = Z.to_nat (bw * bh + 1) /\
      forall q p, 0 <= q < bh -> 0 <= p < bw ->
        zn buf' (q * bw + p) =
          (if cov_exact rule (filter (g_live (my + 4 * q)) G) (my + 4 * q) (4 * p + 3 + mx) then 255 else 0).
  Proof.
    intros HH Hbw Hbh Hg. apply rasterize_lines_coverage_aliased_crossing_ok; try assumption.
    intros q Hq g Hin Hl. apply gap_crossing_ok; [exact Hl|]. apply (Hg q Hq g Hin Hl).
  Qed.

  (* ---- corollary 3: mixed polygons (some edges exact, the others with the gap hypothesis) ---- *)
  Theorem rasterize_lines_coverage_exact_or_gap :
    0 <= H -> 0 <= bw -> 0 <= bh ->
    exact_or_gap_all G my (my + bh * 4) ->
    exists r' buf',
      rasterize blit_super rule r (maskbuf_new (x0 b) (y0 b) bw bh) = Ok (r', mk_maskbuf mx my bw buf') /\
      length buf' = Z.to_nat (bw * bh + 1) /\ bytes_ok buf' /\
      forall q p, 0 <= q < bh -> 0 <= p < bw ->
        let K := Kpix_exact rule G mx my q p in
        0 <= K <= 16 /\
        (zn buf' (q * bw + p) = Z.min 255 (16 * K) \/ zn buf' (q * bw + p) = 16 * K - 1).
  Proof.
    intros HH Hbw Hbh Hm. apply rasterize_lines_coverage_crossing_ok; try assumption.
    apply exact_or_gap_all_crossing_all. exact Hm.
  Qed.
End ExactGen.

Print Assumptions cov_is_cov_exact_gen.
Print Assumptions cov_live_is_cov_exact_gen.
Print Assumptions Kpix_is_Kpix_exact_gen.
Print Assumptions rasterize_lines_coverage_crossing_ok.
Print Assumptions rasterize_lines_coverage_aliased_crossing_ok.
Print Assumptions rasterize_lines_coverage_exact_slopes.
Print Assumptions rasterize_lines_coverage_aliased_exact_slopes.
Print Assumptions rasterize_lines_coverage_exact_via_crossing_ok.
Print Assumptions rasterize_lines_coverage_aliased_exact_via_crossing_ok.
Print Assumptions rasterize_lines_coverage_exact_or_gap.

(* a decidable check of crossing_all over an explicit row range (the weakest hypothesis, checkable by vm_compute
   for any concrete polygon) *)
Definition crossing_allb (Gs : list geom) (ya : Z) (n : nat) : bool :=
  forallb (fun i => forallb (fun g => negb (g_live (ya + Z.of_nat i) g) || crossing_okb (ya + Z.of_nat i) g) Gs)
          (seq 0 n).

Lemma crossing_allb_sound Gs ya n : crossing_allb Gs ya n = true -> crossing_all Gs ya (ya + Z.of_nat n).
Proof.
  unfold crossing_allb, crossing_all. intros Hb y Hy g Hg Hl.
  rewrite forallb_forall in Hb. specialize (Hb (Z.to_nat (y - ya))).
  rewrite in_seq in Hb. specialize (Hb ltac:(lia)).
  rewrite forallb_forall in Hb. specialize (Hb g Hg).
  replace (ya + Z.of_nat (Z.to_nat (y - ya))) with y in Hb by lia.
  rewrite Hl in Hb. cbn [negb orb] in Hb. apply crossing_okb_true. exact Hb.
Qed.

(* ===== Part 3: the polygons users draw most ===== *)

(* --- on oriented segments --- *)
Definition g_rectilinear (g : geom) : bool := let '(xa, ya, xb, yb, _) := g in (xa =? xb) || (ya =? yb).
Definition g_diagonal45 (g : geom) : bool := let '(xa, ya, xb, yb, _) := g in Z.abs (xb - xa) =? Z.abs (yb - ya).
(* the height in sample rows divides 16384: in particular every power of two up to 16384 (4096 pixels) *)
Definition g_dy_divides (g : geom) : bool := let '(_, ya, _, yb, _) := g in 16384 mod (yb - ya) =? 0.

Lemma g_rectilinear_exact g : g_rectilinear g = true -> exact_slope g = true.
Proof.
  destruct g as [[[[xa ya] xb] yb] w]. unfold g_rectilinear, exact_slope.
  rewrite !orb_true_iff, Z.leb_le, !Z.eqb_eq. intros [E|E]; [right|left; lia].
  subst xb. replace ((xa - xa) * 16384) with 0 by ring. apply Zmod_0_l.
Qed.

Lemma g_diagonal45_exact g : g_diagonal45 g = true -> exact_slope g = true.
Proof.
  destruct g as [[[[xa ya] xb] yb] w]. unfold g_diagonal45, exact_slope.
  rewrite orb_true_iff, Z.leb_le, !Z.eqb_eq. intros E.
  destruct (Z_le_gt_dec yb ya) as [Hle|Hgt]; [left; exact Hle|right].
  assert (Hd: yb - ya <> 0) by lia.
  destruct (Z_le_gt_dec 0 (xb - xa)) as [Hx|Hx].
  - replace ((xb - xa) * 16384) with (16384 * (yb - ya)) by lia. apply Z.mod_mul. exact Hd.
  - replace ((xb - xa) * 16384) with ((-16384) * (yb - ya)) by lia. apply Z.mod_mul. exact Hd.
Qed.

Lemma g_dy_divides_exact g : g_dy_divides g = true -> exact_slope g = true.
Proof.
  destruct g as [[[[xa ya] xb] yb] w]. unfold g_dy_divides, exact_slope.
  rewrite orb_true_iff, Z.leb_le, !Z.eqb_eq. intros E.
  destruct (Z_le_gt_dec yb ya) as [Hle|Hgt]; [left; exact Hle|right].
  assert (Hd: yb - ya <> 0) by lia.
  apply Z.div_exact in E; [|exact Hd]. rewrite E.
  replace ((xb - xa) * ((yb - ya) * (16384 / (yb - ya)))) with ((xb - xa) * (16384 / (yb - ya)) * (yb - ya)) by ring.
  apply Z.mod_mul. exact Hd.
Qed.

(* powers of two up to 2^14 divide 16384 *)
Lemma g_dy_pow2_divides xa ya xb yb w n : 0 <= n <= 14 -> yb - ya = 2 ^ n -> g_dy_divides (xa, ya, xb, yb, w) = true.
Proof.
  intros Hn E. unfold g_dy_divides. rewrite E. apply Z.eqb_eq.
  replace 16384 with (2 ^ (14 - n) * 2 ^ n).
  - apply Z.mod_mul. apply Z.pow_nonzero; lia.
  - rewrite <- Z.pow_add_r by lia. replace (14 - n + n) with 14 by lia. reflexivity.
Qed.

(* characterisation: the slope dx/dy is exact in 16.16 iff its REDUCED denominator dy / gcd(dx,dy) divides 16384,
   i.e. is a power of two <= 2^14 (slopes 1/2, 3/8, 5/16, ..., k/16384) *)
Lemma divides_reduced dx d : 0 < d -> ((d | dx * 16384) <-> (d / Z.gcd dx d | 16384)).
Proof.
  intros Hd.
  pose proof (Z.gcd_nonneg dx d) as Hg0.
  assert (Hg: Z.gcd dx d <> 0) by (intro E; apply Z.gcd_eq_0_r in E; lia).
  pose proof (Z.gcd_div_gcd dx d _ Hg eq_refl) as Hab.
  destruct (Z.gcd_divide_l dx d) as [a Ha]. destruct (Z.gcd_divide_r dx d) as [b Hb].
  set (g := Z.gcd dx d) in *. clearbody g.
  rewrite Ha, Hb, !Z.div_mul in Hab by exact Hg. rewrite Hb at 2. rewrite Z.div_mul by exact Hg.
  subst dx d.
  replace (a * g * 16384) with (g * (a * 16384)) by ring. rewrite (Z.mul_comm b g).
  rewrite Z.mul_divide_cancel_l by exact Hg.
  split.
  - intros H. apply (Z.gauss b a 16384 H). rewrite Z.gcd_comm. exact Hab.
  - intros H. apply Z.divide_mul_r. exact H.
Qed.

Theorem exact_slope_iff_reduced xa ya xb yb w : ya < yb ->
  (exact_slope (xa, ya, xb, yb, w) = true <-> ((yb - ya) / Z.gcd (xb - xa) (yb - ya) | 16384)).
Proof.
  intros Hy. rewrite (exact_slope_spec xa ya xb yb w Hy), Z.mod_divide by lia. apply divides_reduced. lia.
Qed.

(* --- on the segments as given to add_edge (either orientation) --- *)
Definition seg_rectilinear (s : seg) : bool := (g_sx s =? g_ex s) || (g_sy s =? g_ey s).
Definition seg_diagonal45 (s : seg) : bool := Z.abs (g_ex s - g_sx s) =? Z.abs (g_ey s - g_sy s).
Definition seg_dy_divides (s : seg) : bool := 16384 mod Z.abs (g_ey s - g_sy s) =? 0.

(* every edge vertical or horizontal *)
Definition rectilinear (gs : list seg) : bool := forallb seg_rectilinear gs.
(* every edge at 45 degrees: |dx| = |dy| *)
Definition diagonal45 (gs : list seg) : bool := forallb seg_diagonal45 gs.
(* every edge vertical, horizontal or at 45 degrees *)
Definition octilinear (gs : list seg) : bool := forallb (fun s => seg_rectilinear s || seg_diagonal45 s) gs.
(* every edge vertical, horizontal, at 45 degrees, or of a height (in quarter rows) that divides 16384 *)
Definition easy_slopes (gs : list seg) : bool :=
  forallb (fun s => seg_rectilinear s || seg_diagonal45 s || seg_dy_divides s) gs.

Lemma seg_rectilinear_exact s : seg_rectilinear s = true -> exact_slope (seg_geom s) = true.
Proof.
  intros Hs. apply g_rectilinear_exact. revert Hs. unfold seg_rectilinear, seg_geom, g_rectilinear.
  destruct (g_swap s); rewrite !orb_true_iff, !Z.eqb_eq; lia.
Qed.

Lemma seg_diagonal45_exact s : seg_diagonal45 s = true -> exact_slope (seg_geom s) = true.
Proof.
  intros Hs. apply g_diagonal45_exact. revert Hs. unfold seg_diagonal45, seg_geom, g_diagonal45.
  destruct (g_swap s); rewrite !Z.eqb_eq; lia.
Qed.

Lemma seg_dy_divides_exact s : seg_dy_divides s = true -> exact_slope (seg_geom s) = true.
Proof.
  unfold seg_dy_divides. rewrite Z.eqb_eq. intros Hs.
  assert (Hg: forall xa ya xb yb w, Z.abs (yb - ya) = Z.abs (g_ey s - g_sy s) ->
              exact_slope (xa, ya, xb, yb, w) = true).
  { intros xa ya xb yb w Ha. destruct (Z_le_gt_dec yb ya) as [Hle|Hgt].
    - unfold exact_slope. apply orb_true_iff. left. apply Z.leb_le. exact Hle.
    - apply g_dy_divides_exact. unfold g_dy_divides. apply Z.eqb_eq.
      rewrite <- Ha in Hs. rewrite Z.abs_eq in Hs by lia. exact Hs. }
  unfold seg_geom. destruct (g_swap s); apply Hg; lia.
Qed.

Lemma forallb_exact_slopes (f : seg -> bool) gs :
  (forall s, f s = true -> exact_slope (seg_geom s) = true) ->
  forallb f gs = true -> all_exact_slopes (map seg_geom gs) = true.
Proof.
  intros Hf Hall. unfold all_exact_slopes. rewrite forallb_forall in *.
  intros g Hg. apply in_map_iff in Hg. destruct Hg as (s & <- & Hs). apply Hf, Hall, Hs.
Qed.

Theorem rectilinear_all_exact_slopes gs : rectilinear gs = true -> all_exact_slopes (map seg_geom gs) = true.
Proof. apply forallb_exact_slopes. exact seg_rectilinear_exact. Qed.

Theorem diagonal45_all_exact_slopes gs : diagonal45 gs = true -> all_exact_slopes (map seg_geom gs) = true.
Proof. apply forallb_exact_slopes. exact seg_diagonal45_exact. Qed.

Theorem octilinear_all_exact_slopes gs : octilinear gs = true -> all_exact_slopes (map seg_geom gs) = true.
Proof.
  apply forallb_exact_slopes. intros s Hs. apply orb_true_iff in Hs.
  destruct Hs as [Hs|Hs]; [apply seg_rectilinear_exact|apply seg_diagonal45_exact]; exact Hs.
Qed.

Theorem easy_slopes_all_exact_slopes gs : easy_slopes gs = true -> all_exact_slopes (map seg_geom gs) = true.
Proof.
  apply forallb_exact_slopes. intros s Hs. rewrite !orb_true_iff in Hs.
  destruct Hs as [[Hs|Hs]|Hs];
    [apply seg_rectilinear_exact|apply seg_diagonal45_exact|apply seg_dy_divides_exact]; exact Hs.
Qed.

Lemma rectilinear_octilinear gs : rectilinear gs = true -> octilinear gs = true.
Proof.
  unfold rectilinear, octilinear. rewrite !forallb_forall. intros Hr s Hs. rewrite (Hr s Hs). reflexivity.
Qed.
Lemma diagonal45_octilinear gs : diagonal45 gs = true -> octilinear gs = true.
Proof.
  unfold diagonal45, octilinear. rewrite !forallb_forall. intros Hr s Hs. rewrite (Hr s Hs). apply orb_true_r.
Qed.
Lemma octilinear_easy gs : octilinear gs = true -> easy_slopes gs = true.
Proof.
  unfold octilinear, easy_slopes. rewrite !forallb_forall. intros Hr s Hs. rewrite (Hr s Hs). reflexivity.
Qed.

(* the coverage theorems for these classes: NO hypothesis besides the shape of the polygon *)
Section Shapes.
  Variable rule : winding_rule.
  Variables W H : Z.
  Variable gs : list seg.

  Let r := add_segs (rast_new W H) gs.
  Let b := get_bounds r.
  Let mx := x0 b * 4.
  Let my := y0 b * 4.
  Let bw := r_w b.
  Let bh := r_h b.
  Let G := map seg_geom gs.

  Theorem rasterize_lines_coverage_easy_slopes :
    0 <= H -> 0 <= bw -> 0 <= bh ->
    easy_slopes gs = true ->
    exists r' buf',
      rasterize blit_super rule r (maskbuf_new (x0 b) (y0 b) bw bh) = Ok (r', mk_maskbuf mx my bw buf') /\
      length buf' = Z.to_nat (bw * bh + 1) /\ bytes_ok buf' /\
      forall q p, 0 <= q < bh -> 0 <= p < bw ->
        let K := Kpix_exact rule G mx my q p in
        0 <= K <= 16 /\
        (zn buf' (q * bw + p) = Z.min 255 (16 * K) \/ zn buf' (q * bw + p) = 16 * K - 1).
  Proof.
    intros HH Hbw Hbh Hs. apply rasterize_lines_coverage_exact_slopes; try assumption.
    apply easy_slopes_all_exact_slopes. exact Hs.
  Qed.

  Theorem rasterize_lines_coverage_aliased_easy_slopes :
    0 <= H -> 0 <= bw -> 0 <= bh ->
    easy_slopes gs = true ->
    exists r' buf',
      rasterize blit_mask rule r (maskbuf_new (x0 b) (y0 b) bw bh) = Ok (r', mk_maskbuf mx my bw buf') /\
      length buf' = Z.to_nat (bw * bh + 1) /\
      forall q p, 0 <= q < bh -> 0 <= p < bw ->
        zn buf' (q * bw + p) =
          (if cov_exact rule (filter (g_live (my + 4 * q)) G) (my + 4 * q) (4 * p + 3 + mx) then 255 else 0).
  Proof.
    intros HH Hbw Hbh Hs. apply rasterize_lines_coverage_aliased_exact_slopes; try assumption.
    apply easy_slopes_all_exact_slopes. exact Hs.
  Qed.

  Theorem rasterize_lines_coverage_rectilinear :
    0 <= H -> 0 <= bw -> 0 <= bh ->
    rectilinear gs = true ->
    exists r' buf',
      rasterize blit_super rule r (maskbuf_new (x0 b) (y0 b) bw bh) = Ok (r', mk_maskbuf mx my bw buf') /\
      length buf' = Z.to_nat (bw * bh + 1) /\ bytes_ok buf' /\
      forall q p, 0 <= q < bh -> 0 <= p < bw ->
        let K := Kpix_exact rule G mx my q p in
        0 <= K <= 16 /\
        (zn buf' (q * bw + p) = Z.min 255 (16 * K) \/ zn buf' (q * bw + p) = 16 * K - 1).
  Proof.
    intros HH Hbw Hbh Hs. apply rasterize_lines_coverage_easy_slopes; try assumption.
    apply octilinear_easy, rectilinear_octilinear, Hs.
  Qed.

  Theorem rasterize_lines_coverage_diagonal45 :
    0 <= H -> 0 <= bw -> 0 <= bh ->
    diagonal45 gs = true ->
    exists r' buf',
      rasterize blit_super rule r (maskbuf_new (x0 b) (y0 b) bw bh) = Ok (r', mk_maskbuf mx my bw buf') /\
      length buf' = Z.to_nat (bw * bh + 1) /\ bytes_ok buf' /\
      forall q p, 0 <= q < bh -> 0 <= p < bw ->
        let K := Kpix_exact rule G mx my q p in
        0 <= K <= 16 /\
        (zn buf' (q * bw + p) = Z.min 255 (16 * K) \/ zn buf' (q * bw + p) = 16 * K - 1).
  Proof.
    intros HH Hbw Hbh Hs. apply rasterize_lines_coverage_easy_slopes; try assumption.
    apply octilinear_easy, diagonal45_octilinear, Hs.
  Qed.

  Theorem rasterize_lines_coverage_octilinear :
    0 <= H -> 0 <= bw -> 0 <= bh ->
    octilinear gs = true ->
    exists r' buf',
      rasterize blit_super rule r (maskbuf_new (x0 b) (y0 b) bw bh) = Ok (r', mk_maskbuf mx my bw buf') /\
      length buf' = Z.to_nat (bw * bh + 1) /\ bytes_ok buf' /\
      forall q p, 0 <= q < bh -> 0 <= p < bw ->
        let K := Kpix_exact rule G mx my q p in
        0 <= K <= 16 /\
        (zn buf' (q * bw + p) = Z.min 255 (16 * K) \/ zn buf' (q * bw + p) = 16 * K - 1).
  Proof.
    intros HH Hbw Hbh Hs. apply rasterize_lines_coverage_easy_slopes; try assumption.
    apply octilinear_easy, Hs.
  Qed.
End Shapes.

Print Assumptions exact_slope_iff_reduced.
Print Assumptions rectilinear_all_exact_slopes.
Print Assumptions diagonal45_all_exact_slopes.
Print Assumptions octilinear_all_exact_slopes.
Print Assumptions easy_slopes_all_exact_slopes.
Print Assumptions rasterize_lines_coverage_easy_slopes.
Print Assumptions rasterize_lines_coverage_aliased_easy_slopes.
Print Assumptions rasterize_lines_coverage_rectilinear.
Print Assumptions rasterize_lines_coverage_diagonal45.
Print Assumptions rasterize_lines_coverage_octilinear.

(* ===== Part 4: non-vacuity ===== *)

(* the three polygons, in quarter-pixel coordinates, on a 4x4 surface *)
(* an axis-aligned rectangle off the pixel grid: (0.25,0.5)-(3.5,2.75) *)
Definition ex_rect : list seg :=
  [mk_seg false 1 2 14 2; mk_seg false 14 2 14 11; mk_seg false 14 11 1 11; mk_seg true 1 11 1 2].
(* a diamond with 45-degree edges: (2,0.5) (3.5,2) (2,3.5) (0.5,2) *)
Definition ex_diamond : list seg :=
  [mk_seg false 8 2 14 8; mk_seg false 14 8 8 14; mk_seg true 8 14 2 8; mk_seg true 2 8 8 2].
(* a parallelogram with two edges of slope dx/dy = 3/8: (0.25,0.25) (1,2.25) (3.25,2.25) (2.5,0.25); its slanted
   edges hit the tie X = 2.5 (resp. 11.5) on sample row 5, where the gap hypothesis of ExactCrossing.v fails *)
Definition ex_slope38 : list seg :=
  [mk_seg false 1 1 4 9; mk_seg false 4 9 13 9; mk_seg true 13 9 10 1; mk_seg false 10 1 1 1].

(* the model's mask bytes of a polygon on a WxH surface, mask rectangle (bx,by,bw,bh) *)
Definition mask_bytes (blit : maskbuf -> Z -> Z -> Z -> result maskbuf) (W H : Z) (gs : list seg) (bx by_ bw bh : Z) : list Z :=
  match rasterize blit NonZero (add_segs (rast_new W H) gs) (maskbuf_new bx by_ bw bh) with
  | Ok (_, m) => m_buf m | Err _ => [] end.

Definition K_table (gs : list seg) (rows cols : list Z) : list (list Z) :=
  map (fun q => map (fun p => Kpix_exact NonZero (map seg_geom gs) 0 0 q p) cols) rows.

(* bytes agree with the table of K: every byte is min(255,16K) or 16K-1 *)
Definition bytes_match (bytes : list Z) (bw : Z) (gs : list seg) (rows cols : list Z) : bool :=
  forallb (fun q => forallb (fun p =>
    let K := Kpix_exact NonZero (map seg_geom gs) 0 0 q p in
    (zn bytes (q * bw + p) =? Z.min 255 (16 * K)) || (zn bytes (q * bw + p) =? 16 * K - 1)) cols) rows.

(* (a) direct computation: hypotheses of the theorems, the model's bytes, the exact-geometry K, and their agreement *)
Example ex_rect_computed :
  get_bounds (add_segs (rast_new 4 4) ex_rect) = mkrect 0 0 4 3 /\
  rectilinear ex_rect = true /\ all_exact_slopes (map seg_geom ex_rect) = true /\
  mask_bytes blit_super 4 4 ex_rect 0 0 4 3 = [96; 127; 127; 64;  192; 255; 255; 128;  144; 192; 192; 96;  0] /\
  K_table ex_rect [0; 1; 2] [0; 1; 2; 3] = [[6; 8; 8; 4]; [12; 16; 16; 8]; [9; 12; 12; 6]] /\
  bytes_match (mask_bytes blit_super 4 4 ex_rect 0 0 4 3) 4 ex_rect [0; 1; 2] [0; 1; 2; 3] = true /\
  mask_bytes blit_mask 4 4 ex_rect 0 0 4 3 = [0; 0; 0; 0;  255; 255; 255; 0;  255; 255; 255; 0;  0].
Proof. vm_compute. repeat split; reflexivity. Qed.

Example ex_diamond_computed :
  get_bounds (add_segs (rast_new 4 4) ex_diamond) = mkrect 0 0 4 4 /\
  diagonal45 ex_diamond = true /\ all_exact_slopes (map seg_geom ex_diamond) = true /\
  mask_bytes blit_super 4 4 ex_diamond 0 0 4 4
    = [0; 16; 16; 0;  16; 207; 207; 16;  48; 240; 240; 48;  0; 48; 48; 0;  0] /\
  K_table ex_diamond [0; 1; 2; 3] [0; 1; 2; 3] = [[0; 1; 1; 0]; [1; 13; 13; 1]; [3; 15; 15; 3]; [0; 3; 3; 0]] /\
  bytes_match (mask_bytes blit_super 4 4 ex_diamond 0 0 4 4) 4 ex_diamond [0; 1; 2; 3] [0; 1; 2; 3] = true /\
  mask_bytes blit_mask 4 4 ex_diamond 0 0 4 4 = [0; 0; 0; 0;  0; 255; 0; 0;  255; 255; 255; 0;  0; 255; 0; 0;  0].
Proof. vm_compute. repeat split; reflexivity. Qed.

(* here the gap hypothesis of ExactCrossing.v FAILS (gap_allb = false: the ties on row 5), so
   rasterize_lines_coverage_exact does not apply, but the slopes are exact *)
Example ex_slope38_computed :
  get_bounds (add_segs (rast_new 4 4) ex_slope38) = mkrect 0 0 4 3 /\
  easy_slopes ex_slope38 = true /\ octilinear ex_slope38 = false /\
  all_exact_slopes (map seg_geom ex_slope38) = true /\
  gap_allb (map seg_geom ex_slope38) 0 12 = false /\ crossing_allb (map seg_geom ex_slope38) 0 12 = true /\
  mask_bytes blit_super 4 4 ex_slope38 0 0 4 3 = [128; 191; 112; 0;  80; 255; 239; 0;  0; 64; 64; 16;  0] /\
  K_table ex_slope38 [0; 1; 2] [0; 1; 2; 3] = [[8; 12; 7; 0]; [5; 16; 15; 0]; [0; 4; 4; 1]] /\
  bytes_match (mask_bytes blit_super 4 4 ex_slope38 0 0 4 3) 4 ex_slope38 [0; 1; 2] [0; 1; 2; 3] = true /\
  mask_bytes blit_mask 4 4 ex_slope38 0 0 4 3 = [0; 0; 0; 0;  255; 255; 0; 0;  0; 255; 255; 0;  0].
Proof. vm_compute. repeat split; reflexivity. Qed.

(* (b) via the theorems: the relation between the model's ACTUAL bytes (obtained by vm_compute of the model) and the
   exact-geometry K is DERIVED from rasterize_lines_coverage_rectilinear / _diagonal45 / _exact_slopes, all of
   whose hypotheses are discharged; K itself is not computed in these proofs *)
Example ex_rect_via_theorem :
  let bytes := [96; 127; 127; 64;  192; 255; 255; 128;  144; 192; 192; 96;  0] in
  mask_bytes blit_super 4 4 ex_rect 0 0 4 3 = bytes /\
  forall q p, 0 <= q < 3 -> 0 <= p < 4 ->
    let K := Kpix_exact NonZero (map seg_geom ex_rect) 0 0 q p in
    0 <= K <= 16 /\ (zn bytes (q * 4 + p) = Z.min 255 (16 * K) \/ zn bytes (q * 4 + p) = 16 * K - 1).
Proof.
  cbv zeta. split; [vm_compute; reflexivity|].
  assert (Hb: get_bounds (add_segs (rast_new 4 4) ex_rect) = mkrect 0 0 4 3) by (vm_compute; reflexivity).
  pose proof (rasterize_lines_coverage_rectilinear NonZero 4 4 ex_rect) as T.
  rewrite Hb in T. cbn [x0 y0] in T.
  change (r_w (mkrect 0 0 4 3)) with 4 in T. change (r_h (mkrect 0 0 4 3)) with 3 in T. change (0 * 4) with 0 in T.
  destruct T as (r' & buf' & T1 & _ & _ & T4); [lia|lia|lia|vm_compute; reflexivity|].
  vm_compute in T1. injection T1 as _ E. subst buf'. exact T4.
Qed.

Example ex_diamond_via_theorem :
  let bytes := [0; 16; 16; 0;  16; 207; 207; 16;  48; 240; 240; 48;  0; 48; 48; 0;  0] in
  mask_bytes blit_super 4 4 ex_diamond 0 0 4 4 = bytes /\
  forall q p, 0 <= q < 4 -> 0 <= p < 4 ->
    let K := Kpix_exact NonZero (map seg_geom ex_diamond) 0 0 q p in
    0 <= K <= 16 /\ (zn bytes (q * 4 + p) = Z.min 255 (16 * K) \/ zn bytes (q * 4 + p) = 16 * K - 1).
Proof.
  cbv zeta. split; [vm_compute; reflexivity|].
  assert (Hb: get_bounds (add_segs (rast_new 4 4) ex_diamond) = mkrect 0 0 4 4) by (vm_compute; reflexivity).
  pose proof (rasterize_lines_coverage_diagonal45 NonZero 4 4 ex_diamond) as T.
  rewrite Hb in T. cbn [x0 y0] in T.
  change (r_w (mkrect 0 0 4 4)) with 4 in T. change (r_h (mkrect 0 0 4 4)) with 4 in T. change (0 * 4) with 0 in T.
  destruct T as (r' & buf' & T1 & _ & _ & T4); [lia|lia|lia|vm_compute; reflexivity|].
  vm_compute in T1. injection T1 as _ E. subst buf'. exact T4.
Qed.

Example ex_slope38_via_theorem :
  let bytes := [128; 191; 112; 0;  80; 255; 239; 0;  0; 64; 64; 16;  0] in
  mask_bytes blit_super 4 4 ex_slope38 0 0 4 3 = bytes /\
  forall q p, 0 <= q < 3 -> 0 <= p < 4 ->
    let K := Kpix_exact NonZero (map seg_geom ex_slope38) 0 0 q p in
    0 <= K <= 16 /\ (zn bytes (q * 4 + p) = Z.min 255 (16 * K) \/ zn bytes (q * 4 + p) = 16 * K - 1).
Proof.
  cbv zeta. split; [vm_compute; reflexivity|].
  assert (Hb: get_bounds (add_segs (rast_new 4 4) ex_slope38) = mkrect 0 0 4 3) by (vm_compute; reflexivity).
  pose proof (rasterize_lines_coverage_exact_slopes NonZero 4 4 ex_slope38) as T.
  rewrite Hb in T. cbn [x0 y0] in T.
  change (r_w (mkrect 0 0 4 3)) with 4 in T. change (r_h (mkrect 0 0 4 3)) with 3 in T. change (0 * 4) with 0 in T.
  destruct T as (r' & buf' & T1 & _ & _ & T4); [lia|lia|lia|vm_compute; reflexivity|].
  vm_compute in T1. injection T1 as _ E. subst buf'. exact T4.
Qed.

(* the aliased theorem on the slope-3/8 polygon *)
Example ex_slope38_aliased_via_theorem :
  let bytes := [0; 0; 0; 0;  255; 255; 0; 0;  0; 255; 255; 0;  0] in
  mask_bytes blit_mask 4 4 ex_slope38 0 0 4 3 = bytes /\
  forall q p, 0 <= q < 3 -> 0 <= p < 4 ->
    zn bytes (q * 4 + p) =
      (if cov_exact NonZero (filter (g_live (0 + 4 * q)) (map seg_geom ex_slope38)) (0 + 4 * q) (4 * p + 3 + 0)
       then 255 else 0).
Proof.
  cbv zeta. split; [vm_compute; reflexivity|].
  assert (Hb: get_bounds (add_segs (rast_new 4 4) ex_slope38) = mkrect 0 0 4 3) by (vm_compute; reflexivity).
  pose proof (rasterize_lines_coverage_aliased_exact_slopes NonZero 4 4 ex_slope38) as T.
  rewrite Hb in T. cbn [x0 y0] in T.
  change (r_w (mkrect 0 0 4 3)) with 4 in T. change (r_h (mkrect 0 0 4 3)) with 3 in T. change (0 * 4) with 0 in T.
  destruct T as (r' & buf' & T1 & _ & T4); [lia|lia|lia|vm_compute; reflexivity|].
  vm_compute in T1. injection T1 as _ E. subst buf'. exact T4.
Qed.

Print Assumptions ex_rect_via_theorem.
Print Assumptions ex_diamond_via_theorem.
Print Assumptions ex_slope38_via_theorem.
Print Assumptions ex_slope38_aliased_via_theorem.
