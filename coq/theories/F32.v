(* Bit-exact IEEE-754 binary32 arithmetic (round to nearest even) via Flocq, with the
   Rust `as` casts.  Used only by the executable model (float front end of the scene model);
   no theorem reasons about rounding. *)
From Flocq Require Import IEEE754.BinarySingleNaN IEEE754.Binary IEEE754.Bits.
Import Flocq.IEEE754.Binary.
Require Import RQ.Base.

Definition f32 := binary32.

Definition of_bits (b : Z) : f32 := b32_of_bits b.
Definition to_bits (x : f32) : Z := bits_of_b32 x.

Definition fadd (a b : f32) : f32 := b32_plus mode_NE a b.
Definition fsub (a b : f32) : f32 := b32_minus mode_NE a b.
Definition fmul (a b : f32) : f32 := b32_mult mode_NE a b.
Definition fdiv (a b : f32) : f32 := b32_div mode_NE a b.
Definition fsqrt (a : f32) : f32 := b32_sqrt mode_NE a.
Definition fneg (a : f32) : f32 := b32_opp a.
Definition fabs (a : f32) : f32 := b32_abs a.

Definition fcmp (a b : f32) : option comparison := b32_compare a b.
Definition flt (a b : f32) : bool := match fcmp a b with Some Lt => true | _ => false end.
Definition fle (a b : f32) : bool := match fcmp a b with Some Lt | Some Eq => true | _ => false end.
Definition fgt (a b : f32) : bool := match fcmp a b with Some Gt => true | _ => false end.
Definition fge (a b : f32) : bool := match fcmp a b with Some Gt | Some Eq => true | _ => false end.
Definition feq (a b : f32) : bool := match fcmp a b with Some Eq => true | _ => false end.
Definition fne (a b : f32) : bool := negb (feq a b).
Definition fis_nan (a : f32) : bool := is_nan 24 128 a.

Lemma prec32 : FLX.Prec_gt_0 24. Proof. reflexivity. Qed.
Lemma emax32 : (24 < 128)%Z. Proof. reflexivity. Qed.

(* n as f32 *)
Definition of_int (n : Z) : f32 := binary_normalize 24 128 prec32 emax32 mode_NE n 0 false.

(* truncation toward zero of a float, None for NaN, saturating infinities handled by callers *)
Definition ftrunc (x : f32) : option Z :=
  match x with
  | B754_zero _ _ _ => Some 0
  | B754_infinity _ _ s => Some (if s then - 2 ^ 200 else 2 ^ 200)
  | B754_nan _ _ _ _ _ => None
  | B754_finite _ _ s m e _ =>
      let v := if 0 <=? e then Zpos m * 2 ^ e else Z.quot (Zpos m) (2 ^ (- e)) in
      Some (if s then - v else v)
  end.
Definition clampz (lo hi v : Z) : Z := Z.max lo (Z.min hi v).
(* Rust `x as i32`, `x as u32`, `x as u8`: truncate, saturate, NaN -> 0 *)
Definition to_i32 (x : f32) : Z := match ftrunc x with Some v => clampz i32_min i32_max v | None => 0 end.
Definition to_u32 (x : f32) : Z := match ftrunc x with Some v => clampz 0 4294967295 v | None => 0 end.
Definition to_u8 (x : f32) : Z := match ftrunc x with Some v => clampz 0 255 v | None => 0 end.

(* constants *)
Definition f0 : f32 := of_int 0.
Definition f1 : f32 := of_int 1.
Definition fhalf : f32 := of_bits 1056964608.      (* 0.5 *)
Definition f4 : f32 := of_int 4.
Definition f255 : f32 := of_int 255.
Definition f65536 : f32 := of_int 65536.

(* f32::min / f32::max (a NaN operand is ignored) *)
Definition fmin (a b : f32) : f32 := if fis_nan a then b else if fis_nan b then a else if flt b a then b else a.
Definition fmax (a b : f32) : f32 := if fis_nan a then b else if fis_nan b then a else if flt a b then b else a.

(* sanity: 0.1 + 0.2, 1/3, sqrt 2, casts *)
Example f32_sanity :
  (to_bits (fadd (of_bits 1036831949) (of_bits 1045220557)),
   to_bits (fdiv f1 (of_int 3)),
   to_bits (fsqrt (of_int 2)),
   to_i32 (fmul (of_bits 1078530011) (of_int 1000)),   (* pi * 1000 *)
   to_i32 (fneg (of_bits 1075838976)),                  (* -2.5 *)
   to_u8 (fadd (fmul (of_bits 1056964608) f255) fhalf), (* 0.5*255+0.5 = 128 *)
   to_bits (of_int 16777217), to_bits (of_int (-7)))
  = (1050253722, 1051372203, 1068827891, 3141, -2, 128, 1266679808, 3235905536).
Proof. vm_compute. reflexivity. Qed.

(* (x * 255. + 0.5) as u8  and  as u32 : layer opacity / blend_surface_with_alpha, global alpha *)
Definition unit_to_u8 (x : f32) : Z := to_u8 (fadd (fmul x f255) fhalf).
Definition unit_to_u32 (x : f32) : Z := to_u32 (fadd (fmul x f255) fhalf).

(* ---- f32 % f32 (fmod: exact, sign of the dividend) ---- *)
Definition frem (x y : f32) : f32 :=
  match x, y with
  | B754_nan _ _ _ _ _, _ | _, B754_nan _ _ _ _ _ => of_bits 2143289344
  | B754_infinity _ _ _, _ => of_bits 2143289344
  | _, B754_zero _ _ _ => of_bits 2143289344
  | B754_zero _ _ _, _ => x
  | _, B754_infinity _ _ _ => x
  | B754_finite _ _ sx mx ex _, B754_finite _ _ sy my ey _ =>
      let e := Z.min ex ey in
      let X := Zpos mx * 2 ^ (ex - e) in
      let Y := Zpos my * 2 ^ (ey - e) in
      let R := Z.rem X Y in
      if R =? 0 then (if sx then fneg f0 else f0)
      else binary_normalize 24 128 prec32 emax32 mode_NE (if sx then - R else R) e false
  end.

(* ---- binary64 for f32::hypot: glibc's hypotf is the correctly rounded f32 of
   sqrt((double)x*x + (double)y*y) (re-validated against the crate by the harness) ---- *)
Lemma prec64 : FLX.Prec_gt_0 53. Proof. reflexivity. Qed.
Lemma emax64 : (53 < 1024)%Z. Proof. reflexivity. Qed.
Definition to64 (x : f32) : binary64 :=
  match x with
  | B754_zero _ _ s => B754_zero 53 1024 s
  | B754_infinity _ _ s => B754_infinity 53 1024 s
  | B754_nan _ _ _ _ _ => b64_of_bits 9221120237041090560
  | B754_finite _ _ s m e _ => binary_normalize 53 1024 prec64 emax64 mode_NE (if s then Zneg m else Zpos m) e false
  end.
Definition of64 (x : binary64) : f32 :=
  match x with
  | B754_zero _ _ s => B754_zero 24 128 s
  | B754_infinity _ _ s => B754_infinity 24 128 s
  | B754_nan _ _ _ _ _ => of_bits 2143289344
  | B754_finite _ _ s m e _ => binary_normalize 24 128 prec32 emax32 mode_NE (if s then Zneg m else Zpos m) e s
  end.
Definition fhypot (x y : f32) : f32 :=
  let a := to64 x in let b := to64 y in
  if is_nan 24 128 x || is_nan 24 128 y then
    (match x, y with B754_infinity _ _ _, _ | _, B754_infinity _ _ _ => B754_infinity 24 128 false | _, _ => of_bits 2143289344 end)
  else of64 (b64_sqrt mode_NE (b64_plus mode_NE (b64_mult mode_NE a a) (b64_mult mode_NE b b))).

Example f32_sanity2 :
  (to_bits (frem (of_bits 1088421888) (of_bits 1075838976)),   (* 7 % 2.5 = 2 *)
   to_bits (frem (fneg (of_bits 1088421888)) (of_bits 1075838976)),
   to_bits (fhypot (of_int 3) (of_int 4)),
   to_bits (fhypot (of_bits 1036831949) (of_bits 1045220557)))
  = (1073741824, 3221225472, 1084227584, 1046804782).
Proof. vm_compute. reflexivity. Qed.
