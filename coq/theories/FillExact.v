(* C01 end to end on the EXACT polygon: DrawTarget::fill of a polygon whose edges have slopes that are exact in 16.16
   (in particular every rectilinear / octilinear polygon) gives, for every pixel, alpha 16*K with K = the number of
   the pixel's 16 sample cells inside the exact polygon (crossings rounded to the nearest quarter).  No hypothesis
   about the rasteriser's fixed-point crossings is left.

   Part 1: FillProofs.fill_polygon_coverage(_aliased) composed with ExactSlopes.Kpix_is_Kpix_exact_gen /
           cov_live_is_cov_exact_gen under the general hypothesis crossing_all; corollaries for all_exact_slopes,
           gap_all, octilinear.
   Part 2: the hypothesis moved to the PATH: the integer vertex list of a path (through f32_to_dot2), its edges, the
           predicates path_exact_slopes / path_octilinear on them, and the proof that they imply the hypothesis of
           Part 1 for every path with finite coordinates.
   Part 3: paths on the quarter-pixel grid (ContainsF32.grid_ops_within): the edge list handed to the rasteriser IS the
           integer polygon, swap flags included; the theorems restated with everything on the right-hand side computed
           from the integer vertex list.
   Part 4: non-vacuity, an octagon with f32 vertices. *)
From Coq Require Import ZArith List Lia ZifyBool Bool.
From Flocq Require Import Core IEEE754.BinarySingleNaN IEEE754.Binary.
Require Import RQ.Base RQ.F32 RQ.Rect RQ.Pixel RQ.Raster RQ.RasterProofs RQ.PathF RQ.Shader RQ.Target RQ.FillProofs
  RQ.ExactCrossing RQ.ExactSlopes RQ.UserSpace RQ.PathRange RQ.GridProofs RQ.Contains RQ.ContainsF32.
Import ListNotations.
Open Scope Z_scope.
Ltac Zify.zify_post_hook ::= Z.to_euclidean_division_equations.

(* ===== Part 1: fill down to the exact polygon, hypothesis on the edge list ===== *)

Lemma r_in_range b X Y : r_in b X Y = true -> 0 <= Y - y0 b < r_h b /\ 0 <= X - x0 b < r_w b.
Proof. unfold r_in, r_h, r_w. rewrite !andb_true_iff, !Z.leb_le, !Z.ltb_lt. lia. Qed.

(* the general statement: crossing_all (every live crossing of the mask's sample rows is the exact crossing rounded) *)
Theorem fill_polygon_coverage_crossing_all w h p : 0 <= w -> 0 < h -> is_polygon p = true ->
  let gs := poly_segs xf_identity p in
  let r := add_segs (rast_new w h) gs in
  let b := get_bounds r in
  let G := map seg_geom gs in
  crossing_all G (y0 b * 4) (y0 b * 4 + r_h b * 4) ->
  exists st', fill (dt_new w h (repeat 0 (Z.to_nat (w * h)))) p (Solid white) (mk_opts SrcOver f1 true) = Ok st' /\
    d_w st' = w /\ d_h st' = h /\ zlen (d_buf st') = w * h /\
    forall X Y, 0 <= X < w -> 0 <= Y < h ->
      let v := zn (d_buf st') (Y * w + X) in
      if r_in b X Y then
        let K := Kpix_exact (p_winding p) G (x0 b * 4) (y0 b * 4) (Y - y0 b) (X - x0 b) in
        0 <= K <= 16 /\ (Z.shiftr v 24 = Z.min 255 (16 * K) \/ Z.shiftr v 24 = 16 * K - 1) /\
        v = gray (Z.shiftr v 24)
      else v = 0.
Proof.
  intros Hw Hh Hpoly gs r b G Hc.
  destruct (fill_polygon_coverage w h p Hw Hh Hpoly) as (st' & F & F1 & F2 & F3 & Px).
  exists st'. split; [exact F|]. split; [exact F1|]. split; [exact F2|]. split; [exact F3|].
  intros X Y HX HY. specialize (Px X Y HX HY). cbv zeta in Px |- *.
  subst G b r gs.
  destruct (r_in _ X Y) eqn:E; [|exact Px].
  destruct (r_in_range _ X Y E) as [Hq _].
  rewrite <- (Kpix_is_Kpix_exact_gen (p_winding p) w h (poly_segs xf_identity p) _ (X - _) Hq Hc). exact Px.
Qed.
Print Assumptions fill_polygon_coverage_crossing_all.

(* antialiasing off: only the first sample row of each pixel row is read, so only those rows need the hypothesis *)
Theorem fill_polygon_coverage_aliased_crossing_ok w h p : 0 <= w -> 0 < h -> is_polygon p = true ->
  let gs := poly_segs xf_identity p in
  let r := add_segs (rast_new w h) gs in
  let b := get_bounds r in
  let G := map seg_geom gs in
  (forall q, 0 <= q < r_h b -> forall g, In g G -> g_live (y0 b * 4 + 4 * q) g = true ->
     crossing_ok (y0 b * 4 + 4 * q) g) ->
  exists st', fill (dt_new w h (repeat 0 (Z.to_nat (w * h)))) p (Solid white) (mk_opts SrcOver f1 false) = Ok st' /\
    d_w st' = w /\ d_h st' = h /\ zlen (d_buf st') = w * h /\
    forall X Y, 0 <= X < w -> 0 <= Y < h ->
      let v := zn (d_buf st') (Y * w + X) in
      if r_in b X Y then
        let y := y0 b * 4 + 4 * (Y - y0 b) in
        v = (if cov_exact (p_winding p) (filter (g_live y) G) y (4 * (X - x0 b) + 3 + x0 b * 4) then white else 0)
      else v = 0.
Proof.
  intros Hw Hh Hpoly gs r b G Hc.
  destruct (fill_polygon_coverage_aliased w h p Hw Hh Hpoly) as (st' & F & F1 & F2 & F3 & Px).
  exists st'. split; [exact F|]. split; [exact F1|]. split; [exact F2|]. split; [exact F3|].
  intros X Y HX HY. specialize (Px X Y HX HY). cbv zeta in Px |- *.
  subst G b r gs.
  destruct (r_in _ X Y) eqn:E; [|exact Px].
  destruct (r_in_range _ X Y E) as [Hq _].
  rewrite <- (cov_live_is_cov_exact_gen (p_winding p) w h (poly_segs xf_identity p)); [exact Px|lia|].
  apply Hc. exact Hq.
Qed.
Print Assumptions fill_polygon_coverage_aliased_crossing_ok.

Theorem fill_polygon_coverage_aliased_crossing_all w h p : 0 <= w -> 0 < h -> is_polygon p = true ->
  let gs := poly_segs xf_identity p in
  let r := add_segs (rast_new w h) gs in
  let b := get_bounds r in
  let G := map seg_geom gs in
  crossing_all G (y0 b * 4) (y0 b * 4 + r_h b * 4) ->
  exists st', fill (dt_new w h (repeat 0 (Z.to_nat (w * h)))) p (Solid white) (mk_opts SrcOver f1 false) = Ok st' /\
    d_w st' = w /\ d_h st' = h /\ zlen (d_buf st') = w * h /\
    forall X Y, 0 <= X < w -> 0 <= Y < h ->
      let v := zn (d_buf st') (Y * w + X) in
      if r_in b X Y then
        let y := y0 b * 4 + 4 * (Y - y0 b) in
        v = (if cov_exact (p_winding p) (filter (g_live y) G) y (4 * (X - x0 b) + 3 + x0 b * 4) then white else 0)
      else v = 0.
Proof.
  intros Hw Hh Hpoly gs r b G Hc.
  apply (fill_polygon_coverage_aliased_crossing_ok w h p Hw Hh Hpoly).
  intros q Hq g Hg Hl. apply Hc; [|exact Hg|exact Hl]. subst G b r gs. lia.
Qed.
Print Assumptions fill_polygon_coverage_aliased_crossing_all.

(* ---- (1) exact slopes: no hypothesis about crossings at all ---- *)
Theorem fill_polygon_coverage_exact_slopes w h p : 0 <= w -> 0 < h -> is_polygon p = true ->
  let gs := poly_segs xf_identity p in
  let r := add_segs (rast_new w h) gs in
  let b := get_bounds r in
  let G := map seg_geom gs in
  all_exact_slopes G = true ->
  exists st', fill (dt_new w h (repeat 0 (Z.to_nat (w * h)))) p (Solid white) (mk_opts SrcOver f1 true) = Ok st' /\
    d_w st' = w /\ d_h st' = h /\ zlen (d_buf st') = w * h /\
    forall X Y, 0 <= X < w -> 0 <= Y < h ->
      let v := zn (d_buf st') (Y * w + X) in
      if r_in b X Y then
        let K := Kpix_exact (p_winding p) G (x0 b * 4) (y0 b * 4) (Y - y0 b) (X - x0 b) in
        0 <= K <= 16 /\ (Z.shiftr v 24 = Z.min 255 (16 * K) \/ Z.shiftr v 24 = 16 * K - 1) /\
        v = gray (Z.shiftr v 24)
      else v = 0.
Proof.
  intros Hw Hh Hpoly gs r b G He.
  apply (fill_polygon_coverage_crossing_all w h p Hw Hh Hpoly).
  apply all_exact_slopes_crossing_all. exact He.
Qed.
Print Assumptions fill_polygon_coverage_exact_slopes.

(* ---- (2) the same with antialiasing off ---- *)
Theorem fill_polygon_coverage_aliased_exact_slopes w h p : 0 <= w -> 0 < h -> is_polygon p = true ->
  let gs := poly_segs xf_identity p in
  let r := add_segs (rast_new w h) gs in
  let b := get_bounds r in
  let G := map seg_geom gs in
  all_exact_slopes G = true ->
  exists st', fill (dt_new w h (repeat 0 (Z.to_nat (w * h)))) p (Solid white) (mk_opts SrcOver f1 false) = Ok st' /\
    d_w st' = w /\ d_h st' = h /\ zlen (d_buf st') = w * h /\
    forall X Y, 0 <= X < w -> 0 <= Y < h ->
      let v := zn (d_buf st') (Y * w + X) in
      if r_in b X Y then
        let y := y0 b * 4 + 4 * (Y - y0 b) in
        v = (if cov_exact (p_winding p) (filter (g_live y) G) y (4 * (X - x0 b) + 3 + x0 b * 4) then white else 0)
      else v = 0.
Proof.
  intros Hw Hh Hpoly gs r b G He.
  apply (fill_polygon_coverage_aliased_crossing_all w h p Hw Hh Hpoly).
  apply all_exact_slopes_crossing_all. exact He.
Qed.
Print Assumptions fill_polygon_coverage_aliased_exact_slopes.

(* ---- (3) the gap hypothesis of ExactCrossing.v (arbitrary slopes, no crossing within the fixed-point error of a
   cell boundary) ---- *)
Theorem fill_polygon_coverage_gap_all w h p : 0 <= w -> 0 < h -> is_polygon p = true ->
  let gs := poly_segs xf_identity p in
  let r := add_segs (rast_new w h) gs in
  let b := get_bounds r in
  let G := map seg_geom gs in
  gap_all G (y0 b * 4) (y0 b * 4 + r_h b * 4) ->
  exists st', fill (dt_new w h (repeat 0 (Z.to_nat (w * h)))) p (Solid white) (mk_opts SrcOver f1 true) = Ok st' /\
    d_w st' = w /\ d_h st' = h /\ zlen (d_buf st') = w * h /\
    forall X Y, 0 <= X < w -> 0 <= Y < h ->
      let v := zn (d_buf st') (Y * w + X) in
      if r_in b X Y then
        let K := Kpix_exact (p_winding p) G (x0 b * 4) (y0 b * 4) (Y - y0 b) (X - x0 b) in
        0 <= K <= 16 /\ (Z.shiftr v 24 = Z.min 255 (16 * K) \/ Z.shiftr v 24 = 16 * K - 1) /\
        v = gray (Z.shiftr v 24)
      else v = 0.
Proof.
  intros Hw Hh Hpoly gs r b G Hg.
  apply (fill_polygon_coverage_crossing_all w h p Hw Hh Hpoly).
  apply gap_all_crossing_all. exact Hg.
Qed.
Print Assumptions fill_polygon_coverage_gap_all.

Theorem fill_polygon_coverage_aliased_gap_all w h p : 0 <= w -> 0 < h -> is_polygon p = true ->
  let gs := poly_segs xf_identity p in
  let r := add_segs (rast_new w h) gs in
  let b := get_bounds r in
  let G := map seg_geom gs in
  gap_all G (y0 b * 4) (y0 b * 4 + r_h b * 4) ->
  exists st', fill (dt_new w h (repeat 0 (Z.to_nat (w * h)))) p (Solid white) (mk_opts SrcOver f1 false) = Ok st' /\
    d_w st' = w /\ d_h st' = h /\ zlen (d_buf st') = w * h /\
    forall X Y, 0 <= X < w -> 0 <= Y < h ->
      let v := zn (d_buf st') (Y * w + X) in
      if r_in b X Y then
        let y := y0 b * 4 + 4 * (Y - y0 b) in
        v = (if cov_exact (p_winding p) (filter (g_live y) G) y (4 * (X - x0 b) + 3 + x0 b * 4) then white else 0)
      else v = 0.
Proof.
  intros Hw Hh Hpoly gs r b G Hg.
  apply (fill_polygon_coverage_aliased_crossing_all w h p Hw Hh Hpoly).
  apply gap_all_crossing_all. exact Hg.
Qed.
Print Assumptions fill_polygon_coverage_aliased_gap_all.

(* mixed polygons: each edge has an exact slope or satisfies the gap hypothesis on its live rows *)
Theorem fill_polygon_coverage_exact_or_gap w h p : 0 <= w -> 0 < h -> is_polygon p = true ->
  let gs := poly_segs xf_identity p in
  let r := add_segs (rast_new w h) gs in
  let b := get_bounds r in
  let G := map seg_geom gs in
  exact_or_gap_all G (y0 b * 4) (y0 b * 4 + r_h b * 4) ->
  exists st', fill (dt_new w h (repeat 0 (Z.to_nat (w * h)))) p (Solid white) (mk_opts SrcOver f1 true) = Ok st' /\
    d_w st' = w /\ d_h st' = h /\ zlen (d_buf st') = w * h /\
    forall X Y, 0 <= X < w -> 0 <= Y < h ->
      let v := zn (d_buf st') (Y * w + X) in
      if r_in b X Y then
        let K := Kpix_exact (p_winding p) G (x0 b * 4) (y0 b * 4) (Y - y0 b) (X - x0 b) in
        0 <= K <= 16 /\ (Z.shiftr v 24 = Z.min 255 (16 * K) \/ Z.shiftr v 24 = 16 * K - 1) /\
        v = gray (Z.shiftr v 24)
      else v = 0.
Proof.
  intros Hw Hh Hpoly gs r b G Hg.
  apply (fill_polygon_coverage_crossing_all w h p Hw Hh Hpoly).
  apply exact_or_gap_all_crossing_all. exact Hg.
Qed.
Print Assumptions fill_polygon_coverage_exact_or_gap.

(* ===== Part 2: the hypothesis stated on the path ===== *)

(* --- the integer polygon of a vertex list: consecutive vertex pairs, exactly as fill walks the path (every LineTo, the
   closing edge of every subpath at MoveTo / Close / end of path; a LineTo without a current point starts a subpath
   and contributes the degenerate edge q -> q, as the code does) --- *)
Definition zedges_close (cu fi : option zpt) : list edge :=
  match fi, cu with Some f, Some c => [(c, f)] | _, _ => [] end.
Fixpoint zpoly_edges_go (ops : list zop) (cu fi : option zpt) : list edge :=
  match ops with
  | [] => zedges_close cu fi
  | ZMove q :: rest => zedges_close cu fi ++ zpoly_edges_go rest (Some q) (Some q)
  | ZLine q :: rest =>
      match cu with
      | None => (q, q) :: zpoly_edges_go rest (Some q) (Some q)
      | Some c => (c, q) :: zpoly_edges_go rest (Some q) fi
      end
  | ZClose :: rest => zedges_close cu fi ++ zpoly_edges_go rest fi fi
  end.
Definition zpoly_edges (zops : list zop) : list edge := zpoly_edges_go zops None None.

(* the edge s -> e as add_edge receives it: swap when it points upwards *)
Definition edge_seg (e : edge) : seg :=
  mk_seg (snd (snd e) <? snd (fst e)) (fst (fst e)) (snd (fst e)) (fst (snd e)) (snd (snd e)).
Definition zpoly_segs (zops : list zop) : list seg := map edge_seg (zpoly_edges zops).

(* for a vertex list that starts with a MoveTo these are the edges of Contains.path_edges, the polygon of the hit test
   (C17); the two differ only in the degenerate edge q -> q of a LineTo that has no current point *)
Lemma zpoly_edges_go_path_edges ops : forall c f,
  zpoly_edges_go ops (Some c) (Some f) = path_edges ops (Some f) (Some c).
Proof.
  induction ops as [|o ops IH]; intros c f; [reflexivity|].
  destruct o as [q|q|]; cbn [zpoly_edges_go path_edges zedges_close]; rewrite IH; reflexivity.
Qed.
Lemma zpoly_edges_path_edges q ops : zpoly_edges (ZMove q :: ops) = path_edges (ZMove q :: ops) None None.
Proof. unfold zpoly_edges. cbn [zpoly_edges_go path_edges zedges_close app]. apply zpoly_edges_go_path_edges. Qed.

(* --- shape predicates on an edge (a, b), independent of its orientation --- *)
(* the slope dx/dy is exact in 16.16: horizontal, or dy divides dx * 2^14 (reduced denominator a power of two <= 2^14) *)
Definition edge_exact_slope (e : edge) : bool :=
  let '((xa, ya), (xb, yb)) := e in (ya =? yb) || (((xb - xa) * 16384) mod (yb - ya) =? 0).
(* horizontal, vertical, or at 45 degrees *)
Definition edge_octilinear (e : edge) : bool :=
  let '((xa, ya), (xb, yb)) := e in (xa =? xb) || (ya =? yb) || (Z.abs (xb - xa) =? Z.abs (yb - ya)).
Definition edge_rectilinear (e : edge) : bool :=
  let '((xa, ya), (xb, yb)) := e in (xa =? xb) || (ya =? yb).

Lemma edge_rectilinear_octilinear e : edge_rectilinear e = true -> edge_octilinear e = true.
Proof. destruct e as [[xa ya] [xb yb]]. unfold edge_rectilinear, edge_octilinear. intros ->. reflexivity. Qed.

Lemma edge_octilinear_exact_slope e : edge_octilinear e = true -> edge_exact_slope e = true.
Proof.
  destruct e as [[xa ya] [xb yb]]. unfold edge_octilinear, edge_exact_slope.
  rewrite !orb_true_iff, !Z.eqb_eq. intros [[E|E]|E].
  - right. subst xb. replace ((xa - xa) * 16384) with 0 by ring. apply Zmod_0_l.
  - left. exact E.
  - destruct (Z.eq_dec ya yb) as [Ey|Ey]; [left; exact Ey|right].
    assert (Hd: yb - ya <> 0) by lia.
    assert (Hx: xb - xa = yb - ya \/ xb - xa = - (yb - ya)) by lia.
    destruct Hx as [Hx|Hx]; rewrite Hx.
    + rewrite Z.mul_comm. apply Z.mod_mul. exact Hd.
    + replace (- (yb - ya) * 16384) with ((-16384) * (yb - ya)) by ring. apply Z.mod_mul. exact Hd.
Qed.

(* two segments with the same end points (the swap flags may differ) *)
Definition same_ends (s s' : seg) : Prop :=
  g_sx s = g_sx s' /\ g_sy s = g_sy s' /\ g_ex s = g_ex s' /\ g_ey s = g_ey s'.

(* an exact-slope edge gives exact_slope of the oriented segment, whatever the swap flag says *)
Lemma edge_exact_slope_seg s e : same_ends s (edge_seg e) -> edge_exact_slope e = true ->
  exact_slope (seg_geom s) = true.
Proof.
  destruct e as [[xa ya] [xb yb]]. unfold same_ends, edge_seg, edge_exact_slope.
  cbn [g_sx g_sy g_ex g_ey fst snd]. intros (E1 & E2 & E3 & E4) H.
  unfold seg_geom, exact_slope. rewrite E1, E2, E3, E4.
  rewrite orb_true_iff, !Z.eqb_eq in H.
  destruct (g_swap s); rewrite orb_true_iff, Z.leb_le, Z.eqb_eq.
  - destruct H as [H|H]; [left; lia|].
    destruct (Z_le_gt_dec ya yb) as [L|L]; [left; exact L|right].
    apply Z.mod_divide in H; [|lia]. apply Z.mod_divide; [lia|].
    destruct H as [k Hk]. exists k. lia.
  - destruct H as [H|H]; [left; lia|].
    destruct (Z_le_gt_dec yb ya) as [L|L]; [left; exact L|right]. exact H.
Qed.

Lemma forall2_exact_slopes (gs : list seg) (es : list edge) :
  Forall2 same_ends gs (map edge_seg es) -> forallb edge_exact_slope es = true ->
  all_exact_slopes (map seg_geom gs) = true.
Proof.
  revert gs. induction es as [|e es IH]; intros gs HF Hall; inversion HF; subst; [reflexivity|].
  cbn [forallb] in Hall. apply andb_true_iff in Hall. destruct Hall as [He Hes].
  unfold all_exact_slopes. cbn [map forallb]. apply andb_true_iff. split.
  - eapply edge_exact_slope_seg; eassumption.
  - apply IH; assumption.
Qed.

(* --- the simulation: poly_go on f32 points against zpoly_edges_go on integer vertices, for any relation R between a
   device-space point and an integer vertex and any relation S that R guarantees between the two segments --- *)
Section Sim.
  Variable t : xform.
  Variable R : pt -> zpt -> Prop.
  Variable S : seg -> seg -> Prop.
  Hypothesis RS : forall c z c' z', R c z -> R c' z' -> S (seg_of c c') (edge_seg (z, z')).

  Inductive op_rel : pathop -> zop -> Prop :=
    | op_rel_move q z : R (xf_point t q) z -> op_rel (MoveTo q) (ZMove z)
    | op_rel_line q z : R (xf_point t q) z -> op_rel (LineTo q) (ZLine z)
    | op_rel_close : op_rel Close ZClose.
  Inductive orel : option pt -> option zpt -> Prop :=
    | orel_none : orel None None
    | orel_some c z : R c z -> orel (Some c) (Some z).

  Lemma close_sim cu fi zcu zfi : orel cu zcu -> orel fi zfi ->
    Forall2 S (close_segs cu fi) (map edge_seg (zedges_close zcu zfi)).
  Proof.
    intros Hc Hf. destruct Hf as [|f zf Hf]; [constructor|]. destruct Hc as [|c zc Hc]; [constructor|].
    cbn [close_segs zedges_close map]. constructor; [|constructor]. apply RS; assumption.
  Qed.

  Lemma poly_go_sim ops zops : Forall2 op_rel ops zops -> forall cu fi zcu zfi, orel cu zcu -> orel fi zfi ->
    Forall2 S (poly_go t ops cu fi) (map edge_seg (zpoly_edges_go zops zcu zfi)).
  Proof.
    induction 1 as [|o zo ops zops Ho Hops IH]; intros cu fi zcu zfi Hc Hf.
    - cbn [poly_go zpoly_edges_go]. apply close_sim; assumption.
    - destruct Ho as [q z Hq|q z Hq|]; cbn [poly_go zpoly_edges_go].
      + rewrite map_app. apply Forall2_app; [apply close_sim; assumption|].
        apply IH; constructor; exact Hq.
      + destruct Hc as [|c zc Hc]; cbn [map]; (constructor; [apply RS; assumption|]).
        * apply IH; constructor; exact Hq.
        * apply IH; [constructor; exact Hq|exact Hf].
      + rewrite map_app. apply Forall2_app; [apply close_sim; assumption|]. apply IH; exact Hf.
  Qed.

  Lemma poly_segs_sim ops zops rule : Forall2 op_rel ops zops ->
    Forall2 S (poly_segs t (mk_path ops rule)) (zpoly_segs zops).
  Proof. intros H. unfold poly_segs, zpoly_segs, zpoly_edges. cbn [p_ops]. apply poly_go_sim; [exact H|constructor|constructor]. Qed.
End Sim.

(* --- instance 1: any path with finite coordinates; the integer vertices are the f32_to_dot2 conversions --- *)
Definition dot2_pt (q : pt) : zpt := (f32_to_dot2 (px q), f32_to_dot2 (py q)).
Definition zop_of_op (o : pathop) : zop :=
  match o with MoveTo q => ZMove (dot2_pt q) | LineTo q => ZLine (dot2_pt q) | _ => ZClose end.
(* the vertex list of a path in quarter-pixel integers (what the rasteriser is given) *)
Definition path_vertices (p : path) : list zop := map zop_of_op (p_ops p).

Definition pt_finiteb (q : pt) : bool := is_finite 24 128 (px q) && is_finite 24 128 (py q).
Definition op_finiteb (o : pathop) : bool :=
  match o with MoveTo q | LineTo q => pt_finiteb q | _ => true end.
Definition path_finiteb (p : path) : bool := forallb op_finiteb (p_ops p).

(* every edge between consecutive vertices (LineTo and closing edges) ... *)
(* ... has a slope that is exact in 16.16 *)
Definition path_exact_slopes (p : path) : bool := forallb edge_exact_slope (zpoly_edges (path_vertices p)).
(* ... is horizontal, vertical or at 45 degrees *)
Definition path_octilinear (p : path) : bool := forallb edge_octilinear (zpoly_edges (path_vertices p)).
(* ... is horizontal or vertical *)
Definition path_rectilinear (p : path) : bool := forallb edge_rectilinear (zpoly_edges (path_vertices p)).

Lemma forallb_impl {A} (f g : A -> bool) l : (forall x, f x = true -> g x = true) ->
  forallb f l = true -> forallb g l = true.
Proof. intros H. rewrite !forallb_forall. intros Hf x Hx. apply H, Hf, Hx. Qed.

Lemma path_octilinear_exact_slopes p : path_octilinear p = true -> path_exact_slopes p = true.
Proof. apply forallb_impl. exact edge_octilinear_exact_slope. Qed.
Lemma path_rectilinear_octilinear p : path_rectilinear p = true -> path_octilinear p = true.
Proof. apply forallb_impl. exact edge_rectilinear_octilinear. Qed.

Lemma seg_of_same_ends c z c' z' : dot2_pt c = z -> dot2_pt c' = z' -> same_ends (seg_of c c') (edge_seg (z, z')).
Proof. intros <- <-. unfold same_ends, seg_of, edge_seg, dot2_pt. cbn [g_sx g_sy g_ex g_ey fst snd]. repeat split. Qed.

Lemma finite_ops_rel ops : forallb is_poly_op ops = true -> forallb op_finiteb ops = true ->
  Forall2 (op_rel xf_identity (fun c z => dot2_pt c = z)) ops (map zop_of_op ops).
Proof.
  induction ops as [|o ops IH]; intros Hp Hf; [constructor|].
  cbn [forallb] in Hp, Hf. apply andb_true_iff in Hp, Hf. destruct Hp as [Hp Hps], Hf as [Hf Hfs].
  cbn [map]. constructor; [|apply IH; assumption].
  assert (D: forall q, pt_finiteb q = true -> dot2_pt (xf_point xf_identity q) = dot2_pt q).
  { intros q Hq. unfold pt_finiteb in Hq. apply andb_true_iff in Hq.
    destruct (xf_identity_dot2 q Hq) as [Ex Ey]. unfold dot2_pt. rewrite Ex, Ey. reflexivity. }
  destruct o; try discriminate Hp; cbn [zop_of_op op_finiteb] in *; constructor; apply D; exact Hf.
Qed.

(* finiteness is needed for this: fill sends every point through the identity transform, where inf * 0 = NaN, and a
   NaN coordinate converts to 0 *)
Example infinite_vertex_differs :
  let q : pt := (B754_infinity 24 128 false, f1) in
  dot2_pt q = (2147483647, 4) /\ dot2_pt (xf_point xf_identity q) = (2147483647, 0).
Proof. vm_compute. split; reflexivity. Qed.

(* the edge list handed to the rasteriser has the end points of the integer polygon of the path's vertices *)
Theorem poly_segs_same_ends p : is_polygon p = true -> path_finiteb p = true ->
  Forall2 same_ends (poly_segs xf_identity p) (zpoly_segs (path_vertices p)).
Proof.
  intros Hp Hf. destruct p as [ops rule]. unfold path_vertices. cbn [p_ops].
  apply (poly_segs_sim xf_identity (fun c z => dot2_pt c = z) same_ends seg_of_same_ends).
  apply finite_ops_rel; assumption.
Qed.

(* ** the path-level hypotheses imply the hypothesis of Part 1 ** *)
Theorem path_exact_slopes_all_exact_slopes p : is_polygon p = true -> path_finiteb p = true ->
  path_exact_slopes p = true -> all_exact_slopes (map seg_geom (poly_segs xf_identity p)) = true.
Proof.
  intros Hp Hf He. apply (forall2_exact_slopes (poly_segs xf_identity p) (zpoly_edges (path_vertices p))).
  - apply poly_segs_same_ends; assumption.
  - exact He.
Qed.
Print Assumptions path_exact_slopes_all_exact_slopes.

Theorem path_octilinear_all_exact_slopes p : is_polygon p = true -> path_finiteb p = true ->
  path_octilinear p = true -> all_exact_slopes (map seg_geom (poly_segs xf_identity p)) = true.
Proof. intros Hp Hf Ho. apply path_exact_slopes_all_exact_slopes; try assumption. apply path_octilinear_exact_slopes, Ho. Qed.
Print Assumptions path_octilinear_all_exact_slopes.

(* ---- (4) C01 from the public call to the exact polygon, every hypothesis a decidable property of the path ---- *)
Theorem fill_polygon_coverage_path_exact_slopes w h p : 0 <= w -> 0 < h ->
  is_polygon p = true -> path_finiteb p = true -> path_exact_slopes p = true ->
  let gs := poly_segs xf_identity p in
  let r := add_segs (rast_new w h) gs in
  let b := get_bounds r in
  let G := map seg_geom gs in
  exists st', fill (dt_new w h (repeat 0 (Z.to_nat (w * h)))) p (Solid white) (mk_opts SrcOver f1 true) = Ok st' /\
    d_w st' = w /\ d_h st' = h /\ zlen (d_buf st') = w * h /\
    forall X Y, 0 <= X < w -> 0 <= Y < h ->
      let v := zn (d_buf st') (Y * w + X) in
      if r_in b X Y then
        let K := Kpix_exact (p_winding p) G (x0 b * 4) (y0 b * 4) (Y - y0 b) (X - x0 b) in
        0 <= K <= 16 /\ (Z.shiftr v 24 = Z.min 255 (16 * K) \/ Z.shiftr v 24 = 16 * K - 1) /\
        v = gray (Z.shiftr v 24)
      else v = 0.
Proof.
  intros Hw Hh Hp Hf He. apply (fill_polygon_coverage_exact_slopes w h p Hw Hh Hp).
  apply path_exact_slopes_all_exact_slopes; assumption.
Qed.
Print Assumptions fill_polygon_coverage_path_exact_slopes.

Theorem fill_polygon_coverage_path_octilinear w h p : 0 <= w -> 0 < h ->
  is_polygon p = true -> path_finiteb p = true -> path_octilinear p = true ->
  let gs := poly_segs xf_identity p in
  let r := add_segs (rast_new w h) gs in
  let b := get_bounds r in
  let G := map seg_geom gs in
  exists st', fill (dt_new w h (repeat 0 (Z.to_nat (w * h)))) p (Solid white) (mk_opts SrcOver f1 true) = Ok st' /\
    d_w st' = w /\ d_h st' = h /\ zlen (d_buf st') = w * h /\
    forall X Y, 0 <= X < w -> 0 <= Y < h ->
      let v := zn (d_buf st') (Y * w + X) in
      if r_in b X Y then
        let K := Kpix_exact (p_winding p) G (x0 b * 4) (y0 b * 4) (Y - y0 b) (X - x0 b) in
        0 <= K <= 16 /\ (Z.shiftr v 24 = Z.min 255 (16 * K) \/ Z.shiftr v 24 = 16 * K - 1) /\
        v = gray (Z.shiftr v 24)
      else v = 0.
Proof.
  intros Hw Hh Hp Hf Ho. apply (fill_polygon_coverage_path_exact_slopes w h p Hw Hh Hp Hf).
  apply path_octilinear_exact_slopes, Ho.
Qed.
Print Assumptions fill_polygon_coverage_path_octilinear.

Theorem fill_polygon_coverage_aliased_path_exact_slopes w h p : 0 <= w -> 0 < h ->
  is_polygon p = true -> path_finiteb p = true -> path_exact_slopes p = true ->
  let gs := poly_segs xf_identity p in
  let r := add_segs (rast_new w h) gs in
  let b := get_bounds r in
  let G := map seg_geom gs in
  exists st', fill (dt_new w h (repeat 0 (Z.to_nat (w * h)))) p (Solid white) (mk_opts SrcOver f1 false) = Ok st' /\
    d_w st' = w /\ d_h st' = h /\ zlen (d_buf st') = w * h /\
    forall X Y, 0 <= X < w -> 0 <= Y < h ->
      let v := zn (d_buf st') (Y * w + X) in
      if r_in b X Y then
        let y := y0 b * 4 + 4 * (Y - y0 b) in
        v = (if cov_exact (p_winding p) (filter (g_live y) G) y (4 * (X - x0 b) + 3 + x0 b * 4) then white else 0)
      else v = 0.
Proof.
  intros Hw Hh Hp Hf He. apply (fill_polygon_coverage_aliased_exact_slopes w h p Hw Hh Hp).
  apply path_exact_slopes_all_exact_slopes; assumption.
Qed.
Print Assumptions fill_polygon_coverage_aliased_path_exact_slopes.

Theorem fill_polygon_coverage_aliased_path_octilinear w h p : 0 <= w -> 0 < h ->
  is_polygon p = true -> path_finiteb p = true -> path_octilinear p = true ->
  let gs := poly_segs xf_identity p in
  let r := add_segs (rast_new w h) gs in
  let b := get_bounds r in
  let G := map seg_geom gs in
  exists st', fill (dt_new w h (repeat 0 (Z.to_nat (w * h)))) p (Solid white) (mk_opts SrcOver f1 false) = Ok st' /\
    d_w st' = w /\ d_h st' = h /\ zlen (d_buf st') = w * h /\
    forall X Y, 0 <= X < w -> 0 <= Y < h ->
      let v := zn (d_buf st') (Y * w + X) in
      if r_in b X Y then
        let y := y0 b * 4 + 4 * (Y - y0 b) in
        v = (if cov_exact (p_winding p) (filter (g_live y) G) y (4 * (X - x0 b) + 3 + x0 b * 4) then white else 0)
      else v = 0.
Proof.
  intros Hw Hh Hp Hf Ho. apply (fill_polygon_coverage_aliased_path_exact_slopes w h p Hw Hh Hp Hf).
  apply path_octilinear_exact_slopes, Ho.
Qed.
Print Assumptions fill_polygon_coverage_aliased_path_octilinear.

(* ===== Part 3: paths on the quarter-pixel grid: the rasteriser receives exactly the integer polygon ===== *)

(* a device-space point that is, up to the sign of a zero, a float point with coordinates (fst z)/4, (snd z)/4 *)
Definition grid_rel (c : pt) (z : zpt) : Prop :=
  exists q, pz c q /\ fquarter (px q) (fst z) /\ fquarter (py q) (snd z) /\
            (i32_min <= fst z <= i32_max) /\ (i32_min <= snd z <= i32_max).

Lemma grid_rel_dot2 c z : grid_rel c z -> dot2_pt c = z.
Proof.
  intros (q & [Zx Zy] & Fx & Fy & Bx & By). unfold dot2_pt.
  rewrite (f32_to_dot2_z _ _ Zx), (f32_to_dot2_z _ _ Zy), (dot2_quarter _ _ Fx Bx), (dot2_quarter _ _ Fy By).
  destruct z; reflexivity.
Qed.

Lemma grid_rel_seg c z c' z' : grid_rel c z -> grid_rel c' z' -> seg_of c c' = edge_seg (z, z').
Proof.
  intros H H'. pose proof (grid_rel_dot2 c z H) as D. pose proof (grid_rel_dot2 c' z' H') as D'.
  destruct H as (q & [_ Zy] & _ & Fy & _). destruct H' as (q' & [_ Zy'] & _ & Fy' & _).
  unfold seg_of, edge_seg. cbn [fst snd].
  rewrite (flt_z _ _ _ _ Zy' Zy), (flt_rep _ _ _ _ _ (proj1 (fquarter_frep _ _) Fy') (proj1 (fquarter_frep _ _) Fy)).
  unfold dot2_pt in D, D'. subst z z'. reflexivity.
Qed.

Lemma grid_op_rel B o zo : B <= i32_max -> grid_op B o zo -> op_rel xf_identity grid_rel o zo.
Proof.
  intros HB H.
  assert (Q: forall p z, qpt B p z -> grid_rel (xf_point xf_identity p) z).
  { intros p z (Fx & Fy & Bx & By). exists p. split.
    - apply xf_identity_transparent. split; [apply Fx|apply Fy].
    - unfold i32_min, i32_max in *. split; [exact Fx|]. split; [exact Fy|]. lia. }
  destruct H; constructor; apply Q; assumption.
Qed.

Lemma Forall2_eq {A} (l l' : list A) : Forall2 eq l l' -> l = l'.
Proof. induction 1; [reflexivity|congruence]. Qed.

(* ** the edge list of a quarter-grid path is the integer polygon, swap flags included ** *)
Theorem grid_poly_segs B ops zops rule : B <= i32_max -> grid_ops_within B ops zops ->
  poly_segs xf_identity (mk_path ops rule) = zpoly_segs zops.
Proof.
  intros HB H. apply Forall2_eq.
  apply (poly_segs_sim xf_identity grid_rel eq grid_rel_seg).
  unfold grid_ops_within in H. induction H; constructor; [|assumption]. eapply grid_op_rel; eassumption.
Qed.
Print Assumptions grid_poly_segs.

Lemma grid_is_polygon B ops zops rule : grid_ops_within B ops zops -> is_polygon (mk_path ops rule) = true.
Proof.
  intros H. unfold is_polygon. cbn [p_ops]. unfold grid_ops_within in H.
  induction H as [|o zo ops zops Ho _ IH]; [reflexivity|]. cbn [forallb]. rewrite IH.
  destruct Ho; reflexivity.
Qed.

(* its f32_to_dot2 vertex list is the integer vertex list, and its coordinates are finite *)
Lemma grid_path_vertices B ops zops rule : B <= i32_max -> grid_ops_within B ops zops ->
  path_vertices (mk_path ops rule) = zops /\ path_finiteb (mk_path ops rule) = true.
Proof.
  intros HB H. unfold path_vertices, path_finiteb. cbn [p_ops]. unfold grid_ops_within in H.
  assert (Q: forall p z, qpt B p z -> dot2_pt p = z /\ pt_finiteb p = true).
  { intros p z (Fx & Fy & Bx & By). split.
    - unfold dot2_pt. unfold i32_max in HB.
      rewrite (dot2_quarter _ _ Fx), (dot2_quarter _ _ Fy) by (unfold i32_min, i32_max; lia). destruct z; reflexivity.
    - unfold pt_finiteb. destruct Fx as [-> _]. destruct Fy as [-> _]. reflexivity. }
  induction H as [|o zo ops zops Ho _ [IH1 IH2]]; [split; reflexivity|].
  cbn [map forallb]. rewrite IH1, IH2.
  destruct Ho as [p z Hq|p z Hq|]; cbn [zop_of_op op_finiteb]; [| |split; reflexivity];
    destruct (Q p z Hq) as [-> ->]; split; reflexivity.
Qed.

(* shape of an integer polygon *)
Definition zpoly_exact_slopes (zops : list zop) : bool := forallb edge_exact_slope (zpoly_edges zops).
Definition zpoly_octilinear (zops : list zop) : bool := forallb edge_octilinear (zpoly_edges zops).

Lemma zpoly_octilinear_exact_slopes zops : zpoly_octilinear zops = true -> zpoly_exact_slopes zops = true.
Proof. apply forallb_impl. exact edge_octilinear_exact_slope. Qed.

Lemma same_ends_refl l : Forall2 same_ends l l.
Proof. induction l; constructor; [repeat split|assumption]. Qed.

Lemma zpoly_exact_slopes_all zops : zpoly_exact_slopes zops = true ->
  all_exact_slopes (map seg_geom (zpoly_segs zops)) = true.
Proof.
  intros H. apply (forall2_exact_slopes (zpoly_segs zops) (zpoly_edges zops)); [apply same_ends_refl|exact H].
Qed.

(* ** C01 for quarter-grid polygons: everything on the right-hand side is computed from the INTEGER vertex list zops
   (the polygon in quarter-pixel units); the f32 path `ops` only appears in the call ** *)
Theorem fill_grid_polygon_coverage_exact_slopes w h rule ops zops : 0 <= w -> 0 < h ->
  grid_ops_within i32_max ops zops -> zpoly_exact_slopes zops = true ->
  let gs := zpoly_segs zops in
  let r := add_segs (rast_new w h) gs in
  let b := get_bounds r in
  let G := map seg_geom gs in
  exists st', fill (dt_new w h (repeat 0 (Z.to_nat (w * h)))) (mk_path ops rule) (Solid white)
                   (mk_opts SrcOver f1 true) = Ok st' /\
    d_w st' = w /\ d_h st' = h /\ zlen (d_buf st') = w * h /\
    forall X Y, 0 <= X < w -> 0 <= Y < h ->
      let v := zn (d_buf st') (Y * w + X) in
      if r_in b X Y then
        let K := Kpix_exact rule G (x0 b * 4) (y0 b * 4) (Y - y0 b) (X - x0 b) in
        0 <= K <= 16 /\ (Z.shiftr v 24 = Z.min 255 (16 * K) \/ Z.shiftr v 24 = 16 * K - 1) /\
        v = gray (Z.shiftr v 24)
      else v = 0.
Proof.
  intros Hw Hh Hg He.
  pose proof (grid_poly_segs i32_max ops zops rule (Z.le_refl _) Hg) as E.
  pose proof (fill_polygon_coverage_exact_slopes w h (mk_path ops rule) Hw Hh (grid_is_polygon _ _ _ rule Hg)) as T.
  cbv zeta in T. rewrite E in T. cbn [p_winding] in T. cbv zeta. apply T.
  apply zpoly_exact_slopes_all. exact He.
Qed.
Print Assumptions fill_grid_polygon_coverage_exact_slopes.

Theorem fill_grid_polygon_coverage_aliased_exact_slopes w h rule ops zops : 0 <= w -> 0 < h ->
  grid_ops_within i32_max ops zops -> zpoly_exact_slopes zops = true ->
  let gs := zpoly_segs zops in
  let r := add_segs (rast_new w h) gs in
  let b := get_bounds r in
  let G := map seg_geom gs in
  exists st', fill (dt_new w h (repeat 0 (Z.to_nat (w * h)))) (mk_path ops rule) (Solid white)
                   (mk_opts SrcOver f1 false) = Ok st' /\
    d_w st' = w /\ d_h st' = h /\ zlen (d_buf st') = w * h /\
    forall X Y, 0 <= X < w -> 0 <= Y < h ->
      let v := zn (d_buf st') (Y * w + X) in
      if r_in b X Y then
        let y := y0 b * 4 + 4 * (Y - y0 b) in
        v = (if cov_exact rule (filter (g_live y) G) y (4 * (X - x0 b) + 3 + x0 b * 4) then white else 0)
      else v = 0.
Proof.
  intros Hw Hh Hg He.
  pose proof (grid_poly_segs i32_max ops zops rule (Z.le_refl _) Hg) as E.
  pose proof (fill_polygon_coverage_aliased_exact_slopes w h (mk_path ops rule) Hw Hh (grid_is_polygon _ _ _ rule Hg)) as T.
  cbv zeta in T. rewrite E in T. cbn [p_winding] in T. cbv zeta. apply T.
  apply zpoly_exact_slopes_all. exact He.
Qed.
Print Assumptions fill_grid_polygon_coverage_aliased_exact_slopes.

(* the same for the float path built from an integer vertex list (the hypothesis grid_ops_within is inhabited for every
   integer polygon within +-2^24 quarters = +-4194304 px) *)
Lemma grid_ops_of_zops_i32 zops : Forall (zop_within 16777216) zops -> grid_ops_within i32_max (map op_of_zop zops) zops.
Proof.
  intros H. apply (grid_ops_mono 16777216); [unfold i32_max; lia|].
  apply grid_ops_of_zops; [|exact H]. change (2 ^ 24) with 16777216. lia.
Qed.

Corollary fill_of_quarter_polygon_octilinear w h rule zops : 0 <= w -> 0 < h ->
  Forall (zop_within 16777216) zops -> zpoly_octilinear zops = true ->
  let gs := zpoly_segs zops in
  let r := add_segs (rast_new w h) gs in
  let b := get_bounds r in
  let G := map seg_geom gs in
  exists st', fill (dt_new w h (repeat 0 (Z.to_nat (w * h)))) (mk_path (map op_of_zop zops) rule) (Solid white)
                   (mk_opts SrcOver f1 true) = Ok st' /\
    d_w st' = w /\ d_h st' = h /\ zlen (d_buf st') = w * h /\
    forall X Y, 0 <= X < w -> 0 <= Y < h ->
      let v := zn (d_buf st') (Y * w + X) in
      if r_in b X Y then
        let K := Kpix_exact rule G (x0 b * 4) (y0 b * 4) (Y - y0 b) (X - x0 b) in
        0 <= K <= 16 /\ (Z.shiftr v 24 = Z.min 255 (16 * K) \/ Z.shiftr v 24 = 16 * K - 1) /\
        v = gray (Z.shiftr v 24)
      else v = 0.
Proof.
  intros Hw Hh Hz Ho. apply (fill_grid_polygon_coverage_exact_slopes w h rule _ zops Hw Hh).
  - apply grid_ops_of_zops_i32. exact Hz.
  - apply zpoly_octilinear_exact_slopes. exact Ho.
Qed.
Print Assumptions fill_of_quarter_polygon_octilinear.

(* ===== Part 4: non-vacuity: an octagon with f32 vertices on a 4x4 surface ===== *)

(* vertices in quarter pixels: (1.25,0.25) (2.25,0.25) (3.25,1.25) (3.25,2.25) (2.25,3.25) (1.25,3.25) (0.25,2.25)
   (0.25,1.25); four axis-parallel edges and four diagonals, off the pixel grid *)
Definition ex_octagon : list zop :=
  [ZMove (5, 1); ZLine (9, 1); ZLine (13, 5); ZLine (13, 9); ZLine (9, 13); ZLine (5, 13); ZLine (1, 9); ZLine (1, 5);
   ZClose].
(* the path with binary32 coordinates n/4 *)
Definition ex_octagon_path : path := mk_path (map op_of_zop ex_octagon) NonZero.
(* K of the 16 pixels, row by row: the number of the pixel's 16 sample cells inside the exact octagon *)
Definition ex_octagon_K : list (list Z) := [[1; 11; 6; 0]; [11; 16; 16; 3]; [9; 16; 15; 2]; [0; 4; 2; 0]].

(* every hypothesis of the theorems of Parts 2 and 3 holds (vm_compute, the f32 ones on the Flocq model), the exact
   coverage table is ex_octagon_K, and the model's actual output agrees with it *)
Example ex_octagon_computed :
  is_polygon ex_octagon_path = true /\ path_finiteb ex_octagon_path = true /\
  path_octilinear ex_octagon_path = true /\ path_rectilinear ex_octagon_path = false /\
  path_vertices ex_octagon_path = ex_octagon /\ zpoly_octilinear ex_octagon = true /\
  poly_segs xf_identity ex_octagon_path = zpoly_segs ex_octagon /\
  all_exact_slopes (map seg_geom (zpoly_segs ex_octagon)) = true /\
  get_bounds (add_segs (rast_new 4 4) (zpoly_segs ex_octagon)) = mkrect 0 0 4 4 /\
  map (fun Y => map (fun X => Kpix_exact NonZero (map seg_geom (zpoly_segs ex_octagon)) 0 0 Y X) [0; 1; 2; 3])
      [0; 1; 2; 3] = ex_octagon_K /\
  (match fill (dt_new 4 4 (repeat 0 16)) ex_octagon_path (Solid white) (mk_opts SrcOver f1 true) with
   | Ok st => map (fun v => Z.shiftr v 24) (d_buf st) | Err _ => [] end)
    = [16; 175; 96; 0;  176; 255; 255; 48;  144; 255; 240; 32;  0; 64; 32; 0] /\
  (match fill (dt_new 4 4 (repeat 0 16)) ex_octagon_path (Solid white) (mk_opts SrcOver f1 false) with
   | Ok st => map (fun v => Z.shiftr v 24) (d_buf st) | Err _ => [] end)
    = [0; 0; 0; 0;  255; 255; 255; 0;  255; 255; 255; 0;  0; 255; 0; 0].
Proof. vm_compute. repeat split; reflexivity. Qed.

Lemma ex_octagon_within : Forall (zop_within 16777216) ex_octagon.
Proof. unfold ex_octagon. repeat constructor; cbn [fst snd Z.abs]; lia. Qed.

Lemma four_cases X : 0 <= X < 4 -> X = 0 \/ X = 1 \/ X = 2 \/ X = 3.
Proof. lia. Qed.

(* the conclusion instantiated through the PATH-level theorem (hypotheses: is_polygon, path_finiteb, path_octilinear of
   the f32 path, by vm_compute): the alpha of every pixel is 16*K (255 at K = 16) or 16*K-1 with K from ex_octagon_K.
   The fill itself is not evaluated in this proof. *)
Example ex_octagon_via_path_theorem :
  exists st', fill (dt_new 4 4 (repeat 0 16)) ex_octagon_path (Solid white) (mk_opts SrcOver f1 true) = Ok st' /\
    forall X Y, 0 <= X < 4 -> 0 <= Y < 4 ->
      let v := zn (d_buf st') (Y * 4 + X) in
      let K := nth (Z.to_nat X) (nth (Z.to_nat Y) ex_octagon_K []) 0 in
      (Z.shiftr v 24 = Z.min 255 (16 * K) \/ Z.shiftr v 24 = 16 * K - 1) /\ v = gray (Z.shiftr v 24).
Proof.
  destruct (fill_polygon_coverage_path_octilinear 4 4 ex_octagon_path ltac:(lia) ltac:(lia)
              ltac:(vm_compute; reflexivity) ltac:(vm_compute; reflexivity) ltac:(vm_compute; reflexivity))
    as (st' & F & _ & _ & _ & Px).
  exists st'. split; [exact F|].
  intros X Y HX HY. specialize (Px X Y HX HY). cbv zeta in Px |- *.
  remember (get_bounds _) as b eqn:Eb in Px. vm_compute in Eb. subst b.
  remember (map seg_geom _) as G eqn:EG in Px. vm_compute in EG.
  replace (r_in (mkrect 0 0 4 4) X Y) with true in Px by (unfold r_in; cbn [x0 y0 x1 y1]; lia).
  cbn [x0 y0 p_winding ex_octagon_path] in Px. destruct Px as (_ & P2 & P3). split; [|exact P3].
  destruct (four_cases X HX) as [-> | [-> | [-> | -> ]]]; destruct (four_cases Y HY) as [-> | [-> | [-> | -> ]]]; subst G;
    (set (K := Kpix_exact _ _ _ _ _ _) in P2; vm_compute in K; subst K;
     set (K' := nth _ _ _); vm_compute in K'; subst K'; exact P2).
Qed.
Print Assumptions ex_octagon_via_path_theorem.

(* the same through the grid theorem of Part 3 (hypotheses on the INTEGER polygon only), antialiasing off: a pixel is
   white exactly when cell 4X+3 of its first sample row is inside the exact octagon *)
Example ex_octagon_aliased_via_grid_theorem :
  exists st', fill (dt_new 4 4 (repeat 0 16)) ex_octagon_path (Solid white) (mk_opts SrcOver f1 false) = Ok st' /\
    forall X Y, 0 <= X < 4 -> 0 <= Y < 4 ->
      zn (d_buf st') (Y * 4 + X) =
        (if nth (Z.to_nat X) (nth (Z.to_nat Y)
              [[false; false; false; false]; [true; true; true; false]; [true; true; true; false];
               [false; true; false; false]] []) false then white else 0).
Proof.
  destruct (fill_grid_polygon_coverage_aliased_exact_slopes 4 4 NonZero (map op_of_zop ex_octagon) ex_octagon
              ltac:(lia) ltac:(lia) (grid_ops_of_zops_i32 _ ex_octagon_within) ltac:(vm_compute; reflexivity))
    as (st' & F & _ & _ & _ & Px).
  exists st'. split; [exact F|].
  intros X Y HX HY. specialize (Px X Y HX HY). cbv zeta in Px.
  remember (get_bounds _) as b eqn:Eb in Px. vm_compute in Eb. subst b.
  replace (r_in (mkrect 0 0 4 4) X Y) with true in Px by (unfold r_in; cbn [x0 y0 x1 y1]; lia).
  cbn [x0 y0] in Px. rewrite Px.
  destruct (four_cases X HX) as [-> | [-> | [-> | -> ]]]; destruct (four_cases Y HY) as [-> | [-> | [-> | -> ]]];
    (set (c := cov_exact _ _ _ _); vm_compute in c; subst c;
     set (c' := nth _ _ _); vm_compute in c'; subst c'; reflexivity).
Qed.
Print Assumptions ex_octagon_aliased_via_grid_theorem.
