(* From DrawTarget::fill to the coverage theorems (C01 glue, C14).
   Part 1: apply_path of a polygon is add_segs of an explicit segment list.
   Part 2: the mask byte becomes the pixel's alpha (opaque white, SrcOver, destination 0).
   Part 3: fill of a polygon on a cleared surface, end to end.
   Part 4: an integer-aligned rectangle has coverage 255 on exactly its pixels; fill_rect's two routes agree. *)
Require Import RQ.Base RQ.F32 RQ.Rect RQ.Pixel RQ.PixelProofs RQ.Surface RQ.Raster RQ.RasterProofs RQ.PathF RQ.PathOps
  RQ.Shader RQ.Target RQ.SurfaceProofs RQ.TargetProofs RQ.PixelCorollaries RQ.OpsProofs RQ.PremulDraw.
From Coq Require Import ZifyBool.
Ltac Zify.zify_post_hook ::= Z.to_euclidean_division_equations.

(* ===== Part 1: apply_path of a polygon is add_segs ===== *)

Definition is_poly_op (o : pathop) : bool :=
  match o with MoveTo _ | LineTo _ | Close => true | _ => false end.
Definition is_polygon (p : path) : bool := forallb is_poly_op (p_ops p).

(* the straight segment raster_add hands to add_edge for the (already transformed) points s -> e:
   swap is the float comparison e.y < s.y, the coordinates are the dot2 conversions *)
Definition seg_of (s e : pt) : seg :=
  mk_seg (flt (py e) (py s)) (f32_to_dot2 (px s)) (f32_to_dot2 (py s)) (f32_to_dot2 (px e)) (f32_to_dot2 (py e)).

(* what close() adds: the segment from the current point back to the subpath start, when both exist *)
Definition close_segs (cu fi : option pt) : list seg :=
  match fi, cu with Some fp, Some cp => [seg_of cp fp] | _, _ => [] end.

(* the segments of the remaining ops, given the cursor (current point, subpath start).  A LineTo without a
   current point first sets both to its own point and then adds the (degenerate) segment p -> p, exactly as
   the code does; MoveTo closes the open subpath first; the end of the path closes the last subpath.
   Curve ops are skipped (they are excluded by is_polygon). *)
Fixpoint poly_go (t : xform) (ops : list pathop) (cu fi : option pt) : list seg :=
  match ops with
  | [] => close_segs cu fi
  | MoveTo p :: rest => close_segs cu fi ++ poly_go t rest (Some (xf_point t p)) (Some (xf_point t p))
  | LineTo p :: rest =>
      let q := xf_point t p in
      match cu with
      | None => seg_of q q :: poly_go t rest (Some q) (Some q)
      | Some cp => seg_of cp q :: poly_go t rest (Some q) fi
      end
  | Close :: rest => close_segs cu fi ++ poly_go t rest fi fi
  | _ :: rest => poly_go t rest cu fi
  end.
Definition poly_segs (t : xform) (p : path) : list seg := poly_go t (p_ops p) None None.

Lemma add_segs_app r l1 l2 : add_segs r (l1 ++ l2) = add_segs (add_segs r l1) l2.
Proof. unfold add_segs. apply fold_left_app. Qed.
Lemma add_segs_cons r g l : add_segs r (g :: l) = add_segs (add_seg r g) l.
Proof. reflexivity. Qed.
Lemma add_segs_nil r : add_segs r [] = r.
Proof. reflexivity. Qed.

(* a straight raster_add does not look at the control point *)
Lemma raster_add_line r s e c : raster_add r s e false c = add_seg r (seg_of s e).
Proof.
  unfold raster_add, add_seg, seg_of. cbn [g_swap g_sx g_sy g_ex g_ey].
  rewrite add_edge_line. rewrite (add_edge_line _ _ _ _ _ _ 0 0). reflexivity.
Qed.

Lemma c_close_rz c : rz (c_close c) = add_segs (rz c) (close_segs (cur c) (first c)).
Proof.
  unfold c_close, close_segs. cbn [rz].
  destruct (first c) as [fp|]; [|reflexivity]. destruct (cur c) as [cp|]; [|reflexivity].
  rewrite raster_add_line. reflexivity.
Qed.
Lemma c_close_cur c : cur (c_close c) = first c.  Proof. reflexivity. Qed.
Lemma c_close_first c : first (c_close c) = first c.  Proof. reflexivity. Qed.

Lemma poly_fold t ops : forall c, forallb is_poly_op ops = true ->
  rz (c_close (fold_left (fun c op =>
    match op with
    | MoveTo p => c_move_to (c_close c) (xf_point t p)
    | LineTo p => c_line_to c (xf_point t p)
    | QuadTo cp p => c_quad_to c (xf_point t cp) (xf_point t p)
    | CubicTo c1 c2 p quads => c_cubic_to c (xf_point t c1) (xf_point t c2) (xf_point t p) quads
    | Close => c_close c
    end) ops c)) = add_segs (rz c) (poly_go t ops (cur c) (first c)).
Proof.
  induction ops as [|op rest IH]; intros c Hp.
  - cbn [fold_left poly_go]. apply c_close_rz.
  - cbn [forallb] in Hp. apply andb_true_iff in Hp. destruct Hp as [Hop Hrest].
    cbn [fold_left]. destruct op as [p|p|cp p|c1 c2 p quads|]; try discriminate Hop.
    + (* MoveTo *)
      rewrite (IH _ Hrest). cbn [poly_go]. rewrite add_segs_app.
      unfold c_move_to. cbn [rz cur first]. rewrite c_close_rz. reflexivity.
    + (* LineTo *)
      rewrite (IH _ Hrest). cbn [poly_go]. unfold c_line_to.
      destruct (cur c) as [cp|] eqn:Ec.
      * rewrite Ec. cbn [rz cur first]. rewrite raster_add_line. reflexivity.
      * cbn [rz cur first]. rewrite raster_add_line. reflexivity.
    + (* Close *)
      rewrite (IH _ Hrest). cbn [poly_go]. rewrite add_segs_app.
      rewrite c_close_rz, c_close_cur, c_close_first. reflexivity.
Qed.

(* apply_path on a path made of MoveTo / LineTo / Close only: the rasteriser receives exactly poly_segs, in order
   (whatever the cursor held on entry: apply_path resets it) *)
Theorem apply_path_polygon h t a b r p : is_polygon p = true -> h <> 0 ->
  rz (apply_path h t (mk_cursor a b r) p) = add_segs r (poly_segs t p).
Proof.
  intros Hp Hh. unfold apply_path. cbn [rz].
  replace (h =? 0) with false by lia.
  rewrite (poly_fold t (p_ops p) _ Hp). reflexivity.
Qed.
(* a surface of height 0: apply_path returns at once *)
Theorem apply_path_height0 t a b r p : rz (apply_path 0 t (mk_cursor a b r) p) = r.
Proof. reflexivity. Qed.

(* a segment whose two ends have the same dot2 ordinate (horizontal or degenerate) adds nothing, whatever its flag *)
Lemma add_seg_flat r g : g_sy g = g_ey g -> add_seg r g = r.
Proof.
  intros H. unfold add_seg. rewrite add_edge_line. rewrite H.
  destruct (g_swap g).
  - destruct ((g_ey g <? 0) || (r_h4 r <=? g_ey g)); [reflexivity|].
    replace (g_ey g <=? g_ey g) with true by lia. reflexivity.
  - destruct ((g_ey g <? 0) || (r_h4 r <=? g_ey g)); [reflexivity|].
    replace (g_ey g <=? g_ey g) with true by lia. reflexivity.
Qed.
(* hence the degenerate segment of a LineTo without current point, and the one of closing an already closed
   subpath, may be dropped from poly_segs without changing the rasteriser *)
Lemma add_seg_degenerate r q : add_seg r (seg_of q q) = r.
Proof. apply add_seg_flat. reflexivity. Qed.

Print Assumptions apply_path_polygon.

(* ===== Part 2: mask byte -> pixel ===== *)

Definition white : Z := 4294967295.
(* the premultiplied grey (m, m, m, m) *)
Definition gray (m : Z) : Z := m * 16843009.

Lemma unit_alpha_one : Z.min (unit_to_u32 f1) 255 = 255.
Proof. vm_compute. reflexivity. Qed.

(* fill's shader for a solid colour at alpha 1.0 is that colour (scaled by 256/256) *)
Lemma solid_shader_alpha_one ti c : choose_shader ti (Solid c) f1 = ShSolid (alpha_mul c 256).
Proof.
  change (choose_shader ti (Solid c) f1) with (ShSolid (alpha_mul c (alpha_to_alpha256 (Z.min (unit_to_u32 f1) 255)))).
  rewrite unit_alpha_one. reflexivity.
Qed.
Lemma white_shader ti : choose_shader ti (Solid white) f1 = ShSolid white.
Proof. rewrite solid_shader_alpha_one. f_equal. Qed.

(* fill's blitter: coverage mask, no clip mask, SrcOver *)
Lemma fill_blitter : choose_blitter true None SrcOver = BMask.
Proof. reflexivity. Qed.

Lemma white_table :
  forallb (fun m => (if m =? 0 then 0 else over_in white 0 m) =? gray m) (zrange 0 256) = true.
Proof. vm_compute. reflexivity. Qed.

(* the ShaderMaskBlitter pixel for opaque white over a cleared pixel: the grey (m,m,m,m); f m = m *)
Lemma blit_white_on_zero m c : 0 <= m <= 255 -> blit_px BMask white 0 m c = Ok (gray m).
Proof.
  intros Hm. cbn [blit_px]. f_equal.
  pose proof white_table as T. rewrite forallb_forall in T.
  specialize (T m ltac:(apply zrange_In; lia)). cbv beta in T. lia.
Qed.
Lemma gray_alpha m : 0 <= m <= 255 -> Z.shiftr (gray m) 24 = m.
Proof. intros Hm. unfold gray. rewrite Z.shiftr_div_pow2 by lia. change (2 ^ 24) with 16777216. lia. Qed.
Corollary mask_byte_is_alpha m c : 0 <= m <= 255 ->
  exists v, blit_px (choose_blitter true None SrcOver) white 0 m c = Ok v /\ Z.shiftr v 24 = m /\ v = gray m.
Proof. intros Hm. exists (gray m). rewrite fill_blitter, blit_white_on_zero by exact Hm. auto using gray_alpha. Qed.

Print Assumptions mask_byte_is_alpha.

(* ===== Part 3: fill of a polygon, end to end ===== *)

(* ---- composite with a coverage mask, SrcOver, no clip, no layer: always returns ---- *)
Lemma span_px_mask_total sh y : forall dsts x masks clips,
  exists out, span_px 0 BMask sh y x dsts masks clips = Ok out.
Proof.
  induction dsts as [|d t IH]; intros x masks clips; cbn [span_px]; [eexists; reflexivity|].
  replace (0 =? -1) with false by reflexivity. cbn [blit_px bind].
  destruct (IH (x + 1) (tl masks) (tl clips)) as [rest E]. rewrite E. cbn [bind]. eexists; reflexivity.
Qed.

Lemma blit_span_mask_total sh surf_w dest db y xa xb mask :
  xb - xa <= surf_w -> 0 <= (y - y0 db) * r_w db + xa - x0 db -> xa <= xb ->
  (y - y0 db) * r_w db + xa - x0 db + (xb - xa) <= zlen dest -> xb - xa <= zlen mask ->
  exists dest', blit_span 0 BMask sh surf_w dest db y xa xb mask = Ok dest'.
Proof.
  intros H1 H2 H3 H4 H5. unfold blit_span.
  replace (surf_w <? xb - xa) with false by lia.
  destruct (slice_in_range dest ((y - y0 db) * r_w db + xa - x0 db) ((y - y0 db) * r_w db + xa - x0 db + (xb - xa))
              ltac:(lia) H4) as [drow Ed].
  rewrite Ed. cbn [bind].
  replace (zlen mask <? xb - xa) with false by lia. cbn [bind].
  replace (0 <? 0) with false by reflexivity.
  destruct (span_px_mask_total sh y drow xa mask []) as [new En]. rewrite En. cbn [bind].
  eexists; reflexivity.
Qed.

Lemma composite_rows_mask_total sh surf_w db m mr r ys : forall dest,
  x1 r - x0 r <= surf_w -> x0 r <= x1 r ->
  (forall y, In y ys ->
     0 <= (y - y0 db) * r_w db + x0 r - x0 db /\
     (y - y0 db) * r_w db + x0 r - x0 db + (x1 r - x0 r) <= zlen dest /\
     0 <= (y - y0 mr) * r_w mr + x0 r - x0 mr /\ (y - y0 mr) * r_w mr + x1 r - x0 mr <= zlen m) ->
  exists dest', composite_rows 0 BMask sh surf_w db (Some m) mr r ys dest = Ok dest'.
Proof.
  induction ys as [|y t IH]; intros dest Hw Hx Hys; cbn [composite_rows]; [eexists; reflexivity|].
  destruct (Hys y (or_introl eq_refl)) as (A1 & A2 & A3 & A4).
  destruct (slice_in_range m ((y - y0 mr) * r_w mr + x0 r - x0 mr) ((y - y0 mr) * r_w mr + x1 r - x0 mr)
              ltac:(lia) A4) as [mrow Em].
  rewrite Em. cbn [bind].
  destruct (zlen_slice _ _ _ _ Em) as (Lm & _).
  destruct (blit_span_mask_total sh surf_w dest db y (x0 r) (x1 r) mrow Hw A1 Hx A2 ltac:(lia)) as [d1 Ed].
  rewrite Ed. cbn [bind].
  destruct (blit_span_spec _ _ _ _ _ _ _ _ _ _ Ed) as (L1 & _).
  apply IH; [exact Hw|exact Hx|].
  intros y' Hy'. rewrite L1. apply Hys. right. exact Hy'.
Qed.

(* a drawing state without clips and layers, probe off, whose buffer has the surface's size *)
Definition plain_dt (st : dt) : Prop :=
  d_probe st = 0 /\ d_layers st = [] /\ d_clips st = [] /\ zlen (d_buf st) = d_w st * d_h st.

Lemma r_inter_surface b w h : 0 <= x0 b -> x1 b <= w -> 0 <= y0 b -> y1 b <= h ->
  r_inter (r_inter (r_inter b (mkrect 0 0 w h)) (mkrect 0 0 w h)) b = b.
Proof.
  intros. destruct b as [a1 a2 a3 a4]. unfold r_inter. cbn [x0 y0 x1 y1] in *. f_equal; lia.
Qed.

(* composite through a coverage mask over the rectangle b (inside the surface), SrcOver: returns, and every pixel
   of b is the ShaderMaskBlitter function of its mask byte; the others are untouched *)
Lemma composite_mask_srcover st src m b alpha ti :
  plain_dt st -> xf_inverse (d_ctm st) = Some ti ->
  0 <= x0 b -> x0 b < x1 b -> x1 b <= d_w st -> 0 <= y0 b -> y0 b < y1 b -> y1 b <= d_h st ->
  r_w b * r_h b <= zlen m ->
  exists dest', composite st src (Some m) b b SrcOver alpha = Ok (set_dest st dest') /\
    zlen dest' = zlen (d_buf st) /\
    forall X Y, 0 <= X < d_w st -> 0 <= Y < d_h st ->
      let old := zn (d_buf st) (Y * d_w st + X) in
      zn dest' (Y * d_w st + X) =
        if r_in b X Y then
          let mk := zn m ((Y - y0 b) * r_w b + X - x0 b) in
          if mk =? 0 then old else over_in (shade (choose_shader ti src alpha) X Y) old mk
        else old.
Proof.
  intros (Hp & Hl & Hc & Hlen) Hinv Hx0 Hx Hx1 Hy0 Hy Hy1 Hm.
  assert (Hd : dest_of st = (d_buf st, surface_rect st)) by (unfold dest_of; rewrite Hl; reflexivity).
  assert (Hcb : clip_bounds st = surface_rect st) by (unfold clip_bounds; rewrite Hc; reflexivity).
  assert (Htc : top_clip_mask st = None) by (unfold top_clip_mask; rewrite Hc; reflexivity).
  assert (Hr : r_inter (r_inter (r_inter b (surface_rect st)) (surface_rect st)) b = b)
    by (apply r_inter_surface; lia).
  assert (He : r_empty b = false) by (unfold r_empty; lia).
  (* totality *)
  assert (Htot : exists st', composite st src (Some m) b b SrcOver alpha = Ok st').
  { unfold composite. rewrite Hinv, Hd, Hcb, Hr, He, Htc, Hp.
    change (choose_blitter true None SrcOver) with BMask.
    destruct (composite_rows_mask_total (choose_shader ti src alpha) (d_w st) (surface_rect st) m b b
                (zrange (y0 b) (y1 b)) (d_buf st)) as [dest' E].
    - lia.
    - lia.
    - intros y Hin. apply zrange_In in Hin. unfold surface_rect, r_w, r_h in *. cbn [x0 y0 x1 y1].
      rewrite Hlen. repeat split; nia.
    - rewrite E. cbn [bind]. eexists; reflexivity. }
  destruct Htot as [st' E].
  pose proof (composite_spec _ _ _ _ _ _ _ _ Hp E) as S.
  rewrite Hinv in S. cbv zeta in S. rewrite Hd in S. cbn [fst snd] in S.
  rewrite Hcb, Hr, He, Htc in S.
  change (choose_blitter (has_mask (Some m)) None SrcOver) with BMask in S.
  destruct S as (dest' & -> & L & P).
  exists dest'. split; [exact E|]. split; [exact L|].
  intros X Y HX HY. cbv zeta.
  specialize (P X Y). unfold didx, surface_rect, r_w in P. cbn [x0 y0 x1 y1] in P.
  replace ((Y - 0) * (d_w st - 0) + (X - 0)) with (Y * d_w st + X) in P by lia.
  specialize (P ltac:(lia) ltac:(rewrite Hlen; nia)).
  unfold mask_at in P. fold (r_w b) in P.
  destruct (r_in b X Y); [|exact P].
  cbn [blit_px] in P. injection P as P'. symmetry. exact P'.
Qed.

Lemma xf_inverse_identity : exists ti, xf_inverse xf_identity = Some ti.
Proof.
  assert (H : feq (xf_determinant xf_identity) f0 = false) by (vm_compute; reflexivity).
  unfold xf_inverse. cbv zeta. rewrite H. eexists; reflexivity.
Qed.

(* fill, once the rasteriser's answer is known: one composite through the mask over the bounds *)
Lemma fill_with_mask st p src o rz' m :
  let c := apply_path (d_h st) (d_ctm st) (d_cur st) p in
  let b := get_bounds (rz c) in
  (0 <? r_w b) && (0 <? r_h b) = true ->
  rasterize (if o_aa o then blit_super else blit_mask) (p_winding p) (rz c)
    (maskbuf_new (x0 b) (y0 b) (r_w b) (r_h b)) = Ok (rz', m) ->
  fill st p src o =
    do st2 <- composite (with_cur (with_cur st c) (mk_cursor (cur c) (first c) rz')) src (Some (m_buf m)) b b
                (o_blend o) (o_alpha o);
    Ok (reset_raster st2).
Proof.
  intros c b Hb Hr. unfold fill. fold c. fold b. rewrite Hb, Hr. cbn [bind].
  destruct (composite _ _ _ _ _ _ _); reflexivity.
Qed.
Lemma fill_empty_bounds st p src o :
  let c := apply_path (d_h st) (d_ctm st) (d_cur st) p in
  let b := get_bounds (rz c) in
  (0 <? r_w b) && (0 <? r_h b) = false -> fill st p src o = Ok (reset_raster (with_cur st c)).
Proof. intros c b Hb. unfold fill. fold c. fold b. rewrite Hb. reflexivity. Qed.

(* the rasteriser of a polygon fill on an idle rasteriser of the surface's size, and its bounds *)
Lemma fill_polygon_rz st p : is_polygon p = true -> d_h st <> 0 ->
  rz (d_cur st) = rast_new (d_w st) (d_h st) ->
  rz (apply_path (d_h st) (d_ctm st) (d_cur st) p) =
  add_segs (rast_new (d_w st) (d_h st)) (poly_segs (d_ctm st) p).
Proof.
  intros Hp Hh Hidle. destruct (d_cur st) as [ca cb cr]. cbn [rz] in Hidle. subst cr.
  apply apply_path_polygon; assumption.
Qed.

Lemma lines_bounds_in W H gs : let b := get_bounds (add_segs (rast_new W H) gs) in
  0 <= x0 b /\ x1 b <= W /\ 0 <= y0 b /\ y1 b <= H.
Proof.
  destruct (rasterize_setup W H gs) as (_ & Hw4 & Hh4 & _).
  cbv zeta. unfold get_bounds. cbn [x0 y0 x1 y1]. rewrite Hw4, Hh4, !dot2_to_int_eq. lia.
Qed.

Lemma plain_with_cur st c : plain_dt st -> plain_dt (with_cur st c).
Proof. intros H. exact H. Qed.

(* fill of a polygon through SrcOver on a state without clips and layers, for whatever mask the rasteriser
   returns: one ShaderMaskBlitter pixel per mask byte inside the bounds, nothing outside *)
Lemma fill_polygon_masked st p src alpha (aa : bool) ti r' mb :
  plain_dt st -> xf_inverse (d_ctm st) = Some ti -> 0 < d_h st ->
  rz (d_cur st) = rast_new (d_w st) (d_h st) -> is_polygon p = true ->
  let r := add_segs (rast_new (d_w st) (d_h st)) (poly_segs (d_ctm st) p) in
  let b := get_bounds r in
  ((0 <? r_w b) && (0 <? r_h b) = true ->
     rasterize (if aa then blit_super else blit_mask) (p_winding p) r (maskbuf_new (x0 b) (y0 b) (r_w b) (r_h b))
       = Ok (r', mb) /\ r_w b * r_h b <= zlen (m_buf mb)) ->
  exists st', fill st p src (mk_opts SrcOver alpha aa) = Ok st' /\
    d_w st' = d_w st /\ d_h st' = d_h st /\ d_clips st' = [] /\ d_layers st' = [] /\ d_ctm st' = d_ctm st /\
    d_probe st' = 0 /\ zlen (d_buf st') = zlen (d_buf st) /\
    forall X Y, 0 <= X < d_w st -> 0 <= Y < d_h st ->
      let old := zn (d_buf st) (Y * d_w st + X) in
      let new := zn (d_buf st') (Y * d_w st + X) in
      if r_in b X Y then
        let m := zn (m_buf mb) ((Y - y0 b) * r_w b + X - x0 b) in
        new = (if m =? 0 then old else over_in (shade (choose_shader ti src alpha) X Y) old m)
      else new = old.
Proof.
  intros Hplain Hinv Hh Hidle Hpoly r b HR.
  pose proof (fill_polygon_rz st p Hpoly ltac:(lia) Hidle) as Hrz. fold r in Hrz.
  destruct (lines_bounds_in (d_w st) (d_h st) (poly_segs (d_ctm st) p)) as (B1 & B2 & B3 & B4).
  fold r in B1, B2, B3, B4. fold b in B1, B2, B3, B4.
  destruct Hplain as (Hp & Hl & Hc & Hlen).
  destruct ((0 <? r_w b) && (0 <? r_h b)) eqn:Eb.
  - destruct (HR eq_refl) as [ER Hzl].
    pose proof (fill_with_mask st p src (mk_opts SrcOver alpha aa) r' mb) as F.
    cbv zeta in F.
    rewrite Hrz in F. fold b in F. specialize (F Eb ER). cbn [o_blend o_alpha] in F.
    set (st1 := with_cur (with_cur st (apply_path (d_h st) (d_ctm st) (d_cur st) p)) _) in F.
    assert (Hplain1 : plain_dt st1) by (repeat split; assumption).
    destruct (composite_mask_srcover st1 src (m_buf mb) b alpha ti Hplain1 Hinv
                ltac:(lia) ltac:(unfold r_w in Eb; lia) B2 ltac:(lia) ltac:(unfold r_h in Eb; lia) B4 Hzl)
      as (dest' & EC & Ld & Px).
    rewrite EC in F. cbn [bind] in F.
    exists (reset_raster (set_dest st1 dest')). split; [exact F|].
    assert (Hsd : set_dest st1 dest' = with_buf st1 dest').
    { unfold set_dest. change (d_layers st1) with (d_layers st). rewrite Hl. reflexivity. }
    rewrite Hsd. cbn [reset_raster with_cur with_buf d_w d_h d_clips d_layers d_ctm d_probe d_buf st1].
    repeat split; try assumption.
    intros X Y HX HY. cbv zeta. specialize (Px X Y HX HY). cbv zeta in Px.
    change (d_w st1) with (d_w st) in Px. change (d_buf st1) with (d_buf st) in Px.
    destruct (r_in b X Y); exact Px.
  - pose proof (fill_empty_bounds st p src (mk_opts SrcOver alpha aa)) as F. cbv zeta in F.
    rewrite Hrz in F. fold b in F. specialize (F Eb).
    eexists. split; [exact F|].
    cbn [reset_raster with_cur d_w d_h d_clips d_layers d_ctm d_probe d_buf].
    repeat split; try assumption.
    intros X Y HX HY. cbv zeta.
    replace (r_in b X Y) with false; [reflexivity|].
    unfold r_in, r_w, r_h in *. lia.
Qed.

(* C01 glue, general form: fill of a polygon with any source through SrcOver, antialiased, on a state without
   clips and layers (any invertible transform, any buffer contents).  The call returns; every pixel inside
   get_bounds is the ShaderMaskBlitter function of a mask byte m that is min(255,16K) or 16K-1 with
   K = Kpix of the polygon's segments; every other pixel is untouched. *)
Theorem fill_polygon_general st p src alpha ti :
  plain_dt st -> xf_inverse (d_ctm st) = Some ti -> 0 < d_h st ->
  rz (d_cur st) = rast_new (d_w st) (d_h st) -> is_polygon p = true ->
  let r := add_segs (rast_new (d_w st) (d_h st)) (poly_segs (d_ctm st) p) in
  let b := get_bounds r in
  exists st', fill st p src (mk_opts SrcOver alpha true) = Ok st' /\
    d_w st' = d_w st /\ d_h st' = d_h st /\ d_clips st' = [] /\ d_layers st' = [] /\ d_ctm st' = d_ctm st /\
    d_probe st' = 0 /\ zlen (d_buf st') = zlen (d_buf st) /\
    forall X Y, 0 <= X < d_w st -> 0 <= Y < d_h st ->
      let old := zn (d_buf st) (Y * d_w st + X) in
      let new := zn (d_buf st') (Y * d_w st + X) in
      if r_in b X Y then
        exists m, 0 <= m <= 255 /\
          (let K := Kpix (p_winding p) (y0 b * 4) (r_starts r) (x0 b * 4) (y0 b * 4) (Y - y0 b) (X - x0 b) in
           0 <= K <= 16 /\ (m = Z.min 255 (16 * K) \/ m = 16 * K - 1)) /\
          new = (if m =? 0 then old else over_in (shade (choose_shader ti src alpha) X Y) old m)
      else new = old.
Proof.
  intros Hplain Hinv Hh Hidle Hpoly r b.
  destruct ((0 <? r_w b) && (0 <? r_h b)) eqn:Eb.
  - destruct (rasterize_lines_coverage (p_winding p) (d_w st) (d_h st) (poly_segs (d_ctm st) p) ltac:(lia))
      as (r' & buf' & ER & Lb & Bok & Cov).
    { fold r. fold b. lia. }
    { fold r. fold b. lia. }
    fold r in ER, Lb, Cov. fold b in ER, Lb, Cov.
    destruct (fill_polygon_masked st p src alpha true ti r' (mk_maskbuf (x0 b * 4) (y0 b * 4) (r_w b) buf')
                Hplain Hinv Hh Hidle Hpoly) as (st' & F & Fr).
    { fold r. fold b. intros _. split; [exact ER|]. cbn [m_buf]. unfold zlen. rewrite Lb. lia. }
    exists st'. split; [exact F|].
    destruct Fr as (F1 & F2 & F3 & F4 & F5 & F6 & F7 & Px). repeat split; try assumption.
    intros X Y HX HY. cbv zeta. specialize (Px X Y HX HY). cbv zeta in Px. fold r in Px. fold b in Px.
    destruct (r_in b X Y) eqn:Ein; [|exact Px].
    unfold r_in in Ein. cbn [m_buf] in Px.
    exists (zn buf' ((Y - y0 b) * r_w b + X - x0 b)).
    assert (Hq : 0 <= Y - y0 b < r_h b) by (unfold r_h; lia).
    assert (Hpp : 0 <= X - x0 b < r_w b) by (unfold r_w; lia).
    specialize (Cov (Y - y0 b) (X - x0 b) Hq Hpp). cbv zeta in Cov.
    replace ((Y - y0 b) * r_w b + (X - x0 b)) with ((Y - y0 b) * r_w b + X - x0 b) in Cov by lia.
    split; [|split; [exact Cov|exact Px]].
    apply Bok. unfold zlen. rewrite Lb. nia.
  - destruct (fill_polygon_masked st p src alpha true ti (rast_new 0 0) (mk_maskbuf 0 0 0 [])
                Hplain Hinv Hh Hidle Hpoly) as (st' & F & Fr).
    { fold r. fold b. rewrite Eb. discriminate. }
    exists st'. split; [exact F|].
    destruct Fr as (F1 & F2 & F3 & F4 & F5 & F6 & F7 & Px). repeat split; try assumption.
    intros X Y HX HY. cbv zeta. specialize (Px X Y HX HY). cbv zeta in Px. fold r in Px. fold b in Px.
    replace (r_in b X Y) with false in *; [exact Px|].
    unfold r_in, r_w, r_h in *. lia.
Qed.
Print Assumptions fill_polygon_general.

(* the same with antialiasing off: the mask byte is 255 exactly when quarter cell 4p+3 of the pixel's first
   sample row is covered, else 0 *)
Theorem fill_polygon_general_aliased st p src alpha ti :
  plain_dt st -> xf_inverse (d_ctm st) = Some ti -> 0 < d_h st ->
  rz (d_cur st) = rast_new (d_w st) (d_h st) -> is_polygon p = true ->
  let r := add_segs (rast_new (d_w st) (d_h st)) (poly_segs (d_ctm st) p) in
  let b := get_bounds r in
  exists st', fill st p src (mk_opts SrcOver alpha false) = Ok st' /\
    d_w st' = d_w st /\ d_h st' = d_h st /\ d_clips st' = [] /\ d_layers st' = [] /\ d_ctm st' = d_ctm st /\
    d_probe st' = 0 /\ zlen (d_buf st') = zlen (d_buf st) /\
    forall X Y, 0 <= X < d_w st -> 0 <= Y < d_h st ->
      let old := zn (d_buf st) (Y * d_w st + X) in
      let new := zn (d_buf st') (Y * d_w st + X) in
      if r_in b X Y then
        new = (if cov (p_winding p) (live (y0 b * 4) (r_starts r) (y0 b * 4 + 4 * (Y - y0 b)))
                      (4 * (X - x0 b) + 3 + x0 b * 4)
               then over_in (shade (choose_shader ti src alpha) X Y) old 255 else old)
      else new = old.
Proof.
  intros Hplain Hinv Hh Hidle Hpoly r b.
  destruct ((0 <? r_w b) && (0 <? r_h b)) eqn:Eb.
  - destruct (rasterize_lines_coverage_aliased (p_winding p) (d_w st) (d_h st) (poly_segs (d_ctm st) p) ltac:(lia))
      as (r' & buf' & ER & Lb & Cov).
    { fold r. fold b. lia. }
    { fold r. fold b. lia. }
    fold r in ER, Lb, Cov. fold b in ER, Lb, Cov.
    destruct (fill_polygon_masked st p src alpha false ti r' (mk_maskbuf (x0 b * 4) (y0 b * 4) (r_w b) buf')
                Hplain Hinv Hh Hidle Hpoly) as (st' & F & Fr).
    { fold r. fold b. intros _. split; [exact ER|]. cbn [m_buf]. unfold zlen. rewrite Lb. lia. }
    exists st'. split; [exact F|].
    destruct Fr as (F1 & F2 & F3 & F4 & F5 & F6 & F7 & Px). repeat split; try assumption.
    intros X Y HX HY. cbv zeta. specialize (Px X Y HX HY). cbv zeta in Px. fold r in Px. fold b in Px.
    destruct (r_in b X Y) eqn:Ein; [|exact Px].
    unfold r_in in Ein. cbn [m_buf] in Px.
    assert (Hq : 0 <= Y - y0 b < r_h b) by (unfold r_h; lia).
    assert (Hpp : 0 <= X - x0 b < r_w b) by (unfold r_w; lia).
    specialize (Cov (Y - y0 b) (X - x0 b) Hq Hpp).
    replace ((Y - y0 b) * r_w b + (X - x0 b)) with ((Y - y0 b) * r_w b + X - x0 b) in Cov by lia.
    rewrite Cov in Px. rewrite Px.
    destruct (cov _ _ _); reflexivity.
  - destruct (fill_polygon_masked st p src alpha false ti (rast_new 0 0) (mk_maskbuf 0 0 0 [])
                Hplain Hinv Hh Hidle Hpoly) as (st' & F & Fr).
    { fold r. fold b. rewrite Eb. discriminate. }
    exists st'. split; [exact F|].
    destruct Fr as (F1 & F2 & F3 & F4 & F5 & F6 & F7 & Px). repeat split; try assumption.
    intros X Y HX HY. cbv zeta. specialize (Px X Y HX HY). cbv zeta in Px. fold r in Px. fold b in Px.
    replace (r_in b X Y) with false in *; [exact Px|].
    unfold r_in, r_w, r_h in *. lia.
Qed.
Print Assumptions fill_polygon_general_aliased.

(* ---- the statement of C01: opaque white on a cleared surface, identity transform ---- *)
Lemma white_over_zero m : 0 <= m <= 255 -> (if m =? 0 then 0 else over_in white 0 m) = gray m.
Proof. intros Hm. pose proof (blit_white_on_zero m 0 Hm) as H. cbn [blit_px] in H. injection H as H. exact H. Qed.

Lemma dt_new_plain w h : 0 <= w -> 0 <= h -> plain_dt (dt_new w h (repeat 0 (Z.to_nat (w * h)))).
Proof.
  intros Hw Hh. unfold plain_dt, dt_new. cbn [d_probe d_layers d_clips d_buf d_w d_h].
  repeat split. unfold zlen. rewrite repeat_length. nia.
Qed.

Theorem fill_polygon_coverage w h p : 0 <= w -> 0 < h -> is_polygon p = true ->
  let r := add_segs (rast_new w h) (poly_segs xf_identity p) in
  let b := get_bounds r in
  exists st', fill (dt_new w h (repeat 0 (Z.to_nat (w * h)))) p (Solid white) (mk_opts SrcOver f1 true) = Ok st' /\
    d_w st' = w /\ d_h st' = h /\ zlen (d_buf st') = w * h /\
    forall X Y, 0 <= X < w -> 0 <= Y < h ->
      let v := zn (d_buf st') (Y * w + X) in
      if r_in b X Y then
        let K := Kpix (p_winding p) (y0 b * 4) (r_starts r) (x0 b * 4) (y0 b * 4) (Y - y0 b) (X - x0 b) in
        0 <= K <= 16 /\ (Z.shiftr v 24 = Z.min 255 (16 * K) \/ Z.shiftr v 24 = 16 * K - 1) /\
        v = gray (Z.shiftr v 24)
      else v = 0.
Proof.
  intros Hw Hh Hpoly r b.
  destruct xf_inverse_identity as [ti Hti].
  set (st := dt_new w h (repeat 0 (Z.to_nat (w * h)))).
  destruct (fill_polygon_general st p (Solid white) f1 ti (dt_new_plain w h Hw ltac:(lia)) Hti Hh eq_refl Hpoly)
    as (st' & F & F1 & F2 & _ & _ & _ & _ & F7 & Px).
  change (d_w st) with w in *. change (d_h st) with h in *. change (d_ctm st) with xf_identity in *.
  fold r in Px. fold b in Px.
  exists st'. split; [exact F|]. split; [exact F1|]. split; [exact F2|].
  split. { rewrite F7. unfold st, dt_new, zlen. cbn [d_buf]. rewrite repeat_length. nia. }
  intros X Y HX HY. cbv zeta. specialize (Px X Y HX HY). cbv zeta in Px.
  change (d_buf st) with (repeat 0 (Z.to_nat (w * h))) in Px. rewrite zn_repeat0 in Px.
  destruct (r_in b X Y); [|exact Px].
  destruct Px as (m & Hm & HK & Hv).
  rewrite white_shader in Hv. cbn [shade] in Hv. rewrite (white_over_zero m Hm) in Hv.
  rewrite Hv, (gray_alpha m Hm). destruct HK as [HK1 HK2]. split; [exact HK1|]. split; [exact HK2|reflexivity].
Qed.
Print Assumptions fill_polygon_coverage.

Theorem fill_polygon_coverage_aliased w h p : 0 <= w -> 0 < h -> is_polygon p = true ->
  let r := add_segs (rast_new w h) (poly_segs xf_identity p) in
  let b := get_bounds r in
  exists st', fill (dt_new w h (repeat 0 (Z.to_nat (w * h)))) p (Solid white) (mk_opts SrcOver f1 false) = Ok st' /\
    d_w st' = w /\ d_h st' = h /\ zlen (d_buf st') = w * h /\
    forall X Y, 0 <= X < w -> 0 <= Y < h ->
      let v := zn (d_buf st') (Y * w + X) in
      if r_in b X Y then
        v = (if cov (p_winding p) (live (y0 b * 4) (r_starts r) (y0 b * 4 + 4 * (Y - y0 b)))
                    (4 * (X - x0 b) + 3 + x0 b * 4) then white else 0)
      else v = 0.
Proof.
  intros Hw Hh Hpoly r b.
  destruct xf_inverse_identity as [ti Hti].
  set (st := dt_new w h (repeat 0 (Z.to_nat (w * h)))).
  destruct (fill_polygon_general_aliased st p (Solid white) f1 ti (dt_new_plain w h Hw ltac:(lia)) Hti Hh eq_refl Hpoly)
    as (st' & F & F1 & F2 & _ & _ & _ & _ & F7 & Px).
  change (d_w st) with w in *. change (d_h st) with h in *. change (d_ctm st) with xf_identity in *.
  fold r in Px. fold b in Px.
  exists st'. split; [exact F|]. split; [exact F1|]. split; [exact F2|].
  split. { rewrite F7. unfold st, dt_new, zlen. cbn [d_buf]. rewrite repeat_length. nia. }
  intros X Y HX HY. cbv zeta. specialize (Px X Y HX HY). cbv zeta in Px.
  change (d_buf st) with (repeat 0 (Z.to_nat (w * h))) in Px. rewrite zn_repeat0 in Px.
  destruct (r_in b X Y); [|exact Px].
  rewrite white_shader in Px. cbn [shade] in Px. rewrite Px.
  destruct (cov _ _ _); [|reflexivity].
  pose proof (white_over_zero 255 ltac:(lia)) as H255. cbn [Z.eqb] in H255. exact H255.
Qed.
Print Assumptions fill_polygon_coverage_aliased.

(* a surface of height 0 (no pixels): apply_path returns at once, the bounds are empty, nothing is drawn *)
Lemma fill_height0 st p src o : d_h st = 0 -> rz (d_cur st) = rast_new (d_w st) 0 ->
  exists st', fill st p src o = Ok st' /\ d_buf st' = d_buf st.
Proof.
  intros Hh Hidle. unfold fill. rewrite Hh.
  destruct (d_cur st) as [ca cb cr]. cbn [rz] in Hidle. subst cr.
  change (apply_path 0 (d_ctm st) (mk_cursor ca cb (rast_new (d_w st) 0)) p)
    with (mk_cursor None None (rast_new (d_w st) 0)).
  cbn [rz]. unfold get_bounds, rast_new, r_h. cbn [r_top r_bottom r_left r_right r_w4 r_h4 x0 y0 x1 y1].
  replace ((0 <? r_w _) && (0 <? Z.min 0 (dot2_to_int (0 * 4)) - Z.max 0 0)) with false
    by (rewrite dot2_to_int_eq; lia).
  cbn [bind]. eexists. split; reflexivity.
Qed.

(* ===== Part 4: C14 - an integer-aligned rectangle ===== *)

(* the five segments apply_path produces for rect_path (MoveTo, three LineTo, Close, and the final close of the
   already closed subpath), for corners at the dot2 coordinates (A,B) (C,B) (C,D) (A,D).  The flag of the right
   edge (going down) is false and the one of the left edge (going up) is true, as the float comparisons give for
   B < D; the flags of the two horizontal segments and of the degenerate one do not matter. *)
Definition rect_segs (s1 s3 s5 : bool) (A B C D : Z) : list seg :=
  [mk_seg s1 A B C B; mk_seg false C B C D; mk_seg s3 C D A D; mk_seg true A D A B; mk_seg s5 A B A B].

Definition vedge (X B D w n : Z) : aedge := line_at (line_edge X B X D w) n.

Lemma rect_rast W H s1 s3 s5 A B C D : A <= C -> B < D ->
  add_segs (rast_new W H) (rect_segs s1 s3 s5 A B C D) =
  if (D <? 0) || (H * 4 <=? B) then rast_new W H else
  mk_rast (W * 4) (H * 4) (Z.min H (B / 4)) (Z.max 0 ((D + 3) / 4)) (Z.min W (A / 4)) (Z.max 0 ((C + 3) / 4))
    (if D <=? Z.max B 0 then []
     else [(Z.max B 0, vedge A B D (-1) (Z.max B 0 - B)); (Z.max B 0, vedge C B D 1 (Z.max B 0 - B))]) [].
Proof.
  intros HAC HBD. unfold rect_segs.
  rewrite add_segs_cons, add_seg_flat by reflexivity.
  rewrite add_segs_cons.
  rewrite add_segs_cons, (add_seg_flat _ (mk_seg s3 C D A D)) by reflexivity.
  rewrite add_segs_cons.
  rewrite add_segs_cons, (add_seg_flat _ (mk_seg s5 A B A B)) by reflexivity.
  rewrite add_segs_nil.
  unfold add_seg. cbn [g_swap g_sx g_sy g_ex g_ey].
  rewrite (add_edge_line (rast_new W H)). cbn [rast_new r_h4 r_w4 r_top r_bottom r_left r_right r_starts r_active].
  replace (D <=? B) with false by lia.
  destruct ((D <? 0) || (H * 4 <=? B)) eqn:E1.
  - rewrite add_edge_line. cbn [rast_new r_h4]. rewrite E1. reflexivity.
  - rewrite add_edge_line. cbn [r_h4 r_w4 r_top r_bottom r_left r_right r_starts r_active]. rewrite E1.
    replace (D <=? B) with false by lia. unfold vedge. rewrite !dot2_to_int_eq.
    destruct (D <=? Z.max B 0) eqn:E3; f_equal; lia.
Qed.

Lemma vedge_fullx X B D w n : B < D -> rnd (e_fullx (vedge X B D w n)) = X.
Proof.
  intros H. unfold vedge. rewrite line_edge_at_fullx.
  replace ((X - X) * 16384) with 0 by lia. rewrite Z.quot_0_l by lia.
  replace (X * 16384 + n * 0) with (X * 16384) by lia. apply rnd_dot16.
Qed.

Lemma rect_row_cov rule A B C D ys y0 y cc : B < D -> A < C -> y0 <= ys <= y -> y < D ->
  cov rule (live y0 [(ys, vedge A B D (-1) (ys - B)); (ys, vedge C B D 1 (ys - B))] y) cc
  = (A <=? cc) && (cc <? C).
Proof.
  intros HBD HAC Hy HyD. unfold live. cbn [filter fst snd].
  change (e_y2 (vedge A B D (-1) (ys - B))) with D. change (e_y2 (vedge C B D 1 (ys - B))) with D.
  replace ((y0 <=? ys) && (ys <=? y) && (y <? D)) with true by lia. cbn [map].
  unfold edge_at. cbn [fst snd]. unfold vedge. rewrite !line_at_line_at.
  fold (vedge A B D (-1) (ys - B + (y - ys))). fold (vedge C B D 1 (ys - B + (y - ys))).
  unfold cov. cbn [wsum existsb]. rewrite !vedge_fullx by exact HBD.
  unfold vedge. rewrite !line_at_wind. cbn [line_edge e_wind].
  destruct (A <=? cc) eqn:E1; destruct (C <=? cc) eqn:E2; destruct (cc <? A) eqn:E3; destruct (cc <? C) eqn:E4;
    try lia; destruct rule; reflexivity.
Qed.


(* the rasteriser state and the edges live on the sample rows of the mask, for a rectangle with corners on whole
   pixels (dot2 coordinates 4a, 4b, 4c, 4d), anywhere relative to the surface *)
Lemma rect_visible W H s1 s3 s5 a bb c d :
  a < c -> bb < d -> 0 <= W -> 0 <= H ->
  let r := add_segs (rast_new W H) (rect_segs s1 s3 s5 (4 * a) (4 * bb) (4 * c) (4 * d)) in
  let b := get_bounds r in
  r_empty b = r_empty (r_inter (mkrect a bb c d) (mkrect 0 0 W H)) /\
  (r_empty b = false -> b = r_inter (mkrect a bb c d) (mkrect 0 0 W H)) /\
  forall q p, 0 <= q < r_h b -> 0 <= p < r_w b ->
    r_starts r = [(y0 b * 4, vedge (4 * a) (4 * bb) (4 * d) (-1) (y0 b * 4 - 4 * bb));
                  (y0 b * 4, vedge (4 * c) (4 * bb) (4 * d) 1 (y0 b * 4 - 4 * bb))] /\
    0 <= y0 b * 4 /\ y0 b * 4 + 4 * q + 3 < 4 * d /\ 4 * a <= x0 b * 4 /\ x0 b * 4 + 4 * p + 3 < 4 * c.
Proof.
  intros Hac Hbd HW HH r b.
  assert (Er : r = _) by (apply rect_rast; lia).
  unfold r_inter. cbn [x0 y0 x1 y1].
  destruct ((4 * d <? 0) || (H * 4 <=? 4 * bb)) eqn:E1.
  - (* the rectangle is above or below the surface: nothing was added *)
    assert (Eb : b = mkrect (Z.max W 0) (Z.max H 0) (Z.min 0 (dot2_to_int (W * 4))) (Z.min 0 (dot2_to_int (H * 4)))).
    { unfold b. rewrite Er. reflexivity. }
    rewrite Eb. unfold r_empty, r_h, r_w. cbn [x0 y0 x1 y1]. rewrite !dot2_to_int_eq.
    split; [lia|]. split; [lia|]. intros; lia.
  - assert (Eb : b = mkrect (Z.max (Z.min W a) 0) (Z.max (Z.min H bb) 0) (Z.min (Z.max 0 c) W) (Z.min (Z.max 0 d) H)).
    { unfold b. rewrite Er. unfold get_bounds. cbn [r_left r_top r_right r_bottom r_w4 r_h4].
      rewrite !dot2_to_int_eq.
      replace (4 * a / 4) with a by lia. replace (4 * bb / 4) with bb by lia.
      replace ((4 * c + 3) / 4) with c by lia. replace ((4 * d + 3) / 4) with d by lia.
      replace (W * 4 / 4) with W by lia. replace (H * 4 / 4) with H by lia. reflexivity. }
    clear Er.
    split; [|split].
    + rewrite Eb. unfold r_empty. cbn [x0 y0 x1 y1].
      assert (Hx : (Z.max (Z.min W a) 0 <? Z.min (Z.max 0 c) W) = (Z.max a 0 <? Z.min c W)) by (clear - Hac HW; lia).
      assert (Hy : (Z.max (Z.min H bb) 0 <? Z.min (Z.max 0 d) H) = (Z.max bb 0 <? Z.min d H)) by (clear - Hbd HH; lia).
      rewrite Hx, Hy. reflexivity.
    + rewrite Eb. unfold r_empty. cbn [x0 y0 x1 y1]. intros Hne.
      assert (Hx : Z.max (Z.min W a) 0 < Z.min (Z.max 0 c) W) by (clear - Hne; lia).
      assert (Hy : Z.max (Z.min H bb) 0 < Z.min (Z.max 0 d) H) by (clear - Hne; lia).
      clear Hne E1. f_equal; lia.
    + intros q p Hq Hp.
      rewrite Eb in Hq, Hp |- *. unfold r_h, r_w in Hq, Hp. cbn [x0 y0 x1 y1] in *.
      assert (F1 : Z.max (4 * bb) 0 = Z.max (Z.min H bb) 0 * 4) by (clear - Hq; lia).
      assert (F2 : Z.max (Z.min H bb) 0 * 4 + 4 * q + 3 < 4 * d) by (clear - Hq; lia).
      assert (F3 : 4 * a <= Z.max (Z.min W a) 0 * 4) by (clear - Hp; lia).
      assert (F4 : Z.max (Z.min W a) 0 * 4 + 4 * p + 3 < 4 * c) by (clear - Hp; lia).
      assert (F5 : 0 <= q /\ 0 <= p) by (clear - Hq Hp; lia).
      unfold r. rewrite rect_rast by lia. rewrite E1.
      cbn [r_starts].
      replace (4 * d <=? Z.max (4 * bb) 0) with false by (clear - F1 F2 F5; lia).
      rewrite F1. split; [reflexivity|]. clear - F2 F3 F4 F5. lia.
Qed.

(* C14 (coverage): every pixel of the mask of such a rectangle has all its 16 quarter cells covered, under both
   winding rules; the mask's bounds are exactly rectangle /\ surface *)
Theorem rect_coverage_full rule W H s1 s3 s5 a bb c d :
  a < c -> bb < d -> 0 <= W -> 0 <= H ->
  let r := add_segs (rast_new W H) (rect_segs s1 s3 s5 (4 * a) (4 * bb) (4 * c) (4 * d)) in
  let b := get_bounds r in
  (r_empty b = false -> b = r_inter (mkrect a bb c d) (mkrect 0 0 W H)) /\
  forall q p, 0 <= q < r_h b -> 0 <= p < r_w b ->
    Kpix rule (y0 b * 4) (r_starts r) (x0 b * 4) (y0 b * 4) q p = 16.
Proof.
  intros Hac Hbd HW HH r b.
  destruct (rect_visible W H s1 s3 s5 a bb c d Hac Hbd HW HH) as (_ & V2 & V3). fold r in V2, V3. fold b in V2, V3.
  split; [exact V2|].
  intros q p Hq Hp. destruct (V3 q p Hq Hp) as (Es & F0 & F2 & F3 & F4). rewrite Es.
  remember (y0 b * 4) as my eqn:Emy. remember (x0 b * 4) as mx eqn:Emx.
  assert (F5 : 0 <= q /\ 0 <= p) by lia.
  clear Emy Emx Hq Hp Es V2 V3.
  unfold Kpix, count4.
  rewrite !rect_row_cov by lia.
  replace ((4 * a <=? 4 * p + mx) && (4 * p + mx <? 4 * c)) with true by lia.
  replace ((4 * a <=? 4 * p + 1 + mx) && (4 * p + 1 + mx <? 4 * c)) with true by lia.
  replace ((4 * a <=? 4 * p + 2 + mx) && (4 * p + 2 + mx <? 4 * c)) with true by lia.
  replace ((4 * a <=? 4 * p + 3 + mx) && (4 * p + 3 + mx <? 4 * c)) with true by lia.
  reflexivity.
Qed.
Print Assumptions rect_coverage_full.

(* hence both rasteriser blitters return a mask that is 255 on every pixel of the bounds *)
Theorem rect_mask_full (aa : bool) rule W H s1 s3 s5 a bb c d :
  a < c -> bb < d -> 0 <= W -> 0 <= H ->
  let r := add_segs (rast_new W H) (rect_segs s1 s3 s5 (4 * a) (4 * bb) (4 * c) (4 * d)) in
  let b := get_bounds r in
  0 <= r_w b -> 0 <= r_h b ->
  exists r' buf',
    rasterize (if aa then blit_super else blit_mask) rule r (maskbuf_new (x0 b) (y0 b) (r_w b) (r_h b))
      = Ok (r', mk_maskbuf (x0 b * 4) (y0 b * 4) (r_w b) buf') /\
    length buf' = Z.to_nat (r_w b * r_h b + 1) /\
    forall q p, 0 <= q < r_h b -> 0 <= p < r_w b -> zn buf' (q * r_w b + p) = 255.
Proof.
  intros Hac Hbd HW HH r b Hbw Hbh.
  destruct aa.
  - destruct (rasterize_lines_coverage rule W H (rect_segs s1 s3 s5 (4 * a) (4 * bb) (4 * c) (4 * d)) HH Hbw Hbh)
      as (r' & buf' & ER & Lb & _ & Cov).
    fold r in ER, Lb, Cov. fold b in ER, Lb, Cov.
    exists r', buf'. split; [exact ER|]. split; [exact Lb|].
    intros q p Hq Hp. specialize (Cov q p Hq Hp). cbv zeta in Cov.
    destruct (rect_coverage_full rule W H s1 s3 s5 a bb c d Hac Hbd HW HH) as [_ HK].
    fold r in HK. fold b in HK. rewrite (HK q p Hq Hp) in Cov. lia.
  - destruct (rasterize_lines_coverage_aliased rule W H (rect_segs s1 s3 s5 (4 * a) (4 * bb) (4 * c) (4 * d)) HH Hbw Hbh)
      as (r' & buf' & ER & Lb & Cov).
    fold r in ER, Lb, Cov. fold b in ER, Lb, Cov.
    exists r', buf'. split; [exact ER|]. split; [exact Lb|].
    intros q p Hq Hp. rewrite (Cov q p Hq Hp).
    destruct (rect_visible W H s1 s3 s5 a bb c d Hac Hbd HW HH) as (_ & _ & V3). fold r in V3. fold b in V3.
    destruct (V3 q p Hq Hp) as (Es & F0 & F2 & F3 & F4). rewrite Es.
    rewrite rect_row_cov by lia.
    replace ((4 * a <=? 4 * p + 3 + x0 b * 4) && (4 * p + 3 + x0 b * 4 <? 4 * c)) with true by lia.
    reflexivity.
Qed.
Print Assumptions rect_mask_full.

(* ---- C14: the two routes of fill_rect ---- *)

(* the corners of rect_path x y w h, transformed by t, fall on the whole pixels (a,b) (c,b) (c,d) (a,d), and the
   two float comparisons that orient the vertical edges come out as for b < d *)
Definition rect_aligned (t : xform) (x y w h : f32) (a b c d : Z) : Prop :=
  let P1 := xf_point t (x, y) in let P2 := xf_point t (fadd x w, y) in
  let P3 := xf_point t (fadd x w, fadd y h) in let P4 := xf_point t (x, fadd y h) in
  f32_to_dot2 (px P1) = 4 * a /\ f32_to_dot2 (py P1) = 4 * b /\
  f32_to_dot2 (px P2) = 4 * c /\ f32_to_dot2 (py P2) = 4 * b /\
  f32_to_dot2 (px P3) = 4 * c /\ f32_to_dot2 (py P3) = 4 * d /\
  f32_to_dot2 (px P4) = 4 * a /\ f32_to_dot2 (py P4) = 4 * d /\
  flt (py P3) (py P2) = false /\ flt (py P1) (py P4) = true.

Lemma rect_path_polygon x y w h : is_polygon (rect_path x y w h) = true.
Proof. reflexivity. Qed.

Lemma rect_path_segs t x y w h a b c d : rect_aligned t x y w h a b c d ->
  exists s1 s3 s5, poly_segs t (rect_path x y w h) = rect_segs s1 s3 s5 (4 * a) (4 * b) (4 * c) (4 * d).
Proof.
  intros (H1 & H2 & H3 & H4 & H5 & H6 & H7 & H8 & H9 & H10).
  unfold poly_segs, rect_path. cbn [p_ops poly_go close_segs app]. unfold seg_of.
  rewrite H1, H2, H3, H4, H5, H6, H7, H8, H9, H10.
  eexists _, _, _. reflexivity.
Qed.

(* non-vacuity: the rectangle (1,2) + (3,2) under the identity, in the form fill_rect_routes_agree asks for *)
Example rect_aligned_example :
  let x := of_int 1 in let y := of_int 2 in let w := of_int 3 in let h := of_int 2 in
  rect_aligned xf_identity x y w h (to_i32 x) (to_i32 y) (to_i32 x + to_i32 w) (to_i32 y + to_i32 h).
Proof. vm_compute. repeat split; reflexivity. Qed.

Lemma list_eq_zn (l1 l2 : list Z) : length l1 = length l2 ->
  (forall i, 0 <= i < zlen l1 -> zn l1 i = zn l2 i) -> l1 = l2.
Proof.
  intros HL H. apply (nth_ext l1 l2 0 0 HL). intros n Hn. specialize (H (Z.of_nat n)).
  unfold zn, zlen in H. rewrite Nat2Z.id in H. apply H. lia.
Qed.

Lemma clip_byte_noclip hm m w X Y : clip_byte (choose_blitter hm None m) w X Y = 0.
Proof. unfold choose_blitter. destruct hm; [destruct (mode_eqb m SrcOver)|]; reflexivity. Qed.

(* composite_spec on a state without clips and layers, over a non-empty rectangle inside the surface that is also
   the mask's rectangle, in surface coordinates *)
Lemma composite_spec_plain st src mask b0 blend alpha ti st' :
  plain_dt st -> xf_inverse (d_ctm st) = Some ti ->
  0 <= x0 b0 -> x0 b0 < x1 b0 -> x1 b0 <= d_w st -> 0 <= y0 b0 -> y0 b0 < y1 b0 -> y1 b0 <= d_h st ->
  composite st src mask b0 b0 blend alpha = Ok st' ->
  zlen (d_buf st') = zlen (d_buf st) /\
  forall X Y, 0 <= X < d_w st -> 0 <= Y < d_h st ->
    let old := zn (d_buf st) (Y * d_w st + X) in
    let new := zn (d_buf st') (Y * d_w st + X) in
    if r_in b0 X Y
    then blit_px (choose_blitter (has_mask mask) None blend) (shade (choose_shader ti src alpha) X Y) old
           (mask_at mask b0 X Y) 0 = Ok new
    else new = old.
Proof.
  intros (Hp & Hl & Hc & Hlen) Hinv Hx0 Hx Hx1 Hy0 Hy Hy1 E.
  assert (Hd : dest_of st = (d_buf st, surface_rect st)) by (unfold dest_of; rewrite Hl; reflexivity).
  assert (Hcb : clip_bounds st = surface_rect st) by (unfold clip_bounds; rewrite Hc; reflexivity).
  assert (Htc : top_clip_mask st = None) by (unfold top_clip_mask; rewrite Hc; reflexivity).
  assert (Hr : r_inter (r_inter (r_inter b0 (surface_rect st)) (surface_rect st)) b0 = b0)
    by (apply r_inter_surface; lia).
  assert (He : r_empty b0 = false) by (unfold r_empty; lia).
  pose proof (composite_spec _ _ _ _ _ _ _ _ Hp E) as S.
  rewrite Hinv in S. cbv zeta in S. rewrite Hd in S. cbn [fst snd] in S.
  rewrite Hcb, Hr, He, Htc in S.
  destruct S as (dest' & -> & L & P).
  assert (Hsd : set_dest st dest' = with_buf st dest') by (unfold set_dest; rewrite Hl; reflexivity).
  rewrite Hsd. cbn [with_buf d_buf]. split; [exact L|].
  intros X Y HX HY. cbv zeta.
  specialize (P X Y). unfold didx, surface_rect, r_w in P. cbn [x0 y0 x1 y1] in P.
  replace ((Y - 0) * (d_w st - 0) + (X - 0)) with (Y * d_w st + X) in P by lia.
  specialize (P ltac:(lia) ltac:(rewrite Hlen; nia)).
  rewrite clip_byte_noclip in P. exact P.
Qed.

Lemma r_in_inter_surface R w h X Y : r_in (r_inter R (mkrect 0 0 w h)) X Y = true -> 0 <= X < w /\ 0 <= Y < h.
Proof. unfold r_in, r_inter. cbn [x0 y0 x1 y1]. lia. Qed.

(* the general route of fill_rect on an aligned rectangle, pixel by pixel: inside rectangle /\ surface the
   masked blitter at coverage 255, outside nothing (whenever the call returns) *)
Lemma fill_rect_general_route st x y w h src o a bb c d ti stG :
  plain_dt st -> xf_inverse (d_ctm st) = Some ti -> 0 <= d_w st -> 0 < d_h st ->
  rz (d_cur st) = rast_new (d_w st) (d_h st) ->
  rect_aligned (d_ctm st) x y w h a bb c d -> a < c -> bb < d ->
  fill st (rect_path x y w h) src o = Ok stG ->
  let irect := r_inter (mkrect a bb c d) (surface_rect st) in
  zlen (d_buf stG) = zlen (d_buf st) /\
  forall X Y, 0 <= X < d_w st -> 0 <= Y < d_h st ->
    let old := zn (d_buf st) (Y * d_w st + X) in
    let new := zn (d_buf stG) (Y * d_w st + X) in
    if r_in irect X Y
    then blit_px (choose_blitter true None (o_blend o)) (shade (choose_shader ti src (o_alpha o)) X Y) old 255 0 = Ok new
    else new = old.
Proof.
  intros Hplain Hinv HW HH Hidle Hal Hac Hbd HG irect.
  destruct (rect_path_segs _ _ _ _ _ _ _ _ _ Hal) as (s1 & s3 & s5 & Hsegs).
  pose proof (fill_polygon_rz st (rect_path x y w h) (rect_path_polygon x y w h) ltac:(lia) Hidle) as Hrz.
  rewrite Hsegs in Hrz.
  set (r := add_segs (rast_new (d_w st) (d_h st)) (rect_segs s1 s3 s5 (4 * a) (4 * bb) (4 * c) (4 * d))) in *.
  set (b := get_bounds r).
  destruct (rect_visible (d_w st) (d_h st) s1 s3 s5 a bb c d Hac Hbd HW ltac:(lia)) as (V1 & V2 & _).
  fold r in V1, V2. fold b in V1, V2. fold (surface_rect st) in V1, V2. fold irect in V1, V2.
  destruct (lines_bounds_in (d_w st) (d_h st) (rect_segs s1 s3 s5 (4 * a) (4 * bb) (4 * c) (4 * d))) as (B1 & B2 & B3 & B4).
  fold r in B1, B2, B3, B4. fold b in B1, B2, B3, B4.
  destruct ((0 <? r_w b) && (0 <? r_h b)) eqn:Eb.
  - assert (Hne : r_empty b = false) by (unfold r_empty, r_w, r_h in *; lia).
    specialize (V2 Hne).
    destruct (rect_mask_full (o_aa o) (p_winding (rect_path x y w h)) (d_w st) (d_h st) s1 s3 s5 a bb c d Hac Hbd HW ltac:(lia))
      as (r' & buf' & ER & Lb & M).
    { fold r. fold b. lia. }
    { fold r. fold b. lia. }
    fold r in ER, Lb, M. fold b in ER, Lb, M.
    pose proof (fill_with_mask st (rect_path x y w h) src o r' (mk_maskbuf (x0 b * 4) (y0 b * 4) (r_w b) buf')) as F.
    cbv zeta in F. rewrite Hrz in F. fold b in F. specialize (F Eb ER). cbn [m_buf] in F.
    set (st1 := with_cur (with_cur st (apply_path (d_h st) (d_ctm st) (d_cur st) (rect_path x y w h))) _) in F.
    rewrite F in HG.
    destruct (composite st1 src (Some buf') b b (o_blend o) (o_alpha o)) as [st2|] eqn:EC; [|discriminate].
    cbn [bind] in HG. injection HG as <-.
    assert (Hplain1 : plain_dt st1) by exact Hplain.
    destruct (composite_spec_plain st1 src (Some buf') b (o_blend o) (o_alpha o) ti st2 Hplain1 Hinv
                ltac:(lia) ltac:(unfold r_w in Eb; lia) B2 ltac:(lia) ltac:(unfold r_h in Eb; lia) B4 EC) as (L & P).
    change (d_buf (reset_raster st2)) with (d_buf st2).
    change (d_buf st1) with (d_buf st) in *. change (d_w st1) with (d_w st) in *. change (d_h st1) with (d_h st) in *.
    split; [exact L|].
    intros X Y HX HY. cbv zeta. specialize (P X Y HX HY). cbv zeta in P.
    rewrite <- V2. destruct (r_in b X Y) eqn:Ein; [|exact P].
    cbn [has_mask] in P. unfold mask_at in P. unfold r_in in Ein.
    replace ((Y - y0 b) * r_w b + X - x0 b) with ((Y - y0 b) * r_w b + (X - x0 b)) in P by lia.
    rewrite M in P by (unfold r_h, r_w; lia). exact P.
  - pose proof (fill_empty_bounds st (rect_path x y w h) src o) as F. cbv zeta in F.
    rewrite Hrz in F. fold b in F. specialize (F Eb). rewrite F in HG. injection HG as <-.
    cbn [reset_raster with_cur d_buf]. split; [reflexivity|].
    intros X Y HX HY. cbv zeta.
    assert (Hem : r_empty irect = true) by (rewrite <- V1; unfold r_empty, r_w, r_h in *; lia).
    replace (r_in irect X Y) with false; [reflexivity|].
    unfold r_empty in Hem. unfold r_in. lia.
Qed.

(* the fast route: the unmasked blitter on the pixels of rectangle /\ surface *)
Lemma fill_rect_fast_route st src o R ti stF :
  plain_dt st -> xf_inverse (d_ctm st) = Some ti ->
  let irect := r_inter R (surface_rect st) in
  (if r_empty irect then Ok st else composite st src None irect irect (o_blend o) (o_alpha o)) = Ok stF ->
  zlen (d_buf stF) = zlen (d_buf st) /\
  forall X Y, 0 <= X < d_w st -> 0 <= Y < d_h st ->
    let old := zn (d_buf st) (Y * d_w st + X) in
    let new := zn (d_buf stF) (Y * d_w st + X) in
    if r_in irect X Y
    then blit_px (choose_blitter false None (o_blend o)) (shade (choose_shader ti src (o_alpha o)) X Y) old 0 0 = Ok new
    else new = old.
Proof.
  intros Hplain Hinv irect HF.
  destruct (r_empty irect) eqn:Ee.
  - injection HF as <-. split; [reflexivity|]. intros X Y HX HY. cbv zeta.
    replace (r_in irect X Y) with false; [reflexivity|]. unfold r_empty in Ee. unfold r_in. lia.
  - assert (Hb : 0 <= x0 irect /\ x0 irect < x1 irect /\ x1 irect <= d_w st /\
                 0 <= y0 irect /\ y0 irect < y1 irect /\ y1 irect <= d_h st).
    { unfold r_empty in Ee. unfold irect, r_inter, surface_rect in *. cbn [x0 y0 x1 y1] in *. lia. }
    destruct Hb as (B1 & B2 & B3 & B4 & B5 & B6).
    destruct (composite_spec_plain st src None irect (o_blend o) (o_alpha o) ti stF Hplain Hinv B1 B2 B3 B4 B5 B6 HF) as (L & P).
    split; [exact L|]. intros X Y HX HY. exact (P X Y HX HY).
Qed.

(* C14: both routes of fill_rect write the same pixels.  For an integer rectangle (the condition of the fast route)
   whose transformed corners convert to the expected dot2 integers (rect_aligned: a float fact kept as a
   hypothesis), every blend mode, every source, antialiasing on or off: whenever fill_rect (fast route) and the
   path fill of the same rectangle (general route) both return, the resulting buffers are equal. *)
Theorem fill_rect_routes_agree st x y w h src o stF stG :
  plain_dt st -> Forall px_ok (d_buf st) -> source_ok src ->
  d_ctm st = xf_identity -> 0 <= d_w st -> 0 < d_h st ->
  rz (d_cur st) = rast_new (d_w st) (d_h st) ->
  let ix := to_i32 x in let iy := to_i32 y in let iw := to_i32 w in let ih := to_i32 h in
  0 < iw -> 0 < ih ->
  i32_min <= ix + iw <= i32_max -> i32_min <= iy + ih <= i32_max ->
  rect_aligned xf_identity x y w h ix iy (ix + iw) (iy + ih) ->
  fill_rect st x y w h src o = Ok stF ->
  fill st (rect_path x y w h) src o = Ok stG ->
  d_buf stF = d_buf stG.
Proof.
  intros Hplain Hbuf Hsrc Hctm HW HH Hidle ix iy iw ih Hiw Hih Hsx Hsy Hal HF HG.
  unfold fill_rect in HF. fold ix iy iw ih in HF.
  destruct (xf_is_identity (d_ctm st) && _ && _) eqn:Econd; [|congruence].
  cbv zeta in HF. unfold sat32 in HF.
  replace (Z.max i32_min (Z.min i32_max (ix + iw))) with (ix + iw) in HF by lia.
  replace (Z.max i32_min (Z.min i32_max (iy + ih))) with (iy + ih) in HF by lia.
  replace (Z.min ix (ix + iw)) with ix in HF by lia. replace (Z.max ix (ix + iw)) with (ix + iw) in HF by lia.
  replace (Z.min iy (iy + ih)) with iy in HF by lia. replace (Z.max iy (iy + ih)) with (iy + ih) in HF by lia.
  destruct xf_inverse_identity as [ti Hti]. rewrite <- Hctm in Hti.
  destruct (fill_rect_fast_route st src o (mkrect ix iy (ix + iw) (iy + ih)) ti stF Hplain Hti HF) as (LF & PF).
  rewrite <- Hctm in Hal.
  destruct (fill_rect_general_route st x y w h src o ix iy (ix + iw) (iy + ih) ti stG Hplain Hti HW HH Hidle Hal
              ltac:(lia) ltac:(lia) HG) as (LG & PG).
  cbv zeta in PF, PG.
  destruct Hplain as (Hp & Hl & Hc & Hlen).
  apply list_eq_zn; [unfold zlen in LF, LG; lia|].
  intros i Hi. rewrite LF, Hlen in Hi.
  assert (HWpos : 0 < d_w st) by nia.
  assert (HX : 0 <= i mod d_w st < d_w st) by (apply Z.mod_pos_bound; lia).
  assert (HY : 0 <= i / d_w st < d_h st).
  { split; [apply Z.div_pos; lia|]. apply Z.div_lt_upper_bound; [lia|]. lia. }
  assert (Ei : i = i / d_w st * d_w st + i mod d_w st).
  { pose proof (Z.div_mod i (d_w st) ltac:(lia)). lia. }
  specialize (PF _ _ HX HY). specialize (PG _ _ HX HY). rewrite <- Ei in PF, PG.
  destruct (r_in _ _ _); [|congruence].
  set (s := shade (choose_shader ti src (o_alpha o)) (i mod d_w st) (i / d_w st)) in *.
  assert (Hs : px_ok s) by (apply shade_ok, choose_shader_ok; exact Hsrc).
  assert (Hd : px_ok (zn (d_buf st) i)) by (apply zn_ok; exact Hbuf).
  destruct Hs as [Ws Ps]. destruct Hd as [Wd Pd].
  rewrite (fast_path_pixel_eq_general (o_blend o) s (zn (d_buf st) i) Ws Wd Ps Pd) in PF.
  - congruence.
  - exists (zn (d_buf stF) i). exact PF.
Qed.
Print Assumptions fill_rect_routes_agree.

(* non-vacuity of the whole statement: a 6x5 surface of a translucent colour, the rectangle (1,2)+(3,2), a
   translucent solid source, Multiply; both routes return and give the same (changed) buffer *)
Example fill_rect_routes_example :
  let st := dt_new 6 5 (repeat 2151686160 30) in
  let x := of_int 1 in let y := of_int 2 in let w := of_int 3 in let h := of_int 2 in
  let o := mk_opts Multiply f1 true in
  match fill_rect st x y w h (Solid 2155905152) o, fill st (rect_path x y w h) (Solid 2155905152) o with
  | Ok a, Ok b => d_buf a = d_buf b /\ zn (d_buf a) 13 = 3229638736 /\ zn (d_buf a) 12 = 2151686160
  | _, _ => False
  end.
Proof. vm_compute. repeat split; reflexivity. Qed.

(* ===== Part 4b: totality (the calls return) ===== *)

(* ---- totality of composite without clip mask, for the 24 separable blend modes on premultiplied data ---- *)
Definition kind_total (k : blitter_kind) : Prop :=
  match k with BBlendMask md | BClipBlendMask md _ | BBlend md => In md separable_modes | _ => True end.
Definition kind_noclip (k : blitter_kind) : Prop :=
  match k with BClipMask _ | BClipBlendMask _ _ => False | _ => True end.

Lemma span_px_total k sh y : shader_ok sh -> kind_total k -> forall dsts x masks clips,
  Forall px_ok dsts -> Forall byte masks -> Forall byte clips ->
  exists out, span_px 0 k sh y x dsts masks clips = Ok out.
Proof.
  intros Hsh Hk. induction dsts as [|d t IH]; intros x masks clips Hd Hm Hc; cbn [span_px]; [eexists; reflexivity|].
  replace (0 =? -1) with false by reflexivity.
  inversion Hd as [|? ? Hd1 Hd2]; subst.
  destruct (blit_px_total k (shade sh x y) d (match masks with m :: _ => m | [] => 0 end)
              (match clips with c :: _ => c | [] => 0 end)
              (shade_ok sh x y Hsh) Hd1 (hd_byte masks Hm) (hd_byte clips Hc) Hk) as (v & Ev & _).
  rewrite Ev. cbn [bind].
  destruct (IH (x + 1) (tl masks) (tl clips) Hd2 (tl_Forall _ _ Hm) (tl_Forall _ _ Hc)) as [rest Er].
  rewrite Er. cbn [bind]. eexists; reflexivity.
Qed.

Lemma blit_span_total k sh surf_w dest db y xa xb mask :
  shader_ok sh -> kind_total k -> kind_noclip k -> Forall px_ok dest -> Forall byte mask ->
  xb - xa <= surf_w -> 0 <= (y - y0 db) * r_w db + xa - x0 db -> xa <= xb ->
  (y - y0 db) * r_w db + xa - x0 db + (xb - xa) <= zlen dest ->
  (kind_has_mask k = true -> xb - xa <= zlen mask) ->
  exists dest', blit_span 0 k sh surf_w dest db y xa xb mask = Ok dest'.
Proof.
  intros Hsh Hk Hnc Hd Hm H1 H2 H3 H4 H5. unfold blit_span.
  replace (surf_w <? xb - xa) with false by lia.
  destruct (slice_in_range dest ((y - y0 db) * r_w db + xa - x0 db) ((y - y0 db) * r_w db + xa - x0 db + (xb - xa))
              ltac:(lia) H4) as [drow Ed].
  rewrite Ed. cbn [bind].
  pose proof (slice_Forall _ _ _ _ _ Hd Ed) as Hdr.
  replace (0 <? 0) with false by reflexivity.
  destruct k as [|c|md|md c|md]; cbn [kind_noclip] in Hnc; try contradiction; cbn [bind kind_has_mask] in *.
  - specialize (H5 eq_refl). replace (zlen mask <? xb - xa) with false by lia. cbn [bind].
    destruct (span_px_total BMask sh y Hsh Hk drow xa mask [] Hdr Hm (Forall_nil _)) as [new En].
    rewrite En. cbn [bind]. eexists; reflexivity.
  - specialize (H5 eq_refl). replace (zlen mask <? xb - xa) with false by lia. cbn [bind].
    destruct (span_px_total (BBlendMask md) sh y Hsh Hk drow xa mask [] Hdr Hm (Forall_nil _)) as [new En].
    rewrite En. cbn [bind]. eexists; reflexivity.
  - destruct (span_px_total (BBlend md) sh y Hsh Hk drow xa [] [] Hdr (Forall_nil _) (Forall_nil _)) as [new En].
    rewrite En. cbn [bind]. eexists; reflexivity.
Qed.

Lemma kind_noclip_ok k : kind_noclip k -> kind_ok k.
Proof. destruct k; cbn; tauto. Qed.

Lemma composite_rows_total k sh surf_w db mask mr r ys : forall dest,
  shader_ok sh -> kind_total k -> kind_noclip k -> Forall px_ok dest ->
  match mask with Some m => Forall byte m | None => kind_has_mask k = false end ->
  x1 r - x0 r <= surf_w -> x0 r <= x1 r ->
  (forall y, In y ys ->
     0 <= (y - y0 db) * r_w db + x0 r - x0 db /\
     (y - y0 db) * r_w db + x0 r - x0 db + (x1 r - x0 r) <= zlen dest /\
     match mask with
     | Some m => 0 <= (y - y0 mr) * r_w mr + x0 r - x0 mr /\ (y - y0 mr) * r_w mr + x1 r - x0 mr <= zlen m
     | None => True
     end) ->
  exists dest', composite_rows 0 k sh surf_w db mask mr r ys dest = Ok dest'.
Proof.
  induction ys as [|y t IH]; intros dest Hsh Hk Hnc Hd Hm Hw Hx Hys; cbn [composite_rows]; [eexists; reflexivity|].
  destruct (Hys y (or_introl eq_refl)) as (A1 & A2 & A3).
  assert (Hrow : exists mrow,
            match mask with
            | Some m => slice m ((y - y0 mr) * r_w mr + x0 r - x0 mr) ((y - y0 mr) * r_w mr + x1 r - x0 mr)
            | None => Ok []
            end = Ok mrow /\ Forall byte mrow /\ (kind_has_mask k = true -> x1 r - x0 r <= zlen mrow)).
  { destruct mask as [m|].
    - destruct A3 as [A3 A4].
      destruct (slice_in_range m ((y - y0 mr) * r_w mr + x0 r - x0 mr) ((y - y0 mr) * r_w mr + x1 r - x0 mr)
                  ltac:(lia) A4) as [mrow Em].
      exists mrow. split; [exact Em|]. split; [exact (slice_Forall _ _ _ _ _ Hm Em)|].
      destruct (zlen_slice _ _ _ _ Em) as (Lm & _). intros _. lia.
    - exists []. split; [reflexivity|]. split; [constructor|]. rewrite Hm. discriminate. }
  destruct Hrow as (mrow & Em & Hmr & Hlm). rewrite Em. cbn [bind].
  destruct (blit_span_total k sh surf_w dest db y (x0 r) (x1 r) mrow Hsh Hk Hnc Hd Hmr Hw A1 Hx A2 Hlm) as [d1 Ed].
  rewrite Ed. cbn [bind].
  destruct (blit_span_spec _ _ _ _ _ _ _ _ _ _ Ed) as (L1 & _).
  pose proof (blit_span_ok k sh surf_w dest db y (x0 r) (x1 r) mrow d1 Hsh (kind_noclip_ok k Hnc) Hd Hmr Ed) as Hd1.
  apply IH; try assumption.
  intros y' Hy'. rewrite L1. apply Hys. right. exact Hy'.
Qed.

(* composite on a plain premultiplied state over a non-empty rectangle inside the surface (also the mask's
   rectangle), any of the 24 separable modes, any premultiplied source: it returns *)
Lemma composite_total_plain st src mask b0 blend alpha :
  plain_dt st -> Forall px_ok (d_buf st) -> source_ok src -> In blend separable_modes ->
  0 <= x0 b0 -> x0 b0 < x1 b0 -> x1 b0 <= d_w st -> 0 <= y0 b0 -> y0 b0 < y1 b0 -> y1 b0 <= d_h st ->
  match mask with Some m => Forall byte m /\ r_w b0 * r_h b0 <= zlen m | None => True end ->
  exists st', composite st src mask b0 b0 blend alpha = Ok st'.
Proof.
  intros (Hp & Hl & Hc & Hlen) Hbuf Hsrc Hmode Hx0 Hx Hx1 Hy0 Hy Hy1 Hm.
  unfold composite. destruct (xf_inverse (d_ctm st)) as [ti|]; [|eexists; reflexivity].
  assert (Hd : dest_of st = (d_buf st, surface_rect st)) by (unfold dest_of; rewrite Hl; reflexivity).
  assert (Hcb : clip_bounds st = surface_rect st) by (unfold clip_bounds; rewrite Hc; reflexivity).
  assert (Htc : top_clip_mask st = None) by (unfold top_clip_mask; rewrite Hc; reflexivity).
  assert (Hr : r_inter (r_inter (r_inter b0 (surface_rect st)) (surface_rect st)) b0 = b0)
    by (apply r_inter_surface; lia).
  assert (He : r_empty b0 = false) by (unfold r_empty; lia).
  rewrite Hd, Hcb, Hr, He, Htc, Hp.
  set (k := choose_blitter _ None blend).
  destruct (composite_rows_total k (choose_shader ti src alpha) (d_w st) (surface_rect st) mask b0 b0
              (zrange (y0 b0) (y1 b0)) (d_buf st)) as [dest' E].
  - apply choose_shader_ok. exact Hsrc.
  - unfold k, choose_blitter. destruct mask; [destruct (mode_eqb blend SrcOver)|]; cbn; auto.
  - unfold k, choose_blitter. destruct mask; [destruct (mode_eqb blend SrcOver)|]; cbn; auto.
  - exact Hbuf.
  - destruct mask as [m|]; [exact (proj1 Hm)|reflexivity].
  - lia.
  - lia.
  - intros y Hin. apply zrange_In in Hin. unfold surface_rect, r_w, r_h in *. cbn [x0 y0 x1 y1].
    rewrite Hlen. split; [nia|]. split; [nia|].
    destruct mask as [m|]; [|exact I]. destruct Hm as [_ Hm]. split; nia.
  - rewrite E. cbn [bind]. eexists; reflexivity.
Qed.


(* fill of a polygon never fails on a plain premultiplied state (idle rasteriser of the surface's size), for the 24
   separable blend modes, any premultiplied source, any alpha, antialiasing on or off, any transform *)
Theorem fill_polygon_total st p src o :
  plain_dt st -> Forall px_ok (d_buf st) -> source_ok src -> In (o_blend o) separable_modes ->
  0 < d_h st -> rz (d_cur st) = rast_new (d_w st) (d_h st) -> is_polygon p = true ->
  exists st', fill st p src o = Ok st'.
Proof.
  intros Hplain Hbuf Hsrc Hmode Hh Hidle Hpoly.
  pose proof (fill_polygon_rz st p Hpoly ltac:(lia) Hidle) as Hrz.
  set (r := add_segs (rast_new (d_w st) (d_h st)) (poly_segs (d_ctm st) p)) in *.
  set (b := get_bounds r).
  destruct (lines_bounds_in (d_w st) (d_h st) (poly_segs (d_ctm st) p)) as (B1 & B2 & B3 & B4).
  fold r in B1, B2, B3, B4. fold b in B1, B2, B3, B4.
  destruct ((0 <? r_w b) && (0 <? r_h b)) eqn:Eb.
  - assert (ER : exists r' buf', rasterize (if o_aa o then blit_super else blit_mask) (p_winding p) r
                   (maskbuf_new (x0 b) (y0 b) (r_w b) (r_h b)) = Ok (r', mk_maskbuf (x0 b * 4) (y0 b * 4) (r_w b) buf') /\
                   length buf' = Z.to_nat (r_w b * r_h b + 1)).
    { destruct (o_aa o).
      - destruct (rasterize_lines_coverage (p_winding p) (d_w st) (d_h st) (poly_segs (d_ctm st) p) ltac:(lia))
          as (r' & buf' & ER & Lb & _).
        { fold r. fold b. lia. }
        { fold r. fold b. lia. }
        exists r', buf'. split; assumption.
      - destruct (rasterize_lines_coverage_aliased (p_winding p) (d_w st) (d_h st) (poly_segs (d_ctm st) p) ltac:(lia))
          as (r' & buf' & ER & Lb & _).
        { fold r. fold b. lia. }
        { fold r. fold b. lia. }
        exists r', buf'. split; assumption. }
    destruct ER as (r' & buf' & ER & Lb).
    pose proof (rasterize_any_byte (o_aa o) _ _ _ _ _ _ _ _ ER) as Hbytes. cbn [m_buf] in Hbytes.
    pose proof (fill_with_mask st p src o r' (mk_maskbuf (x0 b * 4) (y0 b * 4) (r_w b) buf')) as F.
    cbv zeta in F. rewrite Hrz in F. fold b in F. specialize (F Eb ER). cbn [m_buf] in F.
    set (st1 := with_cur (with_cur st (apply_path (d_h st) (d_ctm st) (d_cur st) p)) _) in F.
    assert (Hm : Forall byte buf' /\ r_w b * r_h b <= zlen buf') by (split; [exact Hbytes|unfold zlen; rewrite Lb; lia]).
    destruct (composite_total_plain st1 src (Some buf') b (o_blend o) (o_alpha o) Hplain Hbuf Hsrc Hmode
                B1 ltac:(unfold r_w in Eb; lia) B2 B3 ltac:(unfold r_h in Eb; lia) B4 Hm) as [st2 EC].
    rewrite F, EC. cbn [bind]. eexists; reflexivity.
  - pose proof (fill_empty_bounds st p src o) as F. cbv zeta in F.
    rewrite Hrz in F. fold b in F. rewrite (F Eb). eexists; reflexivity.
Qed.

Print Assumptions fill_polygon_total.

(* ===== Part 5: rect_aligned for integer rectangles, from Flocq's correctness theorems ===== *)
From Flocq Require Import Core IEEE754.BinarySingleNaN IEEE754.Binary IEEE754.Bits.
Import Flocq.IEEE754.Binary.
From Coq Require Import Reals.

(* x is a finite float whose value is the integer n *)
Definition fint (x : f32) (n : Z) : Prop := is_finite 24 128 x = true /\ B2R 24 128 x = IZR n.

Definition small (n : Z) : Prop := Z.abs n < 16777216.

Lemma gf_int n : small n -> generic_format radix2 (SpecFloat.fexp 24 128) (IZR n).
Proof.
  intros Hn. change (SpecFloat.fexp 24 128) with (FLT_exp (-149) 24).
  apply generic_format_FLT. apply (FLT_spec radix2 (-149) 24 (IZR n) (Float radix2 n 0)).
  - unfold F2R. cbn [Fnum Fexp bpow]. ring.
  - cbn [Fnum]. exact Hn.
  - cbn [Fexp]. lia.
Qed.

Lemma round_int n : small n -> round radix2 (SpecFloat.fexp 24 128) (round_mode mode_NE) (IZR n) = IZR n.
Proof. intros Hn. apply round_generic; [apply valid_rnd_round_mode|apply gf_int; exact Hn]. Qed.

Lemma lt_emax_int n : small n -> Rlt_bool (Rabs (IZR n)) (bpow radix2 128) = true.
Proof.
  intros Hn. apply Rlt_bool_true. rewrite <- abs_IZR.
  apply Rlt_le_trans with (IZR 16777216).
  - apply IZR_lt. exact Hn.
  - change 16777216%Z with (2 ^ 24)%Z. rewrite (IZR_Zpower radix2) by lia. apply bpow_le. lia.
Qed.

Lemma of_int_fint n : small n -> fint (of_int n) n.
Proof.
  intros Hn. unfold of_int.
  pose proof (binary_normalize_correct 24 128 prec32 emax32 mode_NE n 0 false) as H.
  assert (E : F2R (Float radix2 n 0) = IZR n) by (unfold F2R; cbn [Fnum Fexp bpow]; ring).
  rewrite E in H. rewrite (round_int n Hn), (lt_emax_int n Hn) in H.
  destruct H as (H1 & H2 & _). split; assumption.
Qed.

Lemma fadd_fint x y a b : fint x a -> fint y b -> small (a + b) -> fint (fadd x y) (a + b).
Proof.
  intros [Fx Vx] [Fy Vy] Hs. unfold fadd, b32_plus. cbv zeta.
  pose proof (Bplus_correct 24 128 eq_refl eq_refl binop_nan_pl32 mode_NE x y Fx Fy) as H.
  rewrite Vx, Vy, <- plus_IZR in H. rewrite (round_int _ Hs), (lt_emax_int _ Hs) in H.
  destruct H as (H1 & H2 & _). split; assumption.
Qed.

Lemma fmul_fint x y a b : fint x a -> fint y b -> small (a * b) -> fint (fmul x y) (a * b).
Proof.
  intros [Fx Vx] [Fy Vy] Hs. unfold fmul, b32_mult. cbv zeta.
  pose proof (Bmult_correct 24 128 eq_refl eq_refl binop_nan_pl32 mode_NE x y) as H.
  rewrite Vx, Vy, <- mult_IZR in H. rewrite (round_int _ Hs), (lt_emax_int _ Hs) in H.
  destruct H as (H1 & H2 & _). rewrite Fx, Fy in H2. split; assumption.
Qed.

Lemma flt_fint x y a b : fint x a -> fint y b -> flt x y = (a <? b)%Z.
Proof.
  intros [Fx Vx] [Fy Vy]. unfold flt, fcmp, b32_compare.
  rewrite (Bcompare_correct 24 128 x y Fx Fy), Vx, Vy, Rcompare_IZR.
  unfold Z.ltb. destruct (a ?= b)%Z; reflexivity.
Qed.

(* feq against a finite float: the other one is finite with the same value *)
Lemma feq_fint x y a : fint x a -> feq x y = true -> fint y a.
Proof.
  intros [Fx Vx] H. unfold feq, fcmp, b32_compare in H.
  assert (Fy : is_finite 24 128 y = true).
  { destruct y as [s|s|s pl e|s m e e0]; try reflexivity;
      destruct x as [s'|s'|s' pl' e'|s' m' e' e0']; try discriminate Fx; cbn in H; try discriminate H;
      destruct s', s; discriminate H. }
  rewrite (Bcompare_correct 24 128 x y Fx Fy) in H.
  destruct (Rcompare (B2R 24 128 x) (B2R 24 128 y)) eqn:E; try discriminate H.
  apply Rcompare_Eq_inv in E. split; [exact Fy|]. rewrite <- E. exact Vx.
Qed.

Lemma ftrunc_fint x n : fint x n -> ftrunc x = Some n.
Proof.
  intros [Fx Vx]. destruct x as [s|s|s pl e|s m e Hb]; try discriminate Fx.
  - cbn in Vx. apply (eq_IZR 0 n) in Vx. subst n. reflexivity.
  - cbn [ftrunc]. cbn [B2R] in Vx. unfold F2R in Vx. cbn [Fnum Fexp] in Vx.
    destruct (0 <=? e)%Z eqn:Ee.
    + apply Z.leb_le in Ee. rewrite <- (IZR_Zpower radix2 e Ee), <- mult_IZR in Vx. apply eq_IZR in Vx.
      change (Zpower radix2 e) with (2 ^ e)%Z in Vx. f_equal. destruct s; cbn [cond_Zopp] in Vx; lia.
    + apply Z.leb_gt in Ee.
      assert (Hk : (0 <= - e)%Z) by lia.
      assert (Hpow : (0 < 2 ^ (- e))%Z) by (apply Z.pow_pos_nonneg; lia).
      assert (E : IZR (cond_Zopp s (Z.pos m)) = IZR (n * 2 ^ (- e))).
      { rewrite mult_IZR. change (2 ^ (- e))%Z with (Zpower radix2 (- e)). rewrite (IZR_Zpower radix2 (- e) Hk).
        rewrite <- Vx. rewrite Rmult_assoc, <- bpow_plus. replace (e + - e)%Z with 0%Z by lia. cbn [bpow]. ring. }
      apply eq_IZR in E. f_equal.
      destruct s; cbn [cond_Zopp] in E.
      * replace (Z.pos m) with ((- n) * 2 ^ (- e))%Z by lia. rewrite Z.quot_mul by lia. lia.
      * rewrite E. rewrite Z.quot_mul by lia. reflexivity.
Qed.

Lemma to_i32_fint x n : fint x n -> (i32_min <= n <= i32_max)%Z -> to_i32 x = n.
Proof. intros H Hr. unfold to_i32. rewrite (ftrunc_fint x n H). unfold clampz. lia. Qed.


Lemma f0_fint : fint f0 0.  Proof. apply of_int_fint. unfold small. lia. Qed.
Lemma f1_fint : fint f1 1.  Proof. apply of_int_fint. unfold small. lia. Qed.
Lemma f4_fint : fint f4 4.  Proof. apply of_int_fint. unfold small. lia. Qed.

Lemma fint_eq x a b : a = b -> fint x a -> fint x b.
Proof. intros ->. exact (fun H => H). Qed.

(* the identity transform maps an integer point to itself (as values) *)
Lemma ident_point_fint x y a b : fint x a -> fint y b -> small a -> small b ->
  fint (px (xf_point xf_identity (x, y))) a /\ fint (py (xf_point xf_identity (x, y))) b.
Proof.
  intros Hx Hy Ha Hb. unfold xf_point, xf_identity. cbn [m11 m12 m21 m22 m31 m32 px py fst snd].
  split.
  - apply (fint_eq _ (a * 1 + b * 0 + 0)); [lia|].
    apply fadd_fint; [apply fadd_fint; [apply fmul_fint; [exact Hx|exact f1_fint|]|apply fmul_fint; [exact Hy|exact f0_fint|]|]|exact f0_fint|];
      unfold small in *; lia.
  - apply (fint_eq _ (a * 0 + b * 1 + 0)); [lia|].
    apply fadd_fint; [apply fadd_fint; [apply fmul_fint; [exact Hx|exact f0_fint|]|apply fmul_fint; [exact Hy|exact f1_fint|]|]|exact f0_fint|];
      unfold small in *; lia.
Qed.

Lemma dot2_fint z n : fint z n -> Z.abs n < 4194304 -> f32_to_dot2 z = 4 * n.
Proof.
  intros Hz Hn. unfold f32_to_dot2.
  rewrite (to_i32_fint (fmul z f4) (n * 4)).
  - lia.
  - apply fmul_fint; [exact Hz|exact f4_fint|]. unfold small. lia.
  - unfold i32_min, i32_max. lia.
Qed.

(* the float fact behind C14: for an integer rectangle (what fill_rect's fast route tests with of_int (to_i32 v) == v)
   with coordinates below 2^22 in absolute value, the identity transform, the additions x+w, y+h and the conversion to
   dot2 are all exact, and the two orienting comparisons are those of the integers *)
Theorem rect_aligned_integer x y w h :
  let ix := to_i32 x in let iy := to_i32 y in let iw := to_i32 w in let ih := to_i32 h in
  feq (of_int ix) x = true -> feq (of_int iy) y = true -> feq (of_int iw) w = true -> feq (of_int ih) h = true ->
  Z.abs ix < 4194304 -> Z.abs iy < 4194304 -> Z.abs iw < 4194304 -> Z.abs ih < 4194304 ->
  Z.abs (ix + iw) < 4194304 -> Z.abs (iy + ih) < 4194304 -> 0 < ih ->
  rect_aligned xf_identity x y w h ix iy (ix + iw) (iy + ih).
Proof.
  intros ix iy iw ih Ex Ey Ew Eh Bx By Bw Bh Bxw Byh Hih.
  assert (Sx : small ix) by (unfold small; lia). assert (Sy : small iy) by (unfold small; lia).
  assert (Sw : small iw) by (unfold small; lia). assert (Sh : small ih) by (unfold small; lia).
  assert (Sxw : small (ix + iw)) by (unfold small; lia). assert (Syh : small (iy + ih)) by (unfold small; lia).
  pose proof (feq_fint _ _ _ (of_int_fint ix Sx) Ex) as Fx.
  pose proof (feq_fint _ _ _ (of_int_fint iy Sy) Ey) as Fy.
  pose proof (feq_fint _ _ _ (of_int_fint iw Sw) Ew) as Fw.
  pose proof (feq_fint _ _ _ (of_int_fint ih Sh) Eh) as Fh.
  pose proof (fadd_fint x w ix iw Fx Fw Sxw) as Fxw.
  pose proof (fadd_fint y h iy ih Fy Fh Syh) as Fyh.
  destruct (ident_point_fint x y ix iy Fx Fy Sx Sy) as [P1x P1y].
  destruct (ident_point_fint (fadd x w) y (ix + iw) iy Fxw Fy Sxw Sy) as [P2x P2y].
  destruct (ident_point_fint (fadd x w) (fadd y h) (ix + iw) (iy + ih) Fxw Fyh Sxw Syh) as [P3x P3y].
  destruct (ident_point_fint x (fadd y h) ix (iy + ih) Fx Fyh Sx Syh) as [P4x P4y].
  unfold rect_aligned. cbv zeta.
  rewrite (dot2_fint _ _ P1x Bx), (dot2_fint _ _ P1y By), (dot2_fint _ _ P2x Bxw), (dot2_fint _ _ P2y By),
          (dot2_fint _ _ P3x Bxw), (dot2_fint _ _ P3y Byh), (dot2_fint _ _ P4x Bx), (dot2_fint _ _ P4y Byh).
  rewrite (flt_fint _ _ _ _ P3y P2y), (flt_fint _ _ _ _ P1y P4y).
  repeat split; lia.
Qed.

(* C14 without the float hypothesis: for rectangles with |coordinates| < 2^22 and positive width and height *)
Theorem fill_rect_routes_agree_integer st x y w h src o stF stG :
  plain_dt st -> Forall px_ok (d_buf st) -> source_ok src ->
  d_ctm st = xf_identity -> 0 <= d_w st -> 0 < d_h st ->
  rz (d_cur st) = rast_new (d_w st) (d_h st) ->
  let ix := to_i32 x in let iy := to_i32 y in let iw := to_i32 w in let ih := to_i32 h in
  0 < iw -> 0 < ih ->
  Z.abs ix < 4194304 -> Z.abs iy < 4194304 -> Z.abs iw < 4194304 -> Z.abs ih < 4194304 ->
  Z.abs (ix + iw) < 4194304 -> Z.abs (iy + ih) < 4194304 ->
  fill_rect st x y w h src o = Ok stF ->
  fill st (rect_path x y w h) src o = Ok stG ->
  d_buf stF = d_buf stG.
Proof.
  intros Hplain Hbuf Hsrc Hctm HW HH Hidle ix iy iw ih Hiw Hih Bx By Bw Bh Bxw Byh HF HG.
  destruct (feq (of_int ix) x && feq (of_int iy) y && feq (of_int iw) w && feq (of_int ih) h) eqn:Eint.
  - apply andb_true_iff in Eint. destruct Eint as [Eint Eh].
    apply andb_true_iff in Eint. destruct Eint as [Eint Ew].
    apply andb_true_iff in Eint. destruct Eint as [Ex Ey].
    apply (fill_rect_routes_agree st x y w h src o stF stG Hplain Hbuf Hsrc Hctm HW HH Hidle Hiw Hih); try assumption;
      try (fold ix iy iw ih; unfold i32_min, i32_max; lia).
    apply rect_aligned_integer; assumption.
  - unfold fill_rect in HF. fold ix iy iw ih in HF. rewrite Eint in HF.
    rewrite andb_false_r in HF. cbn [andb] in HF. congruence.
Qed.
Print Assumptions rect_aligned_integer.
Print Assumptions fill_rect_routes_agree_integer.

(* C14, total form: for the 24 separable blend modes both routes of fill_rect return, with the same buffer *)
Theorem fill_rect_routes_total st x y w h src o :
  plain_dt st -> Forall px_ok (d_buf st) -> source_ok src -> In (o_blend o) separable_modes ->
  d_ctm st = xf_identity -> 0 <= d_w st -> 0 < d_h st ->
  rz (d_cur st) = rast_new (d_w st) (d_h st) ->
  let ix := to_i32 x in let iy := to_i32 y in let iw := to_i32 w in let ih := to_i32 h in
  0 < iw -> 0 < ih ->
  Z.abs ix < 4194304 -> Z.abs iy < 4194304 -> Z.abs iw < 4194304 -> Z.abs ih < 4194304 ->
  Z.abs (ix + iw) < 4194304 -> Z.abs (iy + ih) < 4194304 ->
  exists stF stG,
    fill_rect st x y w h src o = Ok stF /\ fill st (rect_path x y w h) src o = Ok stG /\ d_buf stF = d_buf stG.
Proof.
  intros Hplain Hbuf Hsrc Hmode Hctm HW HH Hidle ix iy iw ih Hiw Hih Bx By Bw Bh Bxw Byh.
  destruct (fill_polygon_total st (rect_path x y w h) src o Hplain Hbuf Hsrc Hmode HH Hidle (rect_path_polygon x y w h))
    as [stG HG].
  assert (HF : exists stF, fill_rect st x y w h src o = Ok stF).
  { unfold fill_rect. fold ix iy iw ih.
    destruct (xf_is_identity (d_ctm st) && _ && _); [|exists stG; exact HG].
    cbv zeta.
    set (irect := r_inter _ (surface_rect st)).
    destruct (r_empty irect) eqn:Ee; [eexists; reflexivity|].
    assert (Hb : 0 <= x0 irect /\ x0 irect < x1 irect /\ x1 irect <= d_w st /\
                 0 <= y0 irect /\ y0 irect < y1 irect /\ y1 irect <= d_h st).
    { unfold r_empty in Ee. unfold irect, r_inter, surface_rect in *. cbn [x0 y0 x1 y1] in *. lia. }
    destruct Hb as (B1 & B2 & B3 & B4 & B5 & B6).
    exact (composite_total_plain st src None irect (o_blend o) (o_alpha o) Hplain Hbuf Hsrc Hmode B1 B2 B3 B4 B5 B6 I). }
  destruct HF as [stF HF].
  exists stF, stG. split; [exact HF|]. split; [exact HG|].
  exact (fill_rect_routes_agree_integer st x y w h src o stF stG Hplain Hbuf Hsrc Hctm HW HH Hidle Hiw Hih
           Bx By Bw Bh Bxw Byh HF HG).
Qed.
Print Assumptions fill_rect_routes_total.
