(* C19, further clauses: SolidSource::to_u32 is the word (A<<24)|(R<<16)|(G<<8)|B whose byte view is B,G,R,A;
   a byte written through the byte view is the byte read back through it and the other three bytes of the word
   keep their values (writes through one view are visible through the other); the byte view of a buffer is laid
   out word after word. *)
Require Import RQ.Base RQ.Pixel RQ.PixelProofs RQ.PixelFormat RQ.MiscProofs.
From Coq Require Import ZifyBool.
Ltac Zify.zify_post_hook ::= Z.to_euclidean_division_equations.

Lemma to_u32_is_pack a r g b : to_u32 a r g b = pack a r g b.
Proof. unfold to_u32, pack. rewrite <- Z.lor_assoc. reflexivity. Qed.

Theorem to_u32_value a r g b : byte a -> byte r -> byte g -> byte b ->
  to_u32 a r g b = 16777216 * a + 65536 * r + 256 * g + b.
Proof. intros Ha Hr Hg Hb. rewrite to_u32_is_pack, pack_eq by assumption. lia. Qed.

Theorem to_u32_bytes a r g b : byte a -> byte r -> byte g -> byte b ->
  word_bytes (to_u32 a r g b) = [b; g; r; a].
Proof.
  intros Ha Hr Hg Hb. rewrite word_bytes_are_bgra, to_u32_is_pack.
  rewrite get_a_pack, get_r_pack, get_g_pack, get_b_pack by assumption. reflexivity.
Qed.

(* four bytes determine a word whose bytes they are *)
Theorem bytes_word_roundtrip b0 b1 b2 b3 : byte b0 -> byte b1 -> byte b2 -> byte b3 ->
  word_bytes (bytes_word [b0; b1; b2; b3]) = [b0; b1; b2; b3].
Proof.
  unfold byte. intros H0 H1 H2 H3. unfold word_bytes, bytes_word.
  rewrite !land_255, !shiftr_n by lia.
  change (2 ^ 8) with 256. change (2 ^ 16) with 65536. change (2 ^ 24) with 16777216.
  repeat f_equal; lia.
Qed.

Lemma byte_mod x : byte (x mod 256).
Proof. unfold byte. pose proof (Z.mod_pos_bound x 256 eq_refl). lia. Qed.
Lemma word_bytes_are_bytes p : Forall byte (word_bytes p).
Proof. unfold word_bytes. rewrite !land_255. repeat (apply Forall_cons; [apply byte_mod|]). apply Forall_nil. Qed.

Lemma word_bytes_four w :
  exists b0 b1 b2 b3, word_bytes w = [b0; b1; b2; b3] /\ byte b0 /\ byte b1 /\ byte b2 /\ byte b3.
Proof.
  unfold word_bytes. rewrite !land_255. do 4 eexists. split; [reflexivity|].
  split; [apply byte_mod|split; [apply byte_mod|split; apply byte_mod]].
Qed.

(* the word written back by a one-byte store through the byte view: byte j becomes v, the other three stay *)
Definition store_byte (w j v : Z) : Z := bytes_word (splice (word_bytes w) j [v]).

Theorem store_byte_visible w j v : 0 <= j < 4 -> byte v ->
  word_bytes (store_byte w j v) = splice (word_bytes w) j [v].
Proof.
  intros Hj Hv. unfold store_byte.
  destruct (word_bytes_four w) as (b0 & b1 & b2 & b3 & E & H0 & H1 & H2 & H3). rewrite E.
  assert (j = 0 \/ j = 1 \/ j = 2 \/ j = 3) as [ -> | [ -> | [ -> | -> ] ] ] by lia;
    cbv [splice Z.to_nat Pos.to_nat Pos.iter_op Nat.add firstn skipn length app];
    apply bytes_word_roundtrip; assumption.
Qed.

(* what a reader of the word view sees after that store: channel j of B,G,R,A is v, the others are unchanged *)
Theorem store_byte_channels w v : byte v ->
  (get_b (store_byte w 0 v) = v /\ get_g (store_byte w 0 v) = get_g w /\ get_r (store_byte w 0 v) = get_r w /\ get_a (store_byte w 0 v) = get_a w) /\
  (get_b (store_byte w 1 v) = get_b w /\ get_g (store_byte w 1 v) = v /\ get_r (store_byte w 1 v) = get_r w /\ get_a (store_byte w 1 v) = get_a w) /\
  (get_b (store_byte w 2 v) = get_b w /\ get_g (store_byte w 2 v) = get_g w /\ get_r (store_byte w 2 v) = v /\ get_a (store_byte w 2 v) = get_a w) /\
  (get_b (store_byte w 3 v) = get_b w /\ get_g (store_byte w 3 v) = get_g w /\ get_r (store_byte w 3 v) = get_r w /\ get_a (store_byte w 3 v) = v).
Proof.
  intros Hv.
  pose proof (store_byte_visible w 0 v ltac:(lia) Hv) as E0.
  pose proof (store_byte_visible w 1 v ltac:(lia) Hv) as E1.
  pose proof (store_byte_visible w 2 v ltac:(lia) Hv) as E2.
  pose proof (store_byte_visible w 3 v ltac:(lia) Hv) as E3.
  rewrite word_bytes_are_bgra in E0, E1, E2, E3.
  rewrite (word_bytes_are_bgra w) in E0, E1, E2, E3.
  cbv [splice Z.to_nat Pos.to_nat Pos.iter_op Nat.add firstn skipn length app] in E0, E1, E2, E3.
  injection E0 as ? ? ? ?. injection E1 as ? ? ? ?. injection E2 as ? ? ? ?. injection E3 as ? ? ? ?.
  repeat split; assumption.
Qed.

(* the byte view is laid out word after word: byte 4i+j of the view is byte j of word i *)
Theorem byte_view_nth buf : forall i j, (i < length buf)%nat -> (j < 4)%nat ->
  nth (4 * i + j) (byte_view buf) 0 = nth j (word_bytes (nth i buf 0)) 0.
Proof.
  induction buf as [|w t IH]; intros i j Hi Hj; [cbn in Hi; lia|].
  unfold byte_view. cbn [flat_map]. fold (byte_view t).
  destruct i as [|i].
  - cbn [nth]. rewrite app_nth1 by (cbn; lia). f_equal.
  - cbn [nth length] in *. rewrite app_nth2 by (cbn [word_bytes length]; lia).
    replace (4 * S i + j - length (word_bytes w))%nat with (4 * i + j)%nat by (cbn [word_bytes length]; lia).
    apply IH; lia.
Qed.
