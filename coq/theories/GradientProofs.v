(* GradientProofs: the gradient colour table (Gradient::build_lut of sw-composite 0.7.16 as modelled in Shader.v)
   and the integer stage of the gradient parameter (property C12).  New lemma file; no model definition is changed. *)
Require Import RQ.Base RQ.F32 RQ.Rect RQ.Pixel RQ.PixelProofs RQ.PathF RQ.Shader RQ.PremulDraw.
From Coq Require Import ZArith List Lia Bool ZifyBool.
Import ListNotations.
Open Scope Z_scope.
Ltac Zify.zify_post_hook ::= Z.to_euclidean_division_equations.

(* ================================================================== *)
(** * 0. Small facts                                                    *)
(* ================================================================== *)

Lemma stop_pos_nonneg s : 0 <= stop_pos s.
Proof. unfold stop_pos. apply to_u32_nonneg. Qed.

Lemma lerpc_same c t : byte c -> lerpc c c t = c.
Proof. unfold byte, lerpc. intros H. rewrite Z.sub_diag, Z.mul_0_l. lia. Qed.

Lemma lerp_same a t : wf_px a -> 0 <= t <= 256 -> lerp a a t = a.
Proof.
  intros Ha Ht. rewrite lerp_pack by assumption. bytes_of a.
  apply pack_is; try assumption; rewrite lerpc_same; unfold byte; lia.
Qed.

(* the channels of premultiply_t: alpha is kept, a colour channel c becomes muldiv255 c a (for a < 255) *)
Definition premulc (c a : Z) : Z := if a <? 255 then muldiv255 c a else c.

Theorem premultiply_t_channels u :
  get_a (premultiply_t u) = get_a u /\
  get_r (premultiply_t u) = premulc (get_r u) (get_a u) /\
  get_g (premultiply_t u) = premulc (get_g u) (get_a u) /\
  get_b (premultiply_t u) = premulc (get_b u) (get_a u).
Proof.
  unfold premultiply_t, premulc. cbv zeta. bytes_of u.
  assert (byte (get_a u)) by (unfold byte; lia). assert (byte (get_r u)) by (unfold byte; lia).
  assert (byte (get_g u)) by (unfold byte; lia). assert (byte (get_b u)) by (unfold byte; lia).
  destruct (get_a u <? 255).
  - rewrite get_a_pack, get_r_pack, get_g_pack, get_b_pack by (try assumption; apply muldiv255_byte; assumption). auto.
  - rewrite get_a_pack, get_r_pack, get_g_pack, get_b_pack by assumption. auto.
Qed.

(* the interpolation weight of the k-th entry of a run of length d: k * floor(65536/d), rounded to 1/256 *)
Definition lut_weight (d k : Z) : Z := Z.shiftr (k * (65536 / d) + 128) 8.

Lemma lut_weight_eq d k : lut_weight d k = (k * (65536 / d) + 128) / 256.
Proof. unfold lut_weight. apply shiftr8. Qed.

Lemma lut_weight_range d k : 1 <= d -> 0 <= k <= d -> 0 <= lut_weight d k <= 256.
Proof.
  intros Hd Hk. rewrite lut_weight_eq.
  assert (0 <= 65536 / d) by (apply Z.div_pos; lia).
  assert (d * (65536 / d) <= 65536) by (apply Z.mul_div_le; lia).
  assert (0 <= k * (65536 / d) <= 65536) by nia.
  lia.
Qed.

Lemma lut_weight_0 d : lut_weight d 0 = 0.
Proof. reflexivity. Qed.

Lemma lut_weight_mono d k k' : 1 <= d -> 0 <= k <= k' -> lut_weight d k <= lut_weight d k'.
Proof.
  intros Hd Hk. rewrite !lut_weight_eq.
  assert (0 <= 65536 / d) by (apply Z.div_pos; lia).
  apply Z.div_le_mono; [lia|]. nia.
Qed.

(* the unpremultiplied channel of entry k of a run of d entries between channel values ca and cb is
   u = ca + floor((cb - ca) * w / 256), w = lut_weight d k.  Against the exact value x = ca + (cb - ca) * k / d:
   -2.5 < u - x < 1.5 (real numbers; stated after multiplication by 2d) *)
Lemma interp_error d k ca cb : 1 <= d -> 0 <= k <= d -> k <= 255 -> byte ca -> byte cb ->
  let w := lut_weight d k in
  let u := ca + (cb - ca) * w / 256 in
  - 5 * d < 2 * (d * (u - ca) - (cb - ca) * k) < 3 * d.
Proof.
  intros Hd Hk Hk' Ha Hb w u. subst u. unfold byte in *.
  pose proof (lut_weight_range d k Hd Hk) as Hw. fold w in Hw.
  assert (Hw2 : 256 * w <= k * (65536 / d) + 128 < 256 * w + 256) by (unfold w; rewrite lut_weight_eq; lia).
  assert (Hq : d * (65536 / d) <= 65536 < d * (65536 / d) + d) by lia.
  set (q := 65536 / d) in *. clearbody q. clearbody w.
  set (D := cb - ca) in *. assert (HD : -255 <= D <= 255) by lia. clearbody D.
  assert (Hu : 256 * (D * w / 256) <= D * w < 256 * (D * w / 256) + 256) by lia.
  set (v := D * w / 256) in *. clearbody v.
  replace (ca + v - ca) with v by ring.
  assert (H1 : 256 * d * w <= 65536 * k + 128 * d) by nia.
  assert (H2 : 65536 * k - 255 * d - 128 * d < 256 * d * w + 0).
  { assert (k * (d * q) > k * 65536 - k * d - 1) by nia. nia. }
  assert (H3 : 0 <= 128 * d * w) by nia.
  destruct (Z_le_gt_dec 0 D).
  - assert (D * (256 * d * w) <= D * (65536 * k + 128 * d)) by nia.
    assert (D * (65536 * k - 383 * d) <= D * (256 * d * w)) by nia.
    nia.
  - assert (D * (256 * d * w) >= D * (65536 * k + 128 * d)) by nia.
    assert (D * (65536 * k - 383 * d) >= D * (256 * d * w)) by nia.
    nia.
Qed.

(* consequently u is within 2 of floor(x) *)
Lemma interp_error_floor d k ca cb : 1 <= d -> 0 <= k <= d -> k <= 255 -> byte ca -> byte cb ->
  let u := ca + (cb - ca) * lut_weight d k / 256 in
  let x := ca + (cb - ca) * k / d in
  x - 2 <= u <= x + 2.
Proof.
  intros Hd Hk Hk' Ha Hb. pose proof (interp_error d k ca cb Hd Hk Hk' Ha Hb) as H. cbv zeta in H |- *.
  set (v := (cb - ca) * lut_weight d k / 256) in *. clearbody v.
  replace (ca + v - ca) with v in H by ring.
  assert (Hx : d * ((cb - ca) * k / d) <= (cb - ca) * k < d * ((cb - ca) * k / d) + d) by lia.
  set (x := (cb - ca) * k / d) in *. clearbody x. nia.
Qed.

(* "within 1" is false: a run of 241 entries from channel 0 to channel 248, entry 213: the table has 217, exact is 219.19 *)
Example interp_error_not_1 :
  let d := 241 in let k := 213 in let ca := 0 in let cb := 248 in
  ca + (cb - ca) * lut_weight d k / 256 = 217 /\ ca + (cb - ca) * k / d = 219.
Proof. vm_compute. split; reflexivity. Qed.

(* the channel formula is monotone along a run, in the direction of c0 -> c1 *)
Lemma interp_mono_w c0 c1 w w' : w <= w' ->
  (c0 <= c1 -> c0 + (c1 - c0) * w / 256 <= c0 + (c1 - c0) * w' / 256) /\
  (c1 <= c0 -> c0 + (c1 - c0) * w' / 256 <= c0 + (c1 - c0) * w / 256).
Proof.
  intros Hw. split; intros Hc.
  - assert ((c1 - c0) * w <= (c1 - c0) * w') by nia. pose proof (Z.div_le_mono _ _ 256 ltac:(lia) H). lia.
  - assert ((c1 - c0) * w' <= (c1 - c0) * w) by nia. pose proof (Z.div_le_mono _ _ 256 ltac:(lia) H). lia.
Qed.
Lemma lut_channel_mono d k k' c0 c1 : 1 <= d -> 0 <= k <= k' ->
  (c0 <= c1 -> c0 + (c1 - c0) * lut_weight d k / 256 <= c0 + (c1 - c0) * lut_weight d k' / 256) /\
  (c1 <= c0 -> c0 + (c1 - c0) * lut_weight d k' / 256 <= c0 + (c1 - c0) * lut_weight d k / 256).
Proof. intros Hd Hk. apply interp_mono_w. apply lut_weight_mono; assumption. Qed.

(* a statement about all four channels *)
Definition chan_all (R : (Z -> Z) -> Prop) : Prop := R get_a /\ R get_r /\ R get_g /\ R get_b.

Lemma chan_all_intro (R : (Z -> Z) -> Prop) : R get_a -> R get_r -> R get_g -> R get_b -> chan_all R.
Proof. unfold chan_all. auto. Qed.

(* lerp of two colours: per channel ca + floor((cb - ca) t / 256), no wrap, between ca and cb *)
Theorem lerp_chan a b t : wf_px a -> wf_px b -> 0 <= t <= 256 ->
  wf_px (lerp a b t) /\
  chan_all (fun ch => ch (lerp a b t) = ch a + (ch b - ch a) * t / 256 /\
                      Z.min (ch a) (ch b) <= ch (lerp a b t) <= Z.max (ch a) (ch b)).
Proof.
  intros Ha Hb Ht. rewrite lerp_pack by assumption. bytes_of a. bytes_of b.
  split; [apply wf_pack; apply lerpc_byte|].
  apply chan_all_intro;
    [rewrite get_a_pack by apply lerpc_byte|rewrite get_r_pack by apply lerpc_byte
    |rewrite get_g_pack by apply lerpc_byte|rewrite get_b_pack by apply lerpc_byte];
    match goal with |- lerpc ?x ?y _ = _ /\ _ =>
      destruct (lerpc_nowrap x y t ltac:(unfold byte; lia) ltac:(unfold byte; lia) Ht) as [E R]; rewrite <- E; split; [reflexivity|exact R] end.
Qed.

(* alpha_mul scales every channel of the unpremultiplied stop colour by alpha256/256 (truncating) *)
Theorem alpha_mul_chan x a : wf_px x -> 0 <= a <= 256 ->
  wf_px (alpha_mul x a) /\ chan_all (fun ch => ch (alpha_mul x a) = ch x * a / 256).
Proof. intros Hx Ha. destruct (alpha_mul_channels x a Hx Ha) as (W & A & R & G & B). split; [exact W|]. apply chan_all_intro; assumption. Qed.

(* ================================================================== *)
(** * 1. The inner loops                                                *)
(* ================================================================== *)

(* fill_run writes the entries i .. min(npos, 254): entry j has weight (t + (j - i) * inverse + 128) >> 8 *)
Lemma fill_run_spec npos last next inverse fuel : forall i t,
  0 <= i -> i <= Z.min npos 254 + 1 -> 255 - i <= Z.of_nat fuel ->
  let r := fill_run fuel i npos last next inverse t in
  snd r = Z.min npos 254 + 1 /\
  length (fst r) = Z.to_nat (Z.min npos 254 + 1 - i) /\
  forall j, i <= j <= Z.min npos 254 ->
    nth (Z.to_nat (j - i)) (fst r) 0 = premultiply_t (lerp last next (Z.shiftr (t + (j - i) * inverse + 128) 8)).
Proof.
  induction fuel as [|k IH]; intros i t Hi Hle Hf; cbv zeta.
  - cbn [fill_run fst snd length]. repeat split; lia.
  - cbn [fill_run]. destruct ((i <=? npos) && (i <? 255)) eqn:E.
    + specialize (IH (i + 1) (t + inverse) ltac:(lia) ltac:(lia) ltac:(lia)). cbv zeta in IH.
      destruct (fill_run k (i + 1) npos last next inverse (t + inverse)) as [rest i'].
      cbn [fst snd] in *. destruct IH as (I1 & I2 & I3).
      split; [exact I1|]. split; [cbn [length]; rewrite I2; lia|].
      intros j Hj. destruct (Z.eq_dec j i) as [->|Hne].
      * rewrite Z.sub_diag. cbn [Z.to_nat nth]. do 3 f_equal. lia.
      * replace (Z.to_nat (j - i)) with (S (Z.to_nat (j - (i + 1)))) by lia. cbn [nth].
        rewrite I3 by lia. do 3 f_equal. lia.
    + cbn [fst snd length]. repeat split; lia.
Qed.

(* the inner while loop over the stops ends with next_pos > i: no division by zero, every run is non-empty *)
Lemma advance_stops_gt stops alpha fuel : forall i idx last next npos,
  i < 255 -> 1 <= Z.of_nat fuel -> nstops stops - idx + 1 <= Z.of_nat fuel ->
  let '(idx', _, _, npos') := advance_stops stops alpha fuel i idx last next npos in idx <= idx' /\ i < npos'.
Proof.
  induction fuel as [|k IH]; intros i idx last next npos Hi Hf1 Hf2; [lia|].
  cbn [advance_stops]. destruct (npos <=? i) eqn:E; [|lia].
  destruct (nstops stops <=? idx + 1) eqn:E2; [lia|].
  specialize (IH i (idx + 1) next (alpha_mul (gs_color (stop_at stops (idx + 1))) alpha) (stop_pos (stop_at stops (idx + 1)))
                 ltac:(lia) ltac:(lia) ltac:(lia)).
  destruct (advance_stops stops alpha k i (idx + 1) next _ _) as [[[idx' last'] next'] npos']. lia.
Qed.

Lemma lut_loop_length stops alpha fuel : forall i idx last next npos,
  0 <= i <= 255 -> 0 <= idx -> 255 - i <= Z.of_nat fuel ->
  length (lut_loop stops alpha fuel i idx last next npos) = Z.to_nat (255 - i).
Proof.
  induction fuel as [|k IH]; intros i idx last next npos Hi Hidx Hf.
  - cbn [lut_loop length]. lia.
  - cbn [lut_loop]. destruct (i <? 255) eqn:E; [|cbn [length]; lia].
    pose proof (advance_stops_gt stops alpha (Z.to_nat (nstops stops) + 2) i idx last next npos ltac:(lia)) as A.
    pose proof (zlen_nonneg stops) as Hn. unfold nstops in *.
    specialize (A ltac:(lia) ltac:(lia)).
    destruct (advance_stops stops alpha (Z.to_nat (zlen stops) + 2) i idx last next npos) as [[[idx' last'] next'] npos'].
    pose proof (fill_run_spec npos' last' next' (Z.quot 65536 (npos' - i)) 256 i 0 ltac:(lia) ltac:(lia) ltac:(lia)) as F.
    cbv zeta in F.
    destruct (fill_run 256 i npos' last' next' (Z.quot 65536 (npos' - i)) 0) as [run i'].
    cbn [fst snd] in F. destruct F as (F1 & F2 & _).
    rewrite app_length, F2, IH; lia.
Qed.

(* 1. shape: the table always has 256 entries (also for the empty stop list, where sw-composite would panic) *)
Theorem build_lut_length stops alpha : length (build_lut stops alpha) = 256%nat.
Proof.
  unfold build_lut. cbv zeta. rewrite app_length, lut_loop_length by lia. reflexivity.
Qed.

Theorem build_lut_entry_ok stops alpha i : wf_px (lut_at (build_lut stops alpha) i) /\ premul (lut_at (build_lut stops alpha) i) = true.
Proof. unfold lut_at. apply zn_ok. apply build_lut_ok. Qed.

(* the last entry is set separately: the last stop, alpha-scaled and premultiplied *)
Theorem build_lut_255 stops alpha :
  lut_at (build_lut stops alpha) 255 = premultiply_t (alpha_mul (gs_color (last_stop stops)) alpha).
Proof.
  unfold lut_at, zn, build_lut. cbv zeta. rewrite app_nth2; rewrite lut_loop_length by lia; [|lia].
  reflexivity.
Qed.

(* ================================================================== *)
(** * 2. The runs of the outer loop                                     *)
(* ================================================================== *)

Section Lut.
  Variable stops : list gstop.
  Variable alpha : Z.
  Notation n := (nstops stops).

  (* table index and (alpha-scaled, unpremultiplied) colour of stop m; beyond the list: index 255, colour of the last stop *)
  Definition spos (m : Z) : Z := if m <? n then stop_pos (stop_at stops m) else 255.
  Definition scol (m : Z) : Z := alpha_mul (gs_color (stop_at stops (Z.min m (n - 1)))) alpha.
  (* colour of the stop before m (of stop 0 for m = 0) *)
  Definition sprev (m : Z) : Z := scol (Z.max (m - 1) 0).

  (* m is the first stop (in list order) whose table index exceeds s *)
  Definition first_above (s m : Z) : Prop :=
    0 <= m <= n /\ (forall m', 0 <= m' < m -> spos m' <= s) /\ s < spos m.

  Lemma first_above_unique s m1 m2 : first_above s m1 -> first_above s m2 -> m1 = m2.
  Proof.
    intros (R1 & B1 & A1) (R2 & B2 & A2).
    destruct (Z_lt_le_dec m1 m2) as [H|H]; [specialize (B2 m1 ltac:(lia)); lia|].
    destruct (Z_lt_le_dec m2 m1) as [H'|H']; [specialize (B1 m2 ltac:(lia)); lia|]. lia.
  Qed.

  Lemma spos_nonneg m : 0 <= spos m.
  Proof. unfold spos. destruct (m <? n); [apply stop_pos_nonneg|lia]. Qed.

  Lemma first_above_exists s : s < 255 -> exists m, first_above s m.
  Proof.
    intros Hs.
    assert (Hn : spos n = 255) by (unfold spos; rewrite Z.ltb_irrefl; reflexivity).
    pose proof (zlen_nonneg stops) as Hn0. fold n in Hn0.
    assert (G : forall f k, 0 <= k <= n -> n - k <= Z.of_nat f -> (forall m', 0 <= m' < k -> spos m' <= s) ->
                exists m, first_above s m).
    { induction f as [|f IH]; intros k Hk Hf Hpre.
      - assert (k = n) as -> by lia. exists n. split; [lia|]. split; [exact Hpre|lia].
      - destruct (Z_le_gt_dec (spos k) s) as [Hle|Hgt].
        + destruct (Z.eq_dec k n) as [->|Hne]; [lia|].
          apply (IH (k + 1)); try lia. intros m' Hm'. destruct (Z.eq_dec m' k) as [->|]; [exact Hle|apply Hpre; lia].
        + exists k. split; [lia|]. split; [exact Hpre|lia]. }
    apply (G (Z.to_nat n) 0); lia.
  Qed.

  Hypothesis nonempty : 1 <= n.

  (* the inner loop over the stops, started in the state that belongs to stop idx, stops at the first later stop above i *)
  Lemma advance_spec fuel : forall i idx, i < 255 -> 0 <= idx <= n -> n - idx + 1 <= Z.of_nat fuel ->
    exists m, advance_stops stops alpha fuel i idx (sprev idx) (scol idx) (spos idx) = (m, sprev m, scol m, spos m) /\
              idx <= m <= n /\ (forall m', idx <= m' < m -> spos m' <= i) /\ i < spos m.
  Proof.
    induction fuel as [|k IH]; intros i idx Hi Hidx Hf; [lia|].
    cbn [advance_stops]. destruct (spos idx <=? i) eqn:E.
    - assert (Hlt : idx < n). { unfold spos in E. destruct (idx <? n) eqn:E1; lia. }
      destruct (n <=? idx + 1) eqn:E2.
      + exists n. split; [|split; [lia|split]].
        * assert (idx + 1 = n) as -> by lia. f_equal; [f_equal; [f_equal|]|].
          -- unfold sprev. f_equal. lia.
          -- unfold scol, last_stop. do 3 f_equal. lia.
          -- unfold spos. rewrite Z.ltb_irrefl. reflexivity.
        * intros m' Hm'. assert (m' = idx) as -> by lia. lia.
        * unfold spos. rewrite Z.ltb_irrefl. lia.
      + assert (E3 : sprev (idx + 1) = scol idx) by (unfold sprev; f_equal; lia).
        assert (E4 : scol (idx + 1) = alpha_mul (gs_color (stop_at stops (idx + 1))) alpha)
          by (unfold scol; do 3 f_equal; lia).
        assert (E5 : spos (idx + 1) = stop_pos (stop_at stops (idx + 1)))
          by (unfold spos; destruct (idx + 1 <? n) eqn:E6; [reflexivity|lia]).
        rewrite <- E3, <- E4, <- E5.
        destruct (IH i (idx + 1) Hi ltac:(lia) ltac:(lia)) as (m & Em & Rm & Bm & Am).
        exists m. split; [exact Em|]. split; [lia|]. split; [|exact Am].
        intros m' Hm'. destruct (Z.eq_dec m' idx) as [->|Hne]; [lia|apply Bm; lia].
    - exists idx. split; [reflexivity|]. split; [lia|]. split; [intros; lia|lia].
  Qed.

  Lemma advance_first i idx m : i < 255 -> 0 <= idx <= n -> (forall m', 0 <= m' < idx -> spos m' <= i) -> first_above i m ->
    advance_stops stops alpha (Z.to_nat n + 2) i idx (sprev idx) (scol idx) (spos idx) = (m, sprev m, scol m, spos m).
  Proof.
    intros Hi Hidx Hpre Hm.
    destruct (advance_spec (Z.to_nat n + 2) i idx Hi Hidx ltac:(lia)) as (m0 & E & R & B & A).
    assert (first_above i m0).
    { split; [lia|]. split; [|exact A]. intros m' Hm'. destruct (Z_lt_le_dec m' idx); [apply Hpre; lia|apply B; lia]. }
    rewrite (first_above_unique i m m0) by assumption. exact E.
  Qed.

  (* the starts of the runs of the outer loop: a run that starts at a and whose next stop is m ends at min(spos m, 254);
     the next run starts right after it *)
  Inductive run_from : Z -> Z -> Prop :=
    | rf_here a : run_from a a
    | rf_next a m b : a < 255 -> first_above a m -> run_from (Z.min (spos m) 254 + 1) b -> run_from a b.
  Definition run_start (s : Z) : Prop := run_from 0 s.

  Lemma run_from_le a b : run_from a b -> a <= b.
  Proof. induction 1 as [a|a m b Ha Hm _ IH]; [lia|]. destruct Hm as (_ & _ & A). lia. Qed.

  Lemma run_from_trans a b c : run_from a b -> run_from b c -> run_from a c.
  Proof. induction 1 as [a|a m b Ha Hm _ IH]; intros H; [exact H|]. eapply rf_next; eauto. Qed.

  (* entry j of the run that starts at s and is headed for stop m *)
  Definition run_entry (s m j : Z) : Z :=
    premultiply_t (lerp (sprev m) (scol m) (lut_weight (spos m - s) (j - s))).

  Lemma lut_loop_spec fuel : forall i idx, 0 <= i <= 255 -> 255 - i <= Z.of_nat fuel -> 0 <= idx <= n ->
    (forall m', 0 <= m' < idx -> spos m' <= i) ->
    forall s m j, run_from i s -> s < 255 -> first_above s m -> s <= j <= Z.min (spos m) 254 ->
    nth (Z.to_nat (j - i)) (lut_loop stops alpha fuel i idx (sprev idx) (scol idx) (spos idx)) 0 = run_entry s m j.
  Proof.
    induction fuel as [|k IH]; intros i idx Hi Hf Hidx Hpre s m j Hrun Hs Hm Hj.
    - pose proof (run_from_le _ _ Hrun). lia.
    - pose proof (run_from_le _ _ Hrun) as Hle.
      cbn [lut_loop]. destruct (i <? 255) eqn:E; [|lia].
      destruct (first_above_exists i ltac:(lia)) as (mi & Hmi).
      rewrite (advance_first i idx mi ltac:(lia) Hidx Hpre Hmi).
      pose proof Hmi as (Rmi & Bmi & Ami).
      pose proof (fill_run_spec (spos mi) (sprev mi) (scol mi) (Z.quot 65536 (spos mi - i)) 256 i 0
                    ltac:(lia) ltac:(lia) ltac:(lia)) as F.
      cbv zeta in F.
      destruct (fill_run 256 i (spos mi) (sprev mi) (scol mi) (Z.quot 65536 (spos mi - i)) 0) as [run i'].
      cbn [fst snd] in F. destruct F as (F1 & F2 & F3).
      inversion Hrun as [a Ea Eb|a m0 b Ha Hm0 Hrest Ea Eb]; subst.
      + (* j lies in this run *)
        rewrite (first_above_unique s m mi Hm Hmi) in *.
        rewrite app_nth1 by lia. rewrite F3 by lia. unfold run_entry, lut_weight.
        rewrite Z.quot_div_nonneg by lia. do 3 f_equal.
      + rewrite (first_above_unique i m0 mi Hm0 Hmi) in *.
        pose proof (run_from_le _ _ Hrest).
        rewrite app_nth2 by lia. rewrite F2.
        replace (Z.to_nat (j - i) - Z.to_nat (Z.min (spos mi) 254 + 1 - i))%nat
          with (Z.to_nat (j - (Z.min (spos mi) 254 + 1))) by lia.
        apply IH; try assumption; try lia.
        intros m' Hm'. specialize (Bmi m' Hm'). lia.
  Qed.

  (* every entry below 255 belongs to exactly one run *)
  Theorem build_lut_run_entry s m j : run_start s -> s < 255 -> first_above s m -> s <= j <= Z.min (spos m) 254 ->
    lut_at (build_lut stops alpha) j = run_entry s m j.
  Proof.
    intros Hrun Hs Hm Hj. pose proof (run_from_le _ _ Hrun) as H0.
    unfold lut_at, zn, build_lut. cbv zeta.
    rewrite app_nth1 by (rewrite lut_loop_length; lia).
    assert (E0 : alpha_mul (gs_color (stop_at stops 0)) alpha = scol 0) by (unfold scol; do 3 f_equal; lia).
    assert (E1 : stop_pos (stop_at stops 0) = spos 0) by (unfold spos; destruct (0 <? n) eqn:E; [reflexivity|lia]).
    rewrite E0, E1. change (scol 0) with (sprev 0) at 1.
    rewrite <- (lut_loop_spec 256 0 0 ltac:(lia) ltac:(lia) ltac:(lia) ltac:(intros; lia) s m j Hrun Hs Hm Hj).
    rewrite Z.sub_0_r. reflexivity.
  Qed.

  Theorem run_cover j : 0 <= j < 255 -> exists s m, run_start s /\ first_above s m /\ s <= j <= Z.min (spos m) 254.
  Proof.
    intros Hj. unfold run_start.
    assert (G : forall k a, 0 <= a <= j -> j - a <= Z.of_nat k -> run_from 0 a ->
                exists s m, run_from 0 s /\ first_above s m /\ s <= j <= Z.min (spos m) 254).
    { induction k as [|k IH]; intros a Ha Hk Hr.
      - destruct (first_above_exists a ltac:(lia)) as (m & Hm). exists a, m. pose proof Hm as (_ & _ & A).
        split; [exact Hr|]. split; [exact Hm|]. lia.
      - destruct (first_above_exists a ltac:(lia)) as (m & Hm). pose proof Hm as (_ & _ & A).
        destruct (Z_le_gt_dec j (Z.min (spos m) 254)) as [Hin|Hout].
        + exists a, m. split; [exact Hr|]. split; [exact Hm|]. lia.
        + apply (IH (Z.min (spos m) 254 + 1)); try lia.
          eapply run_from_trans; [exact Hr|]. eapply rf_next; [lia|exact Hm|apply rf_here]. }
    apply (G (Z.to_nat j) 0); try lia. apply rf_here.
  Qed.

  (* ---------------------------------------------------------------- *)
  (** ** colours                                                        *)
  (* ---------------------------------------------------------------- *)
  Hypothesis alpha_range : 0 <= alpha <= 256.
  Hypothesis colours_wf : Forall (fun s => wf_px (gs_color s)) stops.

  Lemma stop_at_wf m : wf_px (gs_color (stop_at stops m)).
  Proof.
    unfold stop_at. destruct (Nat.lt_ge_cases (Z.to_nat m) (length stops)) as [H|H].
    - rewrite Forall_forall in colours_wf. apply colours_wf. apply nth_In. exact H.
    - rewrite nth_overflow by exact H. cbn [gs_color]. unfold wf_px. lia.
  Qed.

  Lemma scol_wf m : wf_px (scol m).
  Proof. unfold scol. apply alpha_mul_channels; [apply stop_at_wf|exact alpha_range]. Qed.
  Lemma sprev_wf m : wf_px (sprev m).
  Proof. apply scol_wf. Qed.

  Lemma sprev_0 : sprev 0 = scol 0.
  Proof. reflexivity. Qed.
  Lemma sprev_succ m : 1 <= m -> sprev m = scol (m - 1).
  Proof. intros H. unfold sprev. f_equal. lia. Qed.
  Lemma scol_n : scol n = scol (n - 1).
  Proof. unfold scol. do 3 f_equal. lia. Qed.
  Lemma scol_last : scol (n - 1) = alpha_mul (gs_color (last_stop stops)) alpha.
  Proof. unfold scol, last_stop. do 3 f_equal. lia. Qed.
  Lemma scol_eq m : 0 <= m < n -> scol m = alpha_mul (gs_color (stop_at stops m)) alpha.
  Proof. intros H. unfold scol. do 3 f_equal. lia. Qed.
  Lemma spos_eq m : 0 <= m < n -> spos m = stop_pos (stop_at stops m).
  Proof. intros H. unfold spos. destruct (m <? n) eqn:E; [reflexivity|lia]. Qed.
  Lemma spos_n : spos n = 255.
  Proof. unfold spos. rewrite Z.ltb_irrefl. reflexivity. Qed.

  (* the first entry of a run is exactly the colour of the stop the run leaves *)
  Theorem run_first_entry s m : run_start s -> s < 255 -> first_above s m ->
    lut_at (build_lut stops alpha) s = premultiply_t (sprev m).
  Proof.
    intros Hr Hs Hm. pose proof Hm as (_ & _ & A).
    rewrite (build_lut_run_entry s m s Hr Hs Hm ltac:(lia)). unfold run_entry.
    rewrite Z.sub_diag, lut_weight_0, lerp_0 by (apply scol_wf). reflexivity.
  Qed.

  (** 2. ends *)
  (* all entries up to the first stop's index p0 > 0 (inclusive) are the first stop's colour *)
  Theorem build_lut_before_first j : 0 < spos 0 -> 0 <= j <= Z.min (spos 0) 254 ->
    lut_at (build_lut stops alpha) j = premultiply_t (scol 0).
  Proof.
    intros Hp Hj.
    assert (F : first_above 0 0) by (split; [lia|split; [intros; lia|exact Hp]]).
    rewrite (build_lut_run_entry 0 0 j (rf_here 0) ltac:(lia) F Hj). unfold run_entry.
    rewrite sprev_0, lerp_same; [reflexivity|apply scol_wf|apply lut_weight_range; lia].
  Qed.

  (* a first stop at index 0: entry 0 is its colour, unless the second stop also sits at index 0 *)
  Theorem build_lut_first_at_0 : spos 0 = 0 -> 0 < spos 1 ->
    lut_at (build_lut stops alpha) 0 = premultiply_t (scol 0).
  Proof.
    intros H0 H1.
    assert (F : first_above 0 1).
    { split; [lia|]. split; [|exact H1]. intros m' Hm'. assert (m' = 0) as -> by lia. lia. }
    rewrite (run_first_entry 0 1 (rf_here 0) ltac:(lia) F). rewrite sprev_succ by lia. reflexivity.
  Qed.

  (* all entries strictly above every stop's index are the last stop's colour; so is entry 255 in any case *)
  Theorem build_lut_after_last j : (forall m, 0 <= m < n -> spos m < j) -> 0 <= j <= 255 ->
    lut_at (build_lut stops alpha) j = premultiply_t (scol (n - 1)).
  Proof.
    intros Hall Hj. destruct (Z.eq_dec j 255) as [->|Hne].
    - rewrite build_lut_255, scol_last. reflexivity.
    - destruct (run_cover j ltac:(lia)) as (s & m & Hr & Hm & Hin).
      pose proof Hm as (Rm & Bm & Am).
      assert (m = n). { destruct (Z.eq_dec m n); [assumption|]. specialize (Hall m ltac:(lia)). lia. }
      subst m. rewrite (build_lut_run_entry s n j Hr ltac:(lia) Hm Hin). unfold run_entry.
      rewrite sprev_succ, scol_n by lia.
      rewrite lerp_same; [reflexivity|apply scol_wf|]. rewrite spos_n in *. apply lut_weight_range; lia.
  Qed.

  (** 3. between two stops *)
  (* entry j of the run that starts at s and is headed for stop m: the premultiplied form of a colour u whose
     channels are the fixed-point interpolation between the (alpha-scaled) colours of stop m-1 and stop m *)
  Theorem build_lut_run_channels s m j : run_start s -> s < 255 -> first_above s m -> s <= j <= Z.min (spos m) 254 ->
    let d := spos m - s in
    let w := lut_weight d (j - s) in
    let u := lerp (sprev m) (scol m) w in
    lut_at (build_lut stops alpha) j = premultiply_t u /\ 1 <= d /\ 0 <= w <= 256 /\ wf_px u /\
    chan_all (fun ch =>
      let c0 := ch (sprev m) in let c1 := ch (scol m) in
      ch u = c0 + (c1 - c0) * w / 256 /\                       (* the code's formula *)
      Z.min c0 c1 <= ch u <= Z.max c0 c1 /\                     (* between the two stops *)
      - 5 * d < 2 * (d * (ch u - c0) - (c1 - c0) * (j - s)) < 3 * d /\   (* -2.5 < u - exact < 1.5 *)
      c0 + (c1 - c0) * (j - s) / d - 2 <= ch u <= c0 + (c1 - c0) * (j - s) / d + 2).
  Proof.
    intros Hr Hs Hm Hj. pose proof Hm as (Rm & Bm & Am). pose proof (run_from_le _ _ Hr) as Hs0. cbv zeta.
    assert (Hw : 0 <= lut_weight (spos m - s) (j - s) <= 256) by (apply lut_weight_range; lia).
    split; [exact (build_lut_run_entry s m j Hr Hs Hm Hj)|]. split; [lia|]. split; [exact Hw|].
    assert (G : forall ch : Z -> Z, (forall p, 0 <= ch p <= 255) ->
      (ch (lerp (sprev m) (scol m) (lut_weight (spos m - s) (j - s))) =
         ch (sprev m) + (ch (scol m) - ch (sprev m)) * lut_weight (spos m - s) (j - s) / 256 /\
       Z.min (ch (sprev m)) (ch (scol m)) <= ch (lerp (sprev m) (scol m) (lut_weight (spos m - s) (j - s)))
         <= Z.max (ch (sprev m)) (ch (scol m))) ->
      ch (lerp (sprev m) (scol m) (lut_weight (spos m - s) (j - s))) =
         ch (sprev m) + (ch (scol m) - ch (sprev m)) * lut_weight (spos m - s) (j - s) / 256 /\
      Z.min (ch (sprev m)) (ch (scol m)) <= ch (lerp (sprev m) (scol m) (lut_weight (spos m - s) (j - s)))
         <= Z.max (ch (sprev m)) (ch (scol m)) /\
      - 5 * (spos m - s) < 2 * ((spos m - s) * (ch (lerp (sprev m) (scol m) (lut_weight (spos m - s) (j - s))) - ch (sprev m))
                                 - (ch (scol m) - ch (sprev m)) * (j - s)) < 3 * (spos m - s) /\
      ch (sprev m) + (ch (scol m) - ch (sprev m)) * (j - s) / (spos m - s) - 2
        <= ch (lerp (sprev m) (scol m) (lut_weight (spos m - s) (j - s)))
        <= ch (sprev m) + (ch (scol m) - ch (sprev m)) * (j - s) / (spos m - s) + 2).
    { assert (Hd : 1 <= spos m - s) by lia. assert (Hk : 0 <= j - s <= spos m - s) by lia. assert (Hk' : j - s <= 255) by lia.
      clear Hw Hj Hm Rm Bm Am Hr Hs.
      intros ch Hch [E R]. split; [exact E|]. split; [exact R|]. rewrite E. clear E R.
      split.
      - apply interp_error; unfold byte; try apply Hch; assumption.
      - apply interp_error_floor; unfold byte; try apply Hch; assumption. }
    destruct (lerp_chan (sprev m) (scol m) _ (sprev_wf m) (scol_wf m) Hw) as (W & CA & CR & CG & CB).
    split; [exact W|].
    apply chan_all_intro; apply G; try assumption.
    - apply get_a_range. - apply get_r_range. - apply get_g_range. - apply get_b_range.
  Qed.

  (* the colours of real stops: every channel of the stop colour times alpha256 / 256 *)
  Theorem scol_channels m : 0 <= m < n ->
    chan_all (fun ch => ch (scol m) = ch (gs_color (stop_at stops m)) * alpha / 256).
  Proof. intros Hm. rewrite scol_eq by exact Hm. apply alpha_mul_chan; [apply stop_at_wf|exact alpha_range]. Qed.

  (* ---------------------------------------------------------------- *)
  (** ** where runs start, for stops in non-decreasing order            *)
  (* ---------------------------------------------------------------- *)
  Definition sorted_stops : Prop := forall a b, 0 <= a <= b -> b < n -> spos a <= spos b.

  (* with sorted stops the next stop of a run is determined by the positions alone *)
  Lemma first_above_sorted s k : sorted_stops -> 0 <= k -> k + 1 <= n -> spos k <= s < spos (k + 1) ->
    first_above s (k + 1).
  Proof.
    intros Hsort Hk Hk1 Hs. split; [lia|]. split; [|lia].
    intros m' Hm'. specialize (Hsort m' k ltac:(lia) ltac:(lia)). lia.
  Qed.

  (* a stop index v >= 1 whose predecessor v - 1 is not a stop index ends a run: a new run starts at v + 1 *)
  Theorem run_start_after_stop k : sorted_stops -> 0 <= k < n -> 1 <= spos k <= 253 ->
    (forall m, 0 <= m < n -> spos m <> spos k - 1) -> run_start (spos k + 1).
  Proof.
    intros Hsort Hk Hv Hfree. set (v := spos k) in *. unfold run_start.
    assert (G : forall f a, 0 <= a < v -> v - a <= Z.of_nat f -> run_from a (v + 1)).
    { induction f as [|f IH]; intros a Ha Hf; [lia|].
      destruct (first_above_exists a ltac:(lia)) as (m & Hm). pose proof Hm as (Rm & Bm & Am).
      (* the run from a ends at a stop index <= v *)
      assert (Hmk : m <= k).
      { destruct (Z_le_gt_dec m k); [assumption|]. specialize (Bm k ltac:(lia)). fold v in Bm. lia. }
      assert (Hle : spos m <= v) by (apply Hsort; lia).
      eapply rf_next; [lia|exact Hm|].
      destruct (Z.eq_dec (spos m) v) as [E|Hne].
      - rewrite E. replace (Z.min v 254) with v by lia. apply rf_here.
      - replace (Z.min (spos m) 254) with (spos m) by lia.
        assert (spos m <> v - 1) by (apply Hfree; lia).
        apply IH; lia. }
    apply (G (Z.to_nat v) 0); lia.
  Qed.
End Lut.

(* ================================================================== *)
(** * 3. C12: the colour table, stated on the stops                     *)
(* ================================================================== *)

Definition stops_wf (stops : list gstop) : Prop := Forall (fun s => wf_px (gs_color s)) stops.
(* table index of stop m (position * 255, truncated) and its colour as the table interpolates it:
   still unpremultiplied, every channel (alpha included) scaled by alpha256 / 256 *)
Definition stop_index (stops : list gstop) (m : Z) : Z := stop_pos (stop_at stops m).
Definition stop_colour (stops : list gstop) (alpha m : Z) : Z := alpha_mul (gs_color (stop_at stops m)) alpha.

Lemma nstops_pos stops : stops <> [] -> 1 <= nstops stops.
Proof. destruct stops; [congruence|]. intros _. unfold nstops, zlen. cbn [length]. lia. Qed.

(** 1. shape *)
Theorem C12_lut_shape stops alpha :
  length (build_lut stops alpha) = 256%nat /\
  forall i, wf_px (lut_at (build_lut stops alpha) i) /\ premul (lut_at (build_lut stops alpha) i) = true.
Proof. split; [apply build_lut_length|apply build_lut_entry_ok]. Qed.
Print Assumptions C12_lut_shape.

(* no stops: sw-composite indexes stops[0] and panics; the model reads a default stop and yields 256 transparent entries *)
Theorem C12_lut_empty alpha : build_lut [] alpha = repeat 0 256.
Proof. vm_compute. reflexivity. Qed.
Print Assumptions C12_lut_empty.

(* what a table entry for a stop colour is: alpha' = a * alpha256 / 256, and each colour channel c becomes
   muldiv255 (c * alpha256 / 256) alpha': the global alpha enters the colour channels twice *)
Theorem C12_stop_entry_channels x alpha : wf_px x -> 0 <= alpha <= 256 ->
  let p := premultiply_t (alpha_mul x alpha) in
  let a' := get_a x * alpha / 256 in
  get_a p = a' /\
  get_r p = premulc (get_r x * alpha / 256) a' /\
  get_g p = premulc (get_g x * alpha / 256) a' /\
  get_b p = premulc (get_b x * alpha / 256) a'.
Proof.
  intros Hx Ha. cbv zeta. destruct (alpha_mul_channels x alpha Hx Ha) as (_ & A & R & G & B).
  destruct (premultiply_t_channels (alpha_mul x alpha)) as (A' & R' & G' & B').
  rewrite A', R', G', B', A, R, G, B. auto.
Qed.
(* opaque white under global alpha 127/255 (alpha256 = 128): premultiplied white at that alpha is 7F7F7F7F; the table has 7F3F3F3F *)
Example C12_alpha_applied_twice : premultiply_t (alpha_mul 4294967295 128) = 2134851391.
Proof. vm_compute. reflexivity. Qed.

(** 2. ends *)
Theorem C12_lut_first_stop stops alpha j : stops <> [] -> 0 <= alpha <= 256 -> stops_wf stops ->
  0 < stop_index stops 0 -> 0 <= j <= stop_index stops 0 -> j <= 254 ->
  lut_at (build_lut stops alpha) j = premultiply_t (stop_colour stops alpha 0).
Proof.
  intros Hne Ha Hwf Hp Hj Hj'. pose proof (nstops_pos stops Hne) as Hn.
  unfold stop_index in *. rewrite <- (spos_eq stops 0) in * by lia.
  rewrite (build_lut_before_first stops alpha Hn Ha Hwf j Hp ltac:(lia)).
  rewrite scol_eq by lia. reflexivity.
Qed.
Print Assumptions C12_lut_first_stop.

(* first stop at index 0 (position < 1/255): entry 0 is its colour provided the second stop (if any) is not at index 0 too *)
Theorem C12_lut_first_stop_at_0 stops alpha : stops <> [] -> 0 <= alpha <= 256 -> stops_wf stops ->
  stop_index stops 0 = 0 -> (2 <= nstops stops -> 0 < stop_index stops 1) ->
  lut_at (build_lut stops alpha) 0 = premultiply_t (stop_colour stops alpha 0).
Proof.
  intros Hne Ha Hwf Hp H1. pose proof (nstops_pos stops Hne) as Hn.
  unfold stop_index in *. rewrite <- (spos_eq stops 0) in * by lia.
  rewrite (build_lut_first_at_0 stops alpha Hn Ha Hwf Hp).
  - rewrite scol_eq by lia. reflexivity.
  - destruct (Z_le_gt_dec 2 (nstops stops)) as [H2|H2].
    + rewrite spos_eq by lia. apply H1. exact H2.
    + assert (nstops stops = 1) as E by lia. unfold spos. rewrite E. cbn. lia.
Qed.
Print Assumptions C12_lut_first_stop_at_0.

(* every entry strictly above all stop indices, and entry 255 in any case, is exactly the last stop's colour *)
Theorem C12_lut_last_stop stops alpha j : stops <> [] -> 0 <= alpha <= 256 -> stops_wf stops ->
  (forall m, 0 <= m < nstops stops -> stop_index stops m < j) -> 0 <= j <= 255 ->
  lut_at (build_lut stops alpha) j = premultiply_t (alpha_mul (gs_color (last_stop stops)) alpha).
Proof.
  intros Hne Ha Hwf Hall Hj. pose proof (nstops_pos stops Hne) as Hn.
  rewrite (build_lut_after_last stops alpha Hn Ha Hwf j); [rewrite scol_last; reflexivity| |exact Hj].
  intros m Hm. rewrite spos_eq by exact Hm. apply Hall. exact Hm.
Qed.
Print Assumptions C12_lut_last_stop.

Theorem C12_lut_255 stops alpha :
  lut_at (build_lut stops alpha) 255 = premultiply_t (alpha_mul (gs_color (last_stop stops)) alpha).
Proof. apply build_lut_255. Qed.

(* "from the last stop's index on" is false AT the index: black at 0, white at index 200, full alpha: entry 200 is FFFEFEFE,
   white only from 201 on (the run into the stop ends with weight 255/256 whenever d * floor(65536/d) + 128 < 65536) *)
Example C12_lut_at_last_index_counterexample :
  let stops := [mk_gstop f0 4278190080; mk_gstop (fdiv (of_int 401) (of_int 510)) 4294967295] in
  let l := build_lut stops 256 in
  stop_index stops 1 = 200 /\ lut_at l 200 = 4294901502 /\ lut_at l 201 = 4294967295 /\ lut_at l 255 = 4294967295.
Proof. vm_compute. repeat split. Qed.

(* Pad: below 0 the first entry, from 255 on the last entry *)
Lemma pad_low x : x <= 0 -> apply_spread x SpreadPad = 0.
Proof. intros H. unfold apply_spread. destruct (255 <? x) eqn:E; [lia|]. destruct (x <? 0) eqn:E2; lia. Qed.
Lemma pad_high x : 255 <= x -> apply_spread x SpreadPad = 255.
Proof. intros H. unfold apply_spread. destruct (255 <? x) eqn:E; [lia|]. destruct (x <? 0) eqn:E2; lia. Qed.
Lemma pad_mid x : 0 <= x <= 255 -> apply_spread x SpreadPad = x.
Proof. intros H. unfold apply_spread. destruct (255 <? x) eqn:E; [lia|]. destruct (x <? 0) eqn:E2; lia. Qed.

Theorem C12_pad_beyond_end stops alpha x : 255 <= x ->
  lut_at (build_lut stops alpha) (apply_spread x SpreadPad) = premultiply_t (alpha_mul (gs_color (last_stop stops)) alpha).
Proof. intros H. rewrite pad_high by exact H. apply build_lut_255. Qed.

Theorem C12_pad_before_start stops alpha x : stops <> [] -> 0 <= alpha <= 256 -> stops_wf stops ->
  0 < stop_index stops 0 \/ (stop_index stops 0 = 0 /\ (2 <= nstops stops -> 0 < stop_index stops 1)) -> x <= 0 ->
  lut_at (build_lut stops alpha) (apply_spread x SpreadPad) = premultiply_t (stop_colour stops alpha 0).
Proof.
  intros Hne Ha Hwf Hp Hx. rewrite pad_low by exact Hx. destruct Hp as [Hp|[Hp H1]].
  - apply C12_lut_first_stop; try assumption; lia.
  - apply C12_lut_first_stop_at_0; assumption.
Qed.
Print Assumptions C12_pad_before_start.

(** 3. between two consecutive stops *)
(* The outer loop of build_lut cuts the indices 0..254 into runs.  A run that starts at s interpolates from the last stop
   with index <= s to the first stop with index > s (list order) and ends at that stop's index e; the next run starts at
   e + 1.  So which indices start a run depends on the stops before: index 0 always does ([run_start_0]); for sorted stops
   so does v + 1 for every stop index 1 <= v <= 253 such that v - 1 is not a stop index ([C12_run_start_after_stop]). *)
Theorem C12_run_start_0 stops : run_start stops 0.
Proof. apply rf_here. Qed.

Definition sorted_indices (stops : list gstop) : Prop :=
  forall a b, 0 <= a <= b -> b < nstops stops -> stop_index stops a <= stop_index stops b.

Lemma sorted_indices_stops stops : sorted_indices stops -> sorted_stops stops.
Proof. intros H a b Hab Hb. rewrite !spos_eq by lia. apply H; assumption. Qed.

Theorem C12_run_start_after_stop stops k : sorted_indices stops -> 0 <= k < nstops stops ->
  1 <= stop_index stops k <= 253 -> (forall m, 0 <= m < nstops stops -> stop_index stops m <> stop_index stops k - 1) ->
  run_start stops (stop_index stops k + 1).
Proof.
  intros Hs Hk Hv Hfree. unfold stop_index in *. rewrite <- (spos_eq stops k) in * by lia.
  apply run_start_after_stop; try assumption; [apply sorted_indices_stops; exact Hs|].
  intros m Hm. rewrite (spos_eq stops m) by lia. apply Hfree. exact Hm.
Qed.
Print Assumptions C12_run_start_after_stop.

(* stops k and k+1 (sorted list), a run that starts at s with index(k) <= s < index(k+1) = e: for s <= j <= e (j <= 254)
   entry j is premultiply_t u, where every channel of the unpremultiplied u is
     c0 + floor((c1 - c0) * w / 256),  w = (floor(65536 / (e - s)) * (j - s) + 128) >> 8  in 0..256,
   c0, c1 the channels of the two stops scaled by alpha256/256.  It lies between c0 and c1, and
   -2.5 < u - (c0 + (c1 - c0)(j - s)/(e - s)) < 1.5, hence |u - floor(exact)| <= 2. *)
Theorem C12_lut_between_stops stops alpha k s j :
  stops <> [] -> 0 <= alpha <= 256 -> stops_wf stops -> sorted_indices stops ->
  0 <= k -> k + 1 < nstops stops -> run_start stops s ->
  stop_index stops k <= s < stop_index stops (k + 1) -> s <= j <= stop_index stops (k + 1) -> j <= 254 ->
  let d := stop_index stops (k + 1) - s in
  let w := lut_weight d (j - s) in
  exists u, lut_at (build_lut stops alpha) j = premultiply_t u /\ wf_px u /\ 1 <= d /\ 0 <= w <= 256 /\
    chan_all (fun ch =>
      let c0 := ch (gs_color (stop_at stops k)) * alpha / 256 in
      let c1 := ch (gs_color (stop_at stops (k + 1))) * alpha / 256 in
      ch u = c0 + (c1 - c0) * w / 256 /\
      Z.min c0 c1 <= ch u <= Z.max c0 c1 /\
      - 5 * d < 2 * (d * (ch u - c0) - (c1 - c0) * (j - s)) < 3 * d /\
      c0 + (c1 - c0) * (j - s) / d - 2 <= ch u <= c0 + (c1 - c0) * (j - s) / d + 2).
Proof.
  intros Hne Ha Hwf Hsort Hk Hk1 Hrun Hs Hj Hj'. pose proof (nstops_pos stops Hne) as Hn. cbv zeta.
  unfold stop_index in *. rewrite <- (spos_eq stops k) in Hs by lia. rewrite <- (spos_eq stops (k + 1)) in * by lia.
  assert (Hm : first_above stops s (k + 1))
    by (apply first_above_sorted; try lia; apply sorted_indices_stops; exact Hsort).
  destruct (build_lut_run_channels stops alpha Hn Ha Hwf s (k + 1) j Hrun ltac:(lia) Hm ltac:(lia))
    as (E & Hd & Hw & Wu & CA & CR & CG & CB).
  rewrite sprev_succ in * by lia. replace (k + 1 - 1) with k in * by lia.
  destruct (scol_channels stops alpha Ha Hwf k ltac:(lia)) as (A0 & R0 & G0 & B0).
  destruct (scol_channels stops alpha Ha Hwf (k + 1) ltac:(lia)) as (A1 & R1 & G1 & B1).
  cbv beta zeta in CA, CR, CG, CB.
  eexists. split; [exact E|]. split; [exact Wu|]. split; [exact Hd|]. split; [exact Hw|].
  apply chan_all_intro; cbv beta zeta.
  - rewrite <- A0, <- A1. exact CA.
  - rewrite <- R0, <- R1. exact CR.
  - rewrite <- G0, <- G1. exact CG.
  - rewrite <- B0, <- B1. exact CB.
Qed.
Print Assumptions C12_lut_between_stops.

(* the first entry of a run is exactly the colour of the stop it leaves (weight 0): for sorted stops and a run start s
   with index(k) <= s < index(k+1) *)
Theorem C12_lut_run_start_exact stops alpha k s :
  stops <> [] -> 0 <= alpha <= 256 -> stops_wf stops -> sorted_indices stops ->
  0 <= k -> k + 1 < nstops stops -> run_start stops s ->
  stop_index stops k <= s < stop_index stops (k + 1) -> s <= 254 ->
  lut_at (build_lut stops alpha) s = premultiply_t (stop_colour stops alpha k).
Proof.
  intros Hne Ha Hwf Hsort Hk Hk1 Hrun Hs Hs'. pose proof (nstops_pos stops Hne) as Hn.
  unfold stop_index in *. rewrite <- (spos_eq stops k) in Hs by lia. rewrite <- (spos_eq stops (k + 1)) in * by lia.
  assert (Hm : first_above stops s (k + 1))
    by (apply first_above_sorted; try lia; apply sorted_indices_stops; exact Hsort).
  rewrite (run_first_entry stops alpha Hn Ha Hwf s (k + 1) Hrun ltac:(lia) Hm).
  rewrite sprev_succ by lia. replace (k + 1 - 1) with k by lia. rewrite scol_eq by lia. reflexivity.
Qed.
Print Assumptions C12_lut_run_start_exact.

(* run starts depend on the stops before: stop indices 10, 11, 20.  The first run is 0..10, the second starts at 11 and, 11
   being a stop index <= 11, leaves from stop 1: entry 11 is stop 1 exactly and entry 12 is already 1/9 of the way to
   stop 2 (had stop 0 been at index 9, the run would start at 12 instead) *)
Example C12_run_start_depends_on_history :
  let stops := [mk_gstop (fdiv (of_int 21) (of_int 510)) 4278190080; mk_gstop (fdiv (of_int 23) (of_int 510)) 4278190335;
                mk_gstop (fdiv (of_int 41) (of_int 510)) 4278255360] in
  let l := build_lut stops 256 in
  (stop_index stops 0, stop_index stops 1, stop_index stops 2) = (10, 11, 20) /\
  lut_at l 10 = 4278190080 /\ lut_at l 11 = 4278190335 /\ lut_at l 12 = 4278197219 /\ lut_at l 20 = 4278255360.
Proof. vm_compute. repeat split. Qed.

(* the most common shape: two stops, the first at index 0 *)
Theorem C12_lut_two_stops a b alpha j :
  wf_px (gs_color a) -> wf_px (gs_color b) -> 0 <= alpha <= 256 -> stop_pos a = 0 -> 0 < stop_pos b ->
  0 <= j <= stop_pos b -> j <= 254 ->
  let d := stop_pos b in
  let w := lut_weight d j in
  exists u, lut_at (build_lut [a; b] alpha) j = premultiply_t u /\ wf_px u /\ 0 <= w <= 256 /\
    chan_all (fun ch =>
      let c0 := ch (gs_color a) * alpha / 256 in
      let c1 := ch (gs_color b) * alpha / 256 in
      ch u = c0 + (c1 - c0) * w / 256 /\
      Z.min c0 c1 <= ch u <= Z.max c0 c1 /\
      - 5 * d < 2 * (d * (ch u - c0) - (c1 - c0) * j) < 3 * d /\
      c0 + (c1 - c0) * j / d - 2 <= ch u <= c0 + (c1 - c0) * j / d + 2).
Proof.
  intros Wa Wb Ha Pa Pb Hj Hj'.
  assert (Hsort : sorted_indices [a; b]).
  { intros x y Hxy Hy. change (nstops [a; b]) with 2 in Hy.
    assert (Hx : x = 0 \/ x = 1) by lia. assert (Hy' : y = 0 \/ y = 1) by lia.
    pose proof (stop_pos_nonneg b).
    destruct Hx as [-> | ->]; destruct Hy' as [-> | ->];
      unfold stop_index; change (stop_at [a; b] 0) with a; change (stop_at [a; b] 1) with b; lia. }
  assert (Hwf : stops_wf [a; b]) by (constructor; [exact Wa|constructor; [exact Wb|constructor]]).
  pose proof (C12_lut_between_stops [a; b] alpha 0 0 j ltac:(discriminate) Ha Hwf Hsort ltac:(lia) ltac:(reflexivity) (C12_run_start_0 _)) as H.
  unfold stop_index in H. change (0 + 1) with 1 in H.
  change (stop_at [a; b] 0) with a in H; change (stop_at [a; b] 1) with b in H.
  rewrite !Z.sub_0_r in H. specialize (H ltac:(lia) ltac:(lia) Hj').
  cbv zeta in H |- *. destruct H as (u & E & Wu & _ & Hw & C). exists u. auto.
Qed.
Print Assumptions C12_lut_two_stops.

(* black to white over the whole table at full alpha: entry j is the grey floor(255 * w / 256), w = (j * 257 + 128) >> 8 *)
Example C12_lut_black_white :
  let l := build_lut [mk_gstop f0 4278190080; mk_gstop f1 4294967295] 256 in
  lut_at l 0 = 4278190080 /\ lut_at l 1 = 4278190080 /\ lut_at l 128 = 4286611584 /\ lut_at l 254 = 4294901502 /\
  lut_at l 255 = 4294967295.
Proof. vm_compute. repeat split. Qed.

(* ================================================================== *)
(** * 4. The gradient parameter: integer stage                          *)
(* ================================================================== *)

(* every spread mode yields a table index in 0..255: with the 256-entry table every look-up is in bounds *)
Theorem apply_spread_range x s : 0 <= apply_spread x s <= 255.
Proof.
  destruct s; unfold apply_spread.
  - destruct (255 <? x) eqn:E; [lia|]. destruct (x <? 0) eqn:E2; lia.
  - cbv zeta. rewrite land_255. lia.
  - rewrite land_255. lia.
Qed.

Lemma wrap32_small v : -2147483648 <= v < 2147483648 -> wrap32 v = v.
Proof.
  intros H. unfold wrap32. cbv zeta. rewrite wrapu32_mod.
  destruct (v mod 4294967296 <? 2147483648) eqn:E; lia.
Qed.
Lemma wrapu16_small x : 0 <= x < 65536 -> wrapu16 x = x.
Proof. intros H. unfold wrapu16. change 65535 with (Z.ones 16). rewrite Z.land_ones by lia. apply Z.mod_small. lia. Qed.

Definition in_i32p (v : Z) : Prop := -2147483648 <= v < 2147483648.

(* the 16.16 gradient parameter of device pixel (x, y): an affine function with the integer coefficients of the fixed matrix *)
Definition lin_param (m : fixmat) (x y : Z) : Z := x * xx m + xy m * y + fx0 m.

(* MatrixFixedPoint::transform computes it exactly as long as no intermediate i32 wraps and the pixel fits u16 *)
Theorem fix_transform_x_exact m x y : 0 <= x < 65536 -> 0 <= y < 65536 ->
  in_i32p (x * xx m) -> in_i32p (xy m * y) -> in_i32p (x * xx m + xy m * y) -> in_i32p (lin_param m x y) ->
  fst (fix_transform m x y) = lin_param m x y.
Proof.
  unfold in_i32p, lin_param. intros Hx Hy H1 H2 H3 H4. unfold fix_transform. cbv zeta. cbn [fst].
  rewrite (wrapu16_small x Hx), (wrapu16_small y Hy).
  rewrite (wrap32_small (x * xx m) H1), (wrap32_small (xy m * y) H2), (wrap32_small _ H3), (wrap32_small _ H4).
  reflexivity.
Qed.

(* simple sufficient bounds: pixel coordinates below 2^15, coefficients at most 2^14 in size (a gradient at least 4 pixels
   long), offset at most 2^30 *)
Lemma fix_transform_x_exact_bounds m x y : 0 <= x < 32768 -> 0 <= y < 32768 ->
  -16384 <= xx m <= 16384 -> -16384 <= xy m <= 16384 -> -1073741824 <= fx0 m <= 1073741824 ->
  fst (fix_transform m x y) = lin_param m x y.
Proof.
  intros Hx Hy Hxx Hxy H0. apply fix_transform_x_exact; unfold in_i32p, lin_param; try lia; nia.
Qed.

(* linear gradient: table index = floor(parameter / 256) = floor(256 t), then the spread mode *)
Theorem C12_linear_integer_stage lut s m x y : 0 <= x < 65536 -> 0 <= y < 65536 ->
  in_i32p (x * xx m) -> in_i32p (xy m * y) -> in_i32p (x * xx m + xy m * y) -> in_i32p (lin_param m x y) ->
  shade (ShLinear lut s m) x y = lut_at lut (apply_spread (lin_param m x y / 256) s).
Proof.
  intros Hx Hy H1 H2 H3 H4. pose proof (fix_transform_x_exact m x y Hx Hy H1 H2 H3 H4) as E.
  cbn [shade]. destruct (fix_transform m x y) as [px py]. cbn [fst] in E. rewrite E, shiftr8. reflexivity.
Qed.
Print Assumptions C12_linear_integer_stage.

(* the parameter is affine in the pixel *)
Lemma lin_param_affine m x y dx dy : lin_param m (x + dx) (y + dy) = lin_param m x y + dx * xx m + dy * xy m.
Proof. unfold lin_param. ring. Qed.
(* hence linear along any line: if the matrix sends S to parameter T0 and E = S + (dx, dy) to T1, then S + a (dx, dy) goes
   to T0 + a (T1 - T0); for the ideal matrix of new_linear_gradient T0 = 0 and T1 = 65536 *)
Lemma lin_param_along m sx sy dx dy a :
  lin_param m (sx + a * dx) (sy + a * dy) =
  lin_param m sx sy + a * (lin_param m (sx + dx) (sy + dy) - lin_param m sx sy).
Proof. unfold lin_param. ring. Qed.
(* coefficient errors of at most e (from float_to_fixed and the f32 matrix arithmetic) move the parameter by at most e (x + y + 1) *)
Lemma lin_param_perturb m m' x y e : 0 <= x -> 0 <= y ->
  Z.abs (xx m - xx m') <= e -> Z.abs (xy m - xy m') <= e -> Z.abs (fx0 m - fx0 m') <= e ->
  Z.abs (lin_param m x y - lin_param m' x y) <= e * (x + y + 1).
Proof. unfold lin_param. intros. nia. Qed.

(* Pad on a linear gradient: parameter >= 255/256 (t16 >= 65280) shows exactly the last stop, parameter < 1/256 the first
   table entry, in between entry floor(256 t) *)
Theorem C12_linear_pad_end stops alpha m x y :
  65280 <= fst (fix_transform m x y) ->
  shade (ShLinear (build_lut stops alpha) SpreadPad m) x y = premultiply_t (alpha_mul (gs_color (last_stop stops)) alpha).
Proof.
  intros H. cbn [shade]. destruct (fix_transform m x y) as [px py]. cbn [fst] in H.
  apply C12_pad_beyond_end. rewrite shiftr8. lia.
Qed.
Theorem C12_linear_pad_start lut m x y : fst (fix_transform m x y) < 256 ->
  shade (ShLinear lut SpreadPad m) x y = lut_at lut 0.
Proof.
  intros H. cbn [shade]. destruct (fix_transform m x y) as [px py]. cbn [fst] in H.
  destruct (Z_lt_le_dec px 0); [rewrite pad_low by (rewrite shiftr8; lia)|rewrite pad_mid by (rewrite shiftr8; lia)];
    [reflexivity|]. f_equal. rewrite shiftr8. lia.
Qed.
Theorem C12_linear_pad_mid lut m x y : 0 <= fst (fix_transform m x y) < 65536 ->
  shade (ShLinear lut SpreadPad m) x y = lut_at lut (fst (fix_transform m x y) / 256).
Proof.
  intros H. cbn [shade]. destruct (fix_transform m x y) as [px py]. cbn [fst] in *.
  rewrite shiftr8, pad_mid by lia. reflexivity.
Qed.
Print Assumptions C12_linear_pad_end.

(* what choose_shader hands to the shader: the table for alpha256 = min(round(255 alpha), 255) + 1 in 1..256 and the
   16.16 image of the f32 matrix (device -> gradient space, pre-translated by half a pixel) *)
Theorem choose_shader_linear ti stops s t alpha :
  choose_shader ti (LinearGradient stops s t) alpha =
  ShLinear (build_lut stops (Z.min (unit_to_u32 alpha) 255 + 1)) s
           (transform_to_fixed (xf_pre_translate (xf_then ti t) fhalf fhalf)) /\
  1 <= Z.min (unit_to_u32 alpha) 255 + 1 <= 256.
Proof. split; [reflexivity|]. pose proof (draw_alpha_range alpha). lia. Qed.

(* the f32 stage is exact on easy data and off by a few 1/65536 in general; start = (0,0), end = (256,0): index of pixel x is x *)
Definition lin_mat (src : source) : fixmat :=
  match choose_shader xf_identity src f1 with ShLinear _ _ m => m | _ => mk_fixmat 0 0 0 0 0 0 end.
Example C12_linear_axis_example :
  lin_mat (new_linear_gradient [] (of_int 0, of_int 0) (of_int 256, of_int 0) SpreadPad) = mk_fixmat 256 0 0 256 128 128.
Proof. vm_compute. reflexivity. Qed.
Lemma C12_linear_axis_index x y : lin_param (mk_fixmat 256 0 0 256 128 128) x y / 256 = x.
Proof. unfold lin_param. cbn [xx xy fx0]. lia. Qed.
(* start = (10,20), end = (40,60) (length 50): exact coefficients 786.43, 1048.58; pixel centres of start / end have
   t = 0.014 / 1.014, i.e. 917.5 / 66453.5 in 16.16; the model gives 923 / 66463 *)
Example C12_linear_diagonal_example :
  let m := lin_mat (new_linear_gradient [] (of_int 10, of_int 20) (of_int 40, of_int 60) SpreadPad) in
  m = mk_fixmat 786 1049 (-1048) 786 (-27917) (-5373) /\
  fst (fix_transform m 10 20) = 923 /\ fst (fix_transform m 40 60) = 66463.
Proof. vm_compute. repeat split. Qed.
(* start = end: the constructor falls back to the zero matrix: parameter 0 everywhere, the whole plane shows table entry 0 *)
Example C12_linear_degenerate_example :
  lin_mat (new_linear_gradient [] (of_int 100, of_int 50) (of_int 100, of_int 50) SpreadPad) = mk_fixmat 0 0 0 0 0 0.
Proof. vm_compute. reflexivity. Qed.

(** 5. radial, two-circle, sweep: the index is computed from an f32 parameter *)
(* radial: the f32 distance of the 16.16 point from the origin, converted with a saturating cast, then >> 8 as for linear *)
Definition radial_dist (px py : Z) : Z :=
  to_i32 (fsqrt (fadd (fmul (of_int px) (of_int px)) (fmul (of_int py) (of_int py)))).
Theorem C12_radial_integer_stage lut s m x y :
  shade (ShRadial lut s m) x y =
  lut_at lut (apply_spread (radial_dist (fst (fix_transform m x y)) (snd (fix_transform m x y)) / 256) s).
Proof. cbn [shade]. destruct (fix_transform m x y) as [px py]. cbn [fst snd]. rewrite shiftr8. reflexivity. Qed.
Theorem C12_radial_pad_end stops alpha m x y :
  65280 <= radial_dist (fst (fix_transform m x y)) (snd (fix_transform m x y)) ->
  shade (ShRadial (build_lut stops alpha) SpreadPad m) x y = premultiply_t (alpha_mul (gs_color (last_stop stops)) alpha).
Proof. intros H. rewrite C12_radial_integer_stage. apply C12_pad_beyond_end. lia. Qed.
Print Assumptions C12_radial_pad_end.

(* all gradient shaders return a table entry with index in 0..255 (two-circle: or transparent where the cone has no point) *)
Theorem C12_shade_in_table sh x y :
  match sh with
  | ShLinear lut _ _ | ShRadial lut _ _ | ShSweep lut _ _ _ _ => exists i, 0 <= i <= 255 /\ shade sh x y = lut_at lut i
  | ShTwoCircle lut _ _ _ _ _ _ => shade sh x y = 0 \/ exists i, 0 <= i <= 255 /\ shade sh x y = lut_at lut i
  | _ => True
  end.
Proof.
  destruct sh as [c|im e ox oy a|im e f m al|lut s m|lut s m|lut s m c1 r1 c2 r2|lut s m tb ts]; try exact I.
  - cbn [shade]. destruct (fix_transform m x y) as [px py]. eexists. split; [apply apply_spread_range|reflexivity].
  - cbn [shade]. destruct (fix_transform m x y) as [px py]. eexists. split; [apply apply_spread_range|reflexivity].
  - cbn [shade]. destruct (fix_transform m x y) as [ix iy]. cbv zeta.
    match goal with |- (match ?r with Some _ => _ | None => _ end) = 0 \/ _ => destruct r end.
    + right. eexists. split; [apply apply_spread_range|reflexivity].
    + left. reflexivity.
  - cbn [shade]. destruct (fix_transform m x y) as [ix iy]. eexists. split; [apply apply_spread_range|reflexivity].
Qed.
Print Assumptions C12_shade_in_table.

(* two-circle and sweep index the table with trunc(255 t) (saturating f32 -> i32 cast, NaN -> 0), linear and radial with
   floor(256 t): with Pad, t >= 1 shows the last stop in all four *)
Theorem C12_param_pad_end stops alpha (t : f32) : 255 <= to_i32 (fmul t f255) ->
  lut_at (build_lut stops alpha) (apply_spread (to_i32 (fmul t f255)) SpreadPad) =
  premultiply_t (alpha_mul (gs_color (last_stop stops)) alpha).
Proof. apply C12_pad_beyond_end. Qed.
