(* Quarter-grid vertices reach the rasteriser exactly (C01: the polygons of the statement have vertices on the
   quarter-pixel grid; the rasteriser works in quarter-pixel integers). *)
From Coq Require Import ZArith Reals Lra Lia.
From Flocq Require Import Core IEEE754.BinarySingleNaN IEEE754.Binary.
Require Import RQ.Base RQ.F32 RQ.PathF RQ.UserSpace RQ.PathRange.
Open Scope Z_scope.

(* x is a finite float whose value is n / 4 *)
Definition fquarter (x : f32) (n : Z) : Prop := is_finite 24 128 x = true /\ (B2R 24 128 x = IZR n / 4)%R.

(* the device-space coordinate of a quarter-grid vertex is converted to exactly 4 times its value *)
Theorem dot2_quarter x n : fquarter x n -> i32_min <= n <= i32_max -> f32_to_dot2 x = n.
Proof.
  intros [F V] Hn. rewrite (dot2_real x F), V.
  replace (IZR n / 4 * 4)%R with (IZR n) by lra. rewrite Ztrunc_IZR.
  unfold clampz. lia.
Qed.

(* ... also through the identity transform that fill applies when no transform is set *)
Theorem dot2_quarter_identity q nx ny : fquarter (px q) nx -> fquarter (py q) ny ->
  i32_min <= nx <= i32_max -> i32_min <= ny <= i32_max ->
  f32_to_dot2 (px (xf_point xf_identity q)) = nx /\ f32_to_dot2 (py (xf_point xf_identity q)) = ny.
Proof.
  intros Hx Hy Bx By.
  destruct (xf_identity_dot2 q) as [Ex Ey]; [split; [apply Hx|apply Hy]|].
  rewrite Ex, Ey. split; apply dot2_quarter; assumption.
Qed.
Print Assumptions dot2_quarter_identity.
