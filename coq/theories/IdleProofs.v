(* The rasteriser is idle (in its canonical initial state) after every DrawTarget operation.
   Serves C10 (no state leaks from one call into the next) and C07 (the edge bucket array is never
   indexed outside its bounds and no slope division is by zero). *)
Require Import RQ.Base RQ.F32 RQ.Rect RQ.Pixel RQ.Surface RQ.Raster RQ.RasterIdle RQ.PathF RQ.PathOps RQ.Shader RQ.Target
               RQ.TargetProofs RQ.OpsProofs RQ.ClipProofs RQ.LayerProofs.
Local Open Scope Z_scope.

Section Good.
  Variables H W : Z.
  Variable A : list aedge.
  Hypothesis HH : 0 < H.
  (* what every path-building step keeps: the bucket invariant, the dimensions and the active list *)
  Definition good (r : rast) : Prop := rinv r /\ r_h4 r = H /\ r_w4 r = W /\ r_active r = A.

  Lemma raster_add_good r s e curve c : good r -> good (raster_add r s e curve c).
  Proof.
    intros (I & Hh & Hw & Ha). unfold raster_add.
    match goal with |- good (add_edge r ?a ?b ?c0 ?d ?e0 ?f ?g ?h) =>
      destruct (add_edge_rinv r a b c0 d e0 f g h ltac:(lia) I) as (I' & Hh' & Hw' & Ha') end.
    split; [exact I'|]. split; [congruence|]. split; congruence.
  Qed.

  Lemma add_quad_good r p0 p1 p2 : good r -> good (add_quad r p0 p1 p2).
  Proof.
    intros G. unfold add_quad. destruct (is_not_monotonic _ _ _).
    - destruct (valid_unit_divide _ _).
      + destruct (chop_quad p0 p1 p2 f) as [[[[d0 d1] d2] d3] d4]. now repeat apply raster_add_good.
      + now apply raster_add_good.
    - now apply raster_add_good.
  Qed.

  Lemma quads_good quads : forall r, good r ->
    good (fold_left (fun r q => let '(a, b, d) := q in add_quad r a b d) quads r).
  Proof.
    induction quads as [|[[a b] d] t IH]; intros r G; cbn [fold_left]; [exact G|]. apply IH. now apply add_quad_good.
  Qed.

  Lemma c_move_to_good c p : good (rz c) -> good (rz (c_move_to c p)).
  Proof. intros G. exact G. Qed.
  Lemma c_line_to_good c p : good (rz c) -> good (rz (c_line_to c p)).
  Proof.
    intros G. unfold c_line_to. destruct (cur c) as [cp|] eqn:Ec; cbn [cur rz first]; rewrite ?Ec; cbn [cur rz first];
      now apply raster_add_good.
  Qed.
  Lemma c_quad_to_good c cp p : good (rz c) -> good (rz (c_quad_to c cp p)).
  Proof.
    intros G. unfold c_quad_to. destruct (cur c) as [c0|] eqn:Ec; cbn [cur rz first]; rewrite ?Ec; cbn [cur rz first];
      now apply add_quad_good.
  Qed.
  Lemma c_cubic_to_good c c1 c2 p quads : good (rz c) -> good (rz (c_cubic_to c c1 c2 p quads)).
  Proof.
    intros G. unfold c_cubic_to. destruct (cur c) as [c0|] eqn:Ec; cbn [cur rz first]; rewrite ?Ec; cbn [cur rz first];
      now apply quads_good.
  Qed.
  Lemma c_close_good c : good (rz c) -> good (rz (c_close c)).
  Proof.
    intros G. unfold c_close. cbn [rz]. destruct (first c); [destruct (cur c)|]; try exact G. now apply raster_add_good.
  Qed.

  Lemma path_ops_good t ops : forall c, good (rz c) ->
    good (rz (fold_left (fun c op =>
      match op with
      | MoveTo p => c_move_to (c_close c) (xf_point t p)
      | LineTo p => c_line_to c (xf_point t p)
      | QuadTo cp p => c_quad_to c (xf_point t cp) (xf_point t p)
      | CubicTo c1 c2 p quads => c_cubic_to c (xf_point t c1) (xf_point t c2) (xf_point t p) quads
      | Close => c_close c
      end) ops c)).
  Proof.
    induction ops as [|o rest IH]; intros c G; cbn [fold_left]; [exact G|]. apply IH. destruct o.
    - apply c_move_to_good. now apply c_close_good.
    - now apply c_line_to_good.
    - now apply c_quad_to_good.
    - now apply c_cubic_to_good.
    - now apply c_close_good.
  Qed.

  Lemma apply_path_good h t c p : good (rz c) -> good (rz (apply_path h t c p)).
  Proof.
    intros G. unfold apply_path. destruct (h =? 0); [exact G|]. apply c_close_good. apply path_ops_good. exact G.
  Qed.
End Good.

(* with a zero height nothing is added at all *)
Lemma apply_path_h0 t c p : rz (apply_path 0 t c p) = rz c.
Proof. reflexivity. Qed.

Lemma reset_dims r : r_h4 (reset r) = r_h4 r /\ r_w4 (reset r) = r_w4 r.
Proof. unfold reset. destruct (r_bottom r <? r_top r); split; reflexivity. Qed.

(* an idle rasteriser is determined by its dimensions *)
Lemma idle_canonical r : rast_idle r = true ->
  r = mk_rast (r_w4 r) (r_h4 r) (dot2_to_int (r_h4 r)) 0 (dot2_to_int (r_w4 r)) 0 [] [].
Proof.
  unfold rast_idle. destruct r as [w4 h4 top bottom left right starts active]. cbn.
  destruct starts; [|discriminate]. destruct active; [|discriminate]. intros E.
  apply andb_prop in E. destruct E as [E E4]. apply andb_prop in E. destruct E as [E E3]. apply andb_prop in E. destruct E as [E1 E2].
  apply Z.eqb_eq in E1, E2, E3, E4. subst. reflexivity.
Qed.

(* ---- the DrawTarget level ---- *)
Definition raster_ok (st : dt) : Prop :=
  0 <= d_h st /\ rast_idle (rz (d_cur st)) = true /\
  r_h4 (rz (d_cur st)) = d_h st * 4 /\ r_w4 (rz (d_cur st)) = d_w st * 4.

Lemma dt_new_raster_ok w h buf : 0 <= h -> raster_ok (dt_new w h buf).
Proof.
  intros Hh. unfold raster_ok, dt_new. cbn [d_h d_w d_cur rz].
  split; [exact Hh|]. split; [apply rast_new_idle|]. split; reflexivity.
Qed.

(* the rasteriser after building any path on an idle rasteriser satisfies the bucket invariant *)
Lemma apply_path_from_idle st p :
  raster_ok st ->
  let c := apply_path (d_h st) (d_ctm st) (d_cur st) p in
  rinv (rz c) /\ r_h4 (rz c) = d_h st * 4 /\ r_w4 (rz c) = d_w st * 4.
Proof.
  intros (Hh & Hi & H4 & W4). cbv zeta.
  destruct (Z.eq_dec (d_h st) 0) as [E0|NE].
  - rewrite E0. rewrite apply_path_h0. split; [now apply idle_rinv|]. split; [rewrite H4; lia|exact W4].
  - destruct (apply_path_good (d_h st * 4) (d_w st * 4) (r_active (rz (d_cur st))) ltac:(lia)
                (d_h st) (d_ctm st) (d_cur st) p) as (I & A1 & A2 & _).
    + split; [now apply idle_rinv|]. repeat split; assumption.
    + split; [exact I|]. split; assumption.
Qed.

Lemma raster_ok_of st st' : d_h st' = d_h st -> d_w st' = d_w st -> 0 <= d_h st ->
  rast_idle (rz (d_cur st')) = true -> r_h4 (rz (d_cur st')) = d_h st * 4 -> r_w4 (rz (d_cur st')) = d_w st * 4 -> raster_ok st'.
Proof. intros A B C D E F. unfold raster_ok. rewrite A, B. repeat split; assumption. Qed.

Lemma composite_dims st src mask mr rect0 blend alpha st' : composite st src mask mr rect0 blend alpha = Ok st' ->
  d_w st' = d_w st /\ d_h st' = d_h st /\ d_cur st' = d_cur st.
Proof.
  intros E. pose proof (composite_cur _ _ _ _ _ _ _ _ E) as C.
  unfold composite in E. destruct (xf_inverse (d_ctm st)); [|inversion E; subst; repeat split].
  destruct (dest_of st) as [dest db] eqn:Ed. destruct (r_empty _); [inversion E; subst; repeat split|].
  destruct (composite_rows _ _ _ _ _ _ _ _ _ _) as [d'|]; [|discriminate]. cbn [bind] in E. inversion E; subst.
  destruct (set_dest_other st d') as (S1 & S2 & _ & _ & S5 & _). split; [exact S1|]. split; [exact S2|exact S5].
Qed.

Theorem fill_idle st p src o st' : raster_ok st -> fill st p src o = Ok st' -> raster_ok st'.
Proof.
  intros R E. pose proof (apply_path_from_idle st p R) as G. cbv zeta in G. destruct G as (I & G4 & GW).
  destruct R as (Hh & _). unfold fill in E.
  set (c := apply_path (d_h st) (d_ctm st) (d_cur st) p) in *.
  destruct ((0 <? r_w (get_bounds (rz c))) && (0 <? r_h (get_bounds (rz c)))).
  - destruct (rasterize _ _ _ _) as [[rz' m]|] eqn:Er; [|discriminate]. cbn [bind] in E.
    destruct (composite _ _ _ _ _ _ _) as [s2|] eqn:Ec; [|discriminate]. cbn [bind] in E. inversion E; subst st'.
    destruct (composite_dims _ _ _ _ _ _ _ _ Ec) as (D1 & D2 & D3).
    destruct (rasterize_fields _ _ _ _ _ _ Er) as (_ & _ & _ & _ & _ & F6 & F7).
    unfold reset_raster. cbn [with_cur d_cur rz d_h d_w].
    apply (raster_ok_of st); cbn [with_cur d_cur rz d_h d_w]; try (rewrite ?D1, ?D2; reflexivity); try exact Hh.
    + rewrite D3. cbn [with_cur d_cur rz]. exact (reset_after_rasterize_idle _ _ _ _ _ _ I Er).
    + rewrite D3. cbn [with_cur d_cur rz]. rewrite (proj1 (reset_dims rz')). congruence.
    + rewrite D3. cbn [with_cur d_cur rz]. rewrite (proj2 (reset_dims rz')). congruence.
  - cbn [bind] in E. inversion E; subst st'. unfold reset_raster. cbn [with_cur d_cur rz d_h d_w].
    apply (raster_ok_of st); cbn [with_cur d_cur rz d_h d_w]; try reflexivity; try exact Hh.
    + now apply reset_idle.
    + rewrite (proj1 (reset_dims (rz c))). exact G4.
    + rewrite (proj2 (reset_dims (rz c))). exact GW.
Qed.

Theorem push_clip_idle st p st' : raster_ok st -> push_clip st p = Ok st' -> raster_ok st'.
Proof.
  intros R E. pose proof (apply_path_from_idle st p R) as G. cbv zeta in G. destruct G as (I & G4 & GW).
  destruct R as (Hh & _). unfold push_clip in E.
  set (c := apply_path (d_h st) (d_ctm st) (d_cur st) p) in *.
  destruct (rasterize _ _ _ _) as [[rz' m]|] eqn:Er; [|discriminate]. cbn [bind] in E. inversion E; subst st'.
  destruct (rasterize_fields _ _ _ _ _ _ Er) as (_ & _ & _ & _ & _ & F6 & F7).
  unfold reset_raster. cbn [with_cur with_clips d_cur rz d_h d_w].
  apply (raster_ok_of st); cbn [with_cur with_clips d_cur rz d_h d_w]; try reflexivity; try exact Hh.
  - exact (reset_after_rasterize_idle _ _ _ _ _ _ I Er).
  - rewrite (proj1 (reset_dims rz')). congruence.
  - rewrite (proj2 (reset_dims rz')). congruence.
Qed.

Lemma raster_ok_same st st' : d_h st' = d_h st -> d_w st' = d_w st -> d_cur st' = d_cur st -> raster_ok st -> raster_ok st'.
Proof. intros A B C (R1 & R2 & R3 & R4). unfold raster_ok. rewrite A, B, C. repeat split; assumption. Qed.

Lemma composite_idle st src mask mr rect0 blend alpha st' : raster_ok st -> composite st src mask mr rect0 blend alpha = Ok st' -> raster_ok st'.
Proof. intros R E. destruct (composite_dims _ _ _ _ _ _ _ _ E) as (A & B & C). now apply (raster_ok_same st). Qed.

Lemma with_ctm_idle st t : raster_ok st -> raster_ok (with_ctm st t).
Proof. intros R. now apply (raster_ok_same st). Qed.

Theorem fill_rect_idle st x y w h src o st' : raster_ok st -> fill_rect st x y w h src o = Ok st' -> raster_ok st'.
Proof.
  intros R E. unfold fill_rect in E. destruct (xf_is_identity (d_ctm st) && _ && _).
  - cbv zeta in E.
    destruct (r_empty _); [inversion E; subst; exact R|]. now apply (composite_idle _ _ _ _ _ _ _ _ R E).
  - now apply (fill_idle _ _ _ _ _ R E).
Qed.

(* C10 / C07: every operation that returns leaves the rasteriser idle *)
Theorem step_op_idle st o st' : raster_ok st -> step_op st o = Ok st' -> raster_ok st'.
Proof.
  intros R E. destruct o; cbn [step_op] in E.
  - inversion E; subst. now apply with_ctm_idle.
  - inversion E; subst. now apply (raster_ok_same st).
  - now apply (push_clip_idle _ _ _ R E).
  - inversion E; subst. now apply (raster_ok_same st).
  - inversion E; subst. now apply (raster_ok_same st).
  - (* pop_layer *) unfold pop_layer in E. destruct (d_layers st) as [|l rest]; [discriminate|].
    destruct (composite _ _ _ _ _ _ _) as [s2|] eqn:Ec; [|discriminate]. cbn [bind] in E. inversion E; subst st'.
    apply with_ctm_idle. refine (composite_idle _ _ _ _ _ _ _ _ _ Ec). apply with_ctm_idle. now apply (raster_ok_same st).
  - now apply (fill_idle _ _ _ _ _ R E).
  - now apply (fill_idle _ _ _ _ _ R E).
  - now apply (fill_rect_idle _ _ _ _ _ _ _ _ R E).
  - (* clear *) unfold clear in E. destruct (d_clips st).
    + destruct (dest_of st) as [dest db]. inversion E; subst st'. destruct (set_dest_other st (map (fun _ => if d_probe st =? -1 then 1 else c) dest)) as (S1 & S2 & _ & _ & S5 & _).
      now apply (raster_ok_same st).
    + destruct (fill _ _ _ _) as [s2|] eqn:Ef; [|discriminate]. cbn [bind] in E. inversion E; subst st'.
      apply with_ctm_idle. refine (fill_idle _ _ _ _ _ _ Ef). now apply with_ctm_idle.
  - (* mask *) unfold mask_op in E. cbv zeta in E.
    now apply (composite_idle _ _ _ _ _ _ _ _ R E).
  - now apply (fill_rect_idle _ _ _ _ _ _ _ _ R E).
  - now apply (fill_rect_idle _ _ _ _ _ _ _ _ R E).
  - destruct (fill _ _ _ _) as [s2|] eqn:Ef; [|discriminate]. cbn [bind] in E. inversion E; subst st'.
    apply with_ctm_idle. refine (fill_idle _ _ _ _ _ _ Ef). now apply with_ctm_idle.
  - destruct (surface_op _ _ _ _ _ _ _ _ _ _); [|discriminate]. cbn [bind] in E. inversion E; subst. now apply (raster_ok_same st).
Qed.

Theorem run_idle ops : forall st st', raster_ok st -> run_ops st ops = Ok st' -> raster_ok st'.
Proof.
  induction ops as [|o t IH]; intros st st' R E; cbn [run_ops] in E; [inversion E; subst; exact R|].
  destruct (step_op st o) as [s|] eqn:Es; [|discriminate]. cbn [bind] in E. exact (IH _ _ (step_op_idle _ _ _ R Es) E).
Qed.

(* two states with the same visible content that were both reached through operations carry the same rasteriser:
   the hypothesis "same rasteriser state" of history independence is discharged for every reachable pair *)
Theorem idle_same_rasteriser a b : raster_ok a -> raster_ok b -> d_w a = d_w b -> d_h a = d_h b -> rz (d_cur a) = rz (d_cur b).
Proof.
  intros (_ & Ia & Ha & Wa) (_ & Ib & Hb & Wb) EW EH.
  rewrite (idle_canonical _ Ia), (idle_canonical _ Ib). rewrite Ha, Hb, Wa, Wb, EW, EH. reflexivity.
Qed.

(* history independence without any hypothesis on the rasteriser: two targets, each reached from a fresh target by ANY
   history that returned, that show the same pixels, clips, layers and transform, behave identically from then on *)
Theorem reachable_same_input w h buf1 buf2 ops1 ops2 a b : 0 <= h ->
  run_ops (dt_new w h buf1) ops1 = Ok a -> run_ops (dt_new w h buf2) ops2 = Ok b -> vis_eq a b -> same_input a b.
Proof.
  intros Hh Ea Eb V. split; [exact V|].
  pose proof (run_idle _ _ _ (dt_new_raster_ok w h buf1 Hh) Ea) as Ra.
  pose proof (run_idle _ _ _ (dt_new_raster_ok w h buf2 Hh) Eb) as Rb.
  destruct V as (V1 & V2 & _). apply idle_same_rasteriser; try assumption; congruence.
Qed.
