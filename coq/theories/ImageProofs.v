(* ImageProofs: image shaders (property C13).
   1. bilinear_interpolation, channel by channel: the 4-bit-weighted mean of the four texels, hence inside their range;
   2. exact at texel centres (both 4-bit fractions zero), and which 16.16 positions those are;
   3. integer translations: choose_shader takes the offset shader, whose value is the texel copy
      fetch e im (x + ox) (y + oy); the general (matrix) shaders, nearest and bilinear, give the same pixel for the
      16.16 matrix of that translation; the f32 -> 16.16 conversion of such a matrix (Flocq);
   4. draw_image_at's source transform.
   New lemma file; no model definition is changed. *)
Require Import RQ.Base RQ.F32 RQ.Rect RQ.Pixel RQ.PixelProofs RQ.PathF RQ.Shader RQ.Target RQ.PremulDraw RQ.FillProofs RQ.MiscProofs.
From Coq Require Import ZArith List Lia Bool ZifyBool.
Import ListNotations.
Open Scope Z_scope.
Ltac Zify.zify_post_hook ::= Z.to_euclidean_division_equations.

(* ================================================================== *)
(** * 1. Bilinear: per-channel formula and range                       *)
(* ================================================================== *)

Inductive channel := CA | CR | CG | CB.
Definition chan (c : channel) (p : Z) : Z :=
  match c with CA => get_a p | CR => get_r p | CG => get_g p | CB => get_b p end.

Lemma chan_byte c p : 0 <= chan c p <= 255.
Proof. destruct c; cbn [chan]; [apply get_a_range|apply get_r_range|apply get_g_range|apply get_b_range]. Qed.

Lemma chan_pack c a r g b : byte a -> byte r -> byte g -> byte b ->
  chan c (pack a r g b) = match c with CA => a | CR => r | CG => g | CB => b end.
Proof.
  intros. destruct c; cbn [chan]; [apply get_a_pack|apply get_r_pack|apply get_g_pack|apply get_b_pack]; assumption.
Qed.

(* the four weights as the code computes them (the terms of C13_bilinear_weights_sum_partial) ... *)
Definition bw00 (dx dy : Z) : Z := wrapu32 (256 - Z.shiftl dy 4 - Z.shiftl dx 4 + dx * dy).
Definition bw10 (dx dy : Z) : Z := Z.shiftl dx 4 - dx * dy.
Definition bw01 (dx dy : Z) : Z := Z.shiftl dy 4 - dx * dy.
Definition bw11 (dx dy : Z) : Z := dx * dy.

(* ... and what they are: products of the one-dimensional weights 16 - d and d *)
Lemma bw_closed dx dy : 0 <= dx <= 15 -> 0 <= dy <= 15 ->
  bw00 dx dy = (16 - dx) * (16 - dy) /\ bw10 dx dy = dx * (16 - dy) /\
  bw01 dx dy = (16 - dx) * dy /\ bw11 dx dy = dx * dy.
Proof.
  intros Hx Hy. unfold bw00, bw10, bw01, bw11. rewrite !Z.shiftl_mul_pow2 by lia. change (2 ^ 4) with 16.
  assert (E : 256 - dy * 16 - dx * 16 + dx * dy = (16 - dx) * (16 - dy)) by ring.
  assert (1 <= (16 - dx) * (16 - dy) <= 256) by nia.
  rewrite wrapu32_mod, E, Z.mod_small by lia. repeat split; ring.
Qed.

Lemma bw_facts dx dy : 0 <= dx <= 15 -> 0 <= dy <= 15 ->
  0 <= bw00 dx dy /\ 0 <= bw10 dx dy /\ 0 <= bw01 dx dy /\ 0 <= bw11 dx dy /\
  bw00 dx dy + bw10 dx dy + bw01 dx dy + bw11 dx dy = 256.
Proof.
  intros Hx Hy. pose proof (bilinear_weights dx dy Hx Hy) as W. cbv zeta in W.
  unfold bw00, bw10, bw01, bw11. lia.
Qed.

(* lanes of an arbitrary integer (lane_rb / lane_ag of PixelProofs do not need their hypothesis) *)
Lemma lane_rb' p : Z.land p MASK = get_b p + 65536 * get_r p.
Proof. rewrite land_MASK, get_b_eq, get_r_eq. reflexivity. Qed.
Lemma lane_ag' p : Z.land (Z.shiftr p 8) MASK = get_g p + 65536 * get_a p.
Proof. rewrite land_MASK, shiftr8, get_g_eq, get_a_eq. rewrite Z.div_div by lia. reflexivity. Qed.

(* the packed computation (two lanes at a time under the mask 0x00ff00ff), unpacked: no hypothesis on the texels
   (only their low 32 bits are read) *)
Lemma bilinear_pack tl tr bl br dx dy : 0 <= dx <= 15 -> 0 <= dy <= 15 ->
  bilinear_interpolation tl tr bl br dx dy None =
  pack (bic (get_a tl) (get_a tr) (get_a bl) (get_a br) (bw00 dx dy) (bw10 dx dy) (bw01 dx dy) (bw11 dx dy))
       (bic (get_r tl) (get_r tr) (get_r bl) (get_r br) (bw00 dx dy) (bw10 dx dy) (bw01 dx dy) (bw11 dx dy))
       (bic (get_g tl) (get_g tr) (get_g bl) (get_g br) (bw00 dx dy) (bw10 dx dy) (bw01 dx dy) (bw11 dx dy))
       (bic (get_b tl) (get_b tr) (get_b bl) (get_b br) (bw00 dx dy) (bw10 dx dy) (bw01 dx dy) (bw11 dx dy)).
Proof.
  intros Hx Hy. pose proof (bw_facts dx dy Hx Hy) as W.
  unfold bilinear_interpolation. cbv zeta.
  change (wrapu32 (256 - Z.shiftl dy 4 - Z.shiftl dx 4 + dx * dy)) with (bw00 dx dy).
  change (Z.shiftl dx 4 - dx * dy) with (bw10 dx dy). change (Z.shiftl dy 4 - dx * dy) with (bw01 dx dy).
  change (dx * dy) with (bw11 dx dy).
  set (w1 := bw00 dx dy) in *. set (w2 := bw10 dx dy) in *. set (w3 := bw01 dx dy) in *. set (w4 := bw11 dx dy) in *.
  clearbody w1 w2 w3 w4. destruct W as (W1 & W2 & W3 & W4 & WS).
  rewrite (lane_ag' tl), (lane_ag' tr), (lane_ag' bl), (lane_ag' br).
  rewrite (lane_rb' tl), (lane_rb' tr), (lane_rb' bl), (lane_rb' br).
  rewrite shiftr8, PixelProofs.combine. bytes_of tl. bytes_of tr. bytes_of bl. bytes_of br.
  pose proof (bic_sum_bound (get_a tl) (get_a tr) (get_a bl) (get_a br) w1 w2 w3 w4) as Ba.
  pose proof (bic_sum_bound (get_r tl) (get_r tr) (get_r bl) (get_r br) w1 w2 w3 w4) as Br.
  pose proof (bic_sum_bound (get_g tl) (get_g tr) (get_g bl) (get_g br) w1 w2 w3 w4) as Bg.
  pose proof (bic_sum_bound (get_b tl) (get_b tr) (get_b bl) (get_b br) w1 w2 w3 w4) as Bb.
  unfold byte in *.
  specialize (Ba ltac:(lia) ltac:(lia) ltac:(lia) ltac:(lia) W1 W2 W3 W4 ltac:(lia)).
  specialize (Br ltac:(lia) ltac:(lia) ltac:(lia) ltac:(lia) W1 W2 W3 W4 ltac:(lia)).
  specialize (Bg ltac:(lia) ltac:(lia) ltac:(lia) ltac:(lia) W1 W2 W3 W4 ltac:(lia)).
  specialize (Bb ltac:(lia) ltac:(lia) ltac:(lia) ltac:(lia) W1 W2 W3 W4 ltac:(lia)).
  replace ((get_b tl + 65536 * get_r tl) * w1 + (get_b tr + 65536 * get_r tr) * w2 +
           (get_b bl + 65536 * get_r bl) * w3 + (get_b br + 65536 * get_r br) * w4)
    with ((get_b tl * w1 + get_b tr * w2 + get_b bl * w3 + get_b br * w4) +
          65536 * (get_r tl * w1 + get_r tr * w2 + get_r bl * w3 + get_r br * w4)) by ring.
  replace ((get_g tl + 65536 * get_a tl) * w1 + (get_g tr + 65536 * get_a tr) * w2 +
           (get_g bl + 65536 * get_a bl) * w3 + (get_g br + 65536 * get_a br) * w4)
    with ((get_g tl * w1 + get_g tr * w2 + get_g bl * w3 + get_g br * w4) +
          65536 * (get_a tl * w1 + get_a tr * w2 + get_a bl * w3 + get_a br * w4)) by ring.
  unfold bic. apply pack_inj_goal.
  - apply lane_hi; lia.
  - apply lane_shr_hi; lia.
  - apply lane_shr_lo; lia.
  - apply lane_shr_lo; lia.
Qed.

Lemma bic_bw_byte c1 c2 c3 c4 dx dy : byte c1 -> byte c2 -> byte c3 -> byte c4 -> 0 <= dx <= 15 -> 0 <= dy <= 15 ->
  byte (bic c1 c2 c3 c4 (bw00 dx dy) (bw10 dx dy) (bw01 dx dy) (bw11 dx dy)).
Proof. intros. pose proof (bw_facts dx dy) as W. apply bic_byte; try assumption; lia. Qed.

Lemma bilinear_wf tl tr bl br dx dy : 0 <= dx <= 15 -> 0 <= dy <= 15 ->
  wf_px (bilinear_interpolation tl tr bl br dx dy None).
Proof.
  intros Hx Hy. rewrite bilinear_pack by assumption.
  bytes_of tl. bytes_of tr. bytes_of bl. bytes_of br.
  apply wf_pack; apply bic_bw_byte; unfold byte; lia.
Qed.

(* 1a. every channel of the result is (c00*w00 + c10*w10 + c01*w01 + c11*w11) >> 8, the weights being the four terms
   of C13_bilinear_weights_sum_partial *)
Theorem bilinear_channel_raw c t00 t10 t01 t11 dx dy : 0 <= dx <= 15 -> 0 <= dy <= 15 ->
  chan c (bilinear_interpolation t00 t10 t01 t11 dx dy None) =
  Z.shiftr (chan c t00 * bw00 dx dy + chan c t10 * bw10 dx dy + chan c t01 * bw01 dx dy + chan c t11 * bw11 dx dy) 8.
Proof.
  intros Hx Hy. rewrite bilinear_pack by assumption.
  bytes_of t00. bytes_of t10. bytes_of t01. bytes_of t11.
  rewrite chan_pack by (apply bic_bw_byte; unfold byte; lia).
  rewrite shiftr8. destruct c; reflexivity.
Qed.

(* 1b. the same with the weights in closed form: (16-dx)(16-dy), dx(16-dy), (16-dx)dy, dx dy (sum 256) *)
Theorem bilinear_channel c t00 t10 t01 t11 dx dy : 0 <= dx <= 15 -> 0 <= dy <= 15 ->
  chan c (bilinear_interpolation t00 t10 t01 t11 dx dy None) =
  Z.shiftr (chan c t00 * ((16 - dx) * (16 - dy)) + chan c t10 * (dx * (16 - dy))
            + chan c t01 * ((16 - dx) * dy) + chan c t11 * (dx * dy)) 8.
Proof.
  intros Hx Hy. rewrite bilinear_channel_raw by assumption.
  destruct (bw_closed dx dy Hx Hy) as (-> & -> & -> & ->). reflexivity.
Qed.
Print Assumptions bilinear_channel.

(* a mean with non-negative weights summing to 256 lies between the least and the greatest value *)
Lemma bic_between c1 c2 c3 c4 w1 w2 w3 w4 lo hi :
  lo <= c1 <= hi -> lo <= c2 <= hi -> lo <= c3 <= hi -> lo <= c4 <= hi ->
  0 <= w1 -> 0 <= w2 -> 0 <= w3 -> 0 <= w4 -> w1 + w2 + w3 + w4 = 256 ->
  lo <= bic c1 c2 c3 c4 w1 w2 w3 w4 <= hi.
Proof.
  intros H1 H2 H3 H4 W1 W2 W3 W4 WS. unfold bic.
  assert (lo * w1 <= c1 * w1 <= hi * w1) by (split; apply Z.mul_le_mono_nonneg_r; lia).
  assert (lo * w2 <= c2 * w2 <= hi * w2) by (split; apply Z.mul_le_mono_nonneg_r; lia).
  assert (lo * w3 <= c3 * w3 <= hi * w3) by (split; apply Z.mul_le_mono_nonneg_r; lia).
  assert (lo * w4 <= c4 * w4 <= hi * w4) by (split; apply Z.mul_le_mono_nonneg_r; lia).
  assert (lo * 256 <= c1 * w1 + c2 * w2 + c3 * w3 + c4 * w4 <= hi * 256) by nia.
  lia.
Qed.

(* 1c. every channel of the result lies between the least and the greatest of the four texels' channels *)
Theorem bilinear_in_range c t00 t10 t01 t11 dx dy : 0 <= dx <= 15 -> 0 <= dy <= 15 ->
  Z.min (Z.min (chan c t00) (chan c t10)) (Z.min (chan c t01) (chan c t11))
  <= chan c (bilinear_interpolation t00 t10 t01 t11 dx dy None)
  <= Z.max (Z.max (chan c t00) (chan c t10)) (Z.max (chan c t01) (chan c t11)).
Proof.
  intros Hx Hy. rewrite bilinear_channel_raw by assumption. rewrite shiftr8.
  pose proof (bw_facts dx dy Hx Hy) as (W1 & W2 & W3 & W4 & WS).
  apply (bic_between (chan c t00) (chan c t10) (chan c t01) (chan c t11)); try assumption; lia.
Qed.
Print Assumptions bilinear_in_range.

(* with a global alpha the result is alpha_mul of the plain result (no hypothesis on the texels) *)
Lemma bilinear_alpha tl tr bl br dx dy a :
  bilinear_interpolation tl tr bl br dx dy (Some a) = alpha_mul (bilinear_interpolation tl tr bl br dx dy None) a.
Proof.
  unfold alpha_mul. cbv zeta. unfold bilinear_interpolation. cbv zeta.
  set (lo := Z.land tl MASK * _ + Z.land tr MASK * _ + Z.land bl MASK * _ + Z.land br MASK * _).
  set (hi := Z.land (Z.shiftr tl 8) MASK * _ + Z.land (Z.shiftr tr 8) MASK * _ +
             Z.land (Z.shiftr bl 8) MASK * _ + Z.land (Z.shiftr br 8) MASK * _).
  clearbody lo hi.
  set (x := Z.lor (Z.land (Z.shiftr lo 8) MASK) (Z.land hi NMASK)) in *.
  assert (E1 : Z.land x MASK = Z.land (Z.shiftr lo 8) MASK).
  { subst x. rewrite PixelProofs.combine. rewrite land_MASK.
    rewrite pack_eq by (unfold byte; lia). rewrite land_MASK. lia. }
  assert (E2 : Z.land (Z.shiftr x 8) MASK = Z.land (Z.shiftr hi 8) MASK).
  { subst x. rewrite PixelProofs.combine, !shiftr8, !land_MASK.
    rewrite pack_eq by (unfold byte; lia). lia. }
  rewrite E1, E2. reflexivity.
Qed.

(* channel formula with a global alpha (Alpha256, 0..256): the weighted mean, then * a >> 8 *)
Theorem bilinear_channel_alpha c t00 t10 t01 t11 dx dy a : 0 <= dx <= 15 -> 0 <= dy <= 15 -> 0 <= a <= 256 ->
  chan c (bilinear_interpolation t00 t10 t01 t11 dx dy (Some a)) =
  Z.shiftr (Z.shiftr (chan c t00 * ((16 - dx) * (16 - dy)) + chan c t10 * (dx * (16 - dy))
                      + chan c t01 * ((16 - dx) * dy) + chan c t11 * (dx * dy)) 8 * a) 8.
Proof.
  intros Hx Hy Ha. rewrite bilinear_alpha.
  pose proof (alpha_mul_channels _ a (bilinear_wf t00 t10 t01 t11 dx dy Hx Hy) Ha) as (_ & Ea & Er & Eg & Eb).
  rewrite <- (bilinear_channel c t00 t10 t01 t11 dx dy Hx Hy). rewrite (shiftr8 (_ * a)).
  destruct c; cbn [chan]; assumption.
Qed.

(* ================================================================== *)
(** * 2. Exact at texel centres                                        *)
(* ================================================================== *)

Lemma pack_chan p : wf_px p -> p = pack (chan CA p) (chan CR p) (chan CG p) (chan CB p).
Proof. exact (pack_get p). Qed.

(* both fractions zero: the top-left texel, whatever the three others are *)
Theorem bilinear_exact_at_centre t00 t10 t01 t11 : wf_px t00 ->
  bilinear_interpolation t00 t10 t01 t11 0 0 None = t00.
Proof.
  intros H. rewrite bilinear_pack by lia.
  change (bw00 0 0) with 256. change (bw10 0 0) with 0. change (bw01 0 0) with 0. change (bw11 0 0) with 0.
  rewrite (pack_get t00 H) at 5. unfold bic. apply pack_inj_goal; lia.
Qed.
Print Assumptions bilinear_exact_at_centre.

Theorem bilinear_exact_at_centre_alpha t00 t10 t01 t11 a : wf_px t00 ->
  bilinear_interpolation t00 t10 t01 t11 0 0 (Some a) = alpha_mul t00 a.
Proof. intros H. rewrite bilinear_alpha, bilinear_exact_at_centre by exact H. reflexivity. Qed.

(* without the hypothesis, the low 32 bits *)
Theorem bilinear_exact_at_centre_mod t00 t10 t01 t11 :
  bilinear_interpolation t00 t10 t01 t11 0 0 None = t00 mod 2 ^ 32.
Proof.
  rewrite bilinear_pack by lia.
  change (bw00 0 0) with 256. change (bw10 0 0) with 0. change (bw01 0 0) with 0. change (bw11 0 0) with 0.
  unfold bic. bytes_of t00. rewrite pack_eq by (unfold byte; lia).
  rewrite get_a_eq, get_r_eq, get_g_eq, get_b_eq. change (2 ^ 32) with 4294967296. lia.
Qed.

(* the 4-bit fraction of a 16.16 position: bits 12..15; it is zero exactly when the low 16 bits are below 4096,
   i.e. the position is less than 1/16 of a texel past an integer *)
Lemma bilinear_weight_eq x : bilinear_weight x = (x mod 65536) / 4096.
Proof.
  unfold bilinear_weight. rewrite Z.shiftr_div_pow2 by lia. change (2 ^ 12) with 4096.
  change 15 with (Z.ones 4). rewrite Z.land_ones by lia. change (2 ^ 4) with 16. lia.
Qed.

Theorem bilinear_weight_zero x : bilinear_weight x = 0 <-> x mod 65536 < 4096.
Proof. rewrite bilinear_weight_eq. lia. Qed.

(* a position k + f/65536 with 0 <= f < 4096 *)
Lemma bilinear_weight_zero_at k f : 0 <= f < 4096 -> bilinear_weight (65536 * k + f) = 0 /\ fixed_to_int (65536 * k + f) = k.
Proof. intros Hf. rewrite bilinear_weight_eq. unfold fixed_to_int. rewrite shiftr16. lia. Qed.

Definition image_wf (im : image) : Prop := Forall wf_px (i_data im).

Lemma image_ok_wf im : image_ok im -> image_wf im.
Proof. unfold image_ok, image_wf. apply Forall_impl. intros p [H _]. exact H. Qed.

Lemma img_at_wf im x y : image_wf im -> wf_px (img_at im x y).
Proof.
  intros H. unfold img_at, zn. destruct (nth_in_or_default (Z.to_nat (y * i_w im + x)) (i_data im) 0) as [Hin| ->]; [|apply wf_0].
  unfold image_wf in H. rewrite Forall_forall in H. apply H. exact Hin.
Qed.

Lemma fetch_wf e im x y : image_wf im -> wf_px (fetch e im x y).
Proof. intros H. destruct e; cbn [fetch]; unfold pad_fetch, repeat_fetch; cbv zeta; apply img_at_wf; exact H. Qed.

(* fetch_bilinear at a 16.16 position (px, py) (already half-pixel corrected: the shader's matrix carries the -0.5)
   whose low 16 bits are both below 4096 returns the texel (px >> 16, py >> 16) exactly *)
Theorem fetch_bilinear_exact_at_centre e im px py : image_wf im ->
  px mod 65536 < 4096 -> py mod 65536 < 4096 ->
  fetch_bilinear e im px py None = fetch e im (Z.shiftr px 16) (Z.shiftr py 16).
Proof.
  intros Hi Hx Hy. unfold fetch_bilinear. cbv zeta.
  apply bilinear_weight_zero in Hx. apply bilinear_weight_zero in Hy. rewrite Hx, Hy.
  apply bilinear_exact_at_centre. apply fetch_wf. exact Hi.
Qed.
Print Assumptions fetch_bilinear_exact_at_centre.

Theorem fetch_bilinear_exact_at_centre_alpha e im px py a : image_wf im ->
  px mod 65536 < 4096 -> py mod 65536 < 4096 ->
  fetch_bilinear e im px py (Some a) = alpha_mul (fetch e im (Z.shiftr px 16) (Z.shiftr py 16)) a.
Proof.
  intros Hi Hx Hy. unfold fetch_bilinear. cbv zeta.
  apply bilinear_weight_zero in Hx. apply bilinear_weight_zero in Hy. rewrite Hx, Hy.
  apply bilinear_exact_at_centre_alpha. apply fetch_wf. exact Hi.
Qed.

(* the channel formula and range at the level of fetch_bilinear: the four texels are those at
   (x1, y1), (x1+1, y1), (x1, y1+1), (x1+1, y1+1) with x1 = px >> 16, y1 = py >> 16, fractions bits 12..15 *)
Theorem fetch_bilinear_channel c e im px py :
  let x1 := Z.shiftr px 16 in let y1 := Z.shiftr py 16 in
  let dx := bilinear_weight px in let dy := bilinear_weight py in
  chan c (fetch_bilinear e im px py None) =
  Z.shiftr (chan c (fetch e im x1 y1) * ((16 - dx) * (16 - dy)) + chan c (fetch e im (x1 + 1) y1) * (dx * (16 - dy))
            + chan c (fetch e im x1 (y1 + 1)) * ((16 - dx) * dy) + chan c (fetch e im (x1 + 1) (y1 + 1)) * (dx * dy)) 8.
Proof. cbv zeta. unfold fetch_bilinear. cbv zeta. apply bilinear_channel; apply bilinear_weight_range. Qed.

Theorem fetch_bilinear_in_range c e im px py :
  let x1 := Z.shiftr px 16 in let y1 := Z.shiftr py 16 in
  Z.min (Z.min (chan c (fetch e im x1 y1)) (chan c (fetch e im (x1 + 1) y1)))
        (Z.min (chan c (fetch e im x1 (y1 + 1))) (chan c (fetch e im (x1 + 1) (y1 + 1))))
  <= chan c (fetch_bilinear e im px py None)
  <= Z.max (Z.max (chan c (fetch e im x1 y1)) (chan c (fetch e im (x1 + 1) y1)))
           (Z.max (chan c (fetch e im x1 (y1 + 1))) (chan c (fetch e im (x1 + 1) (y1 + 1)))).
Proof. cbv zeta. unfold fetch_bilinear. cbv zeta. apply bilinear_in_range; apply bilinear_weight_range. Qed.
Print Assumptions fetch_bilinear_in_range.

(* ================================================================== *)
(** * 3. Pure integer translations (16.16 level)                       *)
(* ================================================================== *)

Lemma wrap32_eq v : wrap32 v = (v + 2147483648) mod 4294967296 - 2147483648.
Proof.
  unfold wrap32. cbv zeta. rewrite wrapu32_mod.
  destruct (Z.ltb_spec (v mod 4294967296) 2147483648); lia.
Qed.

Lemma wrap32_small v : -2147483648 <= v < 2147483648 -> wrap32 v = v.
Proof. intros H. rewrite wrap32_eq. lia. Qed.

Lemma wrapu16_small x : 0 <= x < 65536 -> wrapu16 x = x.
Proof. intros H. unfold wrapu16. change 65535 with (Z.ones 16). rewrite Z.land_ones by lia. change (2 ^ 16) with 65536. lia. Qed.

(* wrapping sums: only the final value has to fit *)
Lemma wrap32_sum3 a b c : -2147483648 <= a + b + c < 2147483648 ->
  wrap32 (wrap32 (wrap32 a + wrap32 b) + c) = a + b + c.
Proof. intros H. rewrite !wrap32_eq. lia. Qed.

(* the 16.16 matrix of the translation by (ox, oy), with residues (ex, ey) in the translation terms
   (float_to_fixed leaves the residue 1 for -128 <= ox < 0 and 0 otherwise, see section 4: the general theorems
   below allow any residue in [0, 1/16) texel for bilinear and [-1/2, 1/2) texel for nearest) *)
Definition translation_fixmat (ox oy ex ey : Z) : fixmat := mk_fixmat 65536 0 0 65536 (65536 * ox + ex) (65536 * oy + ey).

(* device pixel (x, y) (u16 in the code) is mapped to (x + ox, y + oy) in 16.16, provided the result fits an i32
   (intermediate wrapping is harmless) *)
Lemma fix_transform_translation ox oy ex ey x y : 0 <= x < 65536 -> 0 <= y < 65536 ->
  -2147483648 <= 65536 * (x + ox) + ex < 2147483648 -> -2147483648 <= 65536 * (y + oy) + ey < 2147483648 ->
  fix_transform (translation_fixmat ox oy ex ey) x y = (65536 * (x + ox) + ex, 65536 * (y + oy) + ey).
Proof.
  intros Hx Hy Rx Ry. unfold fix_transform, translation_fixmat. cbv zeta. cbn [xx xy yx yy fx0 fy0].
  rewrite (wrapu16_small x Hx), (wrapu16_small y Hy). f_equal.
  - rewrite wrap32_sum3 by lia. lia.
  - rewrite wrap32_sum3 by lia. lia.
Qed.

Lemma fixed_floor k f : 0 <= f < 65536 -> fixed_to_int (65536 * k + f) = k.
Proof. intros H. unfold fixed_to_int. rewrite shiftr16. lia. Qed.

(* 3a. nearest: residues anywhere in [-1/2, 1/2) texel *)
Theorem nearest_integer_translation e im ox oy ex ey x y : 0 <= x < 65536 -> 0 <= y < 65536 ->
  -2147483648 <= 65536 * (x + ox) + ex < 2147483648 -> -2147483648 <= 65536 * (y + oy) + ey < 2147483648 ->
  -32768 <= ex < 32768 -> -32768 <= ey < 32768 ->
  shade (ShImageXf im e Nearest (translation_fixmat ox oy ex ey) None) x y = fetch e im (x + ox) (y + oy).
Proof.
  intros Hx Hy Rx Ry Ex Ey. cbn [shade]. rewrite fix_transform_translation by assumption.
  unfold fetch_nearest. cbv zeta.
  replace (65536 * (x + ox) + ex + 32768) with (65536 * (x + ox) + (ex + 32768)) by ring.
  replace (65536 * (y + oy) + ey + 32768) with (65536 * (y + oy) + (ey + 32768)) by ring.
  rewrite !fixed_floor by lia. reflexivity.
Qed.
Print Assumptions nearest_integer_translation.

Theorem nearest_integer_translation_alpha e im ox oy ex ey x y a : 0 <= x < 65536 -> 0 <= y < 65536 ->
  -2147483648 <= 65536 * (x + ox) + ex < 2147483648 -> -2147483648 <= 65536 * (y + oy) + ey < 2147483648 ->
  -32768 <= ex < 32768 -> -32768 <= ey < 32768 ->
  shade (ShImageXf im e Nearest (translation_fixmat ox oy ex ey) (Some a)) x y = alpha_mul (fetch e im (x + ox) (y + oy)) a.
Proof.
  intros Hx Hy Rx Ry Ex Ey.
  rewrite <- (nearest_integer_translation e im ox oy ex ey x y Hx Hy Rx Ry Ex Ey).
  cbn [shade]. destruct (fix_transform (translation_fixmat ox oy ex ey) x y) as [px py]. apply nearest_alpha.
Qed.

(* 3b. bilinear: residues in [0, 1/16) texel (both 4-bit fractions are then zero) *)
Theorem bilinear_integer_translation e im ox oy ex ey x y : image_wf im -> 0 <= x < 65536 -> 0 <= y < 65536 ->
  -2147483648 <= 65536 * (x + ox) + ex < 2147483648 -> -2147483648 <= 65536 * (y + oy) + ey < 2147483648 ->
  0 <= ex < 4096 -> 0 <= ey < 4096 ->
  shade (ShImageXf im e Bilinear (translation_fixmat ox oy ex ey) None) x y = fetch e im (x + ox) (y + oy).
Proof.
  intros Hi Hx Hy Rx Ry Ex Ey. cbn [shade]. rewrite fix_transform_translation by assumption.
  rewrite fetch_bilinear_exact_at_centre by (try exact Hi; lia).
  change (Z.shiftr ?v 16) with (fixed_to_int v). rewrite !fixed_floor by lia. reflexivity.
Qed.
Print Assumptions bilinear_integer_translation.

Theorem bilinear_integer_translation_alpha e im ox oy ex ey x y a : image_wf im -> 0 <= x < 65536 -> 0 <= y < 65536 ->
  -2147483648 <= 65536 * (x + ox) + ex < 2147483648 -> -2147483648 <= 65536 * (y + oy) + ey < 2147483648 ->
  0 <= ex < 4096 -> 0 <= ey < 4096 ->
  shade (ShImageXf im e Bilinear (translation_fixmat ox oy ex ey) (Some a)) x y = alpha_mul (fetch e im (x + ox) (y + oy)) a.
Proof.
  intros Hi Hx Hy Rx Ry Ex Ey. cbn [shade]. rewrite fix_transform_translation by assumption.
  rewrite fetch_bilinear_exact_at_centre_alpha by (try exact Hi; lia).
  change (Z.shiftr ?v 16) with (fixed_to_int v). rewrite !fixed_floor by lia. reflexivity.
Qed.

(* 3c. the offset (span) shader is the texel copy: fetch at (x + ox, y + oy), scaled by the global alpha *)
Lemma clampi_eq v w : 0 < w -> clampi v 0 (w - 1) = Z.max 0 (Z.min (w - 1) v).
Proof. intros H. unfold clampi. destruct (Z.ltb_spec v 0); [lia|]. destruct (Z.ltb_spec (w - 1) v); lia. Qed.

Theorem offset_shader_is_fetch im e ox oy a x y : 0 < i_w im -> 0 < i_h im ->
  shade (ShImageOffset im e ox oy a) x y = alpha_mul (fetch e im (x + ox) (y + oy)) a.
Proof.
  intros Hw Hh. destruct e; cbn [shade fetch].
  - rewrite pad_fetch_clamps, !clampi_eq by assumption. reflexivity.
  - rewrite repeat_fetch_wraps by assumption. reflexivity.
Qed.
Print Assumptions offset_shader_is_fetch.

Theorem offset_shader_opaque im e ox oy x y : image_wf im -> 0 < i_w im -> 0 < i_h im ->
  shade (ShImageOffset im e ox oy 256) x y = fetch e im (x + ox) (y + oy).
Proof. intros Hi Hw Hh. rewrite offset_shader_is_fetch by assumption. apply alpha_mul_256_id, fetch_wf, Hi. Qed.

(* the Alpha256 the offset shader uses for the optional alpha of the matrix shader *)
Definition alpha256_of (alpha : option Z) : Z := match alpha with None => 256 | Some a => a end.

(* 3d. for the 16.16 matrix of an integer translation the general shader (either filter, with or without a global
   alpha) and the offset shader give the same pixel *)
Theorem integer_translation_shaders_agree im e f ox oy ex ey alpha x y :
  image_wf im -> 0 < i_w im -> 0 < i_h im -> 0 <= x < 65536 -> 0 <= y < 65536 ->
  -2147483648 <= 65536 * (x + ox) + ex < 2147483648 -> -2147483648 <= 65536 * (y + oy) + ey < 2147483648 ->
  0 <= ex < 4096 -> 0 <= ey < 4096 ->
  shade (ShImageXf im e f (translation_fixmat ox oy ex ey) alpha) x y =
  shade (ShImageOffset im e ox oy (alpha256_of alpha)) x y.
Proof.
  intros Hi Hw Hh Hx Hy Rx Ry Ex Ey.
  destruct alpha as [a|]; cbn [alpha256_of].
  - rewrite offset_shader_is_fetch by assumption.
    destruct f; [apply bilinear_integer_translation_alpha|apply nearest_integer_translation_alpha]; try assumption; lia.
  - rewrite offset_shader_opaque by assumption.
    destruct f; [apply bilinear_integer_translation|apply nearest_integer_translation]; try assumption; lia.
Qed.
Print Assumptions integer_translation_shaders_agree.

(* ================================================================== *)
(** * 4. Integer translations at the f32 level (Flocq)                *)
(* ================================================================== *)
From Flocq Require Import Core IEEE754.BinarySingleNaN IEEE754.Binary IEEE754.Bits.
Import Flocq.IEEE754.Binary.
From Coq Require Import Reals Lra.
Open Scope Z_scope.

(* x is a finite float whose value is n / 2 (fint of FillProofs: value n) *)
Definition fhi (x : f32) (n : Z) : Prop := is_finite 24 128 x = true /\ B2R 24 128 x = (IZR n * / 2)%R.

Lemma bpow_m1 : bpow radix2 (-1) = (/ 2)%R.
Proof. reflexivity. Qed.

Lemma gf_half n : small n -> generic_format radix2 (SpecFloat.fexp 24 128) (IZR n * / 2)%R.
Proof.
  intros Hn. change (SpecFloat.fexp 24 128) with (FLT_exp (-149) 24).
  apply generic_format_FLT. apply (FLT_spec radix2 (-149) 24 _ (Float radix2 n (-1))).
  - unfold F2R. cbn [Fnum Fexp]. rewrite bpow_m1. reflexivity.
  - cbn [Fnum]. exact Hn.
  - cbn [Fexp]. lia.
Qed.

Lemma round_half n : small n ->
  round radix2 (SpecFloat.fexp 24 128) (round_mode mode_NE) (IZR n * / 2)%R = (IZR n * / 2)%R.
Proof. intros Hn. apply round_generic; [apply valid_rnd_round_mode|apply gf_half; exact Hn]. Qed.

Lemma lt_emax_half n : small n -> Rlt_bool (Rabs (IZR n * / 2)%R) (bpow radix2 128) = true.
Proof.
  intros Hn. pose proof (lt_emax_int n Hn) as H.
  apply Rlt_bool_true. destruct (Rlt_bool_spec (Rabs (IZR n)) (bpow radix2 128)) as [L|L]; [|discriminate H].
  apply Rle_lt_trans with (Rabs (IZR n)); [|exact L].
  rewrite Rabs_mult. rewrite (Rabs_pos_eq (/ 2)%R) by lra. pose proof (Rabs_pos (IZR n)). lra.
Qed.

Lemma fint_fhi x n : fint x n -> fhi x (2 * n).
Proof. intros [F V]. split; [exact F|]. rewrite V, mult_IZR. lra. Qed.
Lemma fhi_fint x n : fhi x (2 * n) -> fint x n.
Proof. intros [F V]. split; [exact F|]. rewrite V, mult_IZR. lra. Qed.
Lemma fhi_eq x a b : a = b -> fhi x a -> fhi x b.
Proof. intros ->. exact (fun H => H). Qed.

Lemma fhalf_fhi : fhi fhalf 1.
Proof.
  unfold fhalf, of_bits. set (x := b32_of_bits _). vm_compute in x. subst x. split; [reflexivity|].
  cbn [B2R]. unfold F2R. cbn [Fnum Fexp cond_Zopp].
  change (bpow radix2 (-24)) with (/ IZR 16777216)%R. lra.
Qed.

Lemma fadd_fhi x y a b : fhi x a -> fhi y b -> small (a + b) -> fhi (fadd x y) (a + b).
Proof.
  intros [Fx Vx] [Fy Vy] Hs. unfold fadd, b32_plus. cbv zeta.
  pose proof (Bplus_correct 24 128 eq_refl eq_refl binop_nan_pl32 mode_NE x y Fx Fy) as H.
  rewrite Vx, Vy in H.
  replace (IZR a * / 2 + IZR b * / 2)%R with (IZR (a + b) * / 2)%R in H by (rewrite plus_IZR; lra).
  rewrite (round_half _ Hs), (lt_emax_half _ Hs) in H.
  destruct H as (H1 & H2 & _). split; assumption.
Qed.

Lemma fmul_fhi_int x y a b : fhi x a -> fint y b -> small (a * b) -> fhi (fmul x y) (a * b).
Proof.
  intros [Fx Vx] [Fy Vy] Hs. unfold fmul, b32_mult. cbv zeta.
  pose proof (Bmult_correct 24 128 eq_refl eq_refl binop_nan_pl32 mode_NE x y) as H.
  rewrite Vx, Vy in H.
  replace (IZR a * / 2 * IZR b)%R with (IZR (a * b) * / 2)%R in H by (rewrite mult_IZR; lra).
  rewrite (round_half _ Hs), (lt_emax_half _ Hs) in H.
  destruct H as (H1 & H2 & _). rewrite Fx, Fy in H2. split; assumption.
Qed.

Lemma fneg_fhi x a : fhi x a -> fhi (fneg x) (- a).
Proof.
  intros [F V]. unfold fneg, b32_opp. split.
  - rewrite is_finite_Bopp. exact F.
  - rewrite B2R_Bopp, V, opp_IZR. lra.
Qed.

Lemma fneg_fint x a : fint x a -> fint (fneg x) (- a).
Proof.
  intros [F V]. unfold fneg, b32_opp. split.
  - rewrite is_finite_Bopp. exact F.
  - rewrite B2R_Bopp, V, opp_IZR. reflexivity.
Qed.

Lemma fsub_fint x y a b : fint x a -> fint y b -> small (a - b) -> fint (fsub x y) (a - b).
Proof.
  intros [Fx Vx] [Fy Vy] Hs. unfold fsub, b32_minus. cbv zeta.
  pose proof (Bminus_correct 24 128 eq_refl eq_refl binop_nan_pl32 mode_NE x y Fx Fy) as H.
  rewrite Vx, Vy, <- minus_IZR in H. rewrite (round_int _ Hs), (lt_emax_int _ Hs) in H.
  destruct H as (H1 & H2 & _). split; assumption.
Qed.

(* exact division *)
Lemma fdiv_fint x y a b q : fint x a -> fint y b -> b <> 0 -> a = q * b -> small q -> fint (fdiv x y) q.
Proof.
  intros [Fx Vx] [Fy Vy] Hb Hq Hs. unfold fdiv, b32_div. cbv zeta.
  assert (Hb' : IZR b <> 0%R) by (apply not_0_IZR; exact Hb).
  pose proof (Bdiv_correct 24 128 eq_refl eq_refl binop_nan_pl32 mode_NE x y) as H.
  rewrite Vy in H. specialize (H Hb'). rewrite Vx in H.
  replace (IZR a / IZR b)%R with (IZR q) in H by (subst a; rewrite mult_IZR; field; exact Hb').
  rewrite (round_int _ Hs), (lt_emax_int _ Hs) in H.
  destruct H as (H1 & H2 & _). rewrite Fx in H2. split; assumption.
Qed.

Lemma feq_fint_same x y a : fint x a -> fint y a -> feq x y = true.
Proof.
  intros [Fx Vx] [Fy Vy]. unfold feq, fcmp, b32_compare.
  rewrite (Bcompare_correct 24 128 x y Fx Fy), Vx, Vy, Rcompare_IZR, Z.compare_refl. reflexivity.
Qed.

(* truncation toward zero of a half-integer *)
Lemma ftrunc_fhi x n : fhi x n -> ftrunc x = Some (Z.quot n 2).
Proof.
  intros [Fx Vx]. destruct x as [s|s|s pl e|s m e Hb]; try discriminate Fx.
  - cbn in Vx. assert (n = 0) by (apply eq_IZR; lra). subst n. reflexivity.
  - cbn [ftrunc]. cbn [B2R] in Vx. unfold F2R in Vx. cbn [Fnum Fexp] in Vx.
    assert (V2 : (IZR (2 * cond_Zopp s (Z.pos m)) * bpow radix2 e)%R = IZR n) by (rewrite mult_IZR; lra).
    destruct (0 <=? e)%Z eqn:Ee.
    + apply Z.leb_le in Ee. rewrite <- (IZR_Zpower radix2 e Ee), <- mult_IZR in V2. apply eq_IZR in V2.
      change (Zpower radix2 e) with (2 ^ e)%Z in V2. f_equal.
      assert (0 < 2 ^ e) by (apply Z.pow_pos_nonneg; lia).
      destruct s; cbn [cond_Zopp] in V2.
      * replace n with ((- (Z.pos m * 2 ^ e)) * 2) by lia. rewrite Z.quot_mul by lia. reflexivity.
      * replace n with ((Z.pos m * 2 ^ e) * 2) by lia. rewrite Z.quot_mul by lia. reflexivity.
    + apply Z.leb_gt in Ee.
      assert (Hk : (0 <= - e - 1)%Z) by lia.
      assert (Hpow : (0 < 2 ^ (- e - 1))%Z) by (apply Z.pow_pos_nonneg; lia).
      assert (Hp2 : 2 ^ (- e) = 2 * 2 ^ (- e - 1)).
      { replace (- e) with (Z.succ (- e - 1)) at 1 by lia. rewrite Z.pow_succ_r by lia. reflexivity. }
      assert (E : IZR (cond_Zopp s (Z.pos m)) = IZR (n * 2 ^ (- e - 1))).
      { rewrite mult_IZR. change (2 ^ (- e - 1))%Z with (Zpower radix2 (- e - 1)). rewrite (IZR_Zpower radix2 (- e - 1) Hk).
        rewrite <- V2. rewrite mult_IZR, Rmult_assoc, Rmult_assoc, <- bpow_plus.
        replace (e + (- e - 1))%Z with (-1)%Z by lia. rewrite bpow_m1. lra. }
      apply eq_IZR in E. f_equal. rewrite Hp2.
      destruct s; cbn [cond_Zopp] in E.
      * replace (Z.pos m) with ((- n) * 2 ^ (- e - 1))%Z by lia.
        rewrite Z.quot_mul_cancel_r by lia. rewrite Z.quot_opp_l by lia. lia.
      * rewrite E. rewrite Z.quot_mul_cancel_r by lia. reflexivity.
Qed.

Lemma quot2_abs n : Z.abs (Z.quot n 2) <= Z.abs n.
Proof.
  destruct (Z.lt_ge_cases n 0).
  - replace n with (- (- n)) at 1 by lia. rewrite Z.quot_opp_l by lia. rewrite Z.quot_div_nonneg by lia. lia.
  - rewrite Z.quot_div_nonneg by lia. lia.
Qed.

Lemma to_i32_fhi x n : fhi x n -> small n -> to_i32 x = Z.quot n 2.
Proof.
  intros H Hs. unfold to_i32. rewrite (ftrunc_fhi x n H). unfold clampz, i32_min, i32_max, small in *.
  pose proof (quot2_abs n). lia.
Qed.

Lemma f65536_fint : fint f65536 65536.
Proof. apply of_int_fint. unfold small. lia. Qed.

(* 4a. float_to_fixed of an integer-valued float: n * 65536 for n >= 0 but n * 65536 + 1 for n < 0
   (the + 0.5 before the truncating cast rounds negative values toward zero) *)
Theorem float_to_fixed_fint x n : fint x n -> -128 <= n <= 127 ->
  float_to_fixed x = 65536 * n + (if n <? 0 then 1 else 0).
Proof.
  intros Hx Hn. unfold float_to_fixed.
  assert (H1 : fint (fmul x f65536) (n * 65536)) by (apply fmul_fint; [exact Hx|exact f65536_fint|unfold small; lia]).
  apply fint_fhi in H1.
  assert (H2 : fhi (fadd (fmul x f65536) fhalf) (2 * (n * 65536) + 1))
    by (apply fadd_fhi; [exact H1|exact fhalf_fhi|unfold small; lia]).
  rewrite (to_i32_fhi _ _ H2) by (unfold small; lia).
  destruct (Z.ltb_spec n 0).
  - replace (2 * (n * 65536) + 1) with (- (2 * (- n * 65536 - 1) + 1)) by lia.
    rewrite Z.quot_opp_l by lia. rewrite Z.quot_div_nonneg by lia. lia.
  - rewrite Z.quot_div_nonneg by lia. lia.
Qed.
Print Assumptions float_to_fixed_fint.

(* so "the conversion of an integer translation is exact" is false for small negative offsets: *)
Example float_to_fixed_not_exact : float_to_fixed (of_int (-3)) = -196607 /\ -196607 = 65536 * (-3) + 1.
Proof. vm_compute. split; reflexivity. Qed.

Ltac split6 := split; [|split; [|split; [|split; [|split]]]].

(* ---- products of transforms whose entries are integers or half-integers ---- *)
Definition sm2 (p q : Z) : Prop := small p /\ small q /\ small (p + q).
Definition sm3 (p q c : Z) : Prop := small p /\ small q /\ small (p + q) /\ small (p + q + c).

Lemma dot2_fhi x1 y1 x2 y2 a1 b1 a2 b2 : fhi x1 a1 -> fint y1 b1 -> fhi x2 a2 -> fint y2 b2 ->
  sm2 (a1 * b1) (a2 * b2) -> fhi (fadd (fmul x1 y1) (fmul x2 y2)) (a1 * b1 + a2 * b2).
Proof.
  intros H1 G1 H2 G2 (S1 & S2 & S3).
  apply fadd_fhi; [apply fmul_fhi_int; assumption|apply fmul_fhi_int; assumption|exact S3].
Qed.

Lemma dot3_fhi x1 y1 x2 y2 z a1 b1 a2 b2 c : fhi x1 a1 -> fint y1 b1 -> fhi x2 a2 -> fint y2 b2 -> fhi z c ->
  sm3 (a1 * b1) (a2 * b2) c -> fhi (fadd (fadd (fmul x1 y1) (fmul x2 y2)) z) (a1 * b1 + a2 * b2 + c).
Proof.
  intros H1 G1 H2 G2 Hz (S1 & S2 & S3 & S4).
  apply fadd_fhi; [apply dot2_fhi; try assumption; repeat split; assumption|exact Hz|exact S4].
Qed.

(* all six entries are half-integers / the entries are integers *)
Definition xf_half (t : xform) (a11 a12 a21 a22 a31 a32 : Z) : Prop :=
  fhi (m11 t) a11 /\ fhi (m12 t) a12 /\ fhi (m21 t) a21 /\ fhi (m22 t) a22 /\ fhi (m31 t) a31 /\ fhi (m32 t) a32.
Definition xf_int (t : xform) (a11 a12 a21 a22 a31 a32 : Z) : Prop :=
  fint (m11 t) a11 /\ fint (m12 t) a12 /\ fint (m21 t) a21 /\ fint (m22 t) a22 /\ fint (m31 t) a31 /\ fint (m32 t) a32.

Lemma xf_int_half t a11 a12 a21 a22 a31 a32 :
  xf_int t a11 a12 a21 a22 a31 a32 -> xf_half t (2 * a11) (2 * a12) (2 * a21) (2 * a22) (2 * a31) (2 * a32).
Proof. intros (H1 & H2 & H3 & H4 & H5 & H6). split6; apply fint_fhi; assumption. Qed.

(* Transform2D::then, a half-integer matrix followed by one with an integer linear part and a half-integer translation:
   exact, provided every intermediate value is below 2^24 (in halves) *)
Lemma xf_then_half a b a11 a12 a21 a22 a31 a32 b11 b12 b21 b22 b31 b32 :
  xf_half a a11 a12 a21 a22 a31 a32 ->
  fint (m11 b) b11 -> fint (m12 b) b12 -> fint (m21 b) b21 -> fint (m22 b) b22 -> fhi (m31 b) b31 -> fhi (m32 b) b32 ->
  sm2 (a11 * b11) (a12 * b21) -> sm2 (a11 * b12) (a12 * b22) -> sm2 (a21 * b11) (a22 * b21) -> sm2 (a21 * b12) (a22 * b22) ->
  sm3 (a31 * b11) (a32 * b21) b31 -> sm3 (a31 * b12) (a32 * b22) b32 ->
  xf_half (xf_then a b) (a11 * b11 + a12 * b21) (a11 * b12 + a12 * b22) (a21 * b11 + a22 * b21) (a21 * b12 + a22 * b22)
          (a31 * b11 + a32 * b21 + b31) (a31 * b12 + a32 * b22 + b32).
Proof.
  intros (A1 & A2 & A3 & A4 & A5 & A6) B1 B2 B3 B4 B5 B6 S1 S2 S3 S4 S5 S6.
  unfold xf_half, xf_then. cbn [m11 m12 m21 m22 m31 m32].
  split6; first [apply dot3_fhi; assumption|apply dot2_fhi; assumption].
Qed.

(* an integer translation: the matrix entries have the values 1 0 0 1 ox oy *)
Definition int_translation (t : xform) (ox oy : Z) : Prop := xf_int t 1 0 0 1 ox oy.

Lemma small_lia n : Z.abs n < 16777216 -> small n.
Proof. exact (fun H => H). Qed.

Ltac sm := unfold sm2, sm3, small; lia.

(* the product of two integer translations is the translation by the sum *)
Theorem int_translation_then a b ax ay bx by_ :
  int_translation a ax ay -> int_translation b bx by_ ->
  Z.abs ax < 4194304 -> Z.abs ay < 4194304 -> Z.abs bx < 4194304 -> Z.abs by_ < 4194304 ->
  int_translation (xf_then a b) (ax + bx) (ay + by_).
Proof.
  intros Ha Hb B1 B2 B3 B4. apply xf_int_half in Ha. destruct Hb as (H1 & H2 & H3 & H4 & H5 & H6).
  apply fint_fhi in H5. apply fint_fhi in H6.
  pose proof (xf_then_half a b _ _ _ _ _ _ _ _ _ _ _ _ Ha H1 H2 H3 H4 H5 H6
                ltac:(sm) ltac:(sm) ltac:(sm) ltac:(sm) ltac:(sm) ltac:(sm)) as (R1 & R2 & R3 & R4 & R5 & R6).
  split6; apply fhi_fint; (eapply fhi_eq; [|eassumption]); lia.
Qed.
Print Assumptions int_translation_then.

Lemma int_translation_translation x y X Y : fint x X -> fint y Y -> int_translation (xf_translation x y) X Y.
Proof. intros Hx Hy. split6; cbn [xf_translation m11 m12 m21 m22 m31 m32]; [apply f1_fint|apply f0_fint|apply f0_fint|apply f1_fint|exact Hx|exact Hy]. Qed.

Lemma int_translation_identity : int_translation xf_identity 0 0.
Proof. split6; cbn [xf_identity m11 m12 m21 m22 m31 m32]; [apply f1_fint|apply f0_fint|apply f0_fint|apply f1_fint|apply f0_fint|apply f0_fint]. Qed.

(* 4b. is_integer_transform recognises every integer translation below 2^24 *)
Theorem is_integer_transform_translation t ox oy : int_translation t ox oy -> small ox -> small oy ->
  is_integer_transform t = Some (ox, oy).
Proof.
  intros (H1 & H2 & H3 & H4 & H5 & H6) Sx Sy. unfold is_integer_transform.
  rewrite (feq_fint_same _ _ _ H1 f1_fint), (feq_fint_same _ _ _ H2 f0_fint),
          (feq_fint_same _ _ _ H3 f0_fint), (feq_fint_same _ _ _ H4 f1_fint). cbn [andb]. cbv zeta.
  rewrite (to_i32_fint _ _ H5) by (unfold small, i32_min, i32_max in *; lia).
  rewrite (to_i32_fint _ _ H6) by (unfold small, i32_min, i32_max in *; lia).
  rewrite (feq_fint_same _ _ _ (of_int_fint ox Sx) H5), (feq_fint_same _ _ _ (of_int_fint oy Sy) H6). reflexivity.
Qed.
Print Assumptions is_integer_transform_translation.

(* 4c. choose_shader: when the combined transform (inverse current transform, then the source transform) is an
   integer translation, the offset shader is selected *)
Theorem choose_shader_integer_translation ti im e f t alpha ox oy :
  int_translation (xf_then ti t) ox oy -> small ox -> small oy ->
  choose_shader ti (Image im e f t) alpha =
  ShImageOffset im e ox oy (alpha_to_alpha256 (Z.min (unit_to_u32 alpha) 255)).
Proof.
  intros H Sx Sy. unfold choose_shader. cbv zeta.
  rewrite (is_integer_transform_translation _ ox oy H Sx Sy). reflexivity.
Qed.
Print Assumptions choose_shader_integer_translation.

(* ... in particular when both are integer translations, with the sum of the offsets *)
Theorem choose_shader_integer_translations ti im e f t alpha ax ay bx by_ :
  int_translation ti ax ay -> int_translation t bx by_ ->
  Z.abs ax < 4194304 -> Z.abs ay < 4194304 -> Z.abs bx < 4194304 -> Z.abs by_ < 4194304 ->
  choose_shader ti (Image im e f t) alpha =
  ShImageOffset im e (ax + bx) (ay + by_) (alpha_to_alpha256 (Z.min (unit_to_u32 alpha) 255)).
Proof.
  intros Ha Hb B1 B2 B3 B4. apply choose_shader_integer_translation.
  - apply int_translation_then; assumption.
  - unfold small. lia.
  - unfold small. lia.
Qed.

(* 4d. the matrix the general shaders would get: the half-pixel sandwich (pre-translate by +0.5, then translate
   by -0.5) of an integer translation is the same translation, and its 16.16 image is translation_fixmat with
   residue 1 for an offset in -128..-1 and 0 otherwise (ftf_residue below) *)
Definition half_pixel_sandwich (m : xform) : xform :=
  xf_then_translate (xf_pre_translate m fhalf fhalf) (fneg fhalf) (fneg fhalf).

Lemma sandwich_int_translation m ox oy : int_translation m ox oy -> Z.abs ox < 4194304 -> Z.abs oy < 4194304 ->
  int_translation (half_pixel_sandwich m) ox oy.
Proof.
  intros (H1 & H2 & H3 & H4 & H5 & H6) Bx By.
  unfold half_pixel_sandwich, xf_then_translate, xf_pre_translate.
  assert (T1 : xf_half (xf_translation fhalf fhalf) 2 0 0 2 1 1).
  { split6; cbn [xf_translation m11 m12 m21 m22 m31 m32];
      [apply (fint_fhi _ 1 f1_fint)|apply (fint_fhi _ 0 f0_fint)|apply (fint_fhi _ 0 f0_fint)|apply (fint_fhi _ 1 f1_fint)
      |apply fhalf_fhi|apply fhalf_fhi]. }
  pose proof (xf_then_half _ m _ _ _ _ _ _ _ _ _ _ _ _ T1 H1 H2 H3 H4 (fint_fhi _ _ H5) (fint_fhi _ _ H6)
                ltac:(sm) ltac:(sm) ltac:(sm) ltac:(sm) ltac:(sm) ltac:(sm)) as T2.
  pose proof (fneg_fhi _ _ fhalf_fhi) as Hn.
  pose proof (xf_then_half _ (xf_translation (fneg fhalf) (fneg fhalf)) _ _ _ _ _ _ 1 0 0 1 (-1) (-1) T2
                f1_fint f0_fint f0_fint f1_fint Hn Hn
                ltac:(sm) ltac:(sm) ltac:(sm) ltac:(sm) ltac:(sm) ltac:(sm)) as (R1 & R2 & R3 & R4 & R5 & R6).
  split6; apply fhi_fint; (eapply fhi_eq; [|eassumption]); lia.
Qed.

(* the whole i16 range of offsets, by enumeration: a finite float with a non-zero integer value n is of_int n, and
   float_to_fixed (of_int n) is computed for the 65536 values of n.  The residue 1 only occurs for -128 <= n < 0
   (beyond, n * 65536 + 0.5 is not representable and rounds to n * 65536). *)
Definition ftf_residue (n : Z) : Z := if (-128 <=? n) && (n <? 0) then 1 else 0.
Definition ftf_ok (n : Z) : bool := float_to_fixed (of_int n) =? 65536 * n + ftf_residue n.
Lemma ftf_all : forallb ftf_ok (zrange (-32768) 32768) = true.
Proof. vm_compute. reflexivity. Qed.

Lemma fint_of_int x n : fint x n -> n <> 0 -> small n -> x = of_int n.
Proof.
  intros [Fx Vx] Hn Hs. destruct (of_int_fint n Hs) as [Fy Vy].
  assert (Hr : IZR n <> 0%R) by (apply not_0_IZR; exact Hn).
  apply B2R_inj.
  - destruct x; try discriminate Fx; [|reflexivity]. cbn in Vx. congruence.
  - destruct (of_int n); try discriminate Fy; [|reflexivity]. cbn in Vy. congruence.
  - congruence.
Qed.

Theorem float_to_fixed_fint_wide x n : fint x n -> -32768 <= n <= 32767 ->
  float_to_fixed x = 65536 * n + ftf_residue n.
Proof.
  intros Hx Hn. destruct (Z.eq_dec n 0) as [->|Hz].
  - destruct Hx as [Fx Vx]. destruct x as [s|s|s pl e|s m e Hb]; try discriminate Fx.
    + destruct s; vm_compute; reflexivity.
    + exfalso. cbn [B2R] in Vx. apply eq_0_F2R in Vx. destruct s; discriminate Vx.
  - rewrite (fint_of_int x n Hx Hz) by (unfold small; lia).
    pose proof ftf_all as A. rewrite forallb_forall in A.
    specialize (A n ltac:(apply zrange_In; lia)). unfold ftf_ok in A. lia.
Qed.
Print Assumptions float_to_fixed_fint_wide.

Theorem integer_translation_to_fixed m ox oy : int_translation m ox oy -> -32768 <= ox <= 32767 -> -32768 <= oy <= 32767 ->
  transform_to_fixed (half_pixel_sandwich m) = translation_fixmat ox oy (ftf_residue ox) (ftf_residue oy).
Proof.
  intros H Bx By.
  destruct (sandwich_int_translation m ox oy H ltac:(lia) ltac:(lia)) as (H1 & H2 & H3 & H4 & H5 & H6).
  unfold transform_to_fixed, translation_fixmat.
  rewrite (float_to_fixed_fint_wide _ _ H1), (float_to_fixed_fint_wide _ _ H2), (float_to_fixed_fint_wide _ _ H3),
          (float_to_fixed_fint_wide _ _ H4), (float_to_fixed_fint_wide _ _ H5), (float_to_fixed_fint_wide _ _ H6) by lia.
  reflexivity.
Qed.
Print Assumptions integer_translation_to_fixed.

Lemma ftf_residue_range n : 0 <= ftf_residue n <= 1.
Proof. unfold ftf_residue. destruct ((-128 <=? n) && (n <? 0)); lia. Qed.

(* 4e. consistency of the two routes of choose_shader for an integer translation m = xf_then ti t with offsets in
   the i16 range: the offset shader it selects and the matrix shader of its other branch (either filter) give the same
   pixel at every device pixel whose source position fits the 16.16 range *)
Theorem integer_translation_routes_agree ti im e f t alpha ox oy x y :
  int_translation (xf_then ti t) ox oy -> -32768 <= ox <= 32767 -> -32768 <= oy <= 32767 ->
  image_wf im -> 0 < i_w im -> 0 < i_h im -> 0 <= x < 65536 -> 0 <= y < 65536 -> x + ox < 32768 -> y + oy < 32768 ->
  let a := Z.min (unit_to_u32 alpha) 255 in
  shade (choose_shader ti (Image im e f t) alpha) x y =
  shade (ShImageXf im e f (transform_to_fixed (half_pixel_sandwich (xf_then ti t)))
                   (if a =? 255 then None else Some (alpha_to_alpha256 a))) x y
  /\ shade (choose_shader ti (Image im e f t) alpha) x y = alpha_mul (fetch e im (x + ox) (y + oy)) (alpha_to_alpha256 a).
Proof.
  intros H Bx By Hi Hw Hh Hx Hy Rx Ry a.
  rewrite (choose_shader_integer_translation ti im e f t alpha ox oy H) by (unfold small; lia). fold a.
  rewrite (integer_translation_to_fixed _ ox oy H Bx By).
  split.
  - rewrite integer_translation_shaders_agree; try assumption.
    + f_equal. f_equal. unfold alpha256_of, alpha_to_alpha256. destruct (Z.eqb_spec a 255); lia.
    + pose proof (ftf_residue_range ox). lia.
    + pose proof (ftf_residue_range oy). lia.
    + pose proof (ftf_residue_range ox). lia.
    + pose proof (ftf_residue_range oy). lia.
  - apply offset_shader_is_fetch; assumption.
Qed.
Print Assumptions integer_translation_routes_agree.

(* ================================================================== *)
(** * 5. draw_image_at places texel (i, j) on pixel (x + i, y + j)     *)
(* ================================================================== *)

Lemma feq_fint_diff x y a b : fint x a -> fint y b -> a <> b -> feq x y = false.
Proof.
  intros [Fx Vx] [Fy Vy] H. unfold feq, fcmp, b32_compare.
  rewrite (Bcompare_correct 24 128 x y Fx Fy), Vx, Vy, Rcompare_IZR.
  destruct (Z.compare_spec a b); [contradiction|reflexivity|reflexivity].
Qed.

(* syntax-directed evaluation of an integer-valued float expression: leaves the `small` side conditions *)
Ltac fi_syn :=
  lazymatch goal with
  | |- fint (fmul _ _) _ => eapply fmul_fint; [fi_syn|fi_syn|]
  | |- fint (fadd _ _) _ => eapply fadd_fint; [fi_syn|fi_syn|]
  | |- fint (fsub _ _) _ => eapply fsub_fint; [fi_syn|fi_syn|]
  | |- fint (fneg _) _ => eapply fneg_fint; fi_syn
  | |- fint f0 _ => exact f0_fint
  | |- fint f1 _ => exact f1_fint
  | |- _ => eassumption
  end.
Ltac fi := (eapply fint_eq; [|fi_syn]); unfold small; try lia.

(* the inverse of an integer translation is the opposite translation, exactly *)
Theorem xf_inverse_int_translation t a b : int_translation t a b -> Z.abs a < 8388608 -> Z.abs b < 8388608 ->
  exists ti, xf_inverse t = Some ti /\ int_translation ti (- a) (- b).
Proof.
  intros (H1 & H2 & H3 & H4 & H5 & H6) Ba Bb. unfold xf_inverse, xf_determinant. cbv zeta.
  assert (Hdet : fint (fsub (fmul (m11 t) (m22 t)) (fmul (m12 t) (m21 t))) 1) by fi.
  set (det := fsub (fmul (m11 t) (m22 t)) (fmul (m12 t) (m21 t))) in *. clearbody det.
  rewrite (feq_fint_diff det f0 1 0 Hdet f0_fint) by lia.
  assert (Hinv : fint (fdiv f1 det) 1) by (apply (fdiv_fint f1 det 1 1 1 f1_fint Hdet); unfold small; lia).
  set (inv := fdiv f1 det) in *. clearbody inv.
  eexists. split; [reflexivity|].
  split6; cbn [m11 m12 m21 m22 m31 m32]; fi.
Qed.
Print Assumptions xf_inverse_int_translation.

(* the source transform draw_image_at hands to fill_rect (draw_image_with_size_at with the image's own size) *)
Definition draw_image_src (x y : f32) (im : image) : xform :=
  xf_then_scale (xf_translation (fneg x) (fneg y))
    (fdiv (of_int (i_w im)) (of_int (i_w im))) (fdiv (of_int (i_h im)) (of_int (i_h im))).

Lemma draw_image_at_eq st x y im o :
  draw_image_at st x y im o =
  fill_rect st x y (of_int (i_w im)) (of_int (i_h im)) (Image im ExtPad Bilinear (draw_image_src x y im)) o.
Proof. reflexivity. Qed.

(* for integer x, y it is the translation by (-x, -y): the scale factors w/w and h/h are exactly 1 *)
Theorem draw_image_src_translation x y X Y im : fint x X -> fint y Y ->
  Z.abs X < 4194304 -> Z.abs Y < 4194304 -> 0 < i_w im < 16777216 -> 0 < i_h im < 16777216 ->
  int_translation (draw_image_src x y im) (- X) (- Y).
Proof.
  intros Hx Hy Bx By Hw Hh. unfold draw_image_src, xf_then_scale.
  assert (Sx : fint (fdiv (of_int (i_w im)) (of_int (i_w im))) 1).
  { pose proof (of_int_fint (i_w im) ltac:(unfold small; lia)) as W.
    apply (fdiv_fint _ _ _ _ 1 W W); unfold small; lia. }
  assert (Sy : fint (fdiv (of_int (i_h im)) (of_int (i_h im))) 1).
  { pose proof (of_int_fint (i_h im) ltac:(unfold small; lia)) as W.
    apply (fdiv_fint _ _ _ _ 1 W W); unfold small; lia. }
  set (sx := fdiv (of_int (i_w im)) (of_int (i_w im))) in *. set (sy := fdiv (of_int (i_h im)) (of_int (i_h im))) in *.
  clearbody sx sy.
  pose proof (int_translation_translation _ _ _ _ (fneg_fint _ _ Hx) (fneg_fint _ _ Hy)) as T1.
  apply xf_int_half in T1.
  pose proof (xf_then_half _ (xf_scale sx sy) _ _ _ _ _ _ 1 0 0 1 (2 * 0) (2 * 0) T1
                Sx f0_fint f0_fint Sy (fint_fhi _ _ f0_fint) (fint_fhi _ _ f0_fint)
                ltac:(sm) ltac:(sm) ltac:(sm) ltac:(sm) ltac:(sm) ltac:(sm)) as (R1 & R2 & R3 & R4 & R5 & R6).
  split6; apply fhi_fint; (eapply fhi_eq; [|eassumption]); lia.
Qed.
Print Assumptions draw_image_src_translation.

(* With a current transform that is an integer translation by (cx, cy) (the identity: cx = cy = 0), draw_image_at
   at the integer position (X, Y): composite inverts the current transform exactly, choose_shader takes the offset
   shader, and texel (i, j) of the image is what the shader yields at device pixel (cx + X + i, cy + Y + j), scaled by
   the global alpha.  Outside the image the edge texel is repeated (ExtPad); fill_rect's rectangle cuts that off. *)
Theorem draw_image_at_texels ctm cx cy x y X Y im alpha :
  int_translation ctm cx cy -> fint x X -> fint y Y ->
  Z.abs cx < 2097152 -> Z.abs cy < 2097152 -> Z.abs X < 2097152 -> Z.abs Y < 2097152 ->
  0 < i_w im < 16777216 -> 0 < i_h im < 16777216 ->
  exists ti, xf_inverse ctm = Some ti /\
    let a := alpha_to_alpha256 (Z.min (unit_to_u32 alpha) 255) in
    let sh := choose_shader ti (Image im ExtPad Bilinear (draw_image_src x y im)) alpha in
    sh = ShImageOffset im ExtPad (- cx - X) (- cy - Y) a /\
    (forall px py, shade sh px py = alpha_mul (pad_fetch im (px - cx - X) (py - cy - Y)) a) /\
    (forall i j, 0 <= i < i_w im -> 0 <= j < i_h im -> shade sh (cx + X + i) (cy + Y + j) = alpha_mul (img_at im i j) a).
Proof.
  intros Hc Hx Hy B1 B2 B3 B4 Hw Hh.
  destruct (xf_inverse_int_translation ctm cx cy Hc ltac:(lia) ltac:(lia)) as (ti & Ei & Hti).
  exists ti. split; [exact Ei|]. cbv zeta.
  pose proof (draw_image_src_translation x y X Y im Hx Hy ltac:(lia) ltac:(lia) Hw Hh) as Hs.
  rewrite (choose_shader_integer_translations ti im ExtPad Bilinear _ alpha _ _ _ _ Hti Hs) by lia.
  replace (- cx + - X) with (- cx - X) by lia. replace (- cy + - Y) with (- cy - Y) by lia.
  split; [reflexivity|]. split.
  - intros px py. rewrite offset_shader_is_fetch by lia. cbn [fetch]. do 2 f_equal; lia.
  - intros i j Hi Hj. rewrite offset_shader_is_fetch by lia. cbn [fetch].
    rewrite pad_fetch_clamps by lia. do 2 f_equal; lia.
Qed.
Print Assumptions draw_image_at_texels.
