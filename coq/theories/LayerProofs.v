(* C06 (layers) and C10 (history independence): structure of push_layer / pop_layer and the fact that a call's
   result depends only on the visible state and the rasteriser state. *)
Require Import RQ.Base RQ.F32 RQ.Rect RQ.Pixel RQ.Raster RQ.PathF RQ.PathOps RQ.Shader RQ.Surface RQ.Target RQ.TargetProofs RQ.OpsProofs RQ.ClipProofs.
From Coq Require Import ZifyBool.

(* push_layer opens a transparent buffer covering exactly the clip bounds; nothing else changes *)
Theorem push_layer_spec st opacity blend :
  let st' := push_layer st opacity blend in
  exists l, d_layers st' = l :: d_layers st /\ l_rect l = clip_bounds st /\ l_opacity l = opacity /\ l_blend l = blend /\
    Forall (fun p => p = 0) (l_buf l) /\
    zlen (l_buf l) = Z.max (r_w (clip_bounds st)) 0 * Z.max (r_h (clip_bounds st)) 0 /\
    d_buf st' = d_buf st /\ d_clips st' = d_clips st /\ d_ctm st' = d_ctm st /\ d_w st' = d_w st /\ d_h st' = d_h st.
Proof.
  cbv zeta. unfold push_layer. eexists. cbn [with_layers d_layers d_buf d_clips d_ctm d_w d_h].
  split; [reflexivity|]. cbn [l_rect l_opacity l_blend l_buf]. repeat split.
  - apply Forall_forall. intros x Hx. now apply repeat_spec in Hx.
  - unfold zlen. rewrite repeat_length. lia.
Qed.

Lemma r_empty_inter_l a b : r_empty a = true -> r_empty (r_inter a b) = true.
Proof. unfold r_empty, r_inter; cbn [x0 y0 x1 y1]. lia. Qed.
Lemma r_empty_inter_r a b : r_empty b = true -> r_empty (r_inter a b) = true.
Proof. unfold r_empty, r_inter; cbn [x0 y0 x1 y1]. lia. Qed.

Lemma identity_invertible : exists ti, xf_inverse xf_identity = Some ti.
Proof. unfold xf_inverse. destruct (feq (xf_determinant xf_identity) f0) eqn:E; [vm_compute in E; discriminate|]. eexists. reflexivity. Qed.

(* a layer pushed under an empty clip (disjoint / inverted rectangles) is empty, and popping it changes nothing
   but the layer stack *)
Theorem empty_layer_is_harmless st l rest :
  d_layers st = l :: rest -> r_empty (l_rect l) = true ->
  pop_layer st = Ok (with_ctm (with_ctm (with_layers st rest) xf_identity) (d_ctm st)).
Proof.
  intros Hl He. unfold pop_layer. rewrite Hl. unfold composite.
  cbn [with_ctm d_ctm]. destruct identity_invertible as [ti ->].
  destruct (dest_of _) as [dest db].
  rewrite r_empty_inter_l; [reflexivity|]. apply r_empty_inter_l. apply r_empty_inter_l. exact He.
Qed.
Theorem push_under_empty_clip st opacity blend :
  r_empty (clip_bounds st) = true ->
  exists l, d_layers (push_layer st opacity blend) = l :: d_layers st /\ r_empty (l_rect l) = true.
Proof. intros He. eexists. split; [reflexivity|exact He]. Qed.

(* push_layer then pop_layer of the untouched (transparent) layer: one composite of transparent pixels *)
Theorem pop_restores_transform_and_clips st st' : d_probe st = 0 -> pop_layer st = Ok st' ->
  d_ctm st' = d_ctm st /\ d_clips st' = d_clips st /\ d_w st' = d_w st /\ d_h st' = d_h st /\
  d_layers st' = match tl (d_layers st) with
                 | [] => []
                 | _ => d_layers st'
                 end /\
  tl (d_layers st') = tl (tl (d_layers st)) /\ (tl (d_layers st) <> [] -> d_buf st' = d_buf st).
Proof.
  intros Hp E. destruct (pop_layer_is_one_composite _ _ E) as (l & rest & st2 & Hl & Hc & ->).
  destruct (composite_is_set_dest (with_ctm (with_layers st rest) xf_identity) _ _ _ _ _ _ _ Hp Hc) as (d & -> & _).
  destruct (set_dest_other (with_ctm (with_layers st rest) xf_identity) d) as (A1 & A2 & A3 & A4 & A5 & A6 & A7 & A8 & A9 & _).
  rewrite Hl. cbn [tl with_ctm d_ctm d_clips d_w d_h d_layers d_buf] in *.
  repeat split; try assumption; try (destruct rest; [apply A9; reflexivity|reflexivity]).
Qed.

(* ---- C10: the result of a call depends only on the visible state and the rasteriser state ---- *)
Definition same_input (a b : dt) : Prop := vis_eq a b /\ rz (d_cur a) = rz (d_cur b).

Lemma same_input_eq a b : same_input a b -> exists c, b = with_cur a c /\ rz c = rz (d_cur a).
Proof.
  intros [(A & B & C & D & E & F & G) R]. exists (d_cur b). split; [|symmetry; exact R].
  destruct a, b; cbn in *; subst; reflexivity.
Qed.

Lemma apply_path_cursor_irrelevant h t c1 c2 p : rz c1 = rz c2 -> apply_path h t c1 p = apply_path h t c2 p.
Proof. intros R. unfold apply_path. rewrite R. reflexivity. Qed.

Lemma composite_with_cur st c src mask mr rect0 blend alpha :
  composite (with_cur st c) src mask mr rect0 blend alpha =
  match composite st src mask mr rect0 blend alpha with Ok s => Ok (with_cur s c) | Err e => Err e end.
Proof.
  unfold composite. cbn [with_cur d_ctm d_layers d_buf d_w d_h d_clips d_probe].
  destruct (xf_inverse (d_ctm st)); [|reflexivity].
  change (dest_of (with_cur st c)) with (dest_of st). destruct (dest_of st) as [dest db].
  change (clip_bounds (with_cur st c)) with (clip_bounds st).
  change (top_clip_mask (with_cur st c)) with (top_clip_mask st).
  destruct (r_empty _); [reflexivity|].
  destruct (composite_rows _ _ _ _ _ _ _ _ _ _); cbn [bind]; [|reflexivity].
  unfold set_dest. cbn [with_cur d_layers]. destruct (d_layers st); reflexivity.
Qed.

Lemma fill_with_cur st c p src o : rz c = rz (d_cur st) -> fill (with_cur st c) p src o = fill st p src o.
Proof.
  intros R. unfold fill. cbn [with_cur d_h d_ctm d_cur].
  rewrite (apply_path_cursor_irrelevant _ _ c (d_cur st) p R). reflexivity.
Qed.

Lemma composite_cur st src mask mr rect0 blend alpha st' : composite st src mask mr rect0 blend alpha = Ok st' -> d_cur st' = d_cur st.
Proof.
  unfold composite. intros Ec. destruct (xf_inverse (d_ctm st)); [|inversion Ec; reflexivity].
  destruct (dest_of st). destruct (r_empty _); [inversion Ec; reflexivity|].
  destruct (composite_rows _ _ _ _ _ _ _ _ _ _) as [dd|]; [|discriminate]. cbn [bind] in Ec. inversion Ec.
  destruct (set_dest_other st dd) as (_ & _ & _ & _ & A5 & _). exact A5.
Qed.

Definition lift_cur (r : result dt) (c : cursor) : result dt := match r with Ok s => Ok (with_cur s c) | Err e => Err e end.

(* running a call on a state that differs only in the path cursor (same rasteriser state) gives the same state,
   or the same state with that cursor carried along untouched *)
Lemma step_op_with_cur st c o : rz c = rz (d_cur st) ->
  step_op (with_cur st c) o = step_op st o \/
  (step_op (with_cur st c) o = lift_cur (step_op st o) c /\ forall s, step_op st o = Ok s -> d_cur s = d_cur st).
Proof.
  intros R. destruct o; cbn [step_op].
  - right. split; [reflexivity|intros s' E; inversion E; reflexivity].
  - right. split; [reflexivity|intros s' E; inversion E; reflexivity].
  - left. unfold push_clip. cbn [with_cur d_h d_ctm d_cur d_w].
    rewrite (apply_path_cursor_irrelevant _ _ c (d_cur st) p R). reflexivity.
  - right. split; [reflexivity|intros s' E; inversion E; reflexivity].
  - right. split; [reflexivity|intros s' E; inversion E; reflexivity].
  - (* pop_layer *) right. unfold pop_layer. cbn [with_cur d_layers]. destruct (d_layers st) as [|l rest]; [split; [reflexivity|discriminate]|].
    change (with_ctm (with_layers (with_cur st c) rest) xf_identity) with (with_cur (with_ctm (with_layers st rest) xf_identity) c).
    rewrite composite_with_cur. cbn [with_cur d_w d_h d_ctm].
    destruct (composite (with_ctm (with_layers st rest) xf_identity) _ _ _ _ _ _) as [s2|] eqn:Ec; cbn [bind lift_cur].
    + split; [reflexivity|]. intros s' E. inversion E; subst. cbn [with_ctm d_cur]. now rewrite (composite_cur _ _ _ _ _ _ _ _ Ec).
    + split; [reflexivity|discriminate].
  - left. now apply fill_with_cur.
  - left. now apply fill_with_cur.
  - (* fill_rect *) unfold fill_rect. cbn [with_cur d_ctm d_clips].
    destruct (xf_is_identity (d_ctm st) && _ && _).
    + right. cbv zeta.
      change (surface_rect (with_cur st c)) with (surface_rect st).
      destruct (r_empty _).
      * split; [reflexivity|intros s' E; inversion E; reflexivity].
      * rewrite composite_with_cur. split; [reflexivity|]. intros s' E. now apply composite_cur in E.
    + left. now apply fill_with_cur.
  - (* clear *) unfold clear. cbn [with_cur d_clips]. destruct (d_clips st).
    + right. change (dest_of (with_cur st c)) with (dest_of st). destruct (dest_of st) as [dest db].
      cbn [lift_cur]. split.
      * unfold set_dest. cbn [with_cur d_layers d_probe]. destruct (d_layers st); reflexivity.
      * intros s' E. inversion E. destruct (set_dest_other st (map (fun _ => if d_probe st =? -1 then 1 else c0) dest)) as (_ & _ & _ & _ & A5 & _). exact A5.
    + left. change (with_ctm (with_cur st c) xf_identity) with (with_cur (with_ctm st xf_identity) c).
      rewrite fill_with_cur by exact R. reflexivity.
  - (* mask *) right. unfold mask_op. cbv zeta.
    rewrite composite_with_cur. split; [reflexivity|]. intros s' E. now apply composite_cur in E.
  - (* draw_image_at: a fill_rect *)
    unfold draw_image_at, draw_image_with_size_at, fill_rect. cbn [with_cur d_ctm d_clips].
    destruct (xf_is_identity (d_ctm st) && _ && _).
    + right. cbv zeta.
      change (surface_rect (with_cur st c)) with (surface_rect st).
      destruct (r_empty _).
      * split; [reflexivity|intros s' E; inversion E; reflexivity].
      * rewrite composite_with_cur. split; [reflexivity|]. intros s' E. now apply composite_cur in E.
    + left. now apply fill_with_cur.
  - unfold draw_image_with_size_at, fill_rect. cbn [with_cur d_ctm d_clips].
    destruct (xf_is_identity (d_ctm st) && _ && _).
    + right. cbv zeta.
      change (surface_rect (with_cur st c)) with (surface_rect st).
      destruct (r_empty _).
      * split; [reflexivity|intros s' E; inversion E; reflexivity].
      * rewrite composite_with_cur. split; [reflexivity|]. intros s' E. now apply composite_cur in E.
    + left. now apply fill_with_cur.
  - (* fill of the pre-transformed path *) left.
    change (with_ctm (with_cur st c) xf_identity) with (with_cur (with_ctm st xf_identity) c).
    cbn [with_cur d_ctm]. rewrite fill_with_cur by exact R. reflexivity.
  - right. cbn [with_cur d_w d_h d_buf]. destruct (surface_op _ _ _ _ _ _ _ _ _ _); cbn [bind lift_cur]; split; try reflexivity; try discriminate.
    intros s' E. inversion E. reflexivity.
Qed.

(* C10: if two targets show the same pixels, transform, clip stack and layer stack and their rasterisers are in
   the same state, every call returns on both or on neither, and leaves them in that relation again *)
Theorem history_independent a b o a' : same_input a b -> step_op a o = Ok a' ->
  exists b', step_op b o = Ok b' /\ same_input a' b'.
Proof.
  intros S E. destruct (same_input_eq _ _ S) as (c & -> & R).
  destruct (step_op_with_cur a c o R) as [Eq|[Eq Hc]].
  - exists a'. split; [congruence|]. split; [apply vis_refl|reflexivity].
  - rewrite Eq, E. cbn [lift_cur]. exists (with_cur a' c). split; [reflexivity|].
    split; [apply vis_with_cur|]. cbn [with_cur d_cur]. rewrite (Hc _ E). symmetry; exact R.
Qed.

Theorem history_independent_seq ops : forall a b a', same_input a b -> run_ops a ops = Ok a' ->
  exists b', run_ops b ops = Ok b' /\ same_input a' b'.
Proof.
  induction ops as [|o t IH]; intros a b a' S E; cbn [run_ops] in *.
  - inversion E; subst. exists b. split; [reflexivity|exact S].
  - destruct (step_op a o) as [a1|] eqn:E1; [|discriminate]. cbn [bind] in E.
    destruct (history_independent _ _ _ _ S E1) as (b1 & Eb & S1). rewrite Eb. cbn [bind].
    eapply IH; eassumption.
Qed.
