(* Smaller theorems about sources, transforms, path utilities and the pixel format
   (parts of C09, C04, C11, C12, C13, C16, C19, C20). *)
Require Import RQ.Base RQ.F32 RQ.Rect RQ.Pixel RQ.Raster RQ.PathF RQ.PathOps RQ.PixelFormat RQ.Shader RQ.Surface RQ.Target RQ.TargetProofs RQ.OpsProofs.
From Coq Require Import ZifyBool.
Ltac Zify.zify_post_hook ::= Z.to_euclidean_division_equations.

Lemma land_255 x : Z.land x 255 = x mod 256.
Proof. change 255 with (Z.ones 8). rewrite Z.land_ones by lia. reflexivity. Qed.
Lemma shiftr_n x n : 0 <= n -> Z.shiftr x n = x / 2 ^ n.
Proof. intros. apply Z.shiftr_div_pow2; lia. Qed.

(* ---------------- C11 ---------------- *)
(* a non-invertible transform draws nothing (every composite returns at once) *)
Theorem singular_ctm_draws_nothing st src mask mr rect0 blend alpha :
  xf_inverse (d_ctm st) = None -> composite st src mask mr rect0 blend alpha = Ok st.
Proof. intros H. unfold composite. rewrite H. reflexivity. Qed.
(* clip rectangles are in device space *)
Theorem clip_rect_ignores_ctm st t r : push_clip_rect (with_ctm st t) r = with_ctm (push_clip_rect st r) t.
Proof. reflexivity. Qed.
(* surface copies read and write nothing but the base surface: transform, clip stack and layers are ignored *)
Theorem surface_op_only_touches_the_surface st k sw sh sbuf sr dx dy st' :
  step_op st (OpSurface k sw sh sbuf sr dx dy) = Ok st' ->
  exists b, surface_op k (d_w st) (d_h st) (d_buf st) sw sh sbuf sr dx dy = Ok b /\ st' = with_buf st b.
Proof. cbn [step_op]. destruct (surface_op _ _ _ _ _ _ _ _ _ _) as [b|]; [|discriminate]. intros E; inversion E. eauto. Qed.
(* a solid source does not depend on the transform: mask() with a solid source is placed and coloured in device space *)
Theorem solid_shader_ignores_ctm t1 t2 c alpha : choose_shader t1 (Solid c) alpha = choose_shader t2 (Solid c) alpha.
Proof. reflexivity. Qed.
(* clear leaves the transform as it found it *)
Theorem clear_preserves_ctm st c st' : d_probe st = 0 -> clear st c = Ok st' -> d_ctm st' = d_ctm st.
Proof.
  intros Hp H. pose proof (effect_same_frame _ _ Hp (clear_effect _ _ _ H)) as (_ & _ & _ & A & _). exact A.
Qed.

(* ---------------- C13 ---------------- *)
Lemma rem_fix_is_mod x w : 0 < w -> (let r := Z.rem x w in if r <? 0 then r + w else r) = x mod w.
Proof.
  intros Hw. cbv zeta.
  pose proof (Z.rem_bound_abs x w ltac:(lia)) as Hb. pose proof (Z.quot_rem' x w) as Hq.
  pose proof (Z.mod_pos_bound x w Hw) as Hm. pose proof (Z.div_mod x w ltac:(lia)) as Hd.
  pose proof (Z.rem_sign_nz x w ltac:(lia)) as Hs.
  destruct (Z.rem x w <? 0) eqn:E.
  - assert (Z.rem x w + w = x mod w); [|lia].
    assert (w * (x / w - Z.quot x w) = Z.rem x w - x mod w) by lia.
    assert (x / w - Z.quot x w = -1) by nia. nia.
  - assert (w * (x / w - Z.quot x w) = Z.rem x w - x mod w) by lia.
    assert (x / w - Z.quot x w = 0) by nia. nia.
Qed.
Theorem repeat_fetch_wraps im x y : 0 < i_w im -> 0 < i_h im ->
  repeat_fetch im x y = img_at im (x mod i_w im) (y mod i_h im).
Proof.
  intros Hw Hh. unfold repeat_fetch. rewrite <- (rem_fix_is_mod x _ Hw), <- (rem_fix_is_mod y _ Hh). reflexivity.
Qed.
Theorem pad_fetch_clamps im x y : 0 < i_w im -> 0 < i_h im ->
  pad_fetch im x y = img_at im (Z.max 0 (Z.min (i_w im - 1) x)) (Z.max 0 (Z.min (i_h im - 1) y)).
Proof.
  intros Hw Hh. unfold pad_fetch. f_equal.
  - destruct (x <? 0) eqn:E1.
    + replace (i_w im <=? 0) with false by lia. lia.
    + destruct (i_w im <=? x) eqn:E2; lia.
  - destruct (y <? 0) eqn:E1.
    + replace (i_h im <=? 0) with false by lia. lia.
    + destruct (i_h im <=? y) eqn:E2; lia.
Qed.
(* the four bilinear weights are the 4-bit fractions and always sum to 256 *)
Theorem bilinear_weights_sum dx dy : 0 <= dx <= 15 -> 0 <= dy <= 15 ->
  wrapu32 (256 - Z.shiftl dy 4 - Z.shiftl dx 4 + dx * dy) + (Z.shiftl dx 4 - dx * dy) + (Z.shiftl dy 4 - dx * dy) + dx * dy = 256.
Proof.
  intros Hx Hy. rewrite !Z.shiftl_mul_pow2 by lia. change (2 ^ 4) with 16.
  unfold wrapu32. change 4294967295 with (Z.ones 32). rewrite Z.land_ones by lia.
  assert (0 <= 256 - dy * 16 - dx * 16 + dx * dy < 2 ^ 32) by nia.
  rewrite Z.mod_small by lia. lia.
Qed.
(* nearest filtering reads the texel at (floor(x + 1/2), floor(y + 1/2)) of the fixed-point position; together with the
   half-pixel conjugation of the matrix that is texel floor(M(pixel centre)) *)
Theorem nearest_texel e im px py : fetch_nearest e im px py None = fetch e im (Z.shiftr (px + 32768) 16) (Z.shiftr (py + 32768) 16).
Proof. reflexivity. Qed.
(* the alpha variants scale by the global alpha; at full alpha (256) they change nothing is a pixel lemma (PixelProofs) *)
Theorem nearest_alpha e im px py a : fetch_nearest e im px py (Some a) = alpha_mul (fetch_nearest e im px py None) a.
Proof. reflexivity. Qed.

(* ---------------- C12 ---------------- *)
Theorem spread_pad_clamps x : apply_spread x SpreadPad = Z.max 0 (Z.min 255 x).
Proof. unfold apply_spread. destruct (255 <? x) eqn:E; [lia|]. destruct (x <? 0) eqn:E2; lia. Qed.
Theorem spread_repeat_wraps x : apply_spread x SpreadRepeat = x mod 256.
Proof. unfold apply_spread. apply land_255. Qed.
Theorem spread_reflect_mirrors x : apply_spread x SpreadReflect = if x mod 512 <? 256 then x mod 512 else 511 - x mod 512.
Proof.
  unfold apply_spread. rewrite Z.testbit_odd, shiftr_n by lia. change (2 ^ 8) with 256.
  destruct (Z.odd (x / 256)) eqn:Eo.
  - replace (Z.lxor x (-1)) with (Z.lnot x) by (symmetry; apply Z.lxor_m1_r).
    rewrite land_255. unfold Z.lnot. rewrite Zodd_mod in Eo. apply Zeq_bool_eq in Eo.
    replace (x mod 512 <? 256) with false by lia. lia.
  - rewrite Z.lxor_0_r, land_255. assert (Z.even (x / 256) = true) by (rewrite <- Z.negb_odd, Eo; reflexivity).
    rewrite Zeven_mod in H. apply Zeq_bool_eq in H.
    replace (x mod 512 <? 256) with true by lia. lia.
Qed.

(* ---------------- C16 / C20 ---------------- *)
Definition flat_op (o : pathop) : bool := match o with MoveTo _ | LineTo _ | Close => true | _ => false end.
Theorem flatten_only_lines ops : forall oracle cur start, forallb flat_op (flatten_ops ops oracle cur start) = true.
Proof.
  induction ops as [|o t IH]; intros oracle cur start; [reflexivity|].
  destruct o; cbn [flatten_ops forallb flat_op andb]; try apply IH.
  - rewrite forallb_app. destruct cur; cbn [forallb flat_op andb app]; rewrite forallb_app, IH, andb_true_r;
      (induction (hd [] oracle); [reflexivity|cbn; assumption]).
  - rewrite forallb_app. destruct cur; cbn [forallb flat_op andb app]; rewrite forallb_app, IH, andb_true_r;
      (induction (hd [] oracle); [reflexivity|cbn; assumption]).
Qed.
(* a path without curves is returned unchanged *)
Theorem flatten_flat_identity ops : forall oracle cur start, forallb flat_op ops = true -> flatten_ops ops oracle cur start = ops.
Proof.
  induction ops as [|o t IH]; intros oracle cur start H; [reflexivity|].
  cbn [forallb] in H. apply andb_prop in H. destruct H as [Ho Ht].
  destruct o; try discriminate; cbn [flatten_ops]; f_equal; apply IH; exact Ht.
Qed.
Theorem flatten_preserves_winding p oracle : p_winding (flatten p oracle) = p_winding p.
Proof. reflexivity. Qed.
(* the cursor handed to the flattener after Close is the subpath's start (as when filling) *)
Theorem flatten_after_close_starts_at_subpath_start s p c q rest :
  curve_starts (MoveTo s :: LineTo p :: Close :: QuadTo c q :: rest) None None
  = s :: curve_starts rest (Some q) (Some s).
Proof. reflexivity. Qed.

Theorem transform_preserves_structure t p :
  length (p_ops (path_transform t p)) = length (p_ops p) /\ p_winding (path_transform t p) = p_winding p /\
  forall i, nth i (p_ops (path_transform t p)) Close = op_transform t (nth i (p_ops p) Close).
Proof.
  unfold path_transform. cbn [p_ops p_winding]. repeat split; [apply map_length|].
  intros i. change Close with (op_transform t Close) at 1. apply map_nth.
Qed.
Theorem rect_ops x y w h :
  builder_rect x y w h = [MoveTo (x, y); LineTo (fadd x w, y); LineTo (fadd x w, fadd y h); LineTo (x, fadd y h); Close].
Proof. reflexivity. Qed.

(* ---------------- C09 / C04 ---------------- *)
Theorem dash_nonpositive_total_paints_nothing arr p off :
  fgt (let t := fold_left fadd arr f0 in if Z.odd (zlen arr) then fmul t (of_int 2) else t) f0 = false ->
  dash_path arr p off = Ok (mk_path [] NonZero).
Proof. intros H. unfold dash_path. cbv zeta in H. rewrite H. reflexivity. Qed.
Theorem stroke_nonpositive_width_paints_nothing p st : fle (s_width st) f0 = true -> stroke_to_path p st = Ok (mk_path [] NonZero).
Proof. intros H. unfold stroke_to_path. rewrite H. reflexivity. Qed.
(* the dash state is restarted at every MoveTo *)
Theorem dash_restarts_at_moveto arr initial a p :
  exists out, dash_op arr initial a (MoveTo p) = Ok (mk_da (Some p) (Some p) true true [] initial out).
Proof. eexists. reflexivity. Qed.

(* ---------------- C19 ---------------- *)
Theorem word_bytes_roundtrip p : 0 <= p < 4294967296 -> bytes_word (word_bytes p) = p.
Proof.
  intros H. unfold word_bytes, bytes_word. rewrite !land_255, !shiftr_n by lia.
  change (2 ^ 8) with 256. change (2 ^ 16) with 65536. change (2 ^ 24) with 16777216. lia.
Qed.
(* bytes of a word are B, G, R, A *)
Theorem word_bytes_are_bgra p : word_bytes p = [get_b p; get_g p; get_r p; get_a p].
Proof. reflexivity. Qed.
(* PNG pixel: alpha unchanged; each colour floor(c*255/a) when c <= a; transparent pixels passed through *)
Theorem png_pixel_unpremultiplies p :
  let a := get_a p in let r := get_r p in let g := get_g p in let b := get_b p in
  0 < a -> r <= a -> g <= a -> b <= a -> 0 <= r -> 0 <= g -> 0 <= b -> a <= 255 ->
  png_pixel p = [r * 255 / a; g * 255 / a; b * 255 / a; a].
Proof.
  cbv zeta. unfold png_pixel, get_a, get_r, get_g, get_b. intros Ha Hr Hg Hb Hr0 Hg0 Hb0 Ha5.
  replace (0 <? Z.land (Z.shiftr p 24) 255) with true by lia.
  set (a := Z.land (Z.shiftr p 24) 255) in *. set (r := Z.land (Z.shiftr p 16) 255) in *.
  set (g := Z.land (Z.shiftr p 8) 255) in *. set (b := Z.land p 255) in *.
  unfold wrapu8. rewrite !land_255.
  assert (H : forall c, 0 <= c <= a -> (c * 255 / a) mod 256 = c * 255 / a).
  { intros c Hc. apply Z.mod_small. split; [apply Z.div_pos; nia|]. apply Z.div_lt_upper_bound; nia. }
  rewrite !H by lia. reflexivity.
Qed.
Theorem png_pixel_transparent p : get_a p = 0 -> png_pixel p = [get_r p; get_g p; get_b p; 0].
Proof. unfold png_pixel, get_a, get_r, get_g, get_b. intros ->. reflexivity. Qed.
Theorem png_is_row_major buf : length (png_bytes buf) = (4 * length buf)%nat.
Proof.
  unfold png_bytes. induction buf as [|p t IH]; [reflexivity|]. cbn [flat_map]. rewrite app_length, IH.
  unfold png_pixel. destruct (0 <? _); cbn [length]; lia.
Qed.
Theorem byte_view_length buf : length (byte_view buf) = (4 * length buf)%nat.
Proof. unfold byte_view. induction buf as [|p t IH]; [reflexivity|]. cbn [flat_map]. rewrite app_length, IH. cbn [length word_bytes]. lia. Qed.
Theorem from_vec_length w h v : 0 <= w * h -> zlen (from_vec w h v) = w * h.
Proof. intros H. unfold from_vec, zlen. rewrite app_length, firstn_length, repeat_length. lia. Qed.
Theorem from_vec_exact w h v : zlen v = w * h -> from_vec w h v = v.
Proof.
  intros H. unfold from_vec, zlen in *. replace (Z.to_nat (w * h)) with (length v) by lia.
  rewrite firstn_all, Nat.sub_diag. cbn. apply app_nil_r.
Qed.
