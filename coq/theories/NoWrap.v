(* NoWrap: inside the working range no slope quotient of a y-monotone curve edge wraps (discharges no_slope_wrap).

   Units: dot2 = quarter pixel, unit = dot16 = 2^-14 dot2.  n = 2^s segments, vertex k = poly_vertex .. k.
   When ActiveEdge::step enters a new segment on sample row cury (with cury + 1 < y2) it divides
   (next_x - old_x) << 16 by next_y - old_y, where (old_x, old_y) = vertex k, (next_x, next_y) = vertex k2, k < k2,
   vertex k lies in row cury (>= y1 + 1) and vertex k2 at or below the row boundary c = cury + 1 (<= y2 - 1).
   For the exact quadratic the chord's direction is the tangent at the parameter (k + k2) / (2n); y' there is at least
   about 2 max(t, 1 - t) dot2, x' at most 64000 max(t, 1 - t) dot2; 32000 < 32768 leaves the room that the
   forward-difference rounding (3 units per segment in y, 129 units in x) needs.

   Part A  differences of polyline vertices versus the exact quadratic (fd_diff_bound, vy_diff_lower, vx_diff_abs)
   Part B  the tangent inequality (tangent_ineq) and chord_fits
   Part C  the forward-difference state of a curve edge on every row, WITHOUT any no-wrap hypothesis (fdst_steps)
   Part D  curve_no_slope_wrap_in_range and corollaries *)
From Coq Require Import ZArith List Lia ZifyBool Bool.
Require Import RQ.Base RQ.Rect RQ.Raster RQ.RasterProofs RQ.RasterIdle RQ.RasterTotal RQ.CurveMetric.
Ltac Zify.zify_post_hook ::= Z.to_euclidean_division_equations.
Open Scope Z_scope.

(* ===================================================================================================== *)
(* Part A: vertex differences                                                                             *)
(* ===================================================================================================== *)

(* n^2 (B(k2/n) - B(k/n)) = (k2 - k) * n * B'((k + k2)/(2n)) *)
Lemma bez_diff p1 c p2 n k k2 :
  bez_num p1 c p2 n k2 - bez_num p1 c p2 n k = (k2 - k) * ((2 * n - (k + k2)) * (c - p1) + (k + k2) * (p2 - c)).
Proof. unfold bez_num. ring. Qed.

Lemma pow2_le_64 s : 1 <= s <= 6 -> 2 <= 2 ^ s <= 64.
Proof.
  intros Hs. split; [change 2 with (2 ^ 1) at 1|change 64 with (2 ^ 6)]; apply Z.pow_le_mono_r; lia.
Qed.

(* j consecutive forward-difference increments starting at vertex k: never more than the exact rise, and at most
   3 units per increment less *)
Lemma fd_diff_bound p1 p2 c s k j : 1 <= s -> Z.of_nat k + Z.of_nat j <= 2 ^ s ->
  let n := 2 ^ s in
  0 <= 16384 * (bez_num p1 c p2 n (Z.of_nat k + Z.of_nat j) - bez_num p1 c p2 n (Z.of_nat k))
       - n * n * (fd_point p1 p2 c s (k + j) - fd_point p1 p2 c s k) <= Z.of_nat j * (3 * (n * n)).
Proof.
  intros Hs. cbv zeta. set (n := 2 ^ s). assert (Hn : 0 < n) by (apply Z.pow_pos_nonneg; lia).
  induction j as [|j IH]; intros Hk.
  - rewrite Nat.add_0_r. change (Z.of_nat 0) with 0. rewrite Z.add_0_r. lia.
  - specialize (IH ltac:(lia)).
    rewrite Nat.add_succ_r. unfold fd_point in *. cbn [fd_sum].
    pose proof (fd_term_bound ((p1 - c - c + p2) * 8192) (c - p1) s (Z.of_nat (k + j)) Hs ltac:(lia)) as T.
    cbv zeta in T. fold n in T. fold (fd_d0 p1 p2 c s) in T. fold (fd_dd p1 p2 c s) in T.
    set (m := Z.shiftr (fd_d0 p1 p2 c s + Z.of_nat (k + j) * fd_dd p1 p2 c s) s) in *.
    set (S1 := fd_sum (k + j) (fd_d0 p1 p2 c s) (fd_dd p1 p2 c s) s) in *.
    set (S0 := fd_sum k (fd_d0 p1 p2 c s) (fd_dd p1 p2 c s) s) in *.
    set (i := Z.of_nat (k + j)) in *.
    assert (Hi : 0 <= i <= n - 1) by (subst i; lia).
    assert (Hex : 16384 * (bez_num p1 c p2 n (i + 1) - bez_num p1 c p2 n i)
                  = 2 * (c - p1) * n * 16384 + 2 * ((p1 - c - c + p2) * 8192) + 4 * ((p1 - c - c + p2) * 8192) * i)
      by (unfold bez_num; ring).
    assert (Hb : 2 * n + 2 * n * i + n * n <= 3 * (n * n)).
    { assert (n * i <= n * (n - 1)) by (apply Z.mul_le_mono_nonneg_l; lia). lia. }
    replace (Z.of_nat k + Z.of_nat (S j)) with (i + 1) by (subst i; lia).
    replace (Z.of_nat k + Z.of_nat j) with i in IH by (subst i; lia).
    replace (Z.of_nat (S j)) with (Z.of_nat j + 1) by lia.
    set (b1 := bez_num p1 c p2 n (i + 1)) in *. set (b0 := bez_num p1 c p2 n i) in *.
    set (bk := bez_num p1 c p2 n (Z.of_nat k)) in *.
    set (nn := n * n) in *.
    replace (nn * (p1 * 16384 + (S1 + m) - (p1 * 16384 + S0))) with (nn * (p1 * 16384 + S1 - (p1 * 16384 + S0)) + nn * m) by ring.
    lia.
Qed.

(* y side: the rise between two polyline vertices is at least the exact rise minus 3 units per segment *)
Lemma vy_diff_lower p1 p2 c s k k2 : 1 <= s -> 0 <= k < k2 -> k2 <= 2 ^ s ->
  let n := 2 ^ s in
  16384 * (bez_num p1 c p2 n k2 - bez_num p1 c p2 n k) - (k2 - k) * (3 * (n * n))
    <= n * n * (poly_vertex p1 p2 c s k2 - poly_vertex p1 p2 c s k).
Proof.
  intros Hs Hk Hk2. cbv zeta. set (n := 2 ^ s). assert (Hn : 0 < n) by (apply Z.pow_pos_nonneg; lia).
  assert (Hnn : 0 <= n * n) by apply Z.square_nonneg.
  rewrite (poly_vertex_lt p1 p2 c s k) by (fold n; lia).
  destruct (Z.eq_dec k2 n) as [E|E].
  - subst k2. unfold n at 5. rewrite poly_vertex_end. fold n.
    pose proof (curve_point_error p1 p2 c s (Z.to_nat k) Hs) as H. cbv zeta in H. fold n in H.
    rewrite Z2Nat.id in H by lia.
    assert (Hb : bez_num p1 c p2 n n = n * n * p2) by (unfold bez_num; ring).
    assert (0 <= (n - k) * (3 * (n * n))) by (apply Z.mul_nonneg_nonneg; lia).
    rewrite Hb. lia.
  - rewrite (poly_vertex_lt p1 p2 c s k2) by (fold n; lia).
    pose proof (fd_diff_bound p1 p2 c s (Z.to_nat k) (Z.to_nat (k2 - k)) Hs ltac:(fold n; lia)) as H.
    cbv zeta in H. fold n in H.
    replace (Z.to_nat k + Z.to_nat (k2 - k))%nat with (Z.to_nat k2) in H by lia.
    rewrite !Z2Nat.id in H by lia. replace (k + (k2 - k)) with k2 in H by lia. lia.
Qed.

(* x side: the run between two polyline vertices is the exact run up to 129 units *)
Lemma vx_diff_abs p1 p2 c s k k2 : 1 <= s <= 6 -> 0 <= k <= 2 ^ s -> 0 <= k2 <= 2 ^ s ->
  let n := 2 ^ s in
  Z.abs (n * n * (poly_vertex p1 p2 c s k2 - poly_vertex p1 p2 c s k) - 16384 * (bez_num p1 c p2 n k2 - bez_num p1 c p2 n k))
    <= 129 * (n * n).
Proof.
  intros Hs Hk Hk2. cbv zeta. pose proof (pow2_le_64 s Hs) as H64. set (n := 2 ^ s) in *.
  pose proof (poly_vertex_error p1 p2 c s k ltac:(lia) Hk) as E0. cbv zeta in E0. fold n in E0.
  pose proof (poly_vertex_error p1 p2 c s k2 ltac:(lia) Hk2) as E1. cbv zeta in E1. fold n in E1.
  assert (Hnn : 0 <= n * n) by apply Z.square_nonneg.
  assert (M0 : n * n * (2 * k + 1) <= n * n * 129) by (apply Z.mul_le_mono_nonneg_l; lia).
  assert (M1 : n * n * (2 * k2 + 1) <= n * n * 129) by (apply Z.mul_le_mono_nonneg_l; lia).
  lia.
Qed.

(* ===================================================================================================== *)
(* Part B: the tangent inequality                                                                         *)
(* ===================================================================================================== *)

Lemma mul_abs_le a x B : 0 <= a -> Z.abs x <= B -> - (a * B) <= a * x <= a * B.
Proof.
  intros Ha Hx. assert (a * x <= a * B) by (apply Z.mul_le_mono_nonneg_l; lia).
  assert (a * (- B) <= a * x) by (apply Z.mul_le_mono_nonneg_l; lia). lia.
Qed.

(* |x'| at parameter sg / (2n) is at most 64000 max(t, 1 - t) dot2 when the three x coordinates span at most 32000 *)
Lemma x_tangent_bound n sg u v : 0 <= sg <= 2 * n ->
  Z.abs u <= 32000 -> Z.abs v <= 32000 -> Z.abs (u + v) <= 32000 ->
  Z.abs ((2 * n - sg) * u + sg * v) <= 32000 * Z.max (2 * n - sg) sg.
Proof.
  intros Hsg Hu Hv Huv.
  destruct (Z_le_gt_dec sg n) as [Hle|Hgt].
  - replace ((2 * n - sg) * u + sg * v) with ((2 * n - 2 * sg) * u + sg * (u + v)) by ring.
    pose proof (mul_abs_le (2 * n - 2 * sg) u 32000 ltac:(lia) Hu).
    pose proof (mul_abs_le sg (u + v) 32000 ltac:(lia) Huv). lia.
  - replace ((2 * n - sg) * u + sg * v) with ((2 * n - sg) * (u + v) + (2 * sg - 2 * n) * v) by ring.
    pose proof (mul_abs_le (2 * n - sg) (u + v) 32000 ltac:(lia) Huv).
    pose proof (mul_abs_le (2 * sg - 2 * n) v 32000 ltac:(lia) Hv). lia.
Qed.

(* AM-GM step: from  h * j^2 >= (about) n^2  to  t * (32768 h + 32000) >= 64448 n  for t >= j *)
Lemma amgm_step n h j t : 0 <= n -> 0 <= h -> 0 <= j <= t -> 16255 * (n * n) <= 16384 * (h * (j * j)) ->
  64448 * n <= t * (32768 * h + 32000).
Proof.
  intros Hn Hh Hj HF.
  set (X := t * (32768 * h + 32000)).
  assert (HX0 : 0 <= X) by (subst X; apply Z.mul_nonneg_nonneg; lia).
  apply Z.square_le_simpl_nonneg; [exact HX0|].
  (* (32768 h + 32000)^2 >= 4 * 32768 * 32000 * h *)
  assert (Hag : 4194304000 * h <= (32768 * h + 32000) * (32768 * h + 32000)).
  { assert (0 <= (32768 * h - 32000) * (32768 * h - 32000)) by apply Z.square_nonneg. lia. }
  assert (Hjt : j * j <= t * t) by (apply Z.mul_le_mono_nonneg; lia).
  assert (H1 : j * j * (4194304000 * h) <= t * t * ((32768 * h + 32000) * (32768 * h + 32000))).
  { apply Z.mul_le_mono_nonneg; try lia; apply Z.mul_nonneg_nonneg; lia. }
  replace (X * X) with (t * t * ((32768 * h + 32000) * (32768 * h + 32000))) by (subst X; ring).
  replace (j * j * (4194304000 * h)) with (4194304000 * (h * (j * j))) in H1 by ring.
  replace (64448 * n * (64448 * n)) with (4153544704 * (n * n)) by ring.
  assert (0 <= n * n) by apply Z.square_nonneg.
  lia.
Qed.

(* THE TANGENT INEQUALITY.  sg = k + k2, t = sg / (2n):  n y'(t) = (2n - sg) p + sg q  (p = cy - y1, q = y2 - cy),
   n |x'(t)| <= 32000 max(2n - sg, sg).  F1 / F2 are what "vertex k2 is at least one row below y1" and "vertex k is
   at least one row above y2" give when the curve starts / ends flat. *)
Lemma tangent_ineq n k k2 p q : 2 <= n <= 64 -> 1 <= k < k2 -> k2 <= n -> 0 <= p -> 0 <= q -> 2 <= p + q ->
  (p = 0 -> n * n <= q * (k2 * k2)) ->
  (q = 0 -> 16255 * (n * n) <= 16384 * (p * ((n - k) * (n - k)))) ->
  32000 * Z.max (2 * n - (k + k2)) (k + k2) + 7 * (n * n) <= 32768 * ((2 * n - (k + k2)) * p + (k + k2) * q).
Proof.
  intros Hn Hk Hk2 Hp Hq Hpq F1 F2.
  set (sg := k + k2) in *. assert (Hsg : 3 <= sg <= 2 * n - 1) by (subst sg; lia).
  assert (Hnn : n * n <= 64 * n) by (apply Z.mul_le_mono_nonneg_r; lia).
  destruct (Z.eq_dec p 0) as [P0|P0]; [|destruct (Z.eq_dec q 0) as [Q0|Q0]].
  - (* flat start: y = q t^2 *)
    subst p. specialize (F1 eq_refl). replace ((2 * n - sg) * 0 + sg * q) with (sg * q) by ring.
    destruct (Z_le_gt_dec n sg) as [Hge|Hlt].
    + assert (sg * 2 <= sg * q) by (apply Z.mul_le_mono_nonneg_l; lia).
      assert (n * n <= n * sg) by (apply Z.mul_le_mono_nonneg_l; lia). lia.
    + pose proof (amgm_step n q k2 sg ltac:(lia) Hq ltac:(subst sg; lia) ltac:(lia)) as H.
      replace (sg * (32768 * q + 32000)) with (32768 * (sg * q) + 32000 * sg) in H by ring. lia.
  - (* flat end: y = H - p (1 - t)^2 *)
    subst q. specialize (F2 eq_refl). replace ((2 * n - sg) * p + sg * 0) with ((2 * n - sg) * p) by ring.
    destruct (Z_le_gt_dec sg n) as [Hle|Hgt].
    + assert ((2 * n - sg) * 2 <= (2 * n - sg) * p) by (apply Z.mul_le_mono_nonneg_l; lia).
      assert (n * n <= n * (2 * n - sg)) by (apply Z.mul_le_mono_nonneg_l; lia). lia.
    + pose proof (amgm_step n p (n - k) (2 * n - sg) ltac:(lia) Hp ltac:(subst sg; lia) F2) as H.
      replace ((2 * n - sg) * (32768 * p + 32000)) with (32768 * ((2 * n - sg) * p) + 32000 * (2 * n - sg)) in H by ring. lia.
  - (* y' >= 2 dot2 everywhere *)
    assert ((2 * n - sg) * 1 <= (2 * n - sg) * p) by (apply Z.mul_le_mono_nonneg_l; lia).
    assert (sg * 1 <= sg * q) by (apply Z.mul_le_mono_nonneg_l; lia). lia.
Qed.

(* THE CHORD FITS.  A chord of the polyline from vertex k >= 1 to a later vertex k2 that crosses the row boundary c,
   y1 + 1 <= c <= y2 - 1, of a y-monotone curve whose x coordinates span at most 32000 dot2 (8000 px):
   |dx| < 2^15 dy, so (dx << 16) / dy fits i32.  No bound on the y coordinates is needed. *)
Lemma chord_fits x1 y1 x2 y2 cx cy s k k2 c :
  1 <= s <= 6 -> y1 <= cy <= y2 ->
  Z.abs (cx - x1) <= 32000 -> Z.abs (x2 - cx) <= 32000 -> Z.abs (x2 - x1) <= 32000 ->
  1 <= k < k2 -> k2 <= 2 ^ s -> y1 + 1 <= c <= y2 - 1 ->
  poly_vertex y1 y2 cy s k < c * 16384 -> c * 16384 <= poly_vertex y1 y2 cy s k2 ->
  Z.abs (poly_vertex x1 x2 cx s k2 - poly_vertex x1 x2 cx s k)
    < 32768 * (poly_vertex y1 y2 cy s k2 - poly_vertex y1 y2 cy s k).
Proof.
  intros Hs Hmono Hu Hv Huv Hk Hk2 Hc Hlo Hhi.
  pose proof (pow2_le_64 s Hs) as H64. set (n := 2 ^ s) in *.
  assert (Hnn : 0 < n * n) by (apply Z.mul_pos_pos; lia).
  set (p := cy - y1). set (q := y2 - cy). set (u := cx - x1) in *. set (v := x2 - cx) in *.
  set (m := k2 - k). assert (Hm : 1 <= m) by (subst m; lia).
  set (sg := k + k2).
  set (VYk := poly_vertex y1 y2 cy s k) in *. set (VYk2 := poly_vertex y1 y2 cy s k2) in *.
  set (VXk := poly_vertex x1 x2 cx s k) in *. set (VXk2 := poly_vertex x1 x2 cx s k2) in *.
  (* F1: flat start *)
  assert (F1 : p = 0 -> n * n <= q * (k2 * k2)).
  { intros P0. assert (cy = y1) by (subst p; lia). subst cy.
    pose proof (poly_vertex_error y1 y2 y1 s k2 ltac:(lia) ltac:(fold n; lia)) as E. cbv zeta in E. fold n in E. fold VYk2 in E.
    assert (Hb : bez_num y1 y1 y2 n k2 = n * n * y1 + (y2 - y1) * (k2 * k2)) by (unfold bez_num; ring).
    assert (H1 : n * n * (c * 16384) <= n * n * VYk2) by (apply Z.mul_le_mono_nonneg_l; lia).
    assert (H2 : n * n * 1 <= n * n * (c - y1)) by (apply Z.mul_le_mono_nonneg_l; lia).
    subst q. replace (y2 - y1) with (y2 - y1) in Hb by reflexivity. rewrite Hb in E. lia. }
  (* F2: flat end *)
  assert (F2 : q = 0 -> 16255 * (n * n) <= 16384 * (p * ((n - k) * (n - k)))).
  { intros Q0. assert (cy = y2) by (subst q; lia). subst cy.
    pose proof (poly_vertex_error y1 y2 y2 s k ltac:(lia) ltac:(fold n; lia)) as E. cbv zeta in E. fold n in E. fold VYk in E.
    assert (Hb : bez_num y1 y2 y2 n k = n * n * y2 - (y2 - y1) * ((n - k) * (n - k))) by (unfold bez_num; ring).
    assert (H1 : n * n * VYk <= n * n * (c * 16384 - 1)) by (apply Z.mul_le_mono_nonneg_l; lia).
    assert (H2 : n * n * c <= n * n * (y2 - 1)) by (apply Z.mul_le_mono_nonneg_l; lia).
    assert (H3 : n * n * (2 * k + 1) <= n * n * 129) by (apply Z.mul_le_mono_nonneg_l; lia).
    subst p. rewrite Hb in E. lia. }
  pose proof (tangent_ineq n k k2 p q ltac:(lia) Hk Hk2 ltac:(subst p; lia) ltac:(subst q; lia) ltac:(subst p q; lia) F1 F2) as T.
  fold sg in T.
  (* y side *)
  pose proof (vy_diff_lower y1 y2 cy s k k2 ltac:(lia) ltac:(lia) Hk2) as LY. cbv zeta in LY. fold n VYk VYk2 m in LY.
  rewrite (bez_diff y1 cy y2 n k k2) in LY. fold m sg p q in LY.
  set (Ly := (2 * n - sg) * p + sg * q) in *.
  (* x side *)
  pose proof (vx_diff_abs x1 x2 cx s k k2 Hs ltac:(fold n; lia) ltac:(fold n; lia)) as AX. cbv zeta in AX. fold n VXk VXk2 in AX.
  rewrite (bez_diff x1 cx x2 n k k2) in AX. fold m sg u v in AX.
  pose proof (x_tangent_bound n sg u v ltac:(subst sg; lia) Hu Hv ltac:(subst u v; replace (cx - x1 + (x2 - cx)) with (x2 - x1) by ring; exact Huv)) as TX.
  set (Lx := (2 * n - sg) * u + sg * v) in *.
  set (M := Z.max (2 * n - sg) sg) in *.
  assert (HM : 0 <= M) by (subst M sg; lia).
  (* scale the tangent inequality by 16384 m *)
  assert (Tm : m * (32000 * M + 7 * (n * n)) <= m * (32768 * Ly)) by (apply Z.mul_le_mono_nonneg_l; lia).
  assert (Hmx : Z.abs (m * Lx) <= m * (32000 * M)).
  { rewrite Z.abs_mul. rewrite (Z.abs_eq m) by lia. apply Z.mul_le_mono_nonneg_l; lia. }
  assert (Hmn : 1 * (n * n) <= m * (n * n)) by (apply Z.mul_le_mono_nonneg_r; lia).
  set (DX := VXk2 - VXk) in *. set (DY := VYk2 - VYk) in *.
  apply (Z.mul_lt_mono_pos_l (n * n)); [exact Hnn|].
  assert (Habs : n * n * Z.abs DX = Z.abs (n * n * DX)) by (rewrite Z.abs_mul; rewrite (Z.abs_eq (n * n)) by lia; reflexivity).
  rewrite Habs.
  replace (m * (32000 * M + 7 * (n * n))) with (32000 * (m * M) + 7 * (m * (n * n))) in Tm by ring.
  replace (m * (32768 * Ly)) with (32768 * (m * Ly)) in Tm by ring.
  replace (m * (32000 * M)) with (32000 * (m * M)) in Hmx by ring.
  replace (m * (3 * (n * n))) with (3 * (m * (n * n))) in LY by ring.
  replace (n * n * (32768 * DY)) with (32768 * (n * n * DY)) by ring.
  set (mM := m * M) in *. set (mLy := m * Ly) in *. set (mLx := m * Lx) in *. set (mnn := m * (n * n)) in *.
  set (nn := n * n) in *. set (A := nn * DX) in *. set (B := nn * DY) in *.
  clearbody A B mM mLy mLx mnn nn. clear - Tm Hmx LY AX Hmn Hnn.
  lia.
Qed.
Print Assumptions chord_fits.

(* the quotient of div_fixed16_fixed16 *)
Lemma quot_fits N D : 0 < D -> Z.abs N < 2147483648 * D -> -2147483648 < Z.quot N D < 2147483648.
Proof.
  intros HD HN. destruct (quot_bounds N D HD) as (_ & Qp & Qn).
  destruct (Z_le_gt_dec 0 N) as [H0|H0].
  - destruct (Qp H0) as [Q0 Q1]. split; [lia|].
    apply (Z.mul_lt_mono_pos_r D); [exact HD|]. lia.
  - destruct (Qn ltac:(lia)) as [Q0 Q1]. split; [|lia].
    apply (Z.mul_lt_mono_pos_r D); [exact HD|]. lia.
Qed.

(* ===================================================================================================== *)
(* Part C: the forward-difference state of a curve edge, row by row, with no hypothesis on the slopes       *)
(* ===================================================================================================== *)

(* the fields that the forward differencing reads and writes do not depend on slope_x / fullx: whatever the
   quotient was (wrapped or not, even after a division by zero), step leaves them as seg_switch computes them *)
Lemma step_switch_fd e y : e_shift e <> 0 -> dot16_to_dot2 (e_nexty e) <= y ->
  let e2 := seg_switch e y in let e' := step e y in
  e_count e' = e_count e2 /\ e_shift e' = e_shift e2 /\ e_x2 e' = e_x2 e2 /\ e_y2 e' = e_y2 e2 /\
  e_nextx e' = e_nextx e2 /\ e_nexty e' = e_nexty e2 /\ e_dx e' = e_dx e2 /\ e_ddx e' = e_ddx e2 /\
  e_dy e' = e_dy e2 /\ e_ddy e' = e_ddy e2.
Proof.
  intros Hs Hn. cbv zeta. unfold step, seg_switch.
  replace (e_shift e =? 0) with false by lia. replace (dot16_to_dot2 (e_nexty e) <=? y) with true by lia.
  set (e2 := set_next_to_end _). clearbody e2.
  destruct (y + 1 <? e_y2 e2); [destruct (div_fixed16_fixed16 (e_nextx e2 - e_oldx e2) (e_nexty e2 - e_oldy e2))|];
    cbn [e_count e_shift e_x2 e_y2 e_nextx e_nexty e_dx e_ddx e_dy e_ddy with_fullx]; repeat split; reflexivity.
Qed.

Section FdState.
  Variables x1 y1 x2 y2 cx cy : Z.
  Local Notation s := (curve_shift x1 y1 x2 y2 cx cy).
  Local Notation n := (2 ^ curve_shift x1 y1 x2 y2 cx cy).
  Local Notation VX := (poly_vertex x1 x2 cx (curve_shift x1 y1 x2 y2 cx cy)).
  Local Notation VY := (poly_vertex y1 y2 cy (curve_shift x1 y1 x2 y2 cx cy)).
  Local Notation Fin := (fin x1 y1 x2 y2 cx cy).

  Lemma fin_basic e k : Fin e k -> cinv e /\ e_shift e <> 0 /\ e_y2 e = y2 /\ 1 <= k <= n /\
    e_nextx e = VX k /\ e_nexty e = VY k /\ e_count e = n - k.
  Proof.
    intros (K & C & S & X2 & Y2 & NX & NY & _).
    pose proof (curve_shift_range x1 y1 x2 y2 cx cy) as Hs. pose proof (pow2_le_64 s Hs) as H64.
    unfold cinv. repeat split; try assumption; lia.
  Qed.

  (* looking for the next segment on row y: the state moves from vertex k' to a vertex k2 >= k' that lies below row y
     (or is the end point); old = vertex k' *)
  Lemma seg_switch_fd e y k' : Fin e k' ->
    exists k2, k' <= k2 /\ Fin (seg_switch e y) k2 /\
      (k2 = n \/ y < dot16_to_dot2 (e_nexty (seg_switch e y))) /\
      e_oldx (seg_switch e y) = e_nextx e /\ e_oldy (seg_switch e y) = e_nexty e.
  Proof.
    intros Hfin. destruct (fin_basic e k' Hfin) as (Hc & _).
    unfold seg_switch.
    set (e0 := mk_aedge (e_x2 e) (e_y2 e) (e_slope e) (e_nextx e) (e_nextx e) (e_nexty e) (e_dx e) (e_ddx e) (e_dy e) (e_ddy e)
                        (e_nextx e) (e_nexty e) (e_shift e) (e_count e) (e_wind e) (e_err e)).
    assert (Hfin0 : Fin e0 k') by (apply (vstate_ext x1 y1 x2 y2 cx cy _ _ e); try reflexivity; exact Hfin).
    destruct (fin_advance x1 y1 x2 y2 cx cy 64 y e0 k' Hfin0) as (k2 & K2 & F2 & _).
    assert (H0 : 0 <= e_count e0) by apply Hc.
    assert (Hfu : (Z.to_nat (e_count e0) <= 64)%nat) by (unfold cinv in Hc; cbn; lia).
    pose proof (curve_advance_spec 64 y e0 H0 Hfu) as Ha. cbv zeta in Ha.
    destruct (curve_advance_iter 64 y e0 H0) as (j & _ & _ & Hj).
    pose proof (iter_curve_next j e0) as Hi. cbv zeta in Hi. rewrite <- Hj in Hi.
    set (e1 := curve_advance 64 y e0) in *.
    destruct Ha as (A1 & A2 & _).
    destruct Hi as (_ & _ & _ & _ & _ & _ & _ & _ & _ & _ & _ & _ & I13 & I14 & _).
    pose proof (set_next_to_end_fields e1) as Hs. cbv zeta in Hs.
    destruct Hs as (_ & _ & _ & _ & S5 & S6 & _ & _ & S9).
    pose proof (set_next_to_end_more e1) as Hm. cbv zeta in Hm. destruct Hm as (_ & M2 & _).
    destruct (fin_basic _ k2 F2) as (_ & _ & _ & _ & _ & _ & C2).
    set (e2 := set_next_to_end e1) in *.
    exists k2. split; [exact K2|]. split; [exact F2|]. split.
    - destruct A2 as [Z0|Hgt]; [left; lia|].
      destruct (Z.eq_dec (e_count e1) 0) as [Z0|NZ]; [left; lia|right; rewrite (S9 NZ); exact Hgt].
    - split; [rewrite M2, I13; reflexivity|rewrite S6, I14; reflexivity].
  Qed.

  (* THE STATE ON ROW y: the current segment ends at a vertex at or below the row, and below the first row *)
  Definition fdst (e : aedge) (y : Z) : Prop :=
    exists k', Fin e k' /\ y <= dot16_to_dot2 (e_nexty e) /\ y1 < dot16_to_dot2 (e_nexty e).

  Lemma fdst_init w : y1 < y2 -> fdst (curve_edge_init x1 y1 x2 y2 cx cy w) y1.
  Proof.
    intros Hy.
    pose proof (curve_edge0_count x1 y1 x2 y2 cx cy w) as Hc0.
    destruct (curve_setup_den y1 y2 (curve_edge0 x1 y1 x2 y2 cx cy w) Hy eq_refl Hc0) as [Hden Hc2].
    pose proof (raw_edge0 x1 y1 x2 y2 cx cy w) as R0.
    pose proof (curve_shift_range x1 y1 x2 y2 cx cy) as Hs. pose proof (pow2_le_64 s Hs) as H64.
    assert (F0 : Fin (curve_edge0 x1 y1 x2 y2 cx cy w) 1).
    { unfold fin. rewrite !poly_vertex_lt by lia. exact R0. }
    destruct (fin_advance x1 y1 x2 y2 cx cy 64 y1 _ 1 F0) as (k2 & K1 & F2 & _).
    unfold curve_edge_init in *. cbv zeta in *.
    set (e2 := set_next_to_end (curve_advance 64 y1 (curve_edge0 x1 y1 x2 y2 cx cy w))) in *.
    set (den := dot16_to_dot2 (e_nexty e2 - dot2_to_dot16 y1)) in *.
    assert (Hrem : dot16_to_dot2 (e_nexty e2) - y1 = den).
    { subst den. unfold dot2_to_dot16. rewrite !RasterIdle.shiftr14. lia. }
    exists k2. split.
    - destruct F2 as (K & C & S & X2 & Y2 & NX & NY & D1 & D2 & D3 & D4).
      unfold fin, vstate. cbn [e_count e_shift e_x2 e_y2 e_nextx e_nexty e_dx e_ddx e_dy e_ddy].
      repeat split; try assumption; try lia.
    - cbn [e_nexty]. lia.
  Qed.

  Lemma fdst_step e y : fdst e y -> y < y2 -> fdst (step e y) (y + 1).
  Proof.
    intros (k' & Hfin & Hrow & Hfirst) Hy.
    destruct (fin_basic e k' Hfin) as (Hc & Hs & Y2 & K & NX & NY & C).
    destruct (Z_lt_le_dec y (dot16_to_dot2 (e_nexty e))) as [Hplain|Hswitch].
    - rewrite step_noswitch by (right; exact Hplain).
      exists k'. split; [apply (vstate_ext x1 y1 x2 y2 cx cy _ _ e); try reflexivity; exact Hfin|].
      cbn [with_fullx e_nexty]. lia.
    - destruct (seg_switch_fd e y k' Hfin) as (k2 & K2 & F2 & Hbelow & _).
      pose proof (step_switch_fd e y Hs Hswitch) as Hfd. cbv zeta in Hfd.
      destruct Hfd as (D1 & D2 & D3 & D4 & D5 & D6 & D7 & D8 & D9 & D10).
      destruct (fin_basic _ k2 F2) as (_ & _ & _ & _ & _ & NY2 & _).
      exists k2. split; [apply (vstate_ext x1 y1 x2 y2 cx cy _ _ (seg_switch e y)); try assumption|].
      rewrite D6.
      destruct Hbelow as [E|Hgt]; [|lia].
      rewrite NY2, E, poly_vertex_end, RasterIdle.shiftr14. lia.
  Qed.

  Lemma fdst_steps w : y1 < y2 -> forall k, y1 + Z.of_nat k < y2 ->
    fdst (steps k (curve_edge_init x1 y1 x2 y2 cx cy w) y1) (y1 + Z.of_nat k).
  Proof.
    intros Hy. induction k as [|k IH]; intros Hk.
    - cbn [steps]. replace (y1 + Z.of_nat 0) with y1 by lia. apply fdst_init. exact Hy.
    - rewrite steps_succ_r. replace (y1 + Z.of_nat (S k)) with (y1 + Z.of_nat k + 1) by lia.
      apply fdst_step; [apply IH; lia|lia].
  Qed.

  (* ===================================================================================================== *)
  (* Part D: no quotient wraps                                                                              *)
  (* ===================================================================================================== *)

  (* what step divides when it enters a new segment on row y, y + 1 < y2: a chord of the polyline from a vertex
     k >= 1 in row y >= y1 + 1 to a later vertex at or below the row boundary y + 1 <= y2 - 1 *)
  Lemma switch_chord e y : fdst e y -> dot16_to_dot2 (e_nexty e) <= y -> y + 1 < y2 ->
    exists k k2, 1 <= k < k2 /\ k2 <= n /\ y1 + 1 <= y /\
      VY k < (y + 1) * 16384 <= VY k2 /\
      switch_quot e y = Z.quot ((VX k2 - VX k) * 65536) (VY k2 - VY k).
  Proof.
    intros (k' & Hfin & Hrow & Hfirst) Hswitch Hy.
    destruct (fin_basic e k' Hfin) as (Hc & Hs & Y2 & K & NX & NY & C).
    destruct (seg_switch_fd e y k' Hfin) as (k2 & K2 & F2 & Hbelow & OX & OY).
    destruct (fin_basic _ k2 F2) as (_ & _ & _ & Kk2 & NX2 & NY2 & _).
    assert (Hk : VY k' < (y + 1) * 16384) by (rewrite <- NY; rewrite RasterIdle.shiftr14 in Hswitch; lia).
    assert (Hk2 : (y + 1) * 16384 <= VY k2).
    { destruct Hbelow as [E|Hgt].
      - rewrite E, poly_vertex_end. lia.
      - rewrite <- NY2. rewrite RasterIdle.shiftr14 in Hgt. lia. }
    exists k', k2. split.
    - split; [lia|]. destruct (Z.eq_dec k' k2) as [E|E]; [|lia]. rewrite <- E in Hk2. lia.
    - split; [lia|]. split; [lia|]. split; [split; assumption|].
      unfold switch_quot. cbv zeta. rewrite OX, OY, NX, NY, NX2, NY2. reflexivity.
  Qed.

  (* MAIN THEOREM, general form: a y-monotone curve edge whose three x coordinates span at most 32000 dot2 (8000 px)
     never makes div_fixed16_fixed16 wrap.  The y coordinates are arbitrary integers. *)
  Theorem curve_no_slope_wrap_mono w : y1 < y2 -> y1 <= cy <= y2 ->
    Z.abs (cx - x1) <= 32000 -> Z.abs (x2 - cx) <= 32000 -> Z.abs (x2 - x1) <= 32000 ->
    curve_no_slope_wrap x1 y1 x2 y2 cx cy w.
  Proof.
    intros Hy Hmono Hu Hv Huv k Hk. unfold no_wrap_at. intros Hs Hswitch Hy2.
    pose proof (fdst_steps w Hy k ltac:(lia)) as Hst.
    set (e := steps k (curve_edge_init x1 y1 x2 y2 cx cy w) y1) in *. set (y := y1 + Z.of_nat k) in *.
    destruct (switch_chord e y Hst Hswitch ltac:(lia)) as (k0 & k2 & K & K2 & Y1 & [Hlo Hhi] & Hq).
    pose proof (curve_shift_range x1 y1 x2 y2 cx cy) as Hsr.
    pose proof (chord_fits x1 y1 x2 y2 cx cy s k0 k2 (y + 1) Hsr Hmono Hu Hv Huv K K2 ltac:(lia) Hlo Hhi) as Hfit.
    rewrite Hq. apply wrap32_id.
    set (DX := VX k2 - VX k0) in *. set (DY := VY k2 - VY k0) in *.
    assert (HD : 0 < DY) by (subst DY; lia).
    pose proof (quot_fits (DX * 65536) DY HD ltac:(lia)). lia.
  Qed.
End FdState.

Print Assumptions curve_no_slope_wrap_mono.

(* THE WORKING RANGE: all coordinates within +-16000 dot2 = +-4000 px (the y bounds are not used) *)
Theorem curve_no_slope_wrap_in_range x1 y1 x2 y2 cx cy w : y1 < y2 -> y1 <= cy <= y2 ->
  Z.abs x1 <= 16000 -> Z.abs x2 <= 16000 -> Z.abs cx <= 16000 ->
  Z.abs y1 <= 16000 -> Z.abs y2 <= 16000 -> Z.abs cy <= 16000 ->
  curve_no_slope_wrap x1 y1 x2 y2 cx cy w.
Proof.
  intros Hy Hmono A1 A2 A3 _ _ _. apply curve_no_slope_wrap_mono; try assumption; lia.
Qed.
Print Assumptions curve_no_slope_wrap_in_range.

(* ===================================================================================================== *)
(* Part E: corollaries on add_edge arguments and on rasterize                                             *)
(* ===================================================================================================== *)

(* a curve edge as add_edge receives it (before the swap): the control point's y lies between the end points' y
   (what DrawTarget::add_quad produces: it chops at the y extremum or forces the control y onto an end point),
   and the x coordinates span at most 32000 dot2 *)
Definition arg_mono_span (a : edge_args) : Prop :=
  let '(swap, sx, sy, ex, ey, curve, cx, cy) := a in
  curve = true ->
  Z.min sy ey <= cy <= Z.max sy ey /\
  Z.abs (cx - sx) <= 32000 /\ Z.abs (ex - cx) <= 32000 /\ Z.abs (ex - sx) <= 32000.

(* ... in particular when all x coordinates are within +-16000 dot2 = +-4000 px *)
Definition arg_mono_in_range (a : edge_args) : Prop :=
  let '(swap, sx, sy, ex, ey, curve, cx, cy) := a in
  curve = true ->
  Z.min sy ey <= cy <= Z.max sy ey /\ Z.abs sx <= 16000 /\ Z.abs ex <= 16000 /\ Z.abs cx <= 16000.

Lemma arg_mono_in_range_span a : arg_mono_in_range a -> arg_mono_span a.
Proof.
  destruct a as [[[[[[[swap sx] sy] ex] ey] curve] cx] cy]. unfold arg_mono_in_range, arg_mono_span.
  intros H Hc. specialize (H Hc). lia.
Qed.

Theorem no_slope_wrap_of_mono_span a : arg_mono_span a -> no_slope_wrap a.
Proof.
  destruct a as [[[[[[[swap sx] sy] ex] ey] curve] cx] cy]. unfold arg_mono_span, no_slope_wrap.
  intros H Hc. specialize (H Hc). destruct H as (Hm & Hu & Hv & Huv).
  destruct swap; intros Hy; apply curve_no_slope_wrap_mono; try exact Hy; lia.
Qed.

Corollary no_slope_wrap_in_range a : arg_mono_in_range a -> no_slope_wrap a.
Proof. intros H. apply no_slope_wrap_of_mono_span. apply arg_mono_in_range_span. exact H. Qed.

(* straight edges satisfy the predicates trivially *)
Lemma arg_mono_span_line swap sx sy ex ey cx cy : arg_mono_span (swap, sx, sy, ex, ey, false, cx, cy).
Proof. unfold arg_mono_span. intros H. discriminate H. Qed.

(* the hull property and the crossing invariant of CurveMetric no longer need the no-wrap hypothesis *)
Corollary curve_in_hull_in_range x1 y1 x2 y2 cx cy w : y1 < y2 -> y1 <= cy <= y2 ->
  Z.abs (cx - x1) <= 32000 -> Z.abs (x2 - cx) <= 32000 -> Z.abs (x2 - x1) <= 32000 ->
  curve_in_hull x1 y1 x2 y2 cx cy w.
Proof.
  intros Hy Hm Hu Hv Huv. apply curve_in_hull_of_no_wrap; [exact Hy|]. apply curve_no_slope_wrap_mono; assumption.
Qed.

Corollary curve_crossing_on_chord_in_range x1 y1 x2 y2 cx cy w : y1 < y2 -> y1 <= cy <= y2 ->
  Z.abs (cx - x1) <= 32000 -> Z.abs (x2 - cx) <= 32000 -> Z.abs (x2 - x1) <= 32000 ->
  forall y, Z.max y1 0 <= y < y2 ->
    let e := edge_at_gen y (curve_entry x1 y1 x2 y2 cx cy w) in
    cseg x1 y1 x2 y2 cx cy e y /\ y <= dot16_to_dot2 (e_nexty e).
Proof.
  intros Hy Hm Hu Hv Huv. apply curve_crossing_on_chord; [exact Hy|]. apply curve_no_slope_wrap_mono; assumption.
Qed.

(* TOTALITY of Rasterizer::rasterize with a purely geometric hypothesis: any list of add_edge calls on a fresh
   rasteriser whose curve edges are y-monotone and at most 32000 dot2 wide (straight edges: anything) rasterises into
   the buffer allocated for get_bounds without failing, with both blitters. *)
Theorem rasterize_total_mono rule W H es :
  0 <= W -> 0 <= H -> (forall a, In a es -> arg_mono_span a) ->
  let r := fold_left add_any es (rast_new W H) in
  let b := get_bounds r in
  0 <= r_w b -> 0 <= r_h b ->
  (exists r' m', rasterize blit_super rule r (maskbuf_new (x0 b) (y0 b) (r_w b) (r_h b)) = Ok (r', m') /\
     length (m_buf m') = Z.to_nat (r_w b * r_h b + 1) /\ bytes_ok (m_buf m')) /\
  (exists r' m', rasterize blit_mask rule r (maskbuf_new (x0 b) (y0 b) (r_w b) (r_h b)) = Ok (r', m') /\
     length (m_buf m') = Z.to_nat (r_w b * r_h b + 1) /\ bytes_ok (m_buf m')).
Proof.
  intros HW HH Ha r b Hbw Hbh.
  assert (Hn : forall a, In a es -> no_slope_wrap a) by (intros a Hi; apply no_slope_wrap_of_mono_span; apply Ha; exact Hi).
  split.
  - apply (rasterize_total rule W H es HW HH Hn Hbw Hbh).
  - apply (rasterize_total_aliased rule W H es HW HH Hn Hbw Hbh).
Qed.

Corollary rasterize_total_in_range rule W H es :
  0 <= W -> 0 <= H -> (forall a, In a es -> arg_mono_in_range a) ->
  let r := fold_left add_any es (rast_new W H) in
  let b := get_bounds r in
  0 <= r_w b -> 0 <= r_h b ->
  (exists r' m', rasterize blit_super rule r (maskbuf_new (x0 b) (y0 b) (r_w b) (r_h b)) = Ok (r', m') /\
     length (m_buf m') = Z.to_nat (r_w b * r_h b + 1) /\ bytes_ok (m_buf m')) /\
  (exists r' m', rasterize blit_mask rule r (maskbuf_new (x0 b) (y0 b) (r_w b) (r_h b)) = Ok (r', m') /\
     length (m_buf m') = Z.to_nat (r_w b * r_h b + 1) /\ bytes_ok (m_buf m')).
Proof.
  intros HW HH Ha. apply rasterize_total_mono; [exact HW|exact HH|].
  intros a Hi. apply arg_mono_in_range_span. apply Ha. exact Hi.
Qed.
Print Assumptions no_slope_wrap_of_mono_span.
Print Assumptions rasterize_total_mono.
Print Assumptions rasterize_total_in_range.

(* sanity: the theorem agrees with the evaluator on the worst curve found by search (quotient 0.358 * 2^31;
   x spans the whole range, 3 dot2 high, 64 segments, the chord spans 20 of them) *)
Example worst_found_no_wrap :
  curve_no_wrap_check (-16000) 0 16000 3 (-16000) 1 1 = true /\
  arg_mono_in_range (false, -16000, 0, 16000, 3, true, -16000, 1).
Proof. split; [vm_compute; reflexivity|]. unfold arg_mono_in_range. intros _. lia. Qed.

(* the width hypothesis cannot be dropped: RasterTotal.no_slope_wrap_needed is a y-monotone curve
   (y: 3 <= 5 <= 6) 137546 dot2 wide whose quotient wraps *)
Example wide_curve_wraps :
  no_slope_wrapb (false, 5598, 3, 143144, 6, true, 34553, 5) = false /\ 3 <= 5 <= 6.
Proof. split; [vm_compute; reflexivity|lia]. Qed.
