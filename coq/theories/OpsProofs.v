(* Every drawing call of DrawTarget is, for the pixels, at most one composite on the current
   destination (structure behind C02, C03, C06, C11, C14). *)
Require Import RQ.Base RQ.F32 RQ.Rect RQ.Pixel RQ.Raster RQ.PathF RQ.PathOps RQ.Shader RQ.Surface RQ.Target RQ.TargetProofs.
From Coq Require Import ZifyBool.

(* same visible state: everything but the path cursor / rasteriser *)
Definition vis_eq (a b : dt) : Prop :=
  d_w b = d_w a /\ d_h b = d_h a /\ d_buf b = d_buf a /\ d_clips b = d_clips a /\ d_layers b = d_layers a /\
  d_ctm b = d_ctm a /\ d_probe b = d_probe a.
Lemma vis_refl a : vis_eq a a. Proof. repeat split. Qed.
Lemma vis_sym a b : vis_eq a b -> vis_eq b a. Proof. unfold vis_eq; intuition congruence. Qed.
Lemma vis_trans a b c : vis_eq a b -> vis_eq b c -> vis_eq a c. Proof. unfold vis_eq; intuition congruence. Qed.
Lemma vis_with_cur a c : vis_eq a (with_cur a c). Proof. repeat split. Qed.
Lemma vis_reset a : vis_eq a (reset_raster a). Proof. repeat split. Qed.
Lemma vis_dest a b : vis_eq a b -> dest_of b = dest_of a /\ clip_bounds b = clip_bounds a /\ top_clip_mask b = top_clip_mask a.
Proof. intros (A & B & C & D & E & F & G). unfold dest_of, clip_bounds, top_clip_mask, surface_rect. rewrite A, B, C, D, E. repeat split. Qed.

(* the visible state except the pixels of the current destination *)
Definition same_frame (st st' : dt) : Prop :=
  d_w st' = d_w st /\ d_h st' = d_h st /\ d_clips st' = d_clips st /\ d_ctm st' = d_ctm st /\ d_probe st' = d_probe st /\
  tl (d_layers st') = tl (d_layers st) /\ (d_layers st <> [] -> d_buf st' = d_buf st) /\
  (d_layers st = [] -> d_layers st' = []) /\
  snd (dest_of st') = snd (dest_of st) /\ zlen (fst (dest_of st')) = zlen (fst (dest_of st)).

Lemma set_dest_id st : set_dest st (fst (dest_of st)) = st.
Proof.
  unfold set_dest, dest_of. destruct st as [w h b c l t cu p]. cbn.
  destruct l as [|[lb lo lr lm] lt]; cbn; reflexivity.
Qed.

Lemma composite_is_set_dest st src mask mr rect0 blend alpha st' :
  d_probe st = 0 -> composite st src mask mr rect0 blend alpha = Ok st' ->
  exists dest', st' = set_dest st dest' /\ zlen dest' = zlen (fst (dest_of st)).
Proof.
  intros Hp H. pose proof (composite_spec _ _ _ _ _ _ _ _ Hp H) as S.
  destruct (xf_inverse (d_ctm st)).
  - cbv zeta in S. destruct (r_empty _).
    + subst. exists (fst (dest_of st)). split; [symmetry; apply set_dest_id|reflexivity].
    + destruct S as (d & E & L & _). exists d. split; assumption.
  - subst. exists (fst (dest_of st)). split; [symmetry; apply set_dest_id|reflexivity].
Qed.

Lemma set_dest_same_frame st b : zlen b = zlen (fst (dest_of st)) -> same_frame st (set_dest st b).
Proof.
  intros L. destruct (set_dest_other st b) as (A1 & A2 & A3 & A4 & A5 & A6 & A7 & A8 & A9 & A10 & A11).
  unfold same_frame. rewrite A10, A11. repeat split; assumption.
Qed.

Lemma same_frame_vis a a' b b' : vis_eq a a' -> same_frame a' b' -> vis_eq b' b -> same_frame a b.
Proof.
  intros V1 S V2. destruct (vis_dest _ _ V1) as (D1 & _ & _). destruct (vis_dest _ _ V2) as (D2 & _ & _).
  destruct V1 as (A & B & C & D & E & F & G). destruct V2 as (A' & B' & C' & D' & E' & F' & G').
  destruct S as (S1 & S2 & S3 & S4 & S5 & S6 & S7 & S8 & S9 & S10).
  unfold same_frame. rewrite D2, A', B', C', D', E', F', G'. rewrite <- D1.
  rewrite <- A, <- B, <- D, <- F, <- G. rewrite <- E in *. rewrite <- C.
  repeat split; try assumption.
Qed.
Lemma same_frame_refl a : same_frame a a. Proof. unfold same_frame. intuition. Qed.

(* what one drawing call did to the pixels of the current destination *)
Inductive effect (st st' : dt) : Prop :=
  | eff_nothing : vis_eq st st' -> effect st st'
  | eff_fill_all (c : Z) : d_clips st = [] -> st' = set_dest st (map (fun _ => c) (fst (dest_of st))) -> effect st st'
  | eff_composite (st1 st2 : dt) (t1 : xform) src mask mr rect0 blend alpha :
      (* the composite ran on the same pixels / clips / layers, possibly under another transform t1 *)
      vis_eq (with_ctm st t1) st1 -> composite st1 src mask mr rect0 blend alpha = Ok st2 ->
      vis_eq (with_ctm st2 (d_ctm st)) st' -> effect st st'.

Lemma effect_same_frame st st' : d_probe st = 0 -> effect st st' -> same_frame st st'.
Proof.
  intros Hp [V|c Hc E|st1 st2 t1 src mask mr rect0 blend alpha V1 C V2].
  - apply (same_frame_vis st st st' st); [apply vis_refl|apply same_frame_refl|exact V].
  - subst st'. apply set_dest_same_frame. unfold zlen. now rewrite map_length.
  - assert (Hp1 : d_probe st1 = 0) by (destruct V1 as (_ & _ & _ & _ & _ & _ & G); cbn in G; congruence).
    destruct (composite_is_set_dest _ _ _ _ _ _ _ _ Hp1 C) as (d & -> & L).
    pose proof (set_dest_same_frame st1 d L) as S.
    (* transport: st ~ st1 except ctm; result has ctm restored *)
    destruct (vis_dest _ _ V1) as (D1 & _ & _). destruct (vis_dest _ _ V2) as (D2 & _ & _).
    destruct V1 as (A & B & C1 & D & E & F & G). destruct V2 as (A' & B' & C' & D' & E' & F' & G').
    destruct S as (S1 & S2 & S3 & S4 & S5 & S6 & S7 & S8 & S9 & S10).
    cbn [with_ctm d_w d_h d_buf d_clips d_layers d_ctm d_probe] in *.
    assert (Dst : dest_of st1 = dest_of st) by (rewrite D1; reflexivity).
    assert (Dst' : dest_of st' = dest_of (set_dest st1 d)) by (rewrite D2; reflexivity).
    unfold same_frame. rewrite Dst', A', B', D', E', F', G'. rewrite S1, S2, S3, S5, S6, S9, S10, Dst, A, B, D, G.
    rewrite E in *. rewrite C', C1 in *.
    repeat split; try reflexivity; try assumption.
Qed.

Lemma with_ctm_self st : with_ctm st (d_ctm st) = st. Proof. destruct st; reflexivity. Qed.
Lemma with_ctm_twice st a b : with_ctm (with_ctm st a) b = with_ctm st b. Proof. reflexivity. Qed.
Lemma vis_with_ctm a b t : vis_eq a b -> vis_eq (with_ctm a t) (with_ctm b t).
Proof. intros (A & B & C & D & E & F & G). repeat split; assumption. Qed.
Lemma set_dest_with_ctm st t d : with_ctm (set_dest st d) t = set_dest (with_ctm st t) d.
Proof. unfold set_dest. cbn. destruct (d_layers st); reflexivity. Qed.

Lemma composite_ctm st src mask mr rect0 blend alpha st2 : composite st src mask mr rect0 blend alpha = Ok st2 -> d_ctm st2 = d_ctm st.
Proof.
  unfold composite. intros Ec. destruct (xf_inverse (d_ctm st)); [|inversion Ec; reflexivity].
  destruct (dest_of st). destruct (r_empty _); [inversion Ec; reflexivity|].
  destruct (composite_rows _ _ _ _ _ _ _ _ _ _) as [dd|]; [|discriminate]. cbn [bind] in Ec. inversion Ec.
  destruct (set_dest_other st dd) as (_ & _ & _ & A4 & _). exact A4.
Qed.

(* fill: apply_path, rasterise into a mask over the bounds, one composite, reset *)
Lemma fill_effect st p src o st' : fill st p src o = Ok st' -> effect st st'.
Proof.
  unfold fill. intros H.
  set (c := apply_path (d_h st) (d_ctm st) (d_cur st) p) in *.
  set (b := get_bounds (rz c)) in *.
  destruct ((0 <? r_w b) && (0 <? r_h b)).
  - destruct (rasterize (if o_aa o then blit_super else blit_mask) (p_winding p) (rz c) (maskbuf_new (x0 b) (y0 b) (r_w b) (r_h b)))
      as [[rz' m]|e] eqn:Er; [|discriminate]. cbn [bind] in H.
    set (st1 := with_cur (with_cur st c) (mk_cursor (cur c) (first c) rz')) in *.
    destruct (composite st1 src (Some (m_buf m)) b b (o_blend o) (o_alpha o)) as [st2|e] eqn:Ec; [|discriminate].
    cbn [bind] in H. inversion H; subst st'; clear H.
    apply (eff_composite st (reset_raster st2) st1 st2 (d_ctm st) src (Some (m_buf m)) b b (o_blend o) (o_alpha o)).
    + rewrite with_ctm_self. unfold st1. repeat split.
    + exact Ec.
    + assert (E : d_ctm st = d_ctm st2) by (rewrite (composite_ctm _ _ _ _ _ _ _ _ Ec); reflexivity).
      rewrite E, with_ctm_self. apply vis_reset.
  - cbn [bind] in H. inversion H; subst st'. apply eff_nothing.
    apply (vis_trans _ (with_cur st c)); [apply vis_with_cur|apply vis_reset].
Qed.

(* a call made under a temporarily replaced transform *)
Lemma effect_under_ctm st t stF : effect (with_ctm st t) stF -> effect st (with_ctm stF (d_ctm st)).
Proof.
  intros [V|c Hc E|st1 st2 t1 src mask mr rect0 blend alpha V1 C V2].
  - apply eff_nothing. apply vis_with_ctm with (t := d_ctm st) in V. rewrite with_ctm_twice, with_ctm_self in V. exact V.
  - apply (eff_fill_all _ _ c); [exact Hc|]. subst stF. rewrite set_dest_with_ctm, with_ctm_twice, with_ctm_self. reflexivity.
  - apply (eff_composite st _ st1 st2 t1 src mask mr rect0 blend alpha).
    + rewrite with_ctm_twice in V1. exact V1.
    + exact C.
    + cbn [with_ctm d_ctm] in V2. apply vis_with_ctm with (t := d_ctm st) in V2. rewrite with_ctm_twice in V2. exact V2.
Qed.

Lemma fill_rect_effect st x y w h src o st' : fill_rect st x y w h src o = Ok st' -> effect st st'.
Proof.
  unfold fill_rect. intros H.
  destruct (xf_is_identity (d_ctm st) && _ && _).
  - cbv zeta in H.
    destruct (r_empty _).
    + inversion H; subst. apply eff_nothing, vis_refl.
    + eapply (eff_composite st st' st st' (d_ctm st)).
      * rewrite with_ctm_self. apply vis_refl.
      * exact H.
      * rewrite <- (composite_ctm _ _ _ _ _ _ _ _ H), with_ctm_self. apply vis_refl.
  - apply fill_effect in H. exact H.
Qed.

Lemma clear_effect st c st' : clear st c = Ok st' -> effect st st'.
Proof.
  unfold clear. intros H. destruct (d_clips st) eqn:Ec.
  - destruct (dest_of st) as [dest db] eqn:Ed. inversion H; subst st'.
    (* the model writes c (d_probe is 0 in the model of the code; under the probe it writes 1) *)
    apply (eff_fill_all _ _ (if d_probe st =? -1 then 1 else c)); [exact Ec|]. rewrite Ed. reflexivity.
  - destruct (fill _ _ _ _) as [stF|] eqn:Ef; [|discriminate]. cbn [bind] in H. inversion H; subst st'.
    apply fill_effect in Ef. apply effect_under_ctm in Ef. exact Ef.
Qed.

Lemma mask_effect st src x y mw mh data st' : mask_op st src x y mw mh data = Ok st' -> effect st st'.
Proof.
  unfold mask_op. intros H. cbv zeta in H.
  eapply (eff_composite st st' st st' (d_ctm st)).
  - rewrite with_ctm_self. apply vis_refl.
  - exact H.
  - rewrite <- (composite_ctm _ _ _ _ _ _ _ _ H), with_ctm_self. apply vis_refl.
Qed.

Definition drawing_op (o : op) : bool :=
  match o with
  | OpFill _ _ _ | OpStroke _ _ _ | OpFillRect _ _ _ _ _ _ | OpClear _ | OpMask _ _ _ _ _ _
  | OpDrawImageAt _ _ _ _ | OpDrawImageSize _ _ _ _ _ _ => true
  | _ => false
  end.

(* every drawing call (fill, stroke, fill_rect, clear, mask, draw_image_at, draw_image_with_size_at) *)
Theorem drawing_op_effect st o st' : drawing_op o = true -> step_op st o = Ok st' -> effect st st'.
Proof.
  destruct o; try discriminate; intros _ H; cbn [step_op] in H.
  - now apply fill_effect in H.
  - now apply fill_effect in H.
  - now apply fill_rect_effect in H.
  - now apply clear_effect in H.
  - now apply mask_effect in H.
  - unfold draw_image_at, draw_image_with_size_at in H. now apply fill_rect_effect in H.
  - unfold draw_image_with_size_at in H. now apply fill_rect_effect in H.
Qed.

(* pop_layer is one composite of the layer, as a Pad/Nearest image at the layer's origin through a constant
   opacity mask, onto what lies below, under the identity; the transform is restored (C06, C11) *)
Theorem pop_layer_is_one_composite st st' : pop_layer st = Ok st' ->
  exists l rest st2, (d_layers st = l :: rest) /\
    (composite (with_ctm (with_layers st rest) xf_identity)
              (Image (mk_image (r_w (l_rect l)) (r_h (l_rect l)) (l_buf l)) ExtPad Nearest
                     (xf_translation (of_int (- x0 (l_rect l))) (of_int (- y0 (l_rect l)))))
              (Some (repeat (unit_to_u8 (l_opacity l)) (Z.to_nat (d_w st * d_h st)))) (surface_rect st) (l_rect l) (l_blend l) f1 = Ok st2) /\
    (st' = with_ctm st2 (d_ctm st)).
Proof.
  unfold pop_layer. destruct (d_layers st) as [|l rest]; [discriminate|]. intros H.
  destruct (composite _ _ _ _ _ _ _) as [st2|] eqn:Ec; [|discriminate]. cbn [bind] in H. inversion H; subst.
  exists l, rest, st2. repeat split. exact Ec.
Qed.
