(* Float front end of filling: paths with f32 coordinates, euclid's Transform2D, geom.rs, and
   DrawTarget::apply_path (draw_target.rs:439-551) which turns a path into rasteriser edges.
   Every float operation is a bit-exact IEEE binary32 operation in the code's evaluation order. *)
Require Import RQ.Base RQ.F32 RQ.Rect RQ.Raster.

Definition pt : Type := f32 * f32.
Definition px (p : pt) : f32 := fst p.
Definition py (p : pt) : f32 := snd p.

Record xform := mk_xform { m11 : f32; m12 : f32; m21 : f32; m22 : f32; m31 : f32; m32 : f32 }.
Definition xf_identity : xform := mk_xform f1 f0 f0 f1 f0 f0.
Definition xf_translation (x y : f32) : xform := mk_xform f1 f0 f0 f1 x y.
Definition xf_scale (x y : f32) : xform := mk_xform x f0 f0 y f0 f0.
(* Transform2D::then *)
Definition xf_then (a b : xform) : xform :=
  mk_xform (fadd (fmul (m11 a) (m11 b)) (fmul (m12 a) (m21 b)))
           (fadd (fmul (m11 a) (m12 b)) (fmul (m12 a) (m22 b)))
           (fadd (fmul (m21 a) (m11 b)) (fmul (m22 a) (m21 b)))
           (fadd (fmul (m21 a) (m12 b)) (fmul (m22 a) (m22 b)))
           (fadd (fadd (fmul (m31 a) (m11 b)) (fmul (m32 a) (m21 b))) (m31 b))
           (fadd (fadd (fmul (m31 a) (m12 b)) (fmul (m32 a) (m22 b))) (m32 b)).
Definition xf_pre_translate (t : xform) (x y : f32) : xform := xf_then (xf_translation x y) t.
Definition xf_then_translate (t : xform) (x y : f32) : xform := xf_then t (xf_translation x y).
Definition xf_then_scale (t : xform) (x y : f32) : xform := xf_then t (xf_scale x y).
Definition xf_determinant (t : xform) : f32 := fsub (fmul (m11 t) (m22 t)) (fmul (m12 t) (m21 t)).
Definition xf_inverse (t : xform) : option xform :=
  let det := xf_determinant t in
  if feq det f0 then None else
  let inv_det := fdiv f1 det in
  Some (mk_xform (fmul inv_det (m22 t))
                 (fmul inv_det (fsub f0 (m12 t)))
                 (fmul inv_det (fsub f0 (m21 t)))
                 (fmul inv_det (m11 t))
                 (fmul inv_det (fsub (fmul (m21 t) (m32 t)) (fmul (m22 t) (m31 t))))
                 (fmul inv_det (fsub (fmul (m31 t) (m12 t)) (fmul (m11 t) (m32 t))))).
Definition xf_point (t : xform) (p : pt) : pt :=
  (fadd (fadd (fmul (px p) (m11 t)) (fmul (py p) (m21 t))) (m31 t),
   fadd (fadd (fmul (px p) (m12 t)) (fmul (py p) (m22 t))) (m32 t)).
(* derive(PartialEq) against Transform::identity() *)
Definition xf_is_identity (t : xform) : bool :=
  feq (m11 t) f1 && feq (m12 t) f0 && feq (m21 t) f0 && feq (m22 t) f1 && feq (m31 t) f0 && feq (m32 t) f0.

Inductive pathop :=
  | MoveTo (p : pt)
  | LineTo (p : pt)
  | QuadTo (c p : pt)
  (* quads: what lyon's for_each_quadratic_bezier(0.01) returned for the transformed cubic
     (supplied by the harness; lyon is not modelled) *)
  | CubicTo (c1 c2 p : pt) (quads : list (pt * pt * pt))
  | Close.
Record path := mk_path { p_ops : list pathop; p_winding : winding_rule }.

(* rasterizer.rs: f32_to_dot2 *)
Definition f32_to_dot2 (v : f32) : Z := to_i32 (fmul v f4).

(* geom.rs *)
Definition is_not_monotonic (a b c : f32) : bool :=
  let ab := fsub a b in
  let bc := fsub b c in
  let bc := if flt ab f0 then fneg bc else bc in
  feq ab f0 || flt bc f0.
Definition valid_unit_divide (numer denom : f32) : option f32 :=
  let '(numer, denom) := if flt numer f0 then (fneg numer, fneg denom) else (numer, denom) in
  if feq denom f0 || feq numer f0 || fge numer denom then None else
  let r := fdiv numer denom in
  if fis_nan r then None else
  if feq r f0 then None else Some r.
Definition interp (a b t : f32) : f32 := fadd a (fmul (fsub b a) t).
(* chop_quad_at + flatten_double_quad_extrema: the five points *)
Definition chop_quad (p0 p1 p2 : pt) (t : f32) : pt * pt * pt * pt * pt :=
  let abx := interp (px p0) (px p1) t in let bcx := interp (px p1) (px p2) t in
  let aby := interp (py p0) (py p1) t in let bcy := interp (py p1) (py p2) t in
  let mx := interp abx bcx t in let my := interp aby bcy t in
  (p0, (abx, my), (mx, my), (bcx, my), p2).

(* the path cursor + rasteriser, as held by DrawTarget *)
Record cursor := mk_cursor { cur : option pt; first : option pt; rz : rast }.

Definition raster_add (r : rast) (s e : pt) (curve : bool) (c : pt) : rast :=
  add_edge r (flt (py e) (py s)) (f32_to_dot2 (px s)) (f32_to_dot2 (py s)) (f32_to_dot2 (px e)) (f32_to_dot2 (py e))
           curve (f32_to_dot2 (px c)) (f32_to_dot2 (py c)).

Definition pzero : pt := (f0, f0).

Definition c_move_to (c : cursor) (p : pt) : cursor := mk_cursor (Some p) (Some p) (rz c).
Definition c_line_to (c : cursor) (p : pt) : cursor :=
  let c := match cur c with None => mk_cursor (Some p) (Some p) (rz c) | Some _ => c end in
  match cur c with
  | Some cp => mk_cursor (Some p) (first c) (raster_add (rz c) cp p false pzero)
  | None => c
  end.
(* DrawTarget::add_quad *)
Definition add_quad (r : rast) (p0 p1 p2 : pt) : rast :=
  let a := py p0 in let b := py p1 in let c := py p2 in
  if is_not_monotonic a b c then
    match valid_unit_divide (fsub a b) (fadd (fsub (fsub a b) b) c) with
    | Some t =>
        let '(d0, d1, d2, d3, d4) := chop_quad p0 p1 p2 t in
        raster_add (raster_add r d0 d2 true d1) d2 d4 true d3
    | None =>
        let b' := if flt (fabs (fsub a b)) (fabs (fsub b c)) then a else c in
        raster_add r p0 p2 true (px p1, b')
    end
  else raster_add r p0 p2 true p1.
Definition c_quad_to (c : cursor) (cp p : pt) : cursor :=
  let c := match cur c with None => mk_cursor (Some cp) (Some cp) (rz c) | Some _ => c end in
  match cur c with
  | Some cur0 => mk_cursor (Some p) (first c) (add_quad (rz c) cur0 cp p)
  | None => c
  end.
Definition c_cubic_to (c : cursor) (c1 c2 p : pt) (quads : list (pt * pt * pt)) : cursor :=
  let c := match cur c with None => mk_cursor (Some c1) (Some c1) (rz c) | Some _ => c end in
  match cur c with
  | Some _ => mk_cursor (Some p) (first c)
                (fold_left (fun r q => let '(a, b, d) := q in add_quad r a b d) quads (rz c))
  | None => c
  end.
Definition c_close (c : cursor) : cursor :=
  let r := match first c, cur c with
           | Some fp, Some cp => raster_add (rz c) cp fp false pzero
           | _, _ => rz c
           end in
  mk_cursor (first c) (first c) r.

(* DrawTarget::apply_path (after the repair: the cursor is reset on entry) *)
Definition apply_path (height : Z) (t : xform) (c : cursor) (p : path) : cursor :=
  let c := mk_cursor None None (rz c) in
  if height =? 0 then c else
  let c := fold_left (fun c op =>
    match op with
    | MoveTo p => c_move_to (c_close c) (xf_point t p)
    | LineTo p => c_line_to c (xf_point t p)
    | QuadTo cp p => c_quad_to c (xf_point t cp) (xf_point t p)
    | CubicTo c1 c2 p quads => c_cubic_to c (xf_point t c1) (xf_point t c2) (xf_point t p) quads
    | Close => c_close c
    end) (p_ops p) c in
  c_close c.
