(* Path utilities with bit-exact f32 arithmetic: Path::transform, PathBuilder::rect,
   Path::flatten (structure; lyon's per-curve points are an oracle input), Path::contains_point
   (path_builder.rs), dash_path (dash.rs) and stroke_to_path (stroke.rs). *)
Require Import RQ.Base RQ.F32 RQ.Raster RQ.PathF.

(* bounded iteration without large nat numerals: up to 2^d rounds of a loop body that
   returns None when the loop condition is false *)
Fixpoint iter_pow2 {S : Type} (d : nat) (f : S -> option S) (s : S) : S * bool :=
  match d with
  | O => match f s with None => (s, true) | Some s' => (s', false) end
  | S k => let '(s1, done) := iter_pow2 k f s in if done then (s1, true) else iter_pow2 k f s1
  end.

Definition padd (p : pt) (v : pt) : pt := (fadd (px p) (px v), fadd (py p) (py v)).
Definition psub (a b : pt) : pt := (fsub (px a) (px b), fsub (py a) (py b)).
Definition vscale (v : pt) (s : f32) : pt := (fmul (px v) s, fmul (py v) s).
Definition vdiv (v : pt) (s : f32) : pt := (fdiv (px v) s, fdiv (py v) s).
Definition vlength (v : pt) : f32 := fsqrt (fadd (fmul (px v) (px v)) (fmul (py v) (py v))).
Definition vnormalize (v : pt) : pt := vdiv v (vlength v).
Definition pt_eqb (a b : pt) : bool := feq (px a) (px b) && feq (py a) (py b).

(* ---- Path::transform, PathBuilder::rect ---- *)
Definition op_transform (t : xform) (o : pathop) : pathop :=
  match o with
  | MoveTo p => MoveTo (xf_point t p)
  | LineTo p => LineTo (xf_point t p)
  | QuadTo c p => QuadTo (xf_point t c) (xf_point t p)
  | CubicTo a b p q => CubicTo (xf_point t a) (xf_point t b) (xf_point t p) q
  | Close => Close
  end.
Definition path_transform (t : xform) (p : path) : path := mk_path (map (op_transform t) (p_ops p)) (p_winding p).
Definition builder_rect (x y w h : f32) : list pathop :=
  [MoveTo (x, y); LineTo (fadd x w, y); LineTo (fadd x w, fadd y h); LineTo (x, fadd y h); Close].

(* ---- Path::flatten: structure. oracle = for each curve op, in order, the points lyon's
   flattened(tolerance) returned for the segment starting at the cursor ---- *)
Fixpoint flatten_ops (ops : list pathop) (oracle : list (list pt)) (cur start : option pt) : list pathop :=
  match ops with
  | [] => []
  | MoveTo p :: t => MoveTo p :: flatten_ops t oracle (Some p) (Some p)
  | LineTo p :: t => LineTo p :: flatten_ops t oracle (Some p) (match cur with None => Some p | Some _ => start end)
  | Close :: t => Close :: flatten_ops t oracle start start
  | QuadTo c p :: t =>
      let pre := match cur with None => [LineTo c] | Some _ => [] end in
      let start' := match cur with None => Some c | Some _ => start end in
      pre ++ map LineTo (hd [] oracle) ++ flatten_ops t (tl oracle) (Some p) start'
  | CubicTo c1 c2 p _ :: t =>
      let pre := match cur with None => [LineTo c1] | Some _ => [] end in
      let start' := match cur with None => Some c1 | Some _ => start end in
      pre ++ map LineTo (hd [] oracle) ++ flatten_ops t (tl oracle) (Some p) start'
  end.
(* the segment start the crate hands to lyon for the k-th curve: same cursor *)
Fixpoint curve_starts (ops : list pathop) (cur start : option pt) : list pt :=
  match ops with
  | [] => []
  | MoveTo p :: t => curve_starts t (Some p) (Some p)
  | LineTo p :: t => curve_starts t (Some p) (match cur with None => Some p | Some _ => start end)
  | Close :: t => curve_starts t start start
  | QuadTo c p :: t => match cur with Some s => s | None => c end :: curve_starts t (Some p) (match cur with None => Some c | Some _ => start end)
  | CubicTo c1 _ p _ :: t => match cur with Some s => s | None => c1 end :: curve_starts t (Some p) (match cur with None => Some c1 | Some _ => start end)
  end.
Definition flatten (p : path) (oracle : list (list pt)) : path := mk_path (flatten_ops (p_ops p) oracle None None) (p_winding p).

(* ---- Path::contains_point on the flattened path ---- *)
Record windstate := mk_ws { ws_first : option pt; ws_cur : option pt; ws_count : Z; ws_on : bool }.
Definition ws_add_edge (x y : f32) (w : windstate) (p1 p2 : pt) : windstate :=
  let x1 := px p1 in let y1 := py p1 in let x2 := px p2 in let y2 := py p2 in
  let dx := fsub x2 x1 in let dy := fsub y2 y1 in
  let cross := fsub (fmul dx (fsub y y1)) (fmul dy (fsub x x1)) in
  if feq cross f0 then
    if fge x (fmin x1 x2) && fle x (fmax x1 x2) && fge y (fmin y1 y2) && fle y (fmax y1 y2)
    then mk_ws (ws_first w) (ws_cur w) (ws_count w) true else w
  else if fle y1 y && flt y y2 then
    (if flt cross f0 then mk_ws (ws_first w) (ws_cur w) (ws_count w - 1) (ws_on w) else w)
  else if fle y2 y && flt y y1 then
    (if fgt cross f0 then mk_ws (ws_first w) (ws_cur w) (ws_count w + 1) (ws_on w) else w)
  else w.
Definition ws_close (x y : f32) (w : windstate) : windstate :=
  let w := match ws_first w, ws_cur w with
           | Some f, Some c => ws_add_edge x y w c f
           | _, _ => w
           end in
  mk_ws (ws_first w) (ws_first w) (ws_count w) (ws_on w).
Definition ws_op (x y : f32) (w : windstate) (o : pathop) : result windstate :=
  match o with
  | MoveTo p => let w := ws_close x y w in Ok (mk_ws (Some p) (Some p) (ws_count w) (ws_on w))
  | LineTo p =>
      match ws_cur w with
      | Some c => let w := ws_add_edge x y w c p in Ok (mk_ws (ws_first w) (Some p) (ws_count w) (ws_on w))
      | None => Ok (mk_ws (Some p) (Some p) (ws_count w) (ws_on w))
      end
  | Close => Ok (ws_close x y w)
  | QuadTo _ _ | CubicTo _ _ _ _ => Err Unsupported
  end.
Fixpoint ws_run (x y : f32) (w : windstate) (ops : list pathop) : result windstate :=
  match ops with [] => Ok w | o :: t => do w' <- ws_op x y w o; ws_run x y w' t end.
Definition contains_point_flat (flat : path) (x y : f32) : result bool :=
  do w <- ws_run x y (mk_ws None None 0 false) (p_ops flat);
  let w := ws_close x y w in
  Ok (inside (p_winding flat) (ws_count w) || ws_on w).

(* ---- dash_path ---- *)
Record dstate := mk_ds { ds_on : bool; ds_rem : f32; ds_idx : Z }.
Section Dash.
  Variable arr : list f32.
  Definition arr_at (i : Z) : f32 := nth (Z.to_nat (Z.modulo i (zlen arr))) arr f0.

  (* the common inner loop of the LineTo and Close arms: chop the segment start -> target *)
  Record chop := mk_chop { ch_len : f32; ch_start : pt; ch_st : dstate; ch_first : bool; ch_fdash : bool;
                           ch_init : list pt; ch_out : list pathop (* reversed *) }.
  Definition chop_step (lv : pt) (c : chop) : option chop :=
    let st := ch_st c in
    if fgt (ch_len c) (ds_rem st) then
      let seg := padd (ch_start c) (vscale lv (ds_rem st)) in
      let '(init, out, fdash) :=
        if ds_on st then
          (if ch_first c then (ch_init c ++ [ch_start c; seg], ch_out c, ch_fdash c)
           else (ch_init c, LineTo seg :: ch_out c, ch_fdash c))
        else (ch_init c, MoveTo seg :: ch_out c, false) in
      let idx := ds_idx st + 1 in
      Some (mk_chop (fsub (ch_len c) (ds_rem st)) seg (mk_ds (negb (ds_on st)) (arr_at idx) idx) false fdash init out)
    else None.

  Record dash_acc := mk_da { da_cur : option pt; da_startp : option pt; da_first : bool; da_fdash : bool;
                             da_init : list pt; da_st : dstate; da_out : list pathop (* reversed *) }.
  Definition flush_initial (init : list pt) (out : list pathop) : list pathop :=
    match init with
    | [] => out
    | p0 :: rest => rev (map LineTo rest) ++ MoveTo p0 :: out
    end.

  Definition dash_op (initial : dstate) (a : dash_acc) (o : pathop) : result dash_acc :=
    match o with
    | MoveTo p =>
        let out := MoveTo p :: flush_initial (da_init a) (da_out a) in
        Ok (mk_da (Some p) (Some p) true true [] initial out)
    | LineTo p =>
        match da_cur a with
        | Some cur =>
            let v := psub p cur in
            let len := vlength v in
            let lv := vnormalize v in
            let '(c, done) := iter_pow2 17 (chop_step lv)
                                (mk_chop len cur (da_st a) (da_first a) (da_fdash a) (da_init a) (da_out a)) in
            if negb done then Err OutOfFuel else
            let st := ch_st c in
            let '(init, out, fdash) :=
              if ds_on st then
                (if ch_first c then (ch_init c ++ [ch_start c; p], ch_out c, ch_fdash c)
                 else (ch_init c, LineTo p :: ch_out c, ch_fdash c))
              else (ch_init c, MoveTo p :: ch_out c, false) in
            Ok (mk_da (Some p) (da_startp a) (ch_first c) fdash init
                      (mk_ds (ds_on st) (fsub (ds_rem st) (ch_len c)) (ds_idx st)) out)
        | None => Ok (mk_da (Some p) (da_startp a) (da_first a) (da_fdash a) (da_init a) (da_st a) (da_out a))
        end
    | Close =>
        match da_cur a, da_startp a with
        | Some cur, Some sp =>
            let v := psub sp cur in
            let len := vlength v in
            let lv := vnormalize v in
            let '(c, done) := iter_pow2 17 (chop_step lv)
                                (mk_chop len cur (da_st a) (da_first a) (da_fdash a) (da_init a) (da_out a)) in
            if negb done then Err OutOfFuel else
            let out :=
              if ds_on (ch_st c) then
                if ch_fdash c then Close :: rev (map LineTo (ch_init c)) ++ ch_out c
                else match ch_init c with
                     | [] => LineTo sp :: ch_out c
                     | _ => rev (map LineTo (ch_init c)) ++ ch_out c
                     end
              else flush_initial (ch_init c) (ch_out c) in
            Ok (mk_da (Some sp) (da_startp a) true true [] initial out)
        | _, _ => Ok (mk_da None (da_startp a) (da_first a) (da_fdash a) (da_init a) (da_st a) (da_out a))
        end
    | QuadTo _ _ | CubicTo _ _ _ _ => Err Unsupported
    end.

  Fixpoint dash_ops (initial : dstate) (a : dash_acc) (ops : list pathop) : result dash_acc :=
    match ops with [] => Ok a | o :: t => do a' <- dash_op initial a o; dash_ops initial a' t end.

  Definition offset_step (s : f32 * dstate) : option (f32 * dstate) :=
    let '(off, st) := s in
    if fgt off (ds_rem st) then
      let idx := ds_idx st + 1 in
      Some (fsub off (ds_rem st), mk_ds (negb (ds_on st)) (arr_at idx) idx)
    else None.

  Definition dash_path (p : path) (dash_offset : f32) : result path :=
    let total := fold_left fadd arr f0 in
    let total := if Z.odd (zlen arr) then fmul total (of_int 2) else total in
    if negb (fgt total f0) then Ok (mk_path [] NonZero) else
    let off := frem dash_offset total in
    let off := if flt off f0 then fadd off total else off in
    let off := if feq (fabs off) (fdiv f1 f0) then f0 else off in   (* is_infinite *)
    let '((off, st), done) := iter_pow2 17 offset_step (off, mk_ds true (arr_at 0) 0) in
    if negb done then Err OutOfFuel else
    let initial := mk_ds (ds_on st) (fsub (ds_rem st) off) (ds_idx st) in
    do a <- dash_ops initial (mk_da None None true true [] initial []) (p_ops p);
    Ok (mk_path (rev (flush_initial (da_init a) (da_out a))) NonZero).
End Dash.

(* ---- stroke_to_path ---- *)
Inductive line_cap := CapRound | CapSquare | CapButt.
Inductive line_join := JoinRound | JoinMiter | JoinBevel.
Record stroke_style := mk_style { s_width : f32; s_cap : line_cap; s_join : line_join; s_miter : f32 }.

Definition compute_normal (p0 p1 : pt) : option pt :=
  let ux := fsub (px p1) (px p0) in let uy := fsub (py p1) (py p0) in
  let ulen := fhypot ux uy in
  if feq ulen f0 then None else Some (fdiv (fneg uy) ulen, fdiv ux ulen).
Definition vflip (v : pt) : pt := (fneg (px v), fneg (py v)).
Definition vperp (v : pt) : pt := (fneg (py v), px v).
Definition vswap (v : pt) : pt := (py v, fneg (px v)).
Definition vdot (a b : pt) : f32 := fadd (fmul (px a) (px b)) (fmul (py a) (py b)).
Definition four_thirds : f32 := fdiv (of_int 4) (of_int 3).

(* builders append to a reversed op list *)
Definition arc_segment (out : list pathop) (xc yc radius : f32) (a b : pt) : list pathop :=
  let r_sin_a := fmul radius (py a) in let r_cos_a := fmul radius (px a) in
  let r_sin_b := fmul radius (py b) in let r_cos_b := fmul radius (px b) in
  let mid := padd a b in
  let mid := vdiv mid (vlength mid) in
  let mid2 := padd a mid in
  let h := fdiv (fmul four_thirds (vdot (vperp a) mid2)) (vdot a mid2) in
  CubicTo (fsub (fadd xc r_cos_a) (fmul h r_sin_a), fadd (fadd yc r_sin_a) (fmul h r_cos_a))
          (fadd (fadd xc r_cos_b) (fmul h r_sin_b), fsub (fadd yc r_sin_b) (fmul h r_cos_b))
          (fadd xc r_cos_b, fadd yc r_sin_b) [] :: out.
Definition bisect (a b : pt) : pt :=
  let mid := if fge (vdot a b) f0 then padd a b else vperp (padd (vflip a) b) in
  let mid_len := fadd (fmul (px mid) (px mid)) (fmul (py mid) (py mid)) in
  vdiv mid (fsqrt mid_len).
Definition arc (out : list pathop) (xc yc radius : f32) (a b : pt) : list pathop :=
  let mid_v := bisect a b in
  arc_segment (arc_segment out xc yc radius a mid_v) xc yc radius mid_v b.

Definition cap_line (out : list pathop) (st : stroke_style) (p normal : pt) : list pathop :=
  let offset := fdiv (s_width st) (of_int 2) in
  match s_cap st with
  | CapButt => out
  | CapRound =>
      let out := MoveTo (fadd (px p) (fmul (px normal) offset), fadd (py p) (fmul (py normal) offset)) :: out in
      let out := arc out (px p) (py p) offset normal (vflip normal) in
      Close :: LineTo p :: out
  | CapSquare =>
      let v := (py normal, fneg (px normal)) in
      let e := padd p (vscale v offset) in
      Close :: LineTo p
        :: LineTo (fsub (px p) (fmul (px normal) offset), fsub (py p) (fmul (py normal) offset))
        :: LineTo (fadd (px e) (fmul (fneg (px normal)) offset), fadd (py e) (fmul (fneg (py normal)) offset))
        :: LineTo (fadd (px e) (fmul (px normal) offset), fadd (py e) (fmul (py normal) offset))
        :: MoveTo (fadd (px p) (fmul (px normal) offset), fadd (py p) (fmul (py normal) offset)) :: out
  end.
Definition bevel (out : list pathop) (st : stroke_style) (p s1 s2 : pt) : list pathop :=
  let offset := fdiv (s_width st) (of_int 2) in
  Close :: LineTo p :: LineTo (fadd (px p) (fmul (px s2) offset), fadd (py p) (fmul (py s2) offset))
    :: MoveTo (fadd (px p) (fmul (px s1) offset), fadd (py p) (fmul (py s1) offset)) :: out.
Definition line_intersection (a a_perp b b_perp : pt) : option pt :=
  let a_par := vswap a_perp in
  let c := psub b a in
  let denom := vdot b_perp a_par in
  if feq denom f0 then None else
  let t := fdiv (vdot b_perp c) denom in
  Some (fadd (px a) (fmul t (px a_par)), fadd (py a) (fmul t (py a_par))).
Definition is_interior_angle (a b : pt) : bool := fgt (vdot (vperp a) b) f0 || pt_eqb a b.
Definition join_line (out : list pathop) (st : stroke_style) (p s1 s2 : pt) : list pathop :=
  let '(s1, s2) := if is_interior_angle s1 s2 then (vflip s2, vflip s1) else (s1, s2) in
  let offset := fdiv (s_width st) (of_int 2) in
  match s_join st with
  | JoinRound =>
      let out := MoveTo (fadd (px p) (fmul (px s1) offset), fadd (py p) (fmul (py s1) offset)) :: out in
      let out := arc out (px p) (py p) offset s1 s2 in
      Close :: LineTo p :: out
  | JoinMiter =>
      let in_dot_out := fadd (fmul (fneg (px s1)) (px s2)) (fmul (fneg (py s1)) (py s2)) in
      if fle (of_int 2) (fmul (fmul (s_miter st) (s_miter st)) (fsub f1 in_dot_out)) then
        let start := padd p (vscale s1 offset) in
        let e := padd p (vscale s2 offset) in
        match line_intersection start s1 e s2 with
        | Some i =>
            Close :: LineTo p :: LineTo (fadd (px p) (fmul (px s2) offset), fadd (py p) (fmul (py s2) offset))
              :: LineTo i :: MoveTo (fadd (px p) (fmul (px s1) offset), fadd (py p) (fmul (py s1) offset)) :: out
        | None => out
        end
      else bevel out st p s1 s2
  | JoinBevel => bevel out st p s1 s2
  end.

(* one stroked segment: the hexagon with the two mid points *)
Definition segment_piece (out : list pathop) (a b normal : pt) (hw : f32) : list pathop :=
  Close :: LineTo a
    :: LineTo (fsub (px a) (fmul (px normal) hw), fsub (py a) (fmul (py normal) hw))
    :: LineTo (fadd (px b) (fmul (fneg (px normal)) hw), fadd (py b) (fmul (fneg (py normal)) hw))
    :: LineTo b
    :: LineTo (fadd (px b) (fmul (px normal) hw), fadd (py b) (fmul (py normal) hw))
    :: MoveTo (fadd (px a) (fmul (px normal) hw), fadd (py a) (fmul (py normal) hw)) :: out.

Record stroke_acc := mk_sa { sa_cur : option pt; sa_last : pt; sa_start : option (pt * pt); sa_first : option pt; sa_out : list pathop }.
Definition caps (out : list pathop) (st : stroke_style) (cur : option pt) (last : pt) (start : option (pt * pt)) : list pathop :=
  match cur, start with
  | Some c, Some (p, n) => cap_line (cap_line out st c last) st p (vflip n)
  | _, _ => out
  end.
Definition stroke_op (st : stroke_style) (hw : f32) (a : stroke_acc) (o : pathop) : result stroke_acc :=
  match o with
  | MoveTo p => Ok (mk_sa (Some p) (sa_last a) None (Some p) (caps (sa_out a) st (sa_cur a) (sa_last a) (sa_start a)))
  | LineTo p =>
      match sa_cur a with
      | None => Ok (mk_sa (Some p) (sa_last a) None (Some p) (sa_out a))
      | Some cur =>
          match compute_normal cur p with
          | Some normal =>
              let '(start, out) := match sa_start a with
                                   | None => (Some (cur, normal), sa_out a)
                                   | Some s => (Some s, join_line (sa_out a) st cur (sa_last a) normal)
                                   end in
              Ok (mk_sa (Some p) normal start (sa_first a) (segment_piece out cur p normal hw))
          | None => Ok (mk_sa (Some p) (sa_last a) (sa_start a) (sa_first a) (sa_out a))
          end
      end
  | Close =>
      let out :=
        match sa_cur a, sa_start a with
        | Some cur, Some (endp, start_normal) =>
            match compute_normal cur endp with
            | Some normal =>
                let out := join_line (sa_out a) st cur (sa_last a) normal in
                let out := segment_piece out cur endp normal hw in
                join_line out st endp normal start_normal
            | None => join_line (sa_out a) st endp (sa_last a) start_normal
            end
        | _, _ => sa_out a
        end in
      (* last_normal is only updated by LineTo in the code *)
      Ok (mk_sa (sa_first a) (sa_last a) None (sa_first a) out)
  | QuadTo _ _ | CubicTo _ _ _ _ => Err Unsupported
  end.
Fixpoint stroke_ops (st : stroke_style) (hw : f32) (a : stroke_acc) (ops : list pathop) : result stroke_acc :=
  match ops with [] => Ok a | o :: t => do a' <- stroke_op st hw a o; stroke_ops st hw a' t end.
Definition stroke_to_path (p : path) (st : stroke_style) : result path :=
  if fle (s_width st) f0 then Ok (mk_path [] NonZero) else
  let hw := fdiv (s_width st) (of_int 2) in
  do a <- stroke_ops st hw (mk_sa None pzero None None []) (p_ops p);
  Ok (mk_path (rev (caps (sa_out a) st (sa_cur a) (sa_last a) (sa_start a))) NonZero).
