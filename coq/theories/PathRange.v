(* PathRange: the curve edges a path produces are y-monotone and in range (discharges RasterGlue.op_no_wrap).
   Part 1  f32_to_dot2 on finite floats: clamp (trunc (4 x)); monotone, bounded
   Part 2  the sign of a float difference; is_not_monotonic = false gives a y-monotone control point
   Part 3  valid_unit_divide returns a finite t with 0 <= t <= 1; interp stays within one unit of its end points
   Part 4  quad_args produces tuples satisfying NoWrap.arg_mono_in_range
   Part 5  paths: path_in_range -> arg_mono_in_range for every add_edge tuple; op_no_wrap; totality corollaries *)
From Flocq Require Import Core Plus_error IEEE754.BinarySingleNaN IEEE754.Binary IEEE754.Bits.
Import Flocq.IEEE754.Binary.
Require Import RQ.Base RQ.F32 RQ.Rect RQ.Pixel RQ.PixelProofs RQ.Surface RQ.Raster RQ.RasterProofs RQ.RasterIdle RQ.RasterTotal
  RQ.NoWrap RQ.PathF RQ.PathOps RQ.Shader RQ.Target RQ.ClipProofs RQ.PremulDraw RQ.FillProofs RQ.TotalProofs RQ.IdleProofs
  RQ.RasterGlue RQ.UserSpace.
From Coq Require Import Reals Lia Lra ZifyBool List.
Import ListNotations.
Ltac Zify.zify_post_hook ::= Z.to_euclidean_division_equations.

Notation fin x := (is_finite 24 128 x = true).
Notation RV x := (B2R 24 128 x).
Notation rnd := (round radix2 (SpecFloat.fexp 24 128) (round_mode mode_NE)).
Notation fmt := (generic_format radix2 (SpecFloat.fexp 24 128)).

(* ===================================================================================================== *)
(* Part 1: f32_to_dot2                                                                                    *)
(* ===================================================================================================== *)

Local Instance prec24 : Prec_gt_0 24 := prec32.
Local Instance fexp32_valid : Valid_exp (SpecFloat.fexp 24 128) := fexp_correct 24 128 prec32.

Lemma fexp_is_FLT : SpecFloat.fexp 24 128 = FLT_exp (-149) 24.
Proof. reflexivity. Qed.

Lemma sign_real x : fin x ->
  (Bsign 24 128 x = true -> (RV x <= 0)%R) /\ (Bsign 24 128 x = false -> (0 <= RV x)%R).
Proof.
  intros Fx. destruct x as [s|s|s pl e|s m e Hb]; try discriminate Fx.
  - cbn [B2R]. split; intros _; apply Rle_refl.
  - cbn [B2R Bsign]. split; intros ->; cbn [cond_Zopp].
    + apply F2R_le_0. cbn [Fnum]. lia.
    + apply F2R_ge_0. cbn [Fnum]. lia.
Qed.

(* truncation toward zero of a finite float is Ztrunc of its value *)
Lemma ftrunc_finite x : fin x -> ftrunc x = Some (Ztrunc (RV x)).
Proof.
  intros Fx. destruct x as [s|s|s pl e|s m e Hb]; try discriminate Fx.
  - cbn [ftrunc B2R]. rewrite (Ztrunc_IZR 0). reflexivity.
  - cbn [ftrunc B2R]. unfold F2R. cbn [Fnum Fexp]. f_equal.
    destruct (0 <=? e)%Z eqn:Ee.
    + apply Z.leb_le in Ee. rewrite <- (IZR_Zpower radix2 e Ee), <- mult_IZR, Ztrunc_IZR.
      change (Zpower radix2 e) with (2 ^ e)%Z. destruct s; cbn [cond_Zopp]; lia.
    + apply Z.leb_gt in Ee.
      assert (Hk : (0 <= - e)%Z) by lia.
      assert (Hpow : (0 < 2 ^ (- e))%Z) by (apply Z.pow_pos_nonneg; lia).
      assert (E : bpow radix2 e = (/ IZR (2 ^ (- e)))%R).
      { change (2 ^ (- e))%Z with (Zpower radix2 (- e)). rewrite (IZR_Zpower radix2 (- e) Hk).
        rewrite <- bpow_opp. f_equal. lia. }
      rewrite E.
      assert (P : Ztrunc (IZR (Z.pos m) * / IZR (2 ^ (- e))) = (Z.pos m / 2 ^ (- e))%Z).
      { rewrite Ztrunc_floor.
        - apply Zfloor_div. lia.
        - apply Rmult_le_pos; [apply IZR_le; lia|]. apply Rlt_le, Rinv_0_lt_compat, IZR_lt. exact Hpow. }
      rewrite Z.quot_div_nonneg by lia.
      destruct s; cbn [cond_Zopp].
      * rewrite opp_IZR, Ropp_mult_distr_l_reverse, Ztrunc_opp, P. reflexivity.
      * symmetry. exact P.
Qed.

Lemma gf_mul4 v : fmt v -> fmt (v * 4).
Proof.
  intros H. rewrite fexp_is_FLT in *. apply FLT_format_generic in H; [|reflexivity].
  destruct H as [f E Hm He]. apply generic_format_FLT.
  apply (FLT_spec radix2 (-149) 24 _ (Float radix2 (Fnum f) (Fexp f + 2))).
  - rewrite E. unfold F2R. cbn [Fnum Fexp]. rewrite bpow_plus. change (bpow radix2 2) with 4%R. ring.
  - exact Hm.
  - cbn [Fexp]. lia.
Qed.

Lemma f4_props : fin f4 /\ RV f4 = 4%R /\ Bsign 24 128 f4 = false.
Proof.
  destruct f4_fint as [F V]. split; [exact F|]. split; [exact V|]. vm_compute. reflexivity.
Qed.

Lemma clampz_mono lo hi a b : (a <= b)%Z -> (clampz lo hi a <= clampz lo hi b)%Z.
Proof. unfold clampz. lia. Qed.

Lemma overflow_NE_inf (r : f32) s : B2FF 24 128 r = binary_overflow 24 128 mode_NE s -> r = B754_infinity 24 128 s.
Proof.
  change (binary_overflow 24 128 mode_NE s) with (F754_infinity s).
  destruct r; cbn [B2FF]; intros H; try discriminate H. inversion H. reflexivity.
Qed.

Lemma pow128_big : (IZR (2 ^ 40) <= bpow radix2 128)%R.
Proof. change (2 ^ 40)%Z with (Zpower radix2 40). rewrite IZR_Zpower by lia. apply bpow_le. lia. Qed.

(* THE characterisation: on finite floats f32_to_dot2 is "multiply by 4 exactly, truncate, saturate" *)
Theorem dot2_real x : fin x -> f32_to_dot2 x = clampz i32_min i32_max (Ztrunc (RV x * 4)).
Proof.
  intros Fx. destruct f4_props as (F4 & V4 & S4). unfold f32_to_dot2.
  pose proof (Bmult_correct 24 128 eq_refl eq_refl binop_nan_pl32 mode_NE x f4) as H.
  rewrite V4 in H.
  rewrite (round_generic radix2 _ (round_mode mode_NE) _ (gf_mul4 _ (generic_format_B2R 24 128 x))) in H.
  change (Bmult 24 128 eq_refl eq_refl binop_nan_pl32 mode_NE x f4) with (fmul x f4) in H.
  destruct (Rlt_bool_spec (Rabs (RV x * 4)) (bpow radix2 128)) as [Hlt|Hge].
  - destruct H as (H1 & H2 & _). rewrite Fx, F4 in H2. cbn [andb] in H2.
    unfold to_i32. rewrite (ftrunc_finite _ H2), H1. reflexivity.
  - apply overflow_NE_inf in H. rewrite S4, xorb_false_r in H. rewrite H.
    pose proof pow128_big as P. destruct (sign_real x Fx) as [Sn Sp].
    unfold to_i32. cbn [ftrunc]. destruct (Bsign 24 128 x) eqn:Es.
    + specialize (Sn eq_refl). rewrite Rabs_left1 in Hge by lra.
      assert (T : (Ztrunc (RV x * 4) <= - 2 ^ 40)%Z).
      { rewrite <- (Ztrunc_IZR (- 2 ^ 40)). apply Ztrunc_le. rewrite opp_IZR. lra. }
      unfold clampz, i32_min, i32_max in *. lia.
    + specialize (Sp eq_refl). rewrite Rabs_pos_eq in Hge by lra.
      assert (T : (2 ^ 40 <= Ztrunc (RV x * 4))%Z).
      { rewrite <- (Ztrunc_IZR (2 ^ 40)). apply Ztrunc_le. lra. }
      unfold clampz, i32_min, i32_max in *. lia.
Qed.

(* ITEM 1a: monotone *)
Theorem dot2_mono a b : fin a -> fin b -> (RV a <= RV b)%R -> (f32_to_dot2 a <= f32_to_dot2 b)%Z.
Proof.
  intros Fa Fb H. rewrite (dot2_real a Fa), (dot2_real b Fb). apply clampz_mono, Ztrunc_le. lra.
Qed.

(* ITEM 1b: bounded (n is any integer bound on |x|; no upper limit on n is needed: saturation only shrinks) *)
Theorem dot2_bound x n : fin x -> (Rabs (RV x) <= IZR n)%R -> (Z.abs (f32_to_dot2 x) <= 4 * n)%Z.
Proof.
  intros Fx H. rewrite (dot2_real x Fx). apply Rabs_le_inv in H.
  assert (U : (Ztrunc (RV x * 4) <= 4 * n)%Z).
  { rewrite <- (Ztrunc_IZR (4 * n)). apply Ztrunc_le. rewrite mult_IZR. lra. }
  assert (L : (- (4 * n) <= Ztrunc (RV x * 4))%Z).
  { rewrite <- (Ztrunc_IZR (- (4 * n))). apply Ztrunc_le. rewrite opp_IZR, mult_IZR. lra. }
  unfold clampz, i32_min, i32_max. lia.
Qed.
(* the same with a real bound B (the statement of the task: |x| <= B -> |dot2 x| <= 4 B) *)
Theorem dot2_bound_real x B : fin x -> (Rabs (RV x) <= B)%R -> (IZR (Z.abs (f32_to_dot2 x)) <= 4 * B)%R.
Proof.
  intros Fx H. rewrite (dot2_real x Fx).
  apply Rle_trans with (IZR (Z.abs (Ztrunc (RV x * 4)))).
  - apply IZR_le. unfold clampz, i32_min, i32_max. lia.
  - rewrite <- Ztrunc_abs, Ztrunc_floor by apply Rabs_pos.
    apply Rle_trans with (Rabs (RV x * 4)); [apply Zfloor_lb|].
    rewrite Rabs_mult, (Rabs_pos_eq 4) by lra. lra.
Qed.
Print Assumptions dot2_real.
Print Assumptions dot2_mono.
Print Assumptions dot2_bound_real.
Print Assumptions dot2_bound.

(* ===================================================================================================== *)
(* Part 2: the sign of a difference, is_not_monotonic                                                     *)
(* ===================================================================================================== *)

Lemma f0_props : fin f0 /\ RV f0 = 0%R.
Proof. destruct f0_fint as [F V]. split; [exact F|exact V]. Qed.

(* rounding a difference of two floats keeps its sign: no underflow to zero or to the other side (gradual underflow) *)
Lemma rnd_diff_sign A B : fmt A -> fmt B -> Rcompare (rnd (A - B)) 0 = Rcompare A B.
Proof.
  intros HA HB.
  assert (G0 : fmt 0%R) by apply generic_format_0.
  assert (NZ : (A - B <> 0)%R -> rnd (A - B) <> 0%R).
  { intros Hn. unfold Rminus. rewrite fexp_is_FLT in *.
    apply (round_plus_neq_0 radix2 (FLT_exp (-149) 24) (round_mode mode_NE) A (- B)%R HA); [apply generic_format_opp; exact HB|exact Hn]. }
  destruct (Rcompare_spec A B) as [Hlt|Heq|Hgt].
  - apply Rcompare_Lt.
    assert (L : (rnd (A - B) <= 0)%R) by (apply round_le_generic; [exact _|apply valid_rnd_round_mode|exact G0|lra]).
    assert (N : rnd (A - B) <> 0%R) by (apply NZ; lra). lra.
  - subst. replace (B - B)%R with 0%R by ring. rewrite round_0 by apply valid_rnd_round_mode. apply Rcompare_Eq. reflexivity.
  - apply Rcompare_Gt.
    assert (L : (0 <= rnd (A - B))%R) by (apply round_ge_generic; [exact _|apply valid_rnd_round_mode|exact G0|lra]).
    assert (N : rnd (A - B) <> 0%R) by (apply NZ; lra). lra.
Qed.

Lemma fcmp_inf_f0 s : fcmp (B754_infinity 24 128 s) f0 = Some (if s then Lt else Gt).
Proof. rewrite f0_is_zero. destruct s; reflexivity. Qed.

(* ITEM 2 core: fsub of finite floats compares with 0 exactly as the real difference does (even when it overflows) *)
Theorem fsub_sign a b : fin a -> fin b -> fcmp (fsub a b) f0 = Some (Rcompare (RV a) (RV b)).
Proof.
  intros Fa Fb. destruct f0_props as [F0 V0].
  pose proof (Bminus_correct 24 128 eq_refl eq_refl binop_nan_pl32 mode_NE a b Fa Fb) as H.
  change (Bminus 24 128 eq_refl eq_refl binop_nan_pl32 mode_NE a b) with (fsub a b) in H.
  destruct (Rlt_bool_spec (Rabs (rnd (RV a - RV b))) (bpow radix2 128)) as [Hlt|Hge].
  - destruct H as (H1 & H2 & _). unfold fcmp, b32_compare.
    rewrite (Bcompare_correct 24 128 _ _ H2 F0), H1, V0. f_equal.
    apply rnd_diff_sign; apply generic_format_B2R.
  - destruct H as (H1 & H2). apply overflow_NE_inf in H1. rewrite H1, fcmp_inf_f0. f_equal.
    assert (NE : RV a <> RV b).
    { intros E. rewrite E in Hge. replace (RV b - RV b)%R with 0%R in Hge by ring.
      rewrite round_0, Rabs_R0 in Hge by apply valid_rnd_round_mode.
      pose proof (bpow_gt_0 radix2 128). lra. }
    destruct (sign_real a Fa) as [Na Pa]. destruct (sign_real b Fb) as [Nb Pb].
    destruct (Bsign 24 128 a) eqn:Ea.
    + assert (Eb : Bsign 24 128 b = false) by (destruct (Bsign 24 128 b); [discriminate H2|reflexivity]).
      specialize (Na eq_refl). specialize (Pb Eb). symmetry. apply Rcompare_Lt. lra.
    + assert (Eb : Bsign 24 128 b = true) by (destruct (Bsign 24 128 b); [reflexivity|discriminate H2]).
      specialize (Pa eq_refl). specialize (Nb Eb). symmetry. apply Rcompare_Gt. lra.
Qed.

Lemma fcmp_fneg_f0 x : fcmp (fneg x) f0 = match fcmp x f0 with Some c => Some (CompOpp c) | None => None end.
Proof. rewrite f0_is_zero. destruct x as [s|s|s pl e|s m e Hb]; destruct s; reflexivity. Qed.

(* what the test of geom.rs means on finite floats *)
Theorem is_not_monotonic_false a b c : fin a -> fin b -> fin c -> is_not_monotonic a b c = false ->
  (RV b < RV a /\ RV c <= RV b)%R \/ (RV a < RV b /\ RV b <= RV c)%R.
Proof.
  intros Fa Fb Fc. unfold is_not_monotonic, flt, feq. cbv zeta.
  rewrite (fsub_sign a b Fa Fb).
  destruct (Rcompare_spec (RV a) (RV b)) as [Hlt|Heq|Hgt]; cbn [orb]; try discriminate.
  - rewrite fcmp_fneg_f0, (fsub_sign b c Fb Fc).
    destruct (Rcompare_spec (RV b) (RV c)) as [H|H|H]; cbn [CompOpp]; try discriminate; intros _; right; lra.
  - rewrite (fsub_sign b c Fb Fc).
    destruct (Rcompare_spec (RV b) (RV c)) as [H|H|H]; try discriminate; intros _; left; lra.
Qed.

(* ITEM 2: the unchopped quad is y-monotone in dot2 *)
Theorem unchopped_monotone a b c : fin a -> fin b -> fin c -> is_not_monotonic a b c = false ->
  (Z.min (f32_to_dot2 a) (f32_to_dot2 c) <= f32_to_dot2 b <= Z.max (f32_to_dot2 a) (f32_to_dot2 c))%Z.
Proof.
  intros Fa Fb Fc H. destruct (is_not_monotonic_false a b c Fa Fb Fc H) as [[H1 H2]|[H1 H2]].
  - pose proof (dot2_mono b a Fb Fa ltac:(lra)). pose proof (dot2_mono c b Fc Fb H2). lia.
  - pose proof (dot2_mono a b Fa Fb ltac:(lra)). pose proof (dot2_mono b c Fb Fc H2). lia.
Qed.
Print Assumptions fsub_sign.
Print Assumptions unchopped_monotone.

(* finiteness cannot be dropped: a NaN control y passes the test (every comparison with NaN is false) and becomes 0 *)
Definition fnan : f32 := of_bits 2143289344.
Example nan_control_not_monotone :
  is_not_monotonic f1 fnan (of_int 2) = false /\
  quad_args (f0, f1) (f0, fnan) (f0, of_int 2) = [(false, 0, 4, 0, 8, true, 0, 0)]%Z.
Proof. vm_compute. split; reflexivity. Qed.

(* ===================================================================================================== *)
(* Part 3: valid_unit_divide and interp                                                                   *)
(* ===================================================================================================== *)

(* a bound by a representable integer survives rounding, and excludes overflow *)
Lemma rnd_small x k : small k -> (Rabs x <= IZR k)%R ->
  (Rabs (rnd x) <= IZR k)%R /\ Rlt_bool (Rabs (rnd x)) (bpow radix2 128) = true.
Proof.
  intros Hk Hx.
  assert (B : (Rabs (rnd x) <= IZR k)%R).
  { apply abs_round_le_generic; [exact _|apply valid_rnd_round_mode|apply gf_int; exact Hk|exact Hx]. }
  split; [exact B|]. apply Rlt_bool_true.
  assert (K0 : (0 <= IZR k)%R) by (pose proof (Rabs_pos x); lra).
  pose proof (lt_emax_int k Hk) as L.
  destruct (Rlt_bool_spec (Rabs (IZR k)) (bpow radix2 128)) as [L'|L']; [|discriminate L].
  rewrite Rabs_pos_eq in L' by exact K0. lra.
Qed.

Lemma fsub_real a b k : fin a -> fin b -> small k -> (Rabs (RV a - RV b) <= IZR k)%R ->
  fin (fsub a b) /\ RV (fsub a b) = rnd (RV a - RV b).
Proof.
  intros Fa Fb Hk Hx. destruct (rnd_small _ k Hk Hx) as [_ L].
  pose proof (Bminus_correct 24 128 eq_refl eq_refl binop_nan_pl32 mode_NE a b Fa Fb) as H.
  rewrite L in H. destruct H as (H1 & H2 & _). split; [exact H2|exact H1].
Qed.
Lemma fadd_real a b k : fin a -> fin b -> small k -> (Rabs (RV a + RV b) <= IZR k)%R ->
  fin (fadd a b) /\ RV (fadd a b) = rnd (RV a + RV b).
Proof.
  intros Fa Fb Hk Hx. destruct (rnd_small _ k Hk Hx) as [_ L].
  pose proof (Bplus_correct 24 128 eq_refl eq_refl binop_nan_pl32 mode_NE a b Fa Fb) as H.
  rewrite L in H. destruct H as (H1 & H2 & _). split; [exact H2|exact H1].
Qed.
Lemma fmul_real a b k : fin a -> fin b -> small k -> (Rabs (RV a * RV b) <= IZR k)%R ->
  fin (fmul a b) /\ RV (fmul a b) = rnd (RV a * RV b).
Proof.
  intros Fa Fb Hk Hx. destruct (rnd_small _ k Hk Hx) as [_ L].
  pose proof (Bmult_correct 24 128 eq_refl eq_refl binop_nan_pl32 mode_NE a b) as H.
  rewrite L in H. destruct H as (H1 & H2 & _). rewrite Fa, Fb in H2. split; [exact H2|exact H1].
Qed.

(* rounding error below 8192: half an ulp of 8192 = 2^-11 *)
Lemma rnd_err x : (Rabs x <= 8192)%R -> (Rabs (rnd x - x) <= / 2048)%R.
Proof.
  intros Hx. rewrite fexp_is_FLT.
  pose proof (error_le_half_ulp radix2 (FLT_exp (-149) 24) (fun z => negb (Z.even z)) x) as E.
  change (Znearest (fun z => negb (Z.even z))) with (round_mode mode_NE) in E.
  assert (U : (ulp radix2 (FLT_exp (-149) 24) x <= / 1024)%R).
  { apply Rle_trans with (ulp radix2 (FLT_exp (-149) 24) (bpow radix2 13)).
    - apply ulp_le; [exact _|exact _|]. rewrite (Rabs_pos_eq (bpow radix2 13)) by apply bpow_ge_0.
      change (bpow radix2 13) with 8192%R. exact Hx.
    - rewrite ulp_bpow. change (FLT_exp (-149) 24 (13 + 1)) with (-10)%Z. change (bpow radix2 (-10)) with (/ 1024)%R.
      apply Rle_refl. }
  lra.
Qed.

Lemma rnd_between lo hi x : fmt lo -> fmt hi -> (lo <= x <= hi)%R -> (lo <= rnd x <= hi)%R.
Proof.
  intros Gl Gh [H1 H2]. split.
  - apply round_ge_generic; [exact _|apply valid_rnd_round_mode|exact Gl|exact H1].
  - apply round_le_generic; [exact _|apply valid_rnd_round_mode|exact Gh|exact H2].
Qed.

(* ITEM 5 core: a + (b - a) * t in binary32 with 0 <= t <= 1 stays within one unit of [min a b, max a b] *)
Theorem interp_bound a b t M : fin a -> fin b -> fin t -> (0 <= RV t <= 1)%R -> (0 <= M <= 4095)%Z ->
  (Rabs (RV a) <= IZR M)%R -> (Rabs (RV b) <= IZR M)%R ->
  fin (interp a b t) /\ (Rabs (RV (interp a b t)) <= IZR (M + 1))%R.
Proof.
  intros Fa Fb Ft HT HM HA HB. unfold interp.
  apply Rabs_le_inv in HA. apply Rabs_le_inv in HB.
  assert (M1 : (IZR M <= 4095)%R) by (apply IZR_le; lia).
  assert (M1' : IZR (M + 1) = (IZR M + 1)%R) by (rewrite plus_IZR; reflexivity).
  (* d = b - a *)
  assert (HD : (Rabs (RV b - RV a) <= IZR 8192)%R) by (apply Rabs_le; lra).
  destruct (fsub_real b a 8192 Fb Fa ltac:(unfold small; lia) HD) as [Fd Vd].
  pose proof (rnd_err (RV b - RV a) HD) as Ed. rewrite <- Vd in Ed. apply Rabs_le_inv in Ed.
  destruct (rnd_small _ 8192 ltac:(unfold small; lia) HD) as [Bd _]. rewrite <- Vd in Bd. apply Rabs_le_inv in Bd.
  set (D := RV (fsub b a)) in *.
  (* p = d * t *)
  assert (HP : (Rabs (D * RV t) <= IZR 8192)%R) by (apply Rabs_le; nra).
  destruct (fmul_real (fsub b a) t 8192 Fd Ft ltac:(unfold small; lia) HP) as [Fp Vp].
  fold D in Vp.
  assert (GD : fmt D) by apply generic_format_B2R.
  assert (G0 : fmt 0%R) by apply generic_format_0.
  assert (BP : (Rmin 0 D <= RV (fmul (fsub b a) t) <= Rmax 0 D)%R).
  { rewrite Vp. destruct (Rle_or_lt 0 D) as [Hd|Hd].
    - rewrite Rmin_left, Rmax_right by lra. apply rnd_between; [exact G0|exact GD|nra].
    - rewrite Rmin_right, Rmax_left by lra. apply rnd_between; [exact GD|exact G0|nra]. }
  set (P := RV (fmul (fsub b a) t)) in *.
  (* s = a + p *)
  assert (HS : (Rabs (RV a + P) <= IZR (M + 1))%R).
  { rewrite M1'. apply Rabs_le. unfold Rmin, Rmax in BP.
    destruct (Rle_dec 0 D); lra. }
  assert (SM : small (M + 1)) by (unfold small; lia).
  destruct (fadd_real a (fmul (fsub b a) t) (M + 1) Fa Fp SM HS) as [Fs Vs].
  split; [exact Fs|]. rewrite Vs. apply (rnd_small _ (M + 1) SM HS).
Qed.
Print Assumptions interp_bound.

(* ---- valid_unit_divide ---- *)
Lemma unit_div_core n d :
  flt n f0 = false -> feq n f0 = false -> fge n d = false -> feq d f0 = false ->
  fis_nan (fdiv n d) = false -> feq (fdiv n d) f0 = false ->
  fin (fdiv n d) /\ (0 <= RV (fdiv n d) <= 1)%R.
Proof.
  rewrite f0_is_zero. intros H1 H2 H3 H4 H5 H6.
  destruct n as [s|s|s pl e|s m e Hb].
  - exfalso. destruct s; discriminate H2.
  - exfalso. destruct s; [discriminate H1|].
    destruct d as [sd|sd|sd pld ed|sd md ed Hd]; try destruct sd; try discriminate H3; discriminate H5.
  - exfalso. destruct d as [sd|sd|sd pld ed|sd md ed Hd]; discriminate H5.
  - destruct s; [exfalso; discriminate H1|].
    destruct d as [sd|sd|sd pld ed|sd md ed Hd].
    + exfalso. destruct sd; discriminate H4.
    + exfalso. destruct sd; [discriminate H3|discriminate H6].
    + exfalso. discriminate H5.
    + destruct sd; [exfalso; discriminate H3|].
      set (nn := B754_finite 24 128 false m e Hb) in *. set (dd := B754_finite 24 128 false md ed Hd) in *.
      assert (Fn : fin nn) by reflexivity. assert (Fd : fin dd) by reflexivity.
      assert (Pn : (0 < RV nn)%R) by (apply F2R_gt_0; cbn; lia).
      assert (Lt : (RV nn < RV dd)%R).
      { unfold fge, fcmp, b32_compare in H3. rewrite (Bcompare_correct 24 128 nn dd Fn Fd) in H3.
        destruct (Rcompare_spec (RV nn) (RV dd)) as [H|H|H]; try discriminate H3. exact H. }
      pose proof (Bdiv_correct 24 128 eq_refl eq_refl binop_nan_pl32 mode_NE nn dd ltac:(lra)) as H.
      change (Bdiv 24 128 eq_refl eq_refl binop_nan_pl32 mode_NE nn dd) with (fdiv nn dd) in H.
      assert (Q : (0 <= RV nn / RV dd <= 1)%R).
      { split.
        - apply Rlt_le, Rdiv_lt_0_compat; lra.
        - apply Rlt_le. apply (Rmult_lt_reg_r (RV dd)); [lra|]. unfold Rdiv. rewrite Rmult_assoc, Rinv_l by lra. lra. }
      assert (G1 : fmt 1%R) by (apply (gf_int 1); unfold small; lia).
      pose proof (rnd_between 0 1 _ (generic_format_0 _ _) G1 Q) as RB.
      rewrite Rlt_bool_true in H.
      * destruct H as (E1 & E2 & _). split; [rewrite E2; exact Fn|rewrite E1; exact RB].
      * rewrite Rabs_pos_eq by lra. apply Rle_lt_trans with 1%R; [lra|]. change 1%R with (bpow radix2 0). apply bpow_lt. lia.
Qed.

Lemma flt_fneg_false n : flt n f0 = true -> flt (fneg n) f0 = false.
Proof.
  unfold flt. rewrite fcmp_fneg_f0. destruct (fcmp n f0) as [[| |]|]; try discriminate. reflexivity.
Qed.

(* the parameter at which add_quad chops: a finite float in [0, 1] (whatever the arguments, NaN and infinities included) *)
Theorem valid_unit_divide_range n d t : valid_unit_divide n d = Some t -> fin t /\ (0 <= RV t <= 1)%R.
Proof.
  unfold valid_unit_divide.
  assert (K : forall n' d', flt n' f0 = false ->
    (if feq d' f0 || feq n' f0 || fge n' d' then None
     else let r := fdiv n' d' in if fis_nan r then None else if feq r f0 then None else Some r) = Some t ->
    fin t /\ (0 <= RV t <= 1)%R).
  { intros n' d' H1. destruct (feq d' f0) eqn:H4; [discriminate|]. destruct (feq n' f0) eqn:H2; [discriminate|].
    destruct (fge n' d') eqn:H3; [discriminate|]. cbn [orb]. cbv zeta.
    destruct (fis_nan (fdiv n' d')) eqn:H5; [discriminate|]. destruct (feq (fdiv n' d') f0) eqn:H6; [discriminate|].
    intros E. inversion E. subst t. apply unit_div_core; assumption. }
  destruct (flt n f0) eqn:E.
  - apply K. apply flt_fneg_false. exact E.
  - apply K. exact E.
Qed.
Print Assumptions valid_unit_divide_range.

(* ===================================================================================================== *)
(* Part 4: the tuples DrawTarget::add_quad hands to add_edge                                              *)
(* ===================================================================================================== *)
Open Scope Z_scope.

(* a device-space point in the working range: finite coordinates, |x| <= 3998 px (nothing else about y) *)
Definition pt_ok (q : pt) : Prop := fin (px q) /\ fin (py q) /\ (Rabs (RV (px q)) <= IZR 3998)%R.

Lemma pt_ok_3990 q : fin (px q) -> fin (py q) -> (Rabs (RV (px q)) <= 3990)%R -> pt_ok q.
Proof. intros A B C. split; [exact A|]. split; [exact B|]. lra. Qed.

Lemma x_ok x n : fin x -> (Rabs (RV x) <= IZR n)%R -> n <= 4000 -> Z.abs (f32_to_dot2 x) <= 16000.
Proof. intros F H Hn. pose proof (dot2_bound x n F H). lia. Qed.

Lemma pt_ok_x q : pt_ok q -> Z.abs (f32_to_dot2 (px q)) <= 16000.
Proof. intros (F & _ & B). apply (x_ok _ 3998 F B). lia. Qed.

(* ITEMS 3 and 5: both halves of a chopped quad.  Their control y IS the y of the joint (same float), so the y part is
   syntactic and holds for any y (NaN and infinities included); the x part uses interp_bound twice. *)
Theorem chop_quad_in_range p0 p1 p2 t : pt_ok p0 -> pt_ok p1 -> pt_ok p2 -> fin t -> (0 <= RV t <= 1)%R ->
  let '(d0, d1, d2, d3, d4) := chop_quad p0 p1 p2 t in
  arg_mono_in_range (edge_arg d0 d2 true d1) /\ arg_mono_in_range (edge_arg d2 d4 true d3).
Proof.
  intros (F0 & _ & B0) (F1 & _ & B1) (F2 & _ & B2) Ft HT. unfold chop_quad. cbv zeta.
  destruct (interp_bound (px p0) (px p1) t 3998 F0 F1 Ft HT ltac:(lia) B0 B1) as [Fab Bab].
  destruct (interp_bound (px p1) (px p2) t 3998 F1 F2 Ft HT ltac:(lia) B1 B2) as [Fbc Bbc].
  change (3998 + 1) with 3999 in Bab, Bbc.
  destruct (interp_bound _ _ t 3999 Fab Fbc Ft HT ltac:(lia) Bab Bbc) as [Fm Bm].
  change (3999 + 1) with 4000 in Bm.
  set (abx := interp (px p0) (px p1) t) in *. set (bcx := interp (px p1) (px p2) t) in *.
  set (mx := interp abx bcx t) in *.
  set (my := interp (interp (py p0) (py p1) t) (interp (py p1) (py p2) t) t).
  pose proof (x_ok _ 3998 F0 B0 ltac:(lia)). pose proof (x_ok _ 3998 F2 B2 ltac:(lia)).
  pose proof (x_ok _ 3999 Fab Bab ltac:(lia)). pose proof (x_ok _ 3999 Fbc Bbc ltac:(lia)).
  pose proof (x_ok _ 4000 Fm Bm ltac:(lia)).
  unfold edge_arg, arg_mono_in_range. cbn [px py fst snd].
  split; intros _; (split; [lia|]); repeat split; assumption.
Qed.

(* y-monotonicity alone needs only finite y coordinates (nothing about x; for the chopped and the forced branch nothing at all) *)
Definition arg_y_mono (a : edge_args) : Prop :=
  let '(swap, sx, sy, ex, ey, curve, cx, cy) := a in curve = true -> Z.min sy ey <= cy <= Z.max sy ey.

(* ITEM 3: no hypothesis *)
Theorem chop_quad_y_mono p0 p1 p2 t :
  let '(d0, d1, d2, d3, d4) := chop_quad p0 p1 p2 t in
  arg_y_mono (edge_arg d0 d2 true d1) /\ arg_y_mono (edge_arg d2 d4 true d3).
Proof. unfold chop_quad, edge_arg, arg_y_mono. cbv zeta. cbn [px py fst snd]. split; intros _; lia. Qed.

(* ITEM 4: no hypothesis *)
Theorem forced_control_y_mono p0 p2 x (sel : bool) :
  arg_y_mono (edge_arg p0 p2 true (x, if sel then py p0 else py p2)).
Proof. unfold edge_arg, arg_y_mono. cbn [px py fst snd]. intros _. destruct sel; lia. Qed.

Theorem quad_args_y_mono p0 p1 p2 : fin (py p0) -> fin (py p1) -> fin (py p2) ->
  forall a, In a (quad_args p0 p1 p2) -> arg_y_mono a.
Proof.
  intros G0 G1 G2 a. unfold quad_args. cbv zeta.
  destruct (is_not_monotonic (py p0) (py p1) (py p2)) eqn:E.
  - destruct (valid_unit_divide _ _) as [t|].
    + pose proof (chop_quad_y_mono p0 p1 p2 t) as C.
      destruct (chop_quad p0 p1 p2 t) as [[[[d0 d1] d2] d3] d4]. destruct C as [C1 C2].
      intros [<-|[<-|[]]]; assumption.
    + intros [<-|[]]. apply forced_control_y_mono.
  - intros [<-|[]]. unfold edge_arg, arg_y_mono. intros _. exact (unchopped_monotone _ _ _ G0 G1 G2 E).
Qed.
Print Assumptions quad_args_y_mono.

(* ITEMS 2, 3, 4, 5 together *)
Theorem quad_args_in_range p0 p1 p2 : pt_ok p0 -> pt_ok p1 -> pt_ok p2 ->
  forall a, In a (quad_args p0 p1 p2) -> arg_mono_in_range a.
Proof.
  intros K0 K1 K2 a. unfold quad_args. cbv zeta.
  pose proof (pt_ok_x _ K0) as X0. pose proof (pt_ok_x _ K1) as X1. pose proof (pt_ok_x _ K2) as X2.
  destruct (is_not_monotonic (py p0) (py p1) (py p2)) eqn:E.
  - destruct (valid_unit_divide _ _) as [t|] eqn:V.
    + destruct (valid_unit_divide_range _ _ _ V) as [Ft HT].
      pose proof (chop_quad_in_range p0 p1 p2 t K0 K1 K2 Ft HT) as C.
      destruct (chop_quad p0 p1 p2 t) as [[[[d0 d1] d2] d3] d4]. destruct C as [C1 C2].
      intros [<-|[<-|[]]]; assumption.
    + (* ITEM 4: the control y is forced onto an end point *)
      intros [<-|[]]. unfold edge_arg, arg_mono_in_range. cbn [px py fst snd]. intros _.
      destruct (flt _ _); (split; [lia|]); repeat split; assumption.
  - intros [<-|[]]. unfold edge_arg, arg_mono_in_range. intros _.
    destruct K0 as (_ & G0 & _), K1 as (_ & G1 & _), K2 as (_ & G2 & _).
    split; [exact (unchopped_monotone _ _ _ G0 G1 G2 E)|]. repeat split; assumption.
Qed.
Print Assumptions quad_args_in_range.

(* ===================================================================================================== *)
(* Part 5: paths and operations                                                                           *)
(* ===================================================================================================== *)

Definition quad_ok (q : pt * pt * pt) : Prop := let '(a, b, d) := q in pt_ok a /\ pt_ok b /\ pt_ok d.

(* every point apply_path uses, in device space, is finite with |x| <= 3998; the quads supplied for a cubic are already in
   device space (the second control point of a cubic is never used) *)
Definition op_in_xrange (t : xform) (o : pathop) : Prop :=
  match o with
  | MoveTo p | LineTo p => pt_ok (xf_point t p)
  | QuadTo c p => pt_ok (xf_point t c) /\ pt_ok (xf_point t p)
  | CubicTo c1 _ p quads => pt_ok (xf_point t c1) /\ pt_ok (xf_point t p) /\ Forall quad_ok quads
  | Close => True
  end.
Definition path_in_range (t : xform) (p : path) : Prop := Forall (op_in_xrange t) (p_ops p).

Lemma pt_ok_finite q : pt_ok q -> pt_finite q.
Proof. intros (A & B & _). split; assumption. Qed.
Lemma path_in_range_finite t p : path_in_range t p -> path_finite t p.
Proof.
  unfold path_in_range, path_finite. apply Forall_impl. intros o. destruct o; cbn [op_in_xrange op_finite]; intros H.
  - apply pt_ok_finite; exact H.
  - apply pt_ok_finite; exact H.
  - destruct H. split; apply pt_ok_finite; assumption.
  - destruct H as (A & B & _). split; apply pt_ok_finite; assumption.
  - exact I.
Qed.

Lemma line_in_range swap sx sy ex ey cx cy : arg_mono_in_range (swap, sx, sy, ex, ey, false, cx, cy).
Proof. unfold arg_mono_in_range. intros H. discriminate H. Qed.

Lemma quads_args_in_range quads : Forall quad_ok quads -> forall a, In a (quads_args quads) -> arg_mono_in_range a.
Proof.
  intros H a Hin. unfold quads_args in Hin. apply in_flat_map in Hin. destruct Hin as ([[q0 q1] q2] & Hq & Ha).
  rewrite Forall_forall in H. destruct (H _ Hq) as (K0 & K1 & K2). exact (quad_args_in_range q0 q1 q2 K0 K1 K2 a Ha).
Qed.

(* the cursor invariant *)
Definition ook (o : option pt) : Prop := match o with Some q => pt_ok q | None => True end.
Definition kok (k : pcur) : Prop := ook (fst k) /\ ook (snd k).
Definition all_in_range (l : list edge_args) : Prop := forall a, In a l -> arg_mono_in_range a.

Lemma a_close_ok k : kok k -> kok (fst (a_close k)) /\ all_in_range (snd (a_close k)).
Proof.
  intros [H1 H2]. unfold a_close. cbn [fst snd]. split; [split; exact H2|].
  intros a Hin. destruct (snd k); [destruct (fst k)|]; cbn [In] in Hin; try contradiction.
  destruct Hin as [<-|[]]. apply line_in_range.
Qed.
Lemma a_start_ok k p : kok k -> pt_ok p -> kok (a_start k p).
Proof.
  intros [H1 H2] Hp. unfold a_start. destruct (fst k) eqn:E; [split; [rewrite E; exact H1|exact H2]|split; exact Hp].
Qed.

Lemma a_op_ok t k o : kok k -> op_in_xrange t o -> kok (fst (a_op t k o)) /\ all_in_range (snd (a_op t k o)).
Proof.
  intros Hk Ho. destruct o as [p|p|c p|c1 c2 p quads|]; cbn [a_op op_in_xrange] in *.
  - destruct (a_close_ok k Hk) as [_ L]. destruct (a_close k) as [k1 l1]. unfold a_move. cbn [fst snd] in *.
    split; [split; exact Ho|]. rewrite app_nil_r. exact L.
  - unfold a_line. cbv zeta. pose proof (a_start_ok k _ Hk Ho) as [S1 S2].
    destruct (fst (a_start k (xf_point t p))) as [cp|] eqn:E; cbn [fst snd].
    + split; [split; [exact Ho|exact S2]|]. intros a [<-|[]]. apply line_in_range.
    + split; [split; [rewrite E; exact I|exact S2]|]. intros a [].
  - destruct Ho as [Hc Hp]. unfold a_quad. cbv zeta. pose proof (a_start_ok k _ Hk Hc) as [S1 S2].
    destruct (fst (a_start k (xf_point t c))) as [c0|] eqn:E; cbn [fst snd].
    + split; [split; [exact Hp|exact S2]|]. intros a Ha. exact (quad_args_in_range _ _ _ S1 Hc Hp a Ha).
    + split; [split; [rewrite E; exact I|exact S2]|]. intros a [].
  - destruct Ho as (Hc & Hp & Hq). unfold a_cubic. cbv zeta. pose proof (a_start_ok k _ Hk Hc) as [S1 S2].
    destruct (fst (a_start k (xf_point t c1))) as [c0|] eqn:E; cbn [fst snd].
    + split; [split; [exact Hp|exact S2]|]. exact (quads_args_in_range quads Hq).
    + split; [split; [rewrite E; exact I|exact S2]|]. intros a [].
  - apply a_close_ok. exact Hk.
Qed.

Lemma a_ops_ok t ops : Forall (op_in_xrange t) ops -> forall k, kok k ->
  kok (fst (a_ops t k ops)) /\ all_in_range (snd (a_ops t k ops)).
Proof.
  induction 1 as [|o r Ho Hr IH]; intros k Hk; cbn [a_ops].
  - split; [exact Hk|intros a []].
  - destruct (a_op_ok t k o Hk Ho) as [K1 L1]. destruct (a_op t k o) as [k1 l1]. cbn [fst snd] in *.
    destruct (IH k1 K1) as [K2 L2]. destruct (a_ops t k1 r) as [k2 l2]. cbn [fst snd] in *.
    split; [exact K2|]. intros a Ha. apply in_app_or in Ha. destruct Ha as [Ha|Ha]; [apply L1|apply L2]; exact Ha.
Qed.

(* ITEM 6 *)
Theorem path_args_in_range t p : path_in_range t p -> forall a, In a (path_args t p) -> arg_mono_in_range a.
Proof.
  intros H a Ha. unfold path_args in Ha.
  destruct (a_ops_ok t (p_ops p) H (None, None) (conj I I)) as [K L].
  destruct (a_ops t (None, None) (p_ops p)) as [k l]. cbn [fst snd] in *.
  apply in_app_or in Ha. destruct Ha as [Ha|Ha]; [exact (L a Ha)|]. exact (proj2 (a_close_ok k K) a Ha).
Qed.

Corollary path_args_no_wrap t p : path_in_range t p -> forall a, In a (path_args t p) -> no_slope_wrap a.
Proof. intros H a Ha. apply no_slope_wrap_in_range. exact (path_args_in_range t p H a Ha). Qed.

(* the geometric hypothesis on an operation: the filled / stroked path lies in the working range under the current transform *)
Definition op_geom_in_range (st : dt) (o : op) : Prop :=
  match o with
  | OpFill p _ _ | OpStroke p _ _ | OpFillPre p _ _ => path_in_range (d_ctm st) p
  | _ => True
  end.

Theorem op_no_wrap_in_range st o : op_geom_in_range st o -> op_no_wrap st o.
Proof.
  destruct o; cbn [op_geom_in_range op_no_wrap]; intros H; try exact I.
  - apply path_args_no_wrap; exact H.
  - apply path_args_no_wrap; exact H.
  - rewrite (path_args_pretransformed _ _ (path_in_range_finite _ _ H)). apply path_args_no_wrap; exact H.
Qed.

Theorem step_op_total_in_range st o : dt_wf st -> raster_ok st -> op_in_range st o -> op_geom_in_range st o ->
  (exists st', step_op st o = Ok st' /\ dt_wf st' /\ raster_ok st') \/
  step_op st o = Err PixelOverflow \/ step_op st o = Err DebugAssert.
Proof. intros W R Hr Hg. exact (step_op_total st o W R Hr (op_no_wrap_in_range st o Hg)). Qed.

Theorem step_op_total_separable_in_range st o :
  dt_wf st -> raster_ok st -> op_in_range st o -> op_geom_in_range st o -> op_separable st o ->
  exists st', step_op st o = Ok st' /\ dt_wf st' /\ raster_ok st'.
Proof. intros W R Hr Hg Hs. exact (step_op_total_separable st o W R Hr (op_no_wrap_in_range st o Hg) Hs). Qed.

(* programs: every operation inside its preconditions, its path in the working range in the state it is applied to *)
Fixpoint run_ok_geom (strict : bool) (st : dt) (ops : list op) : Prop :=
  match ops with
  | [] => True
  | o :: t => op_in_range st o /\ op_geom_in_range st o /\ (strict = true -> op_separable st o) /\
              forall st', step_op st o = Ok st' -> run_ok_geom strict st' t
  end.

Lemma run_ok_geom_nw strict ops : forall st, run_ok_geom strict st ops -> run_ok_nw strict st ops.
Proof.
  induction ops as [|o t IH]; intros st H; cbn [run_ok_geom run_ok_nw] in *; [exact I|].
  destruct H as (Hr & Hg & Hs & Hn). split; [exact Hr|]. split; [exact (op_no_wrap_in_range st o Hg)|]. split; [exact Hs|].
  intros st' E. apply IH. exact (Hn st' E).
Qed.

Theorem run_ops_total_in_range strict w h buf ops :
  0 <= w <= i32_max -> 0 <= h <= i32_max -> w * h <= i32_max -> zlen buf = w * h -> Forall px_ok buf ->
  run_ok_geom strict (dt_new w h buf) ops ->
  match run_ops (dt_new w h buf) ops with
  | Ok st' => dt_wf st' /\ raster_ok st' /\ all_premul st' /\ exists g, clip_inv st' g
  | Err e => strict = false /\ (e = PixelOverflow \/ e = DebugAssert)
  end.
Proof.
  intros Hw Hh Hwh Hl Hb Hok. apply run_ops_total; try assumption. apply run_ok_geom_nw. exact Hok.
Qed.
Print Assumptions path_args_in_range.
Print Assumptions op_no_wrap_in_range.
Print Assumptions step_op_total_in_range.
Print Assumptions step_op_total_separable_in_range.
Print Assumptions run_ops_total_in_range.

(* ===== non-vacuity: a path with a non-monotone quad (chopped into two curve edges) inside the range ===== *)
Lemma pt_ok_int a b : Z.abs a <= 3998 -> small b -> pt_ok (xf_point xf_identity (of_int a, of_int b)).
Proof.
  intros Ha Hb. assert (Sa : small a) by (unfold small; lia).
  destruct (ident_point_fint _ _ a b (of_int_fint a Sa) (of_int_fint b Hb) Sa Hb) as [[F1 V1] [F2 V2]].
  split; [exact F1|]. split; [exact F2|]. rewrite V1, <- abs_IZR. apply IZR_le. exact Ha.
Qed.

Definition ex_path : path :=
  mk_path [MoveTo (of_int 0, of_int 0); QuadTo (of_int 10, of_int 20) (of_int 20, of_int 0);
           QuadTo (of_int 30, of_int 0) (of_int 3998, of_int (-7)); LineTo (of_int (-3998), of_int 100000); Close] NonZero.
Example ex_path_in_range : path_in_range xf_identity ex_path.
Proof.
  unfold path_in_range, ex_path. cbn [p_ops].
  assert (K : forall a b, Z.abs a <= 3998 -> Z.abs b <= 1000000 -> pt_ok (xf_point xf_identity (of_int a, of_int b))).
  { intros a b Ha Hb. apply pt_ok_int; [exact Ha|unfold small; lia]. }
  apply Forall_cons; [apply K; lia|]. apply Forall_cons; [split; apply K; lia|].
  apply Forall_cons; [split; apply K; lia|]. apply Forall_cons; [apply K; lia|]. apply Forall_cons; [exact I|apply Forall_nil].
Qed.
Example ex_path_args :
  path_args xf_identity ex_path =
    [(false, 0, 0, 40, 40, true, 20, 40); (true, 40, 40, 80, 0, true, 60, 40); (true, 80, 0, 15992, -28, true, 120, 0);
     (false, 15992, -28, -15992, 400000, false, 0, 0); (true, -15992, 400000, 0, 0, false, 0, 0);
     (false, 0, 0, 0, 0, false, 0, 0)].
Proof. vm_compute. reflexivity. Qed.
Example ex_path_no_wrap : forall a, In a (path_args xf_identity ex_path) -> no_slope_wrap a.
Proof. exact (path_args_no_wrap _ _ ex_path_in_range). Qed.
