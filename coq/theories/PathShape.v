(* Structure of Path::flatten, PathBuilder and Path::transform (C16, C20).
   Everything here is list structure: no float operation is ever unfolded.

   C16  flatten_decomposition(_nth)   closed form of flatten_ops, op by op
        flatten_preserves_mlz         the MoveTo/LineTo/Close ops survive, in order, with identical points
        flatten_curve_ends_exactly    with an oracle whose lists end at the curve's end point, the path cursor after
                                      any prefix of the path is the same for the flattened and the original path
                                      (also stated on the cursor of DrawTarget::apply_path, under any transform)
        flatten_idempotent            flattening a flattened path changes nothing
        flatten_cursor_after_close    after Close the cursor is the subpath's start, for both paths, whatever follows
   C20  finish_returns_ops_in_call_order, arc_structure, transform_preserves_structure_strong *)
Require Import RQ.Base RQ.F32 RQ.Rect RQ.Raster RQ.PathF RQ.PathOps RQ.MiscProofs RQ.RasterGlue.

(* ================================================================================================== *)
(*                                              C16                                                   *)
(* ================================================================================================== *)

(* ---------- the cursor bookkeeping of Path::flatten: (current point, start of the subpath) ---------- *)
(* pcur (RasterGlue) = option pt * option pt is the same pair the fill side keeps *)
Definition fl_step (k : pcur) (o : pathop) : pcur :=
  match o with
  | MoveTo p => (Some p, Some p)
  | LineTo p => (Some p, match fst k with None => Some p | Some _ => snd k end)
  | Close => (snd k, snd k)
  | QuadTo c p => (Some p, match fst k with None => Some c | Some _ => snd k end)
  | CubicTo c1 _ p _ => (Some p, match fst k with None => Some c1 | Some _ => snd k end)
  end.
Definition fl_run (k : pcur) (ops : list pathop) : pcur := fold_left fl_step ops k.

Definition is_curve (o : pathop) : bool := negb (flat_op o).
Definition ncurves (ops : list pathop) : nat := length (filter is_curve ops).

(* what one op contributes to the flattened path, given the current point and lyon's points for it *)
Definition flat_of_op (cur : option pt) (o : pathop) (pts : list pt) : list pathop :=
  match o with
  | QuadTo c _ | CubicTo c _ _ _ => match cur with None => [LineTo c] | Some _ => [] end ++ map LineTo pts
  | _ => [o]
  end.

(* the contributions, op by op: a curve consumes the head of the oracle *)
Fixpoint flat_pieces (ops : list pathop) (oracle : list (list pt)) (k : pcur) : list (list pathop) :=
  match ops with
  | [] => []
  | o :: t => flat_of_op (fst k) o (hd [] oracle)
              :: flat_pieces t (if is_curve o then tl oracle else oracle) (fl_step k o)
  end.

Lemma fl_run_nil k : fl_run k [] = k.  Proof. reflexivity. Qed.
Lemma fl_run_cons k o t : fl_run k (o :: t) = fl_run (fl_step k o) t.  Proof. reflexivity. Qed.
Lemma fl_run_app k a b : fl_run k (a ++ b) = fl_run (fl_run k a) b.
Proof. apply fold_left_app. Qed.
Lemma pcur_eta (k : pcur) : (fst k, snd k) = k.  Proof. destruct k; reflexivity. Qed.

Lemma flat_pieces_length ops : forall oracle k, length (flat_pieces ops oracle k) = length ops.
Proof. induction ops as [|o t IH]; intros; cbn [flat_pieces length]; [reflexivity|]. rewrite IH. reflexivity. Qed.

(* 1. closed form of flatten_ops *)
Theorem flatten_decomposition ops : forall oracle cur start,
  flatten_ops ops oracle cur start = concat (flat_pieces ops oracle (cur, start)).
Proof.
  induction ops as [|o t IH]; intros oracle cur start; [reflexivity|].
  destruct o as [p|p|c p|c1 c2 p q|];
    cbn [flatten_ops flat_pieces concat flat_of_op fl_step is_curve flat_op negb fst snd app].
  - rewrite IH. reflexivity.
  - rewrite IH. reflexivity.
  - rewrite <- app_assoc, IH. reflexivity.
  - rewrite <- app_assoc, IH. reflexivity.
  - rewrite IH. reflexivity.
Qed.
Print Assumptions flatten_decomposition.

(* the same, index by index: op i contributes flat_of_op (cursor before op i) (op i) (oracle entry of op i),
   where the cursor before op i is fl_run over the first i ops and a curve's oracle entry is numbered by the
   curves before it *)
Definition curves_before (ops : list pathop) (i : nat) : nat := ncurves (firstn i ops).

Lemma nth_tl {A} (l : list A) k d : nth k (tl l) d = nth (S k) l d.
Proof. destruct l; [destruct k; reflexivity|reflexivity]. Qed.
Lemma hd_nth0 {A} (l : list A) d : hd d l = nth 0 l d.
Proof. destruct l; reflexivity. Qed.

Lemma flat_pieces_nth ops : forall oracle k,
  flat_pieces ops oracle k =
  map (fun i => flat_of_op (fst (fl_run k (firstn i ops))) (nth i ops Close) (nth (curves_before ops i) oracle []))
      (seq 0 (length ops)).
Proof.
  induction ops as [|o t IH]; intros oracle k; [reflexivity|].
  cbn [flat_pieces length seq map]. f_equal.
  - cbn [firstn fl_run fold_left nth]. unfold curves_before, ncurves. cbn [firstn filter length].
    rewrite hd_nth0. reflexivity.
  - rewrite IH, <- seq_shift, map_map. apply map_ext. intros i.
    cbn [firstn nth]. rewrite fl_run_cons. f_equal.
    unfold curves_before, ncurves. cbn [firstn filter].
    destruct (is_curve o); cbn [length]; [apply nth_tl|reflexivity].
Qed.

Theorem flatten_decomposition_nth ops oracle cur start :
  flatten_ops ops oracle cur start =
  concat (map (fun i => flat_of_op (fst (fl_run (cur, start) (firstn i ops))) (nth i ops Close)
                                   (nth (curves_before ops i) oracle []))
              (seq 0 (length ops))).
Proof. rewrite flatten_decomposition, flat_pieces_nth. reflexivity. Qed.
Print Assumptions flatten_decomposition_nth.

(* flatten_ops over a concatenation: the second part runs from the cursor the first part leaves, with the
   oracle entries the first part has not consumed *)
Lemma skipn_tl {A} n (l : list A) : skipn n (tl l) = skipn (S n) l.
Proof. destruct l; [destruct n; reflexivity|reflexivity]. Qed.

Lemma flatten_ops_app a : forall b oracle cur start,
  flatten_ops (a ++ b) oracle cur start =
  flatten_ops a oracle cur start ++
  flatten_ops b (skipn (ncurves a) oracle) (fst (fl_run (cur, start) a)) (snd (fl_run (cur, start) a)).
Proof.
  induction a as [|o t IH]; intros b oracle cur start; [reflexivity|].
  destruct o as [p|p|c p|c1 c2 p q|];
    cbn [app flatten_ops]; rewrite fl_run_cons; unfold ncurves;
    cbn [filter is_curve flat_op negb length fl_step fst snd]; fold (ncurves t).
  - rewrite IH. reflexivity.
  - rewrite IH. reflexivity.
  - rewrite IH, skipn_tl, <- !app_assoc. reflexivity.
  - rewrite IH, skipn_tl, <- !app_assoc. reflexivity.
  - rewrite IH. reflexivity.
Qed.

Lemma curve_starts_app a : forall b cur start,
  curve_starts (a ++ b) cur start =
  curve_starts a cur start ++ curve_starts b (fst (fl_run (cur, start) a)) (snd (fl_run (cur, start) a)).
Proof.
  induction a as [|o t IH]; intros b cur start; [reflexivity|].
  destruct o as [p|p|c p|c1 c2 p q|]; cbn [app curve_starts]; rewrite fl_run_cons; cbn [fl_step fst snd];
    rewrite IH; reflexivity.
Qed.

(* the start handed to lyon for a curve is the current point of fl_run (or the control point when there is none) *)
Lemma curve_starts_cons o t cur start :
  curve_starts (o :: t) cur start =
  match o with
  | QuadTo c _ | CubicTo c _ _ _ => [match cur with Some s => s | None => c end]
  | _ => []
  end ++ curve_starts t (fst (fl_step (cur, start) o)) (snd (fl_step (cur, start) o)).
Proof. destruct o; reflexivity. Qed.

(* ---------- 2. the MoveTo / LineTo / Close ops are preserved ---------- *)
(* the flattened path with every op tagged: true = it comes from a curve *)
Definition flat_tagged (ops : list pathop) (oracle : list (list pt)) (k : pcur) : list (bool * pathop) :=
  flat_map (fun op_piece => map (pair (is_curve (fst op_piece))) (snd op_piece))
           (combine ops (flat_pieces ops oracle k)).

Lemma flat_tagged_cons o t oracle k :
  flat_tagged (o :: t) oracle k =
  map (pair (is_curve o)) (flat_of_op (fst k) o (hd [] oracle))
  ++ flat_tagged t (if is_curve o then tl oracle else oracle) (fl_step k o).
Proof. reflexivity. Qed.

Lemma map_snd_pair {A B} (b : A) (l : list B) : map snd (map (pair b) l) = l.
Proof. rewrite map_map. cbn [snd]. apply map_id. Qed.

Lemma flat_tagged_erase ops : forall oracle k,
  map snd (flat_tagged ops oracle k) = concat (flat_pieces ops oracle k).
Proof.
  induction ops as [|o t IH]; intros oracle k; [reflexivity|].
  rewrite flat_tagged_cons, map_app, map_snd_pair, IH. reflexivity.
Qed.

Lemma filter_untagged {B} (b : bool) (l : list B) :
  filter (fun x : bool * B => negb (fst x)) (map (pair b) l) = if b then [] else map (pair b) l.
Proof. induction l as [|a l IH]; [destruct b; reflexivity|]. cbn [map filter fst]. rewrite IH. destruct b; reflexivity. Qed.

Theorem flatten_preserves_mlz ops oracle cur start :
  (* the tags can be erased: the tagged list is the flattened path *)
  map snd (flat_tagged ops oracle (cur, start)) = flatten_ops ops oracle cur start /\
  (* dropping what the curves contributed leaves the input's MoveTo / LineTo / Close ops, in order, unchanged *)
  map snd (filter (fun x => negb (fst x)) (flat_tagged ops oracle (cur, start))) = filter flat_op ops /\
  (* and what the curves contributed are LineTo ops *)
  (forall x, In x (flat_tagged ops oracle (cur, start)) -> fst x = true -> exists p, snd x = LineTo p).
Proof.
  split; [rewrite flat_tagged_erase, flatten_decomposition; reflexivity|]. split.
  - generalize (cur, start) as k. revert oracle. clear cur start.
    induction ops as [|o t IH]; intros oracle k; [reflexivity|].
    rewrite flat_tagged_cons, filter_app, map_app, IH, filter_untagged.
    destruct o; cbn [is_curve flat_op negb filter flat_of_op map snd app]; reflexivity.
  - generalize (cur, start) as k. revert oracle. clear cur start.
    induction ops as [|o t IH]; intros oracle k x Hin Hx; [destruct Hin|].
    rewrite flat_tagged_cons in Hin. apply in_app_or in Hin. destruct Hin as [Hin|Hin]; [|eapply IH; eassumption].
    apply in_map_iff in Hin. destruct Hin as (op & <- & Hop). cbn [fst snd] in *.
    destruct o; cbn [is_curve flat_op negb] in Hx; try discriminate Hx; cbn [flat_of_op] in Hop;
      (apply in_app_or in Hop; destruct Hop as [Hop|Hop];
       [destruct (fst k); [destruct Hop|destruct Hop as [<-|[]]; eauto]
       |apply in_map_iff in Hop; destruct Hop as (p' & <- & _); eauto]).
Qed.
Print Assumptions flatten_preserves_mlz.

(* the same as a subsequence statement that does not mention the tags *)
Inductive subseq {A : Type} : list A -> list A -> Prop :=
  | ss_nil : forall l, subseq [] l
  | ss_keep : forall a l1 l2, subseq l1 l2 -> subseq (a :: l1) (a :: l2)
  | ss_skip : forall a l1 l2, subseq l1 l2 -> subseq l1 (a :: l2).

Lemma subseq_skip_app {A} (pre l1 l2 : list A) : subseq l1 l2 -> subseq l1 (pre ++ l2).
Proof. intros H. induction pre as [|a pre IH]; [exact H|]. cbn [app]. apply ss_skip, IH. Qed.

Theorem flatten_mlz_subseq ops : forall oracle cur start,
  subseq (filter flat_op ops) (flatten_ops ops oracle cur start).
Proof.
  induction ops as [|o t IH]; intros oracle cur start; [apply ss_nil|].
  destruct o; cbn [filter flat_op flatten_ops]; try (apply ss_keep, IH).
  - apply subseq_skip_app, subseq_skip_app, IH.
  - apply subseq_skip_app, subseq_skip_app, IH.
Qed.

(* ---------- 3. the cursor after a curve ---------- *)
(* hypothesis on the oracle: the list for every curve is non-empty and ends with the curve's end point
   (lyon's Flattened iterator always ends with `to`) *)
Fixpoint oracle_ends_ok (ops : list pathop) (oracle : list (list pt)) : Prop :=
  match ops with
  | [] => True
  | QuadTo _ p :: t | CubicTo _ _ p _ :: t =>
      (exists pre, hd [] oracle = pre ++ [p]) /\ oracle_ends_ok t (tl oracle)
  | _ :: t => oracle_ends_ok t oracle
  end.

Lemma fl_run_lines l : forall k a p, fst k = Some a -> fl_run k (map LineTo (l ++ [p])) = (Some p, snd k).
Proof.
  induction l as [|x l IH]; intros k a p Hk.
  - cbn [app map fl_run fold_left fl_step]. rewrite Hk. reflexivity.
  - cbn [app map]. rewrite fl_run_cons. rewrite (IH _ x p) by reflexivity.
    cbn [fl_step snd]. rewrite Hk. reflexivity.
Qed.

(* one op: running the cursor over its contribution = stepping the cursor over the op *)
Lemma fl_run_flat_of_op k o pts :
  (match o with QuadTo _ p | CubicTo _ _ p _ => exists pre, pts = pre ++ [p] | _ => True end) ->
  fl_run k (flat_of_op (fst k) o pts) = fl_step k o.
Proof.
  intros H. destruct o as [p|p|c p|c1 c2 p q|]; try reflexivity; cbn [flat_of_op].
  - destruct H as (pre & ->). destruct (fst k) as [a|] eqn:Ek; cbn [app].
    + rewrite (fl_run_lines pre k a p Ek). cbn [fl_step]. rewrite Ek. reflexivity.
    + rewrite fl_run_cons. rewrite (fl_run_lines pre _ c p) by reflexivity.
      cbn [fl_step snd]. rewrite Ek. reflexivity.
  - destruct H as (pre & ->). destruct (fst k) as [a|] eqn:Ek; cbn [app].
    + rewrite (fl_run_lines pre k a p Ek). cbn [fl_step]. rewrite Ek. reflexivity.
    + rewrite fl_run_cons. rewrite (fl_run_lines pre _ c1 p) by reflexivity.
      cbn [fl_step snd]. rewrite Ek. reflexivity.
Qed.

Lemma flat_pieces_cursor_agrees ops : forall oracle k, oracle_ends_ok ops oracle ->
  fl_run k (concat (flat_pieces ops oracle k)) = fl_run k ops.
Proof.
  induction ops as [|o t IH]; intros oracle k H; [reflexivity|].
  cbn [flat_pieces concat]. rewrite fl_run_app, fl_run_cons. rewrite fl_run_flat_of_op.
  - apply IH. destruct o; cbn [oracle_ends_ok is_curve flat_op negb] in *; try exact H; apply H.
  - destruct o; cbn [oracle_ends_ok] in H; try exact I; apply H.
Qed.
Lemma flatten_cursor_agrees ops oracle k : oracle_ends_ok ops oracle ->
  fl_run k (flatten_ops ops oracle (fst k) (snd k)) = fl_run k ops.
Proof. intros H. rewrite flatten_decomposition, pcur_eta. apply flat_pieces_cursor_agrees, H. Qed.

Lemma oracle_ends_ok_app a : forall b oracle,
  oracle_ends_ok (a ++ b) oracle <-> oracle_ends_ok a oracle /\ oracle_ends_ok b (skipn (ncurves a) oracle).
Proof.
  induction a as [|o t IH]; intros b oracle; [cbn; tauto|].
  destruct o; cbn [app oracle_ends_ok]; unfold ncurves; cbn [filter is_curve flat_op negb length]; fold (ncurves t);
    rewrite ?IH, ?skipn_tl; tauto.
Qed.

(* the cursor DrawTarget::apply_path keeps (RasterGlue: c_op on the real cursor, a_op on the pair) is fl_step on
   transformed points *)
Definition xf_pcur (t : xform) (k : pcur) : pcur := (option_map (xf_point t) (fst k), option_map (xf_point t) (snd k)).

Lemma a_op_cursor t k o : fst (a_op t (xf_pcur t k) o) = xf_pcur t (fl_step k o).
Proof.
  destruct k as [cu fi]. destruct o as [p|p|c p|c1 c2 p q|]; unfold xf_pcur; cbn [a_op fl_step fst snd].
  - unfold a_close, a_move. cbn [fst snd]. reflexivity.
  - unfold a_line, a_start. cbn [fst snd]. destruct cu; cbn [option_map fst snd]; reflexivity.
  - unfold a_quad, a_start. cbn [fst snd]. destruct cu; cbn [option_map fst snd]; reflexivity.
  - unfold a_cubic, a_start. cbn [fst snd]. destruct cu; cbn [option_map fst snd]; reflexivity.
  - unfold a_close. cbn [fst snd]. reflexivity.
Qed.
Lemma a_ops_cursor t ops : forall k, fst (a_ops t (xf_pcur t k) ops) = xf_pcur t (fl_run k ops).
Proof.
  induction ops as [|o r IH]; intros k; [reflexivity|].
  cbn [a_ops]. rewrite fl_run_cons. pose proof (a_op_cursor t k o) as H1.
  destruct (a_op t (xf_pcur t k) o) as [k1 l1]. cbn [fst] in H1. subst k1.
  pose proof (IH (fl_step k o)) as H2. destruct (a_ops t (xf_pcur t (fl_step k o)) r) as [k2 l2].
  cbn [fst] in *. exact H2.
Qed.

(* the cursor of the fill side after the ops of a path, from the reset cursor apply_path starts with *)
Theorem fill_cursor_is_fl_run t ops r :
  let c := fold_left (c_op t) ops (mk_cursor None None r) in
  cur c = option_map (xf_point t) (fst (fl_run (None, None) ops)) /\
  first c = option_map (xf_point t) (snd (fl_run (None, None) ops)).
Proof.
  cbv zeta.
  destruct (c_ops_sim t ops (mk_cursor None None r) (xf_pcur t (None, None)) (conj eq_refl eq_refl)) as [[Hc Hf] _].
  rewrite a_ops_cursor in Hc, Hf. exact (conj Hc Hf).
Qed.

(* 3. main statement.  Split the path anywhere (in particular right after a curve): the flattened path splits at
   the corresponding place, the two cursors agree there - for the bookkeeping of Path::flatten (which is also what
   hands lyon its segment starts, curve_starts) and for the cursor of DrawTarget::apply_path under any transform -
   and so the rest of the path is flattened from, and drawn from, the same point in both *)
Theorem flatten_curve_ends_exactly pre post oracle :
  oracle_ends_ok (pre ++ post) oracle ->
  let fpre := flatten_ops pre oracle None None in
  let k := fl_run (None, None) pre in
  flatten_ops (pre ++ post) oracle None None = fpre ++ flatten_ops post (skipn (ncurves pre) oracle) (fst k) (snd k) /\
  fl_run (None, None) fpre = k /\
  (forall t r r', let c := fold_left (c_op t) fpre (mk_cursor None None r) in
                  let c' := fold_left (c_op t) pre (mk_cursor None None r') in
                  cur c = cur c' /\ first c = first c') /\
  curve_starts (pre ++ post) None None = curve_starts pre None None ++ curve_starts post (fst k) (snd k).
Proof.
  intros H. cbv zeta. apply oracle_ends_ok_app in H. destruct H as [Hpre _].
  assert (E : fl_run (None, None) (flatten_ops pre oracle None None) = fl_run (None, None) pre)
    by exact (flatten_cursor_agrees pre oracle (None, None) Hpre).
  split; [apply flatten_ops_app|]. split; [exact E|]. split; [|apply curve_starts_app].
  intros t r r'.
  destruct (fill_cursor_is_fl_run t (flatten_ops pre oracle None None) r) as [A1 A2].
  destruct (fill_cursor_is_fl_run t pre r') as [B1 B2]. cbv zeta in *.
  rewrite A1, A2, B1, B2, E. split; reflexivity.
Qed.
Print Assumptions flatten_curve_ends_exactly.

(* the instance the name refers to: right after a curve op the cursor is the curve's end point in both paths *)
Lemma is_curve_end o : is_curve o = true -> exists p, forall k, fst (fl_step k o) = Some p.
Proof. destruct o; try discriminate; intros _; eexists; intros k; reflexivity. Qed.
Definition op_end (o : pathop) : option pt :=
  match o with MoveTo p | LineTo p | QuadTo _ p | CubicTo _ _ p _ => Some p | Close => None end.

Corollary flatten_cursor_after_curve pre o post oracle :
  is_curve o = true -> oracle_ends_ok (pre ++ o :: post) oracle ->
  fst (fl_run (None, None) (flatten_ops (pre ++ [o]) oracle None None)) = op_end o /\
  fst (fl_run (None, None) (pre ++ [o])) = op_end o /\
  snd (fl_run (None, None) (flatten_ops (pre ++ [o]) oracle None None)) = snd (fl_run (None, None) (pre ++ [o])).
Proof.
  intros Hc H. replace (pre ++ o :: post) with ((pre ++ [o]) ++ post) in H by (rewrite <- app_assoc; reflexivity).
  destruct (flatten_curve_ends_exactly _ _ _ H) as (_ & E & _). cbv zeta in E. rewrite E.
  rewrite fl_run_app. cbn [fl_run fold_left]. destruct o; try discriminate Hc; repeat split; reflexivity.
Qed.

(* ---------- 4. idempotence ---------- *)
Theorem flatten_idempotent ops oracle cur start oracle' cur' start' :
  flatten_ops (flatten_ops ops oracle cur start) oracle' cur' start' = flatten_ops ops oracle cur start.
Proof. apply flatten_flat_identity, flatten_only_lines. Qed.
Corollary flatten_idempotent_path p oracle oracle' : flatten (flatten p oracle) oracle' = flatten p oracle.
Proof. unfold flatten. cbn [p_ops p_winding]. rewrite flatten_idempotent. reflexivity. Qed.
Print Assumptions flatten_idempotent_path.

(* ---------- 5. the cursor after Close ---------- *)
Definition not_moveto (o : pathop) : bool := match o with MoveTo _ => false | _ => true end.

(* after MoveTo s and any ops other than MoveTo the subpath start is s (and there is a current point) *)
Lemma fl_run_start_kept mid : forall a s, forallb not_moveto mid = true ->
  exists b, fl_run (Some a, Some s) mid = (Some b, Some s).
Proof.
  induction mid as [|o t IH]; intros a s H; [eexists; reflexivity|].
  cbn [forallb] in H. apply andb_prop in H. destruct H as [Ho Ht]. rewrite fl_run_cons.
  destruct o as [p|p|c p|c1 c2 p q|]; try discriminate Ho; cbn [fl_step fst snd]; apply IH; exact Ht.
Qed.
Lemma subpath_start pre0 s mid k : forallb not_moveto mid = true ->
  exists b, fl_run k (pre0 ++ MoveTo s :: mid) = (Some b, Some s).
Proof. intros H. rewrite fl_run_app, fl_run_cons. cbn [fl_step]. apply fl_run_start_kept, H. Qed.

Theorem flatten_cursor_after_close pre0 s mid rest oracle :
  forallb not_moveto mid = true ->
  let pre := pre0 ++ MoveTo s :: mid in
  (* the bookkeeping of Path::flatten: after Close the current point is s, whatever follows *)
  fl_run (None, None) (pre ++ [Close]) = (Some s, Some s) /\
  flatten_ops (pre ++ Close :: rest) oracle None None =
    flatten_ops pre oracle None None ++ Close :: flatten_ops rest (skipn (ncurves pre) oracle) (Some s) (Some s) /\
  curve_starts (pre ++ Close :: rest) None None = curve_starts pre None None ++ curve_starts rest (Some s) (Some s) /\
  (* the same cursor when filling, under any transform *)
  (forall t r, let c := fold_left (c_op t) (pre ++ [Close]) (mk_cursor None None r) in
               cur c = Some (xf_point t s) /\ first c = Some (xf_point t s)) /\
  (* and the flattened path is in the same state at that place *)
  (oracle_ends_ok pre oracle ->
   fl_run (None, None) (flatten_ops (pre ++ [Close]) oracle None None) = (Some s, Some s) /\
   forall t r, let c := fold_left (c_op t) (flatten_ops (pre ++ [Close]) oracle None None) (mk_cursor None None r) in
               cur c = Some (xf_point t s) /\ first c = Some (xf_point t s)).
Proof.
  intros Hmid pre.
  destruct (subpath_start pre0 s mid (None, None) Hmid) as [b Hb]. fold pre in Hb.
  assert (E : fl_run (None, None) (pre ++ [Close]) = (Some s, Some s)).
  { rewrite fl_run_app, Hb. reflexivity. }
  split; [exact E|]. split; [|split; [|split]].
  - rewrite flatten_ops_app, Hb. reflexivity.
  - rewrite curve_starts_app, Hb. reflexivity.
  - intros t r. destruct (fill_cursor_is_fl_run t (pre ++ [Close]) r) as [A1 A2]. cbv zeta in *.
    rewrite A1, A2, E. split; reflexivity.
  - intros Hok.
    assert (E' : fl_run (None, None) (flatten_ops (pre ++ [Close]) oracle None None) = (Some s, Some s)).
    { rewrite <- E. apply (flatten_cursor_agrees (pre ++ [Close]) oracle (None, None)).
      apply oracle_ends_ok_app. split; [exact Hok|exact I]. }
    split; [exact E'|]. intros t r.
    destruct (fill_cursor_is_fl_run t (flatten_ops (pre ++ [Close]) oracle None None) r) as [A1 A2]. cbv zeta in *.
    rewrite A1, A2, E'. split; reflexivity.
Qed.
Print Assumptions flatten_cursor_after_close.

(* without the MoveTo: whatever precedes, after Close the current point is the subpath start of the bookkeeping,
   and the next op of either path starts there *)
Theorem flatten_cursor_after_close_any pre rest oracle :
  let k := fl_run (None, None) pre in
  fl_run (None, None) (pre ++ [Close]) = (snd k, snd k) /\
  flatten_ops (pre ++ Close :: rest) oracle None None =
    flatten_ops pre oracle None None ++ Close :: flatten_ops rest (skipn (ncurves pre) oracle) (snd k) (snd k) /\
  curve_starts (pre ++ Close :: rest) None None = curve_starts pre None None ++ curve_starts rest (snd k) (snd k) /\
  (oracle_ends_ok pre oracle -> fl_run (None, None) (flatten_ops (pre ++ [Close]) oracle None None) = (snd k, snd k)).
Proof.
  cbv zeta. assert (E : fl_run (None, None) (pre ++ [Close]) = (snd (fl_run (None, None) pre), snd (fl_run (None, None) pre))).
  { rewrite fl_run_app. reflexivity. }
  split; [exact E|]. split; [|split].
  - rewrite flatten_ops_app. reflexivity.
  - rewrite curve_starts_app. reflexivity.
  - intros Hok. rewrite <- E. apply (flatten_cursor_agrees (pre ++ [Close]) oracle (None, None)).
    apply oracle_ends_ok_app. split; [exact Hok|exact I].
Qed.

(* ================================================================================================== *)
(*                                              C20                                                   *)
(* ================================================================================================== *)
From Flocq Require Import IEEE754.Binary IEEE754.Bits.

(* ---------- 6. PathBuilder as a fold over its calls ---------- *)
(* PathBuilder { path }: every method pushes onto path.ops; finish returns path.  PathBuilder::new() starts from
   the empty NonZero path, PathBuilder::from(path) from a given one. *)
Definition b_new : path := mk_path [] NonZero.
Definition b_push (b : path) (o : pathop) : path := mk_path (p_ops b ++ [o]) (p_winding b).
Definition b_move_to (b : path) (x y : f32) : path := b_push b (MoveTo (x, y)).
Definition b_line_to (b : path) (x y : f32) : path := b_push b (LineTo (x, y)).
Definition b_quad_to (b : path) (cx cy x y : f32) : path := b_push b (QuadTo (cx, cy) (x, y)).
(* the model's CubicTo carries, as a fourth field, data the harness attaches to the op (lyon's quadratic pieces of
   the transformed cubic); PathBuilder::cubic_to does not look at it: it is passed through *)
Definition b_cubic_to (b : path) (cx1 cy1 cx2 cy2 x y : f32) (q : list (pt * pt * pt)) : path :=
  b_push b (CubicTo (cx1, cy1) (cx2, cy2) (x, y) q).
Definition b_close (b : path) : path := b_push b Close.
Definition b_rect (b : path) (x y w h : f32) : path :=
  let b := b_move_to b x y in
  let b := b_line_to b (fadd x w) y in
  let b := b_line_to b (fadd x w) (fadd y h) in
  let b := b_line_to b x (fadd y h) in
  b_close b.
(* PathBuilder::arc given what lyon returned: Arc::from() and the (ctrl, to) of for_each_quadratic_bezier *)
Definition b_arc_with (b : path) (from : pt) (quads : list (pt * pt)) : path :=
  fold_left (fun b q => b_quad_to b (px (fst q)) (py (fst q)) (px (snd q)) (py (snd q))) quads
            (b_line_to b (px from) (py from)).
Definition b_finish (b : path) : path := b.

Inductive bcall :=
  | BMoveTo (x y : f32)
  | BLineTo (x y : f32)
  | BQuadTo (cx cy x y : f32)
  | BCubicTo (cx1 cy1 cx2 cy2 x y : f32) (q : list (pt * pt * pt))
  | BClose
  | BRect (x y w h : f32)
  | BArc (x y r start sweep : f32).

Definition arc_ops_with (from : pt) (quads : list (pt * pt)) : list pathop :=
  LineTo from :: map (fun q => QuadTo (fst q) (snd q)) quads.

Section Builder.
  (* lyon's part of PathBuilder::arc: x y r start sweep |-> (Arc::from(), the quadratic pieces) *)
  Variable lyon_arc : f32 -> f32 -> f32 -> f32 -> f32 -> pt * list (pt * pt).

  Definition b_call (b : path) (c : bcall) : path :=
    match c with
    | BMoveTo x y => b_move_to b x y
    | BLineTo x y => b_line_to b x y
    | BQuadTo cx cy x y => b_quad_to b cx cy x y
    | BCubicTo cx1 cy1 cx2 cy2 x y q => b_cubic_to b cx1 cy1 cx2 cy2 x y q
    | BClose => b_close b
    | BRect x y w h => b_rect b x y w h
    | BArc x y r s w => let '(from, quads) := lyon_arc x y r s w in b_arc_with b from quads
    end.
  (* the ops one call appends *)
  Definition call_ops (c : bcall) : list pathop :=
    match c with
    | BMoveTo x y => [MoveTo (x, y)]
    | BLineTo x y => [LineTo (x, y)]
    | BQuadTo cx cy x y => [QuadTo (cx, cy) (x, y)]
    | BCubicTo cx1 cy1 cx2 cy2 x y q => [CubicTo (cx1, cy1) (cx2, cy2) (x, y) q]
    | BClose => [Close]
    | BRect x y w h => builder_rect x y w h
    | BArc x y r s w => let '(from, quads) := lyon_arc x y r s w in arc_ops_with from quads
    end.
  Definition b_run (b : path) (calls : list bcall) : path := b_finish (fold_left b_call calls b).

  Lemma pt_eta (p : pt) : (px p, py p) = p.  Proof. destruct p; reflexivity. Qed.

  Lemma b_arc_with_ops quads : forall b from,
    b_arc_with b from quads = mk_path (p_ops b ++ arc_ops_with from quads) (p_winding b).
  Proof.
    unfold b_arc_with, arc_ops_with.
    induction quads as [|q t IH] using rev_ind; intros b from.
    - cbn [fold_left map]. unfold b_line_to, b_push. rewrite pt_eta. reflexivity.
    - rewrite fold_left_app. cbn [fold_left]. rewrite IH. unfold b_quad_to, b_push. cbn [p_ops p_winding].
      rewrite !pt_eta, map_app, <- app_assoc. reflexivity.
  Qed.

  Lemma b_call_appends b c : b_call b c = mk_path (p_ops b ++ call_ops c) (p_winding b).
  Proof.
    destruct c; cbn [b_call call_ops]; try reflexivity.
    - unfold b_rect, b_close, b_line_to, b_move_to, b_push, builder_rect. cbn [p_ops p_winding].
      rewrite <- !app_assoc. reflexivity.
    - destruct (lyon_arc x y r start sweep) as [from quads]. apply b_arc_with_ops.
  Qed.

  Lemma b_run_appends calls : forall b,
    b_run b calls = mk_path (p_ops b ++ flat_map call_ops calls) (p_winding b).
  Proof.
    unfold b_run, b_finish. induction calls as [|c t IH]; intros b.
    - cbn [fold_left flat_map]. rewrite app_nil_r. destruct b; reflexivity.
    - cbn [fold_left flat_map]. rewrite IH, b_call_appends. cbn [p_ops p_winding]. rewrite app_assoc. reflexivity.
  Qed.

  (* PathBuilder::new(), calls, finish(): the ops of the calls in call order, winding NonZero *)
  Theorem finish_returns_ops_in_call_order calls :
    p_ops (b_run b_new calls) = flat_map call_ops calls /\ p_winding (b_run b_new calls) = NonZero.
  Proof. rewrite b_run_appends. split; reflexivity. Qed.
  (* PathBuilder::from(path): the path's ops first, then the calls; the path's winding rule is kept *)
  Theorem finish_from_path p calls :
    p_ops (b_run p calls) = p_ops p ++ flat_map call_ops calls /\ p_winding (b_run p calls) = p_winding p.
  Proof. rewrite b_run_appends. split; reflexivity. Qed.
  (* calls made one after the other: each call only appends, nothing already pushed is changed *)
  Theorem builder_calls_compose p calls1 calls2 : b_run p (calls1 ++ calls2) = b_run (b_run p calls1) calls2.
  Proof. unfold b_run, b_finish. apply fold_left_app. Qed.
End Builder.
Print Assumptions finish_returns_ops_in_call_order.

(* ---------- 7. PathBuilder::arc: lyon_geom 1.0.19 Arc (x_rotation = 0) transcribed ---------- *)
(* f32::signum *)
Definition fsignum (x : f32) : f32 :=
  match x with
  | B754_nan _ _ _ _ _ => x
  | _ => if Bsign 24 128 x then fneg f1 else f1
  end.
(* f32::ceil as an integer, for 0 <= x < 2^24 (here x <= 8) *)
Definition fceil_z (x : f32) : Z :=
  match ftrunc x with Some v => if flt (of_int v) x then v + 1 else v | None => 0 end.

Definition f_pi : f32 := of_bits 1078530011.          (* std::f32::consts::PI        0x40490fdb *)
Definition f_frac_pi_4 : f32 := of_bits 1061752795.   (* std::f32::consts::FRAC_PI_4 0x3f490fdb *)
Definition f_two_pi : f32 := fmul f_pi (of_int 2).    (* S::PI() * S::TWO *)

Section LyonArc.
  (* libm's sinf, cosf, tanf: oracles *)
  Variables fsin fcos ftan : f32 -> f32.

  (* euclid Rotation2D::new(Angle::zero()).transform_point: sin_cos(0.0) = (0.0, 1.0) *)
  Definition rot0 (p : pt) : pt :=
    (fsub (fmul (px p) f1) (fmul (py p) f0), fadd (fmul (py p) f1) (fmul (px p) f0)).
  (* sample_ellipse(radii = (r, r), x_rotation = 0, angle) *)
  Definition sample_ellipse0 (r a : f32) : pt := rot0 (fmul r (fcos a), fmul r (fsin a)).
  (* Arc::tangent_at_angle *)
  Definition tangent0 (r a : f32) : pt := rot0 (fmul (fneg r) (fsin a), fmul r (fcos a)).
  (* center + sample_ellipse(..).to_vector(): the point of the arc at angle a, as lyon computes it *)
  Definition arc_point (x y r a : f32) : pt := padd (x, y) (sample_ellipse0 r a).
  (* Arc::from() = sample(0.0): the angle is start_angle + sweep_angle * 0.0 *)
  Definition arc_from (x y r start sweep : f32) : pt := arc_point x y r (fadd start (fmul sweep f0)).

  (* arc_to_quadratic_beziers_with_t *)
  Definition arc_sweep_abs (sweep : f32) : f32 := fmin (fabs sweep) f_two_pi.   (* clamped to one full turn *)
  Definition arc_nsteps (sweep : f32) : Z := fceil_z (fdiv (arc_sweep_abs sweep) f_frac_pi_4).
  Definition arc_step (sweep : f32) : f32 :=
    fmul (fdiv (arc_sweep_abs sweep) (of_int (arc_nsteps sweep))) (fsignum sweep).
  Definition arc_angle (start sweep : f32) (i : Z) : f32 := fadd start (fmul (arc_step sweep) (of_int i)).
  Definition arc_alpha (sweep : f32) : f32 := ftan (fmul (arc_step sweep) fhalf).
  (* the i-th piece: (ctrl, to); its `from` is arc_point at arc_angle i, which lyon recomputes and raqote drops *)
  Definition arc_ctrl (x y r start sweep : f32) (i : Z) : pt :=
    padd (arc_point x y r (arc_angle start sweep i)) (vscale (tangent0 r (arc_angle start sweep i)) (arc_alpha sweep)).
  Definition arc_quad (x y r start sweep : f32) (i : Z) : pt * pt :=
    (arc_ctrl x y r start sweep i, arc_point x y r (arc_angle start sweep (i + 1))).
  Definition lyon_arc (x y r start sweep : f32) : pt * list (pt * pt) :=
    (arc_from x y r start sweep, map (arc_quad x y r start sweep) (zrange 0 (arc_nsteps sweep))).

  (* PathBuilder::arc *)
  Definition builder_arc (x y r start sweep : f32) : list pathop := call_ops lyon_arc (BArc x y r start sweep).

  Lemma zrange_from_snoc n : forall lo, zrange_from lo (S n) = zrange_from lo n ++ [lo + Z.of_nat n].
  Proof.
    induction n as [|n IH]; intros lo.
    - cbn [zrange_from app]. rewrite Z.add_0_r. reflexivity.
    - change (zrange_from lo (S (S n))) with (lo :: zrange_from (lo + 1) (S n)). rewrite IH.
      cbn [zrange_from app]. replace (lo + 1 + Z.of_nat n) with (lo + Z.of_nat (S n)) by lia. reflexivity.
  Qed.
  Lemma zrange_last k : 0 < k -> zrange 0 k = zrange 0 (k - 1) ++ [k - 1].
  Proof.
    intros H. unfold zrange. replace (Z.to_nat (k - 0)) with (S (Z.to_nat (k - 1 - 0))) by lia.
    rewrite zrange_from_snoc. replace (0 + Z.of_nat (Z.to_nat (k - 1 - 0))) with (k - 1) by lia. reflexivity.
  Qed.

  Definition is_quad_op (o : pathop) : bool := match o with QuadTo _ _ => true | _ => false end.

  Theorem arc_structure x y r start sweep :
    let k := arc_nsteps sweep in
    (* a LineTo to the arc's starting point, then k quadratic curves, k fixed by the clamped sweep alone *)
    builder_arc x y r start sweep =
      LineTo (arc_from x y r start sweep)
      :: map (fun i => QuadTo (arc_ctrl x y r start sweep i) (arc_point x y r (arc_angle start sweep (i + 1))))
             (zrange 0 k) /\
    length (builder_arc x y r start sweep) = S (Z.to_nat k) /\
    forallb is_quad_op (tl (builder_arc x y r start sweep)) = true /\
    k = fceil_z (fdiv (fmin (fabs sweep) f_two_pi) f_frac_pi_4) /\
    (* the starting point: centre + r (cos, sin) of the angle start + sweep * 0, through the rotation by zero *)
    arc_from x y r start sweep =
      (let a := fadd start (fmul sweep f0) in
       let cx := fmul r (fcos a) in let sy := fmul r (fsin a) in
       (fadd x (fsub (fmul cx f1) (fmul sy f0)), fadd y (fadd (fmul sy f1) (fmul cx f0)))) /\
    (* the i-th curve ends where the (i+1)-th begins (lyon computes both from the same angle), and the last one
       ends at the point of angle start + step * k *)
    (0 < k -> exists c, last (builder_arc x y r start sweep) Close = QuadTo c (arc_point x y r (arc_angle start sweep k))).
  Proof.
    cbv zeta. unfold builder_arc. cbn [call_ops]. unfold lyon_arc, arc_ops_with. rewrite map_map. cbn [fst snd arc_quad].
    split; [reflexivity|]. split; [|split; [|split; [reflexivity|split; [reflexivity|]]]].
    - cbn [length]. rewrite map_length. unfold zrange. rewrite zrange_from_length. f_equal. lia.
    - cbn [tl]. induction (zrange 0 (arc_nsteps sweep)) as [|i l IH]; [reflexivity|]. cbn [map forallb is_quad_op]. exact IH.
    - intros Hk. rewrite (zrange_last _ Hk), map_app. cbn [map].
      eexists. rewrite app_comm_cons, last_last. replace (arc_nsteps sweep - 1 + 1) with (arc_nsteps sweep) by lia. reflexivity.
  Qed.
End LyonArc.
Print Assumptions arc_structure.

(* the constants and the number of pieces on concrete sweeps (k never exceeds 8: proved in general in PathShapeArc.v) *)
Example arc_constants : (to_bits f_two_pi, to_bits (fdiv f_two_pi f_frac_pi_4)) = (1086918619, to_bits (of_int 8)).
Proof. vm_compute. reflexivity. Qed.

(* ---------- 8. Path::transform ---------- *)
Definition op_kind (o : pathop) : Z :=
  match o with MoveTo _ => 0 | LineTo _ => 1 | QuadTo _ _ => 2 | CubicTo _ _ _ _ => 3 | Close => 4 end.
(* the points of an op, in order *)
Definition op_points (o : pathop) : list pt :=
  match o with
  | MoveTo p | LineTo p => [p]
  | QuadTo c p => [c; p]
  | CubicTo a b p _ => [a; b; p]
  | Close => []
  end.

Lemma op_transform_kind t o : op_kind (op_transform t o) = op_kind o.
Proof. destruct o; reflexivity. Qed.
Lemma op_transform_points t o : op_points (op_transform t o) = map (xf_point t) (op_points o).
Proof. destruct o; reflexivity. Qed.

(* number, kind and order of the ops, the winding rule; every point is the image of the point at the same place;
   and flat ops stay flat, curves stay curves *)
Theorem transform_preserves_structure_strong t p :
  length (p_ops (path_transform t p)) = length (p_ops p) /\
  map op_kind (p_ops (path_transform t p)) = map op_kind (p_ops p) /\
  map op_points (p_ops (path_transform t p)) = map (fun o => map (xf_point t) (op_points o)) (p_ops p) /\
  p_winding (path_transform t p) = p_winding p /\
  map flat_op (p_ops (path_transform t p)) = map flat_op (p_ops p) /\
  filter flat_op (p_ops (path_transform t p)) = map (op_transform t) (filter flat_op (p_ops p)).
Proof.
  unfold path_transform. cbn [p_ops p_winding]. rewrite map_length, !map_map.
  split; [reflexivity|]. split; [apply map_ext, op_transform_kind|]. split; [apply map_ext, op_transform_points|].
  split; [reflexivity|]. split; [apply map_ext; intros o; destruct o; reflexivity|].
  induction (p_ops p) as [|o l IH]; [reflexivity|]. cbn [map filter].
  replace (flat_op (op_transform t o)) with (flat_op o) by (destruct o; reflexivity).
  destruct (flat_op o); cbn [map]; rewrite IH; reflexivity.
Qed.
Print Assumptions transform_preserves_structure_strong.

(* transforming twice is transforming every op twice (NOT transforming by the product: see the counterexample) *)
Theorem transform_twice a b p :
  path_transform b (path_transform a p) = mk_path (map (fun o => op_transform b (op_transform a o)) (p_ops p)) (p_winding p).
Proof. unfold path_transform. cbn [p_ops p_winding]. rewrite map_map. reflexivity. Qed.

(* transform commutes with the structure of flatten: the flattened transformed path is the transformed flattened path
   when the oracle's points are transformed too *)
Theorem flatten_transform_commute t ops : forall oracle cur start,
  flatten_ops (map (op_transform t) ops) (map (map (xf_point t)) oracle) (option_map (xf_point t) cur) (option_map (xf_point t) start)
  = map (op_transform t) (flatten_ops ops oracle cur start).
Proof.
  induction ops as [|o l IH]; intros oracle cur start; [reflexivity|].
  assert (Hhd : hd [] (map (map (xf_point t)) oracle) = map (xf_point t) (hd [] oracle)) by (destruct oracle; reflexivity).
  assert (Htl : tl (map (map (xf_point t)) oracle) = map (map (xf_point t)) (tl oracle)) by (destruct oracle; reflexivity).
  destruct o as [p|p|c p|c1 c2 p q|]; cbn [map op_transform flatten_ops].
  - rewrite <- IH. reflexivity.
  - rewrite <- IH. destruct cur; reflexivity.
  - rewrite !map_app, <- IH, Hhd, Htl, !map_map. destruct cur; reflexivity.
  - rewrite !map_app, <- IH, Hhd, Htl, !map_map. destruct cur; reflexivity.
  - rewrite <- IH. reflexivity.
Qed.

(* ================================================================================================== *)
(*                                   9. Examples (non-vacuity)                                        *)
(* ================================================================================================== *)

(* --- C16 --- *)
(* a curve as first op, a Close, a curve after the Close, a line: the pieces, the cursor, the tags *)
Example ex_decomposition : forall c q d1 d2 e l1 l2 z,
  let ops := [QuadTo c q; Close; CubicTo d1 d2 e []; LineTo z] in
  let oracle := [[l1; q]; [l2; e]] in
  flat_pieces ops oracle (None, None)
    = [[LineTo c; LineTo l1; LineTo q]; [Close]; [LineTo l2; LineTo e]; [LineTo z]] /\
  flatten_ops ops oracle None None = [LineTo c; LineTo l1; LineTo q; Close; LineTo l2; LineTo e; LineTo z] /\
  oracle_ends_ok ops oracle /\
  (* after Close the second curve starts at the subpath start c in both paths *)
  curve_starts ops None None = [c; c] /\
  fl_run (None, None) [QuadTo c q; Close] = (Some c, Some c) /\
  fl_run (None, None) (flatten_ops [QuadTo c q; Close] oracle None None) = (Some c, Some c) /\
  (* after the second curve both are at e *)
  fl_run (None, None) [QuadTo c q; Close; CubicTo d1 d2 e []] = (Some e, Some c) /\
  fl_run (None, None) (flatten_ops [QuadTo c q; Close; CubicTo d1 d2 e []] oracle None None) = (Some e, Some c) /\
  map snd (filter (fun x => negb (fst x)) (flat_tagged ops oracle (None, None))) = [Close; LineTo z].
Proof.
  intros. cbv zeta. repeat split; try reflexivity.
  - exists [l1]. reflexivity.
  - exists [l2]. reflexivity.
Qed.

(* the hypothesis on the oracle is needed: with an empty list for the curve the flattened path is left behind *)
Example ex_oracle_hypothesis_needed : forall a c q,
  fl_run (None, None) (flatten_ops [MoveTo a; QuadTo c q] [[]] None None) = (Some a, Some a) /\
  fl_run (None, None) [MoveTo a; QuadTo c q] = (Some q, Some a).
Proof. intros. split; reflexivity. Qed.
(* ... and with a list that does not end at the curve's end point *)
Example ex_oracle_hypothesis_needed2 : forall a c q l,
  fl_run (None, None) (flatten_ops [MoveTo a; QuadTo c q] [[l]] None None) = (Some l, Some a).
Proof. intros. reflexivity. Qed.

Example ex_after_close : forall a b c q z l oracle_rest,
  flatten_ops ([MoveTo a; LineTo b; QuadTo c q] ++ Close :: [LineTo z]) ([l; q] :: oracle_rest) None None
  = [MoveTo a; LineTo b; LineTo l; LineTo q] ++ Close :: flatten_ops [LineTo z] oracle_rest (Some a) (Some a).
Proof.
  intros.
  destruct (flatten_cursor_after_close [] a [LineTo b; QuadTo c q] [LineTo z] ([l; q] :: oracle_rest) eq_refl)
    as (_ & H & _).
  exact H.
Qed.

Example ex_idempotent : forall c q l, flatten_ops (flatten_ops [QuadTo c q] [[l; q]] None None) [] None None = [LineTo c; LineTo l; LineTo q].
Proof. reflexivity. Qed.

(* --- C20: the builder --- *)
Example ex_builder : forall (arcf : f32 -> f32 -> f32 -> f32 -> f32 -> pt * list (pt * pt)) x y w h a b,
  b_run arcf b_new [BMoveTo a b; BRect x y w h; BLineTo a b; BClose]
  = mk_path [MoveTo (a, b); MoveTo (x, y); LineTo (fadd x w, y); LineTo (fadd x w, fadd y h); LineTo (x, fadd y h); Close;
             LineTo (a, b); Close] NonZero.
Proof. reflexivity. Qed.
Example ex_builder_arc : forall x y r s w from c1 p1 c2 p2,
  b_run (fun _ _ _ _ _ => (from, [(c1, p1); (c2, p2)])) (mk_path [Close] EvenOdd) [BArc x y r s w; BClose]
  = mk_path [Close; LineTo from; QuadTo c1 p1; QuadTo c2 p2; Close] EvenOdd.
Proof. intros. destruct from, c1, p1, c2, p2. reflexivity. Qed.

(* --- C20: PathBuilder::arc against the crate.  The expected lists are the bit patterns of the ops the real
   PathBuilder::arc (raqote at /repo, lyon_geom 1.0.19, glibc libm) pushed for these arguments; sin / cos / tan are
   given as tables of the values libm returned for the arguments that occur. --- *)
Definition tbl (l : list (Z * Z)) (x : f32) : f32 :=
  match find (fun e => fst e =? to_bits x) l with Some e => of_bits (snd e) | None => of_bits 0 end.
Definition op_bits (o : pathop) : list Z := map to_bits (flat_map (fun p => [px p; py p]) (op_points o)).
Definition arc_bits (sin cos tan : list (Z * Z)) (x y r s w : Z) : list (list Z) :=
  map op_bits (builder_arc (tbl sin) (tbl cos) (tbl tan) (of_bits x) (of_bits y) (of_bits r) (of_bits s) (of_bits w)).

(* arc(10, 20, 5, 0, pi/2): 2 curves *)
Example ex_arc_quarter :
  arc_bits [(0,0); (1061752795,1060439283); (1070141403,1065353216)]
           [(0,1065353216); (1061752795,1060439283); (1070141403,3007036718)] [(1053364187,1054086093)]
           1092616192 1101004800 1084227584 0 1070141403
  = [[1097859072; 1101004800];
     [1097859072; 1102090636; 1096323468; 1102858438];
     [1094787864; 1103626240; 1092616192; 1103626240]].
Proof. vm_compute. reflexivity. Qed.
(* arc(3.5, -2.25, 7, 1, -2): negative sweep, 3 curves *)
Example ex_arc_negative_sweep :
  arc_bits [(1065353216,1062693540); (1051372202,1051166224); (3198855852,3198649873); (3212836864,3210177188)]
           [(1065353216,1057640768); (1051372202,1064429747); (3198855852,1064429747); (3212836864,1057640768)]
           [(3198855851,3199289382)]
           1080033280 3222274048 1088421888 1065353216 3221225472
  = [[1089013528; 1080621728];
     [1091904893; 1075128988; 1092736462; 1025856384];
     [1093568031; 3222274049; 1092736462; 3230747304];
     [1091904893; 3235550544; 1089013528; 3238149800]].
Proof. vm_compute. reflexivity. Qed.
(* arc(100, 100, 50, 0.3, 100): the sweep is clamped to one full turn, 8 curves *)
Example ex_arc_clamped :
  arc_bits [(1050253722,1050103405);(1066069588,1063415267);(1072657986,1064603886);(1076494103,1055842568);(1079788302,3197587054);
            (1082606467,3210898918);(1084253566,3212087534);(1085900666,3203326199);(1087547765,1050103416)]
           [(1050253722,1064603887);(1066069588,1055842566);(1072657986,3197587056);(1076494103,3210898915);(1079788302,3212087534);
            (1082606467,3203326204);(1084253566,1050103411);(1085900666,1063415271);(1087547765,1064603885)]
           [(1053364187,1054086093)]
           1120403456 1120403456 1112014848 1050253722 1120403456
  = [[1125368911; 1122340177];
     [1124967803; 1124503498; 1123461107; 1125136758];
     [1121060082; 1125770018; 1118466734; 1125368910];
     [1115873387; 1124967802; 1113528871; 1123461108];
     [1110995830; 1121060082; 1112600262; 1118466734];
     [1114204695; 1115873387; 1117345807; 1113528868];
     [1119746833; 1110995828; 1122340178; 1112600262];
     [1124503498; 1114204696; 1125136759; 1117345808];
     [1125770019; 1119746834; 1125368910; 1122340180]].
Proof. vm_compute. reflexivity. Qed.
(* arc(1, 2, 3, 0.5, 0): a zero sweep gives the LineTo alone *)
Example ex_arc_zero_sweep :
  arc_bits [(1056964608,1056274244)] [(1056964608,1063299392)] [] 1065353216 1073741824 1077936128 1056964608 0
  = [[1080590064; 1079774394]].
Proof. vm_compute. reflexivity. Qed.
(* arc(1, 2, 3, 0.5, 1e-30): one degenerate curve *)
Example ex_arc_tiny_sweep :
  arc_bits [(1056964608,1056274244)] [(1056964608,1063299392)] [(220349024,220349024)]
           1065353216 1073741824 1077936128 1056964608 228737632
  = [[1080590064; 1079774394]; [1080590064; 1079774394; 1080590064; 1079774394]].
Proof. vm_compute. reflexivity. Qed.
(* arc(-0.0, -0.0, 1, pi, 0.1): signed zeros through the rotation by zero *)
Example ex_arc_negative_zero_centre :
  arc_bits [(1078530011,3015425326);(1078949441,3184293237)] [(1078530011,3212836864);(1078949441,3212753048)]
           [(1028443341,1028454537)] 2147483648 2147483648 1065353216 1078530011 1036831949
  = [[3212836864; 3015425326]; [3212836864; 3175938208; 3212753048; 3184293237]].
Proof. vm_compute. reflexivity. Qed.
(* the number of pieces on the sweeps above, and for infinities and NaN (8: f32::min ignores the NaN) *)
Example ex_arc_nsteps :
  map (fun b => arc_nsteps (of_bits b)) [1070141403; 3221225472; 1120403456; 0; 2147483648; 228737632; 2139095040; 4286578688; 2143289344]
  = [2; 3; 8; 0; 0; 1; 8; 8; 8].
Proof. vm_compute. reflexivity. Qed.

(* --- C20: Path::transform does NOT compose in f32 --- *)
(* scale(0.1, 0.1) then scale(7, 7) on the point (3, 3): (3 * 0.1) * 7 = 2.1000001 but 3 * (0.1 * 7) = 2.0999999 *)
Example transform_composition_counterexample :
  let a := xf_scale (of_bits 1036831949) (of_bits 1036831949) in
  let b := xf_scale (of_int 7) (of_int 7) in
  let p := mk_path [MoveTo (of_int 3, of_int 3)] NonZero in
  map op_bits (p_ops (path_transform b (path_transform a p))) = [[1074161255; 1074161255]] /\
  map op_bits (p_ops (path_transform (xf_then a b) p)) = [[1074161254; 1074161254]] /\
  path_transform b (path_transform a p) <> path_transform (xf_then a b) p.
Proof.
  cbv zeta. split; [vm_compute; reflexivity|]. split; [vm_compute; reflexivity|].
  intros H. apply (f_equal (fun q => map op_bits (p_ops q))) in H. vm_compute in H. discriminate H.
Qed.
(* and the identity transform is not the identity on paths: -0.0 becomes +0.0 (-0 * 1 + -0 * 0 + 0) *)
Example transform_identity_counterexample :
  let p := mk_path [MoveTo (fneg f0, fneg f0)] NonZero in
  map op_bits (p_ops p) = [[2147483648; 2147483648]] /\
  map op_bits (p_ops (path_transform xf_identity p)) = [[0; 0]] /\
  path_transform xf_identity p <> p.
Proof.
  cbv zeta. split; [vm_compute; reflexivity|]. split; [vm_compute; reflexivity|].
  intros H. apply (f_equal (fun q => map op_bits (p_ops q))) in H. vm_compute in H. discriminate H.
Qed.

Example ex_transform : forall t a c q,
  path_transform t (mk_path [MoveTo a; QuadTo c q; Close] EvenOdd)
  = mk_path [MoveTo (xf_point t a); QuadTo (xf_point t c) (xf_point t q); Close] EvenOdd.
Proof. reflexivity. Qed.
