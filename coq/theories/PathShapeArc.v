(* PathBuilder::arc never emits more than 8 quadratic curves (PathShape.arc_nsteps is in 0..8), for every f32 sweep
   including infinities and NaN: the sweep is clamped to 2 pi and 2 pi / (pi / 4) = 8 exactly in f32; rounding is
   monotone.  The only file of the task that looks at float values. *)
From Flocq Require Import Core IEEE754.BinarySingleNaN IEEE754.Binary IEEE754.Bits.
Import Flocq.IEEE754.Binary.
Require Import RQ.Base RQ.F32 RQ.Rect RQ.Raster RQ.PathF RQ.PathOps RQ.FillProofs RQ.PathRange RQ.PathShape.
From Coq Require Import Reals Lia Lra.

Local Instance prec24' : Prec_gt_0 24 := prec32.
Local Instance fexp32_valid' : Valid_exp (SpecFloat.fexp 24 128) := fexp_correct 24 128 prec32.

Definition is_pos_finite (x : f32) : bool := match x with B754_finite _ _ false _ _ _ => true | _ => false end.
Lemma pos_finite_shape x : is_pos_finite x = true -> exists m e H, x = B754_finite 24 128 false m e H.
Proof. destruct x as [s|s|s pl e|s m e H]; try discriminate. destruct s; [discriminate|]. intros _. eauto. Qed.
Lemma c_shape : exists m e H, f_frac_pi_4 = B754_finite 24 128 false m e H.
Proof. apply pos_finite_shape. vm_compute. reflexivity. Qed.
Lemma c_pos : fin f_frac_pi_4 /\ (0 < RV f_frac_pi_4)%R.
Proof.
  destruct c_shape as (m & e & H & ->). split; [reflexivity|].
  cbn [B2R]. apply F2R_gt_0. cbn [Fnum cond_Zopp]. lia.
Qed.
Lemma two_pi_shape : exists m e H, f_two_pi = B754_finite 24 128 false m e H.
Proof. apply pos_finite_shape. vm_compute. reflexivity. Qed.
Lemma two_pi_fin : fin f_two_pi.
Proof. destruct two_pi_shape as (m & e & H & ->). reflexivity. Qed.

Lemma fdiv_correct a : fin a ->
  if Rlt_bool (Rabs (rnd (RV a / RV f_frac_pi_4))) (bpow radix2 128)
  then RV (fdiv a f_frac_pi_4) = rnd (RV a / RV f_frac_pi_4) /\ fin (fdiv a f_frac_pi_4)
  else exists s, fdiv a f_frac_pi_4 = B754_infinity 24 128 s.
Proof.
  intros Fa. destruct c_pos as [Fc Pc].
  pose proof (Bdiv_correct 24 128 eq_refl eq_refl binop_nan_pl32 mode_NE a f_frac_pi_4 ltac:(lra)) as H.
  change (Bdiv 24 128 eq_refl eq_refl binop_nan_pl32 mode_NE a f_frac_pi_4) with (fdiv a f_frac_pi_4) in H.
  destruct (Rlt_bool _ _).
  - destruct H as (H1 & H2 & _). rewrite Fa in H2. split; assumption.
  - eexists. apply overflow_NE_inf. exact H.
Qed.

Lemma eight_is_round : rnd (RV f_two_pi / RV f_frac_pi_4) = 8%R.
Proof.
  pose proof (fdiv_correct f_two_pi two_pi_fin) as H.
  assert (E : feq (of_int 8) (fdiv f_two_pi f_frac_pi_4) = true) by (vm_compute; reflexivity).
  destruct (feq_fint _ _ 8 (of_int_fint 8 ltac:(unfold small; lia)) E) as [F8 V8].
  destruct (Rlt_bool _ _).
  - destruct H as [H _]. rewrite <- H. exact V8.
  - destruct H as [s H]. rewrite H in F8. discriminate F8.
Qed.

(* the clamped magnitude of the sweep is a finite float between 0 and 2 pi *)
Lemma sweep_abs_range sweep :
  let a := arc_sweep_abs sweep in fin a /\ (0 <= RV a <= RV f_two_pi)%R.
Proof.
  cbv zeta. unfold arc_sweep_abs, fmin.
  pose proof two_pi_fin as F2. destruct two_pi_shape as (m2 & e2 & H2 & E2).
  assert (P2 : (0 <= RV f_two_pi)%R).
  { rewrite E2. cbn [B2R]. apply F2R_ge_0. cbn [Fnum cond_Zopp]. lia. }
  assert (N2 : fis_nan f_two_pi = false) by (rewrite E2; reflexivity).
  destruct sweep as [s|s|s pl e|s m e Hb].
  - (* zero *)
    assert (E : fabs (B754_zero 24 128 s) = B754_zero 24 128 false) by reflexivity.
    rewrite E. change (fis_nan (B754_zero 24 128 false)) with false. rewrite N2. cbv iota.
    rewrite E2. change (flt (B754_finite 24 128 false m2 e2 H2) (B754_zero 24 128 false)) with false. cbv iota.
    split; [reflexivity|]. rewrite <- E2. cbn [B2R]. lra.
  - (* infinity *)
    assert (E : fabs (B754_infinity 24 128 s) = B754_infinity 24 128 false) by reflexivity.
    rewrite E. change (fis_nan (B754_infinity 24 128 false)) with false. rewrite N2. cbv iota.
    rewrite E2. change (flt (B754_finite 24 128 false m2 e2 H2) (B754_infinity 24 128 false)) with true. cbv iota.
    rewrite <- E2. split; [exact F2|lra].
  - (* NaN *)
    assert (E : fis_nan (fabs (B754_nan 24 128 s pl e)) = true) by reflexivity.
    rewrite E. split; [exact F2|lra].
  - (* finite *)
    assert (E : fabs (B754_finite 24 128 s m e Hb) = B754_finite 24 128 false m e Hb) by reflexivity.
    rewrite E. change (fis_nan (B754_finite 24 128 false m e Hb)) with false. rewrite N2. cbv iota.
    set (x := B754_finite 24 128 false m e Hb).
    assert (Fx : fin x) by reflexivity.
    assert (Px : (0 <= RV x)%R) by (unfold x; cbn [B2R]; apply F2R_ge_0; cbn [Fnum cond_Zopp]; lia).
    unfold flt, fcmp, b32_compare. rewrite (Bcompare_correct 24 128 _ _ F2 Fx).
    destruct (Rcompare (RV f_two_pi) (RV x)) eqn:Ec.
    + apply Rcompare_Eq_inv in Ec. split; [exact Fx|lra].
    + split; [exact F2|lra].
    + apply Rcompare_Gt_inv in Ec. split; [exact Fx|lra].
Qed.

Theorem arc_nsteps_bound sweep : (0 <= arc_nsteps sweep <= 8)%Z.
Proof.
  unfold arc_nsteps.
  destruct (sweep_abs_range sweep) as [Fa [La Ua]]. cbv zeta in *.
  set (a := arc_sweep_abs sweep) in *.
  destruct c_pos as [Fc Pc].
  assert (R0 : (0 <= rnd (RV a / RV f_frac_pi_4))%R).
  { rewrite <- (round_0 radix2 (SpecFloat.fexp 24 128) (round_mode mode_NE)).
    apply round_le; [exact fexp32_valid'|apply valid_rnd_round_mode|].
    apply Rmult_le_pos; [exact La|]. apply Rlt_le, Rinv_0_lt_compat, Pc. }
  assert (R8 : (rnd (RV a / RV f_frac_pi_4) <= 8)%R).
  { rewrite <- eight_is_round. apply round_le; [exact fexp32_valid'|apply valid_rnd_round_mode|].
    apply Rmult_le_compat_r; [apply Rlt_le, Rinv_0_lt_compat, Pc|exact Ua]. }
  pose proof (fdiv_correct a Fa) as H.
  rewrite Rlt_bool_true in H.
  2:{ rewrite Rabs_pos_eq by exact R0. apply Rle_lt_trans with (1 := R8).
      apply Rlt_le_trans with (bpow radix2 4); [change (bpow radix2 4) with 16%R; lra|apply bpow_le; lia]. }
  destruct H as [Vq Fq]. set (q := fdiv a f_frac_pi_4) in *.
  unfold fceil_z. rewrite (ftrunc_finite q Fq).
  assert (T0 : (0 <= Ztrunc (RV q))%Z).
  { rewrite <- (Ztrunc_IZR 0). apply Ztrunc_le. rewrite Vq. exact R0. }
  assert (T8 : (Ztrunc (RV q) <= 8)%Z).
  { rewrite <- (Ztrunc_IZR 8). apply Ztrunc_le. rewrite Vq. exact R8. }
  set (v := Ztrunc (RV q)) in *.
  destruct (flt (of_int v) q) eqn:El; [|lia].
  assert (v <> 8)%Z; [|lia]. intros E8.
  destruct (of_int_fint v ltac:(unfold small; lia)) as [Fv Vv].
  unfold flt, fcmp, b32_compare in El. rewrite (Bcompare_correct 24 128 _ _ Fv Fq), Vv in El.
  destruct (Rcompare (IZR v) (RV q)) eqn:Ec; try discriminate El.
  apply Rcompare_Lt_inv in Ec. rewrite E8, Vq in Ec. lra.
Qed.
Print Assumptions arc_nsteps_bound.

(* PathBuilder::arc pushes between 1 and 9 ops *)
Corollary arc_op_count fsin fcos ftan x y r start sweep :
  (1 <= length (builder_arc fsin fcos ftan x y r start sweep) <= 9)%nat.
Proof.
  destruct (arc_structure fsin fcos ftan x y r start sweep) as (_ & L & _). cbv zeta in L. rewrite L.
  pose proof (arc_nsteps_bound sweep). lia.
Qed.
