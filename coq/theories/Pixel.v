(* sw-composite 0.7.16 primitives and the 28 blend modes as raqote uses them
   (lib.rs, blend.rs of the pinned dependency), written with the code's own packed
   two-lane arithmetic on u32 words.  Pixels are Z in [0, 2^32).
   u32 operations that cannot overflow on premultiplied inputs are plain Z operations;
   where the code wraps on purpose (wrapping_sub / wrapping_mul, <<) the wrap is explicit.
   pack_argb32's debug_assert!(r <= a && g <= a && b <= a) is modelled: blend returns
   Err DebugAssert where a build with debug assertions panics. *)
Require Import RQ.Base.

Definition MASK : Z := 16711935.        (* 0x00ff00ff *)
Definition NMASK : Z := 4278255360.     (* 0xff00ff00 *)

Definition packed_alpha (x : Z) : Z := Z.shiftr x 24.
Definition get_a (x : Z) : Z := Z.land (Z.shiftr x 24) 255.
Definition get_r (x : Z) : Z := Z.land (Z.shiftr x 16) 255.
Definition get_g (x : Z) : Z := Z.land (Z.shiftr x 8) 255.
Definition get_b (x : Z) : Z := Z.land x 255.
Definition pack (a r g b : Z) : Z :=
  Z.lor (Z.lor (Z.shiftl a 24) (Z.shiftl r 16)) (Z.lor (Z.shiftl g 8) b).
(* pack_argb32 with its debug assertions *)
Definition pack_argb32 (a r g b : Z) : result Z :=
  if (r <=? a) && (g <=? a) && (b <=? a) then Ok (pack a r g b) else Err DebugAssert.

Definition alpha_to_alpha256 (a : Z) : Z := a + 1.
Definition alpha_mul_inv256 (value alpha256 : Z) : Z :=
  let prod := value * alpha256 in 256 - Z.shiftr (prod + Z.shiftr prod 8) 8.
Definition alpha_mul_256 (value alpha256 : Z) : Z :=
  let prod := value * alpha256 in Z.shiftr (prod + Z.shiftr prod 8) 8.
Definition muldiv255 (a b : Z) : Z := let tmp := a * b + 128 in Z.shiftr (tmp + Z.shiftr tmp 8) 8.
Definition div255 (a : Z) : Z := let tmp := a + 128 in Z.shiftr (tmp + Z.shiftr tmp 8) 8.

Definition lerp (a b t : Z) : Z :=
  let brb := Z.land b MASK in
  let bag := Z.land (Z.shiftr b 8) MASK in
  let arb := Z.land a MASK in
  let aag := Z.land (Z.shiftr a 8) MASK in
  let drb := wrapu32 (brb - arb) in
  let dag := wrapu32 (bag - aag) in
  let drb := Z.shiftr (wrapu32 (drb * t)) 8 in
  let dag := Z.shiftr (wrapu32 (dag * t)) 8 in
  let rb := arb + drb in
  let ag := aag + dag in
  Z.lor (Z.land rb MASK) (Z.land (wrapu32 (Z.shiftl ag 8)) NMASK).

Definition over (src dst : Z) : Z :=
  let a := 256 - packed_alpha src in
  let rb := Z.shiftr (Z.land dst MASK * a) 8 in
  let ag := Z.land (Z.shiftr dst 8) MASK * a in
  wrapu32 (src + Z.lor (Z.land rb MASK) (Z.land ag NMASK)).

Definition alpha_mul (x a : Z) : Z :=
  let src_rb := Z.shiftr (Z.land x MASK * a) 8 in
  let src_ag := Z.land (Z.shiftr x 8) MASK * a in
  Z.lor (Z.land src_rb MASK) (Z.land src_ag NMASK).

Definition over_in_scaled (src dst src_alpha : Z) : Z :=
  let dst_alpha := alpha_mul_inv256 (packed_alpha src) src_alpha in
  let src_rb := Z.land src MASK * src_alpha in
  let src_ag := Z.land (Z.shiftr src 8) MASK * src_alpha in
  let dst_rb := Z.land dst MASK * dst_alpha in
  let dst_ag := Z.land (Z.shiftr dst 8) MASK * dst_alpha in
  Z.lor (Z.land (Z.shiftr (src_rb + dst_rb) 8) MASK) (Z.land (wrapu32 (src_ag + dst_ag)) NMASK).

Definition over_in (src dst alpha : Z) : Z := over_in_scaled src dst (alpha_to_alpha256 alpha).
Definition over_in_in (src dst mask clip : Z) : Z :=
  over_in_scaled src dst (alpha_to_alpha256 (alpha_mul_256 clip (alpha_to_alpha256 mask))).

Definition premultiply (c : Z) : result Z :=
  let a := get_a c in let r := get_r c in let g := get_g c in let b := get_b c in
  if a <? 255 then pack_argb32 a (muldiv255 r a) (muldiv255 g a) (muldiv255 b a)
  else pack_argb32 a r g b.

(* ------------------------------------------------------------------ *)
(* blend modes, in the order of raqote::BlendMode *)
Inductive mode :=
  | Dst | Src | Clear | SrcOver | DstOver | SrcIn | DstIn | SrcOut | DstOut | SrcAtop | DstAtop | Xor | Add
  | Screen | Overlay | Darken | Lighten | ColorDodge | ColorBurn | HardLight | SoftLight
  | Difference | Exclusion | Multiply | Hue | Saturation | Color | Luminosity.

Definition all_modes : list mode :=
  [Dst; Src; Clear; SrcOver; DstOver; SrcIn; DstIn; SrcOut; DstOut; SrcAtop; DstAtop; Xor; Add;
   Screen; Overlay; Darken; Lighten; ColorDodge; ColorBurn; HardLight; SoftLight;
   Difference; Exclusion; Multiply; Hue; Saturation; Color; Luminosity].

Definition mode_eqb (a b : mode) : bool :=
  match a, b with
  | Dst, Dst | Src, Src | Clear, Clear | SrcOver, SrcOver | DstOver, DstOver | SrcIn, SrcIn | DstIn, DstIn
  | SrcOut, SrcOut | DstOut, DstOut | SrcAtop, SrcAtop | DstAtop, DstAtop | Xor, Xor | Add, Add
  | Screen, Screen | Overlay, Overlay | Darken, Darken | Lighten, Lighten | ColorDodge, ColorDodge
  | ColorBurn, ColorBurn | HardLight, HardLight | SoftLight, SoftLight | Difference, Difference
  | Exclusion, Exclusion | Multiply, Multiply | Hue, Hue | Saturation, Saturation | Color, Color
  | Luminosity, Luminosity => true
  | _, _ => false
  end.

Definition saturated_add8 (a b : Z) : Z := let s := a + b in if 255 <? s then 255 else s.
Definition srcover_byte (a b : Z) : Z := a + b - muldiv255 a b.
Definition clamp_div255round (prod : Z) : Z :=
  if prod <=? 0 then 0 else if 65025 <=? prod then 255 else div255 prod.
Definition clamp_signed_byte (n : Z) : Z := if n <? 0 then 0 else if 255 <? n then 255 else n.

Definition multiply_byte (sc dc sa da : Z) : Z := clamp_div255round (sc * (255 - da) + dc * (255 - sa) + sc * dc).
Definition overlay_byte (sc dc sa da : Z) : Z :=
  let tmp := sc * (255 - da) + dc * (255 - sa) in
  let rc := if 2 * dc <=? da then 2 * sc * dc else sa * da - 2 * (da - dc) * (sa - sc) in
  clamp_div255round (rc + tmp).
Definition darken_byte (sc dc sa da : Z) : Z :=
  let sd := sc * da in let ds := dc * sa in
  if sd <? ds then sc + dc - div255 ds else dc + sc - div255 sd.
Definition lighten_byte (sc dc sa da : Z) : Z :=
  let sd := sc * da in let ds := dc * sa in
  if ds <? sd then sc + dc - div255 ds else dc + sc - div255 sd.
Definition colordodge_byte (sc dc sa da : Z) : Z :=
  let diff := sa - sc in
  if dc =? 0 then muldiv255 sc (255 - da)
  else if diff =? 0 then clamp_div255round (sa * da + sc * (255 - da) + dc * (255 - sa))
  else let q := Z.quot (dc * sa) diff in
       clamp_div255round (sa * (if da <? q then da else q) + sc * (255 - da) + dc * (255 - sa)).
Definition colorburn_byte (sc dc sa da : Z) : Z :=
  if dc =? da then clamp_div255round (sa * da + sc * (255 - da) + dc * (255 - sa))
  else if sc =? 0 then muldiv255 dc (255 - sa)
  else let tmp := Z.quot ((da - dc) * sa) sc in
       clamp_div255round (sa * (da - (if da <? tmp then da else tmp)) + sc * (255 - da) + dc * (255 - sa)).
Definition hardlight_byte (sc dc sa da : Z) : Z :=
  let rc := if 2 * sc <=? sa then 2 * sc * dc else sa * da - 2 * (da - dc) * (sa - sc) in
  clamp_div255round (rc + sc * (255 - da) + dc * (255 - sa)).
(* sqrt_bits breaks out of its loop after the first iteration (its exit test is `-count < 0`),
   so for the arguments it gets here (0 <= n < 2^30) it returns 0 *)
Definition sqrt_unit_byte (n : Z) : Z := if Z.shiftr n 30 >=? 1 then 1 else 0.
Definition softlight_byte (sc dc sa da : Z) : Z :=
  let m := if da =? 0 then 0 else Z.quot (dc * 256) da in
  let rc :=
    if 2 * sc <=? sa then dc * (sa + Z.shiftr ((2 * sc - sa) * (256 - m)) 8)
    else if 4 * dc <=? da then
      let tmp := Z.shiftr (4 * m * (4 * m + 256) * (m - 256)) 16 + 7 * m in
      dc * sa + Z.shiftr (da * (2 * sc - sa) * tmp) 8
    else
      let tmp := sqrt_unit_byte m - m in
      dc * sa + Z.shiftr (da * (2 * sc - sa) * tmp) 8 in
  clamp_div255round (rc + sc * (255 - da) + dc * (255 - sa)).
Definition difference_byte (sc dc sa da : Z) : Z :=
  let tmp := Z.min (sc * da) (dc * sa) in clamp_signed_byte (sc + dc - 2 * div255 tmp).
Definition exclusion_byte (sc dc sa da : Z) : Z := clamp_div255round (255 * (sc + dc) - 2 * sc * dc).

(* non-separable modes *)
(* lum casts a possibly negative i32 sum to u32 before div255: with overflow checks on, the
   additions inside div255 then overflow u32 and panic (Err Overflow); the result is cast back *)
Definition lum (r g b : Z) : result Z :=
  let u := wrapu32 (r * 77 + g * 150 + b * 28) in
  let tmp := u + 128 in
  if 4294967295 <? tmp then Err PixelOverflow else
  let t2 := tmp + Z.shiftr tmp 8 in
  if 4294967295 <? t2 then Err PixelOverflow else Ok (Z.shiftr t2 8).
Definition mul_div (n1 n2 d : Z) : Z := Z.quot (n1 * n2) d.
Definition min3 (a b c : Z) := Z.min (Z.min a b) c.
Definition max3 (a b c : Z) := Z.max (Z.max a b) c.
Definition clip_color (rgb : Z * Z * Z) (a : Z) : result (Z * Z * Z) :=
  let '(r, g, b) := rgb in
  do L <- lum r g b;
  let n := min3 r g b in
  let x := max3 r g b in
  let denom := L - n in
  let '(r, g, b) :=
    if (n <? 0) && negb (denom =? 0)
    then (L + mul_div (r - L) L denom, L + mul_div (g - L) L denom, L + mul_div (b - L) L denom)
    else (r, g, b) in
  let denom := x - L in
  if (a <? x) && negb (denom =? 0)
  then let numer := a - L in
       Ok (L + mul_div (r - L) numer denom, L + mul_div (g - L) numer denom, L + mul_div (b - L) numer denom)
  else Ok (r, g, b).
Definition sat (r g b : Z) : Z := max3 r g b - min3 r g b.
(* set_saturation_components cmin cmid cmax s = (cmin', cmid', cmax') *)
Definition set_sat_comp (cmin cmid cmax s : Z) : Z * Z * Z :=
  if cmin <? cmax then (0, mul_div (cmid - cmin) s (cmax - cmin), s) else (0, 0, 0).
Definition set_sat (rgb : Z * Z * Z) (s : Z) : Z * Z * Z :=
  let '(r, g, b) := rgb in
  if r <=? g then
    if g <=? b then let '(mn, md, mx) := set_sat_comp r g b s in (mn, md, mx)
    else if r <=? b then let '(mn, md, mx) := set_sat_comp r b g s in (mn, mx, md)
    else let '(mn, md, mx) := set_sat_comp b r g s in (md, mx, mn)
  else if r <=? b then let '(mn, md, mx) := set_sat_comp g r b s in (md, mn, mx)
  else if g <=? b then let '(mn, md, mx) := set_sat_comp g b r s in (mx, mn, md)
  else let '(mn, md, mx) := set_sat_comp b g r s in (mx, md, mn).
Definition set_lum (rgb : Z * Z * Z) (a l : Z) : result (Z * Z * Z) :=
  let '(r, g, b) := rgb in
  do l0 <- lum r g b;
  let d := l - l0 in
  clip_color (r + d, g + d, b + d) a.
Definition nonsep_byte (sc dc sa da blendval : Z) : Z :=
  clamp_div255round (sc * (255 - da) + dc * (255 - sa) + blendval).

Definition sep (f : Z -> Z -> Z -> Z -> Z) (src dst : Z) : result Z :=
  let sa := get_a src in let da := get_a dst in
  pack_argb32 (srcover_byte sa da)
    (f (get_r src) (get_r dst) sa da) (f (get_g src) (get_g dst) sa da) (f (get_b src) (get_b dst) sa da).

Definition nonsep (k : Z * Z * Z -> Z * Z * Z -> Z -> Z -> result (Z * Z * Z)) (src dst : Z) : result Z :=
  let sr := get_r src in let sg := get_g src in let sb := get_b src in let sa := get_a src in
  let dr := get_r dst in let dg := get_g dst in let db := get_b dst in let da := get_a dst in
  do RGB <- (if negb (sa =? 0) && negb (da =? 0) then k (sr, sg, sb) (dr, dg, db) sa da else Ok (0, 0, 0));
  let '(R, G, B) := RGB in
  pack_argb32 (srcover_byte sa da)
    (nonsep_byte sr dr sa da R) (nonsep_byte sg dg sa da G) (nonsep_byte sb db sa da B).

Definition blend (m : mode) (src dst : Z) : result Z :=
  match m with
  | Dst => Ok dst
  | Src => Ok src
  | Clear => Ok 0
  | SrcOver => Ok (over src dst)
  | DstOver => Ok (over dst src)
  | SrcIn => Ok (alpha_mul src (alpha_to_alpha256 (packed_alpha dst)))
  | DstIn => Ok (alpha_mul dst (alpha_to_alpha256 (packed_alpha src)))
  | SrcOut => Ok (alpha_mul src (alpha_to_alpha256 (255 - packed_alpha dst)))
  | DstOut => Ok (alpha_mul dst (alpha_to_alpha256 (255 - packed_alpha src)))
  | SrcAtop =>
      let sa := packed_alpha src in let da := packed_alpha dst in let isa := 255 - sa in
      pack_argb32 da (muldiv255 da (get_r src) + muldiv255 isa (get_r dst))
                     (muldiv255 da (get_g src) + muldiv255 isa (get_g dst))
                     (muldiv255 da (get_b src) + muldiv255 isa (get_b dst))
  | DstAtop =>
      let sa := packed_alpha src in let da := packed_alpha dst in let ida := 255 - da in
      pack_argb32 sa (muldiv255 ida (get_r src) + muldiv255 sa (get_r dst))
                     (muldiv255 ida (get_g src) + muldiv255 sa (get_g dst))
                     (muldiv255 ida (get_b src) + muldiv255 sa (get_b dst))
  | Xor =>
      let sa := packed_alpha src in let da := packed_alpha dst in
      let isa := 255 - sa in let ida := 255 - da in
      pack_argb32 (sa + da - muldiv255 sa da * 2)
                  (muldiv255 ida (get_r src) + muldiv255 isa (get_r dst))
                  (muldiv255 ida (get_g src) + muldiv255 isa (get_g dst))
                  (muldiv255 ida (get_b src) + muldiv255 isa (get_b dst))
  | Add =>
      pack_argb32 (saturated_add8 (get_a src) (get_a dst)) (saturated_add8 (get_r src) (get_r dst))
                  (saturated_add8 (get_g src) (get_g dst)) (saturated_add8 (get_b src) (get_b dst))
  | Screen =>
      pack_argb32 (srcover_byte (get_a src) (get_a dst)) (srcover_byte (get_r src) (get_r dst))
                  (srcover_byte (get_g src) (get_g dst)) (srcover_byte (get_b src) (get_b dst))
  | Overlay => sep overlay_byte src dst
  | Darken => sep darken_byte src dst
  | Lighten => sep lighten_byte src dst
  | ColorDodge => sep colordodge_byte src dst
  | ColorBurn => sep colorburn_byte src dst
  | HardLight => sep hardlight_byte src dst
  | SoftLight => sep softlight_byte src dst
  | Difference => sep difference_byte src dst
  | Exclusion => sep exclusion_byte src dst
  | Multiply => sep multiply_byte src dst
  | Hue => nonsep (fun '(sr, sg, sb) '(dr, dg, db) sa da =>
             do l <- lum dr dg db;
             set_lum (set_sat (sr * sa, sg * sa, sb * sa) (sat dr dg db * sa)) (sa * da) (l * sa)) src dst
  | Saturation => nonsep (fun '(sr, sg, sb) '(dr, dg, db) sa da =>
             do l <- lum dr dg db;
             set_lum (set_sat (dr * sa, dg * sa, db * sa) (sat sr sg sb * da)) (sa * da) (l * sa)) src dst
  | Color => nonsep (fun '(sr, sg, sb) '(dr, dg, db) sa da =>
             do l <- lum dr dg db;
             set_lum (sr * sa, sg * sa, sb * sa) (sa * da) (l * sa)) src dst
  | Luminosity => nonsep (fun '(sr, sg, sb) '(dr, dg, db) sa da =>
             do l <- lum sr sg sb;
             set_lum (dr * sa, dg * sa, db * sa) (sa * da) (l * da)) src dst
  end.

(* the three row procedures of draw_target.rs (after the repairs): per pixel *)
Definition blend_px (m : mode) (src dst : Z) : result Z := blend m src dst.
Definition blend_mask_px (m : mode) (src dst mask : Z) : result Z :=
  if mask =? 0 then Ok dst else do b <- blend m src dst; Ok (lerp dst b (alpha_to_alpha256 mask)).
Definition blend_mask_clip_px (m : mode) (src dst mask clip : Z) : result Z :=
  let a := muldiv255 mask clip in
  if a =? 0 then Ok dst else do b <- blend m src dst; Ok (lerp dst b (alpha_to_alpha256 a)).

Definition premul (p : Z) : bool := (get_r p <=? get_a p) && (get_g p <=? get_a p) && (get_b p <=? get_a p).

(* premultiply never trips its assertion (muldiv255 c a <= a); the total version used by shaders *)
Definition premultiply_t (c : Z) : Z :=
  let a := get_a c in let r := get_r c in let g := get_g c in let b := get_b c in
  if a <? 255 then pack a (muldiv255 r a) (muldiv255 g a) (muldiv255 b a) else pack a r g b.
